#!/usr/bin/env python3
"""verify_seed.py <PROPERTY> <dir> [--tier quick|thorough] [--no-suite] [--keep-as name]

Confirms an independently produced property-breaking change (dir holds patch.diff, a demo and meta.json):
  1. the patch applies to a fresh scratch worktree of /repo HEAD and `go build ./...` succeeds;
  2. the demonstration FAILS with the patch and PASSES without it;
  3. the tests of the touched packages still pass with the patch (unless --no-suite);
  4. runs `verif check <PROPERTY> --patch patch.diff` and reports whether the check raises a VIOLATION.
If everything is confirmed and --keep-as is given, the change is stored as /verif/seeded/<name>/.
/repo itself is never modified."""
import json, os, shutil, subprocess, sys, time

ENV = dict(os.environ, GOFLAGS='-mod=mod', GOPROXY='off', GOSUMDB='off', GOTOOLCHAIN='local')


def run(cmd, cwd=None, timeout=1800):
    t0 = time.time()
    try:
        p = subprocess.run(cmd, cwd=cwd, env=ENV, shell=isinstance(cmd, str), capture_output=True, text=True, timeout=timeout)
        return p.returncode, (p.stdout + p.stderr), time.time() - t0
    except subprocess.TimeoutExpired as e:
        return 124, f'TIMEOUT after {timeout}s\n' + ((e.stdout or b'').decode(errors='replace') if isinstance(e.stdout, bytes) else (e.stdout or '')), time.time() - t0


def main():
    args = sys.argv[1:]
    prop, d = args[0], os.path.abspath(args[1])
    tier = 'quick'
    suite = True
    keep = None
    i = 2
    while i < len(args):
        if args[i] == '--tier':
            tier = args[i + 1]; i += 2
        elif args[i] == '--no-suite':
            suite = False; i += 1
        elif args[i] == '--keep-as':
            keep = args[i + 1]; i += 2
        else:
            sys.exit('bad arg ' + args[i])
    patch = os.path.join(d, 'patch.diff')
    meta = json.load(open(os.path.join(d, 'meta.json')))
    wt = f'/tmp/vseed-{os.getpid()}'
    rc, out, _ = run(['git', '-C', '/repo', 'worktree', 'add', '-q', '--detach', wt, 'HEAD'])
    if rc != 0:
        sys.exit('worktree: ' + out)
    report = {'property': prop, 'dir': d, 'repo_head': subprocess.run(['git', '-C', '/repo', 'log', '--format=%h', '-1'], capture_output=True, text=True).stdout.strip()}
    try:
        files = []
        for l in open(patch):
            if l.startswith('+++ b/'):
                files.append(l[6:].strip())
        report['files_changed'] = files
        pkgs = sorted({'./' + os.path.dirname(f) for f in files})
        # place the demo
        demo_test = os.path.join(d, 'demo_test.go')
        demo_main = os.path.join(d, 'demo', 'main.go')
        if os.path.exists(demo_test):
            pkgdir = meta.get('demo_pkg_dir') or None
            if not pkgdir:
                # guess from the package clause and the changed files / meta text
                txt = meta.get('demo', '')
                cands = [os.path.dirname(f) for f in files]
                for tok in txt.replace(',', ' ').split():
                    tok = tok.strip('`\'"()')
                    if '/' in tok and tok.strip('./') and os.path.isdir(os.path.join(wt, tok.lstrip('./'))):
                        cands.insert(0, tok.lstrip('./'))
                import re
                pk = re.search(r'^package\s+(\w+)', open(demo_test).read(), re.M).group(1)
                pkgdir = None
                for c in cands:
                    base = os.path.basename(c.rstrip('/'))
                    if pk in (base, base + '_test') or pk.replace('_test', '') == base:
                        pkgdir = c
                        break
                if pkgdir is None:
                    pkgdir = cands[0]
            shutil.copy(demo_test, os.path.join(wt, pkgdir, 'zz_seed_demo_test.go'))
            name = None
            for l in open(demo_test):
                if l.startswith('func Test'):
                    name = l.split('(')[0][5:]
                    break
            demo_cmd = f'go test -vet=off -count=1 -run "^{name}$" ./{pkgdir}' if name else f'go test -vet=off -count=1 ./{pkgdir}'
            if 'race' in meta.get('demo', '').lower() and '-race' in meta.get('demo', ''):
                demo_cmd = demo_cmd.replace('go test', 'go test -race')
        elif os.path.exists(demo_main):
            os.makedirs(os.path.join(wt, 'internal/seeddemo'), exist_ok=True)
            shutil.copy(demo_main, os.path.join(wt, 'internal/seeddemo/main.go'))
            demo_cmd = 'go run ./internal/seeddemo'
            if '-race' in meta.get('demo', ''):
                demo_cmd = 'go run -race ./internal/seeddemo'
        else:
            sys.exit('no demo found in ' + d)
        if meta.get('demo_cmd'):
            demo_cmd = meta['demo_cmd']
        report['demo_cmd'] = demo_cmd
        # without the change
        rc0, out0, t0 = run(demo_cmd, cwd=wt, timeout=900)
        report['demo_without_change'] = {'rc': rc0, 'wall_s': round(t0, 1), 'tail': out0[-600:]}
        rc, out, _ = run(['git', 'apply', patch], cwd=wt)
        if rc != 0:
            report['apply'] = out
            print(json.dumps(report, indent=1)); sys.exit(2)
        rcb, outb, _ = run('go build ./...', cwd=wt, timeout=900)
        report['build'] = rcb
        rc1, out1, t1 = run(demo_cmd, cwd=wt, timeout=900)
        report['demo_with_change'] = {'rc': rc1, 'wall_s': round(t1, 1), 'tail': out1[-800:]}
        # remove the demo before running the suite
        for p in ('zz_seed_demo_test.go',):
            for root, _, fs in os.walk(wt):
                if p in fs:
                    os.remove(os.path.join(root, p))
        shutil.rmtree(os.path.join(wt, 'internal/seeddemo'), ignore_errors=True)
        if suite:
            rcs, outs, ts = run('go test -vet=off -count=1 ' + ' '.join(pkgs), cwd=wt, timeout=1500)
            report['suite'] = {'cmd': 'go test ' + ' '.join(pkgs), 'rc': rcs, 'wall_s': round(ts, 1), 'tail': outs[-500:]}
    finally:
        run(['git', '-C', '/repo', 'worktree', 'remove', '--force', wt])
    rcc, outc, tc = run(['/verif/bin/verif', 'check', prop, '--tier', tier, '--patch', patch], cwd='/verif', timeout=3600)
    viol = [l for l in outc.splitlines() if l.startswith('VIOLATION')]
    detail = [l for l in outc.splitlines() if l.startswith('  [')][:3]
    report['check'] = {'tier': tier, 'rc': rcc, 'violations': len(viol), 'wall_s': round(tc, 1), 'first': [x[:400] for x in detail], 'summary': outc.strip().splitlines()[-1][:300] if outc.strip() else ''}
    ok_demo = report['demo_without_change']['rc'] == 0 and report['demo_with_change']['rc'] != 0
    ok_suite = (not suite) or report['suite']['rc'] == 0
    report['confirmed_breaking_and_suite_passing'] = bool(ok_demo and ok_suite and report['build'] == 0)
    report['detected'] = rcc == 1 and len(viol) > 0
    print(json.dumps(report, indent=1))
    if keep and report['confirmed_breaking_and_suite_passing']:
        dst = os.path.join('/verif/seeded', keep)
        os.makedirs(dst, exist_ok=True)
        shutil.copy(patch, os.path.join(dst, 'patch.diff'))
        if os.path.exists(os.path.join(d, 'demo_test.go')):
            shutil.copy(os.path.join(d, 'demo_test.go'), os.path.join(dst, 'demo_test.go.txt'))
        if os.path.exists(os.path.join(d, 'demo', 'main.go')):
            shutil.copy(os.path.join(d, 'demo', 'main.go'), os.path.join(dst, 'demo_main.go.txt'))
        meta['verification'] = {k: report[k] for k in ('repo_head', 'demo_cmd', 'demo_without_change', 'demo_with_change', 'suite', 'check', 'detected') if k in report}
        json.dump(meta, open(os.path.join(dst, 'meta.json'), 'w'), indent=1)


if __name__ == '__main__':
    main()
