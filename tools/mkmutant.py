#!/usr/bin/env python3
"""mkmutant.py <out.diff> <repo-relative-file> <old> <new> [<file2> <old2> <new2> ...]
Creates a unified diff (p1) replacing the first occurrence of old by new; /repo is not touched."""
import sys, os, subprocess, tempfile, shutil
out = sys.argv[1]
args = sys.argv[2:]
tmp = tempfile.mkdtemp(prefix='mkmut')
diff = ''
for i in range(0, len(args), 3):
    rel, old, new = args[i], args[i+1].encode().decode('unicode_escape'), args[i+2].encode().decode('unicode_escape')
    s = open('/repo/' + rel).read()
    if s.count(old) < 1:
        sys.exit(f'old text not found in {rel}')
    s2 = s.replace(old, new, 1)
    for side, content in (('a', s), ('b', s2)):
        p = os.path.join(tmp, side, rel)
        os.makedirs(os.path.dirname(p), exist_ok=True)
        open(p, 'w').write(content)
    r = subprocess.run(['diff', '-u', 'a/' + rel, 'b/' + rel], cwd=tmp, capture_output=True, text=True)
    diff += r.stdout
open(out, 'w').write(diff)
shutil.rmtree(tmp)
print(diff)
