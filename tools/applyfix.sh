#!/bin/sh
# applyfix.sh <class.diff> [<class.msg>] : applies one reviewed fix to /repo and commits it as "fix: ..."
set -e
d=$(readlink -f "$1"); m=${2:-${d%.diff}.msg}
cd /repo
patch -p1 -F0 -s --dry-run < "$d" >/dev/null
patch -p1 -F0 -s --no-backup-if-mismatch < "$d"
gofmt -l $(grep '^+++ ' "$d" | sed 's/^+++ b\///; s/\t.*//' | grep '\.go$') | grep . && { echo "gofmt complains"; exit 1; } || true
first=$(head -1 "$m")
case "$first" in fix:*) ;; *) first="fix: $first";; esac
{ echo "$first"; tail -n +2 "$m"; } > /tmp/applyfix.msg
git add -A
git commit -q -F /tmp/applyfix.msg
git log --format='%h %s' -1
