#!/usr/bin/env python3
"""recheck_seed.py <ID>-<k> "<what was strengthened>" : re-runs the check against a stored seeded change that was missed
at first and records the outcome in seeded/<ID>-<k>/meta.json."""
import json, subprocess, sys, os, time
name, what = sys.argv[1], sys.argv[2]
prop = name.split('-')[0]
d = f'/verif/seeded/{name}'
tier = sys.argv[3] if len(sys.argv) > 3 else 'quick'
t0 = time.time()
p = subprocess.run(['/verif/bin/verif', 'check', prop, '--tier', tier, '--patch', f'{d}/patch.diff'], capture_output=True, text=True, cwd='/verif')
out = p.stdout + p.stderr
viol = [l for l in out.splitlines() if l.startswith('VIOLATION')]
first = [l for l in out.splitlines() if l.startswith('  [')][:2]
m = json.load(open(f'{d}/meta.json'))
det = p.returncode == 1 and len(viol) > 0
m['verification_after_strengthening'] = {'tier': tier, 'rc': p.returncode, 'violations': len(viol), 'first': [x[:300] for x in first], 'summary': out.strip().splitlines()[-1][:300], 'wall_s': round(time.time() - t0, 1)}
if det:
    m['detected_after_strengthening'] = what + ' — first report: ' + (first[0].strip()[:200] if first else '')
json.dump(m, open(f'{d}/meta.json', 'w'), indent=1)
print(name, 'detected' if det else 'STILL MISSED', m['verification_after_strengthening']['summary'][-120:])
