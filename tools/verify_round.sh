#!/bin/bash
# verify_round.sh <round> <ID>...  — verifies /tmp/seed-out/<round>/<cNN>/<k> for k=1..4, keeps as <ID>-<round>-<k>
export GOFLAGS=-mod=mod GOPROXY=off GOSUMDB=off GOTOOLCHAIN=local
rnd=$1; shift
cd /verif
for id in "$@"; do
  lc=$(echo $id | tr A-Z a-z)
  for k in 1 2 3 4; do
    d=/tmp/seed-out/$rnd/$lc/$k
    [ -f $d/patch.diff ] || continue
    python3 tools/verify_seed.py $id $d --keep-as $id-$rnd-$k > /tmp/seed-out/$rnd/$lc/verify-$k.json 2>&1
    echo "$id-$rnd-$k $(jq -c '{c:.confirmed_breaking_and_suite_passing,d:.detected,chk:.check.summary[0:200]}' /tmp/seed-out/$rnd/$lc/verify-$k.json 2>/dev/null || tail -c 300 /tmp/seed-out/$rnd/$lc/verify-$k.json)" >> /tmp/seed-out/$rnd/verify-summary.txt
  done
done
