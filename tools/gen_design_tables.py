#!/usr/bin/env python3
"""Regenerates the findings and seeded-change tables of DESIGN.md from known_findings.jsonl and seeded/*/meta.json."""
import json, glob, os, re
V='/verif'
recs=[json.loads(l) for l in open(f'{V}/known_findings.jsonl') if l.strip() and not l.startswith('#')]
fixed=[r for r in recs if r['status']=='fixed']
known=[r for r in recs if r['status']=='known']
def esc(s): return s.replace('|','\\|').replace('\n',' ')
out=[]
out.append(f'{len(fixed)} genuine defects were repaired in `/repo` by minimal `fix:` commits (the unedited suite passes with all of them), {len(known)} are recorded as known findings (the repair needs a design decision, a larger rewrite, or would change the expected output of an existing test). Every one was reproduced against the public API before it was touched (repros: `findings/`, `harness/cNN/repro*`, `harness/cNN/fixes/`).\n')
out.append('**Fixed**\n')
out.append('| property | class | commit | defect |')
out.append('|---|---|---|---|')
for r in sorted(fixed,key=lambda r:(r['property'],r['id'])):
    w=esc(r['what'])
    if len(w)>330: w=w[:327]+'...'
    out.append(f"| {r['property']} | `{r['id']}` | {r['commit']} | {w} |")
out.append('\n**Known (reported as `KNOWN-FINDING`, exit 0; any other violation of the property is still reported)**\n')
out.append('| property | class / case | what fails, and why it is not repaired here |')
out.append('|---|---|---|')
for r in sorted(known,key=lambda r:(r['property'],r['id'])):
    key=r.get('class') or r.get('key') or r['id']
    w=esc(r['what'])
    if len(w)>520: w=w[:517]+'...'
    out.append(f"| {r['property']} | `{key}` | {w} |")
find='\n'.join(out)+'\n'
# seeded
rows=[]
for d in sorted(glob.glob(f'{V}/seeded/*/')):
    mp=os.path.join(d,'meta.json')
    if not os.path.exists(mp): continue
    m=json.load(open(mp))
    v=m.get('verification',{})
    chk=v.get('check',{})
    det='**detected**' if v.get('detected') else 'missed'
    if m.get('detected_after_strengthening'): det='missed at first, **detected** after strengthening: '+m['detected_after_strengthening']
    first=(chk.get('first') or [''])[0]
    first=re.sub(r'\s+',' ',first)[:160]
    rows.append(f"| {os.path.basename(d.rstrip('/'))} | {', '.join(m.get('files_changed',[]))} | {esc(m.get('needs_to_manifest',''))[:260]} | {det} ({chk.get('tier','quick')}) | {esc(first)} |")
seed='| seeded change | files | what it needs to manifest | result | first report |\n|---|---|---|---|---|\n'+'\n'.join(rows)+'\n'
s=open(f'{V}/DESIGN.md').read()
def put(s,tag,body):
    b,e=f'<!-- {tag}-BEGIN -->',f'<!-- {tag}-END -->'
    if b not in s:
        return s
    i,j=s.index(b)+len(b),s.index(e)
    return s[:i]+'\n'+body+s[j:]
s=put(s,'FINDINGS',find)
s=put(s,'SEEDED',seed)
# per-check coverage summary from the committed evidence files
claimed=open(f'{V}/tools/claimed.txt').read().split()
rows=[]
for pid in sorted(claimed):
    ep=f'{V}/evidence/{pid}.json'; cj=f'{V}/harness/{pid.lower()}/check.json'
    if not os.path.exists(ep) or not os.path.exists(cj): continue
    e=json.load(open(ep)); c=json.load(open(cj)); cov=e['coverage']
    cfgs=', '.join(x['config'] for x in cov.get('configurations',[]))
    extra=''
    if e['level']=='model_checking':
        extra=f"states {cov.get('states',0):,}, transitions {cov.get('transitions',0):,}, traces validated {cov.get('traces_validated_against_impl',0):,}"
    nm=len(glob.glob(f'{V}/mutants/{pid.lower()}/*.diff'))
    seeds=[d for d in glob.glob(f'{V}/seeded/{pid}-*/')]
    det=0
    for d in seeds:
        m=json.load(open(d+'meta.json'))
        if m.get('verification',{}).get('detected') or m.get('detected_after_strengthening'): det+=1
    rows.append(f"| {pid} | {e['level']} | {c.get('engine','E1-enum')} | {cfgs} | {cov['evaluations']:,} | {cov['distinct_nontrivial']:,} | {cov.get('distinct_outcomes','')} | {cov.get('exhaustive')} | {e['wall_s']:.0f} | {extra} | {nm} | {det}/{len(seeds)} |")
covt='| check | level | engine | configurations (quick) | evaluations | distinct non-trivial | distinct outcomes | exhaustive | wall s | model-checking counts | own mutants | seeded detected |\n|---|---|---|---|---|---|---|---|---|---|---|---|\n'+'\n'.join(rows)+'\n'
s=put(s,'COVERAGE',covt)
open(f'{V}/DESIGN.md','w').write(s)
print('fixed',len(fixed),'known',len(known),'seeded',len(rows))
