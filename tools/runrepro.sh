#!/bin/sh
# usage: runrepro.sh prog.go [tags]  -- runs a standalone program against /repo's working tree (overlay, /repo untouched)
set -e
export GOFLAGS=-mod=mod GOPROXY=off GOSUMDB=off GOTOOLCHAIN=local
f=$(readlink -f "$1"); tags=${2:-}
ov=$(mktemp /tmp/ov.XXXXXX.json)
printf '{"Replace":{"/repo/internal/verif/repro/main.go":"%s"}}' "$f" > "$ov"
cd /repo && go run -tags "$tags" -overlay "$ov" gonum.org/v1/gonum/internal/verif/repro; rc=$?
rm -f "$ov"; exit $rc
