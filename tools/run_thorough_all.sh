#!/bin/bash
# Runs every thorough tier once, sequentially; evidence to .work/thorough (does not touch evidence/).
export GOFLAGS=-mod=mod GOPROXY=off GOSUMDB=off GOTOOLCHAIN=local
cd /verif
for id in "$@"; do
  t0=$(date +%s)
  timeout 7200 ./bin/verif check $id --tier thorough --evidence .work/thorough/$id.json > .work/thorough/$id.log 2>&1
  rc=$?
  t1=$(date +%s)
  ex=$(jq -r '.exhaustive // .coverage.exhaustive // "?"' .work/thorough/$id.json 2>/dev/null)
  echo "$id rc=$rc wall=$((t1-t0))s exhaustive=$ex viol=$(grep -c ^VIOLATION .work/thorough/$id.log)" >> .work/thorough/summary.txt
done
