#!/usr/bin/env python3
"""Regenerates the per-round 'missed at first, detected after strengthening' tables of DESIGN.md 8.4 (rounds 3..5)
from seeded/*/meta.json."""
import json, glob, os, re
intro = {
 'r3': "**Third round (80 changes; the seeding agents were pointed at the anchored files that no earlier seed had touched).**",
 'r4': "**Fourth round (56 changes for the 14 properties that still had many untouched anchored files).**",
 'r6': "**Sixth round (64 changes for 16 properties; no file focus, emphasis on overlooked mechanisms: interactions between calls, caller-owned data, argument states, error paths, thresholds and ties, rarely taken size branches, less used build configurations).**",
 'r7': "**Seventh round (3 per property, all 20; two cooperating conditions or multi-step histories requested).**",
 'r8': "**Eighth round (3 each for the eight properties with the most recent misses).**",
 'r9': "**Ninth round (3 each for the twelve properties not in round 8).**",
 'r10': "**Tenth round (3 each for the eight properties not in round 9).**",
 'r5': "**Fifth round (48 changes for 12 properties; focus on remaining files, and on interactions between calls, caller-owned data, unusual argument states, error paths).**",
}
out = []
for rnd in ('r3', 'r4', 'r5', 'r6', 'r7', 'r8', 'r9', 'r10'):
    total = miss = 0
    rows = []
    for d in sorted(glob.glob(f'/verif/seeded/*-{rnd}-*/')):
        n = os.path.basename(d.rstrip('/'))
        m = json.load(open(d + 'meta.json'))
        total += 1
        x = m.get('detected_after_strengthening')
        first = m.get('verification', {}).get('detected')
        if x:
            miss += 1
            rows.append((n, (m.get('what_breaks', '')[:170]).replace('|', '\\|').replace('\n', ' '), x.split(' — first report')[0].replace('|', '\\|')))
        elif not first:
            miss += 1
            rows.append((n, (m.get('what_breaks', '')[:170]).replace('|', '\\|').replace('\n', ' '), '**not yet detected**'))
    if not total:
        continue
    out.append(f"{intro[rnd]} {total} confirmed changes, {total - miss} detected at first, {miss} missed at first:\n\n| seeded change | what it broke | strengthening that now detects it |\n|---|---|---|\n" + ''.join(f'| {a} | {b} | {c} |\n' for a, b, c in rows))
p = '/verif/DESIGN.md'
s = open(p).read()
block = '<!-- ROUNDS-BEGIN -->\n' + '\n'.join(out) + '<!-- ROUNDS-END -->'
if '<!-- ROUNDS-BEGIN -->' in s:
    s = re.sub(r'<!-- ROUNDS-BEGIN -->.*?<!-- ROUNDS-END -->', lambda m: block, s, flags=re.S)
else:
    s = re.sub(r'<!-- ROUND3-BEGIN -->.*?<!-- ROUND3-END -->', lambda m: block, s, flags=re.S)
open(p, 'w').write(s)
print('rounds written')
