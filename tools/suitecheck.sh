#!/bin/sh
# suitecheck.sh <patch.diff> <pkg pattern...> : applies the patch in a scratch worktree and runs the package tests there.
set -e
export GOFLAGS=-mod=mod GOPROXY=off GOSUMDB=off GOTOOLCHAIN=local
p=$(readlink -f "$1"); shift
wt=/tmp/wt-suite-$$
git -C /repo worktree add -q --detach "$wt" HEAD
trap 'git -C /repo worktree remove --force "$wt" >/dev/null 2>&1 || true' EXIT
cd "$wt" && patch -p1 -s < "$p"
go build ./... >/dev/null
go test -vet=off -count=1 "$@" 2>&1 | tail -15
