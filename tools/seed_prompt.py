#!/usr/bin/env python3
"""Prints the prompt for an independent seeding agent for property <ID>; creates its scratch worktree."""
import json, sys, subprocess, os
pid = sys.argv[1]
n = sys.argv[2] if len(sys.argv) > 2 else '3'
rnd = sys.argv[3] if len(sys.argv) > 3 else ''
focus = sys.argv[4] if len(sys.argv) > 4 else ''  # comma-separated anchor files to concentrate on
rec = None
for l in open('/verif/properties.jsonl'):
    if l.strip():
        r = json.loads(l)
        if r['id'] == pid:
            rec = r
wt = f'/tmp/seed{rnd}-{pid.lower()}'
out = f'/tmp/seed-out/{rnd + "/" if rnd else ""}{pid.lower()}'
if not os.path.exists(wt):
    subprocess.run(['git', '-C', '/repo', 'worktree', 'add', '-q', '--detach', wt, 'HEAD'], check=True)
os.makedirs(out, exist_ok=True)
text = f"""You are helping to evaluate a verification effort for the Go numerical library gonum. You work ONLY in your own scratch git worktree of the library at {wt} (a checkout of the current HEAD; the real repository and everything else on this machine is off limits: never read or write /repo, /verif or other /tmp/seed-* directories). The sandbox is offline; every shell call needs `export GOFLAGS=-mod=mod GOPROXY=off GOSUMDB=off GOTOOLCHAIN=local`.

Here is a semantic property that gonum is supposed to satisfy:

ID: {rec['id']} — {rec['title']}
Statement: {rec['statement']}
Quantified over: {rec['quantifier']['text']}
Why the existing tests cannot settle it: {rec['why_tests_cant']}
Code it is anchored in: {', '.join(rec['anchors']['files'])}

Your task: produce {n} DIFFERENT, independent, realistic changes to gonum's source (non-test .go or .s files), each of which BREAKS this property while the code still compiles and gonum's EXISTING tests still pass. Think of plausible maintenance mistakes (an off-by-one in a boundary or index computation, a wrong flag/branch in a rarely used combination, a condition slightly too weak or too strong, a state update forgotten on one path, a fast path that is wrong for one operand kind, a check performed after instead of before a write, shared scratch state, an ordering mistake between two cooperating sites that each look fine alone). Each change must need something SPECIFIC to manifest — a particular shape/stride/flag combination, an unusual but legal input, a multi-step sequence of operations, a particular interleaving or timing, a fault at a particular point — not something ordinary use or the existing tests expose at once. Spread the changes over different files/mechanisms of the property. Keep each change small (a few lines). Avoid the most obvious candidates (a plain wrong constant in the main path): prefer rarely exercised code paths (unusual flag or kind combinations, boundary sizes, error and early-return paths, second and later calls on a reused object, inputs with exact ties, zeros, negative or extreme values, destination arguments in unusual states) and defects that need two cooperating conditions. {('Concentrate on these parts of the anchored code (each change must touch one of them or a file it directly calls into; use different ones for different changes): ' + focus.replace(',', ', ') + '. ') if focus else ''}Do NOT use `git stash` (it is shared between worktrees): save with `git diff > patch.diff` and undo with `git checkout -- .`.

For each change k = 1..{n} deliver a directory {out}/k/ containing:
- patch.diff — `git diff` of the change against HEAD (applies with `git apply` at the repository root; only the property-breaking change, nothing else);
- a demonstration: either demo_test.go (a Go test file to be dropped into the relevant package directory; say which in meta.json) or demo/main.go (a standalone program inside the module, e.g. placed under internal/seeddemo/), that FAILS (non-zero exit / failing test) with the change applied and PASSES without it, deterministically (if the manifestation needs an interleaving, make the demonstration force it, e.g. with GOMAXPROCS, channels or repeated runs with a clear pass/fail criterion);
- meta.json — {{"property": "{rec['id']}", "files_changed": [...], "what_breaks": "...", "needs_to_manifest": "...", "demo": "how to run it and where the demo file goes", "tests_run": "exact go test command(s) you ran on the touched package(s) with the change applied, and their result"}}.
You MUST actually verify, in your worktree: (1) `go build ./...` succeeds with the change; (2) `go test` of every package you touched (and packages that obviously depend on the changed function, e.g. ./mat for a BLAS change, if feasible within ~10 minutes) passes with the change applied; (3) the demonstration fails with the change and passes without it. Work on one change at a time: apply, verify, save `git diff > patch.diff`, then `git checkout -- .` (and remove demo files) before the next. Leave the worktree clean (git status empty) at the end. Do not commit.
Final message: a short table (k, files changed, what breaks, what it needs to manifest, verification results)."""
print(text)
