#!/usr/bin/env python3
"""record_fixed.py <PROPERTY> <fixes-dir> <class> [<class> ...]
Appends 'fixed' entries to known_findings.jsonl, finding each commit in /repo by the first line of <class>.msg."""
import json, subprocess, sys, os
prop, d, classes = sys.argv[1], sys.argv[2], sys.argv[3:]
log = subprocess.run(['git', '-C', '/repo', 'log', '--format=%h\t%s'], capture_output=True, text=True).stdout.splitlines()
existing = open('/verif/known_findings.jsonl').read()
out = open('/verif/known_findings.jsonl', 'a')
for c in classes:
    msg = open(os.path.join(d, c + '.msg')).read().strip()
    first = msg.splitlines()[0]
    if not first.startswith('fix:'):
        first = 'fix: ' + first
    body = ' '.join(l.strip() for l in msg.splitlines()[1:] if l.strip())
    commit = None
    for l in log:
        h, s = l.split('\t', 1)
        if s == first:
            commit = h
            break
    if commit is None:
        print('NOT FOUND', c, first); continue
    if f'"id":"{c}"' in existing:
        print('already recorded', c); continue
    rec = {"status": "fixed", "property": prop, "id": c, "commit": commit, "what": first[5:] + '. ' + body + f' Found by the {prop} check (class {c}).'}
    out.write(json.dumps(rec, separators=(',', ':')) + '\n')
    print('recorded', c, commit)
