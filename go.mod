module verif

go 1.23
