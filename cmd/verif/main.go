// Command verif is the driver of the /verif model-checking framework:
//
//	verif check <ID> [--tier quick|thorough] [--patch file.diff] [--groups a,b] [--shards N]
//	verif replay <replay.json>
//	verif list
//
// A check regenerates a `go build -overlay` description from /repo's current
// working tree (shim + harness packages injected at virtual paths, selected
// gonum files replaced by mechanically instrumented copies), builds one
// worker binary per build configuration, runs the workers as shards, merges
// their results, writes /verif/evidence/<ID>.json and exits 0/1 (3 = engine
// error, never reported as a violation).
package main

import (
	"bytes"
	"encoding/json"
	"flag"
	"fmt"
	"os"
	"os/exec"
	"path/filepath"
	"sort"
	"strconv"
	"strings"
	"sync"
	"syscall"
	"time"

	"verif/internal/instr"
)

const (
	verifDir = "/verif"
	repoDir  = "/repo"
	virtBase = "/repo/internal/verif"
)

// Config is one build configuration of a check.
type Config struct {
	Name      string   `json:"name"`
	Tags      string   `json:"tags"`
	Tiers     []string `json:"tiers"`     // empty = all tiers
	Go        string   `json:"go"`        // "" = default toolchain, else e.g. "go1.26.8"
	Race      bool     `json:"race"`      // free-running -race companion pass
	Env       []string `json:"env"`       // extra environment for the workers
	Shards    int      `json:"shards"`    // 0 = default
	NoInstr   bool     `json:"no_instr"`  // do not apply the instrumenter for this config
	Procs     []int    `json:"procs"`     // GOMAXPROCS values for race passes
	Groups    string   `json:"groups"`    // group filter for this config
	Companion bool     `json:"companion"` // results reported separately, not part of the deciding enumeration
}

// Check is /verif/harness/<id>/check.json.
type Check struct {
	Property    string            `json:"property"`
	Level       string            `json:"level"`
	Harness     string            `json:"harness"`
	Configs     []Config          `json:"configs"`
	Instrument  []string          `json:"instrument"` // repo-relative files or dirs rewritten by internal/instr
	InstrSelf   bool              `json:"instr_self"` // also rewrite the harness files
	Inject      map[string]string `json:"inject"`     // repo-relative target -> /verif-relative source (verif_export files)
	Shims       []string          `json:"shims"`      // shim packages needed besides vlib
	Seams       []string          `json:"seams"`      // named seam rewrites: ilaenv, blocksize
	Rand        []string          `json:"rand"`       // repo-relative files whose math/rand/v2 import is redirected to the vrand twin
	QuickS      float64           `json:"quick_deadline_s"`
	ThoroughS   float64           `json:"thorough_deadline_s"`
	Rule        string            `json:"rule"`
	Assumptions []string          `json:"assumptions"`
	Entry       []string          `json:"entry_points"`
	Bounds      map[string]any    `json:"bounds"`
	MemMB       int               `json:"mem_mb"`
}

func goEnv(gover string) []string {
	env := os.Environ()
	set := func(k, v string) {
		p := k + "="
		for i, e := range env {
			if strings.HasPrefix(e, p) {
				env[i] = p + v
				return
			}
		}
		env = append(env, p+v)
	}
	set("GOFLAGS", "-mod=mod")
	set("GOPROXY", "off")
	set("GOSUMDB", "off")
	set("GOTOOLCHAIN", "local")
	if gover != "" {
		set("PATH", "/opt/veriftools/"+gover+"/bin:"+os.Getenv("PATH"))
	}
	return env
}

func fatal(format string, a ...any) {
	fmt.Fprintf(os.Stderr, "ENGINE-ERROR: "+format+"\n", a...)
	os.Exit(3)
}

func loadCheck(id string) *Check {
	p := filepath.Join(verifDir, "harness", strings.ToLower(id), "check.json")
	b, err := os.ReadFile(p)
	if err != nil {
		fatal("no such check %s: %v", id, err)
	}
	var c Check
	if err := json.Unmarshal(b, &c); err != nil {
		fatal("%s: %v", p, err)
	}
	if c.Harness == "" {
		c.Harness = strings.ToLower(id)
	}
	if c.Property == "" {
		c.Property = id
	}
	if len(c.Configs) == 0 {
		c.Configs = []Config{{Name: "default"}}
	}
	return &c
}

// patchedSource returns the content of a repo file, taking the optional
// patch overlay (path -> replacement file) into account.
type sourceView struct{ repl map[string]string }

func (s *sourceView) path(rel string) string {
	if p, ok := s.repl[rel]; ok {
		return p
	}
	return filepath.Join(repoDir, rel)
}

// applyPatch materialises the files touched by a unified diff into work/patched
// and returns rel path -> patched file. /repo is not modified.
func applyPatch(patch, work string) map[string]string {
	out := map[string]string{}
	b, err := os.ReadFile(patch)
	if err != nil {
		fatal("patch: %v", err)
	}
	var files []string
	for _, l := range strings.Split(string(b), "\n") {
		if strings.HasPrefix(l, "+++ ") {
			f := strings.Fields(l[4:])[0]
			f = strings.TrimPrefix(f, "b/")
			if f != "/dev/null" {
				files = append(files, f)
			}
		}
	}
	dir := filepath.Join(work, "patched")
	os.RemoveAll(dir)
	for _, f := range files {
		dst := filepath.Join(dir, f)
		os.MkdirAll(filepath.Dir(dst), 0o755)
		src, err := os.ReadFile(filepath.Join(repoDir, f))
		if err == nil {
			os.WriteFile(dst, src, 0o644)
		}
		out[f] = dst
	}
	abs, _ := filepath.Abs(patch)
	cmd := exec.Command("patch", "-p1", "-s", "-i", abs)
	cmd.Dir = dir
	if o, err := cmd.CombinedOutput(); err != nil {
		fatal("patch does not apply: %v\n%s", err, o)
	}
	return out
}

func listGo(dir string) []string {
	ents, _ := os.ReadDir(dir)
	var out []string
	for _, e := range ents {
		if !e.IsDir() && strings.HasSuffix(e.Name(), ".go") && !strings.HasSuffix(e.Name(), "_test.go") {
			out = append(out, e.Name())
		}
	}
	sort.Strings(out)
	return out
}

// genOverlay writes the overlay JSON for one config and returns its path.
func genOverlay(c *Check, cfg *Config, work string, sv *sourceView) string {
	repl := map[string]string{}
	for rel, p := range sv.repl {
		repl[filepath.Join(repoDir, rel)] = p
	}
	shims := append([]string{"vlib"}, c.Shims...)
	for _, s := range shims {
		dir := filepath.Join(verifDir, "shim", s)
		for _, f := range listGo(dir) {
			repl[filepath.Join(virtBase, s, f)] = filepath.Join(dir, f)
		}
	}
	hdir := filepath.Join(verifDir, "harness", c.Harness)
	instrOn := len(c.Instrument) > 0 && !cfg.NoInstr
	idir := filepath.Join(work, "instr-"+cfg.Name)
	os.RemoveAll(idir)
	var hfiles []string
	for _, f := range listGo(hdir) {
		hfiles = append(hfiles, f)
		repl[filepath.Join(virtBase, c.Harness, f)] = filepath.Join(hdir, f)
	}
	for tgt, src := range c.Inject {
		repl[filepath.Join(repoDir, tgt)] = filepath.Join(verifDir, src)
	}
	if instrOn || len(c.Seams) > 0 || len(c.Rand) > 0 {
		var files []instr.File
		for _, rel := range c.Rand {
			files = append(files, instr.File{Rel: rel, Src: sv.path(rel), Mode: "rand"})
		}
		if instrOn {
			for _, rel := range c.Instrument {
				full := filepath.Join(repoDir, rel)
				if st, err := os.Stat(full); err == nil && st.IsDir() {
					for _, f := range listGo(full) {
						r := filepath.Join(rel, f)
						files = append(files, instr.File{Rel: r, Src: sv.path(r), Mode: "sched"})
					}
				} else {
					files = append(files, instr.File{Rel: rel, Src: sv.path(rel), Mode: "sched"})
				}
			}
			if c.InstrSelf {
				for _, f := range hfiles {
					files = append(files, instr.File{Rel: filepath.Join("internal/verif", c.Harness, f), Src: filepath.Join(hdir, f), Mode: "sched"})
				}
			}
		}
		for _, s := range c.Seams {
			switch s {
			case "ilaenv":
				files = append(files, instr.File{Rel: "lapack/gonum/ilaenv.go", Src: sv.path("lapack/gonum/ilaenv.go"), Mode: "ilaenv"})
				files = append(files, instr.File{Rel: "lapack/gonum/iparmq.go", Src: sv.path("lapack/gonum/iparmq.go"), Mode: "iparmq"})
			case "blocksize":
				files = append(files, instr.File{Rel: "blas/gonum/gonum.go", Src: sv.path("blas/gonum/gonum.go"), Mode: "blocksize"})
			default:
				fatal("unknown seam %q", s)
			}
		}
		outs, err := instr.Rewrite(files, idir)
		if err != nil {
			fatal("instrumenter: %v", err)
		}
		for rel, p := range outs {
			repl[filepath.Join(repoDir, rel)] = p
		}
	}
	ov := struct{ Replace map[string]string }{repl}
	b, _ := json.MarshalIndent(ov, "", " ")
	p := filepath.Join(work, "overlay-"+cfg.Name+".json")
	if err := os.WriteFile(p, b, 0o644); err != nil {
		fatal("%v", err)
	}
	return p
}

func build(c *Check, cfg *Config, work, overlay string) (string, error) {
	bin := filepath.Join(work, "worker-"+cfg.Name)
	tags := "verif"
	if cfg.Tags != "" {
		tags += "," + cfg.Tags
	}
	args := []string{"build", "-tags", tags, "-overlay", overlay, "-o", bin}
	if cfg.Race {
		args = append(args, "-race")
	}
	args = append(args, "gonum.org/v1/gonum/internal/verif/"+c.Harness)
	gobin := "go"
	cmd := exec.Command(gobin, args...)
	cmd.Dir = repoDir
	cmd.Env = goEnv(cfg.Go)
	o, err := cmd.CombinedOutput()
	if err != nil {
		return "", fmt.Errorf("go %s: %v\n%s", strings.Join(args, " "), err, o)
	}
	return bin, nil
}

// Result mirrors vlib.Result.
type Result struct {
	Property    string                      `json:"property"`
	Config      string                      `json:"config"`
	Shard       string                      `json:"shard"`
	Generated   int64                       `json:"generated"`
	Evaluations int64                       `json:"evaluations"`
	Distinct    int64                       `json:"distinct_nontrivial"`
	DupKeys     int64                       `json:"duplicate_keys"`
	Outcomes    map[string]int64            `json:"outcomes"`
	Counters    map[string]int64            `json:"counters"`
	Maxes       map[string]int64            `json:"maxes"`
	Groups      map[string]map[string]int64 `json:"groups"`
	Samples     []any                       `json:"samples"`
	Violations  []Violation                 `json:"violations"`
	NViolations int64                       `json:"n_violations"`
	Known       map[string]int64            `json:"known_hits"`
	Complete    bool                        `json:"complete"`
	StoppedAt   string                      `json:"stopped_at"`
	WallS       float64                     `json:"wall_s"`
	EngineErr   string                      `json:"engine_error"`
}

// Violation mirrors vlib.Violation.
type Violation struct {
	Group  string   `json:"group"`
	Key    string   `json:"key"`
	Sub    string   `json:"sub,omitempty"`
	Class  string   `json:"class,omitempty"`
	Msgs   []string `json:"msgs"`
	Detail any      `json:"detail,omitempty"`
}

type runSpec struct {
	tier, seed, groups string
	replayG, replayK   string
	deadline           float64
	shards             int
	memMB              int
}

func runWorkers(c *Check, cfg *Config, bin, work string, rs runSpec) ([]Result, error) {
	n := rs.shards
	if rs.replayG != "" {
		n = 1
	}
	results := make([]Result, n)
	errs := make([]error, n)
	var wg sync.WaitGroup
	for i := 0; i < n; i++ {
		wg.Add(1)
		go func(i int) {
			defer wg.Done()
			out := filepath.Join(work, fmt.Sprintf("res-%s-%d.json", cfg.Name, i))
			os.Remove(out)
			mem := rs.memMB
			if mem == 0 {
				mem = 6000
			}
			var cmd *exec.Cmd
			if cfg.Race {
				cmd = exec.Command(bin)
			} else {
				cmd = exec.Command("/bin/sh", "-c", fmt.Sprintf("ulimit -v %d; exec %s", mem*1024, bin))
			}
			env := append(os.Environ(),
				"VERIF_TIER="+rs.tier, "VERIF_SEED="+rs.seed, "VERIF_CONFIG="+cfg.Name,
				fmt.Sprintf("VERIF_SHARD=%d/%d", i, n), "VERIF_OUT="+out,
				"VERIF_KNOWN="+filepath.Join(verifDir, "known_findings.jsonl"),
				"VERIF_DIR="+verifDir,
			)
			if !cfg.Race {
				env = append(env, "GOMAXPROCS=1")
			} else {
				env = append(env, "GORACE=halt_on_error=1 exitcode=66")
			}
			if rs.deadline > 0 {
				env = append(env, "VERIF_DEADLINE_S="+strconv.FormatFloat(rs.deadline, 'f', 1, 64))
			}
			g := rs.groups
			if g == "" {
				g = cfg.Groups
			}
			if g != "" {
				env = append(env, "VERIF_GROUPS="+g)
			}
			if rs.replayG != "" {
				env = append(env, "VERIF_REPLAY_GROUP="+rs.replayG, "VERIF_REPLAY_KEY="+rs.replayK)
			}
			env = append(env, cfg.Env...)
			cmd.Env = env
			var stderr bytes.Buffer
			cmd.Stderr = &stderr
			cmd.Stdout = &stderr
			// hard stop well after the internal deadline
			hard := time.Duration(rs.deadline*2+120) * time.Second
			if rs.deadline == 0 {
				hard = 4 * time.Hour
			}
			done := make(chan error, 1)
			if err := cmd.Start(); err != nil {
				errs[i] = err
				return
			}
			go func() { done <- cmd.Wait() }()
			var werr error
			select {
			case werr = <-done:
			case <-time.After(hard):
				// The internal deadline is tested between cases, so a worker that is still alive long after it
				// is stuck inside one case body. Ask the Go runtime for its goroutine stacks (SIGQUIT) and
				// attribute the hang by the same rule as a crash: if the goroutine that is executing is inside
				// gonum's own code, the code under test does not terminate (or takes minutes for a case that
				// takes milliseconds on the unchanged tree) - a violation of class worker-hang. Otherwise it
				// is an engine error.
				cmd.Process.Signal(syscall.SIGQUIT)
				select {
				case <-done:
				case <-time.After(20 * time.Second):
					cmd.Process.Kill()
					<-done
				}
				os.WriteFile(filepath.Join(verifDir, ".work", fmt.Sprintf("hang-%s-%s-%d.stderr", c.Property, cfg.Name, i)), stderr.Bytes(), 0o644)
				if cls, msg := hangInCodeUnderTest(stderr.String()); cls != "" {
					results[i] = Result{Config: cfg.Name, NViolations: 1, Complete: false, StoppedAt: "worker hung",
						Violations: []Violation{{Group: "hang", Key: fmt.Sprintf("shard-%d-of-%d", i, n), Class: cls, Msgs: []string{fmt.Sprintf("after %v (internal deadline %ds): %s", hard, rs.deadline, msg)}}}}
					return
				}
				errs[i] = fmt.Errorf("shard %d of %s exceeded the hard stop (%v); the internal deadline did not trigger", i, cfg.Name, hard)
				return
			}
			b, err := os.ReadFile(out)
			if err != nil {
				tail := stderr.String()
				os.WriteFile(filepath.Join(verifDir, ".work", fmt.Sprintf("crash-%s-%s-%d.stderr", c.Property, cfg.Name, i)), []byte(tail), 0o644)
				if len(tail) > 3000 {
					tail = tail[len(tail)-3000:]
				}
				if cfg.Race && strings.Contains(tail, "DATA RACE") {
					results[i] = Result{Config: cfg.Name, NViolations: 1, Complete: true,
						Violations: []Violation{{Group: "race", Key: fmt.Sprintf("shard-%d", i), Class: "data-race", Msgs: []string{tail}}}}
					return
				}
				if cls, msg := crashInCodeUnderTest(stderr.String()); cls != "" {
					// the worker process was killed by an unrecoverable fault raised inside gonum itself
					// (e.g. a panic in a goroutine started by the library): that is an observable failure
					// of the code under test, not of the engine.
					results[i] = Result{Config: cfg.Name, NViolations: 1, Complete: false, StoppedAt: "worker crashed",
						Violations: []Violation{{Group: "crash", Key: fmt.Sprintf("shard-%d-of-%d", i, n), Class: cls, Msgs: []string{msg}}}}
					return
				}
				errs[i] = fmt.Errorf("shard %d of %s died without a result (%v):\n%s", i, cfg.Name, werr, tail)
				return
			}
			if err := json.Unmarshal(b, &results[i]); err != nil {
				errs[i] = fmt.Errorf("shard %d: bad result: %v", i, err)
				return
			}
			if results[i].EngineErr != "" {
				errs[i] = fmt.Errorf("shard %d of %s: %s", i, cfg.Name, results[i].EngineErr)
			}
			os.Remove(out)
		}(i)
	}
	wg.Wait()
	for _, e := range errs {
		if e != nil {
			return results, e
		}
	}
	return results, nil
}

// crashInCodeUnderTest inspects the stderr of a worker that died without writing a result. If the
// process was brought down by a Go panic or fatal error whose innermost non-runtime frame lies in
// gonum itself (under /repo but not in the injected internal/verif packages), it returns the class
// "worker-crash" and a summary; otherwise "" (an engine problem).
func crashInCodeUnderTest(stderr string) (class, msg string) {
	idx := strings.Index(stderr, "panic: ")
	if j := strings.Index(stderr, "fatal error: "); j >= 0 && (idx < 0 || j < idx) {
		idx = j
	}
	if idx < 0 {
		return "", ""
	}
	tr := stderr[idx:]
	// Memory exhaustion (the workers run under an address-space limit) and stack overflow are attributed to
	// the code under test by the same rule as any other fault: the innermost non-runtime frame must be gonum's
	// own (a runaway recursion or unbounded allocation inside the library; seeded change C14-r2-1 made Johnson's
	// circuit search recurse without bound). If the allocation that fails is the harness's, it stays an engine error.
	lines := strings.Split(tr, "\n")
	first := ""
	for _, l := range lines {
		l = strings.TrimSpace(l)
		if !strings.HasPrefix(l, "/") {
			continue
		}
		if strings.Contains(l, "/go-1.") || strings.Contains(l, "/src/runtime/") || strings.Contains(l, "/opt/veriftools/") {
			continue
		}
		first = l
		break
	}
	if first == "" || !strings.HasPrefix(first, repoDir+"/") || strings.HasPrefix(first, virtBase+"/") {
		return "", ""
	}
	if len(tr) > 1800 {
		tr = tr[:1800]
	}
	return "worker-crash", "the worker process was killed by an unrecoverable fault inside the code under test at " + first + ":\n" + tr
}

// hangInCodeUnderTest inspects the SIGQUIT goroutine dump of a worker that passed the hard stop. It looks at
// the goroutines that are executing (running or runnable, not blocked) and returns class "worker-hang" if the
// innermost non-runtime frame of one of them lies in gonum itself (not in the injected internal/verif packages).
func hangInCodeUnderTest(dump string) (class, msg string) {
	idx := strings.Index(dump, "SIGQUIT")
	if idx < 0 {
		return "", ""
	}
	for _, blk := range strings.Split(dump[idx:], "\n\n") {
		blk = strings.TrimSpace(blk)
		if !strings.HasPrefix(blk, "goroutine ") {
			continue
		}
		hdr := blk
		if j := strings.Index(hdr, "\n"); j >= 0 {
			hdr = hdr[:j]
		}
		if !strings.Contains(hdr, "[running") && !strings.Contains(hdr, "[runnable") {
			continue
		}
		first := ""
		for _, l := range strings.Split(blk, "\n") {
			l = strings.TrimSpace(l)
			if !strings.HasPrefix(l, "/") {
				continue
			}
			if strings.Contains(l, "/go-1.") || strings.Contains(l, "/src/runtime/") || strings.Contains(l, "/opt/veriftools/") {
				continue
			}
			first = l
			break
		}
		if first != "" && strings.HasPrefix(first, repoDir+"/") && !strings.HasPrefix(first, virtBase+"/") {
			if len(blk) > 1500 {
				blk = blk[:1500]
			}
			return "worker-hang", "the worker did not finish a case: it is executing inside the code under test at " + first + ":\n" + blk
		}
	}
	return "", ""
}

func inTier(cfg *Config, tier string) bool {
	if len(cfg.Tiers) == 0 {
		return true
	}
	for _, t := range cfg.Tiers {
		if t == tier {
			return true
		}
	}
	return false
}

type knownEntry struct {
	Status   string `json:"status"`
	Property string `json:"property"`
	ID       string `json:"id"`
	What     string `json:"what"`
}

func loadKnown(prop string) map[string]knownEntry {
	m := map[string]knownEntry{}
	b, err := os.ReadFile(filepath.Join(verifDir, "known_findings.jsonl"))
	if err != nil {
		return m
	}
	for _, l := range strings.Split(string(b), "\n") {
		l = strings.TrimSpace(l)
		if l == "" || l[0] == '#' {
			continue
		}
		var e knownEntry
		if json.Unmarshal([]byte(l), &e) == nil && e.Property == prop && e.Status == "known" {
			m[e.ID] = e
		}
	}
	return m
}

func cmdCheck(args []string) int {
	fs := flag.NewFlagSet("check", flag.ExitOnError)
	tier := fs.String("tier", os.Getenv("VERIF_TIER"), "quick|thorough")
	patch := fs.String("patch", "", "unified diff layered over /repo by overlay (self-test); /repo is not modified")
	groups := fs.String("groups", "", "comma separated group filter")
	shards := fs.Int("shards", 16, "worker processes per configuration")
	deadline := fs.Float64("deadline", 0, "override internal deadline (s)")
	evid := fs.String("evidence", "", "evidence path override")
	var id string
	if len(args) > 0 && !strings.HasPrefix(args[0], "-") {
		id, args = args[0], args[1:]
	}
	fs.Parse(args)
	if id == "" && fs.NArg() > 0 {
		id = fs.Arg(0)
	}
	if id == "" {
		fatal("usage: verif check <ID> [--tier quick|thorough]")
	}
	if *tier == "" {
		*tier = "quick"
	}
	if *tier != "quick" && *tier != "thorough" {
		fatal("bad tier %q", *tier)
	}
	seed := os.Getenv("VERIF_SEED")
	if _, err := strconv.ParseInt(seed, 10, 64); err != nil {
		seed = "0"
	}
	c := loadCheck(id)
	start := time.Now()
	suffix := ""
	if *patch != "" {
		suffix = "-patch-" + strconv.Itoa(os.Getpid())
	}
	work := filepath.Join(verifDir, ".work", c.Property+suffix)
	os.MkdirAll(work, 0o755)
	if *patch != "" {
		defer os.RemoveAll(work)
	}
	sv := &sourceView{repl: map[string]string{}}
	if *patch != "" {
		sv.repl = applyPatch(*patch, work)
	}
	dl := c.QuickS
	if *tier == "thorough" {
		dl = c.ThoroughS
	}
	if *deadline > 0 {
		dl = *deadline
	}
	var cfgs []*Config
	for i := range c.Configs {
		if inTier(&c.Configs[i], *tier) {
			cfgs = append(cfgs, &c.Configs[i])
		}
	}
	// build all configurations in parallel
	bins := make([]string, len(cfgs))
	berr := make([]error, len(cfgs))
	var wg sync.WaitGroup
	for i, cfg := range cfgs {
		wg.Add(1)
		go func(i int, cfg *Config) {
			defer wg.Done()
			ov := genOverlay(c, cfg, work, sv)
			bins[i], berr[i] = build(c, cfg, work, ov)
		}(i, cfg)
	}
	wg.Wait()
	for _, e := range berr {
		if e != nil {
			fatal("build failed (the tree does not compile with the harness; not a property violation):\n%v", e)
		}
	}
	buildS := time.Since(start).Seconds()
	type cfgSummary struct {
		Name        string           `json:"config"`
		Tags        string           `json:"tags"`
		Toolchain   string           `json:"toolchain,omitempty"`
		Companion   bool             `json:"companion_pass,omitempty"`
		Evaluations int64            `json:"evaluations"`
		Distinct    int64            `json:"distinct_nontrivial"`
		Complete    bool             `json:"complete"`
		StoppedAt   []string         `json:"stopped_at,omitempty"`
		Groups      map[string]int64 `json:"evaluations_by_group"`
	}
	var (
		total, distinct, dups, nviol int64
		outcomes                     = map[string]int64{}
		counters                     = map[string]int64{}
		maxes                        = map[string]int64{}
		samples                      []any
		viols                        []struct {
			cfg *Config
			v   Violation
		}
		knownHits = map[string]int64{}
		summaries []cfgSummary
		complete  = true
	)
	for i, cfg := range cfgs {
		if nviol > 0 && (cfg.Companion || cfg.Race) {
			// the deciding configuration already failed: the companion pass adds nothing
			continue
		}
		rs := runSpec{tier: *tier, seed: seed, groups: *groups, deadline: dl, shards: *shards, memMB: c.MemMB}
		if cfg.Shards > 0 {
			rs.shards = cfg.Shards
		}
		procs := []int{0}
		if cfg.Race && len(cfg.Procs) > 0 {
			procs = cfg.Procs
		}
		sum := cfgSummary{Name: cfg.Name, Tags: cfg.Tags, Toolchain: cfg.Go, Companion: cfg.Companion || cfg.Race, Complete: true, Groups: map[string]int64{}}
		for _, p := range procs {
			saved := cfg.Env
			if p > 0 {
				cfg.Env = append(append([]string{}, cfg.Env...), fmt.Sprintf("GOMAXPROCS=%d", p))
			}
			res, err := runWorkers(c, cfg, bins[i], work, rs)
			cfg.Env = saved
			if err != nil {
				// a shard that failed for an engine reason does not invalidate violations that the other
				// shards found and confirmed: report those (exit 1) and say that the run was incomplete.
				nv := 0
				for _, r := range res {
					nv += int(r.NViolations)
				}
				if nv == 0 {
					fatal("%v", err)
				}
				msg := err.Error()
				if len(msg) > 600 {
					msg = msg[:600]
				}
				fmt.Printf("ENGINE-WARNING: %s\n(violations found by the other shards are reported below; the run is incomplete)\n", msg)
				sum.Complete = false
				complete = false
				sum.StoppedAt = append(sum.StoppedAt, "engine error in one shard")
			}
			for _, r := range res {
				sum.Evaluations += r.Evaluations
				sum.Distinct += r.Distinct
				dups += r.DupKeys
				if !r.Complete {
					sum.Complete = false
					complete = false
					sum.StoppedAt = append(sum.StoppedAt, r.StoppedAt)
				}
				for k, v := range r.Outcomes {
					outcomes[k] += v
				}
				for k, v := range r.Counters {
					counters[k] += v
				}
				for k, v := range r.Maxes {
					if o, ok := maxes[k]; !ok || v > o {
						maxes[k] = v
					}
				}
				for g, st := range r.Groups {
					sum.Groups[g] += st["evaluations"]
				}
				for k, v := range r.Known {
					knownHits[k] += v
				}
				if len(samples) < 10 {
					for _, s := range r.Samples {
						if len(samples) < 10 {
							if m, ok := s.(map[string]any); ok {
								m["config"] = cfg.Name
							}
							samples = append(samples, s)
						}
					}
				}
				nviol += r.NViolations
				for _, v := range r.Violations {
					viols = append(viols, struct {
						cfg *Config
						v   Violation
					}{cfg, v})
				}
			}
		}
		if len(sum.StoppedAt) > 3 {
			sum.StoppedAt = sum.StoppedAt[:3]
		}
		total += sum.Evaluations
		distinct += sum.Distinct
		summaries = append(summaries, sum)
	}
	if dups > 0 {
		fatal("harness bug: %d duplicate case keys (distinctness cannot be claimed)", dups)
	}
	// replay files + lines
	known := loadKnown(c.Property)
	for _, id := range sortedKeys(knownHits) {
		fmt.Printf("KNOWN-FINDING: property=%s %s: %s (cases hit this run: %d)\n", c.Property, id, known[id].What, knownHits[id])
	}
	rdir := filepath.Join(verifDir, "replays", c.Property)
	if len(viols) > 0 {
		os.MkdirAll(rdir, 0o755)
	}
	sort.SliceStable(viols, func(i, j int) bool { return len(viols[i].v.Key) < len(viols[j].v.Key) })
	for i, vv := range viols {
		if i >= 25 {
			break
		}
		rp := filepath.Join(rdir, fmt.Sprintf("%s-%s-%d.json", *tier, vv.cfg.Name, i))
		rec := map[string]any{
			"property": c.Property, "config": vv.cfg.Name, "tags": vv.cfg.Tags, "tier": *tier, "seed": seed,
			"group": vv.v.Group, "key": vv.v.Key, "sub": vv.v.Sub, "class": vv.v.Class, "msgs": vv.v.Msgs, "detail": vv.v.Detail,
			"replay_cmd": "/verif/bin/verif replay " + rp,
		}
		b, _ := json.MarshalIndent(rec, "", " ")
		os.WriteFile(rp, b, 0o644)
		fmt.Printf("VIOLATION property=%s replay=%s\n", c.Property, rp)
		for _, m := range vv.v.Msgs {
			if len(m) > 600 {
				m = m[:600] + "..."
			}
			fmt.Printf("  [%s %s/%s%s] %s\n", vv.cfg.Name, vv.v.Group, vv.v.Key, vv.v.Sub, m)
		}
	}
	// evidence
	cov := map[string]any{
		"evaluations":         total,
		"distinct_nontrivial": distinct,
		"rule":                c.Rule + " Distinctness: case keys are unique per (configuration, group) (duplicates abort the run); a case counts once per build configuration because the configuration is part of the quantifier.",
		"samples":             samples,
		"exhaustive":          complete,
		"distinct_outcomes":   len(outcomes),
		"outcomes":            topOutcomes(outcomes, 60),
		"configurations":      summaries,
		"entry_points":        c.Entry,
		"bounds":              c.Bounds,
		"counters":            counters,
		"maxima":              maxes,
		"build_s":             buildS,
		"known_finding_hits":  knownHits,
	}
	if len(samples) == 0 {
		cov["samples"] = []any{"no non-trivial case ran (filtered run)"}
	}
	if c.Level == "model_checking" {
		cov["states"] = counters["states"]
		cov["transitions"] = counters["transitions"]
		cov["traces_validated_against_impl"] = counters["traces_validated_against_impl"]
	}
	ev := map[string]any{
		"property_id": c.Property,
		"tier":        *tier,
		"seed":        mustInt(seed),
		"level":       c.Level,
		"coverage":    cov,
		"assumptions": c.Assumptions,
		"wall_s":      time.Since(start).Seconds(),
		"violations":  nviol,
	}
	b, _ := json.MarshalIndent(ev, "", " ")
	ep := *evid
	if ep == "" {
		ep = filepath.Join(verifDir, "evidence", c.Property+".json")
		if *patch != "" || *groups != "" {
			ep = filepath.Join(work, "evidence.json") // partial / self-test runs never overwrite the real evidence
		}
	}
	os.MkdirAll(filepath.Dir(ep), 0o755)
	if err := os.WriteFile(ep, b, 0o644); err != nil {
		fatal("%v", err)
	}
	fmt.Printf("%s %s: configs=%d evaluations=%d distinct_nontrivial=%d outcomes=%d exhaustive=%v violations=%d known=%d wall=%.1fs (build %.1fs)\n",
		c.Property, *tier, len(cfgs), total, distinct, len(outcomes), complete, nviol, len(knownHits), time.Since(start).Seconds(), buildS)
	if nviol > 0 {
		return 1
	}
	return 0
}

func mustInt(s string) int64 { v, _ := strconv.ParseInt(s, 10, 64); return v }

func sortedKeys(m map[string]int64) []string {
	var ks []string
	for k := range m {
		ks = append(ks, k)
	}
	sort.Strings(ks)
	return ks
}

func topOutcomes(m map[string]int64, n int) map[string]int64 {
	ks := sortedKeys(m)
	sort.SliceStable(ks, func(i, j int) bool { return m[ks[i]] > m[ks[j]] })
	out := map[string]int64{}
	for i, k := range ks {
		if i >= n {
			break
		}
		out[k] = m[k]
	}
	return out
}

func cmdReplay(args []string) int {
	if len(args) < 1 {
		fatal("usage: verif replay <file>")
	}
	b, err := os.ReadFile(args[0])
	if err != nil {
		fatal("%v", err)
	}
	var rec struct {
		Property, Config, Tier, Seed, Group, Key string
	}
	if err := json.Unmarshal(b, &rec); err != nil {
		fatal("%v", err)
	}
	c := loadCheck(rec.Property)
	work := filepath.Join(verifDir, ".work", c.Property+"-replay")
	os.MkdirAll(work, 0o755)
	var cfg *Config
	for i := range c.Configs {
		if c.Configs[i].Name == rec.Config {
			cfg = &c.Configs[i]
		}
	}
	if cfg == nil {
		fatal("config %q not found", rec.Config)
	}
	sv := &sourceView{repl: map[string]string{}}
	ov := genOverlay(c, cfg, work, sv)
	bin, err := build(c, cfg, work, ov)
	if err != nil {
		fatal("%v", err)
	}
	res, err := runWorkers(c, cfg, bin, work, runSpec{tier: rec.Tier, seed: rec.Seed, replayG: rec.Group, replayK: rec.Key, shards: 1, memMB: c.MemMB})
	if err != nil {
		fatal("%v", err)
	}
	n := 0
	for _, r := range res {
		for _, v := range r.Violations {
			n++
			fmt.Printf("VIOLATION property=%s replay=%s\n", rec.Property, args[0])
			for _, m := range v.Msgs {
				fmt.Printf("  [%s %s/%s%s] %s\n", cfg.Name, v.Group, v.Key, v.Sub, m)
			}
		}
		for k, h := range r.Known {
			fmt.Printf("KNOWN-FINDING: property=%s %s (hits %d)\n", rec.Property, k, h)
		}
	}
	if n > 0 {
		return 1
	}
	fmt.Printf("replay of %s/%s: property holds on the current tree\n", rec.Group, rec.Key)
	return 0
}

// cmdPrebuild builds every worker of every check once so that the build cache is warm.
func cmdPrebuild() int {
	ents, _ := os.ReadDir(filepath.Join(verifDir, "harness"))
	claimed := map[string]bool{}
	if b, err := os.ReadFile(filepath.Join(verifDir, "tools", "claimed.txt")); err == nil {
		for _, f := range strings.Fields(string(b)) {
			claimed[strings.ToLower(f)] = true
		}
	}
	rc := 0
	sem := make(chan struct{}, 4)
	var wg sync.WaitGroup
	var mu sync.Mutex
	for _, e := range ents {
		if _, err := os.Stat(filepath.Join(verifDir, "harness", e.Name(), "check.json")); err != nil {
			continue
		}
		if len(claimed) > 0 && !claimed[e.Name()] {
			continue // not registered in MANIFEST.json (work in progress)
		}
		c := loadCheck(strings.ToUpper(e.Name()))
		work := filepath.Join(verifDir, ".work", c.Property)
		os.MkdirAll(work, 0o755)
		for i := range c.Configs {
			cfg := &c.Configs[i]
			wg.Add(1)
			go func() {
				defer wg.Done()
				sem <- struct{}{}
				defer func() { <-sem }()
				t0 := time.Now()
				ov := genOverlay(c, cfg, work, &sourceView{repl: map[string]string{}})
				_, err := build(c, cfg, work, ov)
				mu.Lock()
				defer mu.Unlock()
				if err != nil {
					fmt.Fprintf(os.Stderr, "prebuild %s/%s failed: %v\n", c.Property, cfg.Name, err)
					rc = 3
				} else {
					fmt.Printf("prebuilt %s/%s in %.1fs\n", c.Property, cfg.Name, time.Since(t0).Seconds())
				}
			}()
		}
	}
	wg.Wait()
	return rc
}

func main() {
	if len(os.Args) < 2 {
		fatal("usage: verif check|replay|list ...")
	}
	switch os.Args[1] {
	case "check":
		os.Exit(cmdCheck(os.Args[2:]))
	case "replay":
		os.Exit(cmdReplay(os.Args[2:]))
	case "prebuild":
		os.Exit(cmdPrebuild())
	case "list":
		ents, _ := os.ReadDir(filepath.Join(verifDir, "harness"))
		for _, e := range ents {
			if _, err := os.Stat(filepath.Join(verifDir, "harness", e.Name(), "check.json")); err == nil {
				fmt.Println(strings.ToUpper(e.Name()))
			}
		}
	default:
		fatal("unknown command %q", os.Args[1])
	}
}
