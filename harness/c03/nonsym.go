package main

import (
	"fmt"
	"math"
	"strings"

	"gonum.org/v1/gonum/blas"
	"gonum.org/v1/gonum/internal/verif/vlib"
	"gonum.org/v1/gonum/lapack"
)

// specTol is the tolerance for the matching distance between two computed
// spectra of the same n×n matrix A (norm nrm), each the exact spectrum of a
// matrix within thresh*n*eps*|A| of A (backward stability of the Hessenberg
// QR algorithm). For normal A the eigenvalues move by at most the
// perturbation (Hoffman-Wielandt / Weyl, with the constant evThresh); for
// general A only the Ostrowski-Elsner bound
//
//	md <= 4 * (|A|+|B|)^(1-1/n) * |A-B|^(1/n)
//
// (Bhatia, Matrix Analysis, Thm VIII.1.5) is a theorem, so that is what is used.
func specTol(normal bool, n int, nrm float64) float64 {
	if n == 0 || nrm == 0 {
		return 0
	}
	if normal {
		return evThresh * float64(n) * eps * nrm
	}
	d := 2 * thresh * float64(n) * eps * nrm
	return 4 * math.Pow(2.01*nrm, 1-1/float64(n)) * math.Pow(d, 1/float64(n))
}

// maskBlock zeroes A[i,j] for i>j when j<ilo or i>ihi (the form Dgehrd/Dhseqr assume).
func maskBlock(a M, ilo, ihi int) M {
	m := a.clone()
	for i := 0; i < m.r; i++ {
		for j := 0; j < i; j++ {
			if j < ilo || i > ihi {
				m.set(i, j, 0)
			}
		}
	}
	return m
}

// explicitQgehrd builds Q = H_ilo ... H_{ihi-1} from the reflectors stored below
// the first subdiagonal, as documented for Dgehrd.
func explicitQgehrd(s *S, ilo, ihi int, tau []float64) M {
	n := s.r
	q := eye(n)
	for i := ilo; i < ihi; i++ {
		v := make([]float64, n)
		v[i+1] = 1
		for k := i + 2; k <= ihi; k++ {
			v[k] = s.d[k*s.ld+i]
		}
		for r := 0; r < n; r++ {
			var dot float64
			for k := 0; k < n; k++ {
				dot += q.at(r, k) * v[k]
			}
			dot *= tau[i]
			for k := 0; k < n; k++ {
				q.set(r, k, q.at(r, k)-dot*v[k])
			}
		}
	}
	return q
}

// hessPart returns the upper Hessenberg part inside the block, upper triangular outside.
func hessPart(s *S, ilo, ihi int) M {
	n := s.r
	h := newM(n, n)
	for i := 0; i < n; i++ {
		for j := 0; j < n; j++ {
			if j >= i || (j == i-1 && j >= ilo && i <= ihi) {
				h.set(i, j, s.d[i*s.ld+j])
			}
		}
	}
	return h
}

func genDgehrd(g *vlib.G) {
	lim := p3(g, 6, 10, 12)
	profs := profSet(g, 5)
	type cfg struct {
		n, ilo, ihi int
		p           prof
		fams        []family
	}
	var plan []cfg
	plan = append(plan, cfg{0, 0, -1, profiles[0], nsFamilies[:1]})
	for n := 1; n <= lim; n++ {
		for _, p := range profs {
			for ilo := 0; ilo < n; ilo++ {
				for ihi := ilo; ihi < n; ihi++ {
					fams := []family{nsFamilies[0], nsFamilies[4]}
					if ilo == 0 && ihi == n-1 {
						fams = nsFamilies[:13]
					} else if n > 7 && ilo > 1 && ihi < n-2 && (ilo+ihi)%3 != 0 {
						continue
					}
					plan = append(plan, cfg{n, ilo, ihi, p, fams})
				}
			}
		}
	}
	for _, exp := range ladder(g, -1000, -500, 500, 1000) {
		for _, n := range []int{3, 5} {
			plan = append(plan, cfg{n, 0, n - 1, profiles[0], []family{scaledFam(nsFamilies[0], exp), scaledFam(nsFamilies[6], exp)}})
		}
	}
	stock := [][3]int{{1, 0, 0}, {2, 0, 1}, {5, 0, 4}, {5, 1, 3}, {33, 0, 32}, {40, 2, 37}}
	if lvl(g) >= 1 {
		stock = append(stock, [3]int{129, 0, 128}, [3]int{140, 3, 135})
	}
	if lvl(g) >= 2 {
		stock = append(stock, [3]int{200, 0, 199}, [3]int{300, 5, 290})
	}
	for _, s := range stock {
		plan = append(plan, cfg{s[0], s[1], s[2], stockProf, []family{nsFamilies[0], nsFamilies[6]}})
	}
	for _, c := range plan {
		for _, f := range c.fams {
			for _, ldx := range []int{0, 2} {
				for _, lw := range []string{"min", "mid", "query"} {
					c, f, ldx, lw := c, f, ldx, lw
					if g.Stopped() {
						return
					}
					kase(g, fmt.Sprintf("Dgehrd n=%d ilo=%d ihi=%d fam=%s prof=%s lda=n+%d lwork=%s", c.n, c.ilo, c.ihi, f.name, c.p.name, ldx, lw), func(t *vlib.T) {
						runDgehrd(t, c.n, c.ilo, c.ihi, c.p, f, ldx, lw)
						attributeBlocked(t, c.p, func(t *vlib.T, p prof) { runDgehrd(t, c.n, c.ilo, c.ihi, p, f, ldx, lw) })
					})
				}
			}
		}
	}
}

const gehrdTsize = 65 * 64 // the T workspace Dgehrd adds to n*nb

func runDgehrd(t *vlib.T, n, ilo, ihi int, p prof, f family, ldx int, lw string) {
	log, restore := p.install()
	defer restore()
	a := maskBlock(f.gen(n, n), ilo, ihi)
	nrm := fro(a)
	dim := fmax(n)
	lda := ldOf(n, ldx)
	as := fromM(a, lda).snap()
	tau := poisoned(max(0, n-1))
	qv, ok := queryLwork(t, "Dgehrd", 1, func(w []float64) { impl.Dgehrd(n, ilo, ihi, as.d, lda, tau, w, -1) })
	if !ok {
		return
	}
	lwork := max(1, n)
	switch lw {
	case "query":
		lwork = max(lwork, qv)
	case "mid":
		lwork = max(lwork, 2*n+gehrdTsize)
	}
	resetL3()
	impl.Dgehrd(n, ilo, ihi, as.d, lda, tau, poisoned(lwork), lwork)
	blocked := nL3() > 0
	if i, ok := as.padOK(n, n); !ok {
		t.Failf("Dgehrd modified padding at flat index %d", i)
	}
	if hasNaN(tau) {
		t.Failf("Dgehrd left tau unset: %v", tau)
		return
	}
	for i := 0; i < n-1; i++ {
		if (i < ilo || i >= ihi) && tau[i] != 0 {
			t.Failf("tau[%d]=%v, want 0 outside [ilo,ihi)", i, tau[i])
		}
	}
	// elements below the diagonal outside the block must still be zero
	for i := 0; i < n; i++ {
		for j := 0; j < i; j++ {
			if (j < ilo || i > ihi) && as.d[i*lda+j] != 0 {
				t.Failf("a[%d,%d]=%v outside the block became non-zero", i, j, as.d[i*lda+j])
			}
		}
	}
	q := explicitQgehrd(as, ilo, ihi, tau)
	h := hessPart(as, ilo, ihi)
	chk(t, "gehrd-QtAQ-H", ratio(fro(sub(mul(mul(q.T(), a), q), h)), dim, nrm), thresh, "")
	chk(t, "gehrd-QtQ-I", ratio(orthCols(q), dim, 1), thresh, "")

	// Dgehd2 on the same input.
	{
		a2 := fromM(a, lda).snap()
		tau2 := poisoned(max(0, n-1))
		impl.Dgehd2(n, ilo, ihi, a2.d, lda, tau2, poisoned(max(1, n)))
		if i, ok := a2.padOK(n, n); !ok {
			t.Failf("Dgehd2 modified padding at flat index %d", i)
		}
		// Dgehd2 only sets tau[ilo:ihi]
		for i := 0; i < n-1; i++ {
			if i < ilo || i >= ihi {
				tau2[i] = 0
			}
		}
		if hasNaN(tau2) {
			t.Failf("Dgehd2 left tau[ilo:ihi] unset: %v", tau2)
		} else {
			q2 := explicitQgehrd(a2, ilo, ihi, tau2)
			chk(t, "gehd2-QtAQ-H", ratio(fro(sub(mul(mul(q2.T(), a), q2), hessPart(a2, ilo, ihi))), dim, nrm), thresh, "")
		}
	}

	// Dorghr
	orgBlocked := false
	if n > 0 {
		for _, olw := range []string{"min", "query"} {
			sq := &S{r: n, c: n, ld: lda, d: append([]float64(nil), as.d...)}
			sq.snap()
			lwo := max(1, ihi-ilo)
			if olw == "query" {
				v, ok := queryLwork(t, "Dorghr", 1, func(w []float64) { impl.Dorghr(n, ilo, ihi, sq.d, lda, tau, w, -1) })
				if !ok {
					return
				}
				lwo = max(lwo, v)
			}
			resetL3()
			impl.Dorghr(n, ilo, ihi, sq.d, lda, tau, poisoned(lwo), lwo)
			orgBlocked = orgBlocked || nL3() > 0
			if i, ok := sq.padOK(n, n); !ok {
				t.Failf("Dorghr modified padding at flat index %d", i)
			}
			chk(t, "orghr-vs-explicit", ratio(fro(sub(sq.toM(), q)), dim, 1), thresh, "lwork="+olw)
		}
	}

	// Dormhr
	for _, side := range []blas.Side{blas.Left, blas.Right} {
		for _, trans := range []blas.Transpose{blas.NoTrans, blas.Trans} {
			for _, olw := range []string{"min", "query"} {
				if n == 0 {
					continue
				}
				cr, cc := n, 3
				if side == blas.Right {
					cr, cc = 3, n
				}
				ctx := fmt.Sprintf("Dormhr side=%c trans=%c lwork=%s", side, trans, olw)
				cm := intGeneral(cr, cc, 3, lcgFor(13, cr, cc))
				ldc := ldOf(cc, off(ldx, 1))
				cs := fromM(cm, ldc).snap()
				op := q
				if trans == blas.Trans {
					op = q.T()
				}
				var want M
				if side == blas.Left {
					want = mul(op, cm)
				} else {
					want = mul(cm, op)
				}
				nw := cc
				if side == blas.Right {
					nw = cr
				}
				lwo := max(1, nw)
				asIn := append([]float64(nil), as.d...)
				if olw == "query" {
					v, ok := queryLwork(t, "Dormhr", 1, func(w []float64) {
						impl.Dormhr(side, trans, cr, cc, ilo, ihi, asIn, lda, tau, cs.d, ldc, w, -1)
					})
					if !ok {
						return
					}
					lwo = max(lwo, v)
				}
				impl.Dormhr(side, trans, cr, cc, ilo, ihi, asIn, lda, tau, cs.d, ldc, poisoned(lwo), lwo)
				if i, same := vlib.Same64(asIn, as.d); !same {
					t.Failf("%s modified its reflector input at flat index %d", ctx, i)
				}
				if i, ok := cs.padOK(cr, cc); !ok {
					t.Failf("%s modified padding of c at flat index %d", ctx, i)
				}
				chk(t, "ormhr-vs-explicit", ratio(fro(sub(cs.toM(), want)), dim, fro(cm)), thresh, ctx)
			}
		}
	}
	if ihi-ilo >= 2 {
		t.Nontrivial()
	}
	bs := func(b bool) string {
		if b {
			return "blocked"
		}
		return "unblocked"
	}
	t.Outcome(fmt.Sprintf("hrd=%s orghr=%s", bs(blocked), bs(orgBlocked)))
	t.Detail(map[string]any{"ilaenv": log.String()})
}

// ---------------------------------------------------------------------------
// Schur form checks

// schurFormOK checks that T is upper quasi-triangular in Schur canonical form
// and that (wr, wi) are what the documentation says they are.
func schurFormOK(t *vlib.T, tm M, wr, wi []float64, ctx string) {
	n := tm.r
	for i := 0; i < n; i++ {
		for j := 0; j+1 < i; j++ {
			if tm.at(i, j) != 0 {
				t.Failf("T[%d,%d]=%v below the first subdiagonal [%s]", i, j, tm.at(i, j), ctx)
				return
			}
		}
	}
	for i := 0; i < n; {
		if i+1 < n && tm.at(i+1, i) != 0 {
			if i+2 < n && tm.at(i+2, i+1) != 0 {
				t.Failf("T has consecutive non-zero subdiagonal entries at %d and %d [%s]", i, i+1, ctx)
				return
			}
			a, b, c, d := tm.at(i, i), tm.at(i, i+1), tm.at(i+1, i), tm.at(i+1, i+1)
			if a != d || !oppositeSigns(b, c) {
				t.Failf("2x2 block at %d not standardised: [[%v %v][%v %v]] [%s]", i, a, b, c, d, ctx)
			}
			im := math.Sqrt(math.Abs(b)) * math.Sqrt(math.Abs(c))
			if wr[i] != a || wr[i+1] != d {
				t.Failf("wr[%d:%d]=%v %v != diagonal %v %v [%s]", i, i+2, wr[i], wr[i+1], a, d, ctx)
			}
			if !(wi[i] > 0) || wi[i+1] != -wi[i] || !(math.Abs(wi[i]-im) <= 8*eps*im) {
				t.Failf("wi[%d:%d]=%v %v, want +-%v [%s]", i, i+2, wi[i], wi[i+1], im, ctx)
			}
			i += 2
			continue
		}
		if wr[i] != tm.at(i, i) || wi[i] != 0 {
			t.Failf("(wr,wi)[%d]=(%v,%v) != (T[%d,%d],0)=(%v,0) [%s]", i, wr[i], wi[i], i, i, tm.at(i, i), ctx)
		}
		i++
	}
}

// pairsOK checks the storage convention of complex eigenvalues: adjacent
// conjugate pairs, positive imaginary part first.
func pairsOK(t *vlib.T, wr, wi []float64, ctx string) bool {
	n := len(wr)
	for i := 0; i < n; {
		if math.IsNaN(wr[i]) || math.IsNaN(wi[i]) {
			t.Failf("eigenvalue %d is NaN/unset [%s]", i, ctx)
			return false
		}
		if wi[i] == 0 {
			i++
			continue
		}
		if !(wi[i] > 0) || i+1 >= n || wi[i+1] != -wi[i] || wr[i+1] != wr[i] {
			t.Failf("complex eigenvalue %d not stored as adjacent conjugate pair with positive imaginary part first: wr=%v wi=%v [%s]", i, wr, wi, ctx)
			return false
		}
		i += 2
	}
	return true
}

func genDhseqr(g *vlib.G) {
	type cfg struct {
		n    int
		p    prof
		fams []family
	}
	var plan []cfg
	lim := p3(g, 6, 10, 12)
	profs := profSet(g, 5)
	for n := 0; n <= lim; n++ {
		for _, p := range profs {
			plan = append(plan, cfg{n, p, nsFamilies})
		}
	}
	// above the hard floor of the Dlahqr/Dlaqr04 crossover
	big := []int{16, 19, 24}
	bigFams := []family{nsFamilies[0], nsFamilies[1], nsFamilies[4], nsFamilies[6], nsFamilies[10], nsFamilies[11]}
	if lvl(g) >= 1 {
		big = vlib.Ints(16, 24)
	}
	if lvl(g) >= 2 {
		big = append(big, 28, 33, 40)
		bigFams = nsFamilies[:13]
	}
	for _, n := range big {
		for _, p := range profs {
			plan = append(plan, cfg{n, p, bigFams})
		}
	}
	stock := []int{1, 2, 5, 31, 32, 33}
	if lvl(g) >= 1 {
		stock = append(stock, 74, 75, 76) // the stock Dlahqr/Dlaqr04 crossover (nmin = 75)
		deep := prof{name: "deep", nb: 4, nbmin: 2, nx: 0, nmin: 2, nwr: 17, nibble: 14, nsr: 16, kacc: 2}
		for _, n := range p3(g, nil, []int{50}, []int{50, 64, 100}) {
			plan = append(plan, cfg{n, deep, []family{nsFamilies[0], nsFamilies[6], nsFamilies[10]}})
		}
	}
	if lvl(g) >= 2 {
		stock = append(stock, 100, 150)
	}
	for _, n := range stock {
		plan = append(plan, cfg{n, stockProf, []family{nsFamilies[0], nsFamilies[4], nsFamilies[6], nsFamilies[10], nsFamilies[11]}})
	}
	// magnitude ladder: Dhseqr/Dlahqr/Dlanv2 get the matrix as it is (Dgeev rescales, they do not)
	ladFams := []family{nsFamilies[0], nsFamilies[5], nsFamilies[6], nsFamilies[4], nsFamilies[10], nsFamilies[9]}
	for _, exp := range ladder(g, -800, -500, -200, 200, 500, 800) {
		for _, n := range p3(g, []int{3, 4}, []int{2, 3, 4, 6}, []int{2, 3, 4, 5, 6, 8, 17}) {
			fs := make([]family, len(ladFams))
			for i, f := range ladFams {
				fs[i] = scaledFam(f, exp)
			}
			plan = append(plan, cfg{n, profiles[0], fs})
		}
	}
	for _, c := range plan {
		for _, f := range c.fams {
			for _, bal := range []lapack.BalanceJob{lapack.BalanceNone, lapack.Permute} {
				if bal == lapack.Permute && f.name != "reducible" && f.name != "jordeps" && f.name != "int" && !strings.HasPrefix(f.name, "int@") {
					continue
				}
				for _, ldx := range []int{0, 2} {
					for _, lw := range []string{"min", "query"} {
						c, f, bal, ldx, lw := c, f, bal, ldx, lw
						if g.Stopped() {
							return
						}
						kase(g, fmt.Sprintf("Dhseqr n=%d fam=%s bal=%c prof=%s ld=n+%d lwork=%s", c.n, f.name, bal, c.p.name, ldx, lw), func(t *vlib.T) {
							runDhseqr(t, c.n, c.p, f, bal, ldx, lw)
						})
					}
				}
			}
		}
	}
}

func runDhseqr(t *vlib.T, n int, p prof, f family, bal lapack.BalanceJob, ldx int, lw string) {
	log, restore := p.install()
	defer restore()
	a0 := f.gen(n, n)
	dim := fmax(n)
	ld := ldOf(n, ldx)
	ldzz := ldOf(n, off(ldx, 1)) // z has its own leading dimension
	// balance (permutation only: an orthogonal similarity), reduce, generate Q
	bs := fromM(a0, ld).snap()
	scale := poisoned(n)
	ilo, ihi := impl.Dgebal(bal, n, bs.d, ld, scale)
	b := bs.toM() // the matrix whose Schur form is computed
	nrm := fro(b)
	hs := fromM(b, ld).snap()
	tau := poisoned(max(0, n-1))
	impl.Dgehrd(n, ilo, ihi, hs.d, ld, tau, poisoned(max(1, n)), max(1, n))
	qs := &S{r: n, c: n, ld: ld, d: append([]float64(nil), hs.d...)}
	if n > 0 {
		impl.Dorghr(n, ilo, ihi, qs.d, ld, tau, poisoned(max(1, ihi-ilo)), max(1, ihi-ilo))
	}
	q := qs.toM()
	h := hessPart(hs, ilo, ihi)
	// sanity of the preparation (also checked in its own group)
	chk(t, "hseqr-prep-QtBQ-H", ratio(fro(sub(mul(mul(q.T(), b), q), h)), dim, nrm), thresh, "")

	tol := specTol(f.normal, n, nrm)
	var refR, refI []float64
	refCtx := ""
	conv := "conv"
	usedQR04 := false
	for _, job := range []lapack.SchurJob{lapack.EigenvaluesAndSchur, lapack.EigenvaluesOnly} {
		for _, compz := range []lapack.SchurComp{lapack.SchurOrig, lapack.SchurHess, lapack.SchurNone} {
			ctx := fmt.Sprintf("job=%c compz=%c ilo=%d ihi=%d", job, compz, ilo, ihi)
			hh := fromM(h, ld).snap()
			var zs *S
			var zd []float64
			ldz := 1
			switch compz {
			case lapack.SchurOrig:
				zs = fromM(q, ldzz).snap()
				zd, ldz = zs.d, ldzz
			case lapack.SchurHess:
				zs = newS(n, n, ldzz).snap()
				zd, ldz = zs.d, ldzz
			}
			wr, wi := poisoned(n), poisoned(n)
			lwork := max(1, n)
			if lw == "query" {
				// documented: neither h nor z are accessed by the query
				v, ok := queryLwork(t, "Dhseqr", 1, func(w []float64) {
					impl.Dhseqr(job, compz, n, ilo, ihi, nil, ld, nil, nil, nil, ldz, w, -1)
				})
				if !ok {
					return
				}
				lwork = max(lwork, v)
			}
			before := log.iparm[14]
			var unconv int
			if !call(t, "Dhseqr "+ctx, func() {
				unconv = impl.Dhseqr(job, compz, n, ilo, ihi, hh.d, ld, wr, wi, zd, ldz, poisoned(lwork), lwork)
			}) {
				return
			}
			if log.iparm[14] > before {
				usedQR04 = true
			}
			if i, ok := hh.padOK(n, n); !ok {
				t.Failf("Dhseqr modified padding of h at flat index %d [%s]", i, ctx)
			}
			if zs != nil {
				if i, ok := zs.padOK(n, n); !ok {
					t.Failf("Dhseqr modified padding of z at flat index %d [%s]", i, ctx)
				}
			}
			if unconv != 0 {
				if p.stock {
					t.Failf("Dhseqr did not converge (unconverged=%d) with stock parameters [%s]", unconv, ctx)
				}
				conv = "noconv"
				continue
			}
			if !pairsOK(t, wr, wi, ctx) {
				continue
			}
			if refR == nil {
				refR, refI, refCtx = wr, wi, ctx
			} else {
				d := matchDist(wr, wi, refR, refI)
				if !(d <= tol) {
					t.Failf("eigenvalues differ from those of [%s] by %.3g > tol %.3g [%s]", refCtx, d, tol, ctx)
				}
			}
			var sumR, tr float64
			for i := 0; i < n; i++ {
				sumR += wr[i]
				tr += b.at(i, i)
			}
			chk(t, "hseqr-trace", ratio(math.Abs(sumR-tr), dim*dim, nrm), thresh, ctx)
			var z M
			if zs != nil {
				z = zs.toM()
				chk(t, "hseqr-ZtZ-I", ratio(orthCols(z), dim, 1), thresh, ctx)
			}
			if job == lapack.EigenvaluesAndSchur {
				tm := hh.toM()
				schurFormOK(t, tm, wr, wi, ctx)
				switch compz {
				case lapack.SchurOrig:
					chk(t, "hseqr-B-ZTZt", ratio(fro(sub(b, mul(mul(z, tm), z.T()))), dim, nrm), thresh, ctx)
				case lapack.SchurHess:
					chk(t, "hseqr-H-ZTZt", ratio(fro(sub(h, mul(mul(z, tm), z.T()))), dim, nrm), thresh, ctx)
				}
			}
		}
	}
	if ihi-ilo >= 2 {
		t.Nontrivial()
	}
	alg := "lahqr"
	if usedQR04 {
		alg = "laqr04"
	}
	if ihi == ilo || n == 0 {
		alg = "trivial"
	}
	log.report(t)
	t.Outcome(fmt.Sprintf("%s %s", alg, conv))
	t.Detail(map[string]any{"ilaenv": log.String(), "ilo": ilo, "ihi": ihi})
}

// ---------------------------------------------------------------------------
// Dgeev

func genDgeev(g *vlib.G) {
	type cfg struct {
		n    int
		p    prof
		fams []family
	}
	var plan []cfg
	lim := p3(g, 6, 10, 12)
	profs := profSet(g, 5)
	for n := 0; n <= lim; n++ {
		for _, p := range profs {
			plan = append(plan, cfg{n, p, nsFamilies})
		}
	}
	big := []int{16, 21}
	bigFams := []family{nsFamilies[0], nsFamilies[4], nsFamilies[6], nsFamilies[10], nsFamilies[11]}
	if lvl(g) >= 1 {
		big = vlib.Ints(16, 24)
	}
	if lvl(g) >= 2 {
		big = append(big, 28, 33, 40)
		bigFams = nsFamilies[:13]
	}
	for _, n := range big {
		for _, p := range profs {
			plan = append(plan, cfg{n, p, bigFams})
		}
	}
	stock := []int{1, 2, 5, 31, 32, 33}
	if lvl(g) >= 1 {
		stock = append(stock, 74, 75, 76)
	}
	if lvl(g) >= 2 {
		stock = append(stock, 100, 150)
	}
	for _, n := range stock {
		plan = append(plan, cfg{n, stockProf, []family{nsFamilies[0], nsFamilies[1], nsFamilies[4], nsFamilies[6], nsFamilies[10], nsFamilies[11], nsFamilies[13]}})
	}
	for _, c := range plan {
		for _, f := range c.fams {
			lds := [][3]int{{0, 0, 0}, {2, 1, 3}} // (lda, ldvl, ldvr) paddings, all different
			if lvl(g) >= 1 && c.n <= 40 {
				lds = append(lds, [3]int{2, 2, 2}, [3]int{0, 2, 0}, [3]int{1, 0, 2})
			}
			for _, ld := range lds {
				for _, lw := range []string{"min", "query", "big"} {
					c, f, ld, lw := c, f, ld, lw
					if g.Stopped() {
						return
					}
					kase(g, fmt.Sprintf("Dgeev n=%d fam=%s prof=%s ld=+%d+%d+%d lwork=%s", c.n, f.name, c.p.name, ld[0], ld[1], ld[2], lw), func(t *vlib.T) {
						runDgeev(t, c.n, c.p, f, ld, lw)
						attributeBlocked(t, c.p, func(t *vlib.T, p prof) { runDgeev(t, c.n, p, f, ld, lw) })
					})
				}
			}
		}
	}
}

// evecResid returns, for eigenvalue j of a (transposed for left vectors), the
// residual |A v - lambda v|_2, the norm of v, and whether the component of
// largest modulus is real. For a complex pair (j, j+1) the pair is handled together.
func evecResid(a M, v M, wr, wi []float64, j int, left bool) (resid, norm float64, largestReal bool) {
	n := a.r
	op := a
	if left {
		op = a.T()
	}
	x := v.sub(0, n, j, j+1)
	if wi[j] == 0 {
		r := sub(mul(op, x), x.scale(wr[j]))
		return fro(r), fro(x), true
	}
	y := v.sub(0, n, j+1, j+2)
	im := wi[j]
	if left {
		im = -im // Aᵀ u = conj(lambda) u
	}
	// A(x+iy) = (wr + i im)(x+iy) = (wr x - im y) + i(im x + wr y)
	r1 := sub(mul(op, x), sub(x.scale(wr[j]), y.scale(im)))
	r2 := sub(mul(op, y), sub(y.scale(wr[j]), x.scale(-im)))
	resid = math.Hypot(fro(r1), fro(r2))
	norm = math.Hypot(fro(x), fro(y))
	var best float64
	for k := 0; k < n; k++ {
		best = math.Max(best, x.a[k]*x.a[k]+y.a[k]*y.a[k])
	}
	for k := 0; k < n; k++ {
		if y.a[k] == 0 && x.a[k]*x.a[k] >= best*(1-16*eps) {
			largestReal = true
		}
	}
	return resid, norm, largestReal
}

func runDgeev(t *vlib.T, n int, p prof, f family, ld [3]int, lw string) {
	log, restore := p.install()
	defer restore()
	base := f.gen(n, n)
	a := base.scale(f.scale)
	nrm := fro(base)
	dim := fmax(n)
	lda := ldOf(n, ld[0])
	tol := specTol(f.normal, n, nrm)
	var refR, refI []float64
	refCtx := ""
	conv := "conv"
	hrdBlocked, qr04 := false, false
	for _, jobvl := range []lapack.LeftEVJob{lapack.LeftEVNone, lapack.LeftEVCompute} {
		for _, jobvr := range []lapack.RightEVJob{lapack.RightEVNone, lapack.RightEVCompute} {
			ctx := fmt.Sprintf("jobvl=%c jobvr=%c", jobvl, jobvr)
			as := fromM(a, lda).snap()
			var vls, vrs *S
			var vld, vrd []float64
			ldvl, ldvr := 1, 1
			if jobvl == lapack.LeftEVCompute {
				ldvl = ldOf(n, ld[1])
				vls = newS(n, n, ldvl).snap()
				vld = vls.d
			}
			if jobvr == lapack.RightEVCompute {
				ldvr = ldOf(n, ld[2])
				vrs = newS(n, n, ldvr).snap()
				vrd = vrs.d
			}
			minwrk := max(1, 3*n)
			if vls != nil || vrs != nil {
				minwrk = max(1, 4*n)
			}
			wr, wi := poisoned(n), poisoned(n)
			qv, ok := queryLwork(t, "Dgeev", minwrk, func(w []float64) {
				impl.Dgeev(jobvl, jobvr, n, as.d, lda, wr, wi, vld, ldvl, vrd, ldvr, w, -1)
			})
			if !ok {
				return
			}
			if i, same := as.unchanged(); !same {
				t.Failf("workspace query modified a at flat index %d [%s]", i, ctx)
			}
			lwork := minwrk
			switch lw {
			case "query":
				lwork = qv
			case "big":
				lwork = qv + gehrdTsize
			}
			resetL3()
			b14 := log.iparm[14]
			var first int
			if !call(t, "Dgeev "+ctx, func() {
				first = impl.Dgeev(jobvl, jobvr, n, as.d, lda, wr, wi, vld, ldvl, vrd, ldvr, poisoned(lwork), lwork)
			}) {
				return
			}
			if log.iparm[14] > b14 {
				qr04 = true
			}
			if nL3() > 0 {
				hrdBlocked = true
			}
			if i, ok := as.padOK(n, n); !ok {
				t.Failf("padding of a modified at flat index %d [%s]", i, ctx)
			}
			if first != 0 {
				if p.stock {
					t.Failf("Dgeev did not converge (first=%d) with stock parameters [%s]", first, ctx)
				}
				conv = "noconv"
				continue
			}
			wrs, wis := scaled(wr, f.scale), scaled(wi, f.scale)
			if !pairsOK(t, wr, wi, ctx) {
				continue
			}
			if refR == nil {
				refR, refI, refCtx = wrs, wis, ctx
			} else {
				d := matchDist(wrs, wis, refR, refI)
				if !(d <= tol) {
					t.Failf("eigenvalues differ from those of [%s] by %.3g > tol %.3g [%s]", refCtx, d, tol, ctx)
				}
			}
			var sumR, tr float64
			for i := 0; i < n; i++ {
				sumR += wrs[i]
				tr += base.at(i, i)
			}
			chk(t, "geev-trace", ratio(math.Abs(sumR-tr), dim*dim, nrm), thresh, ctx)
			for side, vs := range []*S{vrs, vls} {
				if vs == nil {
					continue
				}
				name := []string{"vr", "vl"}[side]
				if i, ok := vs.padOK(n, n); !ok {
					t.Failf("padding of %s modified at flat index %d [%s]", name, i, ctx)
				}
				v := vs.toM()
				for j := 0; j < n; j++ {
					resid, norm, lr := evecResid(base, v, wrs, wis, j, side == 1)
					c := fmt.Sprintf("%s %s[:,%d] lambda=(%v,%v)", ctx, name, j, wrs[j], wis[j])
					chk(t, "geev-Av-lv-"+name, ratio(resid, dim, nrm), thresh, c)
					chk(t, "geev-norm1-"+name, ratio(math.Abs(norm-1), dim, 1), thresh, c)
					if !lr {
						t.Failf("component of largest modulus is not real [%s]", c)
					}
					if wis[j] != 0 {
						j++
					}
				}
			}
		}
	}
	if n >= 2 {
		t.Nontrivial()
	}
	alg := "lahqr"
	if qr04 {
		alg = "laqr04"
	}
	hb := "L2"
	if hrdBlocked {
		hb = "L3"
	}
	log.report(t)
	t.Outcome(fmt.Sprintf("%s %s %s", alg, hb, conv))
	t.Detail(map[string]any{"ilaenv": log.String()})
}

// ---------------------------------------------------------------------------
// Dhseqr on small Hessenberg matrices for which Dlahqr does not converge
// (the fallback to Dlaqr04 on an enlarged copy, n < 49).

// stagnantHess returns an n×n upper Hessenberg matrix with zero (kind 0, 1) or
// tiny (kind 2) diagonal, integer strict upper triangle and subdiagonal entries
// of size 2^sub (products of two of them underflow for sub <= -540). kind 1
// reverses the order of the rows and columns' magnitudes (persymmetric flip).
func stagnantHess(n, sub, kind, seed int) M {
	l := lcgFor(110+kind, n, seed)
	h := newM(n, n)
	for i := 0; i < n; i++ {
		for j := i + 1; j < n; j++ {
			h.set(i, j, float64(l.Small(2)))
		}
		if i+1 < n {
			h.set(i, i+1, float64(1+l.Next()%2)*float64(1-2*int(l.Next()&1)))
			h.set(i+1, i, math.Ldexp(float64(1+l.Next()%4)*float64(1-2*int(l.Next()&1)), sub))
		}
		if kind == 2 {
			h.set(i, i, math.Ldexp(float64(l.Small(2)), sub))
		}
	}
	if kind == 1 {
		// flip about the anti-diagonal: stays upper Hessenberg
		f := newM(n, n)
		for i := 0; i < n; i++ {
			for j := 0; j < n; j++ {
				f.set(i, j, h.at(n-1-j, n-1-i))
			}
		}
		return f
	}
	return h
}

func genDhseqrNoConv(g *vlib.G) {
	// the reported reproducer first
	kase(g, "Dhseqr stagnant reproducer n=4", func(t *vlib.T) {
		h := M{4, 4, []float64{0, -2, 0, 1, 4e-250, 0, -1, 1, 0, 2e-250, 0, -2, 0, 0, -1e-250, 0}}
		runDhseqrNoConv(t, h, 0)
	})
	for n := 3; n <= p3(g, 6, 12, 16); n++ {
		for _, sub := range []int{-830, -664, -996, -540} {
			for kind := 0; kind < 3; kind++ {
				for seed := 0; seed < p3(g, 1, 2, 4); seed++ {
					for _, ldx := range []int{0, 2} {
						n, sub, kind, seed, ldx := n, sub, kind, seed, ldx
						kase(g, fmt.Sprintf("Dhseqr stagnant n=%d sub=2^%d kind=%d seed=%d ld=+%d", n, sub, kind, seed, ldx), func(t *vlib.T) {
							runDhseqrNoConv(t, stagnantHess(n, sub, kind, seed), ldx)
						})
					}
				}
			}
		}
	}
}

func runDhseqrNoConv(t *vlib.T, h0 M, ldx int) {
	n := h0.r
	dim := fmax(n)
	nrm := fro(h0)
	ldh, ldz := ldOf(n, ldx), ldOf(n, off(ldx, 1))
	// does Dlahqr itself converge on this input? (outcome label only)
	// ... and does it fill H with NaNs on the way? (Like the reference, Dlahqr divides the
	// first column v of the double-shift polynomial by |v0|+|v1|+|v2| without a guard; for
	// these matrices the products of tiny subdiagonal entries underflow, v is exactly 0 and
	// 0/0 spreads through H: finding dlahqr-underflow-nan.)
	lahqrFails, lahqrNaN := false, false
	{
		hs := fromM(h0, ldh)
		wr, wi := make([]float64, n), make([]float64, n)
		var u int
		if msg := catch(func() { u = impl.Dlahqr(true, false, n, 0, n-1, hs.d, ldh, wr, wi, 0, n-1, nil, 1) }); msg == "" && u > 0 {
			lahqrFails = true
			lahqrNaN = hasNaN(hs.toM().a)
		}
	}
	f0 := nFindings
	defer func() {
		if lahqrNaN && t.Failed() && nFindings == f0 {
			finding(t, "dlahqr-underflow-nan", "Dlahqr fills H with NaN on this input (0/0 in the unguarded normalisation of the shift vector); what follows is a consequence")
		}
	}()
	outcome := "conv"
	for _, job := range []lapack.SchurJob{lapack.EigenvaluesAndSchur, lapack.EigenvaluesOnly} {
		for _, compz := range []lapack.SchurComp{lapack.SchurHess, lapack.SchurNone} {
			ctx := fmt.Sprintf("job=%c compz=%c", job, compz)
			hs := fromM(h0, ldh).snap()
			var zs *S
			var zd []float64
			lz := 1
			if compz == lapack.SchurHess {
				zs = newS(n, n, ldz).snap()
				zd, lz = zs.d, ldz
			}
			wr, wi := poisoned(n), poisoned(n)
			lwork := max(1, n)
			if n > 75 && compz == lapack.SchurHess {
				// above the crossover: the optimal workspace for the runs with Z, the minimum for the others
				q := poisoned(1)
				impl.Dhseqr(job, compz, n, 0, n-1, nil, ldh, nil, nil, nil, lz, q, -1)
				if !math.IsNaN(q[0]) {
					lwork = max(lwork, int(q[0]))
				}
			}
			var unconv int
			if msg := catch(func() {
				unconv = impl.Dhseqr(job, compz, n, 0, n-1, hs.d, ldh, wr, wi, zd, lz, poisoned(lwork), lwork)
			}); msg != "" {
				// "bad shifts" / "not isolated" are internal consistency checks of Dlaqr1/Dlaqr5
				// tripped by NaN shifts or NaN subdiagonals that a Dlahqr call inside Dlaqr04 produced
				if strings.Contains(msg, "index out of range") && strings.Contains(lastStack, "dlaqr23.go") {
					finding(t, "dlaqr23-sort-reads-past-window", "Dlaqr23 reads T[i+1,i] one row below its deflation window after a non-converged window iteration: %s %s [%s]", msg, lastStack, ctx)
				} else if (lahqrNaN || strings.Contains(msg, "bad shifts") || strings.Contains(msg, "not isolated")) && !strings.HasPrefix(msg, "HANG") {
					finding(t, "dlahqr-underflow-nan", "Dlahqr fills H with NaN (0/0 in the unguarded normalisation of the shift vector) and Dhseqr then panics: %s %s [%s]", msg, lastStack, ctx)
				} else if lahqrFails && !strings.HasPrefix(msg, "HANG") {
					finding(t, "dhseqr-small-fallback-panics", "Dlahqr does not converge and the fallback of Dhseqr for n < 49 panics: %s %s [%s]", msg, lastStack, ctx)
				} else {
					failCall(t, "Dhseqr "+ctx, msg)
				}
				outcome = "panic"
				continue
			}
			if i, ok := hs.padOK(n, n); !ok {
				t.Failf("padding of h modified at flat index %d [%s]", i, ctx)
			}
			var z M
			if zs != nil {
				if i, ok := zs.padOK(n, n); !ok {
					t.Failf("padding of z modified at flat index %d [%s]", i, ctx)
				}
				z = zs.toM()
				chk(t, "noconv-ZtZ-I", ratio(orthCols(z), dim, 1), thresh, ctx)
			}
			hf := hs.toM()
			if unconv == 0 {
				if !pairsOK(t, wr, wi, ctx) {
					continue
				}
				if job == lapack.EigenvaluesAndSchur {
					schurFormOK(t, hf, wr, wi, ctx)
					if zs != nil {
						chk(t, "noconv-H-ZTZt", ratio(fro(sub(h0, mul(mul(z, hf), z.T()))), dim, nrm), thresh, ctx)
					}
				}
				continue
			}
			// documented partial results
			outcome = "unconverged"
			if unconv < 0 || unconv > n {
				t.Failf("unconverged=%d out of range [%s]", unconv, ctx)
				continue
			}
			if hasNaN(wr[unconv:]) || hasNaN(wi[unconv:]) {
				t.Failf("unconverged=%d but wr/wi[%d:] are not all set: %v %v [%s]", unconv, unconv, wr, wi, ctx)
			}
			if job == lapack.EigenvaluesAndSchur {
				// final H upper Hessenberg, H[unconv:, unconv:] quasi-triangular with its eigenvalues in wr/wi[unconv:]
				for i := 0; i < n; i++ {
					for j := 0; j+1 < i; j++ {
						if hf.at(i, j) != 0 {
							t.Failf("final H[%d,%d]=%v is not upper Hessenberg [%s]", i, j, hf.at(i, j), ctx)
						}
					}
				}
				if unconv < n {
					tr := hf.sub(unconv, n, unconv, n)
					schurFormOK(t, tr, wr[unconv:], wi[unconv:], ctx+" trailing block")
				}
				if zs != nil {
					// (initial H) U = U (final H), final Z = U
					chk(t, "noconv-HU-UHf", ratio(fro(sub(mul(h0, z), mul(z, hf))), dim, nrm), thresh, ctx)
				}
			}
		}
	}
	t.Nontrivial()
	t.Outcome(fmt.Sprintf("lahqr-fails=%v nan=%v %s", lahqrFails, lahqrNaN, outcome))
}
