package main

import (
	"fmt"
	"math"

	"gonum.org/v1/gonum/internal/verif/vlib"
)

// Hessenberg QR kernels (Dlahqr, Dlaqr5, and through Dhseqr also Dlaqr04 and
// Dlaqr23) on unreduced Hessenberg matrices of norm O(1) with MIXED-MAGNITUDE
// subdiagonals: entries of size 2^-400, 2^-565, 2^-830 (products of two of them
// underflow) next to entries of order one. On such matrices reflectors
// degenerate to the identity, bulges collapse and the recovery branches of the
// kernels run; every sweep must still be an orthogonal similarity.

// mixedHess returns an n×n integer upper Hessenberg matrix whose subdiagonal
// mixes O(1) and tiny entries. kind 0: random diagonal, each subdiagonal entry
// tiny with probability 1/2; kind 1: zero diagonal; kind 2: zero diagonal,
// pairs of consecutive tiny entries next to an O(1) entry and trailing 2×2
// blocks with complex eigenvalues; kind 3: random diagonal, few tiny entries;
// kind 4: see below.
func mixedHess(n, kind, seed int) M {
	l := lcgFor(120+kind, n, seed)
	if kind == 4 {
		// every entry on and above the subdiagonal a random integer in [-3, 3] (zeros
		// allowed: the matrix may be reducible); one subdiagonal entry in two replaced
		// by +k*1e-170, -k*1e-250 or +k*1e-120
		h := newM(n, n)
		for i := 0; i < n; i++ {
			for j := max(0, i-1); j < n; j++ {
				h.set(i, j, float64(l.Small(3)))
			}
			if i > 0 {
				k := float64(1 + l.Next()%5)
				switch l.Next() % 6 {
				case 0:
					h.set(i, i-1, k*1e-170)
				case 1:
					h.set(i, i-1, -k*1e-250)
				case 2:
					h.set(i, i-1, k*1e-120)
				}
			}
		}
		return h
	}
	tiny := []int{-400, -565, -830, -830}
	h := newM(n, n)
	for i := 0; i < n; i++ {
		for j := i; j < n; j++ {
			h.set(i, j, float64(l.Small(3)))
		}
		if kind == 1 || kind == 2 {
			h.set(i, i, 0)
		}
		if i+1 < n {
			v := float64(1+l.Next()%4) * float64(1-2*int(l.Next()&1))
			var isTiny bool
			switch kind {
			case 0, 1:
				isTiny = l.Next()%2 == 0
			case 2:
				isTiny = i%3 != 0
			default:
				isTiny = l.Next()%5 == 0
			}
			if isTiny {
				v = math.Ldexp(v, tiny[l.Next()%4])
			}
			h.set(i+1, i, v)
			if h.at(i, i+1) == 0 {
				h.set(i, i+1, 1)
			}
		}
	}
	if kind == 2 && n >= 2 {
		// trailing 2×2 block [0 b; c 0] with b*c < 0 (complex shifts with zero trace)
		h.set(n-2, n-1, math.Abs(h.at(n-2, n-1)))
		h.set(n-1, n-2, -math.Abs(h.at(n-1, n-2)))
	}
	return h
}

// seededExample is the 4×4 matrix of the report on the historical Dlahqr defect.
func seededExample() M {
	return M{4, 4, []float64{0, -2, 1, -2, -1, 0, -2, 0, 0, 4e-250, 0, 1, 0, 0, -3e-250, 0}}
}

func genHessMixed(g *vlib.G) {
	kase(g, "Dlahqr/Dhseqr example 4x4 (zero diagonal, 4e-250, -3e-250)", func(t *vlib.T) {
		runLahqrDirect(t, seededExample(), 0, 3, 0)
		runDhseqrNoConv(t, seededExample(), 0)
	})
	// Dlahqr directly, full block and an interior isolated block
	for n := 2; n <= p3(g, 7, 10, 14); n++ {
		for kind := 0; kind < 5; kind++ {
			for seed := 0; seed < p3(g, 2, 6, 12); seed++ {
				n, kind, seed := n, kind, seed
				kase(g, fmt.Sprintf("Dlahqr mixed n=%d kind=%d seed=%d", n, kind, seed), func(t *vlib.T) {
					h := mixedHess(n, kind, seed)
					runLahqrDirect(t, h, 0, n-1, 2*(seed%2))
					if n >= 4 {
						// interior block [1, n-2]: isolate it
						hb := h.clone()
						hb.set(1, 0, 0)
						hb.set(n-1, n-2, 0)
						runLahqrDirect(t, hb, 1, n-2, 2*(seed%2))
					}
				})
			}
		}
	}
	// Dlaqr5 directly: one sweep with the eigenvalues of the trailing 2×2 blocks as shifts
	for n := 4; n <= p3(g, 7, 9, 12); n++ {
		for kind := 0; kind < 5; kind++ {
			for seed := 0; seed < p3(g, 2, 6, 12); seed++ {
				n, kind, seed := n, kind, seed
				kase(g, fmt.Sprintf("Dlaqr5 mixed n=%d kind=%d seed=%d", n, kind, seed), func(t *vlib.T) {
					runLaqr5Direct(t, mixedHess(n, kind, seed), 2*(seed%2))
				})
			}
		}
	}
	// the two matrices of the report on the collapsed-bulge recovery
	for i, h := range []M{
		{5, 5, []float64{3, 2, -1, -2, -3, -4e-250, -2, 3, -3, -3, 0, 2, 1, 3, 2, 0, 0, 3e-170, 0, -3, 0, 0, 0, 1e-170, 3}},
		{6, 6, []float64{-1, -2, 3, -2, 3, -3, -2, -1, -1, -2, 3, -1, 0, -5e-250, -3, 1, 1, 2, 0, 0, 3e-170, -3, 2, 3, 0, 0, 0, -5e-250, 0, -3, 0, 0, 0, 0, -4e-250, 3}},
	} {
		h := h
		kase(g, fmt.Sprintf("Dlaqr5 collapsed-bulge example %d", i), func(t *vlib.T) { runLaqr5Direct(t, h, 0) })
	}
	// Dhseqr with stock parameters: small orders (Dlahqr) and orders just above the
	// Dlahqr/Dlaqr04 crossover nmin = 75 (Dlaqr04, Dlaqr23, Dlaqr5)
	small := p3(g, []int{5, 9}, []int{3, 5, 8, 12, 20, 33}, []int{3, 4, 5, 6, 8, 12, 16, 20, 33, 49, 60, 75})
	big := p3(g, []int{78}, []int{76, 78, 80, 85}, vlib.Ints(76, 85))
	for _, n := range append(small, big...) {
		for kind := 0; kind < 5; kind++ {
			seeds := p3(g, 1, 2, 4)
			if n > 75 {
				seeds = p3(g, 1, 2, 3)
			}
			for seed := 0; seed < seeds; seed++ {
				n, kind, seed := n, kind, seed
				kase(g, fmt.Sprintf("Dhseqr mixed n=%d kind=%d seed=%d", n, kind, seed), func(t *vlib.T) {
					runDhseqrNoConv(t, mixedHess(n, kind, seed), 2*(seed%2))
				})
			}
		}
	}
}

// checkSimilarity checks that (hf, z) is an orthogonal similarity of h0 with hf
// upper Hessenberg: H0*Z = Z*Hf relative to |H0|, ZᵀZ = I.
func checkSimilarity(t *vlib.T, what string, h0, hf, z M, ctx string) {
	n := h0.r
	dim := fmax(n)
	for i := 0; i < n; i++ {
		for j := 0; j+1 < i; j++ {
			if hf.at(i, j) != 0 {
				t.Failf("%s: H[%d,%d]=%v is not upper Hessenberg [%s]", what, i, j, hf.at(i, j), ctx)
				return
			}
		}
	}
	chk(t, what+"-ZtZ-I", ratio(orthCols(z), dim, 1), thresh, ctx)
	chk(t, what+"-HZ-ZHout", ratio(fro(sub(mul(h0, z), mul(z, hf))), dim, fro(h0)), thresh, ctx)
}

// runLahqrDirect calls Dlahqr on the isolated block [ilo, ihi] of h0 with
// wantt = wantz = true and Z = I on all rows.
func runLahqrDirect(t *vlib.T, h0 M, ilo, ihi, ldx int) {
	n := h0.r
	ldh, ldz := ldOf(n, ldx), ldOf(n, off(ldx, 1))
	for _, want := range [][2]bool{{true, true}, {false, false}} {
		wantt, wantz := want[0], want[1]
		ctx := fmt.Sprintf("Dlahqr wantt=%v wantz=%v ilo=%d ihi=%d", wantt, wantz, ilo, ihi)
		hs := fromM(h0, ldh).snap()
		var zs *S
		var zd []float64
		lz := 1
		if wantz {
			zs = fromM(eye(n), ldz).snap()
			zd, lz = zs.d, ldz
		}
		wr, wi := poisoned(ihi+1), poisoned(ihi+1)
		var unconv int
		if !call(t, ctx, func() { unconv = impl.Dlahqr(wantt, wantz, n, ilo, ihi, hs.d, ldh, wr, wi, 0, n-1, zd, lz) }) {
			return
		}
		if i, ok := hs.padOK(n, n); !ok {
			t.Failf("padding of h modified at flat index %d [%s]", i, ctx)
		}
		hf := hs.toM()
		if wantt && wantz {
			if i, ok := zs.padOK(n, n); !ok {
				t.Failf("padding of z modified at flat index %d [%s]", i, ctx)
			}
			// converged or not, the accumulated transformation is an orthogonal similarity
			checkSimilarity(t, "lahqr", h0, hf, zs.toM(), ctx)
		}
		if unconv != 0 {
			t.Count("lahqr_direct_unconverged", 1)
			continue
		}
		t.Count("lahqr_direct_converged", 1)
		if !pairsOK(t, wr[ilo:], wi[ilo:], ctx) {
			continue
		}
		if wantt {
			blk := hf.sub(ilo, ihi+1, ilo, ihi+1)
			schurFormOK(t, blk, wr[ilo:], wi[ilo:], ctx)
		}
		// eigenvalues of the block: trace (well conditioned) against the input
		var tr, sum float64
		for i := ilo; i <= ihi; i++ {
			tr += h0.at(i, i)
			sum += wr[i]
		}
		chk(t, "lahqr-trace", ratio(math.Abs(sum-tr), fmax(n)*fmax(n), fro(h0)), thresh, ctx)
	}
}

// trailingShifts returns ns shifts: the eigenvalues of the trailing 2×2 diagonal
// blocks of h (block k uses rows n-2k-2, n-2k-1), as conjugate pairs or pairs of reals.
func trailingShifts(h M, ns int) (sr, si []float64) {
	n := h.r
	for k := 0; 2*k < ns; k++ {
		i := n - 2*k - 2
		if i < 0 {
			i = 0
		}
		a, b, c, d := h.at(i, i), h.at(i, i+1), h.at(i+1, i), h.at(i+1, i+1)
		tr, det := a+d, a*d-b*c
		disc := tr*tr/4 - det
		if disc < 0 {
			im := math.Sqrt(-disc)
			sr, si = append(sr, tr/2, tr/2), append(si, im, -im)
		} else {
			r := math.Sqrt(disc)
			sr, si = append(sr, tr/2+r, tr/2-r), append(si, 0, 0)
		}
	}
	return sr, si
}

// runLaqr5Direct applies one multi-shift sweep with every even nshfts <= 6 and
// every kacc22 to the whole matrix and to an interior isolated block.
func runLaqr5Direct(t *vlib.T, h0 M, ldx int) {
	n := h0.r
	ldh, ldz := ldOf(n, ldx), ldOf(n, off(ldx, 1))
	type blk struct{ ktop, kbot int }
	blocks := []blk{{0, n - 1}}
	if n >= 6 {
		blocks = append(blocks, blk{1, n - 2})
	}
	for _, b := range blocks {
		hin := h0.clone()
		if b.ktop > 0 {
			hin.set(b.ktop, b.ktop-1, 0)
		}
		if b.kbot < n-1 {
			hin.set(b.kbot+1, b.kbot, 0)
		}
		for _, ns := range []int{2, 4, 6} {
			if ns > b.kbot-b.ktop { // at most kbot-ktop shifts make sense
				continue
			}
			for kacc := 0; kacc <= 2; kacc++ {
				for _, want := range [][2]bool{{true, true}, {false, false}} {
					wantt, wantz := want[0], want[1]
					ctx := fmt.Sprintf("Dlaqr5 ktop=%d kbot=%d nshfts=%d kacc22=%d wantt=%v wantz=%v", b.ktop, b.kbot, ns, kacc, wantt, wantz)
					sr, si := trailingShifts(hin.sub(b.ktop, b.kbot+1, b.ktop, b.kbot+1), ns)
					hs := fromM(hin, ldh).snap()
					var zs *S
					var zd []float64
					lz := 1
					if wantz {
						zs = fromM(eye(n), ldz).snap()
						zd, lz = zs.d, ldz
					}
					v := poisoned((ns/2-1)*3 + 3)
					u := poisoned(2 * ns * 2 * ns)
					wv := poisoned(n * 2 * ns)
					wh := poisoned(2 * ns * n)
					if !call(t, ctx, func() {
						impl.Dlaqr5(wantt, wantz, kacc, n, b.ktop, b.kbot, ns, sr, si, hs.d, ldh, 0, n-1, zd, lz,
							v, 3, u, 2*ns, n, wv, 2*ns, n, wh, n)
					}) {
						return
					}
					t.Count("laqr5_direct_calls", 1)
					if i, ok := hs.padOK(n, n); !ok {
						t.Failf("padding of h modified at flat index %d [%s]", i, ctx)
					}
					if wantt && wantz {
						if i, ok := zs.padOK(n, n); !ok {
							t.Failf("padding of z modified at flat index %d [%s]", i, ctx)
						}
						checkSimilarity(t, "laqr5", hin, hs.toM(), zs.toM(), ctx)
					} else {
						// without T and Z only the active block is kept up to date: its trace is invariant
						var tr, tr0 float64
						hf := hs.toM()
						for i := b.ktop; i <= b.kbot; i++ {
							tr += hf.at(i, i)
							tr0 += hin.at(i, i)
						}
						chk(t, "laqr5-trace", ratio(math.Abs(tr-tr0), fmax(n)*fmax(n), fro(hin)), thresh, ctx)
					}
				}
			}
		}
	}
	t.Nontrivial()
	t.Outcome("sweep")
}
