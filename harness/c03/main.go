// Harness C03: LAPACK eigenvalue, Schur and singular value routines satisfy
// their identities. See NOTES.md.
package main

import "gonum.org/v1/gonum/internal/verif/vlib"

func main() {
	installBLAS()
	vlib.Main("C03",
		vlib.Group{Name: "dlarft", Gen: genDlarft},
		vlib.Group{Name: "dlasr", Gen: genDlasr},
		vlib.Group{Name: "dlasrt", Gen: genDlasrt},
		vlib.Group{Name: "dlartg", Gen: genDlartg},
		vlib.Group{Name: "dsyev", Gen: genDsyev},
		vlib.Group{Name: "dsytrd", Gen: genDsytrd},
		vlib.Group{Name: "dst-scaled", Gen: genDstScaled},
		vlib.Group{Name: "dst-special", Gen: genDstSpecial},
		vlib.Group{Name: "dgesvd", Gen: genDgesvd},
		vlib.Group{Name: "dgebrd", Gen: genDgebrd},
		vlib.Group{Name: "dbdsqr-minwork", Gen: genDbdsqrMinWork},
		vlib.Group{Name: "dbdsqr-direct", Gen: genDbdsqrDirect},
		vlib.Group{Name: "dbdsqr-special", Gen: genDbdsqrSpecial},
		vlib.Group{Name: "dgehrd", Gen: genDgehrd},
		vlib.Group{Name: "dhseqr", Gen: genDhseqr},
		vlib.Group{Name: "dhseqr-noconv", Gen: genDhseqrNoConv},
		vlib.Group{Name: "hess-mixed", Gen: genHessMixed},
		vlib.Group{Name: "dgeev", Gen: genDgeev},
		vlib.Group{Name: "dtrexc", Gen: genDtrexc},
		vlib.Group{Name: "dlaexc", Gen: genDlaexc},
		vlib.Group{Name: "dtrevc3", Gen: genDtrevc3},
		vlib.Group{Name: "dlanv2", Gen: genDlanv2},
		vlib.Group{Name: "dgebal", Gen: genDgebal},
		vlib.Group{Name: "dggsvd3", Gen: genDggsvd3},
		vlib.Group{Name: "dggsvp3", Gen: genDggsvp3},
		vlib.Group{Name: "dgghrd", Gen: genDgghrd},
	)
}
