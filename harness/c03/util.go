package main

import (
	"fmt"
	"math"
	"os"
	"runtime/debug"
	"sort"
	"strings"
	"time"

	"gonum.org/v1/gonum/blas"
	"gonum.org/v1/gonum/blas/blas64"
	bgonum "gonum.org/v1/gonum/blas/gonum"
	"gonum.org/v1/gonum/internal/verif/vlib"
	lgonum "gonum.org/v1/gonum/lapack/gonum"
)

var impl = lgonum.Implementation{}

const (
	// eps is the spacing of float64 at 1 (LAPACK's "ulp"), twice the unit roundoff.
	eps = 0x1p-52
	// thresh bounds every residual ratio  resid / (n * eps * norm). LAPACK's own
	// test programs accept ratios below 10..30; the defects hunted (wrong index,
	// wrong branch, wrong sort direction, missing update) give ratios of 1e10 and
	// more. The constant is fixed; see NOTES.md "Thresholds".
	thresh = 100.0
	// evThresh bounds the distance between two computed spectra of the same
	// normal matrix, both backward stable (Weyl / Hoffman-Wielandt: the distance
	// is at most the sum of the two backward errors).
	evThresh = 1000.0
)

// ---------------------------------------------------------------------------
// counting BLAS: level-3 calls are the evidence that blocked LAPACK code ran.

type countBLAS struct{ bgonum.Implementation }

var l3 struct{ gemm, trmm, syr2k int }

func (c countBLAS) Dgemm(tA, tB blas.Transpose, m, n, k int, alpha float64, a []float64, lda int, b []float64, ldb int, beta float64, cc []float64, ldc int) {
	l3.gemm++
	c.Implementation.Dgemm(tA, tB, m, n, k, alpha, a, lda, b, ldb, beta, cc, ldc)
}
func (c countBLAS) Dtrmm(s blas.Side, ul blas.Uplo, tA blas.Transpose, d blas.Diag, m, n int, alpha float64, a []float64, lda int, b []float64, ldb int) {
	l3.trmm++
	c.Implementation.Dtrmm(s, ul, tA, d, m, n, alpha, a, lda, b, ldb)
}
func (c countBLAS) Dsyr2k(ul blas.Uplo, tA blas.Transpose, n, k int, alpha float64, a []float64, lda int, b []float64, ldb int, beta float64, cc []float64, ldc int) {
	l3.syr2k++
	c.Implementation.Dsyr2k(ul, tA, n, k, alpha, a, lda, b, ldb, beta, cc, ldc)
}

func installBLAS() { blas64.Use(countBLAS{}) }
func resetL3()     { l3.gemm, l3.trmm, l3.syr2k = 0, 0, 0 }
func nL3() int     { return l3.gemm + l3.trmm + l3.syr2k }
func blk() string {
	if nL3() > 0 {
		return "L3"
	}
	return "L2"
}

// ---------------------------------------------------------------------------
// Dense reference matrices (row major, stride == cols) and dumb linear algebra.

type M struct {
	r, c int
	a    []float64
}

func newM(r, c int) M { return M{r, c, make([]float64, r*c)} }

func (m M) at(i, j int) float64     { return m.a[i*m.c+j] }
func (m M) set(i, j int, v float64) { m.a[i*m.c+j] = v }
func (m M) clone() M                { return M{m.r, m.c, append([]float64(nil), m.a...)} }

func eye(n int) M {
	m := newM(n, n)
	for i := 0; i < n; i++ {
		m.a[i*n+i] = 1
	}
	return m
}

func (m M) T() M {
	t := newM(m.c, m.r)
	for i := 0; i < m.r; i++ {
		for j := 0; j < m.c; j++ {
			t.a[j*m.r+i] = m.a[i*m.c+j]
		}
	}
	return t
}

// mul is the triple loop; nothing is skipped so that NaNs propagate.
func mul(a, b M) M {
	if a.c != b.r {
		panic(fmt.Sprintf("harness: mul shape %dx%d * %dx%d", a.r, a.c, b.r, b.c))
	}
	c := newM(a.r, b.c)
	for i := 0; i < a.r; i++ {
		for l := 0; l < a.c; l++ {
			ail := a.a[i*a.c+l]
			for j := 0; j < b.c; j++ {
				c.a[i*b.c+j] += ail * b.a[l*b.c+j]
			}
		}
	}
	return c
}

func sub(a, b M) M {
	if a.r != b.r || a.c != b.c {
		panic(fmt.Sprintf("harness: sub shape %dx%d - %dx%d", a.r, a.c, b.r, b.c))
	}
	c := newM(a.r, a.c)
	for i := range c.a {
		c.a[i] = a.a[i] - b.a[i]
	}
	return c
}

func (m M) scale(s float64) M {
	c := newM(m.r, m.c)
	for i, v := range m.a {
		c.a[i] = v * s
	}
	return c
}

// fro is the Frobenius norm; NaN if any element is NaN.
func fro(m M) float64 {
	var big float64
	for _, v := range m.a {
		if math.IsNaN(v) {
			return math.NaN()
		}
		big = math.Max(big, math.Abs(v))
	}
	if big == 0 || math.IsInf(big, 0) {
		return big
	}
	// scaled by a power of two so that entries near the overflow / underflow
	// thresholds do not overflow or vanish when squared
	_, e := math.Frexp(big)
	var s float64
	for _, v := range m.a {
		x := math.Ldexp(v, -e)
		s += x * x
	}
	return math.Ldexp(math.Sqrt(s), e)
}

func (m M) sub(i0, i1, j0, j1 int) M {
	c := newM(i1-i0, j1-j0)
	for i := i0; i < i1; i++ {
		for j := j0; j < j1; j++ {
			c.a[(i-i0)*c.c+(j-j0)] = m.a[i*m.c+j]
		}
	}
	return c
}

// orthCols returns |QᵀQ - I|_F.
func orthCols(q M) float64 { return fro(sub(mul(q.T(), q), eye(q.c))) }

// orthRows returns |QQᵀ - I|_F.
func orthRows(q M) float64 { return fro(sub(mul(q, q.T()), eye(q.r))) }

func diagM(d []float64) M {
	m := newM(len(d), len(d))
	for i, v := range d {
		m.a[i*len(d)+i] = v
	}
	return m
}

// le is "x <= bound" that is false for NaN.
func le(x, bound float64) bool { return x <= bound }

func fmax(a ...int) float64 {
	m := 1
	for _, v := range a {
		if v > m {
			m = v
		}
	}
	return float64(m)
}

// ---------------------------------------------------------------------------
// Strided storage with poisoned padding.

// S is a row-major strided matrix as handed to LAPACK: exactly the minimum
// length (r-1)*ld+c, everything that is not an element is a poison NaN.
type S struct {
	r, c, ld int
	d        []float64
	orig     []float64
}

// minLen is the length every gonum routine requires of an r×c matrix with
// stride ld: (r-1)*ld+c, also when c == 0 (a 2×0 matrix with stride 1 "has" one
// slot; the formula is applied uniformly by gonum's argument checks).
func minLen(r, c, ld int) int {
	if r <= 0 {
		return 0
	}
	return max(0, (r-1)*ld+c)
}

// off gives the padding of the k-th matrix argument of a call in leading-
// dimension mode ldx: mode 0 is "every leading dimension minimal"; in mode 2 the
// first matrix gets +2 and the others +1, +3, +4, +5, so that all leading
// dimensions of one call differ from each other (an argument used with the
// leading dimension of another one then addresses the wrong elements).
func off(ldx, k int) int {
	if ldx == 0 {
		return 0
	}
	return [...]int{2, 1, 3, 4, 5}[k%5]
}

// ldOf returns max(1, c) + extra.
func ldOf(c, extra int) int { return max(1, c) + extra }

// newS allocates an r×c strided matrix with every slot poisoned.
func newS(r, c, ld int) *S {
	s := &S{r: r, c: c, ld: ld, d: make([]float64, minLen(r, c, ld))}
	vlib.FillPoison64(s.d)
	return s
}

// fromM copies m into fresh strided storage.
func fromM(m M, ld int) *S {
	s := newS(m.r, m.c, ld)
	for i := 0; i < m.r && m.c > 0; i++ {
		copy(s.d[i*ld:i*ld+m.c], m.a[i*m.c:(i+1)*m.c])
	}
	return s
}

// snap remembers the current contents for padOK / sameAsSnap.
func (s *S) snap() *S { s.orig = append(s.orig[:0], s.d...); return s }

// toM extracts the r×c elements.
func (s *S) toM() M { return s.part(s.r, s.c) }

// part extracts the leading r×c elements.
func (s *S) part(r, c int) M {
	m := newM(r, c)
	for i := 0; i < r && c > 0; i++ {
		copy(m.a[i*c:(i+1)*c], s.d[i*s.ld:i*s.ld+c])
	}
	return m
}

// padOK reports whether every slot outside the leading r×c elements is bitwise
// what it was at snap time.
func (s *S) padOK(r, c int) (int, bool) {
	for k := range s.d {
		i, j := k/s.ld, k%s.ld
		if i < r && j < c {
			continue
		}
		if math.Float64bits(s.d[k]) != math.Float64bits(s.orig[k]) {
			return k, false
		}
	}
	return 0, true
}

// unchanged reports whether nothing at all changed since snap.
func (s *S) unchanged() (int, bool) { return vlib.Same64(s.d, s.orig) }

// poisoned returns a slice of n poison NaNs (workspace, outputs).
func poisoned(n int) []float64 {
	if n < 0 {
		n = 0
	}
	w := make([]float64, n)
	vlib.FillPoison64(w)
	return w
}

func hasNaN(v []float64) bool {
	for _, x := range v {
		if math.IsNaN(x) {
			return true
		}
	}
	return false
}

// ---------------------------------------------------------------------------
// Independent oracles for symmetric eigenvalues and singular values: cyclic
// Jacobi, the textbook algorithm, run to stagnation.

// jacobiEig returns the eigenvalues of the symmetric matrix a in ascending order.
func jacobiEig(a M) []float64 {
	n := a.r
	// work at unit scale: divide by a power of two first, multiply the result back
	e := scaleExp(a)
	if e != 0 {
		ev := jacobiEig(a.scale(pow2(-e)))
		for i := range ev {
			ev[i] = math.Ldexp(ev[i], e)
		}
		return ev
	}
	w := a.clone()
	for sweep := 0; sweep < 60; sweep++ {
		var off float64
		for i := 0; i < n; i++ {
			for j := i + 1; j < n; j++ {
				off += w.at(i, j) * w.at(i, j)
			}
		}
		if off == 0 {
			break
		}
		rot := false
		for p := 0; p < n; p++ {
			for q := p + 1; q < n; q++ {
				apq := w.at(p, q)
				if apq == 0 {
					continue
				}
				app, aqq := w.at(p, p), w.at(q, q)
				if math.Abs(apq) < 0x1p-60*math.Sqrt(math.Abs(app))*math.Sqrt(math.Abs(aqq)) && math.Abs(apq) < 0x1p-60*math.Max(math.Abs(app), math.Abs(aqq)) {
					w.set(p, q, 0)
					w.set(q, p, 0)
					continue
				}
				rot = true
				theta := (aqq - app) / (2 * apq)
				t := 1 / (math.Abs(theta) + math.Hypot(theta, 1))
				if theta < 0 {
					t = -t
				}
				c := 1 / math.Hypot(t, 1)
				s := t * c
				for k := 0; k < n; k++ {
					akp, akq := w.at(k, p), w.at(k, q)
					w.set(k, p, c*akp-s*akq)
					w.set(k, q, s*akp+c*akq)
				}
				for k := 0; k < n; k++ {
					apk, aqk := w.at(p, k), w.at(q, k)
					w.set(p, k, c*apk-s*aqk)
					w.set(q, k, s*apk+c*aqk)
				}
				w.set(p, q, 0)
				w.set(q, p, 0)
			}
		}
		if !rot {
			break
		}
	}
	ev := make([]float64, n)
	for i := range ev {
		ev[i] = w.at(i, i)
	}
	sort.Float64s(ev)
	return ev
}

// jacobiSV returns the min(m,n) singular values of a in descending order
// (one-sided Hestenes Jacobi on the columns of the taller orientation).
func jacobiSV(a M) []float64 {
	if a.r < a.c {
		a = a.T()
	}
	if e := scaleExp(a); e != 0 {
		sv := jacobiSV(a.scale(pow2(-e)))
		for i := range sv {
			sv[i] = math.Ldexp(sv[i], e)
		}
		return sv
	}
	m, n := a.r, a.c
	w := a.clone()
	for sweep := 0; sweep < 60; sweep++ {
		rot := false
		for p := 0; p < n; p++ {
			for q := p + 1; q < n; q++ {
				var alpha, beta, gamma float64
				for k := 0; k < m; k++ {
					x, y := w.at(k, p), w.at(k, q)
					alpha += x * x
					beta += y * y
					gamma += x * y
				}
				if gamma == 0 || math.Abs(gamma) <= 0x1p-56*math.Sqrt(alpha)*math.Sqrt(beta) {
					continue
				}
				rot = true
				zeta := (beta - alpha) / (2 * gamma)
				t := 1 / (math.Abs(zeta) + math.Hypot(zeta, 1))
				if zeta < 0 {
					t = -t
				}
				c := 1 / math.Hypot(t, 1)
				s := t * c
				for k := 0; k < m; k++ {
					x, y := w.at(k, p), w.at(k, q)
					w.set(k, p, c*x-s*y)
					w.set(k, q, s*x+c*y)
				}
			}
		}
		if !rot {
			break
		}
	}
	sv := make([]float64, n)
	for j := 0; j < n; j++ {
		var s float64
		for k := 0; k < m; k++ {
			s += w.at(k, j) * w.at(k, j)
		}
		sv[j] = math.Sqrt(s)
	}
	sort.Sort(sort.Reverse(sort.Float64Slice(sv)))
	return sv
}

// maxDiff returns max_i |a[i]-b[i]| (NaN-propagating).
func maxDiff(a, b []float64) float64 {
	var d float64
	for i := range a {
		x := math.Abs(a[i] - b[i])
		if x > d || math.IsNaN(x) {
			d = x
		}
	}
	return d
}

// matchDist returns the optimal-matching distance between two complex
// multisets of the same size: greedy nearest matching is exact enough when
// the result is compared with a tolerance far below the separation, and it is
// an upper bound of the optimal bottleneck distance in general, so for the
// loose tolerances it is used with brute force over permutations for n <= 6.
func matchDist(ar, ai, br, bi []float64) float64 {
	n := len(ar)
	if n == 0 {
		return 0
	}
	for i := 0; i < n; i++ {
		if math.IsNaN(ar[i]) || math.IsNaN(ai[i]) || math.IsNaN(br[i]) || math.IsNaN(bi[i]) {
			return math.NaN()
		}
	}
	dist := func(i, j int) float64 { return math.Hypot(ar[i]-br[j], ai[i]-bi[j]) }
	// Bottleneck matching by threshold search over the n² candidate distances
	// with a simple augmenting-path bipartite matching.
	cand := make([]float64, 0, n*n)
	for i := 0; i < n; i++ {
		for j := 0; j < n; j++ {
			cand = append(cand, dist(i, j))
		}
	}
	sort.Float64s(cand)
	feasible := func(th float64) bool {
		matchB := make([]int, n)
		for j := range matchB {
			matchB[j] = -1
		}
		var try func(i int, seen []bool) bool
		try = func(i int, seen []bool) bool {
			for j := 0; j < n; j++ {
				if seen[j] || dist(i, j) > th {
					continue
				}
				seen[j] = true
				if matchB[j] < 0 || try(matchB[j], seen) {
					matchB[j] = i
					return true
				}
			}
			return false
		}
		for i := 0; i < n; i++ {
			if !try(i, make([]bool, n)) {
				return false
			}
		}
		return true
	}
	lo, hi := 0, len(cand)-1
	for lo < hi {
		mid := (lo + hi) / 2
		if feasible(cand[mid]) {
			hi = mid
		} else {
			lo = mid + 1
		}
	}
	return cand[lo]
}

// ---------------------------------------------------------------------------
// small helpers for keys and ratios

func ratio(resid, n, norm float64) float64 {
	d := n * eps * norm
	if d == 0 {
		if resid == 0 {
			return 0
		}
		if math.IsNaN(resid) {
			return math.NaN()
		}
		return math.Inf(1)
	}
	return resid / d
}

// chk records a residual-ratio check: fails when !(ratio <= limit) and keeps the
// worst ratio seen (in thousandths) in the evidence.
func chk(t *vlib.T, what string, r, limit float64, ctx string) {
	if !(r <= limit) {
		t.Failf("%s: ratio %.3g > %g [%s]", what, r, limit, ctx)
	}
	if !math.IsNaN(r) && !math.IsInf(r, 0) {
		t.Max("worst_ratio_milli:"+what, int64(r*1000))
	}
}

func allFinite(v []float64) bool {
	for _, x := range v {
		if math.IsNaN(x) || math.IsInf(x, 0) {
			return false
		}
	}
	return true
}

// hangLimit is the watchdog for one call into gonum. It only turns an endless
// iteration (seen with corrupted workspace under a mutant) into a reported
// failure instead of a stuck shard; no oracle depends on it. The slowest
// legitimate call (a 900×900 orthogonal factor) takes a few seconds.
const hangLimit = 60 * time.Second

// hangsSeen counts calls abandoned by the watchdog in this process; after the
// first one the limit drops to 10 s so that a shard whose every case hangs
// still ends within its budget.
var hangsSeen int

// catch runs f under the watchdog and returns the recovered panic value as a
// string ("" if none); a call that does not return within hangLimit yields a
// message starting with "HANG" and the goroutine is abandoned.
func catch(f func()) (msg string) {
	done := make(chan string, 1)
	go func() {
		defer func() {
			if e := recover(); e != nil {
				m := fmt.Sprint(e)
				if m == "" {
					m = "panic"
				}
				lastStack = shortStack()
				done <- m
				return
			}
			done <- ""
		}()
		f()
	}()
	limit := hangLimit
	if hangsSeen > 0 {
		limit = 10 * time.Second
	}
	select {
	case m := <-done:
		return m
	case <-time.After(limit):
		lastStack = ""
		hangsSeen++
		return fmt.Sprintf("HANG: no return within %v", limit)
	}
}

// call runs one gonum call; a panic or a hang is recorded as a violation and
// false is returned.
func call(t *vlib.T, what string, f func()) bool {
	msg := catch(f)
	switch {
	case msg == "":
		return true
	case strings.HasPrefix(msg, "HANG"):
		t.NoConfirm()
		t.FailClass("hang", "%s: %s", what, msg)
	default:
		t.FailClass("unexpected-panic", "%s panicked: %s %s", what, msg, lastStack)
	}
	return false
}

// finding records a suspected genuine gonum defect under a class name that
// known_findings.jsonl can match. Development aid: classes listed in the
// environment variable C03_MUTE (comma separated) are only counted, so that
// other alarms are not hidden behind the per-shard violation cap while a
// finding is being triaged. The variable is never set by the driver.
func finding(t *vlib.T, class, format string, a ...any) {
	nFindings++
	t.Count("finding:"+class, 1)
	if p := os.Getenv("C03_FINDINGS_LOG"); p != "" {
		if f, err := os.OpenFile(p, os.O_APPEND|os.O_CREATE|os.O_WRONLY, 0o644); err == nil {
			fmt.Fprintf(f, "%s\t%s/%s\n", class, t.Group, t.Key)
			f.Close()
		}
	}
	for _, m := range strings.Split(os.Getenv("C03_MUTE"), ",") {
		if m == class {
			t.Count("muted:"+class, 1)
			return
		}
	}
	t.FailClass(class, format, a...)
}

// nFindings counts calls of finding in this process (used to tell attributed
// from unattributed failures of a case).
var nFindings int

// lastStack is the abbreviated stack of the last panic recovered by catch.
var lastStack string

func shortStack() string {
	lines := strings.Split(string(debug.Stack()), "\n")
	var keep []string
	for _, l := range lines {
		l = strings.TrimSpace(l)
		if strings.HasPrefix(l, "/repo/lapack/") || strings.HasPrefix(l, "/repo/blas/") {
			if i := strings.Index(l, " +0x"); i > 0 {
				l = l[:i]
			}
			keep = append(keep, strings.TrimPrefix(l, "/repo/"))
			if len(keep) >= 4 {
				break
			}
		}
	}
	return "@ " + strings.Join(keep, " < ")
}

// failCall records a panic or hang message obtained from catch.
func failCall(t *vlib.T, what, msg string) {
	if strings.HasPrefix(msg, "HANG") {
		t.NoConfirm()
		t.FailClass("hang", "%s: %s", what, msg)
		return
	}
	t.FailClass("unexpected-panic", "%s panicked: %s %s", what, msg, lastStack)
}

// kase registers a case and, for the evidence, counts failed cases in which no
// finding class was recorded (on the unchanged tree every failure must be
// attributed to a finding described in NOTES.md: the counter must stay 0).
func kase(g *vlib.G, key string, run func(t *vlib.T)) {
	g.Case(key, func(t *vlib.T) {
		before := nFindings
		run(t)
		if t.Failed() && nFindings == before {
			t.Count("failed_cases_without_finding", 1)
			if p := os.Getenv("C03_UNATTRIBUTED_LOG"); p != "" {
				if f, err := os.OpenFile(p, os.O_APPEND|os.O_CREATE|os.O_WRONLY, 0o644); err == nil {
					fmt.Fprintf(f, "%s/%s\n", t.Group, key)
					f.Close()
				}
			}
		}
	})
}

// ---------------------------------------------------------------------------
// Enumeration levels. The declared case space has three sizes:
//
//	level 0 ("lite"):  noasm configuration, quick tier
//	level 1 ("quick"): default configuration, quick tier; noasm configuration, thorough tier
//	level 2 ("full"):  default configuration, thorough tier
//
// The noasm build only swaps the BLAS kernels underneath identical LAPACK
// code, so it runs one level below the default build.
func lvl(g *vlib.G) int {
	noasm := vlib.Env("VERIF_CONFIG", "default") == "noasm"
	switch {
	case g.Thorough() && !noasm:
		return 2
	case g.Thorough() || !noasm:
		return 1
	}
	return 0
}

// p3 picks a value by level.
func p3[V any](g *vlib.G, l0, l1, l2 V) V {
	switch lvl(g) {
	case 0:
		return l0
	case 1:
		return l1
	}
	return l2
}

// ladder is the magnitude ladder 2^e applied to the inputs of routines that do
// not rescale their argument themselves: results must be the scaled results
// (orthogonal factors unchanged). Exponents beyond what a routine documents or
// can support (norm below its smlnum, squares that overflow) are left out per
// group; see NOTES.md "Magnitude ladders".
func ladder(g *vlib.G, exps ...int) []int {
	if lvl(g) == 0 {
		// thin version: the two extremes and the middle
		return []int{exps[0], exps[len(exps)-1]}
	}
	return exps
}

func pow2(e int) float64 { return math.Ldexp(1, e) }

// scaleExp returns the binary exponent of the largest entry of a when it is far
// from 1 (beyond 2^+-100), else 0.
func scaleExp(a M) int {
	var big float64
	for _, v := range a.a {
		if x := math.Abs(v); x > big && !math.IsInf(x, 0) {
			big = x
		}
	}
	if big == 0 {
		return 0
	}
	_, e := math.Frexp(big)
	if e > 100 || e < -100 {
		return e
	}
	return 0
}

// scaledFam is f with every matrix multiplied by 2^exp.
func scaledFam(f family, exp int) family {
	g := f
	g.name = fmt.Sprintf("%s@2^%d", f.name, exp)
	g.gen = func(r, c int) M { return f.gen(r, c).scale(pow2(exp)) }
	return g
}

// oppositeSigns reports b*c < 0 without forming the product (which underflows
// or overflows for entries beyond 2^+-512).
func oppositeSigns(b, c float64) bool {
	return (b > 0 && c < 0) || (b < 0 && c > 0)
}
