package main

import (
	"fmt"
	"math"
	"math/big"
	"sort"

	"gonum.org/v1/gonum/blas"
	"gonum.org/v1/gonum/internal/verif/vlib"
	"gonum.org/v1/gonum/lapack"
)

// Direct groups for the small auxiliaries anchored in C03: Dlasr (plane
// rotation sequences), Dlasrt (sorting) and Dlartg (rotation generation).
// Oracles are the documented definitions.

// ---------------------------------------------------------------------------
// Dlasr

// rotAlphabet are (c, s) pairs of exact or nearly exact rotations: identity, two
// 3-4-5 rotations, a quarter turn (cosine exactly 0), a half turn, 5-12-13.
var rotAlphabet = [][2]float64{{1, 0}, {0.6, 0.8}, {0.8, -0.6}, {0, 1}, {-1, 0}, {5.0 / 13, 12.0 / 13}}

// planeRotation returns the z×z matrix P(k) of the documentation.
func planeRotation(pivot lapack.Pivot, z, k int, c, s float64) M {
	p := eye(z)
	var i, j int
	switch pivot {
	case lapack.Variable:
		i, j = k, k+1
	case lapack.Top:
		i, j = 0, k+1
	default: // Bottom
		i, j = k, z-1
	}
	p.set(i, i, c)
	p.set(i, j, s)
	p.set(j, i, -s)
	p.set(j, j, c)
	return p
}

func genDlasr(g *vlib.G) {
	lim := p3(g, 4, 5, 6)
	for _, side := range []blas.Side{blas.Left, blas.Right} {
		for _, pivot := range []lapack.Pivot{lapack.Variable, lapack.Top, lapack.Bottom} {
			for _, direct := range []lapack.Direct{lapack.Forward, lapack.Backward} {
				for m := 0; m <= lim; m++ {
					for n := 0; n <= lim; n++ {
						for _, ldx := range []int{0, 2} {
							side, pivot, direct, m, n, ldx := side, pivot, direct, m, n, ldx
							kase(g, fmt.Sprintf("Dlasr side=%c pivot=%c direct=%c m=%d n=%d lda=n+%d", side, pivot, direct, m, n, ldx), func(t *vlib.T) {
								runDlasr(t, side, pivot, direct, m, n, ldx, lvl(g))
							})
						}
					}
				}
			}
		}
	}
}

func runDlasr(t *vlib.T, side blas.Side, pivot lapack.Pivot, direct lapack.Direct, m, n, ldx, level int) {
	z := m
	if side == blas.Right {
		z = n
	}
	nrot := max(0, z-1)
	a := intGeneral(m, n, 3, lcgFor(100, m, n))
	nrm := fro(a)
	lda := ldOf(n, ldx)
	// every assignment of the rotation alphabet to the z-1 rotations (the first
	// four letters beyond four rotations to bound the product)
	radices := make([]int, nrot)
	for i := range radices {
		radices[i] = len(rotAlphabet)
		if nrot > 4 || (level == 0 && nrot > 3) {
			radices[i] = 4
		}
	}
	bad := 0
	f0 := nFindings
	vlib.Product(radices, func(idx []int) bool {
		c, s := make([]float64, nrot), make([]float64, nrot)
		for k, r := range idx {
			c[k], s[k] = rotAlphabet[r][0], rotAlphabet[r][1]
		}
		as := fromM(a, lda).snap()
		// rotations are not to be modified: pass copies and compare
		cc, ss := append([]float64(nil), c...), append([]float64(nil), s...)
		if !call(t, "Dlasr", func() { impl.Dlasr(side, pivot, direct, m, n, cc, ss, as.d, lda) }) {
			return false
		}
		t.Count("dlasr_calls", 1)
		// P by definition
		p := eye(z)
		for k := 0; k < nrot; k++ {
			pk := planeRotation(pivot, z, k, c[k], s[k])
			if direct == lapack.Forward {
				p = mul(pk, p) // P = P(z-1) ... P(2) P(1)
			} else {
				p = mul(p, pk) // P = P(1) P(2) ... P(z-1)
			}
		}
		var want M
		if side == blas.Left {
			want = mul(p, a)
		} else {
			want = mul(a, p.T())
		}
		r := ratio(fro(sub(as.toM(), want)), fmax(m, n), nrm)
		if !(r <= thresh) {
			bad++
			if bad <= 2 {
				msg := fmt.Sprintf("A after Dlasr differs from the documented product: ratio %.3g (c=%v s=%v)", r, c, s)
				if side == blas.Left && pivot == lapack.Top && direct == lapack.Backward {
					finding(t, "dlasr-left-top-backward-nested-loop", "%s", msg)
				} else {
					t.Failf("%s", msg)
				}
			}
		}
		if i, ok := as.padOK(m, n); !ok && bad <= 2 {
			t.Failf("padding modified at flat index %d", i)
		}
		if _, same := vlib.Same64(cc, c); !same {
			t.Failf("c modified")
		}
		if _, same := vlib.Same64(ss, s); !same {
			t.Failf("s modified")
		}
		return true
	})
	_ = f0
	if nrot >= 1 && min(m, n) >= 1 {
		t.Nontrivial()
	}
	t.Outcome(fmt.Sprintf("bad=%v", bad > 0))
}

// ---------------------------------------------------------------------------
// Dlasrt

func genDlasrt(g *vlib.G) {
	alphabet := []float64{-1, 0, math.Copysign(0, -1), 1, 2, math.Inf(1), math.Inf(-1)}
	for _, s := range []lapack.Sort{lapack.SortIncreasing, lapack.SortDecreasing} {
		// every sequence over the alphabet up to length 5 (6)
		for n := 0; n <= p3(g, 4, 5, 6); n++ {
			s, n := s, n
			kase(g, fmt.Sprintf("Dlasrt sort=%c all sequences n=%d", s, n), func(t *vlib.T) {
				radices := make([]int, n)
				for i := range radices {
					radices[i] = len(alphabet)
				}
				vlib.Product(radices, func(idx []int) bool {
					d := make([]float64, n)
					for i, k := range idx {
						d[i] = alphabet[k]
					}
					return checkLasrt(t, s, d, 0)
				})
				if n >= 2 {
					t.Nontrivial()
				}
				t.Outcome("short")
			})
		}
		// lengths around the insertion-sort/quicksort switch (20) and longer, tie-rich and distinct patterns
		for _, n := range p3(g, []int{19, 20, 21, 40}, []int{7, 13, 19, 20, 21, 22, 40, 41, 100}, []int{7, 13, 19, 20, 21, 22, 40, 41, 64, 100, 101, 257, 1000}) {
			for pat := 0; pat < 8; pat++ {
				s, n, pat := s, n, pat
				kase(g, fmt.Sprintf("Dlasrt sort=%c n=%d pattern=%d", s, n, pat), func(t *vlib.T) {
					l := lcgFor(101, n, pat)
					d := make([]float64, n)
					for i := range d {
						switch pat {
						case 0: // few distinct values
							d[i] = float64(l.Small(2))
						case 1: // already increasing
							d[i] = float64(i)
						case 2: // already decreasing
							d[i] = float64(n - i)
						case 3: // constant
							d[i] = 7
						case 4: // organ pipe
							d[i] = float64(min(i, n-i))
						case 5: // distinct pseudo-random
							d[i] = float64(l.Next()%100000) + float64(i)/float64(4*n)
						case 6: // two values
							d[i] = float64(l.Next() & 1)
						default: // saw tooth with infinities
							d[i] = float64(i % 5)
							if i%17 == 3 {
								d[i] = math.Inf(1 - 2*(i%2))
							}
						}
					}
					checkLasrt(t, s, d, 3)
					t.Nontrivial()
					t.Outcome("long")
				})
			}
		}
	}
}

// checkLasrt sorts a copy of d (followed by guard elements) and compares it
// with the sorted multiset; -0 and +0 compare equal, so only values are compared.
func checkLasrt(t *vlib.T, s lapack.Sort, d []float64, guard int) bool {
	n := len(d)
	buf := poisoned(n + guard)
	copy(buf, d)
	if !call(t, "Dlasrt", func() { impl.Dlasrt(s, n, buf) }) {
		return false
	}
	want := append([]float64(nil), d...)
	sort.Float64s(want)
	if s == lapack.SortDecreasing {
		for i, j := 0, n-1; i < j; i, j = i+1, j-1 {
			want[i], want[j] = want[j], want[i]
		}
	}
	for i := 0; i < n; i++ {
		if !(buf[i] == want[i]) {
			t.Failf("sort=%c: result %v, want %v (input %v)", s, buf[:n], want, d)
			return false
		}
	}
	for i := n; i < len(buf); i++ {
		if !math.IsNaN(buf[i]) {
			t.Failf("element %d beyond n written", i)
			return false
		}
	}
	t.Count("dlasrt_calls", 1)
	return true
}

// ---------------------------------------------------------------------------
// Dlartg

func genDlartg(g *vlib.G) {
	vals := []float64{0, 1, -1, 3, -4, 0.5, 0x1p-30, -0x1p+30, 0x1p-600, -0x1p-600, 0x1p+600, 0x1p-1000, 0x1p+1000, -0x1p+1000, 0x1p-1060, 1 + 0x1p-40, 5e-324, math.MaxFloat64 / 4}
	for _, f := range vals {
		f := f
		kase(g, fmt.Sprintf("Dlartg f=%v", f), func(t *vlib.T) {
			for _, gg := range vals {
				checkLartg(t, f, gg)
			}
			t.Nontrivial()
			t.Outcome("ok")
		})
	}
}

func checkLartg(t *vlib.T, f, g float64) {
	var cs, sn, r float64
	if !call(t, "Dlartg", func() { cs, sn, r = impl.Dlartg(f, g) }) {
		return
	}
	ctx := fmt.Sprintf("f=%v g=%v -> cs=%v sn=%v r=%v", f, g, cs, sn, r)
	if !allFinite([]float64{cs, sn, r}) {
		t.Failf("non-finite result [%s]", ctx)
		return
	}
	// documented special cases
	switch {
	case g == 0:
		if cs != 1 || sn != 0 || r != f {
			t.Failf("g == 0: want cs=1 sn=0 r=f [%s]", ctx)
		}
		return
	case f == 0:
		if cs != 0 || sn != math.Copysign(1, g) || r != math.Abs(g) {
			t.Failf("f == 0: want cs=0 sn=sign(g) r=|g| [%s]", ctx)
		}
		return
	}
	if !(cs >= 0) {
		t.Failf("cs < 0 [%s]", ctx)
	}
	// identities in 200-bit arithmetic: cs*f + sn*g = r, -sn*f + cs*g = 0, cs^2 + sn^2 = 1
	bf := func(x float64) *big.Float { return new(big.Float).SetPrec(200).SetFloat64(x) }
	mulb := func(x, y *big.Float) *big.Float { return new(big.Float).SetPrec(200).Mul(x, y) }
	addb := func(x, y *big.Float) *big.Float { return new(big.Float).SetPrec(200).Add(x, y) }
	h := new(big.Float).SetPrec(200).Sqrt(addb(mulb(bf(f), bf(f)), mulb(bf(g), bf(g)))) // |(f,g)|
	rel := func(x *big.Float) float64 {
		q, _ := new(big.Float).SetPrec(200).Quo(x, h).Float64()
		return math.Abs(q)
	}
	e1 := rel(addb(addb(mulb(bf(cs), bf(f)), mulb(bf(sn), bf(g))), new(big.Float).Neg(bf(r))))
	e2 := rel(addb(mulb(bf(-sn), bf(f)), mulb(bf(cs), bf(g))))
	// results may be subnormal when the hypotenuse is: allow the spacing of subnormals
	hf, _ := h.Float64()
	slack := 0.0
	if hf < 0x1p-960 {
		slack = 0x1p-1074 / hf
	}
	if !(e1 <= 8*eps+slack) || !(e2 <= 8*eps+slack) {
		t.Failf("rotation identities violated: |cs*f+sn*g-r|/h=%.3g |-sn*f+cs*g|/h=%.3g [%s]", e1, e2, ctx)
	}
	if !(math.Abs(cs*cs+sn*sn-1) <= 8*eps) {
		t.Failf("cs^2+sn^2 = %v [%s]", cs*cs+sn*sn, ctx)
	}
	t.Count("dlartg_calls", 1)
}
