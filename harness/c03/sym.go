package main

import (
	"fmt"
	"math"
	"strings"
	"sync"

	"gonum.org/v1/gonum/blas"
	"gonum.org/v1/gonum/internal/verif/vlib"
	"gonum.org/v1/gonum/lapack"
)

// symStore stores the uplo triangle of a in strided storage; the other strict
// triangle and the padding stay poisoned.
func symStore(a M, uplo blas.Uplo, ld int) *S {
	n := a.r
	s := newS(n, n, ld)
	for i := 0; i < n; i++ {
		for j := 0; j < n; j++ {
			if (uplo == blas.Upper && j >= i) || (uplo == blas.Lower && j <= i) {
				s.d[i*ld+j] = a.at(i, j)
			}
		}
	}
	return s.snap()
}

// otherTriOK reports whether the strict triangle opposite to uplo and the padding are untouched.
func otherTriOK(s *S, uplo blas.Uplo) (int, bool) {
	for k := range s.d {
		i, j := k/s.ld, k%s.ld
		if i < s.r && j < s.c && ((uplo == blas.Upper && j >= i) || (uplo == blas.Lower && j <= i)) {
			continue
		}
		if math.Float64bits(s.d[k]) != math.Float64bits(s.orig[k]) {
			return k, false
		}
	}
	return 0, true
}

func ascending(w []float64) bool {
	for i := 1; i < len(w); i++ {
		if !(w[i-1] <= w[i]) {
			return false
		}
	}
	return true
}

func scaled(w []float64, s float64) []float64 {
	o := make([]float64, len(w))
	for i, v := range w {
		o[i] = v / s
	}
	return o
}

type sizeSpec struct {
	n     int
	stock bool
}

func uploName(u blas.Uplo) string {
	if u == blas.Upper {
		return "U"
	}
	return "L"
}

// symSizes returns the (size, profile) plan shared by the symmetric groups.
func symPlan(g *vlib.G, nq int) (small []int, profs []prof, stock []int) {
	small = vlib.Ints(0, p3(g, 6, 10, 13))
	profs = profSet(g, nq)
	stock = []int{1, 2, 5, 31, 32, 33}
	if lvl(g) >= 1 {
		stock = append(stock, 74, 75, 76)
	}
	if lvl(g) >= 2 {
		stock = append(stock, 100, 150)
	}
	return
}

func genDsyev(g *vlib.G) {
	small, profs, stock := symPlan(g, 5)
	type cfg struct {
		n    int
		p    prof
		fams []family
	}
	var plan []cfg
	for _, n := range small {
		for _, p := range profs {
			plan = append(plan, cfg{n, p, symFamilies})
		}
	}
	stockFams := []family{symFamilies[0], symFamilies[1], symFamilies[2], symFamilies[3], symFamilies[6], symFamilies[7], symFamilies[8], symFamilies[10], symFamilies[11]}
	for _, n := range stock {
		plan = append(plan, cfg{n, stockProf, stockFams})
	}
	for _, c := range plan {
		for _, f := range c.fams {
			for _, uplo := range []blas.Uplo{blas.Upper, blas.Lower} {
				for _, ldx := range []int{0, 2} {
					for _, lw := range []string{"min", "query"} {
						n, p, f, uplo, ldx, lw := c.n, c.p, f, uplo, ldx, lw
						if g.Stopped() {
							return
						}
						kase(g, fmt.Sprintf("Dsyev n=%d fam=%s uplo=%s prof=%s lda=n+%d lwork=%s", n, f.name, uploName(uplo), p.name, ldx, lw), func(t *vlib.T) {
							runDsyev(t, n, p, f, uplo, ldx, lw)
							attributeBlocked(t, p, func(t *vlib.T, p prof) { runDsyev(t, n, p, f, uplo, ldx, lw) })
						})
					}
				}
			}
		}
	}
}

func runDsyev(t *vlib.T, n int, p prof, f family, uplo blas.Uplo, ldx int, lw string) {
	log, restore := p.install()
	defer restore()
	base := f.gen(n, n)
	a := base.scale(f.scale)
	nrm := fro(base)
	lda := ldOf(n, ldx)
	oracle := jacobiEig(base)
	var wN, wV []float64
	outcome := ""
	for _, jobz := range []lapack.EVJob{lapack.EVNone, lapack.EVCompute} {
		ctx := fmt.Sprintf("jobz=%c", jobz)
		s := symStore(a, uplo, lda)
		lwork := max(1, 3*n-1)
		if lw == "query" {
			q := poisoned(1)
			impl.Dsyev(jobz, uplo, n, nil, lda, nil, q, -1)
			if math.IsNaN(q[0]) {
				if n == 0 {
					finding(t, "lwork-query-n0-work0-unset", "Dsyev workspace query with n=0 leaves work[0] unset")
				} else {
					t.Failf("Dsyev workspace query left work[0] unset")
				}
				q[0] = 1
			}
			lwork = int(q[0])
			if lwork < max(1, 3*n-1) {
				t.Failf("Dsyev query returned %d < minimum %d", lwork, max(1, 3*n-1))
				return
			}
		}
		work := poisoned(lwork)
		w := poisoned(n)
		resetL3()
		var ok bool
		if msg := catch(func() { ok = impl.Dsyev(jobz, uplo, n, s.d, lda, w, work, lwork) }); msg != "" {
			if strings.Contains(lastStack, "dlascl.go") && strings.Contains(lastStack, "dsterf.go") {
				finding(t, "dsterf-dlascl-lda", "Dsyev(jobz=N) on a matrix of norm %.3g panics in Dsterf's rescaling: %s %s", nrm*f.scale, msg, lastStack)
			} else {
				failCall(t, "Dsyev "+ctx, msg)
			}
			continue
		}
		if jobz == lapack.EVCompute {
			outcome = fmt.Sprintf("trd=%s org=%s", map[bool]string{true: "blocked", false: "unblocked"}[l3.syr2k > 0], map[bool]string{true: "blocked", false: "unblocked"}[l3.gemm+l3.trmm > 0])
		}
		if !ok {
			if p.stock {
				t.Failf("Dsyev did not converge with stock parameters [%s]", ctx)
			}
			outcome += " noconv"
			continue
		}
		ws := scaled(w, f.scale)
		if !ascending(ws) {
			t.Failf("eigenvalues not ascending: %v [%s]", w, ctx)
		}
		chk(t, "syev-w-vs-jacobi", ratio(maxDiff(ws, oracle), fmax(n), nrm), thresh, ctx)
		if jobz == lapack.EVNone {
			wN = ws
			if k, ok := otherTriOK(s, uplo); !ok {
				t.Failf("jobz=N: storage outside the %s triangle modified at flat index %d", uploName(uplo), k)
			}
			continue
		}
		wV = ws
		if k, ok := s.padOK(n, n); !ok {
			t.Failf("jobz=V: padding modified at flat index %d", k)
		}
		z := s.toM()
		chk(t, "syev-AZ-ZL", ratio(fro(sub(mul(base, z), mul(z, diagM(ws)))), fmax(n), nrm), thresh, ctx)
		chk(t, "syev-ZtZ-I", ratio(orthCols(z), fmax(n), 1), thresh, ctx)
	}
	if wN != nil && wV != nil {
		chk(t, "syev-N-vs-V", ratio(maxDiff(wN, wV), fmax(n), nrm), thresh, "")
	}
	if n >= 2 {
		t.Nontrivial()
	}
	t.Outcome(outcome)
	t.Detail(map[string]any{"ilaenv": log.String()})
	attributeIscale(t, f)
}

// attributeIscale tags a failure on the family whose tridiagonal form has a
// tiny-norm block followed by a unit-norm block with finding
// dsteqr-iscale-not-reset when the probe shows the tree has that defect.
func attributeIscale(t *vlib.T, f family) {
	if t.Failed() && f.name == "blocktiny" && dsteqrIscaleBroken() {
		finding(t, "dsteqr-iscale-not-reset", "tiny-norm block followed by a unit-norm block: Dsteqr rescales the eigenvalues of the second block with the factors of the first")
	}
}

// explicitQsytrd builds Q from the reflectors stored by Dsytrd/Dsytd2 exactly as documented.
func explicitQsytrd(s *S, uplo blas.Uplo, tau []float64) M {
	n := s.r
	q := eye(n)
	apply := func(i int) { // q = q * H_i
		v := make([]float64, n)
		if uplo == blas.Upper {
			v[i] = 1
			for k := 0; k < i; k++ {
				v[k] = s.d[k*s.ld+i+1]
			}
		} else {
			v[i+1] = 1
			for k := i + 2; k < n; k++ {
				v[k] = s.d[k*s.ld+i]
			}
		}
		for r := 0; r < n; r++ {
			var dot float64
			for k := 0; k < n; k++ {
				dot += q.at(r, k) * v[k]
			}
			dot *= tau[i]
			for k := 0; k < n; k++ {
				q.set(r, k, q.at(r, k)-dot*v[k])
			}
		}
	}
	if uplo == blas.Upper {
		for i := n - 2; i >= 0; i-- {
			apply(i)
		}
	} else {
		for i := 0; i <= n-2; i++ {
			apply(i)
		}
	}
	return q
}

func tridiag(d, e []float64) M {
	n := len(d)
	m := newM(n, n)
	for i := 0; i < n; i++ {
		m.set(i, i, d[i])
		if i+1 < n {
			m.set(i, i+1, e[i])
			m.set(i+1, i, e[i])
		}
	}
	return m
}

func genDsytrd(g *vlib.G) {
	small, profs, stock := symPlan(g, 5)
	type cfg struct {
		n    int
		p    prof
		fams []family
	}
	var plan []cfg
	for _, n := range small {
		for _, p := range profs {
			plan = append(plan, cfg{n, p, symFamilies[:11]})
		}
	}
	for _, n := range stock {
		plan = append(plan, cfg{n, stockProf, []family{symFamilies[0], symFamilies[2], symFamilies[3], symFamilies[7]}})
	}
	// magnitude ladder (Dsytrd/Dorgtr are scale free; Dsteqr/Dsterf rescale blocks outside [2^-405, 2^510])
	for _, exp := range ladder(g, -500, -450, -200, 200, 500) {
		for _, n := range []int{3, 6} {
			plan = append(plan, cfg{n, profiles[0], []family{scaledFam(symFamilies[0], exp), scaledFam(symFamilies[7], exp)}})
		}
	}
	for _, c := range plan {
		for _, f := range c.fams {
			for _, uplo := range []blas.Uplo{blas.Upper, blas.Lower} {
				for _, ldx := range []int{0, 2} {
					for _, lw := range []string{"min", "mid", "query"} {
						n, p, f, uplo, ldx, lw := c.n, c.p, f, uplo, ldx, lw
						if g.Stopped() {
							return
						}
						kase(g, fmt.Sprintf("Dsytrd n=%d fam=%s uplo=%s prof=%s lda=n+%d lwork=%s", n, f.name, uploName(uplo), p.name, ldx, lw), func(t *vlib.T) {
							runDsytrd(t, n, p, f, uplo, ldx, lw)
							attributeBlocked(t, p, func(t *vlib.T, p prof) { runDsytrd(t, n, p, f, uplo, ldx, lw) })
						})
					}
				}
			}
		}
	}
}

func runDsytrd(t *vlib.T, n int, p prof, f family, uplo blas.Uplo, ldx int, lw string) {
	log, restore := p.install()
	defer restore()
	a := f.gen(n, n)
	nrm := fro(a)
	lda := ldOf(n, ldx)
	s := symStore(a, uplo, lda)
	q1 := poisoned(1)
	impl.Dsytrd(uplo, n, nil, lda, nil, nil, nil, q1, -1)
	if math.IsNaN(q1[0]) {
		t.Failf("Dsytrd workspace query left work[0] unset")
		return
	}
	lwork := 1
	switch lw {
	case "query":
		lwork = max(1, int(q1[0]))
	case "mid":
		// room for a block size below the optimal one but at least 2
		lwork = max(1, 2*n)
	}
	d, e, tau := poisoned(n), poisoned(n-1), poisoned(n-1)
	work := poisoned(lwork)
	resetL3()
	impl.Dsytrd(uplo, n, s.d, lda, d, e, tau, work, lwork)
	trdBlocked := l3.syr2k > 0
	if k, ok := otherTriOK(s, uplo); !ok {
		t.Failf("Dsytrd modified storage outside the %s triangle at flat index %d", uploName(uplo), k)
	}
	if hasNaN(d) || hasNaN(e) || hasNaN(tau) {
		t.Failf("Dsytrd left d/e/tau unset: d=%v e=%v tau=%v", d, e, tau)
		return
	}
	for i := 0; i < n; i++ {
		if s.d[i*lda+i] != d[i] {
			t.Failf("a[%d,%d]=%v != d[%d]=%v", i, i, s.d[i*lda+i], i, d[i])
		}
		if i+1 < n {
			v := s.d[i*lda+i+1]
			if uplo == blas.Lower {
				v = s.d[(i+1)*lda+i]
			}
			if v != e[i] {
				t.Failf("off-diagonal %d of a = %v != e[%d]=%v", i, v, i, e[i])
			}
		}
	}
	q := explicitQsytrd(s, uplo, tau)
	tm := tridiag(d, e)
	chk(t, "sytrd-QtAQ-T", ratio(fro(sub(mul(mul(q.T(), a), q), tm)), fmax(n), nrm), thresh, "")
	chk(t, "sytrd-QtQ-I", ratio(orthCols(q), fmax(n), 1), thresh, "")

	// Dorgtr with minimum and optimal workspace.
	var qg M
	orgBlocked := false
	for _, olw := range []string{"min", "query"} {
		sq := &S{r: n, c: n, ld: lda, d: append([]float64(nil), s.d...)}
		sq.snap()
		lwo := max(1, n-1)
		if olw == "query" {
			qq := poisoned(1)
			impl.Dorgtr(uplo, n, nil, lda, nil, qq, -1)
			if math.IsNaN(qq[0]) {
				t.Failf("Dorgtr workspace query left work[0] unset")
				return
			}
			lwo = max(lwo, int(qq[0]))
		}
		resetL3()
		impl.Dorgtr(uplo, n, sq.d, lda, tau, poisoned(lwo), lwo)
		orgBlocked = orgBlocked || nL3() > 0
		if k, ok := sq.padOK(n, n); !ok {
			t.Failf("Dorgtr(lwork=%s) modified padding at flat index %d", olw, k)
		}
		qg = sq.toM()
		chk(t, "orgtr-Q-vs-explicit", ratio(fro(sub(qg, q)), fmax(n), 1), thresh, "lwork="+olw)
	}

	oracle := jacobiEig(a)
	conv := "conv"
	// Dsteqr in its three modes and Dsterf on the tridiagonal matrix.
	for _, compz := range []lapack.EVComp{lapack.EVOrig, lapack.EVTridiag, lapack.EVCompNone} {
		ctx := fmt.Sprintf("compz=%c", compz)
		dd, ee := append([]float64(nil), d...), append([]float64(nil), e...)
		var z *S
		var zd []float64
		ldz := 1
		var wk []float64
		ldzz := ldOf(n, off(ldx, 1))
		switch compz {
		case lapack.EVOrig:
			z = fromM(qg, ldzz).snap()
			zd, ldz = z.d, ldzz
			wk = poisoned(max(1, 2*n-2))
		case lapack.EVTridiag:
			z = newS(n, n, ldzz).snap()
			zd, ldz = z.d, ldzz
			wk = poisoned(max(1, 2*n-2))
		}
		var ok bool
		if !call(t, "Dsteqr "+ctx, func() { ok = impl.Dsteqr(compz, n, dd, ee, zd, ldz, wk) }) {
			return
		}
		if !ok {
			if p.stock {
				t.Failf("Dsteqr did not converge with stock parameters [%s]", ctx)
			}
			conv = "noconv"
			continue
		}
		if !ascending(dd) {
			t.Failf("Dsteqr eigenvalues not ascending: %v [%s]", dd, ctx)
		}
		chk(t, "steqr-w-vs-jacobi", ratio(maxDiff(dd, oracle), fmax(n), nrm), thresh, ctx)
		if z == nil {
			continue
		}
		if k, ok := z.padOK(n, n); !ok {
			t.Failf("Dsteqr modified padding of z at flat index %d [%s]", k, ctx)
		}
		zm := z.toM()
		target := a
		if compz == lapack.EVTridiag {
			target = tm
		}
		chk(t, "steqr-AZ-ZL", ratio(fro(sub(mul(target, zm), mul(zm, diagM(dd)))), fmax(n), nrm), thresh, ctx)
		chk(t, "steqr-ZtZ-I", ratio(orthCols(zm), fmax(n), 1), thresh, ctx)
	}
	{
		dd, ee := append([]float64(nil), d...), append([]float64(nil), e...)
		var ok bool
		if !call(t, "Dsterf", func() { ok = impl.Dsterf(n, dd, ee) }) {
			return
		}
		if !ok {
			if p.stock {
				t.Failf("Dsterf did not converge with stock parameters")
			}
			conv = "noconv"
		} else {
			if !ascending(dd) {
				t.Failf("Dsterf eigenvalues not ascending: %v", dd)
			}
			chk(t, "sterf-w-vs-jacobi", ratio(maxDiff(dd, oracle), fmax(n), nrm), thresh, "")
		}
	}
	if n >= 3 {
		t.Nontrivial()
	}
	bs := func(b bool) string {
		if b {
			return "blocked"
		}
		return "unblocked"
	}
	t.Outcome(fmt.Sprintf("trd=%s orgtr=%s %s", bs(trdBlocked), bs(orgBlocked), conv))
	t.Detail(map[string]any{"ilaenv": log.String()})
	attributeIscale(t, f)
}

// genDstScaled runs Dsterf and Dsteqr directly on tridiagonal matrices whose
// norm lies outside [ssfmin, ssfmax] ~ [2^-405, 2^510], where both routines
// rescale the active block, with d/e of exactly the required length and with
// longer slices.
func genDstScaled(g *vlib.G) {
	for n := 1; n <= p3(g, 6, 10, 12); n++ {
		for _, sc := range []int{-450, -300, 0, 400, 515} {
			for _, extra := range []int{0, 40} {
				for pat := 0; pat < 3; pat++ {
					n, sc, extra, pat := n, sc, extra, pat
					kase(g, fmt.Sprintf("Dsterf/Dsteqr n=%d scale=2^%d extra=%d pat=%d", n, sc, extra, pat), func(t *vlib.T) {
						runDstScaled(t, n, sc, extra, pat)
					})
				}
			}
		}
	}
}

func runDstScaled(t *vlib.T, n, sc, extra, pat int) {
	l := lcgFor(70, n, pat)
	d0, e0 := make([]float64, n), make([]float64, max(0, n-1))
	for i := range d0 {
		d0[i] = float64(l.Small(3))
	}
	for i := range e0 {
		e0[i] = float64(1 + l.Next()%2)
		if pat == 2 && i == n/2 {
			e0[i] = 0 // two blocks
		}
	}
	base := tridiag(d0, e0)
	nrm := fro(base)
	oracle := jacobiEig(base)
	scale := math.Ldexp(1, sc)
	mk := func() (d, e []float64) {
		d, e = poisoned(n+extra), poisoned(max(0, n-1)+extra)
		for i := range d0 {
			d[i] = d0[i] * scale
		}
		for i := range e0 {
			e[i] = e0[i] * scale
		}
		return
	}
	run := func(name string, f func(d, e []float64) bool) {
		d, e := mk()
		var ok bool
		if msg := catch(func() { ok = f(d, e) }); msg != "" {
			if strings.Contains(lastStack, "dlascl.go") && strings.Contains(lastStack, "dsterf.go") {
				finding(t, "dsterf-dlascl-lda", "%s on a tridiagonal matrix of scale 2^%d panics in the rescaling: %s %s", name, sc, msg, lastStack)
			} else {
				t.FailClass("unexpected-panic", "%s panicked: %s %s", name, msg, lastStack)
			}
			return
		}
		if !ok {
			if name == "Dsterf" && extra > 0 && (sc < -405 || sc > 510) {
				finding(t, "dsterf-dlascl-lda", "Dsterf with len(d) > n on scale 2^%d does not converge (the rescaling touched d[l], d[l+n], ... instead of d[l:l+m])", sc)
				return
			}
			t.Failf("%s did not converge", name)
			return
		}
		w := scaled(d[:n], scale)
		if !ascending(w) {
			t.Failf("%s: eigenvalues not ascending: %v", name, d[:n])
		}
		r := ratio(maxDiff(w, oracle), fmax(n), nrm)
		if !(r <= thresh) && name == "Dsterf" && extra > 0 && (sc < -405 || sc > 510) {
			finding(t, "dsterf-dlascl-lda", "Dsterf with len(d) > n on scale 2^%d returns wrong eigenvalues (ratio %.3g): %v, want %v", sc, r, w, oracle)
			return
		}
		chk(t, "dst-scaled-w-vs-jacobi", r, thresh, name)
		for i := n; i < len(d); i++ {
			if !math.IsNaN(d[i]) {
				t.Failf("%s wrote d[%d] beyond n", name, i)
				break
			}
		}
	}
	run("Dsterf", func(d, e []float64) bool { return impl.Dsterf(n, d, e) })
	run("Dsteqr(N)", func(d, e []float64) bool { return impl.Dsteqr(lapack.EVCompNone, n, d, e, nil, 1, nil) })
	{
		z := newS(n, n, n+1).snap()
		d, e := mk()
		if ok := impl.Dsteqr(lapack.EVTridiag, n, d, e, z.d, n+1, poisoned(max(1, 2*n-2))); !ok {
			t.Failf("Dsteqr(I) did not converge")
		} else {
			w := scaled(d[:n], scale)
			zm := z.toM()
			chk(t, "dst-scaled-TZ-ZL", ratio(fro(sub(mul(base, zm), mul(zm, diagM(w)))), fmax(n), nrm), thresh, "")
			chk(t, "dst-scaled-ZtZ-I", ratio(orthCols(zm), fmax(n), 1), thresh, "")
		}
	}
	if n >= 2 {
		t.Nontrivial()
	}
	t.Outcome(fmt.Sprintf("rescaled=%v", sc < -405 || sc > 510))
}

// ---------------------------------------------------------------------------
// Special tridiagonal matrices for Dsterf / Dsteqr.

// tblock is one unreduced block of a tridiagonal matrix at unit scale together
// with the exact power of two by which it is scaled in the input.
type tblock struct {
	name string
	d, e []float64
	exp  int
}

// tridiagBlock returns the named unit-scale block of order n.
func tridiagBlock(name string, n int) tblock {
	b := tblock{name: name, d: make([]float64, n), e: make([]float64, max(0, n-1))}
	set := func(fd, fe func(i int) float64) {
		for i := range b.d {
			b.d[i] = fd(i)
		}
		for i := range b.e {
			b.e[i] = fe(i)
		}
	}
	c := func(v float64) func(int) float64 { return func(int) float64 { return v } }
	switch name {
	case "toep(0,1)": // constant zero diagonal: the first rotations of the QL/QR sweeps have cosine exactly 0
		set(c(0), c(1))
	case "toep(2,-1)":
		set(c(2), c(-1))
	case "toep(3,1)":
		set(c(3), c(1))
	case "toep(-1,2)":
		set(c(-1), c(2))
	case "graded-down":
		set(func(i int) float64 { return math.Ldexp(3, -3*i) }, func(i int) float64 { return math.Ldexp(1, -3*i-1) })
	case "graded-up":
		set(func(i int) float64 { return math.Ldexp(3, 3*i-3*n) }, func(i int) float64 { return math.Ldexp(1, 3*i-3*n+1) })
	case "repeated": // 2I plus a rank-one coupling: eigenvalue 2 repeated n-2 times in exact arithmetic is not tridiagonal-unreduced; use equal diagonal, equal tiny off-diagonal
		set(c(2), c(0x1p-30))
	case "kron21":
		set(c(2), func(i int) float64 { return float64(1 - i%2) })
	case "wilkinson":
		set(func(i int) float64 { return math.Abs(float64(n-1)/2 - float64(i)) }, c(1))
	case "clustered":
		set(func(i int) float64 { return 1 + float64(i)*0x1p-40 }, c(0x1p-30))
	case "int":
		l := lcgFor(71, n, 0)
		set(func(int) float64 { return float64(l.Small(3)) }, func(int) float64 { return float64(1 + l.Next()%2) })
	default:
		panic("harness: unknown tridiagonal block " + name)
	}
	return b
}

var tridiagNames = []string{"toep(0,1)", "toep(2,-1)", "toep(3,1)", "toep(-1,2)", "graded-down", "graded-up", "repeated", "kron21", "wilkinson", "clustered", "int"}

// positive definite blocks (eigenvalues bounded away from zero relative to the
// block norm): used when blocks of different scale are combined, so that the
// sorted spectrum interleaves by scale without ambiguity.
var tridiagPD = []string{"toep(3,1)", "toep(2,-1)", "graded-down"}

func genDstSpecial(g *vlib.G) {
	// one block, unit scale and the two scales that make the routines rescale
	for n := 1; n <= p3(g, 8, 16, 24); n++ {
		for _, name := range tridiagNames {
			for _, exp := range []int{0, -450, 515} {
				n, name, exp := n, name, exp
				kase(g, fmt.Sprintf("Dsterf/Dsteqr %s n=%d scale=2^%d", name, n, exp), func(t *vlib.T) {
					b := tridiagBlock(name, n)
					b.exp = exp
					runDstBlocks(t, []tblock{b})
				})
			}
		}
	}
	// two and three blocks separated by zero off-diagonal entries, every ordered
	// combination of {tiny, normal, huge} scales
	exps := []int{-450, 0, 515}
	for _, name := range tridiagPD {
		for _, n1 := range p3(g, []int{2}, []int{1, 2, 4}, []int{1, 2, 3, 4, 7}) {
			for _, n2 := range p3(g, []int{3}, []int{1, 3}, []int{1, 2, 3, 5}) {
				for _, e1 := range exps {
					for _, e2 := range exps {
						name, n1, n2, e1, e2 := name, n1, n2, e1, e2
						kase(g, fmt.Sprintf("Dsterf/Dsteqr split %s n=%d@2^%d + n=%d@2^%d", name, n1, e1, n2, e2), func(t *vlib.T) {
							b1, b2 := tridiagBlock(name, n1), tridiagBlock("toep(3,1)", n2)
							b1.exp, b2.exp = e1, e2
							runDstBlocks(t, []tblock{b1, b2})
						})
						if n1 != 2 || lvl(g) == 0 {
							continue
						}
						for _, e3 := range exps {
							e3 := e3
							kase(g, fmt.Sprintf("Dsterf/Dsteqr split %s n=%d@2^%d + n=%d@2^%d + n=2@2^%d", name, n1, e1, n2, e2, e3), func(t *vlib.T) {
								b1, b2, b3 := tridiagBlock(name, n1), tridiagBlock("toep(3,1)", n2), tridiagBlock("toep(2,-1)", 2)
								b1.exp, b2.exp, b3.exp = e1, e2, e3
								runDstBlocks(t, []tblock{b1, b2, b3})
							})
						}
					}
				}
			}
		}
	}
}

// runDstBlocks assembles the block-diagonal tridiagonal matrix, computes the
// reference spectrum block by block (Jacobi at unit scale, scaled exactly) and
// checks Dsterf and Dsteqr against it with a tolerance relative to the norm of
// the block an eigenvalue belongs to.
func runDstBlocks(t *vlib.T, blocks []tblock) {
	n := 0
	for _, b := range blocks {
		n += len(b.d)
	}
	d0, e0 := make([]float64, 0, n), make([]float64, 0, n)
	type ref struct{ val, tol float64 }
	var refs []ref
	owner := make([]int, 0, n) // block index of every row
	mixed := false
	for k, b := range blocks {
		sc := math.Ldexp(1, b.exp)
		if b.exp != blocks[0].exp {
			mixed = true
		}
		if k > 0 {
			e0 = append(e0, 0)
		}
		for _, v := range b.d {
			d0 = append(d0, v*sc)
			owner = append(owner, k)
		}
		for _, v := range b.e {
			e0 = append(e0, v*sc)
		}
		unit := tridiag(b.d, b.e)
		bn := fro(unit)
		for _, w := range jacobiEig(unit) {
			refs = append(refs, ref{w * sc, thresh * fmax(n) * eps * bn * sc})
		}
	}
	// ascending reference; with mixed scales every block is positive definite, so
	// the order is decided by exact comparisons of well separated numbers
	for i := 1; i < len(refs); i++ {
		for j := i; j > 0 && refs[j].val < refs[j-1].val; j-- {
			refs[j], refs[j-1] = refs[j-1], refs[j]
		}
	}
	if !mixed {
		// one common scale: the usual bound relative to the whole matrix
		var s float64
		for _, b := range blocks {
			u := fro(tridiag(b.d, b.e))
			s += u * u
		}
		for i := range refs {
			refs[i].tol = thresh * fmax(n) * eps * math.Sqrt(s) * math.Ldexp(1, blocks[0].exp)
		}
	}
	f0 := nFindings
	checkVals := func(name string, w []float64) (good bool) {
		if hasNaN(w) {
			t.Failf("%s: NaN eigenvalue %v", name, w)
			return false
		}
		good = true
		if !ascending(w) {
			t.Failf("%s: eigenvalues not ascending: %v", name, w)
			good = false
		}
		for i := range w {
			if !(math.Abs(w[i]-refs[i].val) <= refs[i].tol) {
				t.Failf("%s: eigenvalue %d = %v, want %v within %.3g (block-relative)", name, i, w[i], refs[i].val, refs[i].tol)
				return false
			}
			if refs[i].tol > 0 {
				t.Max("worst_ratio_milli:dst-special-w", int64(1000*thresh*math.Abs(w[i]-refs[i].val)/refs[i].tol))
			}
		}
		return good
	}
	{
		d, e := append([]float64(nil), d0...), append([]float64(nil), e0...)
		var ok bool
		if !call(t, "Dsterf", func() { ok = impl.Dsterf(n, d, e) }) {
			return
		}
		if !ok {
			t.Failf("Dsterf did not converge")
		} else {
			checkVals("Dsterf", d)
		}
	}
	for _, compz := range []lapack.EVComp{lapack.EVCompNone, lapack.EVTridiag} {
		name := fmt.Sprintf("Dsteqr(%c)", compz)
		d, e := append([]float64(nil), d0...), append([]float64(nil), e0...)
		var z *S
		var zd []float64
		ldz := 1
		var wk []float64
		if compz == lapack.EVTridiag {
			ldz = n + 1
			z = newS(n, n, ldz).snap()
			zd, wk = z.d, poisoned(max(1, 2*n-2))
		}
		var ok bool
		if !call(t, name, func() { ok = impl.Dsteqr(compz, n, d, e, zd, ldz, wk) }) {
			return
		}
		if !ok {
			t.Failf("%s did not converge", name)
			continue
		}
		if good := checkVals(name, d); z != nil && good {
			zm := z.toM()
			chk(t, "dst-special-ZtZ-I", ratio(orthCols(zm), fmax(n), 1), thresh, name)
			// column-wise residual, relative to the norm of the eigenvalue's block
			tm := tridiag(d0, e0)
			for j := 0; j < n; j++ {
				var r2 float64
				for i := 0; i < n; i++ {
					var s float64
					for k := max(0, i-1); k <= min(n-1, i+1); k++ {
						s += tm.at(i, k) * zm.at(k, j)
					}
					s -= d[j] * zm.at(i, j)
					// accumulate in units of the smallest block norm to stay in range
					r2 = math.Hypot(r2, s)
				}
				if !(r2 <= refs[j].tol) {
					t.Failf("%s: |T z - lambda z| = %.3g for eigenvalue %d (%v) exceeds the block-relative bound %.3g", name, r2, j, d[j], refs[j].tol)
					break
				}
			}
		}
	}
	_ = owner
	// Dsteqr keeps the "rescaled" state of an earlier block (finding dsteqr-iscale-not-reset)
	if t.Failed() && nFindings == f0 && mixed && dsteqrIscaleBroken() {
		finding(t, "dsteqr-iscale-not-reset", "blocks of different scale in one call: Dsteqr applies the undo-scaling of an earlier rescaled block to a later block that was not rescaled")
	}
	if n >= 2 {
		t.Nontrivial()
	}
	t.Outcome(fmt.Sprintf("blocks=%d mixed=%v", len(blocks), mixed))
}

var (
	iscaleOnce   sync.Once
	iscaleBroken bool
)

// dsteqrIscaleBroken probes the tree for finding dsteqr-iscale-not-reset with
// the smallest input: a 2×2 block of norm 2^-450 followed by a 2×2 block of norm 1.
func dsteqrIscaleBroken() bool {
	iscaleOnce.Do(func() {
		s := math.Ldexp(1, -450)
		d := []float64{3 * s, 3 * s, 3, 3}
		e := []float64{s, 0, 1}
		msg := catch(func() { impl.Dsteqr(lapack.EVCompNone, 4, d, e, nil, 1, nil) })
		iscaleBroken = msg != "" || !(math.Abs(d[3]-4) < 1e-9 && math.Abs(d[2]-2) < 1e-9)
	})
	return iscaleBroken
}
