package main

import (
	"fmt"
	"math"
	"strings"

	"gonum.org/v1/gonum/blas"
	"gonum.org/v1/gonum/internal/verif/vlib"
	"gonum.org/v1/gonum/lapack"
)

var svdJobs = []lapack.SVDJob{lapack.SVDAll, lapack.SVDStore, lapack.SVDNone}

func descendingNonneg(s []float64) bool {
	for i, v := range s {
		if !(v >= 0) {
			return false
		}
		if i > 0 && !(s[i-1] >= v) {
			return false
		}
	}
	return true
}

// svdPath mirrors Dgesvd's documented path numbering (outcome label only).
func svdPath(m, n, mnthr int, jobU, jobVT lapack.SVDJob, lwork int) string {
	k, big := min(m, n), max(m, n)
	if k == 0 {
		return "empty"
	}
	suffix := ""
	ju, jv := jobU, jobVT
	if m < n {
		suffix = "t"
		ju, jv = jobVT, jobU
	}
	if big < mnthr {
		return "10" + suffix
	}
	fast := func(th int) string {
		if lwork >= th {
			return "fast"
		}
		return "slow"
	}
	switch {
	case ju == lapack.SVDNone:
		return "1" + suffix
	case ju == lapack.SVDStore && jv == lapack.SVDNone:
		return "4" + suffix + fast(k*k+5*k)
	case ju == lapack.SVDStore:
		return "6" + suffix + fast(k*k+5*k)
	case ju == lapack.SVDAll && jv == lapack.SVDNone:
		return "7" + suffix + fast(k*k+max(k+big, 5*k))
	default:
		return "9" + suffix + fast(k*k+max(k+big, 5*k))
	}
}

type svdCfg struct {
	m, n int
	p    prof
	fams []family
	lds  [][3]int // extra for lda, ldu, ldvt
	lws  []string
}

func genDgesvd(g *vlib.G) {
	lim := p3(g, 6, 9, 11)
	profs := profSet(g, 4)
	// leading dimensions vary independently: (lda, ldu, ldvt) paddings all different
	ldsSmall := [][3]int{{0, 0, 0}, {2, 1, 3}}
	if lvl(g) >= 1 {
		ldsSmall = append(ldsSmall, [3]int{2, 2, 2}, [3]int{0, 2, 0}, [3]int{1, 0, 2})
	}
	var plan []svdCfg
	for m := 0; m <= lim; m++ {
		for n := 0; n <= lim; n++ {
			for _, p := range profs {
				plan = append(plan, svdCfg{m, n, p, genFamilies, ldsSmall, []string{"min", "fast", "query", "big"}})
			}
		}
	}
	// stock parameters: small, around the block size 32 and (thorough) the nx=128 / n=75 regions; tall and wide.
	sq := []int{1, 2, 5, 31, 32, 33}
	if lvl(g) >= 1 {
		sq = append(sq, 75, 100)
	}
	if lvl(g) >= 2 {
		sq = append(sq, 74, 76, 129, 150, 200)
	}
	stockFams := []family{genFamilies[0], genFamilies[1], genFamilies[7], genFamilies[8], genFamilies[13]}
	if lvl(g) >= 1 {
		sq = append(sq, 12, 20, 40) // even orders for the dqds family
	}
	stockLds := [][3]int{{0, 0, 0}, {2, 1, 3}}
	shapes := [][2]int{}
	for _, n := range sq {
		shapes = append(shapes, [2]int{n, n})
	}
	for _, n := range []int{1, 2, 5, 31, 32, 33} {
		if n > 5 && lvl(g) == 0 && n != 32 {
			continue
		}
		shapes = append(shapes, [2]int{2 * n, n}, [2]int{n, 2 * n}, [2]int{12 * n, n}, [2]int{n, 12 * n})
	}
	if lvl(g) >= 1 {
		shapes = append(shapes, [2]int{120, 75}, [2]int{119, 75}, [2]int{75, 120})
	}
	if lvl(g) >= 2 {
		shapes = append(shapes, [2]int{150, 75}, [2]int{75, 150}, [2]int{900, 75}, [2]int{75, 900})
	}
	for _, s := range shapes {
		fams := stockFams
		if s[0]*s[1] > 20000 {
			fams = stockFams[:1]
		}
		plan = append(plan, svdCfg{s[0], s[1], stockProf, fams, stockLds, []string{"min", "fast", "query", "big"}})
	}
	for _, c := range plan {
		for _, f := range c.fams {
			for _, ld := range c.lds {
				for _, lw := range c.lws {
					c, f, ld, lw := c, f, ld, lw
					if g.Stopped() {
						return
					}
					kase(g, fmt.Sprintf("Dgesvd m=%d n=%d fam=%s prof=%s ld=+%d+%d+%d lwork=%s", c.m, c.n, f.name, c.p.name, ld[0], ld[1], ld[2], lw), func(t *vlib.T) {
						runDgesvd(t, c.m, c.n, c.p, f, ld, lw)
						attributeBlocked(t, c.p, func(t *vlib.T, p prof) { runDgesvd(t, c.m, c.n, p, f, ld, lw) })
					})
				}
			}
		}
	}
}

func runDgesvd(t *vlib.T, m, n int, p prof, f family, ld [3]int, lw string) {
	log, restore := p.install()
	defer restore()
	base := f.gen(m, n)
	a := base.scale(f.scale)
	nrm := fro(base)
	k := min(m, n)
	dim := fmax(m, n)
	lda := ldOf(n, ld[0])
	oracle := jacobiSV(base)
	var sRef []float64
	refJob := ""
	paths := map[string]bool{}
	conv := "conv"
	for _, jobU := range svdJobs {
		for _, jobVT := range svdJobs {
			ctx := fmt.Sprintf("jobU=%c jobVT=%c", jobU, jobVT)
			as := fromM(a, lda).snap()
			var us, vs *S
			var ud, vd []float64
			ldu, ldvt := 1, 1
			switch jobU {
			case lapack.SVDAll:
				ldu = ldOf(m, ld[1])
				us = newS(m, m, ldu).snap()
				ud = us.d
			case lapack.SVDStore:
				ldu = ldOf(k, ld[1])
				us = newS(m, k, ldu).snap()
				ud = us.d
			}
			switch jobVT {
			case lapack.SVDAll:
				ldvt = ldOf(n, ld[2])
				vs = newS(n, n, ldvt).snap()
				vd = vs.d
			case lapack.SVDStore:
				ldvt = ldOf(n, ld[2])
				vs = newS(k, n, ldvt).snap()
				vd = vs.d
			}
			minwork := 1
			if k > 0 {
				minwork = max(3*k+max(m, n), 5*k)
			}
			q := poisoned(1)
			// (the query is made with the real arrays: Dgesvd does not promise not to look at them)
			impl.Dgesvd(jobU, jobVT, m, n, as.d, lda, nil, ud, ldu, vd, ldvt, q, -1)
			if i, same := as.unchanged(); !same {
				t.Failf("workspace query modified a at flat index %d [%s]", i, ctx)
			}
			if math.IsNaN(q[0]) || int(q[0]) < minwork {
				t.Failf("Dgesvd workspace query returned %v (minimum %d) [%s]", q[0], minwork, ctx)
				return
			}
			lwork := minwork
			switch lw {
			case "fast":
				lwork = max(minwork, k*k+max(k+max(m, n), 5*k))
			case "query":
				lwork = int(q[0])
			case "big":
				lwork = int(q[0]) + lda*k
			}
			work := poisoned(lwork)
			s := poisoned(k)
			var ok bool
			if msg := catch(func() { ok = impl.Dgesvd(jobU, jobVT, m, n, as.d, lda, s, ud, ldu, vd, ldvt, work, lwork) }); msg != "" {
				if n == 1 && m >= 1 && (lda > 1 || ldvt > 1) && strings.Contains(msg, "slice bounds out of range") {
					finding(t, "dgesvd-n1-ld-gt1-slice-panic", "Dgesvd m=%d n=1 lda=%d ldvt=%d with minimum-length a and vt panics: %s [%s]", m, lda, ldvt, msg, ctx)
				} else {
					failCall(t, "Dgesvd "+ctx, msg)
					if strings.HasPrefix(msg, "HANG") {
						return
					}
				}
				continue
			}
			path := svdPath(m, n, log.mnthr, jobU, jobVT, lwork)
			paths[path] = true
			t.Count("svd_path:"+path, 1)
			if k, ok := as.padOK(m, n); !ok {
				t.Failf("padding of a modified at flat index %d [%s path %s]", k, ctx, path)
			}
			if !ok {
				if p.stock {
					t.Failf("Dgesvd did not converge with stock parameters [%s]", ctx)
				}
				conv = "noconv"
				continue
			}
			ctx += " path " + path
			sv := scaled(s, f.scale)
			if !descendingNonneg(sv) {
				t.Failf("singular values not non-negative descending: %v [%s]", s, ctx)
			}
			chk(t, "gesvd-s-vs-jacobi", ratio(maxDiff(sv, oracle), dim, nrm), thresh, ctx)
			if sRef == nil {
				sRef, refJob = sv, ctx
			} else {
				chk(t, "gesvd-s-across-jobs", ratio(maxDiff(sv, sRef), dim, nrm), thresh, ctx+" vs "+refJob)
			}
			var u, vt M
			if k == 0 {
				// Empty matrix: Dgesvd (like the reference) returns at once; with job All the
				// documentation still promises an orthogonal max(m,n)×max(m,n) factor.
				if (us != nil && us.r > 0 && hasNaN(us.toM().a)) || (vs != nil && vs.r > 0 && hasNaN(vs.toM().a)) {
					finding(t, "dgesvd-empty-jobAll-factor-unset", "m=%d n=%d: the %dx%d orthogonal factor requested with job All is left unset [%s]", m, n, max(m, n), max(m, n), ctx)
					continue
				}
			}
			if us != nil {
				if i, ok := us.padOK(us.r, us.c); !ok {
					t.Failf("padding of u modified at flat index %d [%s]", i, ctx)
				}
				u = us.toM()
				chk(t, "gesvd-UtU-I", ratio(orthCols(u), fmax(m), 1), thresh, ctx)
			}
			if vs != nil {
				if i, ok := vs.padOK(vs.r, vs.c); !ok {
					t.Failf("padding of vt modified at flat index %d [%s]", i, ctx)
				}
				vt = vs.toM()
				chk(t, "gesvd-VVt-I", ratio(orthRows(vt), fmax(n), 1), thresh, ctx)
			}
			sig := diagM(sv)
			switch {
			case us != nil && vs != nil:
				uk, vk := u.sub(0, m, 0, k), vt.sub(0, k, 0, n)
				chk(t, "gesvd-A-USVt", ratio(fro(sub(base, mul(mul(uk, sig), vk))), dim, nrm), thresh, ctx)
			case us != nil:
				// left singular vectors alone: Ukᵀ A Aᵀ Uk = Σ²
				b := mul(u.sub(0, m, 0, k).T(), base)
				chk(t, "gesvd-UtAAtU-S2", ratio(fro(sub(mul(b, b.T()), mul(sig, sig))), dim, nrm*nrm), thresh, ctx)
			case vs != nil:
				b := mul(base, vt.sub(0, k, 0, n).T())
				chk(t, "gesvd-VAtAVt-S2", ratio(fro(sub(mul(b.T(), b), mul(sig, sig))), dim, nrm*nrm), thresh, ctx)
			}
		}
	}
	if k >= 2 {
		t.Nontrivial()
	}
	ps := vlib.SortedKeys(paths)
	t.Outcome(strings.Join(ps, ",") + " " + conv)
	t.Detail(map[string]any{"ilaenv": log.String(), "mnthr": log.mnthr})
}

// ---------------------------------------------------------------------------
// Dgebrd / Dgebd2 / Dorgbr / Dormbr / Dbdsqr / Dlasq1

// explicitQP builds the m×m Q and n×n P of a Dgebrd/Dgebd2 result exactly as documented.
func explicitQP(s *S, tauQ, tauP []float64) (q, pm M) {
	m, n := s.r, s.c
	q, pm = eye(m), eye(n)
	applyR := func(x M, v []float64, tau float64) { // x = x * (I - tau v vᵀ)
		for r := 0; r < x.r; r++ {
			var dot float64
			for k := range v {
				dot += x.at(r, k) * v[k]
			}
			dot *= tau
			for k := range v {
				x.set(r, k, x.at(r, k)-dot*v[k])
			}
		}
	}
	if m >= n {
		for i := 0; i < n; i++ { // Q = H_0 ... H_{n-1}; v[0:i]=0, v[i]=1, v[i+1:m]=A[i+1:m,i]
			v := make([]float64, m)
			v[i] = 1
			for r := i + 1; r < m; r++ {
				v[r] = s.d[r*s.ld+i]
			}
			applyR(q, v, tauQ[i])
		}
		for i := 0; i < n-1; i++ { // P = G_0 ... G_{n-2}; u[0:i+1]=0, u[i+1]=1, u[i+2:n]=A[i,i+2:n]
			u := make([]float64, n)
			u[i+1] = 1
			for c := i + 2; c < n; c++ {
				u[c] = s.d[i*s.ld+c]
			}
			applyR(pm, u, tauP[i])
		}
	} else {
		for i := 0; i < m-1; i++ { // Q = H_0 ... H_{m-2}; v[0:i+1]=0, v[i+1]=1, v[i+2:m]=A[i+2:m,i]
			v := make([]float64, m)
			v[i+1] = 1
			for r := i + 2; r < m; r++ {
				v[r] = s.d[r*s.ld+i]
			}
			applyR(q, v, tauQ[i])
		}
		for i := 0; i < m; i++ { // P = G_0 ... G_{m-1}; u[0:i]=0, u[i]=1, u[i+1:n]=A[i,i+1:n]
			u := make([]float64, n)
			u[i] = 1
			for c := i + 1; c < n; c++ {
				u[c] = s.d[i*s.ld+c]
			}
			applyR(pm, u, tauP[i])
		}
	}
	return q, pm
}

func bidiag(m, n int, d, e []float64) M {
	b := newM(m, n)
	for i := range d {
		b.set(i, i, d[i])
	}
	for i := range e {
		if m >= n {
			b.set(i, i+1, e[i])
		} else {
			b.set(i+1, i, e[i])
		}
	}
	return b
}

func genDgebrd(g *vlib.G) {
	lim := p3(g, 6, 9, 12)
	profs := profSet(g, 4)
	type cfg struct {
		m, n int
		p    prof
		fams []family
	}
	var plan []cfg
	for m := 0; m <= lim; m++ {
		for n := 0; n <= lim; n++ {
			for _, p := range profs {
				plan = append(plan, cfg{m, n, p, genFamilies[:14]})
			}
		}
	}
	for _, exp := range ladder(g, -240, -200, 200, 240) {
		for _, sh := range [][2]int{{3, 3}, {5, 3}, {3, 5}, {6, 6}} {
			plan = append(plan, cfg{sh[0], sh[1], profiles[0], []family{scaledFam(genFamilies[0], exp), scaledFam(genFamilies[7], exp)}})
		}
	}
	shapes := [][2]int{{1, 1}, {2, 2}, {5, 5}, {33, 33}, {40, 33}, {33, 40}}
	if lvl(g) >= 1 {
		shapes = append(shapes, [2]int{129, 129}, [2]int{150, 130}, [2]int{130, 150})
	}
	if lvl(g) >= 2 {
		shapes = append(shapes, [2]int{160, 160}, [2]int{300, 260})
	}
	for _, s := range shapes {
		plan = append(plan, cfg{s[0], s[1], stockProf, []family{genFamilies[0], genFamilies[7]}})
	}
	for _, c := range plan {
		for _, f := range c.fams {
			for _, ldx := range []int{0, 2} {
				for _, lw := range []string{"min", "mid", "query"} {
					c, f, ldx, lw := c, f, ldx, lw
					if g.Stopped() {
						return
					}
					kase(g, fmt.Sprintf("Dgebrd m=%d n=%d fam=%s prof=%s lda=n+%d lwork=%s", c.m, c.n, f.name, c.p.name, ldx, lw), func(t *vlib.T) {
						runDgebrd(t, c.m, c.n, c.p, f, ldx, lw)
						attributeBlocked(t, c.p, func(t *vlib.T, p prof) { runDgebrd(t, c.m, c.n, p, f, ldx, lw) })
					})
				}
			}
		}
	}
}

func queryLwork(t *vlib.T, what string, minimum int, f func(work []float64)) (int, bool) {
	q := poisoned(1)
	f(q)
	if math.IsNaN(q[0]) {
		t.Failf("%s workspace query left work[0] unset", what)
		return 0, false
	}
	if int(q[0]) < minimum {
		t.Failf("%s workspace query returned %v < minimum %d", what, q[0], minimum)
		return 0, false
	}
	return int(q[0]), true
}

func runDgebrd(t *vlib.T, m, n int, p prof, f family, ldx int, lw string) {
	log, restore := p.install()
	defer restore()
	a := f.gen(m, n)
	nrm := fro(a)
	k := min(m, n)
	dim := fmax(m, n)
	lda := ldOf(n, ldx)
	as := fromM(a, lda).snap()
	minw := max(1, max(m, n))
	lwork := minw
	qv, ok := queryLwork(t, "Dgebrd", 1, func(w []float64) { impl.Dgebrd(m, n, nil, lda, nil, nil, nil, nil, w, -1) })
	if !ok {
		return
	}
	switch lw {
	case "query":
		lwork = max(minw, qv)
	case "mid":
		lwork = max(minw, 2*(m+n))
	}
	d, e, tauQ, tauP := poisoned(k), poisoned(k-1), poisoned(k), poisoned(k)
	resetL3()
	impl.Dgebrd(m, n, as.d, lda, d, e, tauQ, tauP, poisoned(lwork), lwork)
	brdBlocked := l3.gemm > 0
	if i, ok := as.padOK(m, n); !ok {
		t.Failf("Dgebrd modified padding at flat index %d", i)
	}
	if hasNaN(d) || hasNaN(e) || hasNaN(tauQ) || hasNaN(tauP) {
		t.Failf("Dgebrd left outputs unset: d=%v e=%v tauQ=%v tauP=%v", d, e, tauQ, tauP)
		return
	}
	for i := 0; i < k; i++ {
		if as.d[i*lda+i] != d[i] {
			t.Failf("a[%d,%d]=%v != d[%d]=%v", i, i, as.d[i*lda+i], i, d[i])
		}
		if i+1 < k {
			v := as.d[i*lda+i+1]
			if m < n {
				v = as.d[(i+1)*lda+i]
			}
			if v != e[i] {
				t.Failf("off-diagonal %d of a = %v != e[%d]=%v", i, v, i, e[i])
			}
		}
	}
	q, pm := explicitQP(as, tauQ, tauP)
	b := bidiag(m, n, d, e)
	chk(t, "gebrd-QtAP-B", ratio(fro(sub(mul(mul(q.T(), a), pm), b)), dim, nrm), thresh, "")
	chk(t, "gebrd-QtQ-I", ratio(orthCols(q), fmax(m), 1), thresh, "")
	chk(t, "gebrd-PtP-I", ratio(orthCols(pm), fmax(n), 1), thresh, "")

	// Dgebd2 on the same input: same factorization up to rounding.
	{
		a2 := fromM(a, lda).snap()
		d2, e2, tq2, tp2 := poisoned(k), poisoned(k-1), poisoned(k), poisoned(k)
		impl.Dgebd2(m, n, a2.d, lda, d2, e2, tq2, tp2, poisoned(max(m, n)))
		if i, ok := a2.padOK(m, n); !ok {
			t.Failf("Dgebd2 modified padding at flat index %d", i)
		}
		if k > 0 && (hasNaN(d2) || hasNaN(e2) || hasNaN(tq2) || hasNaN(tp2)) {
			t.Failf("Dgebd2 left outputs unset")
		} else {
			q2, p2 := explicitQP(a2, tq2, tp2)
			chk(t, "gebd2-QtAP-B", ratio(fro(sub(mul(mul(q2.T(), a), p2), bidiag(m, n, d2, e2))), dim, nrm), thresh, "")
		}
	}

	// Dorgbr: all admissible column/row counts, minimum and optimal workspace.
	orgBlocked := false
	type orgCase struct {
		vect    lapack.GenOrtho
		r, c, k int
		want    M
	}
	var ocs []orgCase
	// GenerateQ: a was m×n (k = n); returns the first ncol columns of Q, min(m,n) <= ncol <= m if m >= n, else m×m.
	if m >= n {
		for nc := n; nc <= m; nc++ {
			if nc != n && nc != m && nc != n+1 {
				continue
			}
			ocs = append(ocs, orgCase{lapack.GenerateQ, m, nc, n, q.sub(0, m, 0, nc)})
		}
	} else {
		ocs = append(ocs, orgCase{lapack.GenerateQ, m, m, n, q})
	}
	// GeneratePT: a was m×n (k = m); returns the first nr rows of Pᵀ, m <= nr <= n if m < n, else n×n.
	pt := pm.T()
	if m < n {
		for nr := m; nr <= n; nr++ {
			if nr != m && nr != n && nr != m+1 {
				continue
			}
			ocs = append(ocs, orgCase{lapack.GeneratePT, nr, n, m, pt.sub(0, nr, 0, n)})
		}
	} else {
		ocs = append(ocs, orgCase{lapack.GeneratePT, n, n, m, pt})
	}
	for _, oc := range ocs {
		for _, olw := range []string{"min", "query"} {
			ctx := fmt.Sprintf("vect=%c %dx%d k=%d lwork=%s", oc.vect, oc.r, oc.c, oc.k, olw)
			ldq := ldOf(max(oc.c, n), off(ldx, 1))
			// the reflectors live in the leading part of an array that has room for the result
			st := newS(max(oc.r, m), max(oc.c, n), ldq)
			for i := 0; i < m && n > 0; i++ {
				copy(st.d[i*ldq:i*ldq+n], as.d[i*lda:i*lda+n])
			}
			st.r, st.c = oc.r, oc.c
			st.d = st.d[:minLen(oc.r, oc.c, ldq)]
			st.snap()
			tau := tauQ
			if oc.vect == lapack.GeneratePT {
				tau = tauP
			}
			lwo := max(1, min(oc.r, oc.c))
			if olw == "query" {
				v, ok := queryLwork(t, "Dorgbr", 1, func(w []float64) { impl.Dorgbr(oc.vect, oc.r, oc.c, oc.k, st.d, ldq, tau, w, -1) })
				if !ok {
					return
				}
				lwo = max(lwo, v)
			}
			resetL3()
			impl.Dorgbr(oc.vect, oc.r, oc.c, oc.k, st.d, ldq, tau, poisoned(lwo), lwo)
			orgBlocked = orgBlocked || nL3() > 0
			if i, ok := st.padOK(oc.r, oc.c); !ok {
				t.Failf("Dorgbr modified padding at flat index %d [%s]", i, ctx)
			}
			chk(t, "orgbr-vs-explicit", ratio(fro(sub(st.toM(), oc.want)), dim, 1), thresh, ctx)
		}
	}

	// Dormbr: every (vect, side, trans) on an integer C, minimum and optimal workspace.
	for _, vect := range []lapack.ApplyOrtho{lapack.ApplyQ, lapack.ApplyP} {
		for _, side := range []blas.Side{blas.Left, blas.Right} {
			for _, trans := range []blas.Transpose{blas.NoTrans, blas.Trans} {
				for _, olw := range []string{"min", "query"} {
					// Q is m×m (A was nq×k with nq=m, k=n); P is n×n (A was k×nq with k=m, nq=n).
					nq, kk := m, n
					op := q
					if vect == lapack.ApplyP {
						nq, kk = n, m
						op = pm
					}
					if trans == blas.Trans {
						op = op.T()
					}
					other := 3
					cr, cc := nq, other
					if side == blas.Right {
						cr, cc = other, nq
					}
					ctx := fmt.Sprintf("vect=%c side=%c trans=%c C=%dx%d lwork=%s", vect, side, trans, cr, cc, olw)
					cm := intGeneral(cr, cc, 3, lcgFor(11, cr, cc))
					ldc := ldOf(cc, off(ldx, 2))
					cs := fromM(cm, ldc).snap()
					var want M
					if side == blas.Left {
						want = mul(op, cm)
					} else {
						want = mul(cm, op)
					}
					tau := tauQ
					if vect == lapack.ApplyP {
						tau = tauP
					}
					nw := cc
					if side == blas.Right {
						nw = cr
					}
					lwo := max(1, nw)
					if olw == "query" {
						v, ok := queryLwork(t, "Dormbr", 1, func(w []float64) {
							impl.Dormbr(vect, side, trans, cr, cc, kk, as.d, lda, tau[:min(nq, kk)], cs.d, ldc, w, -1)
						})
						if !ok {
							return
						}
						lwo = max(lwo, v)
					}
					asIn := append([]float64(nil), as.d...)
					if msg := catch(func() {
						impl.Dormbr(vect, side, trans, cr, cc, kk, asIn, lda, tau[:min(nq, kk)], cs.d, ldc, poisoned(lwo), lwo)
					}); msg != "" {
						t.FailClass("unexpected-panic", "Dormbr panicked: %s [%s]", msg, ctx)
						continue
					}
					if i, same := vlib.Same64(asIn, as.d); !same {
						t.Failf("Dormbr modified its reflector input at flat index %d [%s]", i, ctx)
					}
					if i, ok := cs.padOK(cr, cc); !ok {
						t.Failf("Dormbr modified padding of c at flat index %d [%s]", i, ctx)
					}
					chk(t, "ormbr-vs-explicit", ratio(fro(sub(cs.toM(), want)), dim, fro(cm)), thresh, ctx)
				}
			}
		}
	}

	// Dbdsqr on the bidiagonal factor, with every combination of vector requests.
	conv := runBdsqr(t, p, m, n, d, e, a, q, pm, ldx)

	if k >= 2 {
		t.Nontrivial()
	}
	bs := func(b bool) string {
		if b {
			return "blocked"
		}
		return "unblocked"
	}
	t.Outcome(fmt.Sprintf("brd=%s orgbr=%s %s", bs(brdBlocked), bs(orgBlocked), conv))
	t.Detail(map[string]any{"ilaenv": log.String()})
}

// runBdsqr checks Dbdsqr (and Dlasq1) on the k×k bidiagonal B = Qkᵀ A Pk.
func runBdsqr(t *vlib.T, p prof, m, n int, d, e []float64, a, q, pm M, ldx int) string {
	k := min(m, n)
	nrm := fro(a)
	dim := fmax(m, n)
	uplo := blas.Upper
	if m < n {
		uplo = blas.Lower
	}
	oracle := jacobiSV(a)
	conv := "conv"
	qk, ptk := q.sub(0, m, 0, k), pm.T().sub(0, k, 0, n)
	cm := intGeneral(k, 2, 3, lcgFor(12, k, 2))
	for mask := 0; mask < 8; mask++ {
		ncvt, nru, ncc := 0, 0, 0
		if mask&1 != 0 {
			ncvt = n
		}
		if mask&2 != 0 {
			nru = m
		}
		if mask&4 != 0 {
			ncc = 2
		}
		ctx := fmt.Sprintf("Dbdsqr uplo=%c n=%d ncvt=%d nru=%d ncc=%d", uplo, k, ncvt, nru, ncc)
		dd, ee := append([]float64(nil), d...), append([]float64(nil), e...)
		var vts, us, cs *S
		var vtd, ud, cd []float64
		ldvt, ldu, ldc := max(1, ncvt)+off(ldx, 1), max(1, k)+off(ldx, 2), max(1, ncc)+off(ldx, 3)
		if ncvt > 0 {
			vts = fromM(ptk, ldvt).snap()
			vtd = vts.d
		}
		if nru > 0 {
			us = fromM(qk, ldu).snap()
			ud = us.d
		}
		if ncc > 0 {
			cs = fromM(cm, ldc).snap()
			cd = cs.d
		}
		// documented work length 4*(n-1); without vectors the routine needs 4*n
		// (group dbdsqr-minwork checks the documented length on its own)
		work := poisoned(max(0, 4*(k-1)))
		if mask == 0 {
			work = poisoned(4 * k)
		}
		var ok bool
		if msg := catch(func() { ok = impl.Dbdsqr(uplo, k, ncvt, nru, ncc, dd, ee, vtd, ldvt, ud, ldu, cd, ldc, work) }); msg != "" {
			t.FailClass("unexpected-panic", "%s panicked: %s %s", ctx, msg, lastStack)
			continue
		}
		if !ok {
			if p.stock {
				t.Failf("%s did not converge with stock parameters", ctx)
			}
			conv = "noconv"
			continue
		}
		if !descendingNonneg(dd) {
			t.Failf("%s: singular values not non-negative descending: %v", ctx, dd)
		}
		chk(t, "bdsqr-s-vs-jacobi", ratio(maxDiff(dd, oracle), dim, nrm), thresh, ctx)
		sig := diagM(dd)
		var u, vt M
		if us != nil {
			if i, ok := us.padOK(m, k); !ok {
				t.Failf("%s modified padding of u at flat index %d", ctx, i)
			}
			u = us.toM()
			chk(t, "bdsqr-UtU-I", ratio(orthCols(u), dim, 1), thresh, ctx)
		}
		if vts != nil {
			if i, ok := vts.padOK(k, n); !ok {
				t.Failf("%s modified padding of vt at flat index %d", ctx, i)
			}
			vt = vts.toM()
			chk(t, "bdsqr-VVt-I", ratio(orthRows(vt), dim, 1), thresh, ctx)
		}
		switch {
		case us != nil && vts != nil:
			chk(t, "bdsqr-A-USVt", ratio(fro(sub(a, mul(mul(u, sig), vt))), dim, nrm), thresh, ctx)
		case us != nil:
			b := mul(u.T(), a)
			chk(t, "bdsqr-UtAAtU-S2", ratio(fro(sub(mul(b, b.T()), mul(sig, sig))), dim, nrm*nrm), thresh, ctx)
		case vts != nil:
			b := mul(a, vt.T())
			chk(t, "bdsqr-VAtAVt-S2", ratio(fro(sub(mul(b.T(), b), mul(sig, sig))), dim, nrm*nrm), thresh, ctx)
		}
		if cs != nil {
			if i, ok := cs.padOK(k, ncc); !ok {
				t.Failf("%s modified padding of c at flat index %d", ctx, i)
			}
			// C := Q_Bᵀ C where B = Q_B S P_Bᵀ, hence S (P_Bᵀ) = (Q_Bᵀ C) when C = B: use the
			// definition with what is available: if U was accumulated, U_out = Qk*Q_B, so
			// Q_Bᵀ C = U_outᵀ Qk C.
			if us != nil {
				want := mul(u.T(), mul(qk, cm))
				chk(t, "bdsqr-QtC", ratio(fro(sub(cs.toM(), want)), dim, fro(cm)), thresh, ctx)
			}
			// whether or not U was requested: the definition free of Q
			// (gotᵀ S^2k got = Cᵀ (B Bᵀ)^k C) on the k×k bidiagonal matrix itself
			bk := newM(k, k)
			for i := 0; i < k; i++ {
				bk.set(i, i, d[i])
				if i+1 < k {
					if uplo == blas.Upper {
						bk.set(i, i+1, e[i])
					} else {
						bk.set(i+1, i, e[i])
					}
				}
			}
			checkQtC(t, "bdsqr", bk, cm, cs.toM(), dd, nil, nil, nil, dim, ctx)
		}
	}
	// Dlasq1 directly (documented work length 4n).
	if k > 0 {
		dd, ee := append([]float64(nil), d...), append([]float64(nil), e...)
		info := impl.Dlasq1(k, dd, ee, poisoned(4*k))
		if info != 0 {
			if p.stock {
				t.Failf("Dlasq1 returned info=%d with stock parameters", info)
			}
			conv = "noconv"
		} else {
			if !descendingNonneg(dd) {
				t.Failf("Dlasq1: singular values not non-negative descending: %v", dd)
			}
			chk(t, "lasq1-s-vs-jacobi", ratio(maxDiff(dd, oracle), dim, nrm), thresh, "")
		}
	}
	return conv
}

// genDbdsqrMinWork calls Dbdsqr without vectors with exactly the documented
// work length 4*(n-1).
func genDbdsqrMinWork(g *vlib.G) {
	for n := 0; n <= p3(g, 6, 10, 12); n++ {
		for _, uplo := range []blas.Uplo{blas.Upper, blas.Lower} {
			n, uplo := n, uplo
			kase(g, fmt.Sprintf("Dbdsqr-novectors n=%d uplo=%c work=4(n-1)", n, uplo), func(t *vlib.T) {
				d, e := make([]float64, n), make([]float64, max(0, n-1))
				for i := range d {
					d[i] = float64(1 + i)
				}
				for i := range e {
					e[i] = 1
				}
				b := newM(n, n)
				for i := range d {
					b.set(i, i, d[i])
				}
				for i := range e {
					if uplo == blas.Upper {
						b.set(i, i+1, e[i])
					} else {
						b.set(i+1, i, e[i])
					}
				}
				oracle := jacobiSV(b)
				work := poisoned(max(0, 4*(n-1)))
				var ok bool
				if msg := catch(func() { ok = impl.Dbdsqr(uplo, n, 0, 0, 0, d, e, nil, 1, nil, 1, nil, 1, work) }); msg != "" {
					if strings.Contains(msg, "work") {
						finding(t, "dbdsqr-novectors-needs-4n-work", "Dbdsqr(n=%d, no vectors) with the documented work length 4*(n-1)=%d panics: %s", n, len(work), msg)
					} else {
						t.FailClass("unexpected-panic", "Dbdsqr panicked: %s %s", msg, lastStack)
					}
					t.Outcome("panic")
					return
				}
				if !ok {
					t.Failf("did not converge")
					return
				}
				if !descendingNonneg(d) {
					t.Failf("singular values not non-negative descending: %v", d)
				}
				chk(t, "bdsqr-s-vs-jacobi", ratio(maxDiff(d, oracle), fmax(n), fro(b)), thresh, "")
				if n >= 2 {
					t.Nontrivial()
				}
				t.Outcome("ok")
			})
		}
	}
}

// genDbdsqrDirect calls Dlasq1 and Dbdsqr directly on n×n bidiagonal matrices
// with every sign pattern of the diagonal (magnitudes 1..n in two orders) and
// every zero / non-zero pattern of the off-diagonal (including the already
// diagonal matrix with a negative last entry), upper and lower, for all eight
// combinations of requested vectors including none.
func genDbdsqrDirect(g *vlib.G) {
	for n := 0; n <= p3(g, 5, 6, 7); n++ {
		for zmask := 0; zmask < 1<<uint(max(0, n-1)); zmask++ {
			for _, uplo := range []blas.Uplo{blas.Upper, blas.Lower} {
				for _, ldx := range []int{0, 2} {
					n, zmask, uplo, ldx := n, zmask, uplo, ldx
					if g.Stopped() {
						return
					}
					kase(g, fmt.Sprintf("Dbdsqr/Dlasq1 n=%d offdiag=%0*b uplo=%c ld=+%d", n, max(1, n-1), zmask, uplo, ldx), func(t *vlib.T) {
						runDbdsqrDirect(t, n, zmask, uplo, ldx)
					})
				}
			}
		}
	}
}

func runDbdsqrDirect(t *vlib.T, n, zmask int, uplo blas.Uplo, ldx int) {
	cm := intGeneral(n, 2, 3, lcgFor(90, n, zmask))
	for smask := 0; smask < 1<<uint(n); smask++ {
		for order := 0; order < 2; order++ {
			d0, e0 := make([]float64, n), make([]float64, max(0, n-1))
			for i := range d0 {
				d0[i] = float64(i + 1)
				if order == 1 {
					d0[i] = float64(n - i)
				}
				if smask&(1<<uint(i)) != 0 {
					d0[i] = -d0[i]
				}
			}
			for i := range e0 {
				if zmask&(1<<uint(i)) != 0 {
					e0[i] = float64(1 + i%2)
				}
			}
			if !checkBidiag(t, n, d0, e0, uplo, ldx, cm) {
				return
			}
		}
	}
	if n >= 2 {
		t.Nontrivial()
	}
	t.Outcome(fmt.Sprintf("diagonal=%v", zmask == 0))
}

// checkBidiag runs Dlasq1 and Dbdsqr (all eight vector masks, U = VT = I on
// entry) on the n×n bidiagonal matrix (d0, e0) and checks them against the
// definition. It returns false when the case must be abandoned (panic, hang).
func checkBidiag(t *vlib.T, n int, d0, e0 []float64, uplo blas.Uplo, ldx int, cm M) bool {
	dim := fmax(n)
	b := newM(n, n)
	for i := range d0 {
		b.set(i, i, d0[i])
	}
	for i := range e0 {
		if uplo == blas.Upper {
			b.set(i, i+1, e0[i])
		} else {
			b.set(i+1, i, e0[i])
		}
	}
	nrm := fro(b)
	oracle := jacobiSV(b)
	ctx0 := fmt.Sprintf("d=%v e=%v", d0, e0)
	// Dlasq1 (upper bidiagonal by definition; singular values do not depend on uplo)
	if n > 0 {
		d, e := append([]float64(nil), d0...), append([]float64(nil), e0...)
		var info int
		if !call(t, "Dlasq1 "+ctx0, func() { info = impl.Dlasq1(n, d, e, poisoned(4*n)) }) {
			return false
		}
		if info != 0 {
			t.Failf("Dlasq1 info=%d [%s]", info, ctx0)
		} else {
			if !descendingNonneg(d) {
				t.Failf("Dlasq1: singular values not non-negative descending: %v [%s]", d, ctx0)
			}
			chk(t, "direct-lasq1-s-vs-jacobi", ratio(maxDiff(d, oracle), dim, nrm), thresh, ctx0)
		}
		// Dlasq2 on the qd array of B (at unit scale: the array holds squares): z[2i] = d_i^2,
		// z[2i+1] = e_i^2; it returns the eigenvalues sigma_i^2 of BᵀB in z[0:n], descending.
		if se := scaleExp(b); se == 0 {
			z := make([]float64, 4*n)
			for i := range d0 {
				z[2*i] = d0[i] * d0[i]
				if i < len(e0) {
					z[2*i+1] = e0[i] * e0[i]
				}
			}
			if !call(t, "Dlasq2 "+ctx0, func() { info = impl.Dlasq2(n, z) }) {
				return false
			}
			if info != 0 {
				t.Failf("Dlasq2 info=%d [%s]", info, ctx0)
			} else {
				sq := make([]float64, n)
				for i := range sq {
					sq[i] = oracle[i] * oracle[i]
				}
				if !descendingNonneg(z[:n]) {
					t.Failf("Dlasq2: eigenvalues not non-negative descending: %v [%s]", z[:n], ctx0)
				}
				chk(t, "direct-lasq2-s2-vs-jacobi", ratio(maxDiff(z[:n], sq), dim, nrm*nrm), thresh, ctx0)
			}
		}
	}
	// companion run accumulating U only: reference for Qᵀ*C in every other call
	var uref *M
	if n > 0 {
		d, e := append([]float64(nil), d0...), append([]float64(nil), e0...)
		ur := fromM(eye(n), n)
		var ok bool
		if !call(t, "Dbdsqr (companion) "+ctx0, func() {
			ok = impl.Dbdsqr(uplo, n, 0, n, 0, d, e, nil, 1, ur.d, n, nil, 1, poisoned(max(0, 4*(n-1))))
		}) {
			return false
		}
		if ok {
			m := ur.toM()
			uref = &m
		}
	}
	for mask := 0; mask < 8; mask++ {
		ncvt, nru, ncc := 0, 0, 0
		if mask&1 != 0 {
			ncvt = n
		}
		if mask&2 != 0 {
			nru = n
		}
		if mask&4 != 0 {
			ncc = 2
		}
		ctx := fmt.Sprintf("%s ncvt=%d nru=%d ncc=%d", ctx0, ncvt, nru, ncc)
		d, e := append([]float64(nil), d0...), append([]float64(nil), e0...)
		var vts, us, cs *S
		var vtd, ud, cd []float64
		ldvt, ldu, ldc := max(1, ncvt)+off(ldx, 0), max(1, n)+off(ldx, 1), max(1, ncc)+off(ldx, 2)
		if ncvt > 0 {
			vts = fromM(eye(n), ldvt).snap()
			vtd = vts.d
		}
		if nru > 0 {
			us = fromM(eye(n), ldu).snap()
			ud = us.d
		}
		if ncc > 0 {
			cs = fromM(cm, ldc).snap()
			cd = cs.d
		}
		var ok bool
		if !call(t, "Dbdsqr "+ctx, func() {
			ok = impl.Dbdsqr(uplo, n, ncvt, nru, ncc, d, e, vtd, ldvt, ud, ldu, cd, ldc, poisoned(max(0, 4*(n-1))))
		}) {
			return false
		}
		if !ok {
			t.Failf("Dbdsqr did not converge [%s]", ctx)
			continue
		}
		if !descendingNonneg(d) {
			t.Failf("Dbdsqr: singular values not non-negative descending: %v [%s]", d, ctx)
		}
		chk(t, "direct-bdsqr-s-vs-jacobi", ratio(maxDiff(d, oracle), dim, nrm), thresh, ctx)
		sig := diagM(d)
		var u, vt M
		if us != nil {
			if i, ok := us.padOK(n, n); !ok {
				t.Failf("padding of u modified at flat index %d [%s]", i, ctx)
			}
			u = us.toM()
			chk(t, "direct-bdsqr-UtU-I", ratio(orthCols(u), dim, 1), thresh, ctx)
		}
		if vts != nil {
			if i, ok := vts.padOK(n, n); !ok {
				t.Failf("padding of vt modified at flat index %d [%s]", i, ctx)
			}
			vt = vts.toM()
			chk(t, "direct-bdsqr-VVt-I", ratio(orthRows(vt), dim, 1), thresh, ctx)
		}
		switch {
		case us != nil && vts != nil:
			chk(t, "direct-bdsqr-B-USVt", ratio(fro(sub(b, mul(mul(u, sig), vt))), dim, nrm), thresh, ctx)
		case us != nil:
			x := mul(u.T(), b)
			chk(t, "direct-bdsqr-UtBBtU-S2", ratio(fro(sub(mul(x, x.T()), mul(sig, sig))), dim, nrm*nrm), thresh, ctx)
		case vts != nil:
			x := mul(b, vt.T())
			chk(t, "direct-bdsqr-VBtBVt-S2", ratio(fro(sub(mul(x.T(), x), mul(sig, sig))), dim, nrm*nrm), thresh, ctx)
		}
		if cs != nil {
			if i, ok := cs.padOK(n, ncc); !ok {
				t.Failf("padding of c modified at flat index %d [%s]", i, ctx)
			}
			var up, vp *M
			if us != nil {
				up = &u
			}
			if vts != nil {
				vp = &vt
			}
			checkQtC(t, "direct-bdsqr", b, cm, cs.toM(), d, up, vp, uref, dim, ctx)
		}
		t.Count("bdsqr_direct_calls", 1)
	}
	return true
}

// bidiagSpecial lists named special bidiagonal matrices of order n: Toeplitz
// (constant diagonal and off-diagonal, including a zero diagonal), graded,
// repeated singular values, and matrices that split into blocks of very
// different size.
func bidiagSpecial(n int) (names []string, ds, es [][]float64) {
	add := func(name string, fd func(i int) float64, fe func(i int) float64) {
		d, e := make([]float64, n), make([]float64, max(0, n-1))
		for i := range d {
			d[i] = fd(i)
		}
		for i := range e {
			e[i] = fe(i)
		}
		names, ds, es = append(names, name), append(ds, d), append(es, e)
	}
	c := func(v float64) func(int) float64 { return func(int) float64 { return v } }
	add("toep(1,1)", c(1), c(1))
	add("toep(1,-1)", c(1), c(-1))
	add("toep(0,1)", c(0), c(1))
	add("toep(2,1)", c(2), c(1))
	add("toep(-1,2)", c(-1), c(2))
	add("graded-down", func(i int) float64 { return math.Ldexp(1, -3*i) }, func(i int) float64 { return math.Ldexp(1, -3*i-1) })
	add("graded-up", func(i int) float64 { return math.Ldexp(1, 3*i-3*n) }, func(i int) float64 { return math.Ldexp(1, 3*i-3*n+1) })
	add("repeated-2", c(2), func(i int) float64 { return float64(i%2) * 0 })
	add("repeated-blocks", c(2), func(i int) float64 {
		if i%3 == 2 {
			return 0
		}
		return 1
	})
	add("tiny-then-normal", func(i int) float64 {
		if i < n/2 {
			return math.Ldexp(float64(1+i), -200)
		}
		return float64(1 + i)
	}, func(i int) float64 {
		switch {
		case i+1 == n/2:
			return 0
		case i < n/2:
			return math.Ldexp(1, -200)
		}
		return 1
	})
	add("normal-then-tiny", func(i int) float64 {
		if i >= n/2 {
			return math.Ldexp(float64(1+i), -200)
		}
		return float64(1 + i)
	}, func(i int) float64 {
		switch {
		case i+1 == n/2:
			return 0
		case i >= n/2:
			return math.Ldexp(1, -200)
		}
		return 1
	})
	return
}

// bidiagDqds lists bidiagonal matrices that steer the dqds algorithm (values-only
// path: Dlasq1..6) through its flip, split and deflation branches: nearly
// diagonal with graded ends and one small interior diagonal entry near either
// end (the in-loop reversal of an unreduced block), reverse-graded, tiny interior
// entries, clusters, and the same inside a block of a split matrix.
func bidiagDqds(n int) (names []string, ds, es [][]float64) {
	base := func() (d, e []float64) {
		d, e = make([]float64, n), make([]float64, max(0, n-1))
		for i := range d {
			d[i] = 1 + 0.01*float64(i%3)
		}
		for i := range e {
			e[i] = 0.05 - 0.01*float64(i%2)
		}
		return
	}
	add := func(name string, d, e []float64) { names, ds, es = append(names, name), append(ds, d), append(es, e) }
	for _, pos := range []int{1, 2} {
		for _, small := range []float64{1e-2, 1e-3, 1e-5} {
			if pos >= n-1 {
				continue
			}
			d, e := base()
			d[0], d[n-1], d[pos] = 3, 2, small
			add(fmt.Sprintf("small-near-top(pos=%d,%g)", pos, small), d, e)
			// mirrored: small entry near the bottom, heavy end first
			d2, e2 := base()
			d2[0], d2[n-1], d2[n-1-pos] = 2, 3, small
			add(fmt.Sprintf("small-near-bottom(pos=%d,%g)", pos, small), d2, e2)
		}
	}
	{
		d, e := base()
		if n > 2 {
			d[n/2] = 1e-8
		}
		add("tiny-interior", d, e)
	}
	{
		d, e := base()
		for i := range d {
			d[i] = 1 + float64(i%4)*1e-7
		}
		for i := range e {
			e[i] = 1e-3
		}
		add("clusters", d, e)
	}
	{
		d, e := base()
		for i := range d {
			d[i] = math.Ldexp(1, -i)
		}
		add("graded-diag", d, e)
		d2, e2 := base()
		for i := range d2 {
			d2[i] = math.Ldexp(1, i-n)
		}
		add("reverse-graded-diag", d2, e2)
	}
	if n >= 6 {
		// a split matrix whose second block is the small-near-top matrix of order n - n/3
		d, e := base()
		h := n / 3
		e[h-1] = 0
		d[h], d[n-1] = 3, 2
		if h+1 < n-1 {
			d[h+1] = 1e-3
		}
		add("split+small-near-top", d, e)
	}
	return
}

func genDbdsqrSpecial(g *vlib.G) {
	// dqds-steering families at even and odd orders up to 40
	for _, n := range p3(g, []int{8, 12, 13, 20}, []int{4, 6, 8, 9, 10, 12, 13, 20, 21, 40}, append(vlib.Ints(3, 24), 29, 30, 39, 40, 41, 49, 50)) {
		names, ds, es := bidiagDqds(n)
		for k := range names {
			for _, uplo := range []blas.Uplo{blas.Upper, blas.Lower} {
				n, k, uplo := n, k, uplo
				kase(g, fmt.Sprintf("Dbdsqr/Dlasq1 n=%d %s uplo=%c", n, names[k], uplo), func(t *vlib.T) {
					cm := intGeneral(n, 2, 3, lcgFor(92, n, k))
					checkBidiag(t, n, ds[k], es[k], uplo, 2*(k%2), cm)
					t.Nontrivial()
					t.Outcome("dqds-steering")
				})
			}
		}
	}
	// magnitude ladder (the moment identities involve S^4, hence +-240 at most)
	for _, exp := range ladder(g, -240, -200, 200, 240) {
		for _, n := range []int{3, 6} {
			names, ds, es := bidiagSpecial(n)
			for _, k := range []int{0, 3, 5} {
				exp, n, k := exp, n, k
				kase(g, fmt.Sprintf("Dbdsqr/Dlasq1 n=%d %s uplo=U ld=+2 scale=2^%d", n, names[k], exp), func(t *vlib.T) {
					d, e := append([]float64(nil), ds[k]...), append([]float64(nil), es[k]...)
					for i := range d {
						d[i] *= pow2(exp)
					}
					for i := range e {
						e[i] *= pow2(exp)
					}
					checkBidiag(t, n, d, e, blas.Upper, 2, intGeneral(n, 2, 3, lcgFor(93, n, k)))
					t.Nontrivial()
					t.Outcome("ladder")
				})
			}
		}
	}
	for n := 1; n <= p3(g, 8, 14, 18); n++ {
		names, ds, es := bidiagSpecial(n)
		for k := range names {
			for _, uplo := range []blas.Uplo{blas.Upper, blas.Lower} {
				for _, ldx := range []int{0, 2} {
					n, k, uplo, ldx := n, k, uplo, ldx
					kase(g, fmt.Sprintf("Dbdsqr/Dlasq1 n=%d %s uplo=%c ld=+%d", n, names[k], uplo, ldx), func(t *vlib.T) {
						cm := intGeneral(n, 2, 3, lcgFor(91, n, k))
						checkBidiag(t, n, ds[k], es[k], uplo, ldx, cm)
						if n >= 2 {
							t.Nontrivial()
						}
						t.Outcome(names[k])
					})
				}
			}
		}
	}
}

// checkQtC checks the matrix got that Dbdsqr returned in c against C = Qᵀ*C0 for
// the bidiagonal matrix B = Q*S*Pᵀ (b dense, sv its computed singular values)
// whether or not U or VT were requested in the same call:
//
//   - definition, free of Q: gotᵀ*S^(2k)*got = C0ᵀ*(B*Bᵀ)^k*C0 for k = 0, 1, 2
//     (k = 0 is norm preservation; k >= 1 fails when Q was not applied);
//   - with the right singular vectors of the same call: Bᵀ*C0 = VTᵀ*S*got;
//   - with the left singular vectors of the same call: got = Uᵀ*C0;
//   - consistency with uref, the left singular vectors of a companion call that
//     accumulates U only (the rotations depend on d and e only).
func checkQtC(t *vlib.T, what string, b, c0, got M, sv []float64, u, vt, uref *M, dim float64, ctx string) {
	nb, nc := fro(b), fro(c0)
	sig := diagM(sv)
	lhsPow, rhsPow := got, c0
	for k := 0; k <= 2; k++ {
		if k > 0 {
			lhsPow = mul(mul(sig, sig), lhsPow)
			rhsPow = mul(b, mul(b.T(), rhsPow))
		}
		scale := nc * nc * math.Pow(nb, float64(2*k))
		chk(t, what+"-QtC-moment", ratio(fro(sub(mul(got.T(), lhsPow), mul(c0.T(), rhsPow))), dim, scale), thresh, fmt.Sprintf("%s k=%d", ctx, k))
	}
	if vt != nil {
		chk(t, what+"-BtC-VSQtC", ratio(fro(sub(mul(b.T(), c0), mul(vt.T(), mul(sig, got)))), dim, nb*nc), thresh, ctx)
	}
	if u != nil {
		chk(t, what+"-QtC-UtC", ratio(fro(sub(got, mul(u.T(), c0))), dim, nc), thresh, ctx)
	}
	if uref != nil {
		chk(t, what+"-QtC-vs-U-run", ratio(fro(sub(got, mul(uref.T(), c0))), dim, nc), thresh, ctx)
	}
}
