package main

import (
	"fmt"
	"math"

	"gonum.org/v1/gonum/internal/verif/vlib"
	"gonum.org/v1/gonum/lapack"
)

// ---------------------------------------------------------------------------
// Schur-form inputs built directly: every composition of n into blocks of
// order 1 and 2, standardised 2×2 blocks, integer upper part.

// compositions returns all block-size sequences (entries 1 or 2) summing to n.
func compositions(n int) [][]int {
	if n == 0 {
		return [][]int{{}}
	}
	var out [][]int
	for _, first := range []int{1, 2} {
		if first > n {
			continue
		}
		for _, rest := range compositions(n - first) {
			out = append(out, append([]int{first}, rest...))
		}
	}
	return out
}

// schurInput builds T for a block structure. fill 0: distinct eigenvalues;
// fill 1: repeated eigenvalues (equal diagonal entries / equal 2×2 blocks);
// fill 2: close eigenvalues (differences 2^-40) and a large strict upper part.
func schurInput(blocks []int, fill int) M {
	n := 0
	for _, b := range blocks {
		n += b
	}
	l := lcgFor(20+fill, n, len(blocks))
	t := newM(n, n)
	for i := 0; i < n; i++ {
		for j := i + 1; j < n; j++ {
			v := float64(l.Small(3))
			if fill == 2 {
				v *= 16
			}
			t.set(i, j, v)
		}
	}
	pos := 0
	for k, b := range blocks {
		var d float64
		switch fill {
		case 0:
			d = float64(2*k - len(blocks))
		case 1:
			d = float64(k % 2)
		default:
			d = 1 + float64(k)*0x1p-40
		}
		if b == 1 {
			t.set(pos, pos, d)
		} else {
			// [[d, x],[-y, d]] with x, y > 0: eigenvalues d +- i sqrt(xy)
			x, y := float64(1+k%3), float64(1+(k+1)%2)
			if fill == 1 {
				x, y = 2, 1
			}
			t.set(pos, pos, d)
			t.set(pos+1, pos+1, d)
			t.set(pos, pos+1, x)
			t.set(pos+1, pos, -y)
		}
		pos += b
	}
	return t
}

type blockEig struct {
	start, size int
	re, im      float64 // im >= 0
}

// blocksOf reads the diagonal block structure and eigenvalues of a quasi-triangular matrix.
func blocksOf(t M) []blockEig {
	var out []blockEig
	n := t.r
	for i := 0; i < n; {
		if i+1 < n && t.at(i+1, i) != 0 {
			a, b, c, d := t.at(i, i), t.at(i, i+1), t.at(i+1, i), t.at(i+1, i+1)
			// general 2×2 eigenvalues (the block is standardised in all valid outputs)
			tr, det := a+d, a*d-b*c
			disc := tr*tr/4 - det
			be := blockEig{start: i, size: 2, re: tr / 2}
			if disc < 0 {
				be.im = math.Sqrt(-disc)
			}
			out = append(out, be)
			i += 2
			continue
		}
		out = append(out, blockEig{start: i, size: 1, re: t.at(i, i)})
		i++
	}
	return out
}

func blockLabel(blocks []int) string {
	s := ""
	for _, b := range blocks {
		s += fmt.Sprint(b)
	}
	if s == "" {
		s = "-"
	}
	return s
}

// canonicalOK checks that tm is in Schur canonical form.
func canonicalOK(t *vlib.T, tm M, ctx string) bool {
	n := tm.r
	for i := 0; i < n; i++ {
		for j := 0; j+1 < i; j++ {
			if tm.at(i, j) != 0 {
				t.Failf("T[%d,%d]=%v below the first subdiagonal [%s]", i, j, tm.at(i, j), ctx)
				return false
			}
		}
	}
	for i := 0; i+1 < n; i++ {
		if tm.at(i+1, i) == 0 {
			continue
		}
		if i+2 < n && tm.at(i+2, i+1) != 0 {
			t.Failf("consecutive non-zero subdiagonal entries at %d, %d [%s]", i, i+1, ctx)
			return false
		}
		a, b, c, d := tm.at(i, i), tm.at(i, i+1), tm.at(i+1, i), tm.at(i+1, i+1)
		if a != d || !oppositeSigns(b, c) {
			t.Failf("2x2 block at %d not standardised: [[%v %v][%v %v]] [%s]", i, a, b, c, d, ctx)
			return false
		}
	}
	return true
}

// locTol is the tolerance with which an eigenvalue is recognised at its new
// position after a swap. The inputs have eigenvalues that are either equal,
// 2^-40 apart or at least 1 apart with |T| <= 200, swaps are backward stable, and the
// eigenvalue condition numbers of these 6×6 integer matrices are below 1e6, so
// a moved eigenvalue is reproduced to about 1e-9; a wrong block gives an error >= 2^-41 ~ 4.5e-13
// only in the "close" fill, which is therefore checked as a multiset only.
const locTol = 1e-7

// twinSchur is a real Schur form whose two 2×2 blocks carry (almost) the same,
// nearly defective complex eigenvalue pair 1 +- i*e1 and (1+e2) +- i*e1, coupled by
// entries of size big; Dlaexc rejects the exchange of such blocks in a good part
// of the cases. With pad > 0 a 1×1 block is put in front and one behind.
func twinSchur(e1, e2, big float64, trial, pad int) M {
	l := lcgFor(33, trial, pad)
	n := 4 + 2*pad
	t := newM(n, n)
	for i := 0; i < n; i++ {
		for j := i + 1; j < n; j++ {
			t.set(i, j, big*float64(int(l.Next()%2001)-1000)/700)
		}
	}
	o := pad
	for k, sh := range []float64{0, e2} {
		p := o + 2*k
		t.set(p, p, 1+sh)
		t.set(p+1, p+1, 1+sh)
		t.set(p, p+1, 1)
		t.set(p+1, p, -e1*e1)
	}
	if pad > 0 {
		t.set(0, 0, -3)
		t.set(n-1, n-1, 5)
	}
	return t
}

type twinCase struct {
	e1, e2, big float64
	trial, pad  int
}

func twinCases(g *vlib.G) []twinCase {
	var out []twinCase
	for _, e1 := range []float64{1e-6, 1e-8, 1e-10} {
		for _, e2 := range []float64{0, 1e-12, 1e-8} {
			for _, big := range []float64{1, 1e3} {
				for trial := 0; trial < p3(g, 4, 12, 30); trial++ {
					for _, pad := range []int{0, 1} {
						out = append(out, twinCase{e1, e2, big, trial, pad})
					}
				}
			}
		}
	}
	return out
}

func genDtrexc(g *vlib.G) {
	// magnitude ladder: Dtrexc/Dlaexc/Dlanv2/Dlasy2 get the matrix as it is
	for _, exp := range ladder(g, -900, -800, -500, -200, 200, 500, 800, 900) {
		for n := 2; n <= p3(g, 4, 5, 6); n++ {
			for _, blocks := range compositions(n) {
				for fill := 0; fill < 2; fill++ {
					exp, n, blocks, fill := exp, n, blocks, fill
					kase(g, fmt.Sprintf("Dtrexc n=%d blocks=%s fill=%d ld=n+2 scale=2^%d", n, blockLabel(blocks), fill, exp), func(t *vlib.T) {
						runDtrexc(t, n, blocks, fill, 2, exp, nil, false)
					})
				}
			}
		}
	}
	// rejection path: nearly defective twin blocks
	for _, c := range twinCases(g) {
		c := c
		kase(g, fmt.Sprintf("Dtrexc twins e1=%g e2=%g big=%g trial=%d pad=%d", c.e1, c.e2, c.big, c.trial, c.pad), func(t *vlib.T) {
			tm := twinSchur(c.e1, c.e2, c.big, c.trial, c.pad)
			runDtrexc(t, tm.r, nil, 3, c.trial%2*2, 0, &tm, true)
		})
	}
	lim := p3(g, 6, 8, 9)
	for n := 0; n <= lim; n++ {
		for _, blocks := range compositions(n) {
			for fill := 0; fill < 3; fill++ {
				for _, ldx := range []int{0, 2} {
					n, blocks, fill, ldx := n, blocks, fill, ldx
					if g.Stopped() {
						return
					}
					kase(g, fmt.Sprintf("Dtrexc n=%d blocks=%s fill=%d ld=n+%d", n, blockLabel(blocks), fill, ldx), func(t *vlib.T) {
						runDtrexc(t, n, blocks, fill, ldx, 0, nil, false)
					})
				}
			}
		}
	}
}

// runDtrexc: tIn overrides the generated Schur form; the input handed to Dtrexc
// is scaled by 2^exp and the result scaled back exactly; ill marks inputs with
// ill-conditioned (nearly defective, nearly equal) eigenvalues, for which the
// spectrum is only compared within the Ostrowski-Elsner bound and positions are not checked.
func runDtrexc(t *vlib.T, n int, blocks []int, fill, ldx, exp int, tIn *M, ill bool) {
	t0 := schurInput(blocks, fill)
	if tIn != nil {
		t0 = *tIn
	}
	sc := pow2(exp)
	nrm := fro(t0)
	tolLoc := locTol
	if ill {
		tolLoc = specTol(false, n, nrm)
	}
	dim := fmax(n)
	ld := ldOf(n, ldx)
	ldqq := ldOf(n, off(ldx, 1))
	q0 := randOrth(n, lcgFor(30, n, fill))
	a := conj(q0, t0) // the matrix whose Schur factorization is (q0, t0)
	b0 := blocksOf(t0)
	blockAt := func(bs []blockEig, row int) int {
		for k, b := range bs {
			if row >= b.start && row < b.start+b.size {
				return k
			}
		}
		return -1
	}
	nOK, nFail := 0, 0
	if n == 0 {
		i1, i2, ok := impl.Dtrexc(lapack.UpdateSchur, 0, nil, 1, nil, 1, 0, 0, nil)
		if !ok || i1 != 0 || i2 != 0 {
			t.Failf("n=0: got (%d,%d,%v)", i1, i2, ok)
		}
	}
	for ifst := 0; ifst < n; ifst++ {
		for ilst := 0; ilst < n; ilst++ {
			var tRef M
			for _, compq := range []lapack.UpdateSchurComp{lapack.UpdateSchur, lapack.UpdateSchurNone} {
				ctx := fmt.Sprintf("compq=%c ifst=%d ilst=%d", compq, ifst, ilst)
				ts := fromM(t0.scale(sc), ld).snap()
				var qs *S
				var qd []float64
				ldq := 1
				if compq == lapack.UpdateSchur {
					qs = fromM(q0, ldqq).snap()
					qd, ldq = qs.d, ldqq
				}
				fo, lo, ok := impl.Dtrexc(compq, n, ts.d, ld, qd, ldq, ifst, ilst, poisoned(n))
				if i, okp := ts.padOK(n, n); !okp {
					t.Failf("padding of t modified at flat index %d [%s]", i, ctx)
				}
				t1 := ts.toM().scale(1 / sc)
				if !canonicalOK(t, t1, ctx) {
					continue
				}
				kf := blockAt(b0, ifst)
				if fo != b0[kf].start {
					t.Failf("ifstOut=%d, want first row %d of the block containing ifst [%s]", fo, b0[kf].start, ctx)
				}
				if qs != nil {
					if i, okp := qs.padOK(n, n); !okp {
						t.Failf("padding of q modified at flat index %d [%s]", i, ctx)
					}
					q1 := qs.toM()
					chk(t, "trexc-QtQ-I", ratio(orthCols(q1), dim, 1), thresh, ctx)
					chk(t, "trexc-A-QTQt", ratio(fro(sub(a, conj(q1, t1))), dim, nrm), thresh, ctx)
					tRef = t1
				} else if tRef.a != nil {
					// the transformation of T must not depend on whether Q is updated
					if i, same := vlib.Same64(t1.a, tRef.a); !same {
						t.Failf("T differs between compq=V and compq=N at element %d [%s]", i, ctx)
					}
				}
				b1 := blocksOf(t1)
				if !ok {
					nFail++
					// partially reordered: only the multiset of eigenvalues is checked
				} else {
					nOK++
					if d := lo - ilst; d < -1 || d > 1 {
						t.Failf("ilstOut=%d differs from ilst=%d by more than 1 [%s]", lo, ilst, ctx)
					}
				}
				// multiset of eigenvalues preserved
				var r0, i0, r1, i1 []float64
				for _, b := range b0 {
					r0, i0 = append(r0, b.re), append(i0, b.im)
					if b.size == 2 {
						r0, i0 = append(r0, b.re), append(i0, -b.im)
					}
				}
				for _, b := range b1 {
					r1, i1 = append(r1, b.re), append(i1, b.im)
					if b.size == 2 {
						r1, i1 = append(r1, b.re), append(i1, -b.im)
					}
				}
				if d := matchDist(r0, i0, r1, i1); !(d <= tolLoc) {
					t.Failf("spectrum changed by %.3g [%s]", d, ctx)
				}
				if ok && fill != 2 && !ill {
					// the moved block now starts at ilstOut and the others keep their order
					kl := blockAt(b0, ilst)
					var want []blockEig
					for k, b := range b0 {
						if k != kf {
							want = append(want, b)
						}
					}
					ins := kl
					if kl > kf {
						ins = kl // after removal the target block index shifts down by one, the moved block goes after it
					}
					if ins > len(want) {
						ins = len(want)
					}
					want = append(want[:ins], append([]blockEig{b0[kf]}, want[ins:]...)...)
					// compare eigenvalue sequences row by row (a 2×2 block may have split into two 1×1 blocks)
					rowEig := func(bs []blockEig) (re, im []float64) {
						for _, b := range bs {
							re, im = append(re, b.re), append(im, b.im)
							if b.size == 2 {
								re, im = append(re, b.re), append(im, b.im)
							}
						}
						return
					}
					wr, wi := rowEig(want)
					gr, gi := rowEig(b1)
					for i := 0; i < n; i++ {
						if !(math.Hypot(wr[i]-gr[i], wi[i]-gi[i]) <= locTol) {
							t.Failf("row %d carries eigenvalue (%v,%v), expected (%v,%v) after the move [%s]", i, gr[i], gi[i], wr[i], wi[i], ctx)
							break
						}
					}
					kb := blockAt(b1, lo)
					if kb < 0 || b1[kb].start != lo && b1[kb].size == b0[kf].size {
						t.Failf("ilstOut=%d is not the first row of a block [%s]", lo, ctx)
					} else if !(math.Hypot(b1[kb].re-b0[kf].re, b1[kb].im-b0[kf].im) <= locTol) {
						t.Failf("block at ilstOut=%d has eigenvalue (%v,%v), moved block had (%v,%v) [%s]", lo, b1[kb].re, b1[kb].im, b0[kf].re, b0[kf].im, ctx)
					}
				}
			}
		}
	}
	t.Count("trexc_moves_ok", int64(nOK))
	t.Count("trexc_moves_refused", int64(nFail))
	if n >= 2 {
		t.Nontrivial()
	}
	t.Outcome(fmt.Sprintf("refused=%v", nFail > 0))
	_ = tolLoc
}

func genDlaexc(g *vlib.G) {
	for _, exp := range ladder(g, -900, -800, -500, -200, 200, 500, 800, 900) {
		for n := 2; n <= p3(g, 4, 5, 6); n++ {
			for _, blocks := range compositions(n) {
				for fill := 0; fill < 2; fill++ {
					exp, n, blocks, fill := exp, n, blocks, fill
					kase(g, fmt.Sprintf("Dlaexc n=%d blocks=%s fill=%d ld=n+2 scale=2^%d", n, blockLabel(blocks), fill, exp), func(t *vlib.T) {
						runDlaexc(t, n, blocks, fill, 2, exp, nil, false)
					})
				}
			}
		}
	}
	for _, c := range twinCases(g) {
		c := c
		kase(g, fmt.Sprintf("Dlaexc twins e1=%g e2=%g big=%g trial=%d pad=%d", c.e1, c.e2, c.big, c.trial, c.pad), func(t *vlib.T) {
			tm := twinSchur(c.e1, c.e2, c.big, c.trial, c.pad)
			runDlaexc(t, tm.r, nil, 3, c.trial%2*2, 0, &tm, true)
		})
	}
	lim := p3(g, 6, 8, 10)
	for n := 1; n <= lim; n++ {
		for _, blocks := range compositions(n) {
			for fill := 0; fill < 3; fill++ {
				for _, ldx := range []int{0, 2} {
					n, blocks, fill, ldx := n, blocks, fill, ldx
					if g.Stopped() {
						return
					}
					kase(g, fmt.Sprintf("Dlaexc n=%d blocks=%s fill=%d ld=n+%d", n, blockLabel(blocks), fill, ldx), func(t *vlib.T) {
						runDlaexc(t, n, blocks, fill, ldx, 0, nil, false)
					})
				}
			}
		}
	}
}

func runDlaexc(t *vlib.T, n int, blocks []int, fill, ldx, exp int, tIn *M, ill bool) {
	t0 := schurInput(blocks, fill)
	if tIn != nil {
		t0 = *tIn
	}
	sc := pow2(exp)
	nrm := fro(t0)
	dim := fmax(n)
	ld := ldOf(n, ldx)
	ldqq := ldOf(n, off(ldx, 1))
	q0 := randOrth(n, lcgFor(31, n, fill))
	a := conj(q0, t0)
	b0 := blocksOf(t0)
	nOK, nFail := 0, 0
	for k := 0; k+1 < len(b0); k++ {
		for _, wantq := range []bool{true, false} {
			j1, n1, n2 := b0[k].start, b0[k].size, b0[k+1].size
			ctx := fmt.Sprintf("wantq=%v j1=%d n1=%d n2=%d", wantq, j1, n1, n2)
			ts := fromM(t0.scale(sc), ld).snap()
			var qs *S
			var qd []float64
			ldq := 1
			if wantq {
				qs = fromM(q0, ldqq).snap()
				qd, ldq = qs.d, ldqq
			}
			ok := impl.Dlaexc(wantq, n, ts.d, ld, qd, ldq, j1, n1, n2, poisoned(n))
			if !ok {
				nFail++
				if n1 == 1 && n2 == 1 {
					t.Failf("swap of two 1x1 blocks refused [%s]", ctx)
				}
				if i, same := ts.unchanged(); !same {
					t.Failf("ok=false but t modified at flat index %d [%s]", i, ctx)
				}
				if qs != nil {
					if i, same := qs.unchanged(); !same {
						t.Failf("ok=false but q modified at flat index %d [%s]", i, ctx)
					}
				}
				continue
			}
			nOK++
			if i, okp := ts.padOK(n, n); !okp {
				t.Failf("padding of t modified at flat index %d [%s]", i, ctx)
			}
			t1 := ts.toM().scale(1 / sc)
			if !canonicalOK(t, t1, ctx) {
				continue
			}
			if qs != nil {
				if i, okp := qs.padOK(n, n); !okp {
					t.Failf("padding of q modified at flat index %d [%s]", i, ctx)
				}
				q1 := qs.toM()
				chk(t, "laexc-QtQ-I", ratio(orthCols(q1), dim, 1), thresh, ctx)
				chk(t, "laexc-A-QTQt", ratio(fro(sub(a, conj(q1, t1))), dim, nrm), thresh, ctx)
			}
			// rows outside the two blocks keep their diagonal blocks bit for bit
			for i := 0; i < n; i++ {
				if i >= j1 && i < j1+n1+n2 {
					continue
				}
				if t1.at(i, i) != t0.at(i, i) || (i+1 < n && (i+1 < j1 || i >= j1+n1+n2) && t1.at(i+1, i) != t0.at(i+1, i)) {
					t.Failf("diagonal block at row %d outside the swapped pair changed [%s]", i, ctx)
				}
			}
			if fill != 2 && !ill {
				b1 := blocksOf(t1.sub(j1, j1+n1+n2, j1, j1+n1+n2))
				// first the old second block (n2 rows), then the old first block (n1 rows)
				rowEig := func(bs []blockEig) (re, im []float64) {
					for _, b := range bs {
						re, im = append(re, b.re), append(im, b.im)
						if b.size == 2 {
							re, im = append(re, b.re), append(im, b.im)
						}
					}
					return
				}
				wr, wi := rowEig([]blockEig{b0[k+1], b0[k]})
				gr, gi := rowEig(b1)
				for i := range wr {
					if !(math.Hypot(wr[i]-gr[i], wi[i]-gi[i]) <= locTol) {
						t.Failf("after the swap row %d carries (%v,%v), expected (%v,%v) [%s]", j1+i, gr[i], gi[i], wr[i], wi[i], ctx)
						break
					}
				}
			}
		}
	}
	t.Count("laexc_swaps_ok", int64(nOK))
	t.Count("laexc_swaps_refused", int64(nFail))
	if n >= 2 {
		t.Nontrivial()
	}
	t.Outcome(fmt.Sprintf("refused=%v", nFail > 0))
}

// ---------------------------------------------------------------------------
// Dlanv2

var lanv2Alphabet = []float64{0, 1, -1, 2, -3, 0.5, 0x1p-30, -0x1p-30, 0x1p+30, 1 + 0x1p-40, 7, -0x1p+20}

func genDlanv2(g *vlib.G) {
	// magnitude ladder: a reduced alphabet times 2^e, checked after exact rescaling
	small := []float64{0, 1, -1, 2, -3, 0.5, 7, 1 + 0x1p-20}
	for _, exp := range ladder(g, -1000, -800, -500, -484, -200, 200, 487, 500, 800, 1000) {
		for _, a := range small {
			exp, a := exp, a
			kase(g, fmt.Sprintf("Dlanv2 a=%v*2^%d", a, exp), func(t *vlib.T) {
				sc := pow2(exp)
				kinds := map[string]int{}
				for _, b := range small {
					for _, c := range small {
						for _, d := range small {
							kinds[checkLanv2Scaled(t, a*sc, b*sc, c*sc, d*sc, sc)]++
						}
					}
				}
				t.Nontrivial()
				t.Outcome(fmt.Sprintf("real=%v complex=%v", kinds["real"] > 0, kinds["complex"] > 0))
			})
		}
	}
	for _, a := range lanv2Alphabet {
		for _, b := range lanv2Alphabet {
			a, b := a, b
			kase(g, fmt.Sprintf("Dlanv2 a=%v b=%v", a, b), func(t *vlib.T) {
				kinds := map[string]int{}
				for _, c := range lanv2Alphabet {
					for _, d := range lanv2Alphabet {
						kinds[checkLanv2(t, a, b, c, d)]++
					}
				}
				for k, v := range kinds {
					t.Count("lanv2_"+k, int64(v))
				}
				t.Nontrivial()
				t.Outcome(fmt.Sprintf("real=%v complex=%v", kinds["real"] > 0, kinds["complex"] > 0))
			})
		}
	}
}

func checkLanv2(t *vlib.T, a, b, c, d float64) string { return checkLanv2Scaled(t, a, b, c, d, 1) }

// checkLanv2Scaled calls Dlanv2 on the given (already scaled) entries and checks
// the results after dividing them by the power of two sc.
func checkLanv2Scaled(t *vlib.T, a, b, c, d, sc float64) string {
	aa, bb, cc, dd, rt1r, rt1i, rt2r, rt2i, cs, sn := impl.Dlanv2(a, b, c, d)
	a, b, c, d = a/sc, b/sc, c/sc, d/sc
	aa, bb, cc, dd, rt1r, rt1i, rt2r, rt2i = aa/sc, bb/sc, cc/sc, dd/sc, rt1r/sc, rt1i/sc, rt2r/sc, rt2i/sc
	ctx := fmt.Sprintf("c=%v d=%v -> aa=%v bb=%v cc=%v dd=%v rt1=(%v,%v) rt2=(%v,%v) cs=%v sn=%v", c, d, aa, bb, cc, dd, rt1r, rt1i, rt2r, rt2i, cs, sn)
	if !allFinite([]float64{aa, bb, cc, dd, rt1r, rt1i, rt2r, rt2i, cs, sn}) {
		t.Failf("non-finite output [%s]", ctx)
		return "bad"
	}
	nrm := math.Sqrt(a*a + b*b + c*c + d*d)
	chk(t, "lanv2-cs2+sn2", math.Abs(cs*cs+sn*sn-1)/eps, thresh, ctx)
	// [a b; c d] = R [aa bb; cc dd] Rᵀ with R = [cs -sn; sn cs]
	r := M{2, 2, []float64{cs, -sn, sn, cs}}
	got := mul(mul(r, M{2, 2, []float64{aa, bb, cc, dd}}), r.T())
	chk(t, "lanv2-similarity", ratio(fro(sub(got, M{2, 2, []float64{a, b, c, d}})), 2, nrm), thresh, ctx)
	if rt1r != aa || rt2r != dd {
		t.Failf("rt1r, rt2r != aa, dd [%s]", ctx)
	}
	if cc == 0 {
		if rt1i != 0 || rt2i != 0 {
			t.Failf("cc == 0 but imaginary parts non-zero [%s]", ctx)
		}
		return "real"
	}
	if aa != dd || !oppositeSigns(bb, cc) {
		t.Failf("cc != 0 but not standardised (aa == dd, bb*cc < 0) [%s]", ctx)
	}
	im := math.Sqrt(math.Abs(bb)) * math.Sqrt(math.Abs(cc))
	if !(rt1i > 0) || rt2i != -rt1i || !(math.Abs(rt1i-im) <= 8*eps*im) {
		t.Failf("imaginary parts (%v,%v), want +-%v [%s]", rt1i, rt2i, im, ctx)
	}
	return "complex"
}

// ---------------------------------------------------------------------------
// Dgebal / Dgebak

// sparseScaled is an integer matrix with about 40% non-zeros whose rows and
// columns are scaled by powers of two (so that Dgebal's scaling does something
// and all its arithmetic is exact).
func sparseScaled(n, seed int) M {
	l := lcgFor(40+seed, n, seed)
	m := newM(n, n)
	for i := 0; i < n; i++ {
		for j := 0; j < n; j++ {
			if l.Next()%5 < 2 || (i == j && seed%2 == 0) {
				m.set(i, j, float64(1+l.Next()%3)*float64(1-2*int(l.Next()&1)))
			}
		}
	}
	for i := 0; i < n; i++ {
		s := math.Ldexp(1, 6*((i+seed)%3)-6)
		for j := 0; j < n; j++ {
			m.set(i, j, m.at(i, j)*s)
			m.set(j, i, m.at(j, i)/s)
		}
	}
	return m
}

func genDgebal(g *vlib.G) {
	lim := p3(g, 6, 8, 10)
	seeds := p3(g, 12, 24, 40)
	for n := 0; n <= lim; n++ {
		for seed := 0; seed < seeds; seed++ {
			for _, job := range []lapack.BalanceJob{lapack.BalanceNone, lapack.Permute, lapack.Scale, lapack.PermuteScale} {
				for _, ldx := range []int{0, 2} {
					n, seed, job, ldx := n, seed, job, ldx
					kase(g, fmt.Sprintf("Dgebal n=%d seed=%d job=%c ld=n+%d", n, seed, job, ldx), func(t *vlib.T) {
						runDgebal(t, n, seed, job, ldx)
					})
				}
			}
		}
	}
}

func runDgebal(t *vlib.T, n, seed int, job lapack.BalanceJob, ldx int) {
	var a M
	switch {
	case seed == 0:
		a = nsReducible(n, n)
	case seed == 1:
		a = genJordanEps(n, n).T() // lower bidiagonal: a pure permutation makes it upper triangular
	default:
		a = sparseScaled(n, seed)
	}
	ld := ldOf(n, ldx)
	as := fromM(a, ld).snap()
	scale := poisoned(n)
	ilo, ihi := impl.Dgebal(job, n, as.d, ld, scale)
	if i, ok := as.padOK(n, n); !ok {
		t.Failf("padding modified at flat index %d", i)
	}
	if n == 0 {
		if ilo != 0 || ihi != -1 {
			t.Failf("n=0: ilo=%d ihi=%d, want 0,-1", ilo, ihi)
		}
		t.Outcome("empty")
		return
	}
	if hasNaN(scale) {
		t.Failf("scale left unset: %v", scale)
		return
	}
	if ilo < 0 || ihi >= n || ilo > ihi {
		t.Failf("ilo=%d ihi=%d out of range", ilo, ihi)
		return
	}
	if (job == lapack.BalanceNone || job == lapack.Scale) && (ilo != 0 || ihi != n-1) {
		t.Failf("job=%c: ilo=%d ihi=%d, want 0,%d", job, ilo, ihi, n-1)
	}
	b := as.toM()
	if job == lapack.BalanceNone {
		if i, same := as.unchanged(); !same {
			t.Failf("job=N modified a at flat index %d", i)
		}
		for i, s := range scale {
			if s != 1 {
				t.Failf("job=N: scale[%d]=%v", i, s)
			}
		}
	}
	// isolated eigenvalues: zero below the diagonal in columns < ilo and columns > ihi
	if job == lapack.Permute || job == lapack.PermuteScale {
		for i := 0; i < n; i++ {
			for j := 0; j < i; j++ {
				if (j < ilo || j > ihi) && b.at(i, j) != 0 {
					t.Failf("b[%d,%d]=%v, want 0 (ilo=%d ihi=%d)", i, j, b.at(i, j), ilo, ihi)
				}
				if i > ihi && b.at(i, j) != 0 {
					t.Failf("b[%d,%d]=%v in an isolated row, want 0 (ilo=%d ihi=%d)", i, j, b.at(i, j), ilo, ihi)
				}
			}
		}
	}
	for j := ilo; j <= ihi; j++ {
		fr, ex := math.Frexp(scale[j])
		if fr != 0.5 {
			t.Failf("scale[%d]=%v is not a power of two (exp %d)", j, scale[j], ex)
		}
	}
	// P*D and P*D^-1 from Dgebak applied to the identity.
	idm := eye(n)
	x := fromM(idm, ld).snap()
	impl.Dgebak(job, lapack.EVRight, n, ilo, ihi, scale, n, x.d, ld)
	y := fromM(idm, ld).snap()
	impl.Dgebak(job, lapack.EVLeft, n, ilo, ihi, scale, n, y.d, ld)
	if i, ok := x.padOK(n, n); !ok {
		t.Failf("Dgebak modified padding at flat index %d", i)
	}
	pd, pdi := x.toM(), y.toM()
	// generalized permutation matrices: one non-zero per row and column
	for i := 0; i < n; i++ {
		nzr, nzc := 0, 0
		for j := 0; j < n; j++ {
			if pd.at(i, j) != 0 {
				nzr++
			}
			if pd.at(j, i) != 0 {
				nzc++
			}
		}
		if nzr != 1 || nzc != 1 {
			t.Failf("Dgebak(I) is not a scaled permutation: row %d has %d, column %d has %d non-zeros", i, nzr, i, nzc)
			return
		}
	}
	// A (P D) == (P D) B exactly: every product has a single non-zero term and
	// the scale factors are powers of two.
	lhs, rhs := mul(a, pd), mul(pd, b)
	for i := range lhs.a {
		if lhs.a[i] != rhs.a[i] {
			t.Failf("A*(P*D) != (P*D)*B at element %d: %v vs %v (job=%c ilo=%d ihi=%d scale=%v)", i, lhs.a[i], rhs.a[i], job, ilo, ihi, scale)
			break
		}
	}
	// (P D^-1)ᵀ (P D) == I exactly
	prod := mul(pdi.T(), pd)
	for i := range prod.a {
		if prod.a[i] != idm.a[i] {
			t.Failf("(P*inv(D))ᵀ*(P*D) != I at element %d: %v", i, prod.a[i])
			break
		}
	}
	// Dgebak on a general n×3 matrix equals the explicit product.
	v := intGeneral(n, 3, 3, lcgFor(41, n, seed))
	for _, side := range []lapack.EVSide{lapack.EVRight, lapack.EVLeft} {
		vs := fromM(v, 3+ldx).snap()
		impl.Dgebak(job, side, n, ilo, ihi, scale, 3, vs.d, 3+ldx)
		if i, ok := vs.padOK(n, 3); !ok {
			t.Failf("Dgebak modified padding of v at flat index %d", i)
		}
		op := pd
		if side == lapack.EVLeft {
			op = pdi
		}
		want := mul(op, v)
		got := vs.toM()
		for i := range want.a {
			if want.a[i] != got.a[i] {
				t.Failf("Dgebak side=%c: element %d = %v, want %v", side, i, got.a[i], want.a[i])
				break
			}
		}
	}
	scaledAny := false
	for j := ilo; j <= ihi; j++ {
		if scale[j] != 1 {
			scaledAny = true
		}
	}
	if n >= 2 {
		t.Nontrivial()
	}
	t.Outcome(fmt.Sprintf("isolated=%v scaled=%v", ilo > 0 || ihi < n-1, scaledAny))
}

// ---------------------------------------------------------------------------
// Dtrevc3

func genDtrevc3(g *vlib.G) {
	for _, exp := range ladder(g, -800, -500, -200, 200, 500, 800) {
		for n := 2; n <= p3(g, 3, 4, 5); n++ {
			for _, blocks := range compositions(n) {
				exp, n, blocks := exp, n, blocks
				kase(g, fmt.Sprintf("Dtrevc3 n=%d blocks=%s fill=0 prof=nb2 ld=+2 scale=2^%d", n, blockLabel(blocks), exp), func(t *vlib.T) {
					runDtrevc3(t, n, blocks, 0, profiles[0], 2, false, exp)
				})
			}
		}
	}
	lim := p3(g, 5, 6, 7)
	profs := []prof{profiles[0], profiles[1], profiles[2]}
	for n := 0; n <= lim; n++ {
		for _, blocks := range compositions(n) {
			for fill := 0; fill < 3; fill++ {
				for _, p := range profs {
					for _, ldx := range []int{0, 2} {
						n, blocks, fill, p, ldx := n, blocks, fill, p, ldx
						if g.Stopped() {
							return
						}
						kase(g, fmt.Sprintf("Dtrevc3 n=%d blocks=%s fill=%d prof=%s ld=+%d", n, blockLabel(blocks), fill, p.name, ldx), func(t *vlib.T) {
							runDtrevc3(t, n, blocks, fill, p, ldx, false, 0)
						})
					}
				}
			}
		}
	}
	// Longer quasi-triangular matrices whose block pattern makes the blocked
	// back-transformation (nb = 8 or 9 columns, obtained with lwork = 17n, 19n+1)
	// fill its buffer exactly before / in the middle of a complex pair: r real
	// eigenvalues at one end, pairs elsewhere, both orientations.
	for n := 9; n <= p3(g, 11, 13, 16); n++ {
		for r := 0; r <= n; r++ {
			for _, realsLast := range []bool{true, false} {
				var blocks []int
				rest := n - r
				for i := 0; i < rest/2; i++ {
					blocks = append(blocks, 2)
				}
				if rest%2 == 1 {
					blocks = append(blocks, 1)
				}
				reals := make([]int, r)
				for i := range reals {
					reals[i] = 1
				}
				if realsLast {
					blocks = append(blocks, reals...)
				} else {
					blocks = append(reals, blocks...)
				}
				n, blocks := n, blocks
				if g.Stopped() {
					return
				}
				kase(g, fmt.Sprintf("Dtrevc3 n=%d blocks=%s long", n, blockLabel(blocks)), func(t *vlib.T) {
					runDtrevc3(t, n, blocks, 0, profiles[0], 1, true, 0)
				})
			}
		}
	}
}

func runDtrevc3(t *vlib.T, n int, blocks []int, fill int, p prof, ldx int, long bool, exp int) {
	sc := pow2(exp)
	log, restore := p.install()
	defer restore()
	tm := schurInput(blocks, fill)
	nrm := fro(tm)
	dim := fmax(n)
	ldt := ldOf(n, ldx)
	q0 := randOrth(n, lcgFor(32, n, fill))
	a := conj(q0, tm)
	// eigenvalues as documented: read from the diagonal blocks
	wr, wi := make([]float64, n), make([]float64, n)
	for _, b := range blocksOf(tm) {
		wr[b.start] = b.re
		if b.size == 2 {
			wr[b.start+1] = b.re
			wi[b.start], wi[b.start+1] = b.im, -b.im
		}
	}
	blockedRuns := 0
	sides := []lapack.EVSide{lapack.EVRight, lapack.EVLeft, lapack.EVBoth}
	// howmny == All and AllMulQ with several workspace sizes
	for _, side := range sides {
		for _, how := range []lapack.EVHowMany{lapack.EVAll, lapack.EVAllMulQ} {
			for _, lw := range []string{"min", "query", "17n", "19n+1"} {
				ctx := fmt.Sprintf("side=%c howmny=%c lwork=%s", side, how, lw)
				ts := fromM(tm.scale(sc), ldt).snap()
				var vls, vrs *S
				var vld, vrd []float64
				ldvl, ldvr := 1, 1
				mk := func(ldv int) *S {
					if how == lapack.EVAllMulQ {
						return fromM(q0, ldv).snap()
					}
					return newS(n, n, ldv).snap()
				}
				if side != lapack.EVRight {
					ldvl = ldOf(n, off(ldx, 1))
					vls = mk(ldvl)
					vld = vls.d
				}
				if side != lapack.EVLeft {
					ldvr = ldOf(n, off(ldx, 2))
					vrs = mk(ldvr)
					vrd = vrs.d
				}
				lwork := max(1, 3*n)
				switch lw {
				case "query":
					v, ok := queryLwork(t, "Dtrevc3", 1, func(w []float64) {
						impl.Dtrevc3(side, how, nil, n, ts.d, ldt, vld, ldvl, vrd, ldvr, n, w, -1)
					})
					if !ok {
						return
					}
					lwork = max(lwork, v)
				case "17n":
					lwork = max(lwork, 17*n)
				case "19n+1":
					lwork = max(lwork, 19*n+1)
				}
				if how == lapack.EVAllMulQ && lwork >= 17*n && n > 0 {
					blockedRuns++
				}
				m := impl.Dtrevc3(side, how, nil, n, ts.d, ldt, vld, ldvl, vrd, ldvr, n, poisoned(lwork), lwork)
				if m != n {
					t.Failf("returned m=%d, want %d [%s]", m, n, ctx)
				}
				if i, same := ts.unchanged(); !same {
					t.Failf("t modified at flat index %d [%s]", i, ctx)
				}
				target := tm
				if how == lapack.EVAllMulQ {
					target = a
				}
				checkEvecs(t, target, nrm, dim, vrs, vls, wr, wi, nil, ctx)
			}
		}
	}
	// howmny == Selected: every selection
	for sel := 0; sel < 1<<uint(n) && !long; sel++ {
		for _, side := range sides {
			ctx := fmt.Sprintf("side=%c howmny=S selected=%0*b", side, n, sel)
			selected := make([]bool, n)
			for i := range selected {
				selected[i] = sel&(1<<uint(i)) != 0
			}
			// expected standardised selection and column count
			want := make([]bool, n)
			cols := []int{} // eigenvalue index of every output column
			for _, b := range blocksOf(tm) {
				if b.size == 1 {
					if selected[b.start] {
						want[b.start] = true
						cols = append(cols, b.start)
					}
				} else if selected[b.start] || selected[b.start+1] {
					want[b.start] = true
					cols = append(cols, b.start, b.start+1)
				}
			}
			mm := len(cols)
			ts := fromM(tm.scale(sc), ldt).snap()
			var vls, vrs *S
			var vld, vrd []float64
			ldvl, ldvr := 1, 1
			if side != lapack.EVRight {
				ldvl = max(1, mm) + off(ldx, 1)
				vls = newS(n, mm, ldvl).snap()
				vld = vls.d
			}
			if side != lapack.EVLeft {
				ldvr = max(1, mm) + off(ldx, 2)
				vrs = newS(n, mm, ldvr).snap()
				vrd = vrs.d
			}
			lwork := max(1, 3*n)
			m := impl.Dtrevc3(side, lapack.EVSelected, selected, n, ts.d, ldt, vld, ldvl, vrd, ldvr, mm, poisoned(lwork), lwork)
			if m != mm {
				t.Failf("returned m=%d, want %d [%s]", m, mm, ctx)
				continue
			}
			for i := range want {
				if selected[i] != want[i] {
					t.Failf("selected on return = %v, want %v [%s]", selected, want, ctx)
					break
				}
			}
			if i, same := ts.unchanged(); !same {
				t.Failf("t modified at flat index %d [%s]", i, ctx)
			}
			checkEvecs(t, tm, nrm, dim, vrs, vls, wr, wi, cols, ctx)
		}
	}
	if n >= 2 {
		t.Nontrivial()
	}
	t.Outcome(fmt.Sprintf("blocked-backtransform=%v", blockedRuns > 0))
	t.Detail(map[string]any{"ilaenv": log.String()})
}

// checkEvecs checks the columns of vrs / vls as eigenvectors of target. cols
// maps output columns to eigenvalue indices (nil: identity).
func checkEvecs(t *vlib.T, target M, nrm, dim float64, vrs, vls *S, wr, wi []float64, cols []int, ctx string) {
	n := target.r
	if cols == nil {
		cols = vlib.Ints(0, n-1)
	}
	cwr, cwi := make([]float64, len(cols)), make([]float64, len(cols))
	for c, e := range cols {
		cwr[c], cwi[c] = wr[e], wi[e]
	}
	for side, vs := range []*S{vrs, vls} {
		if vs == nil {
			continue
		}
		name := []string{"vr", "vl"}[side]
		if i, ok := vs.padOK(n, len(cols)); !ok {
			t.Failf("padding of %s modified at flat index %d [%s]", name, i, ctx)
		}
		v := vs.toM()
		for j := 0; j < len(cols); j++ {
			c := fmt.Sprintf("%s %s[:,%d] lambda=(%v,%v)", ctx, name, j, cwr[j], cwi[j])
			resid, norm, _ := evecResidCols(target, v, cwr, cwi, j, side == 1)
			chk(t, "trevc3-Tx-lx-"+name, ratio(resid, dim, nrm*norm), thresh, c)
			// normalisation: the element of largest magnitude |x|+|y| has magnitude 1
			var big float64
			for k := 0; k < n; k++ {
				mag := math.Abs(v.at(k, j))
				if cwi[j] != 0 {
					mag += math.Abs(v.at(k, j+1))
				}
				if mag > big || math.IsNaN(mag) {
					big = mag
				}
			}
			chk(t, "trevc3-maxnorm1-"+name, math.Abs(big-1)/(dim*eps), thresh, c)
			if cwi[j] != 0 {
				j++
			}
		}
	}
}

// evecResidCols is evecResid for a rectangular vector matrix.
func evecResidCols(a M, v M, wr, wi []float64, j int, left bool) (resid, norm float64, _ bool) {
	n := a.r
	op := a
	if left {
		op = a.T()
	}
	x := v.sub(0, n, j, j+1)
	if wi[j] == 0 {
		return fro(sub(mul(op, x), x.scale(wr[j]))), fro(x), true
	}
	y := v.sub(0, n, j+1, j+2)
	im := wi[j]
	if left {
		im = -im
	}
	r1 := sub(mul(op, x), sub(x.scale(wr[j]), y.scale(im)))
	r2 := sub(mul(op, y), sub(y.scale(wr[j]), x.scale(-im)))
	return math.Hypot(fro(r1), fro(r2)), math.Hypot(fro(x), fro(y)), true
}
