package main

import (
	"fmt"
	"math"
	"strings"
	"sync"

	"gonum.org/v1/gonum/blas"

	"gonum.org/v1/gonum/internal/verif/vlib"
	"gonum.org/v1/gonum/lapack"
)

// gsvdFamilies: pairs (A m×n, B p×n).
type gsvdFam struct {
	name string
	gen  func(m, p, n int) (M, M)
}

var gsvdFams = []gsvdFam{
	{"int", func(m, p, n int) (M, M) {
		return intGeneral(m, n, 3, lcgFor(50, m, n)), intGeneral(p, n, 3, lcgFor(51, p, n))
	}},
	{"rankdef", func(m, p, n int) (M, M) { return genRank1(m, n), genRank1(p, n).scale(2) }},
	{"eye-int", func(m, p, n int) (M, M) { return eyeRC(m, n), intGeneral(p, n, 2, lcgFor(52, p, n)) }},
	{"zeroA", func(m, p, n int) (M, M) { return zeros(m, n), intGeneral(p, n, 2, lcgFor(53, p, n)) }},
	{"zeroB", func(m, p, n int) (M, M) { return intGeneral(m, n, 2, lcgFor(54, m, n)), zeros(p, n) }},
	{"graded", func(m, p, n int) (M, M) { return genGraded(m, n), genOrthDiag(p, n) }},
	// column j of both matrices is of size 2^(-6j): a column-pivoted QR keeps the
	// natural order, so the results do not depend on whether Dggsvp3 pivots
	{"colgraded", func(m, p, n int) (M, M) { return colGraded(m, n, 55), colGraded(p, n, 56) }},
	// magnitude ladders across the two rank thresholds tola ~ |A|*eps and tolb ~ |B|*eps:
	// one matrix is 2^40 times an integer matrix, the other has rows of size
	// 1, 2^-10, 2^-20, ... (all of them far above its own threshold, most of them
	// below the threshold of the big matrix)
	{"Abig-Brows", func(m, p, n int) (M, M) { return colGraded(m, n, 57).scale(0x1p+40), rowLadder(p, n, 58) }},
	{"Bbig-Arows", func(m, p, n int) (M, M) { return rowLadder(m, n, 59), colGraded(p, n, 60).scale(0x1p+40) }},
	{"int@2^-400", func(m, p, n int) (M, M) {
		return intGeneral(m, n, 3, lcgFor(50, m, n)).scale(0x1p-400), intGeneral(p, n, 3, lcgFor(51, p, n)).scale(0x1p-400)
	}},
	{"int@2^400", func(m, p, n int) (M, M) {
		return intGeneral(m, n, 3, lcgFor(50, m, n)).scale(0x1p+400), intGeneral(p, n, 3, lcgFor(51, p, n)).scale(0x1p+400)
	}},
	{"Asmall-Brows", func(m, p, n int) (M, M) {
		return intGeneral(m, n, 3, lcgFor(61, m, n)).scale(0x1p-40), rowLadder(p, n, 62).scale(0x1p+10)
	}},
}

// rowLadder is colGraded (column pivoting is a no-op) with row i additionally
// scaled by 2^(-10*min(i,4)).
func rowLadder(r, c, seed int) M {
	m := colGraded(r, c, seed)
	for i := 0; i < r; i++ {
		for j := 0; j < c; j++ {
			m.set(i, j, math.Ldexp(m.at(i, j), -10*min(i, 4)))
		}
	}
	return m
}

// colGraded has non-zero integer entries in {±1, ±2, ±3} times 2^(-6j) in column j.
func colGraded(r, c, seed int) M {
	l := lcgFor(seed, r, c)
	m := newM(r, c)
	for i := 0; i < r; i++ {
		for j := 0; j < c; j++ {
			v := float64(1+l.Next()%3) * float64(1-2*int(l.Next()&1))
			m.set(i, j, math.Ldexp(v, -6*j))
		}
	}
	return m
}

// wideShapes are (m, p, n) with n > m+p and m >= 2: Dggsvp3 then has n-l > k >= 2,
// the branch that RQ-factors [T11 T12] and updates Q with its reflectors.
func wideShapes(level int) [][3]int {
	s := [][3]int{{2, 0, 5}, {2, 1, 5}, {3, 1, 6}, {3, 2, 8}, {2, 2, 7}, {3, 0, 5}, {4, 1, 8}, {3, 3, 9}, {2, 1, 6}}
	if level >= 1 {
		for m := 2; m <= 3+level; m++ {
			for p := 0; p <= 3; p++ {
				for n := m + p + 1; n <= m+p+3; n++ {
					s = append(s, [3]int{m, p, n + 3})
				}
			}
		}
	}
	return s
}

func genDggsvd3(g *vlib.G) {
	lim := p3(g, 4, 5, 6)
	fams := gsvdFams
	for m := 0; m <= lim; m++ {
		for p := 0; p <= lim; p++ {
			for n := 0; n <= lim; n++ {
				for _, f := range fams {
					for _, ldx := range []int{0, 2} {
						m, p, n, f, ldx := m, p, n, f, ldx
						if g.Stopped() {
							return
						}
						kase(g, fmt.Sprintf("Dggsvd3 m=%d p=%d n=%d fam=%s ld=+%d", m, p, n, f.name, ldx), func(t *vlib.T) {
							runDggsvd3(t, m, p, n, f, ldx)
						})
					}
				}
			}
		}
	}
	for _, s := range wideShapes(lvl(g)) {
		for _, f := range fams {
			for _, ldx := range []int{0, 2} {
				s, f, ldx := s, f, ldx
				kase(g, fmt.Sprintf("Dggsvd3 m=%d p=%d n=%d fam=%s ld=+%d wide", s[0], s[1], s[2], f.name, ldx), func(t *vlib.T) {
					runDggsvd3(t, s[0], s[1], s[2], f, ldx)
				})
			}
		}
	}
	// a few larger shapes with stock parameters
	shapes := [][3]int{{8, 6, 7}, {6, 9, 8}, {12, 12, 12}, {5, 20, 9}, {20, 5, 9}}
	if lvl(g) >= 1 {
		shapes = append(shapes, [3]int{40, 35, 33}, [3]int{33, 40, 45}, [3]int{70, 10, 40})
	}
	for _, s := range shapes {
		for _, f := range fams[:2] {
			s, f := s, f
			kase(g, fmt.Sprintf("Dggsvd3 m=%d p=%d n=%d fam=%s ld=+%d", s[0], s[1], s[2], f.name, 1), func(t *vlib.T) {
				runDggsvd3(t, s[0], s[1], s[2], f, 1)
			})
		}
	}
}

// gsvdExpected builds [0 R], D1, D2 from the outputs exactly as the
// documentation of Dggsvd3/Dtgsja lays them out.
func gsvdExpected(m, p, n, k, l int, a, b M, alpha, beta []float64) (zeroR, d1, d2 M) {
	kl := k + l
	zeroR = newM(kl, n)
	// R (or its first m rows) is stored in A[0:min(m,k+l), n-k-l:n]
	for i := 0; i < min(m, kl); i++ {
		for j := 0; j < kl; j++ {
			zeroR.set(i, n-kl+j, a.at(i, n-kl+j))
		}
	}
	if m < kl {
		// R33 is stored in B[m-k:l, n+m-k-l:n]
		for i := m; i < kl; i++ {
			for j := m; j < kl; j++ {
				zeroR.set(i, n-kl+j, b.at(i-k, n-kl+j))
			}
		}
	}
	d1 = newM(m, kl)
	for i := 0; i < k && i < m; i++ {
		d1.set(i, i, 1)
	}
	for i := k; i < min(m, kl); i++ {
		d1.set(i, i, alpha[i])
	}
	d2 = newM(p, kl)
	for i := 0; i < min(l, m-k); i++ {
		d2.set(i, k+i, beta[k+i])
	}
	for i := max(0, m-k); i < l; i++ {
		d2.set(i, k+i, 1)
	}
	return
}

func runDggsvd3(t *vlib.T, m, p, n int, f gsvdFam, ldx int) {
	f0 := nFindings
	a, b := f.gen(m, p, n)
	na, nb := fro(a), fro(b)
	dim := fmax(m, p, n)
	lda, ldb := ldOf(n, off(ldx, 0)), ldOf(n, off(ldx, 1))
	type result struct {
		k, l        int
		alpha, beta []float64
		u, v, q     M
	}
	var ref *result
	outcome := ""
	for jobs := 7; jobs >= 0; jobs-- {
		jobU, jobV, jobQ := lapack.GSVDNone, lapack.GSVDNone, lapack.GSVDNone
		if jobs&4 != 0 {
			jobU = lapack.GSVDU
		}
		if jobs&2 != 0 {
			jobV = lapack.GSVDV
		}
		if jobs&1 != 0 {
			jobQ = lapack.GSVDQ
		}
		ctx := fmt.Sprintf("jobU=%c jobV=%c jobQ=%c", jobU, jobV, jobQ)
		as, bs := fromM(a, lda).snap(), fromM(b, ldb).snap()
		var us, vs, qs *S
		var ud, vd, qd []float64
		ldu, ldv, ldq := 1, 1, 1
		if jobU == lapack.GSVDU {
			ldu = ldOf(m, off(ldx, 2))
			us = newS(m, m, ldu).snap()
			ud = us.d
		}
		if jobV == lapack.GSVDV {
			ldv = ldOf(p, off(ldx, 3))
			vs = newS(p, p, ldv).snap()
			vd = vs.d
		}
		if jobQ == lapack.GSVDQ {
			ldq = ldOf(n, off(ldx, 4))
			qs = newS(n, n, ldq).snap()
			qd = qs.d
		}
		alpha, beta := poisoned(n), poisoned(n)
		iwork := make([]int, n)
		for i := range iwork {
			iwork[i] = -7
		}
		lwork, ok := queryLwork(t, "Dggsvd3", 1, func(w []float64) {
			impl.Dggsvd3(jobU, jobV, jobQ, m, n, p, as.d, lda, bs.d, ldb, alpha, beta, ud, ldu, vd, ldv, qd, ldq, w, -1, iwork)
		})
		if !ok {
			return
		}
		if i, same := as.unchanged(); !same {
			t.Failf("workspace query modified a at flat index %d [%s]", i, ctx)
		}
		var k, l int
		var conv bool
		if msg := catch(func() {
			k, l, conv = impl.Dggsvd3(jobU, jobV, jobQ, m, n, p, as.d, lda, bs.d, ldb, alpha, beta, ud, ldu, vd, ldv, qd, ldq, poisoned(lwork), lwork, iwork)
		}); msg != "" {
			if m == 0 && n > 0 && strings.Contains(msg, "slice bounds out of range") {
				finding(t, "dggsvd3-m0-slice-panic", "Dggsvd3 with m=0 (A has no rows) n=%d p=%d panics: %s %s [%s]", n, p, msg, lastStack, ctx)
			} else {
				t.FailClass("unexpected-panic", "Dggsvd3 panicked: %s [%s lwork=%d] %s", msg, ctx, lwork, lastStack)
			}
			continue
		}
		if !conv {
			t.Failf("Dggsvd3 did not converge [%s]", ctx)
			continue
		}
		for name, s := range map[string]*S{"a": as, "b": bs, "u": us, "v": vs, "q": qs} {
			if s == nil {
				continue
			}
			if i, ok := s.padOK(s.r, s.c); !ok {
				t.Failf("padding of %s modified at flat index %d [%s]", name, i, ctx)
			}
		}
		if k < 0 || l < 0 || k+l > n || l > p || k > m+p {
			t.Failf("k=%d l=%d out of range [%s]", k, l, ctx)
			continue
		}
		if hasNaN(alpha) || hasNaN(beta) {
			t.Failf("alpha/beta left unset: %v %v [%s]", alpha, beta, ctx)
			continue
		}
		outcome = fmt.Sprintf("m-k-l>=0:%v k>0:%v l>0:%v rqA(k>=2):%v", m-k-l >= 0, k > 0, l > 0, n-l > k && k >= 2)
		if jobs == 7 {
			countRQ(t, a, b, n, k, l)
		}
		checkGsvdRanks(t, a, b, k, l, ctx)
		// documented values of alpha and beta
		for i := 0; i < n; i++ {
			var wa, wb float64
			exact := true
			switch {
			case i < k:
				wa, wb = 1, 0
			case i < min(m, k+l):
				exact = false
			case i < k+l:
				wa, wb = 0, 1
			default:
				wa, wb = 0, 0
			}
			if exact {
				if alpha[i] != wa || beta[i] != wb {
					t.Failf("(alpha,beta)[%d]=(%v,%v), want (%v,%v) (k=%d l=%d) [%s]", i, alpha[i], beta[i], wa, wb, k, l, ctx)
				}
				continue
			}
			if !(alpha[i] >= 0 && beta[i] >= 0) {
				t.Failf("(alpha,beta)[%d]=(%v,%v) negative [%s]", i, alpha[i], beta[i], ctx)
			}
			chk(t, "ggsvd3-a2+b2-1", math.Abs(alpha[i]*alpha[i]+beta[i]*beta[i]-1)/(dim*eps), thresh, ctx)
		}
		// iwork: swapping i <-> iwork[i] in sequence sorts alpha[k:min(m,k+l)] descending
		{
			al := append([]float64(nil), alpha...)
			good := true
			for i := k; i < min(m, k+l); i++ {
				j := iwork[i]
				if j < i || j >= min(m, k+l) {
					t.Failf("iwork[%d]=%d out of range [%d,%d) [%s]", i, j, i, min(m, k+l), ctx)
					good = false
					break
				}
				al[i], al[j] = al[j], al[i]
			}
			for i := k + 1; good && i < min(m, k+l); i++ {
				if !(al[i-1] >= al[i]) {
					t.Failf("iwork does not sort alpha descending: %v -> %v [%s]", alpha, al, ctx)
					break
				}
			}
		}
		cur := &result{k: k, l: l, alpha: alpha, beta: beta}
		if us != nil {
			cur.u = us.toM()
		}
		if vs != nil {
			cur.v = vs.toM()
		}
		if qs != nil {
			cur.q = qs.toM()
		}
		if ref == nil {
			ref = cur
		} else {
			// a factor computed with fewer job flags is the same sequence of
			// operations: it must agree with the factor of the all-vectors run
			for name, pair := range map[string][2]M{"U": {cur.u, ref.u}, "V": {cur.v, ref.v}, "Q": {cur.q, ref.q}} {
				if pair[0].a != nil && pair[1].a != nil && cur.k == ref.k && cur.l == ref.l {
					chk(t, "ggsvd3-factor-vs-all-vectors-run", ratio(fro(sub(pair[0], pair[1])), dim, 1), thresh, ctx+" "+name)
				}
			}
			if cur.k != ref.k || cur.l != ref.l {
				t.Failf("(k,l)=(%d,%d) differs from (%d,%d) obtained with all vectors [%s]", k, l, ref.k, ref.l, ctx)
			} else if !(maxDiff(alpha, ref.alpha) <= thresh*eps && maxDiff(beta, ref.beta) <= thresh*eps) {
				t.Failf("alpha/beta differ from the all-vectors run: %v %v vs %v %v [%s]", alpha, beta, ref.alpha, ref.beta, ctx)
			}
		}
		if us != nil {
			chk(t, "ggsvd3-UtU-I", ratio(orthCols(us.toM()), dim, 1), thresh, ctx)
		}
		if vs != nil {
			chk(t, "ggsvd3-VtV-I", ratio(orthCols(vs.toM()), dim, 1), thresh, ctx)
		}
		if qs != nil {
			chk(t, "ggsvd3-QtQ-I", ratio(orthCols(qs.toM()), dim, 1), thresh, ctx)
		}
		zeroR, d1, d2 := gsvdExpected(m, p, n, k, l, as.toM(), bs.toM(), alpha, beta)
		// R is upper triangular as stored
		for i := 0; i < k+l; i++ {
			for j := 0; j < i; j++ {
				if zeroR.at(i, n-k-l+j) != 0 {
					t.Failf("R[%d,%d]=%v below the diagonal [%s]", i, j, zeroR.at(i, n-k-l+j), ctx)
				}
			}
		}
		if us != nil && qs != nil {
			got := mul(mul(us.toM().T(), a), qs.toM())
			chk(t, "ggsvd3-UtAQ-D1R", ratio(fro(sub(got, mul(d1, zeroR))), dim, na), thresh, ctx)
		}
		if vs != nil && qs != nil {
			got := mul(mul(vs.toM().T(), b), qs.toM())
			chk(t, "ggsvd3-VtBQ-D2R", ratio(fro(sub(got, mul(d2, zeroR))), dim, nb), thresh, ctx)
		}
	}
	if min(m, p, n) >= 2 {
		t.Nontrivial()
	}
	t.Outcome(outcome)
	if t.Failed() {
		gsvdAttribute(t, a, b, f0)
	}
}

// gsvdAttribute attaches the inputs of a failed GSVD case.
func gsvdAttribute(t *vlib.T, a, b M, findingsBefore int) {
	if nFindings == findingsBefore && ggsvp3PivotBroken() && pivotingMatters(a, b) {
		// No rank mismatch was seen, but the tree under test has the no-pivoting
		// defect (probe below) and for this input a column-pivoted QR of B, or of the
		// block A11 that Dggsvp3 factors next, would have permuted columns: the
		// unpivoted factorization breaks the documented structure although the ranks
		// come out right by accident, e.g. A = [1 0 0; 0 1 0], B = [-2 0 0]. Inputs
		// for which pivoting is a no-op in both stages are never attributed.
		finding(t, "dggsvp3-no-pivoting", "failure without rank mismatch; Dggsvp3 of this tree does not pivot (probe) and pivoting would permute columns for this input: attributed")
	}
	if a.r*a.c+b.r*b.c <= 64 {
		t.Detail(map[string]any{"a": fmt.Sprint(a.a), "b": fmt.Sprint(b.a)})
		t.Failf("inputs: A(%dx%d)=%v B(%dx%d)=%v", a.r, a.c, a.a, b.r, b.c, b.a)
	}
}

// ---------------------------------------------------------------------------
// Dggsvp3 alone

func genDggsvp3(g *vlib.G) {
	lim := p3(g, 4, 5, 6)
	for m := 0; m <= lim; m++ {
		for p := 0; p <= lim; p++ {
			for n := 0; n <= lim; n++ {
				for _, f := range gsvdFams {
					for _, lw := range []string{"query", "query+5"} {
						m, p, n, f, lw := m, p, n, f, lw
						if g.Stopped() {
							return
						}
						kase(g, fmt.Sprintf("Dggsvp3 m=%d p=%d n=%d fam=%s lwork=%s", m, p, n, f.name, lw), func(t *vlib.T) {
							runDggsvp3(t, m, p, n, f, lw)
						})
					}
				}
			}
		}
	}
	for _, sh := range wideShapes(lvl(g)) {
		for _, f := range gsvdFams {
			sh, f := sh, f
			kase(g, fmt.Sprintf("Dggsvp3 m=%d p=%d n=%d fam=%s lwork=query wide", sh[0], sh[1], sh[2], f.name), func(t *vlib.T) {
				runDggsvp3(t, sh[0], sh[1], sh[2], f, "query")
			})
		}
	}
}

func runDggsvp3(t *vlib.T, m, p, n int, f gsvdFam, lw string) {
	f0 := nFindings
	a, b := f.gen(m, p, n)
	na, nb := fro(a), fro(b)
	dim := fmax(m, p, n)
	lda, ldb, ldu, ldv, ldq := ldOf(n, 1), ldOf(n, 2), ldOf(m, 0), ldOf(p, 3), ldOf(n, 4)
	as, bs := fromM(a, lda).snap(), fromM(b, ldb).snap()
	us, vs, qs := newS(m, m, ldu).snap(), newS(p, p, ldv).snap(), newS(n, n, ldq).snap()
	tola := fmax(m, n) * math.Max(na, 0x1p-1022) * eps
	tolb := fmax(p, n) * math.Max(nb, 0x1p-1022) * eps
	iwork := make([]int, n)
	tau := poisoned(n)
	lwork, ok := queryLwork(t, "Dggsvp3", 1, func(w []float64) {
		impl.Dggsvp3(lapack.GSVDU, lapack.GSVDV, lapack.GSVDQ, m, p, n, as.d, lda, bs.d, ldb, tola, tolb, us.d, ldu, vs.d, ldv, qs.d, ldq, iwork, tau, w, -1)
	})
	if !ok {
		return
	}
	if lw != "query" {
		lwork += 5
	}
	var k, l int
	if msg := catch(func() {
		k, l = impl.Dggsvp3(lapack.GSVDU, lapack.GSVDV, lapack.GSVDQ, m, p, n, as.d, lda, bs.d, ldb, tola, tolb, us.d, ldu, vs.d, ldv, qs.d, ldq, iwork, tau, poisoned(lwork), lwork)
	}); msg != "" {
		switch {
		case m == 0 && n > 0 && strings.Contains(msg, "slice bounds out of range"):
			finding(t, "dggsvd3-m0-slice-panic", "Dggsvp3 with m=0 (A has no rows) n=%d p=%d panics: %s %s", n, p, msg, lastStack)
		default:
			t.FailClass("unexpected-panic", "Dggsvp3 panicked: %s %s", msg, lastStack)
		}
		t.Outcome("panic")
		return
	}
	countRQ(t, a, b, n, k, l)
	checkGsvdRanks(t, a, b, k, l, "")
	for name, s := range map[string]*S{"a": as, "b": bs, "u": us, "v": vs, "q": qs} {
		if i, ok := s.padOK(s.r, s.c); !ok {
			t.Failf("padding of %s modified at flat index %d", name, i)
		}
	}
	if k < 0 || l < 0 || k+l > n || l > p {
		t.Failf("k=%d l=%d out of range", k, l)
		return
	}
	u, v, q := us.toM(), vs.toM(), qs.toM()
	chk(t, "ggsvp3-UtU-I", ratio(orthCols(u), dim, 1), thresh, "")
	chk(t, "ggsvp3-VtV-I", ratio(orthCols(v), dim, 1), thresh, "")
	chk(t, "ggsvp3-QtQ-I", ratio(orthCols(q), dim, 1), thresh, "")
	ao, bo := as.toM(), bs.toM()
	// documented zero structure of the outputs
	wantA, wantB := newM(m, n), newM(p, n)
	for i := 0; i < min(m, k+l); i++ {
		for j := n - k - l + i; j < n; j++ { // upper triangular/trapezoidal [A12 A13; 0 A23]
			if j >= 0 {
				wantA.set(i, j, ao.at(i, j))
			}
		}
	}
	for i := 0; i < l; i++ {
		for j := n - l + i; j < n; j++ {
			wantB.set(i, j, bo.at(i, j))
		}
	}
	// what is outside the documented non-zero pattern must be zero up to tola / tolb
	chk(t, "ggsvp3-A-structure", fro(sub(ao, wantA))/math.Max(tola, 0x1p-1022), 4*dim, fmt.Sprintf("k=%d l=%d", k, l))
	chk(t, "ggsvp3-B-structure", fro(sub(bo, wantB))/math.Max(tolb, 0x1p-1022), 4*dim, fmt.Sprintf("k=%d l=%d", k, l))
	chk(t, "ggsvp3-UtAQ", ratio(fro(sub(mul(mul(u.T(), a), q), ao)), dim, na), thresh, "")
	chk(t, "ggsvp3-VtBQ", ratio(fro(sub(mul(mul(v.T(), b), q), bo)), dim, nb), thresh, "")
	if min(m, p, n) >= 2 {
		t.Nontrivial()
	}
	t.Outcome(fmt.Sprintf("m-k-l>=0:%v k>0:%v l>0:%v rqA(k>=2):%v", m-k-l >= 0, k > 0, l > 0, n-l > k && k >= 2))
	if t.Failed() {
		gsvdAttribute(t, a, b, f0)
	}
}

// ---------------------------------------------------------------------------
// Dgghrd

func genDgghrd(g *vlib.G) {
	lim := p3(g, 6, 7, 8)
	comps := []lapack.OrthoComp{lapack.OrthoNone, lapack.OrthoExplicit, lapack.OrthoPostmul}
	for n := 0; n <= lim; n++ {
		for ilo := 0; ilo < max(1, n); ilo++ {
			for ihi := ilo; ihi < max(1, n); ihi++ {
				if n == 0 {
					ihi = -1
				}
				for fam := 0; fam < 3; fam++ {
					for _, ldx := range []int{0, 2} {
						n, ilo, ihi, fam, ldx := n, ilo, ihi, fam, ldx
						if g.Stopped() {
							return
						}
						kase(g, fmt.Sprintf("Dgghrd n=%d ilo=%d ihi=%d fam=%d ld=n+%d", n, ilo, ihi, fam, ldx), func(t *vlib.T) {
							runDgghrd(t, n, ilo, ihi, fam, ldx, comps)
						})
					}
				}
				if n == 0 {
					break
				}
			}
		}
	}
}

func runDgghrd(t *vlib.T, n, ilo, ihi, fam, ldx int, comps []lapack.OrthoComp) {
	var a, b M
	switch fam {
	case 0:
		a, b = nsInt(n, n), intGeneral(n, n, 3, lcgFor(60, n, 0))
	case 1:
		a, b = nsGraded(n, n), eyeRC(n, n)
	default:
		a, b = nsRotDense(n, n), intGeneral(n, n, 2, lcgFor(61, n, 1))
	}
	a = maskBlock(a, ilo, ihi)
	for i := 0; i < n; i++ { // B upper triangular
		for j := 0; j < i; j++ {
			b.set(i, j, 0)
		}
	}
	na, nb := fro(a), fro(b)
	dim := fmax(n)
	lda, ldb, ldqq, ldzz := ldOf(n, off(ldx, 0)), ldOf(n, off(ldx, 1)), ldOf(n, off(ldx, 2)), ldOf(n, off(ldx, 3))
	q1, z1 := randOrth(n, lcgFor(62, n, fam)), randOrth(n, lcgFor(63, n, fam))
	var refH, refT []float64
	for _, compq := range comps {
		for _, compz := range comps {
			ctx := fmt.Sprintf("compq=%c compz=%c", compq, compz)
			as, bs := fromM(a, lda).snap(), fromM(b, ldb).snap()
			// the strict lower triangle of B is not part of the input
			for i := 0; i < n; i++ {
				for j := 0; j < i; j++ {
					bs.d[i*ldb+j] = vlib.Poison64(i*n + j)
				}
			}
			var qs, zs *S
			var qd, zd []float64
			ldq, ldz := 1, 1
			switch compq {
			case lapack.OrthoExplicit:
				qs = newS(n, n, ldqq).snap()
			case lapack.OrthoPostmul:
				qs = fromM(q1, ldqq).snap()
			}
			switch compz {
			case lapack.OrthoExplicit:
				zs = newS(n, n, ldzz).snap()
			case lapack.OrthoPostmul:
				zs = fromM(z1, ldzz).snap()
			}
			if qs != nil {
				qd, ldq = qs.d, ldqq
			}
			if zs != nil {
				zd, ldz = zs.d, ldzz
			}
			impl.Dgghrd(compq, compz, n, ilo, ihi, as.d, lda, bs.d, ldb, qd, ldq, zd, ldz)
			if n <= 1 {
				// quick return: B's lower triangle is not touched for n == 1 (there is none)
			}
			for name, st := range map[string]*S{"a": as, "b": bs, "q": qs, "z": zs} {
				if st == nil {
					continue
				}
				if i, ok := st.padOK(n, n); !ok {
					t.Failf("padding of %s modified at flat index %d [%s]", name, i, ctx)
				}
			}
			h, tt := as.toM(), bs.toM()
			if hasNaN(h.a) || hasNaN(tt.a) {
				t.Failf("NaN in the outputs (the strict lower triangle of B was read?) [%s]", ctx)
				continue
			}
			for i := 0; i < n; i++ {
				for j := 0; j < i; j++ {
					if tt.at(i, j) != 0 {
						t.Failf("T[%d,%d]=%v not upper triangular [%s]", i, j, tt.at(i, j), ctx)
					}
					if j+1 < i && h.at(i, j) != 0 {
						t.Failf("H[%d,%d]=%v not upper Hessenberg [%s]", i, j, h.at(i, j), ctx)
					}
					if (j < ilo || i > ihi) && h.at(i, j) != 0 {
						t.Failf("H[%d,%d]=%v outside the block [%s]", i, j, h.at(i, j), ctx)
					}
				}
			}
			if refH == nil {
				refH, refT = h.a, tt.a
			} else {
				if i, same := vlib.Same64(h.a, refH); !same {
					t.Failf("H depends on compq/compz (element %d) [%s]", i, ctx)
				}
				if i, same := vlib.Same64(tt.a, refT); !same {
					t.Failf("T depends on compq/compz (element %d) [%s]", i, ctx)
				}
			}
			if qs == nil || zs == nil {
				if qs != nil {
					chk(t, "gghrd-QtQ-I", ratio(orthCols(qs.toM()), dim, 1), thresh, ctx)
				}
				if zs != nil {
					chk(t, "gghrd-ZtZ-I", ratio(orthCols(zs.toM()), dim, 1), thresh, ctx)
				}
				continue
			}
			qo, zo := qs.toM(), zs.toM()
			chk(t, "gghrd-QtQ-I", ratio(orthCols(qo), dim, 1), thresh, ctx)
			chk(t, "gghrd-ZtZ-I", ratio(orthCols(zo), dim, 1), thresh, ctx)
			// Q1 A Z1ᵀ = (Q1 Q) H (Z1 Z)ᵀ, with Q1 / Z1 the identity for the explicit mode
			ql, zl := eye(n), eye(n)
			if compq == lapack.OrthoPostmul {
				ql = q1
			}
			if compz == lapack.OrthoPostmul {
				zl = z1
			}
			ahat, bhat := mul(mul(ql, a), zl.T()), mul(mul(ql, b), zl.T())
			chk(t, "gghrd-QHZt-A", ratio(fro(sub(mul(mul(qo, h), zo.T()), ahat)), dim, na), thresh, ctx)
			chk(t, "gghrd-QTZt-B", ratio(fro(sub(mul(mul(qo, tt), zo.T()), bhat)), dim, nb), thresh, ctx)
		}
	}
	if ihi-ilo >= 2 {
		t.Nontrivial()
	}
	t.Outcome(fmt.Sprintf("rotations=%v", ihi-ilo >= 2))
}

// numRank returns the numerical rank of a (singular values above 1e-9*max) and
// whether the decision is clear cut (no singular value in (1e-13, 1e-9]*max).
func numRank(a M) (rank int, clear bool) {
	sv := jacobiSV(a)
	clear = true
	if len(sv) == 0 || sv[0] == 0 {
		return 0, true
	}
	for _, s := range sv {
		switch {
		case s > 1e-9*sv[0]:
			rank++
		case s > 1e-13*sv[0]:
			clear = false
		}
	}
	return rank, clear
}

// checkGsvdRanks: l is the numerical rank of B and k+l that of [A; B] (documented).
func checkGsvdRanks(t *vlib.T, a, b M, k, l int, ctx string) {
	if rb, clear := numRank(b); clear && l != rb {
		// The one way this was seen to happen: Dggsvp3 hands Dgeqp3 a pivot vector of
		// zeros ("pinned" in the Go interface, "free" in Fortran), so B is never pivoted
		// (finding dggsvp3-no-pivoting, NOTES.md).
		finding(t, "dggsvp3-no-pivoting", "l=%d but B has rank %d [%s]", l, rb, ctx)
	}
	st := newM(a.r+b.r, a.c)
	copy(st.a, a.a)
	copy(st.a[len(a.a):], b.a)
	// compare ranks of the two blocks on a common scale: normalise each block
	na, nb := fro(a), fro(b)
	if na > 0 && nb > 0 {
		for i := range a.a {
			st.a[i] /= na
		}
		for i := range b.a {
			st.a[len(a.a)+i] /= nb
		}
	}
	if rs, clear := numRank(st); clear && k+l != rs {
		finding(t, "dggsvp3-no-pivoting", "k+l=%d but [A;B] has rank %d [%s]", k+l, rs, ctx)
	}
	// Sharper: the documented threshold tolb = max(p,n)*|B|*eps decides l (a failure
	// here that is not accompanied by one of the findings above is attributed, or
	// not, by gsvdAttribute like every other failure of the case).
	if rb, clear := docRank(b, a.c); clear && l != rb {
		t.Failf("l=%d but B has %d singular values above tolb = max(p,n)*|B|*eps [%s]", l, rb, ctx)
	}
}

var (
	pivotOnce   sync.Once
	pivotBroken bool
)

// ggsvp3PivotBroken probes the tree for finding dggsvp3-no-pivoting: for
// A = [1 0], B = [0 -2] Dggsvp3 must report l = rank(B) = 1.
func ggsvp3PivotBroken() bool {
	pivotOnce.Do(func() {
		a, b := []float64{1, 0}, []float64{0, -2}
		u, v, q := make([]float64, 1), make([]float64, 1), make([]float64, 4)
		iwork, tau := make([]int, 2), make([]float64, 2)
		w := make([]float64, 1)
		msg := catch(func() {
			impl.Dggsvp3(lapack.GSVDU, lapack.GSVDV, lapack.GSVDQ, 1, 1, 2, a, 2, b, 2, 1e-14, 1e-14, u, 1, v, 1, q, 2, iwork, tau, w, -1)
			w = make([]float64, int(w[0]))
			_, l := impl.Dggsvp3(lapack.GSVDU, lapack.GSVDV, lapack.GSVDQ, 1, 1, 2, a, 2, b, 2, 1e-14, 1e-14, u, 1, v, 1, q, 2, iwork, tau, w, len(w))
			pivotBroken = l != 1
		})
		if msg != "" {
			pivotBroken = true
		}
	})
	return pivotBroken
}

// wouldPermute reports whether Dgeqp3 with all columns free permutes the columns of x.
func wouldPermute(x M) bool {
	if x.r == 0 || x.c == 0 {
		return false
	}
	d := append([]float64(nil), x.a...)
	jp := make([]int, x.c)
	for i := range jp {
		jp[i] = -1
	}
	tau := make([]float64, min(x.r, x.c))
	w := make([]float64, 1)
	impl.Dgeqp3(x.r, x.c, d, x.c, jp, tau, w, -1)
	w = make([]float64, max(int(w[0]), 3*x.c+1))
	impl.Dgeqp3(x.r, x.c, d, x.c, jp, tau, w, len(w))
	for i, v := range jp {
		if v != i {
			return true
		}
	}
	return false
}

// pivotingMatters replays the first stage of Dggsvp3 as the defective tree runs
// it (unpivoted QR of B, RQ of its leading rows, A := A*Zᵀ) and reports whether
// column pivoting would have changed either QR factorization. Used only to
// decide whether a failure may be attributed to finding dggsvp3-no-pivoting.
func pivotingMatters(a, b M) (matters bool) {
	defer func() {
		if recover() != nil {
			matters = true
		}
	}()
	if wouldPermute(b) {
		return true
	}
	m, p, n := a.r, b.r, a.c
	if m == 0 || n == 0 {
		return false
	}
	as, bs := append([]float64(nil), a.a...), append([]float64(nil), b.a...)
	l := 0
	if p > 0 {
		jp := make([]int, n) // zeros: every column pinned, as in the defective tree
		tau := make([]float64, n)
		w := make([]float64, 1)
		impl.Dgeqp3(p, n, bs, n, jp, tau, w, -1)
		w = make([]float64, max(int(w[0]), 3*n+1, m, n, p))
		impl.Dgeqp3(p, n, bs, n, jp, tau, w, len(w))
		tolb := fmax(p, n) * math.Max(fro(b), 0x1p-1022) * eps
		for i := 0; i < min(p, n); i++ {
			if math.Abs(bs[i*n+i]) > tolb {
				l++
			}
		}
		if l > 0 && n != l {
			for i := 1; i < l; i++ { // clean up below the diagonal as Dggsvp3 does
				for j := 0; j < i; j++ {
					bs[i*n+j] = 0
				}
			}
			impl.Dgerq2(l, n, bs, n, tau, w)
			impl.Dormr2(blas.Right, blas.Trans, m, n, l, bs, n, tau, as, n, w)
		}
	}
	if n-l <= 0 {
		return false
	}
	a11 := newM(m, n-l)
	for i := 0; i < m; i++ {
		copy(a11.a[i*(n-l):(i+1)*(n-l)], as[i*n:i*n+n-l])
	}
	return wouldPermute(a11)
}

// countRQ records (for the evidence) how often the branch n-l > k >= 2 of
// Dggsvp3 ran with Q wanted, and how often on an input for which pivoting is a
// no-op (such a case can never be attributed to the known no-pivoting finding).
func countRQ(t *vlib.T, a, b M, n, k, l int) {
	if n-l > k && k >= 2 {
		t.Count("gsvd_rq_of_A11_k>=2", 1)
		if !pivotingMatters(a, b) {
			t.Count("gsvd_rq_of_A11_k>=2_pivoting_noop", 1)
		}
	}
}

// docRank counts the singular values of b above the documented rank threshold
// max(rows, n)*|b|_F*eps of Dggsvd3; the decision is clear when no singular
// value lies within a factor 100 of the threshold.
func docRank(b M, n int) (rank int, clear bool) {
	sv := jacobiSV(b)
	tol := fmax(b.r, n) * fro(b) * eps
	clear = true
	for _, s := range sv {
		switch {
		case s > 100*tol:
			rank++
		case s > tol/100:
			clear = false
		}
	}
	return rank, clear
}
