package main

import (
	"fmt"
	"math"
	"sync"

	"gonum.org/v1/gonum/internal/verif/vlib"
	"gonum.org/v1/gonum/lapack"
)

// Dlarft builds the triangular factor of every block reflector used by the
// blocked reductions and generators of this property. Its definition
// H_0...H_{k-1} = I - V T Vᵀ is checked directly on vectors with every pattern of
// exact trailing (Forward) / leading (Backward) zeros, because the routine
// skips such zeros.

func genDlarft(g *vlib.G) {
	for n := 1; n <= p3(g, 6, 8, 9); n++ {
		for k := 1; k <= min(n, p3(g, 4, 5, 5)); k++ {
			for _, direct := range []lapack.Direct{lapack.Forward, lapack.Backward} {
				for _, store := range []lapack.StoreV{lapack.ColumnWise, lapack.RowWise} {
					n, k, direct, store := n, k, direct, store
					kase(g, fmt.Sprintf("Dlarft n=%d k=%d direct=%c store=%c", n, k, direct, store), func(t *vlib.T) {
						// zero-count pattern of every vector: 0..2 zeros at the far end, and tau == 0 or not
						radices := make([]int, 2*k)
						for i := 0; i < k; i++ {
							radices[2*i] = 3
							radices[2*i+1] = 2
						}
						bad := 0
						vlib.Product(radices, func(idx []int) bool {
							zeros, tauZero := make([]int, k), make([]bool, k)
							for i := 0; i < k; i++ {
								zeros[i], tauZero[i] = idx[2*i], idx[2*i+1] == 1
							}
							if r := larftResidual(n, k, direct, store, zeros, tauZero, 0); !(r <= thresh) {
								bad++
								if bad <= 2 {
									finding(t, "dlarft-prevlastv", "I - V T Vᵀ differs from the product of reflectors: ratio %.3g (zeros=%v tauZero=%v)", r, zeros, tauZero)
								}
							}
							t.Count("dlarft_patterns", 1)
							return true
						})
						if k >= 2 {
							t.Nontrivial()
						}
						t.Outcome(fmt.Sprintf("bad=%v", bad > 0))
					})
				}
			}
		}
	}
}

// larftResidual returns |(I - V T Vᵀ) - prod H_i|_F / (n*eps).
func larftResidual(n, k int, direct lapack.Direct, store lapack.StoreV, zeros []int, tauZero []bool, ldx int) float64 {
	l := lcgFor(80, n, k)
	// full vectors v_i (length n) by definition
	vec := make([][]float64, k)
	tau := make([]float64, k)
	for i := 0; i < k; i++ {
		x := make([]float64, n)
		one := i
		if direct == lapack.Backward {
			one = n - k + i
		}
		x[one] = 1
		if direct == lapack.Forward {
			for j := one + 1; j < n-zeros[i]; j++ {
				x[j] = float64(1+l.Next()%3) / 4
			}
		} else {
			for j := zeros[i]; j < one; j++ {
				x[j] = float64(1+l.Next()%3) / 4
			}
		}
		vec[i] = x
		tau[i] = 1 + float64(l.Next()%4)/4
		if tauZero[i] {
			tau[i] = 0
		}
	}
	// storage: implicit entries are poisoned
	mv, nv := n, k
	if store == lapack.RowWise {
		mv, nv = k, n
	}
	ldv := nv + ldx
	// One spare row: for k == n Dlarft forms the (empty) slice v[n*ldv+i:], which
	// is past the end of a minimum-length v. Every caller passes a sub-slice of a
	// larger matrix, so this is listed as a don't-care zone in NOTES.md.
	vs := newS(mv+1, nv, ldv)
	for i := 0; i < k; i++ {
		one := i
		if direct == lapack.Backward {
			one = n - k + i
		}
		for j := 0; j < n; j++ {
			stored := (direct == lapack.Forward && j > one) || (direct == lapack.Backward && j < one)
			if !stored {
				continue
			}
			if store == lapack.ColumnWise {
				vs.d[j*ldv+i] = vec[i][j]
			} else {
				vs.d[i*ldv+j] = vec[i][j]
			}
		}
	}
	ts := newS(k, k, k+ldx)
	impl.Dlarft(direct, store, n, k, vs.d, ldv, tau, ts.d, k+ldx)
	tm := newM(k, k)
	for i := 0; i < k; i++ {
		for j := 0; j < k; j++ {
			if (direct == lapack.Forward && j >= i) || (direct == lapack.Backward && j <= i) {
				tm.set(i, j, ts.d[i*(k+ldx)+j])
			}
		}
	}
	h := eye(n)
	apply := func(i int) { // h = h * H_i
		for r := 0; r < n; r++ {
			var dot float64
			for c := 0; c < n; c++ {
				dot += h.at(r, c) * vec[i][c]
			}
			dot *= tau[i]
			for c := 0; c < n; c++ {
				h.set(r, c, h.at(r, c)-dot*vec[i][c])
			}
		}
	}
	if direct == lapack.Forward {
		for i := 0; i < k; i++ {
			apply(i)
		}
	} else {
		for i := k - 1; i >= 0; i-- {
			apply(i)
		}
	}
	vm := newM(n, k)
	for i := 0; i < k; i++ {
		for j := 0; j < n; j++ {
			vm.set(j, i, vec[i][j])
		}
	}
	got := sub(eye(n), mul(mul(vm, tm), vm.T()))
	return fro(sub(got, h)) / (float64(n) * eps)
}

var (
	larftOnce   sync.Once
	larftBroken bool
)

// dlarftBroken probes the tree under test for the Dlarft defect (NOTES.md,
// finding dlarft-prevlastv): three forward column-wise vectors of order 4, the
// second one ending in an exact zero.
func dlarftBroken() bool {
	larftOnce.Do(func() {
		r := larftResidual(4, 3, lapack.Forward, lapack.ColumnWise, []int{0, 1, 0}, []bool{false, false, false}, 0)
		larftBroken = !(r <= thresh) || math.IsNaN(r)
	})
	return larftBroken
}

// attributeBlocked is called at the end of a failed case that ran blocked
// reflector code. If the tree has the Dlarft defect and the very same case
// passes when every block size is forced to 1 (no block reflector is ever
// formed), the failure is tagged with that finding's class. The violation is
// reported either way.
func attributeBlocked(t *vlib.T, p prof, rerun func(t *vlib.T, p prof)) {
	if !t.Failed() || p.nb == 1 || !dlarftBroken() {
		return
	}
	q := p
	q.name, q.stock, q.nb, q.nbmin, q.trevcNB = p.name+"/nb1", false, 1, 2, 1
	if p.stock {
		q.nx, q.nibble, q.kacc = 0, -1, -1
	}
	t2 := &vlib.T{}
	rerun(t2, q)
	if !t2.Failed() {
		finding(t, "dlarft-prevlastv", "the case passes with all block sizes forced to 1 and Dlarft is defective in this tree: attributed to Dlarft")
	}
}
