package main

import (
	"math"

	"gonum.org/v1/gonum/internal/verif/vlib"
)

// All fills are deterministic functions of (family, shape); vlib.LCG only
// supplies fill patterns.

func lcgFor(a, b, c int) *vlib.LCG {
	l := vlib.LCG(uint64(a)*0x9E3779B97F4A7C15 + uint64(b)*0xC2B2AE3D27D4EB4F + uint64(c)*0x165667B19E3779F9 + 12345)
	l.Next()
	l.Next()
	return &l
}

// randOrth returns a dense n×n orthogonal matrix: a product of two Householder
// reflectors built from random-sign integer vectors.
func randOrth(n int, l *vlib.LCG) M {
	q := eye(n)
	for rep := 0; rep < 2; rep++ {
		v := make([]float64, n)
		var vv float64
		for i := range v {
			v[i] = float64(2*int(l.Next()&1)-1) * float64(1+int(l.Next()%3))
			vv += v[i] * v[i]
		}
		if vv == 0 {
			continue
		}
		// q = q * (I - 2 v vᵀ / vᵀv)
		for i := 0; i < n; i++ {
			var s float64
			for k := 0; k < n; k++ {
				s += q.at(i, k) * v[k]
			}
			s *= 2 / vv
			for k := 0; k < n; k++ {
				q.set(i, k, q.at(i, k)-s*v[k])
			}
		}
	}
	return q
}

func intGeneral(r, c, k int, l *vlib.LCG) M {
	m := newM(r, c)
	for i := range m.a {
		m.a[i] = float64(l.Small(k))
	}
	return m
}

// family is a named matrix generator. scale is an exact power of two by which
// the returned base matrix has to be multiplied to obtain the input (the
// oracles work on the base matrix and on results divided by scale).
type family struct {
	name   string
	normal bool // eigenproblem is normal (spectra of perturbed matrices move by at most the perturbation)
	gen    func(r, c int) M
	scale  float64
}

const (
	bigScale   = 0x1p+500
	smallScale = 0x1p-500
)

// ---- symmetric families (r == c) ----

func symInt(n, _ int) M {
	l := lcgFor(1, n, 0)
	m := newM(n, n)
	for i := 0; i < n; i++ {
		for j := i; j < n; j++ {
			v := float64(l.Small(3))
			m.set(i, j, v)
			m.set(j, i, v)
		}
	}
	return m
}

func symGraded(n, _ int) M {
	m := symInt(n, n)
	for i := 0; i < n; i++ {
		for j := 0; j < n; j++ {
			v := m.at(i, j)
			if i == j && v == 0 {
				v = 1
			}
			m.set(i, j, math.Ldexp(v, -3*(i+j)))
		}
	}
	return m
}

// kron21 is I ⊗ [[2,1],[1,2]] cut to r×c.
func kron21(r, c int) M {
	m := newM(r, c)
	for i := 0; i < r; i++ {
		for j := 0; j < c; j++ {
			switch {
			case i == j:
				m.set(i, j, 2)
			case i/2 == j/2:
				m.set(i, j, 1)
			}
		}
	}
	return m
}

// symNear has diagonal 2 and off-diagonals 2^-30: eigenvalues within 2^-29 of each other.
func symNear(n, _ int) M {
	m := newM(n, n)
	for i := 0; i < n; i++ {
		m.set(i, i, 2)
		if i+1 < n {
			m.set(i, i+1, 0x1p-30)
			m.set(i+1, i, 0x1p-30)
		}
	}
	return m
}

// symWilk is the Wilkinson W+ matrix (pairs of close eigenvalues).
func symWilk(n, _ int) M {
	m := newM(n, n)
	for i := 0; i < n; i++ {
		m.set(i, i, math.Abs(float64(n-1)/2-float64(i)))
		if i+1 < n {
			m.set(i, i+1, 1)
			m.set(i+1, i, 1)
		}
	}
	return m
}

// symOrthDiag is Q D Qᵀ with D = ±(1..n) clustered in pairs.
func symOrthDiag(n, _ int) M {
	l := lcgFor(2, n, 0)
	q := randOrth(n, l)
	d := make([]float64, n)
	for i := range d {
		d[i] = float64(1+i/2) * float64(1-2*(i%3%2))
	}
	a := mul(mul(q, diagM(d)), q.T())
	// symmetrise exactly
	for i := 0; i < n; i++ {
		for j := i + 1; j < n; j++ {
			v := (a.at(i, j) + a.at(j, i)) / 2
			a.set(i, j, v)
			a.set(j, i, v)
		}
	}
	return a
}

func zeros(r, c int) M { return newM(r, c) }
func eyeRC(r, c int) M {
	m := newM(r, c)
	for i := 0; i < r && i < c; i++ {
		m.set(i, i, 1)
	}
	return m
}

// symToep0 is the tridiagonal Toeplitz matrix with zero diagonal and unit
// off-diagonal (the first Givens rotations of the QL/QR sweeps have cosine 0).
func symToep0(n, _ int) M {
	m := newM(n, n)
	for i := 0; i+1 < n; i++ {
		m.set(i, i+1, 1)
		m.set(i+1, i, 1)
	}
	return m
}

// symToep2 is the second-difference matrix tridiag(-1, 2, -1).
func symToep2(n, _ int) M {
	m := newM(n, n)
	for i := 0; i < n; i++ {
		m.set(i, i, 2)
		if i+1 < n {
			m.set(i, i+1, -1)
			m.set(i+1, i, -1)
		}
	}
	return m
}

// symBlockTiny is block diagonal: a leading block tridiag(1, 3, 1) of order
// n/2 scaled by 2^-450 followed by the same matrix at unit scale. Its
// tridiagonal form splits into blocks that Dsteqr/Dsterf rescale differently.
func symBlockTiny(n, _ int) M {
	m := newM(n, n)
	h := n / 2
	for i := 0; i < n; i++ {
		s := 1.0
		if i < h {
			s = 0x1p-450
		}
		m.set(i, i, 3*s)
		if i+1 < n && i+1 != h {
			m.set(i, i+1, s)
			m.set(i+1, i, s)
		}
	}
	return m
}

var symFamilies = []family{
	{name: "int", normal: true, gen: symInt, scale: 1},
	{name: "graded", normal: true, gen: symGraded, scale: 1},
	{name: "kron21", normal: true, gen: kron21, scale: 1},
	{name: "near", normal: true, gen: symNear, scale: 1},
	{name: "zero", normal: true, gen: zeros, scale: 1},
	{name: "eye", normal: true, gen: eyeRC, scale: 1},
	{name: "orthdiag", normal: true, gen: symOrthDiag, scale: 1},
	{name: "wilk", normal: true, gen: symWilk, scale: 1},
	{name: "toep0", normal: true, gen: symToep0, scale: 1},
	{name: "toep2", normal: true, gen: symToep2, scale: 1},
	{name: "blocktiny", normal: true, gen: symBlockTiny, scale: 1},
	{name: "big", normal: true, gen: symInt, scale: bigScale},
	{name: "small", normal: true, gen: symInt, scale: smallScale},
}

// ---- general rectangular families (SVD, bidiagonalisation, GSVD) ----

func genInt(r, c int) M { return intGeneral(r, c, 3, lcgFor(3, r, c)) }

func genGraded(r, c int) M {
	m := genInt(r, c)
	for i := 0; i < r; i++ {
		for j := 0; j < c; j++ {
			v := m.at(i, j)
			if i == j && v == 0 {
				v = 1
			}
			m.set(i, j, math.Ldexp(v, -4*j-2*i))
		}
	}
	return m
}

// genJordan has diagonal 2 and superdiagonal 2^-20.
func genJordanEps(r, c int) M {
	m := newM(r, c)
	for i := 0; i < r; i++ {
		if i < c {
			m.set(i, i, 2)
		}
		if i+1 < c {
			m.set(i, i+1, 0x1p-20)
		}
	}
	return m
}

// genJordan1 has diagonal 2 and superdiagonal 1 (a single Jordan block when square).
func genJordan1(r, c int) M {
	m := newM(r, c)
	for i := 0; i < r; i++ {
		if i < c {
			m.set(i, i, 2)
		}
		if i+1 < c {
			m.set(i, i+1, 1)
		}
	}
	return m
}

// genRot is block diagonal with 2×2 blocks k*[[3/5,-4/5],[4/5,3/5]], k = 1,2,..
// (complex pairs k(0.6 ± 0.8i)); a trailing 1×1 block is k.
func genRot(r, c int) M {
	m := newM(r, c)
	for i := 0; i < r && i < c; i++ {
		k := float64(1 + i/2)
		if i%2 == 0 && i+1 < r && i+1 < c {
			m.set(i, i, 0.6*k)
			m.set(i, i+1, -0.8*k)
			m.set(i+1, i, 0.8*k)
			m.set(i+1, i+1, 0.6*k)
		} else if i%2 == 0 {
			m.set(i, i, k)
		}
	}
	return m
}

// genOrthDiag is U D Vᵀ cut to r×c: singular values min(r,c)..1 with one repeat.
func genOrthDiag(r, c int) M {
	l := lcgFor(4, r, c)
	u, v := randOrth(r, l), randOrth(c, l)
	d := newM(r, c)
	k := min(r, c)
	for i := 0; i < k; i++ {
		s := float64(k - i)
		if i == 1 {
			s = float64(k) // repeated largest value
		}
		d.set(i, i, s)
	}
	return mul(mul(u, d), v.T())
}

// genRank1 is an integer outer product (rank one: min(r,c)-1 zero singular values).
func genRank1(r, c int) M {
	l := lcgFor(5, r, c)
	x, y := make([]float64, r), make([]float64, c)
	for i := range x {
		x[i] = float64(1 + l.Next()%3)
	}
	for j := range y {
		y[j] = float64(l.Small(2))
	}
	if c > 0 {
		y[0] = 1
	}
	m := newM(r, c)
	for i := range x {
		for j := range y {
			m.set(i, j, x[i]*y[j])
		}
	}
	return m
}

// genDiagSigns is (rectangular) diagonal with entries of alternating sign and a
// negative last entry: 1, -2, 3, ..., -k.
func genDiagSigns(r, c int) M {
	m := newM(r, c)
	k := min(r, c)
	for i := 0; i < k; i++ {
		v := float64(i + 1)
		if i%2 == 1 || i == k-1 {
			v = -v
		}
		m.set(i, i, v)
	}
	return m
}

// genDiagNegLast is diag(1, 2, ..., k-1, -k): only the last entry is negative.
func genDiagNegLast(r, c int) M {
	m := newM(r, c)
	k := min(r, c)
	for i := 0; i < k; i++ {
		m.set(i, i, float64(i+1))
	}
	if k > 0 {
		m.set(k-1, k-1, -float64(k))
	}
	return m
}

// genBidiagZeros is upper bidiagonal with mixed-sign diagonal (negative last
// entry) and every second off-diagonal entry zero (it splits into blocks, the
// last of which is a 1×1 or diagonal block).
func genBidiagZeros(r, c int) M {
	m := genDiagSigns(r, c)
	k := min(r, c)
	for i := 0; i+1 < c && i < k; i++ {
		if i%2 == 0 && i+2 < k {
			m.set(i, i+1, 1)
		}
	}
	return m
}

// genBidiagToeplitz is upper bidiagonal with constant diagonal 1 and constant
// off-diagonal -1.
func genBidiagToeplitz(r, c int) M {
	m := newM(r, c)
	for i := 0; i < r && i < c; i++ {
		m.set(i, i, 1)
		if i+1 < c {
			m.set(i, i+1, -1)
		}
	}
	return m
}

// genDqdsFlip is the nearly diagonal upper bidiagonal matrix with diagonal
// 3, 1e-3, 1.02, 1, 1.01, ..., 2 and off-diagonal 0.05, 0.04, ...: its values-only
// SVD makes dqds reverse an unreduced block inside the main loop.
func genDqdsFlip(r, c int) M {
	m := newM(r, c)
	k := min(r, c)
	for i := 0; i < k; i++ {
		m.set(i, i, 1+0.01*float64(i%3))
		if i+1 < c {
			m.set(i, i+1, 0.05-0.01*float64(i%2))
		}
	}
	if k >= 3 {
		m.set(0, 0, 3)
		m.set(k-1, k-1, 2)
		m.set(1, 1, 1e-3)
	}
	return m
}

var genFamilies = []family{
	{name: "int", gen: genInt, scale: 1},
	{name: "graded", gen: genGraded, scale: 1},
	{name: "kron21", gen: kron21, scale: 1},
	{name: "jordeps", gen: genJordanEps, scale: 1},
	{name: "rot", gen: genRot, scale: 1},
	{name: "zero", gen: zeros, scale: 1},
	{name: "eye", gen: eyeRC, scale: 1},
	{name: "orthdiag", gen: genOrthDiag, scale: 1},
	{name: "rank1", gen: genRank1, scale: 1},
	{name: "diagsigns", gen: genDiagSigns, scale: 1},
	{name: "diagneglast", gen: genDiagNegLast, scale: 1},
	{name: "bidiagzeros", gen: genBidiagZeros, scale: 1},
	{name: "bitoep", gen: genBidiagToeplitz, scale: 1},
	{name: "dqdsflip", gen: genDqdsFlip, scale: 1},
	{name: "big", gen: genInt, scale: bigScale},
	{name: "small", gen: genInt, scale: smallScale},
}

// ---- square nonsymmetric families (Dgeev, Dhseqr, Dgehrd) ----

func conj(q, a M) M { return mul(mul(q, a), q.T()) }

func nsInt(n, _ int) M { return intGeneral(n, n, 3, lcgFor(6, n, n)) }

func nsGraded(n, _ int) M {
	m := nsInt(n, n)
	for i := 0; i < n; i++ {
		for j := 0; j < n; j++ {
			v := m.at(i, j)
			if i == j && v == 0 {
				v = 1
			}
			m.set(i, j, math.Ldexp(v, -3*i-3*j))
		}
	}
	return m
}

// nsRotDense is the rotation-block matrix conjugated by an orthogonal matrix (normal, complex pairs).
func nsRotDense(n, _ int) M { return conj(randOrth(n, lcgFor(7, n, 0)), genRot(n, n)) }

// nsJordanDense is Q (2I + N + 2^-20 e_n e_1ᵀ) Qᵀ: nearly defective, ill-conditioned spectrum.
func nsJordanDense(n, _ int) M {
	j := genJordan1(n, n)
	if n > 1 {
		j.set(n-1, 0, 0x1p-20)
	}
	return conj(randOrth(n, lcgFor(8, n, 0)), j)
}

// nsCyclic is the cyclic shift (eigenvalues are the n-th roots of unity; the
// standard double-shift iteration stagnates on it without exceptional shifts).
func nsCyclic(n, _ int) M {
	m := newM(n, n)
	for i := 0; i < n; i++ {
		m.set((i+1)%n, i, 1)
	}
	return m
}

// nsOrthDiag is Q*D: orthogonal times diagonal.
func nsOrthDiag(n, _ int) M {
	q := randOrth(n, lcgFor(9, n, 0))
	d := make([]float64, n)
	for i := range d {
		d[i] = float64(1 + i%3)
	}
	return mul(q, diagM(d))
}

// nsReducible is an integer matrix with a zero pattern that Dgebal can permute
// (some isolated rows/columns) and badly scaled rows/columns for its scaling.
func nsReducible(n, _ int) M {
	m := nsInt(n, n)
	for j := 0; j < n; j++ {
		if j != 0 {
			m.set(0, j, 0) // row 0 isolates eigenvalue m[0,0]
		}
	}
	if n > 2 {
		for i := 0; i < n; i++ {
			if i != n-1 {
				m.set(i, n-1, 0) // column n-1 isolates eigenvalue m[n-1,n-1]
			}
		}
	}
	if n > 3 {
		for j := 0; j < n; j++ {
			m.set(2, j, m.at(2, j)*1024)
			m.set(j, 2, m.at(j, 2)/1024)
		}
	}
	return m
}

var nsFamilies = []family{
	{name: "int", gen: nsInt, scale: 1},
	{name: "graded", gen: nsGraded, scale: 1},
	{name: "kron21", normal: true, gen: kron21, scale: 1},
	{name: "jordeps", gen: genJordanEps, scale: 1},
	{name: "jorddense", gen: nsJordanDense, scale: 1},
	{name: "rot", normal: true, gen: genRot, scale: 1},
	{name: "rotdense", normal: true, gen: nsRotDense, scale: 1},
	{name: "zero", normal: true, gen: zeros, scale: 1},
	{name: "eye", normal: true, gen: eyeRC, scale: 1},
	{name: "orthdiag", gen: nsOrthDiag, scale: 1},
	{name: "cyclic", normal: true, gen: nsCyclic, scale: 1},
	{name: "reducible", gen: nsReducible, scale: 1},
	{name: "symint", normal: true, gen: symInt, scale: 1},
	{name: "big", gen: nsInt, scale: bigScale},
	{name: "small", gen: nsInt, scale: smallScale},
}
