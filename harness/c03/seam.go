package main

import (
	"fmt"
	"sort"
	"strings"

	"gonum.org/v1/gonum/internal/verif/vhook"
	"gonum.org/v1/gonum/internal/verif/vlib"
)

// prof is one answer set of the Ilaenv/Iparmq seam. Zero/negative fields mean
// "stock answer".
type prof struct {
	name      string
	nb, nbmin int // ispec 1, 2 for every routine name
	nx        int // ispec 3 (-1: stock)
	mnthr     int // ispec 6: 0 stock, 1 "lo" = min(m,n) (every shape takes the QR/LQ paths), 2 "hi" (never)
	nmin      int // ispec 12 (0 stock); Dhseqr/Dlaqr04 clamp to >= 15, Dlaqr23 does not
	nwr       int // ispec 13 deflation window
	nibble    int // ispec 14 (-1 stock)
	nsr       int // ispec 15 number of shifts
	kacc      int // ispec 16 (-1 stock)
	trevcNB   int // ispec 1 for DTREVC only (0: same as nb)
	stock     bool
}

var stockProf = prof{name: "stock", stock: true, nx: -1, nibble: -1, kacc: -1}

// The seam profiles. nb in {1,2,3,4}, nbmin 2 or 3, nx in {0,4}; mnthr lo/hi;
// Iparmq: nmin at its floor, windows 2..5, nibble {0,14,100}, shifts {2,4}, kacc22 {0,1,2}.
var profiles = []prof{
	{name: "nb2", nb: 2, nbmin: 2, nx: 0, mnthr: 1, nmin: 2, nwr: 2, nibble: 14, nsr: 2, kacc: 0, trevcNB: 8},
	{name: "nb3", nb: 3, nbmin: 2, nx: 0, mnthr: 2, nmin: 11, nwr: 4, nibble: 0, nsr: 4, kacc: 1, trevcNB: 9},
	{name: "nb4x", nb: 4, nbmin: 2, nx: 4, mnthr: 1, nmin: 11, nwr: 5, nibble: 100, nsr: 2, kacc: 2, trevcNB: 1},
	{name: "nb2m3", nb: 2, nbmin: 3, nx: 0, mnthr: 0, nmin: 4, nwr: 3, nibble: 50, nsr: 4, kacc: 2, trevcNB: 16},
	{name: "nb1", nb: 1, nbmin: 2, nx: 0, mnthr: 1, nmin: 11, nwr: 2, nibble: 14, nsr: 2, kacc: -1, trevcNB: 0},
}

// callLog is filled by the seam closures of the running case.
type callLog struct {
	names        map[string]int // routine name -> number of Ilaenv calls (ispec 1..3, 6)
	iparm        map[int]int    // ispec 12..16 -> number of calls
	mnthr        int            // last answer given for ispec 6
	aed          int            // Dlaqr23 calls (ispec 12 with name DLAQR3)
	aedRecursive int            // ... of which with a window larger than the answer (recursion into Dlaqr04)
}

func (c *callLog) String() string {
	ks := make([]string, 0, len(c.names))
	for k := range c.names {
		ks = append(ks, k)
	}
	sort.Strings(ks)
	var b strings.Builder
	for _, k := range ks {
		fmt.Fprintf(&b, "%s:%d ", k, c.names[k])
	}
	for i := 12; i <= 16; i++ {
		if c.iparm[i] > 0 {
			fmt.Fprintf(&b, "i%d:%d ", i, c.iparm[i])
		}
	}
	return strings.TrimSpace(b.String())
}

// install activates the profile and returns the call log and a restore func.
func (p prof) install() (*callLog, func()) {
	log := &callLog{names: map[string]int{}, iparm: map[int]int{}}
	vhook.IlaenvCalls = nil
	iparm := func(ispec int, name, opts string, n, ilo, ihi, lwork int) (int, bool) {
		log.iparm[ispec]++
		if ispec == 12 && name == "DLAQR3" {
			log.aed++
			nmin := 75
			if !p.stock && p.nmin > 0 {
				nmin = p.nmin
			}
			if n > nmin {
				log.aedRecursive++
			}
		}
		if p.stock {
			return 0, false
		}
		switch ispec {
		case 12:
			if p.nmin > 0 {
				return p.nmin, true
			}
		case 13:
			if p.nwr > 0 {
				return p.nwr, true
			}
		case 14:
			if p.nibble >= 0 {
				return p.nibble, true
			}
		case 15:
			if p.nsr > 0 {
				return p.nsr, true
			}
		case 16:
			if p.kacc >= 0 {
				return p.kacc, true
			}
		}
		return 0, false
	}
	vhook.IlaenvFunc = func(ispec int, name, opts string, n1, n2, n3, n4 int) (int, bool) {
		if ispec >= 12 && ispec <= 16 {
			// Ilaenv forwards these to Iparmq, where the other hook answers.
			return 0, false
		}
		log.names[name]++
		if p.stock {
			if ispec == 6 {
				log.mnthr = int(float64(min(n1, n2)) * 1.6)
			}
			return 0, false
		}
		switch ispec {
		case 1:
			if name == "DTREVC" && p.trevcNB > 0 {
				return p.trevcNB, true
			}
			if p.nb > 0 {
				return p.nb, true
			}
		case 2:
			if p.nbmin > 0 {
				return p.nbmin, true
			}
		case 3:
			if p.nx >= 0 {
				return p.nx, true
			}
		case 6:
			switch p.mnthr {
			case 1:
				log.mnthr = min(n1, n2)
				return log.mnthr, true
			case 2:
				log.mnthr = 1 << 30
				return log.mnthr, true
			}
			log.mnthr = int(float64(min(n1, n2)) * 1.6)
		}
		return 0, false
	}
	vhook.IparmqFunc = iparm
	return log, func() {
		vhook.IlaenvFunc = nil
		vhook.IparmqFunc = nil
		vhook.IlaenvCalls = nil
	}
}

// profSet returns the seam profiles of a level: level 0 uses the first n0, the others all five.
func profSet(g *vlib.G, n0 int) []prof {
	if lvl(g) >= 1 {
		return profiles
	}
	return profiles[:n0]
}

// report adds the seam call counts of a case to the evidence counters: how
// often Dlaqr04 really ran (ispec 14 is fetched once per run), how many
// aggressive-early-deflation steps were made (ispec 12 asked by Dlaqr23 under
// the name DLAQR3) and how many of them recursed into Dlaqr04.
func (c *callLog) report(t interface{ Count(string, int64) }) {
	if v := c.iparm[14]; v > 0 {
		t.Count("dlaqr04_runs", int64(v))
	}
	if v := c.aed; v > 0 {
		t.Count("aed_steps", int64(v))
	}
	if v := c.aedRecursive; v > 0 {
		t.Count("aed_steps_via_dlaqr04", int64(v))
	}
}
