package main

// Destination states of EVERY extractor (*To method) of every factorization
// type: empty, compact pre-sized holding junk, compact pre-sized holding NaN
// poison, and a strided view (Slice / SliceTri / SliceSym) into a larger poisoned
// backing matrix, once holding poison and once holding finite junk. The result
// must be bit for bit the empty-destination result and nothing outside the view
// may change. (The definitional checks of the extracted factors themselves are in
// the per-type groups; they use the empty-destination result.)

import (
	"fmt"
	"math"

	"gonum.org/v1/gonum/internal/verif/vlib"
	"gonum.org/v1/gonum/mat"
)

func junk(i int) float64 { return float64(i%7) - 3.5 }

type dstChecker struct {
	t     *vlib.T
	count int64
}

func (d *dstChecker) same(name, kind string, got, want *M) {
	if got.r != want.r || got.c != want.c {
		d.t.Failf("%s into a %s destination: %d×%d, empty-destination result %d×%d", name, kind, got.r, got.c, want.r, want.c)
		return
	}
	if idx, ok := vlib.Same64(got.d, want.d); !ok {
		d.t.Failf("%s into a %s destination differs from the empty-destination result at (%d,%d): %v vs %v\n got  %s\n want %s", name, kind, idx/want.c, idx%want.c, got.d[idx], want.d[idx], fmtM(got), fmtM(want))
	}
}

func (d *dstChecker) run(name, kind string, f func()) bool {
	d.count++
	if msg := recoverMsg(f); msg != "" {
		d.t.Failf("%s into a %s destination panics: %s", name, kind, msg)
		return false
	}
	return true
}

// dense checks a method with a *mat.Dense destination.
func (d *dstChecker) dense(name string, f func(*mat.Dense)) {
	var e mat.Dense
	if !d.run(name, "empty", func() { f(&e) }) || e.IsEmpty() {
		return
	}
	want := fromMat(&e)
	r, c := want.r, want.c
	for _, fill := range []string{"junk", "poison"} {
		data := make([]float64, r*c)
		for i := range data {
			data[i] = junk(i)
		}
		if fill == "poison" {
			vlib.FillPoison64(data)
		}
		cd := mat.NewDense(r, c, data)
		if d.run(name, "compact "+fill, func() { f(cd) }) {
			d.same(name, "compact "+fill, fromMat(cd), want)
		}
		var init *M
		if fill == "junk" {
			init = newM(r, c)
			for i := range init.d {
				init.d[i] = junk(i + 3)
			}
		}
		g := newGuarded(r, c, init)
		if d.run(name, "view "+fill, func() { f(g.view) }) {
			d.same(name, "strided view ("+fill+")", fromMat(g.view), want)
			if idx, ok := g.paddingIntact(); !ok {
				d.t.Failf("%s into a strided view (%s): backing element %d outside the %d×%d view (stride %d) was overwritten with %v", name, fill, idx, r, c, g.stride, g.back[idx])
			}
		}
	}
}

// square-backed views of TriDense / SymDense: everything outside rows/columns 1..n of the (n+2)² backing must stay.
func outsideIntact(back, snap []float64, N, n int) (int, bool) {
	for idx := range back {
		i, j := idx/N-1, idx%N-1
		if i >= 0 && i < n && j >= 0 && j < n {
			continue
		}
		if math.Float64bits(back[idx]) != math.Float64bits(snap[idx]) {
			return idx, false
		}
	}
	return 0, true
}

func (d *dstChecker) tri(name string, kind mat.TriKind, f func(*mat.TriDense)) {
	var e mat.TriDense
	if !d.run(name, "empty", func() { f(&e) }) || e.IsEmpty() {
		return
	}
	want := fromMat(&e)
	n := want.r
	for _, fill := range []string{"junk", "poison"} {
		mk := func(m int) []float64 {
			data := make([]float64, m*m)
			for i := range data {
				data[i] = junk(i)
			}
			if fill == "poison" {
				vlib.FillPoison64(data)
			}
			return data
		}
		ct := mat.NewTriDense(n, kind, mk(n))
		if d.run(name, "compact "+fill, func() { f(ct) }) {
			d.same(name, "compact "+fill, fromMat(ct), want)
		}
		N := n + 2
		back := mk(N)
		snap := append([]float64(nil), back...)
		v := mat.NewTriDense(N, kind, back).SliceTri(1, 1+n).(*mat.TriDense)
		if d.run(name, "view "+fill, func() { f(v) }) {
			d.same(name, "SliceTri view ("+fill+")", fromMat(v), want)
			if idx, ok := outsideIntact(back, snap, N, n); !ok {
				d.t.Failf("%s into a SliceTri view (%s): backing element (%d,%d) outside the view was overwritten with %v", name, fill, idx/N, idx%N, back[idx])
			}
		}
	}
}

func (d *dstChecker) sym(name string, f func(*mat.SymDense)) {
	var e mat.SymDense
	if !d.run(name, "empty", func() { f(&e) }) || e.IsEmpty() {
		return
	}
	want := fromMat(&e)
	n := want.r
	for _, fill := range []string{"junk", "poison"} {
		mk := func(m int) []float64 {
			data := make([]float64, m*m)
			for i := range data {
				data[i] = junk(i)
			}
			if fill == "poison" {
				vlib.FillPoison64(data)
			}
			return data
		}
		cs := mat.NewSymDense(n, mk(n))
		if d.run(name, "compact "+fill, func() { f(cs) }) {
			d.same(name, "compact "+fill, fromMat(cs), want)
		}
		N := n + 2
		back := mk(N)
		snap := append([]float64(nil), back...)
		v := mat.NewSymDense(N, back).SliceSym(1, 1+n).(*mat.SymDense)
		if d.run(name, "view "+fill, func() { f(v) }) {
			d.same(name, "SliceSym view ("+fill+")", fromMat(v), want)
			if idx, ok := outsideIntact(back, snap, N, n); !ok {
				d.t.Failf("%s into a SliceSym view (%s): backing element (%d,%d) outside the view was overwritten with %v", name, fill, idx/N, idx%N, back[idx])
			}
		}
	}
}

func cflat(m *mat.CDense) *M {
	r, c := m.Dims()
	a := newM(r, 2*c)
	for i := 0; i < r; i++ {
		for j := 0; j < c; j++ {
			a.set(i, 2*j, real(m.At(i, j)))
			a.set(i, 2*j+1, imag(m.At(i, j)))
		}
	}
	return a
}

func (d *dstChecker) cdense(name string, f func(*mat.CDense)) {
	e := new(mat.CDense)
	if !d.run(name, "empty", func() { f(e) }) || e.IsEmpty() {
		return
	}
	want := cflat(e)
	r, c := e.Dims()
	for _, fill := range []string{"junk", "poison"} {
		mk := func(k int) []complex128 {
			data := make([]complex128, k)
			for i := range data {
				data[i] = complex(junk(i), junk(i+1))
			}
			if fill == "poison" {
				vlib.FillPoisonC128(data)
			}
			return data
		}
		cd := mat.NewCDense(r, c, mk(r*c))
		if d.run(name, "compact "+fill, func() { f(cd) }) {
			d.same(name, "compact "+fill, cflat(cd), want)
		}
		R, C := r+2, c+3
		back := mk(R * C)
		snap := append([]complex128(nil), back...)
		v := mat.NewCDense(R, C, back).Slice(1, 1+r, 2, 2+c).(*mat.CDense)
		if d.run(name, "view "+fill, func() { f(v) }) {
			d.same(name, "strided CDense view ("+fill+")", cflat(v), want)
			for idx := range back {
				i, j := idx/C-1, idx%C-2
				if i >= 0 && i < r && j >= 0 && j < c {
					continue
				}
				if math.Float64bits(real(back[idx])) != math.Float64bits(real(snap[idx])) || math.Float64bits(imag(back[idx])) != math.Float64bits(imag(snap[idx])) {
					d.t.Failf("%s into a strided CDense view (%s): backing element %d outside the view was overwritten", name, fill, idx)
					break
				}
			}
		}
	}
}

func genExtractDst(g *vlib.G) {
	hi := vlib.Pick(g, 4, 6)
	cas := func(key string, run func(d *dstChecker)) {
		g.Case(key, func(t *vlib.T) {
			d := &dstChecker{t: t}
			run(d)
			t.Count("extractor_destination_runs", d.count)
			t.Nontrivial()
		})
	}
	for n := 1; n <= hi; n++ {
		n := n
		for _, fam := range []string{"pivot", "zeroline"} {
			fam := fam
			cas(fmt.Sprintf("dst LU n=%d fam=%s", n, fam), func(d *dstChecker) {
				d.t.Outcome("LU")
				var lu mat.LU
				lu.Factorize(genMat(fam, n, n, 0).dense())
				d.tri("LU.LTo", mat.Lower, func(x *mat.TriDense) { lu.LTo(x) })
				d.tri("LU.UTo", mat.Upper, func(x *mat.TriDense) { lu.UTo(x) })
			})
		}
		cas(fmt.Sprintf("dst Cholesky n=%d", n), func(d *dstChecker) {
			d.t.Outcome("Cholesky")
			var ch, cb mat.Cholesky
			ch.Factorize(repSym("sym", symMat("spd", n, 0)))
			cb.Factorize(repSym("sym", symMat("spd-dd", n, 1)))
			d.tri("Cholesky.UTo", mat.Upper, ch.UTo)
			d.tri("Cholesky.LTo", mat.Lower, ch.LTo)
			d.sym("Cholesky.ToSym", ch.ToSym)
			d.sym("Cholesky.InverseTo", func(x *mat.SymDense) { ch.InverseTo(x) })
			d.dense("Cholesky.SolveCholTo", func(x *mat.Dense) { ch.SolveCholTo(x, &cb) })
			for _, fam := range []string{"spd", "psd-ones"} {
				var pc mat.PivotedCholesky
				pc.Factorize(repSym("sym", symMat(fam, n, 0)), -1)
				d.tri("PivotedCholesky.UTo("+fam+")", mat.Upper, pc.UTo)
			}
			d.sym("SymDense.PowPSD", func(x *mat.SymDense) { x.PowPSD(repSym("sym", symMat("spd", n, 0)), 0.5) })
			tr := mat.NewTriDense(n, mat.Upper, genMat("dd", n, n, 0).d)
			d.tri("TriDense.InverseTri(upper)", mat.Upper, func(x *mat.TriDense) { x.InverseTri(tr) })
			tl := mat.NewTriDense(n, mat.Lower, genMat("dd", n, n, 1).d)
			d.tri("TriDense.InverseTri(lower)", mat.Lower, func(x *mat.TriDense) { x.InverseTri(tl) })
		})
		for _, vectors := range []string{"sym", "general"} {
			vectors := vectors
			cas(fmt.Sprintf("dst Eigen n=%d %s", n, vectors), func(d *dstChecker) {
				d.t.Outcome("Eigen")
				if vectors == "sym" {
					var es mat.EigenSym
					es.Factorize(repSym("sym", genMat("indef", n, n, 0)), true)
					d.dense("EigenSym.VectorsTo", es.VectorsTo)
					return
				}
				for _, fam := range []string{"rot", "dd"} {
					var e mat.Eigen
					e.Factorize(eigenMat(fam, n, 0).dense(), mat.EigenBoth)
					d.cdense("Eigen.VectorsTo("+fam+")", e.VectorsTo)
					d.cdense("Eigen.LeftVectorsTo("+fam+")", e.LeftVectorsTo)
				}
			})
		}
		for m := 1; m <= hi; m++ {
			m := m
			cas(fmt.Sprintf("dst QR/LQ/SVD m=%d n=%d", m, n), func(d *dstChecker) {
				d.t.Outcome(map[bool]string{true: "tall-or-square", false: "wide"}[m >= n])
				for _, fam := range []string{"dd", "rankdef"} {
					A := genMat(fam, m, n, 0)
					if m >= n {
						var qr mat.QR
						qr.Factorize(A.dense())
						d.dense("QR.RTo("+fam+") before QTo", qr.RTo)
						d.dense("QR.QTo("+fam+")", qr.QTo)
						d.dense("QR.RTo("+fam+")", qr.RTo)
					}
					if m <= n {
						var lq mat.LQ
						lq.Factorize(A.dense())
						d.dense("LQ.LTo("+fam+")", lq.LTo)
						d.dense("LQ.QTo("+fam+")", lq.QTo)
					}
					for _, kd := range []mat.SVDKind{mat.SVDFull, mat.SVDThin, mat.SVDThinU | mat.SVDFullV, mat.SVDFullU | mat.SVDThinV} {
						var svd mat.SVD
						if !svd.Factorize(A.dense(), kd) {
							d.t.Failf("SVD failed")
							continue
						}
						d.dense(fmt.Sprintf("SVD.UTo(%s,kind=%d)", fam, kd), svd.UTo)
						d.dense(fmt.Sprintf("SVD.VTo(%s,kind=%d)", fam, kd), svd.VTo)
					}
				}
				// GSVD: A m×n with B (m+1)×n and (max(1,m-1))×n; prefix-dominant inputs (known finding dggsvp3-no-pivoting)
				A := genMat("dd", m, n, 0)
				for _, p := range []int{m + 1, max(1, m-1)} {
					var gs mat.GSVD
					if !gs.Factorize(A.dense(), genMat("dd", p, n, 2).dense(), mat.GSVDAll) {
						d.t.Failf("GSVD failed")
						continue
					}
					nm := fmt.Sprintf("(p=%d)", p)
					d.dense("GSVD.UTo"+nm, gs.UTo)
					d.dense("GSVD.VTo"+nm, gs.VTo)
					d.dense("GSVD.QTo"+nm, gs.QTo)
					d.dense("GSVD.ZeroRTo"+nm, gs.ZeroRTo)
					d.dense("GSVD.SigmaATo"+nm, gs.SigmaATo)
					d.dense("GSVD.SigmaBTo"+nm, gs.SigmaBTo)
				}
				if m >= n {
					var h mat.HOGSVD
					if !h.Factorize(A.dense(), genMat("dd", m+1, n, 1).dense(), genMat("pivot", m, n, 2).dense()) {
						d.t.Failf("HOGSVD failed: %v", h.Err())
						return
					}
					d.dense("HOGSVD.VTo", h.VTo)
					for i := 0; i < 3; i++ {
						i := i
						d.dense(fmt.Sprintf("HOGSVD.UTo(%d)", i), func(x *mat.Dense) { h.UTo(x, i) })
					}
				}
			})
		}
	}
}
