package main

import (
	"fmt"
	"math"
	"math/cmplx"
	"sort"

	"gonum.org/v1/gonum/internal/verif/vlib"
	"gonum.org/v1/gonum/mat"
)

func genEigenSym(g *vlib.G) {
	for _, n := range append(sizesSmall(g), sizesBig(g)...) {
		for _, f := range symFams {
			for v := 0; v < variants(g); v++ {
				reps := symReps
				if n > 8 {
					if v > 0 || f.name == "spd-graded" {
						continue
					}
					reps = []string{"sym", "symview"}
				}
				for _, rep := range reps {
					n, f, v, rep := n, f, variantID(g, v), rep
					g.Case(fmt.Sprintf("EigenSym n=%d fam=%s v=%d A=%s", n, f.name, v, rep), func(t *vlib.T) {
						eigenSymCase(t, n, f, v, rep)
					})
				}
			}
		}
	}
}

func eigenSymCase(t *vlib.T, n int, f symFamInfo, v int, rep string) {
	A := symMat(f.name, n, v)
	fn := float64(n)
	anorm := math.Max(maxAbs(A), 1e-300)
	ref := jacobiEig(A)
	var tr float64
	for i := 0; i < n; i++ {
		tr += A.at(i, i)
	}
	t.Nontrivial()
	var es mat.EigenSym
	if (n+v)%2 == 0 {
		es.Factorize(repSym("sym", symMat("spd", n+1, 0)), true)
	}
	var valsV []float64
	for _, vectors := range []bool{true, false} {
		a := repSym(rep, A)
		if !es.Factorize(a, vectors) {
			t.Failf("Factorize(vectors=%v) returned false", vectors)
			return
		}
		if es.SymmetricDim() != n {
			t.Failf("SymmetricDim = %d", es.SymmetricDim())
			return
		}
		vals := es.Values(nil)
		var sum float64
		for i, x := range vals {
			sum += x
			if i > 0 && x < vals[i-1] {
				t.Failf("values not ascending: %v", vals)
			}
			if math.Abs(x-ref[i]) > tolResid*fn*eps*fn*anorm {
				t.Failf("vectors=%v: eigenvalue %d = %v, Jacobi reference %v (A=%s)", vectors, i, x, ref[i], fmtM(A))
			}
		}
		if math.Abs(sum-tr) > tolResid*fn*eps*fn*anorm {
			t.Failf("sum of eigenvalues %v != trace %v", sum, tr)
		}
		if idx, same := vlib.Same64(es.RawValues(), vals); !same {
			t.Failf("RawValues differs from Values at %d", idx)
		}
		if !vectors {
			mustPanic(t, "VectorsTo without vectors", func() { es.VectorsTo(&mat.Dense{}) })
			mustPanic(t, "At without vectors", func() { es.At(0, 0) })
			if es.RawQ() != nil {
				t.Failf("RawQ != nil without vectors")
			}
			for i := range vals {
				if math.Abs(vals[i]-valsV[i]) > tolResid*fn*eps*fn*anorm {
					t.Failf("eigenvalue %d differs with/without vectors: %v vs %v", i, valsV[i], vals[i])
				}
			}
			continue
		}
		valsV = vals
		var Q mat.Dense
		es.VectorsTo(&Q)
		Qm := fromMat(&Q)
		if r := orthoDefect(Qm) / (fn * eps); r > tolResid || math.IsNaN(r) {
			t.Failf("|QᵀQ-I|/(n·eps) = %.3g", r)
		}
		// A Q = Q Λ
		AQ := mulM(A, Qm)
		var worst float64
		for i := 0; i < n; i++ {
			for j := 0; j < n; j++ {
				worst = math.Max(worst, math.Abs(AQ.at(i, j)-Qm.at(i, j)*vals[j]))
			}
		}
		if r := worst / (fn * eps * fn * anorm); r > tolResid || math.IsNaN(r) {
			t.Failf("|AQ-QΛ| ratio %.3g A=%s", r, fmtM(A))
		}
		if r := maxAbs(subM(fromMat(&es), A)) / (fn * eps * fn * anorm); r > tolResid || math.IsNaN(r) {
			t.Failf("At ratio %.3g", r)
		}
		if maxAbs(subM(fromMat(es.RawQ()), Qm)) != 0 {
			t.Failf("RawQ differs from VectorsTo")
		}
		Q2 := mat.NewDense(n, n, nil)
		es.VectorsTo(Q2)
		if maxAbs(subM(fromMat(Q2), Qm)) != 0 {
			t.Failf("VectorsTo into a sized destination differs")
		}
	}
	neg := 0
	for _, x := range valsV {
		if x < 0 {
			neg++
		}
	}
	t.Outcome(fmt.Sprintf("%s neg=%v", f.class, neg > 0))
	// inertia must match the family
	switch f.class {
	case "pd":
		if neg != 0 || valsV[0] <= 0 {
			t.Failf("positive definite family has eigenvalue %v", valsV[0])
		}
	case "notpsd":
		if valsV[0] >= 0 {
			t.Failf("indefinite family has smallest eigenvalue %v", valsV[0])
		}
	}
}

// ---------------------------------------------------------------------------

var eigenKinds = []struct {
	name string
	kind mat.EigenKind
}{
	{"None", mat.EigenNone}, {"Left", mat.EigenLeft}, {"Right", mat.EigenRight}, {"Both", mat.EigenBoth},
}

// rotFam: families for the nonsymmetric eigenproblem. "rot" has complex
// eigenvalue pairs (block rotations plus a coupling), "dd"/"pivot" are general
// integer matrices, "sym" is symmetric (real spectrum), "tri" upper triangular
// (eigenvalues are the diagonal).
var eigenFams = []string{"dd", "pivot", "rot", "sym", "tri", "ident"}

func eigenMat(fam string, n, v int) *M {
	switch fam {
	case "dd", "pivot", "ident":
		return genMat(fam, n, n, v)
	case "sym":
		return genMat("indef", n, n, v)
	case "tri":
		a := genMat("dd", n, n, v)
		for i := 0; i < n; i++ {
			for j := 0; j < i; j++ {
				a.set(i, j, 0)
			}
			a.set(i, i, float64(i+1-n/2)) // distinct integers
		}
		return a
	case "rot":
		l := seedOf("rot", n, v)
		a := newM(n, n)
		for i := 0; i+1 < n; i += 2 {
			p, q := float64(l.Small(2)), float64(1+i/2)
			a.set(i, i, p)
			a.set(i+1, i+1, p)
			a.set(i, i+1, -q)
			a.set(i+1, i, q)
			if i+2 < n {
				a.set(i, i+2, 1)
			}
		}
		if n%2 == 1 {
			a.set(n-1, n-1, 3)
		}
		return a
	}
	panic("eigenMat " + fam)
}

func genEigen(g *vlib.G) {
	for _, n := range append(sizesSmall(g), sizesBig(g)...) {
		for _, fam := range eigenFams {
			for v := 0; v < variants(g); v++ {
				reps := genReps
				if n > 8 {
					if v > 0 {
						continue
					}
					reps = []string{"dense"}
				}
				for _, rep := range reps {
					n, fam, v, rep := n, fam, variantID(g, v), rep
					g.Case(fmt.Sprintf("Eigen n=%d fam=%s v=%d A=%s", n, fam, v, rep), func(t *vlib.T) {
						eigenCase(t, n, fam, v, rep)
					})
				}
			}
		}
	}
}

func sortComplex(v []complex128) {
	sort.Slice(v, func(i, j int) bool {
		if real(v[i]) != real(v[j]) {
			return real(v[i]) < real(v[j])
		}
		return imag(v[i]) < imag(v[j])
	})
}

func eigenCase(t *vlib.T, n int, fam string, v int, rep string) {
	A := eigenMat(fam, n, v)
	fn := float64(n)
	anorm := math.Max(normF(A), 1e-300)
	t.Nontrivial()
	var tr float64
	for i := 0; i < n; i++ {
		tr += A.at(i, i)
	}
	det := detRef(A)
	ncomplex := 0
	var firstVals []complex128
	for ki, kd := range eigenKinds {
		a := repGen(rep, A)
		var e mat.Eigen
		if (n+v+ki)%2 == 0 {
			e.Factorize(genMat("dd", n+1, n+1, 0).dense(), mat.EigenBoth)
		}
		if !e.Factorize(a, kd.kind) {
			t.Failf("%s: Factorize returned false for %s", kd.name, fmtM(A))
			continue
		}
		if maxAbs(subM(fromMat(a), A)) != 0 {
			t.Failf("%s: Factorize modified its argument", kd.name)
		}
		if e.Kind() != kd.kind {
			t.Failf("%s: Kind = %v", kd.name, e.Kind())
		}
		vals := e.Values(nil)
		if len(vals) != n {
			t.Failf("%s: %d values", kd.name, len(vals))
			continue
		}
		// trace and determinant (exact references)
		var sum complex128
		prod := complex(1, 0)
		ncomplex = 0
		var specRad float64
		for _, l := range vals {
			sum += l
			prod *= l
			if imag(l) != 0 {
				ncomplex++
			}
			specRad = math.Max(specRad, cmplx.Abs(l))
		}
		if cmplx.Abs(sum-complex(tr, 0)) > tolResid*fn*eps*fn*anorm {
			t.Failf("%s: sum of eigenvalues %v != trace %v", kd.name, sum, tr)
		}
		// complex eigenvalues of a real matrix come in conjugate pairs, adjacent, positive imaginary part first
		for i := 0; i < n; i++ {
			if imag(vals[i]) > 0 {
				if i+1 >= n || vals[i+1] != cmplx.Conj(vals[i]) {
					t.Failf("%s: eigenvalue %v not followed by its conjugate: %v", kd.name, vals[i], vals)
				}
				i++
			} else if imag(vals[i]) < 0 {
				t.Failf("%s: conjugate pair in wrong order: %v", kd.name, vals)
			}
		}
		if fam != "tri" || n <= 8 {
			// |Πλ − det| ≤ c·eps·Σ_i Π_{j≠i}|λ_j|·|A|  (first-order perturbation of the product)
			var sens float64
			for i := range vals {
				p := 1.0
				for j := range vals {
					if j != i {
						p *= cmplx.Abs(vals[j])
					}
				}
				sens += p
			}
			if n <= 8 && cmplx.Abs(prod-complex(det, 0)) > 1e4*fn*eps*anorm*sens+1e-300 {
				t.Failf("%s: product of eigenvalues %v != det %v (A=%s)", kd.name, prod, det, fmtM(A))
			}
		}
		if fam == "tri" {
			got := append([]complex128(nil), vals...)
			sortComplex(got)
			want := make([]float64, n)
			for i := range want {
				want[i] = A.at(i, i)
			}
			sort.Float64s(want)
			for i := range got {
				if imag(got[i]) != 0 || math.Abs(real(got[i])-want[i]) > 1e-6 {
					t.Failf("%s: triangular matrix eigenvalues %v, diagonal %v", kd.name, got, want)
					break
				}
			}
		}
		if fam == "sym" || fam == "ident" {
			for _, l := range vals {
				if imag(l) != 0 {
					t.Failf("%s: symmetric matrix has complex eigenvalue %v", kd.name, l)
				}
			}
			got := make([]float64, n)
			for i := range got {
				got[i] = real(vals[i])
			}
			sort.Float64s(got)
			ref := jacobiEig(A)
			for i := range got {
				if math.Abs(got[i]-ref[i]) > tolResid*fn*eps*fn*anorm {
					t.Failf("%s: symmetric eigenvalue %v, Jacobi reference %v", kd.name, got[i], ref[i])
				}
			}
		}
		if firstVals == nil {
			firstVals = vals
		} else {
			// the eigenvalues do not depend on which vectors are requested (same order)
			for i := range vals {
				if cmplx.Abs(vals[i]-firstVals[i]) > 1e-6*math.Max(1, specRad) {
					t.Failf("%s: eigenvalue %d = %v, with kind None %v", kd.name, i, vals[i], firstVals[i])
				}
			}
		}
		checkVecs := func(which string, V *mat.CDense, left bool) {
			r, c := V.Dims()
			if r != n || c != n {
				t.Failf("%s: %s vectors %d×%d", kd.name, which, r, c)
				return
			}
			for j := 0; j < n; j++ {
				x := make([]complex128, n)
				var nrm float64
				big := 0
				for i := 0; i < n; i++ {
					x[i] = V.At(i, j)
					nrm += real(x[i])*real(x[i]) + imag(x[i])*imag(x[i])
					if cmplx.Abs(x[i]) > cmplx.Abs(x[big])*(1+1e-9) {
						big = i
					}
				}
				if math.Abs(math.Sqrt(nrm)-1) > tolResid*fn*eps {
					t.Failf("%s: %s vector %d has norm %v, documented 1", kd.name, which, j, math.Sqrt(nrm))
				}
				// ties in modulus: any of the (nearly) largest components may be the real one
				realOK := false
				for i := 0; i < n; i++ {
					if cmplx.Abs(x[i]) >= cmplx.Abs(x[big])*(1-1e-9) && math.Abs(imag(x[i])) <= tolResid*fn*eps {
						realOK = true
					}
				}
				if !realOK {
					t.Failf("%s: %s vector %d: largest component %v is not real", kd.name, which, j, x[big])
				}
				// residual: right A x = λ x ; left xᴴ A = λ xᴴ (LAPACK convention; xᵀA = λxᵀ accepted too, see NOTES)
				var res, resAlt float64
				for i := 0; i < n; i++ {
					var s, sAlt complex128
					for k := 0; k < n; k++ {
						if !left {
							s += complex(A.at(i, k), 0) * x[k]
						} else {
							s += cmplx.Conj(x[k]) * complex(A.at(k, i), 0)
							sAlt += x[k] * complex(A.at(k, i), 0)
						}
					}
					if !left {
						s -= vals[j] * x[i]
					} else {
						s -= vals[j] * cmplx.Conj(x[i])
						sAlt -= vals[j] * x[i]
					}
					res = math.Max(res, cmplx.Abs(s))
					resAlt = math.Max(resAlt, cmplx.Abs(sAlt))
				}
				if left && resAlt < res {
					res = resAlt
				}
				if r := res / (fn * eps * anorm); r > 10*tolResid || math.IsNaN(r) {
					t.Failf("%s: %s eigenpair %d (λ=%v) residual ratio %.3g A=%s", kd.name, which, j, vals[j], r, fmtM(A))
				}
			}
		}
		if kd.kind&mat.EigenRight != 0 {
			var V mat.CDense
			e.VectorsTo(&V)
			checkVecs("right", &V, false)
		} else {
			mustPanic(t, kd.name+": VectorsTo without right vectors", func() { e.VectorsTo(&mat.CDense{}) })
		}
		if kd.kind&mat.EigenLeft != 0 {
			var V mat.CDense
			e.LeftVectorsTo(&V)
			checkVecs("left", &V, true)
		} else {
			mustPanic(t, kd.name+": LeftVectorsTo without left vectors", func() { e.LeftVectorsTo(&mat.CDense{}) })
		}
	}
	t.Outcome(fmt.Sprintf("complex=%v", ncomplex > 0))
}
