package main

// Failed re-factorization histories: a receiver that holds a successful
// factorization is asked to factorize an input that is rejected — either through the
// documented failure result (ok == false) or through a documented panic (shape
// error, recovered). Afterwards every accessor is probed.
//
//   - ok == false: "If the decomposition failed, routines that require a successful
//     factorization will panic" (resp. the per-type wording): the receiver must then be
//     indistinguishable from a FRESH receiver on which the same failing call was made,
//     and on both the accessors marked `needs` must panic / report "not factorized".
//     In particular nothing of the previous factorization may remain observable.
//   - recovered panic: the documentation says nothing about the state; the receiver
//     must be consistent: either entirely the previous factorization (bit for bit) or
//     entirely what a fresh receiver is after the same panic. A mixture is a violation.

import (
	"fmt"
	"math"

	"gonum.org/v1/gonum/internal/verif/vlib"
	"gonum.org/v1/gonum/mat"
)

type probe struct {
	name  string
	needs bool // documented to require a successful factorization
	f     func() []float64
}

type probeResult struct {
	name     string
	needs    bool
	panicked bool
	vals     []float64
}

func runProbes(ps []probe) []probeResult {
	out := make([]probeResult, len(ps))
	for i, p := range ps {
		out[i] = probeResult{name: p.name, needs: p.needs}
		p := p
		if msg := recoverMsg(func() { out[i].vals = p.f() }); msg != "" {
			out[i].panicked, out[i].vals = true, nil
		}
	}
	return out
}

func sameProbes(a, b []probeResult) string {
	for i := range a {
		if a[i].panicked != b[i].panicked {
			return fmt.Sprintf("%s: panics=%v vs panics=%v", a[i].name, a[i].panicked, b[i].panicked)
		}
		if idx, ok := vlib.Same64(a[i].vals, b[i].vals); !ok {
			if idx < 0 {
				return fmt.Sprintf("%s: %d values vs %d", a[i].name, len(a[i].vals), len(b[i].vals))
			}
			return fmt.Sprintf("%s[%d]: %v vs %v", a[i].name, idx, a[i].vals[idx], b[i].vals[idx])
		}
	}
	return ""
}

func flat(m mat.Matrix) []float64 { return fromMat(m).d }
func b2f(b bool) []float64 {
	if b {
		return []float64{1}
	}
	return []float64{0}
}
func i2f(p []int) []float64 {
	s := make([]float64, len(p))
	for i, v := range p {
		s[i] = float64(v)
	}
	return s
}

// failedHistory runs the protocol. mk returns a new receiver as (first successful factorization,
// failing call returning (ok, panicked is detected by the harness), probes).
type failRecv struct {
	first  func()
	fail   func() bool // the failing call; returns ok
	probes []probe
}

func failedHistory(t *vlib.T, typ, mode string, mk func() failRecv, wantPanic bool) {
	t.Nontrivial()
	reused, fresh := mk(), mk()
	if msg := recoverMsg(reused.first); msg != "" {
		t.Failf("harness: first factorization panicked: %s", msg)
		return
	}
	old := runProbes(reused.probes)
	for _, r := range old {
		if r.panicked {
			t.Failf("harness/gonum: %s panics after the successful first factorization", r.name)
			return
		}
	}
	var ok1, ok2 bool
	p1 := recoverMsg(func() { ok1 = reused.fail() })
	p2 := recoverMsg(func() { ok2 = fresh.fail() })
	if (p1 != "") != (p2 != "") || ok1 != ok2 {
		t.Failf("%s %s: the failing call behaves differently on a re-used receiver (ok=%v panic=%q) and on a fresh one (ok=%v panic=%q)", typ, mode, ok1, p1, ok2, p2)
		return
	}
	if nanInput(mode) && (p1 != "" || ok1) {
		// NaN input is outside the property; it is only used because it makes the LAPACK
		// iterations report failure. Where it is accepted or rejected by a panic instead: don't care.
		t.Outcome(typ + " NaN-input-dontcare")
		return
	}
	if (p1 != "") != wantPanic {
		t.Failf("%s %s: expected panic=%v, got panic %q ok=%v", typ, mode, wantPanic, p1, ok1)
		return
	}
	if !wantPanic && ok1 {
		t.Failf("%s %s: Factorize returned true for an input that must be rejected", typ, mode)
		return
	}
	after := runProbes(reused.probes)
	ff := runProbes(fresh.probes)
	t.Count("failed_refactorization_histories", 1)
	if wantPanic {
		t.Outcome(typ + " panic")
		dOld, dFresh := sameProbes(after, old), sameProbes(after, ff)
		if dOld != "" && dFresh != "" {
			if cls := failClass(typ); cls != "" {
				finding(t, "panic-mixture", cls, "%s after a recovered %s panic on a re-used receiver: the state is neither the previous factorization (%s) nor that of a fresh receiver after the same panic (%s)", typ, mode, dOld, dFresh)
				return
			}
			t.Failf("%s after a recovered %s panic on a re-used receiver: the state is neither the previous factorization (%s) nor that of a fresh receiver after the same panic (%s)", typ, mode, dOld, dFresh)
		}
		return
	}
	t.Outcome(typ + " ok=false")
	if d := sameProbes(after, ff); d != "" {
		if cls := failClass(typ); cls != "" {
			finding(t, "stale-state", cls, "%s: after Factorize returned false (%s) the re-used receiver differs from a fresh receiver after the same failing call (state of the previous factorization survives): %s", typ, mode, d)
		} else {
			t.Failf("%s: after Factorize returned false (%s) the re-used receiver differs from a fresh receiver after the same failing call: %s", typ, mode, d)
		}
	}
	for i, r := range ff {
		if r.needs && !r.panicked {
			finding(t, "fresh-"+r.name, failClass(typ), "%s: %s does not panic on a fresh receiver whose Factorize returned false (%s): documented to require a successful factorization; returned %v", typ, r.name, mode, r.vals)
		}
		if after[i].needs && !after[i].panicked && r.panicked && failClass(typ) == "" {
			t.Failf("%s: %s does not panic on the re-used receiver after Factorize returned false (%s)", typ, r.name, mode)
		}
	}
}

// failClass names the finding class for accessors that keep working after a failed factorization.
func failClass(typ string) string {
	switch typ {
	case "SVD":
		return "svd-failed-factorize-not-invalidated"
	case "GSVD":
		return "gsvd-failed-factorize-not-invalidated"
	}
	return ""
}

func nanInput(mode string) bool { return len(mode) >= 9 && mode[:9] == "NaN-entry" }

func nanMat(r, c int) *M {
	a := genMat("dd", r, c, 0)
	a.set(r/2, c/2, math.NaN())
	return a
}

func genFailedRefactorize(g *vlib.G) {
	hi := vlib.Pick(g, 4, 5)
	add := func(typ, mode string, n1, n2 int, wantPanic bool, mk func() failRecv) {
		g.Case(fmt.Sprintf("failed-refactorize %s %s n1=%d n2=%d", typ, mode, n1, n2), func(t *vlib.T) {
			failedHistory(t, typ, mode, mk, wantPanic)
		})
	}
	for n1 := 1; n1 <= hi; n1++ {
		for n2 := 1; n2 <= hi; n2++ {
			n1, n2 := n1, n2
			rhs := func(n int) *mat.Dense { return rhsMat(n, 2, 0).dense() }

			// LU: non-square input panics (ErrSquare)
			add("LU", "non-square", n1, n2, true, func() failRecv {
				lu := new(mat.LU)
				return failRecv{
					first: func() { lu.Factorize(genMat("pivot", n1, n1, 0).dense()) },
					fail:  func() bool { lu.Factorize(genMat("dd", n2, n2+1, 1).dense()); return true },
					probes: []probe{
						{"Dims", false, func() []float64 { r, c := lu.Dims(); return []float64{float64(r), float64(c)} }},
						{"LTo", true, func() []float64 { var x mat.TriDense; lu.LTo(&x); return flat(&x) }},
						{"UTo", true, func() []float64 { var x mat.TriDense; lu.UTo(&x); return flat(&x) }},
						{"RowPivots", true, func() []float64 { return i2f(lu.RowPivots(nil)) }},
						{"Det", true, func() []float64 { return []float64{lu.Det()} }},
						{"Cond", true, func() []float64 { return []float64{lu.Cond()} }},
						{"SolveTo", true, func() []float64 {
							var x mat.Dense
							n, _ := lu.Dims()
							lu.SolveTo(&x, false, rhs(n))
							return flat(&x)
						}},
					}}
			})
			// QR / LQ: wrong orientation panics (ErrShape)
			add("QR", "wide", n1, n2, true, func() failRecv {
				qr := new(mat.QR)
				return failRecv{
					first: func() {
						qr.Factorize(genMat("dd", n1+1, n1, 0).dense())
						var q mat.Dense
						qr.QTo(&q) // fills the Q cache
					},
					fail: func() bool { qr.Factorize(genMat("dd", n2, n2+1, 1).dense()); return true },
					probes: []probe{
						{"Dims", false, func() []float64 { r, c := qr.Dims(); return []float64{float64(r), float64(c)} }},
						{"QTo", true, func() []float64 { var x mat.Dense; qr.QTo(&x); return flat(&x) }},
						{"RTo", true, func() []float64 { var x mat.Dense; qr.RTo(&x); return flat(&x) }},
						{"At", true, func() []float64 { return flat(qr) }},
						{"Cond", true, func() []float64 { return []float64{qr.Cond()} }},
						{"SolveTo", true, func() []float64 {
							var x mat.Dense
							r, _ := qr.Dims()
							qr.SolveTo(&x, false, rhs(r))
							return flat(&x)
						}},
					}}
			})
			add("LQ", "tall", n1, n2, true, func() failRecv {
				lq := new(mat.LQ)
				return failRecv{
					first: func() { lq.Factorize(genMat("dd", n1, n1+1, 0).dense()) },
					fail:  func() bool { lq.Factorize(genMat("dd", n2+1, n2, 1).dense()); return true },
					probes: []probe{
						{"Dims", false, func() []float64 { r, c := lq.Dims(); return []float64{float64(r), float64(c)} }},
						{"QTo", true, func() []float64 { var x mat.Dense; lq.QTo(&x); return flat(&x) }},
						{"LTo", true, func() []float64 { var x mat.Dense; lq.LTo(&x); return flat(&x) }},
						{"Cond", true, func() []float64 { return []float64{lq.Cond()} }},
						{"SolveTo", true, func() []float64 {
							var x mat.Dense
							r, _ := lq.Dims()
							lq.SolveTo(&x, false, rhs(r))
							return flat(&x)
						}},
					}}
			})
			// Cholesky family: not positive definite -> false
			for _, bad := range []string{"indef", "negdef", "psd-ones"} {
				bad := bad
				add("Cholesky", bad, n1, n2, false, func() failRecv {
					ch := new(mat.Cholesky)
					return failRecv{
						first: func() { ch.Factorize(repSym("sym", symMat("spd", n1, 0))) },
						fail:  func() bool { return ch.Factorize(repSym("sym", symMat(bad, n2, 0))) },
						probes: []probe{
							{"SymmetricDim", false, func() []float64 { return []float64{float64(ch.SymmetricDim())} }},
							{"IsEmpty", false, func() []float64 { return b2f(ch.IsEmpty()) }},
							{"RawU==nil", false, func() []float64 { return b2f(ch.RawU() == nil) }},
							{"UTo", true, func() []float64 { var x mat.TriDense; ch.UTo(&x); return flat(&x) }},
							{"LTo", true, func() []float64 { var x mat.TriDense; ch.LTo(&x); return flat(&x) }},
							{"ToSym", true, func() []float64 { var x mat.SymDense; ch.ToSym(&x); return flat(&x) }},
							{"Det", true, func() []float64 { return []float64{ch.Det()} }},
							{"LogDet", true, func() []float64 { return []float64{ch.LogDet()} }},
							{"Cond", true, func() []float64 { return []float64{ch.Cond()} }},
							{"SolveTo", true, func() []float64 { var x mat.Dense; ch.SolveTo(&x, rhs(ch.SymmetricDim())); return flat(&x) }},
							{"InverseTo", true, func() []float64 { var x mat.SymDense; ch.InverseTo(&x); return flat(&x) }},
						}}
				})
				if bad != "psd-ones" {
					add("BandCholesky", bad, n1, n2, false, func() failRecv {
						ch := new(mat.BandCholesky)
						return failRecv{
							first: func() { ch.Factorize(bandOf(bandSPD(n1, (n1-1)/2, 0), (n1-1)/2)) },
							fail: func() bool {
								a := bandSPD(n2, n2-1, 1)
								if bad == "indef" {
									a.set(n2-1, n2-1, -a.at(n2-1, n2-1))
								} else {
									a = scaleM(-1, a)
								}
								return ch.Factorize(bandOf(a, n2-1))
							},
							probes: []probe{
								{"SymmetricDim", false, func() []float64 { return []float64{float64(ch.SymmetricDim())} }},
								{"IsEmpty", false, func() []float64 { return b2f(ch.IsEmpty()) }},
								{"Det", true, func() []float64 { return []float64{ch.Det()} }},
								{"LogDet", true, func() []float64 { return []float64{ch.LogDet()} }},
								{"Cond", true, func() []float64 { return []float64{ch.Cond()} }},
								{"SolveTo", true, func() []float64 { var x mat.Dense; ch.SolveTo(&x, rhs(ch.SymmetricDim())); return flat(&x) }},
							}}
					})
				}
				if bad == "psd-ones" {
					// semi-definite input is documented for PivotedCholesky: ok == false, factor usable, solves panic
					add("PivotedCholesky", bad, n1, n2, false, func() failRecv {
						ch := new(mat.PivotedCholesky)
						return failRecv{
							first: func() { ch.Factorize(repSym("sym", symMat("spd", n1, 0)), -1) },
							fail:  func() bool { return ch.Factorize(repSym("sym", symMat(bad, n2, 0)), -1) },
							probes: []probe{
								{"SymmetricDim", false, func() []float64 { return []float64{float64(ch.SymmetricDim())} }},
								{"UTo", false, func() []float64 { var x mat.TriDense; ch.UTo(&x); return flat(&x) }},
								{"ColumnPivots", false, func() []float64 { return i2f(ch.ColumnPivots(nil)) }},
								{"Rank", false, func() []float64 { return []float64{float64(ch.Rank())} }},
								{"At", false, func() []float64 { return flat(ch) }},
								{"Cond", false, func() []float64 { return []float64{ch.Cond()} }},
								{"SolveTo", true, func() []float64 { var x mat.Dense; ch.SolveTo(&x, rhs(ch.SymmetricDim())); return flat(&x) }},
								{"SolveVecTo", true, func() []float64 {
									var x mat.VecDense
									ch.SolveVecTo(&x, mat.NewVecDense(ch.SymmetricDim(), nil))
									return flat(&x)
								}},
							}}
					})
				}
			}
			// SVD / EigenSym / GSVD: the LAPACK iteration reports failure for a NaN entry (ok == false)
			for _, kd := range []mat.SVDKind{mat.SVDFull, mat.SVDNone} {
				kd := kd
				add("SVD", fmt.Sprintf("NaN-entry kind=%d", kd), n1, n2, false, func() failRecv {
					svd := new(mat.SVD)
					return failRecv{
						first: func() { svd.Factorize(genMat("dd", n1+1, n1, 0).dense(), mat.SVDFull) },
						fail:  func() bool { return svd.Factorize(nanMat(n2, n2+1).dense(), kd) },
						probes: []probe{
							{"Kind", false, func() []float64 { return []float64{float64(svd.Kind())} }},
							{"Values", true, func() []float64 { return svd.Values(nil) }},
							{"Cond", true, func() []float64 { return []float64{svd.Cond()} }},
							{"Rank", true, func() []float64 { return []float64{float64(svd.Rank(1e-10))} }},
							{"UTo", true, func() []float64 { var x mat.Dense; svd.UTo(&x); return flat(&x) }},
							{"VTo", true, func() []float64 { var x mat.Dense; svd.VTo(&x); return flat(&x) }},
						}}
				})
			}
			add("EigenSym", "NaN-entry", n1, n2, false, func() failRecv {
				es := new(mat.EigenSym)
				return failRecv{
					first: func() { es.Factorize(repSym("sym", symMat("spd", n1, 0)), true) },
					fail: func() bool {
						a := symMat("spd", n2, 1)
						a.set(0, 0, math.NaN())
						return es.Factorize(userSym{a}, true)
					},
					probes: []probe{
						{"SymmetricDim", false, func() []float64 { return []float64{float64(es.SymmetricDim())} }},
						{"RawValues==nil", false, func() []float64 { return b2f(es.RawValues() == nil) }},
						{"RawQ==nil", false, func() []float64 { return b2f(es.RawQ() == nil) }},
						{"Values", true, func() []float64 { return es.Values(nil) }},
						{"VectorsTo", true, func() []float64 { var x mat.Dense; es.VectorsTo(&x); return flat(&x) }},
					}}
			})
			add("Eigen", "non-square", n1, n2, true, func() failRecv {
				e := new(mat.Eigen)
				return failRecv{
					first: func() { e.Factorize(eigenMat("rot", n1, 0).dense(), mat.EigenBoth) },
					fail:  func() bool { return e.Factorize(genMat("dd", n2, n2+1, 1).dense(), mat.EigenBoth) },
					probes: []probe{
						{"Kind", false, func() []float64 { return []float64{float64(e.Kind())} }},
						{"Values", true, func() []float64 {
							var s []float64
							for _, v := range e.Values(nil) {
								s = append(s, real(v), imag(v))
							}
							return s
						}},
						{"VectorsTo", true, func() []float64 { x := new(mat.CDense); e.VectorsTo(x); return cflat(x).d }},
						{"LeftVectorsTo", true, func() []float64 { x := new(mat.CDense); e.LeftVectorsTo(x); return cflat(x).d }},
					}}
			})
			gsvdProbes := func(gs *mat.GSVD) []probe {
				return []probe{
					{"Kind", false, func() []float64 { return []float64{float64(gs.Kind())} }},
					{"ValuesA", true, func() []float64 { return gs.ValuesA(nil) }},
					{"ValuesB", true, func() []float64 { return gs.ValuesB(nil) }},
					{"GeneralizedValues", true, func() []float64 { return gs.GeneralizedValues(nil) }},
					{"ZeroRTo", true, func() []float64 { var x mat.Dense; gs.ZeroRTo(&x); return flat(&x) }},
					{"SigmaATo", true, func() []float64 { var x mat.Dense; gs.SigmaATo(&x); return flat(&x) }},
					{"SigmaBTo", true, func() []float64 { var x mat.Dense; gs.SigmaBTo(&x); return flat(&x) }},
					{"UTo", true, func() []float64 { var x mat.Dense; gs.UTo(&x); return flat(&x) }},
					{"VTo", true, func() []float64 { var x mat.Dense; gs.VTo(&x); return flat(&x) }},
					{"QTo", true, func() []float64 { var x mat.Dense; gs.QTo(&x); return flat(&x) }},
				}
			}
			add("GSVD", "NaN-entry", n1, n2, false, func() failRecv {
				gs := new(mat.GSVD)
				return failRecv{
					first: func() { gs.Factorize(genMat("dd", n1+1, n1, 0).dense(), genMat("dd", n1, n1, 1).dense(), mat.GSVDAll) },
					fail: func() bool {
						return gs.Factorize(nanMat(n2+1, n2).dense(), genMat("dd", n2, n2, 1).dense(), mat.GSVDAll)
					},
					probes: gsvdProbes(gs)}
			})
			add("GSVD", "column-mismatch", n1, n2, true, func() failRecv {
				gs := new(mat.GSVD)
				return failRecv{
					first: func() { gs.Factorize(genMat("dd", n1+1, n1, 0).dense(), genMat("dd", n1, n1, 1).dense(), mat.GSVDAll) },
					fail: func() bool {
						return gs.Factorize(genMat("dd", n2+1, n2, 0).dense(), genMat("dd", n2, n2+1, 1).dense(), mat.GSVDAll)
					},
					probes: gsvdProbes(gs)}
			})
			// HOGSVD
			for _, mode := range []string{"first-wide", "second-wide", "first-zero-column", "second-zero-column", "column-mismatch", "too-few"} {
				mode := mode
				if mode == "first-wide" || mode == "second-wide" {
					if n2 < 2 {
						continue
					}
				}
				wantPanic := mode == "column-mismatch" || mode == "too-few"
				add("HOGSVD", mode, n1, n2, wantPanic, func() failRecv {
					h := new(mat.HOGSVD)
					return failRecv{
						first: func() {
							if !h.Factorize(genMat("dd", n1+1, n1, 0).dense(), genMat("pivot", n1, n1, 1).dense(), genMat("dd", n1+2, n1, 2).dense()) {
								panic(fmt.Sprint("first HOGSVD failed: ", h.Err()))
							}
						},
						fail: func() bool {
							good1, good2 := genMat("dd", n2+1, n2, 3), genMat("pivot", n2, n2, 4)
							switch mode {
							case "first-wide":
								return h.Factorize(genMat("dd", n2-1, n2, 0).dense(), good2.dense())
							case "second-wide":
								return h.Factorize(good1.dense(), genMat("dd", n2-1, n2, 0).dense())
							case "first-zero-column":
								return h.Factorize(genMat("zeroline", n2+1, n2, 0).dense(), good2.dense())
							case "second-zero-column":
								return h.Factorize(good1.dense(), genMat("zeroline", n2+1, n2, 0).dense())
							case "column-mismatch":
								return h.Factorize(good1.dense(), genMat("dd", n2+2, n2+1, 0).dense())
							default:
								return h.Factorize(good1.dense())
							}
						},
						probes: []probe{
							{"Len", false, func() []float64 { return []float64{float64(h.Len())} }},
							{"Err==nil", false, func() []float64 { return b2f(h.Err() == nil) }},
							{"VTo", true, func() []float64 { var x mat.Dense; h.VTo(&x); return flat(&x) }},
							{"UTo(0)", true, func() []float64 { var x mat.Dense; h.UTo(&x, 0); return flat(&x) }},
							{"UTo(1)", true, func() []float64 { var x mat.Dense; h.UTo(&x, 1); return flat(&x) }},
							{"Values(0)", true, func() []float64 { return h.Values(nil, 0) }},
							{"Values(1)", true, func() []float64 { return h.Values(nil, 1) }},
						}}
				})
			}
		}
	}
}
