package main

// Reference linear algebra written the dumb way: row-major float64 matrices
// with triple loops, a 320-bit math/big Gauss-Jordan for inverses,
// determinants and pseudo-inverses, exact math/big.Rat elimination for sign
// decisions, Jacobi iterations for eigen/singular values, a Taylor series for
// the matrix exponential. Nothing in this file calls gonum's mat factorizations.

import (
	"math"
	"math/big"
	"sort"

	"gonum.org/v1/gonum/mat"
)

const eps = 0x1p-52

// M is a plain row-major matrix.
type M struct {
	r, c int
	d    []float64
}

func newM(r, c int) *M               { return &M{r: r, c: c, d: make([]float64, r*c)} }
func (a *M) at(i, j int) float64     { return a.d[i*a.c+j] }
func (a *M) set(i, j int, v float64) { a.d[i*a.c+j] = v }
func (a *M) add(i, j int, v float64) { a.d[i*a.c+j] += v }
func (a *M) clone() *M               { b := newM(a.r, a.c); copy(b.d, a.d); return b }
func (a *M) dense() *mat.Dense       { return mat.NewDense(a.r, a.c, append([]float64(nil), a.d...)) }
func (a *M) col(j int) []float64 {
	v := make([]float64, a.r)
	for i := range v {
		v[i] = a.at(i, j)
	}
	return v
}

func (a *M) T() *M {
	b := newM(a.c, a.r)
	for i := 0; i < a.r; i++ {
		for j := 0; j < a.c; j++ {
			b.set(j, i, a.at(i, j))
		}
	}
	return b
}

func eyeM(n int) *M {
	a := newM(n, n)
	for i := 0; i < n; i++ {
		a.set(i, i, 1)
	}
	return a
}

// fromMat reads a gonum matrix through At only.
func fromMat(a mat.Matrix) *M {
	r, c := a.Dims()
	b := newM(r, c)
	for i := 0; i < r; i++ {
		for j := 0; j < c; j++ {
			b.set(i, j, a.At(i, j))
		}
	}
	return b
}

func mulM(a, b *M) *M {
	if a.c != b.r {
		panic("ref: mulM shape")
	}
	c := newM(a.r, b.c)
	for i := 0; i < a.r; i++ {
		for k := 0; k < a.c; k++ {
			aik := a.at(i, k)
			if aik == 0 {
				continue
			}
			for j := 0; j < b.c; j++ {
				c.d[i*c.c+j] += aik * b.d[k*b.c+j]
			}
		}
	}
	return c
}

func subM(a, b *M) *M {
	if a.r != b.r || a.c != b.c {
		panic("ref: subM shape")
	}
	c := newM(a.r, a.c)
	for i := range c.d {
		c.d[i] = a.d[i] - b.d[i]
	}
	return c
}

func scaleM(f float64, a *M) *M {
	c := newM(a.r, a.c)
	for i := range c.d {
		c.d[i] = f * a.d[i]
	}
	return c
}

// maxAbs returns max |a_ij|; NaN anywhere gives NaN.
func maxAbs(a *M) float64 {
	var m float64
	for _, v := range a.d {
		if math.IsNaN(v) {
			return math.NaN()
		}
		if v := math.Abs(v); v > m {
			m = v
		}
	}
	return m
}

func normF(a *M) float64 {
	var s float64
	for _, v := range a.d {
		s += v * v
	}
	return math.Sqrt(s)
}

func normInf(a *M) float64 {
	var m float64
	for i := 0; i < a.r; i++ {
		var s float64
		for j := 0; j < a.c; j++ {
			s += math.Abs(a.at(i, j))
		}
		if s > m {
			m = s
		}
	}
	return m
}

func norm1(a *M) float64 { return normInf(a.T()) }

// absMulMax returns max_ij (|a|·|b|)_ij, the natural scale of the rounding
// error of a computed product a·b.
func absMulMax(a, b *M) float64 {
	var m float64
	for i := 0; i < a.r; i++ {
		for j := 0; j < b.c; j++ {
			var s float64
			for k := 0; k < a.c; k++ {
				s += math.Abs(a.at(i, k) * b.at(k, j))
			}
			if s > m {
				m = s
			}
		}
	}
	return m
}

// orthoDefect returns max |QᵀQ − I| over the columns of q.
func orthoDefect(q *M) float64 {
	return maxAbs(subM(mulM(q.T(), q), eyeM(q.c)))
}

func isPerm(p []int) bool {
	seen := make([]bool, len(p))
	for _, v := range p {
		if v < 0 || v >= len(p) || seen[v] {
			return false
		}
		seen[v] = true
	}
	return true
}

func hasNaN(a *M) bool {
	for _, v := range a.d {
		if math.IsNaN(v) || math.IsInf(v, 0) {
			return true
		}
	}
	return false
}

// ---------------------------------------------------------------- math/big

const bprec = 320

type BM struct {
	r, c int
	d    []*big.Float
}

func bf(v float64) *big.Float { return new(big.Float).SetPrec(bprec).SetFloat64(v) }
func bz() *big.Float          { return new(big.Float).SetPrec(bprec) }

func newBM(r, c int) *BM {
	b := &BM{r: r, c: c, d: make([]*big.Float, r*c)}
	for i := range b.d {
		b.d[i] = bz()
	}
	return b
}

func bigFrom(a *M) *BM {
	b := &BM{r: a.r, c: a.c, d: make([]*big.Float, len(a.d))}
	for i, v := range a.d {
		b.d[i] = bf(v)
	}
	return b
}

func (b *BM) toM() *M {
	a := newM(b.r, b.c)
	for i, v := range b.d {
		a.d[i], _ = v.Float64()
	}
	return a
}

func (b *BM) T() *BM {
	t := &BM{r: b.c, c: b.r, d: make([]*big.Float, len(b.d))}
	for i := 0; i < b.r; i++ {
		for j := 0; j < b.c; j++ {
			t.d[j*t.c+i] = b.d[i*b.c+j]
		}
	}
	return t
}

func bigMul(a, b *BM) *BM {
	c := newBM(a.r, b.c)
	tmp := bz()
	for i := 0; i < a.r; i++ {
		for k := 0; k < a.c; k++ {
			aik := a.d[i*a.c+k]
			if aik.Sign() == 0 {
				continue
			}
			for j := 0; j < b.c; j++ {
				tmp.Mul(aik, b.d[k*b.c+j])
				c.d[i*c.c+j].Add(c.d[i*c.c+j], tmp)
			}
		}
	}
	return c
}

// bigInvDet returns the inverse and determinant of a square matrix by
// Gauss-Jordan elimination with partial pivoting in 320-bit arithmetic.
// ok is false if a pivot is smaller than 2^-200 times the largest entry (the
// input alphabets are dyadic rationals of a few bits, so a nonsingular matrix
// never gets near that).
func bigInvDet(a *BM) (inv *BM, det *big.Float, ok bool) {
	n := a.r
	w := newBM(n, 2*n)
	scale := bz()
	for i := 0; i < n; i++ {
		for j := 0; j < n; j++ {
			w.d[i*2*n+j].Set(a.d[i*n+j])
			if x := new(big.Float).Abs(a.d[i*n+j]); x.Cmp(scale) > 0 {
				scale.Set(x)
			}
		}
		w.d[i*2*n+n+i].SetInt64(1)
	}
	tiny := new(big.Float).SetPrec(bprec).SetMantExp(scale, -200)
	det = bf(1)
	tmp := bz()
	for k := 0; k < n; k++ {
		p := k
		best := new(big.Float).Abs(w.d[k*2*n+k])
		for i := k + 1; i < n; i++ {
			if x := new(big.Float).Abs(w.d[i*2*n+k]); x.Cmp(best) > 0 {
				best, p = x, i
			}
		}
		if best.Cmp(tiny) <= 0 {
			return nil, bz(), false
		}
		if p != k {
			for j := 0; j < 2*n; j++ {
				w.d[k*2*n+j], w.d[p*2*n+j] = w.d[p*2*n+j], w.d[k*2*n+j]
			}
			det.Neg(det)
		}
		piv := new(big.Float).SetPrec(bprec).Set(w.d[k*2*n+k])
		det.Mul(det, piv)
		for j := 0; j < 2*n; j++ {
			w.d[k*2*n+j].Quo(w.d[k*2*n+j], piv)
		}
		for i := 0; i < n; i++ {
			if i == k || w.d[i*2*n+k].Sign() == 0 {
				continue
			}
			f := new(big.Float).SetPrec(bprec).Set(w.d[i*2*n+k])
			for j := k; j < 2*n; j++ {
				tmp.Mul(f, w.d[k*2*n+j])
				w.d[i*2*n+j].Sub(w.d[i*2*n+j], tmp)
			}
		}
	}
	inv = newBM(n, n)
	for i := 0; i < n; i++ {
		for j := 0; j < n; j++ {
			inv.d[i*n+j] = w.d[i*2*n+n+j]
		}
	}
	return inv, det, true
}

// pinvRef returns the Moore-Penrose inverse of a full-rank matrix from its
// definition ((AᵀA)⁻¹Aᵀ, A⁻¹ or Aᵀ(AAᵀ)⁻¹) rounded to float64, and ok=false
// if the matrix does not have full rank.
func pinvRef(a *M) (*M, bool) {
	A := bigFrom(a)
	switch {
	case a.r == a.c:
		inv, _, ok := bigInvDet(A)
		if !ok {
			return nil, false
		}
		return inv.toM(), true
	case a.r > a.c:
		g, _, ok := bigInvDet(bigMul(A.T(), A))
		if !ok {
			return nil, false
		}
		return bigMul(g, A.T()).toM(), true
	default:
		g, _, ok := bigInvDet(bigMul(A, A.T()))
		if !ok {
			return nil, false
		}
		return bigMul(A.T(), g).toM(), true
	}
}

// detRef returns the determinant rounded to float64 (0 for a singular matrix).
func detRef(a *M) float64 {
	_, d, ok := bigInvDet(bigFrom(a))
	if !ok {
		return 0
	}
	f, _ := d.Float64()
	return f
}

// bigExpRef is the Taylor series Σ A^k/k! in 320-bit arithmetic, summed until
// the terms are below 2^-250.
func bigExpRef(a *M) *M {
	n := a.r
	A := bigFrom(a)
	sum := newBM(n, n)
	term := newBM(n, n)
	for i := 0; i < n; i++ {
		sum.d[i*n+i].SetInt64(1)
		term.d[i*n+i].SetInt64(1)
	}
	small := new(big.Float).SetPrec(bprec).SetMantExp(bf(1), -250)
	for k := 1; k < 2000; k++ {
		term = bigMul(term, A)
		kk := bf(float64(k))
		mx := bz()
		for i := range term.d {
			term.d[i].Quo(term.d[i], kk)
			sum.d[i].Add(sum.d[i], term.d[i])
			if x := new(big.Float).Abs(term.d[i]); x.Cmp(mx) > 0 {
				mx.Set(x)
			}
		}
		if float64(k) > 2*normInf(a) && mx.Cmp(small) < 0 {
			break
		}
	}
	return sum.toM()
}

// ---------------------------------------------------------------- exact (Rat)

// ratElim runs fraction arithmetic Gaussian elimination without pivoting
// choice other than "first nonzero" and returns the sign of the determinant
// and the rank.
func ratElim(a *M) (detSign, rank int) {
	n, m := a.r, a.c
	w := make([][]*big.Rat, n)
	for i := range w {
		w[i] = make([]*big.Rat, m)
		for j := range w[i] {
			w[i][j] = new(big.Rat)
			w[i][j].SetFloat64(a.at(i, j))
		}
	}
	sign := 1
	row := 0
	tmp := new(big.Rat)
	for col := 0; col < m && row < n; col++ {
		p := -1
		for i := row; i < n; i++ {
			if w[i][col].Sign() != 0 {
				p = i
				break
			}
		}
		if p < 0 {
			continue
		}
		if p != row {
			w[p], w[row] = w[row], w[p]
			sign = -sign
		}
		sign *= w[row][col].Sign()
		for i := row + 1; i < n; i++ {
			if w[i][col].Sign() == 0 {
				continue
			}
			f := new(big.Rat).Quo(w[i][col], w[row][col])
			for j := col; j < m; j++ {
				tmp.Mul(f, w[row][j])
				w[i][j].Sub(w[i][j], tmp)
			}
		}
		row++
	}
	rank = row
	if n != m || rank < n {
		return 0, rank
	}
	return sign, rank
}

// leadingMinorsNonzero reports whether every leading principal minor of the
// square matrix is nonzero (exactly), i.e. whether LU without row exchanges exists.
func leadingMinorsNonzero(a *M) bool {
	n := a.r
	for k := 1; k <= n; k++ {
		s := newM(k, k)
		for i := 0; i < k; i++ {
			for j := 0; j < k; j++ {
				s.set(i, j, a.at(i, j))
			}
		}
		if d, _ := ratElim(s); d == 0 {
			return false
		}
	}
	return true
}

// ---------------------------------------------------------------- Jacobi

// jacobiEig returns the eigenvalues (ascending) of a symmetric matrix by the
// cyclic two-sided Jacobi method.
func jacobiEig(s *M) []float64 {
	n := s.r
	a := s.clone()
	for sweep := 0; sweep < 60; sweep++ {
		var off float64
		for i := 0; i < n; i++ {
			for j := i + 1; j < n; j++ {
				off += a.at(i, j) * a.at(i, j)
			}
		}
		if off == 0 {
			break
		}
		for p := 0; p < n; p++ {
			for q := p + 1; q < n; q++ {
				apq := a.at(p, q)
				if apq == 0 {
					continue
				}
				theta := (a.at(q, q) - a.at(p, p)) / (2 * apq)
				t := 1 / (math.Abs(theta) + math.Sqrt(theta*theta+1))
				if theta < 0 {
					t = -t
				}
				c := 1 / math.Sqrt(t*t+1)
				sn := t * c
				for k := 0; k < n; k++ {
					akp, akq := a.at(k, p), a.at(k, q)
					a.set(k, p, c*akp-sn*akq)
					a.set(k, q, sn*akp+c*akq)
				}
				for k := 0; k < n; k++ {
					apk, aqk := a.at(p, k), a.at(q, k)
					a.set(p, k, c*apk-sn*aqk)
					a.set(q, k, sn*apk+c*aqk)
				}
			}
		}
	}
	v := make([]float64, n)
	for i := range v {
		v[i] = a.at(i, i)
	}
	sort.Float64s(v)
	return v
}

// jacobiSV returns the min(m,n) singular values (descending) by one-sided
// (Hestenes) Jacobi on the columns of the taller orientation.
func jacobiSV(a0 *M) []float64 {
	a := a0.clone()
	if a.r < a.c {
		a = a.T()
	}
	m, n := a.r, a.c
	for sweep := 0; sweep < 60; sweep++ {
		rotated := false
		for p := 0; p < n; p++ {
			for q := p + 1; q < n; q++ {
				var alpha, beta, gamma float64
				for k := 0; k < m; k++ {
					alpha += a.at(k, p) * a.at(k, p)
					beta += a.at(k, q) * a.at(k, q)
					gamma += a.at(k, p) * a.at(k, q)
				}
				if gamma == 0 || math.Abs(gamma) <= 1e-17*math.Sqrt(alpha*beta) {
					continue
				}
				rotated = true
				zeta := (beta - alpha) / (2 * gamma)
				t := 1 / (math.Abs(zeta) + math.Sqrt(1+zeta*zeta))
				if zeta < 0 {
					t = -t
				}
				c := 1 / math.Sqrt(1+t*t)
				s := c * t
				for k := 0; k < m; k++ {
					x, y := a.at(k, p), a.at(k, q)
					a.set(k, p, c*x-s*y)
					a.set(k, q, s*x+c*y)
				}
			}
		}
		if !rotated {
			break
		}
	}
	sv := make([]float64, n)
	for j := 0; j < n; j++ {
		var s float64
		for k := 0; k < m; k++ {
			s += a.at(k, j) * a.at(k, j)
		}
		sv[j] = math.Sqrt(s)
	}
	sort.Sort(sort.Reverse(sort.Float64Slice(sv)))
	return sv
}

// relClose reports |a-b| <= tol*max(|a|,|b|) (and handles exact equality).
func relClose(a, b, tol float64) bool {
	if a == b {
		return true
	}
	return math.Abs(a-b) <= tol*math.Max(math.Abs(a), math.Abs(b))
}
