package main

// Receiver-reuse histories for every factorization type:
//
//	Factorize(A1) → every accessor / solve once → Factorize(A2) on the SAME receiver → every accessor / solve again
//
// with A2 of (a) the same shape and other values, (b) another shape, and, where a
// factorization can fail, (c) A1 being a matrix for which Factorize returns false.
// After the second factorization every observation must be bit-for-bit what a FRESH
// receiver reports for A2 (so nothing of A1 — cached Q, old vectors, old pivots, old
// kind — survives), the matrix types must still reproduce A2 through At, and the
// results extracted after the first factorization must be unchanged (the *To methods
// and Values return copies, not views of storage that is recycled).

import (
	"fmt"
	"math"
	"strings"

	"gonum.org/v1/gonum/internal/verif/vlib"
	"gonum.org/v1/gonum/mat"
)

// obs is one named observation: the values at observation time and a way to
// re-read the destination object later.
type obs struct {
	name string
	vals []float64
	live func() []float64
}

type observer struct{ list []obs }

func (o *observer) mat(name string, m mat.Matrix) {
	o.list = append(o.list, obs{name, append([]float64(nil), fromMat(m).d...), func() []float64 { return fromMat(m).d }})
}

// self records the receiver read through At (a snapshot only: the receiver itself is
// of course allowed to change when it is re-factorized).
func (o *observer) self(name string, m mat.Matrix) {
	o.list = append(o.list, obs{name, append([]float64(nil), fromMat(m).d...), nil})
}
func (o *observer) floats(name string, s []float64) {
	o.list = append(o.list, obs{name, append([]float64(nil), s...), func() []float64 { return s }})
}
func (o *observer) scalar(name string, v ...float64) {
	o.list = append(o.list, obs{name, v, nil})
}
func (o *observer) ints(name string, p []int) {
	f := func() []float64 {
		s := make([]float64, len(p))
		for i, v := range p {
			s[i] = float64(v)
		}
		return s
	}
	o.list = append(o.list, obs{name, f(), f})
}
func (o *observer) cmat(name string, m *mat.CDense) {
	f := func() []float64 {
		r, c := m.Dims()
		s := make([]float64, 0, 2*r*c)
		for i := 0; i < r; i++ {
			for j := 0; j < c; j++ {
				s = append(s, real(m.At(i, j)), imag(m.At(i, j)))
			}
		}
		return s
	}
	o.list = append(o.list, obs{name, f(), f})
}
func (o *observer) err(name string, e error) {
	v := 0.0
	if e != nil {
		v = 1
		if ce, ok := e.(mat.Condition); ok {
			v = float64(ce)
		}
	}
	o.scalar(name, v)
}

// sameObs compares two observation lists bit for bit.
func sameObs(a, b []obs) string {
	if len(a) != len(b) {
		for i := 0; i < len(a) && i < len(b); i++ {
			if a[i].name != b[i].name {
				return fmt.Sprintf("%d observations vs %d: the first has %q (%v) where the second has %q (%v)", len(a), len(b), a[i].name, a[i].vals, b[i].name, b[i].vals)
			}
			if _, ok := vlib.Same64(a[i].vals, b[i].vals); !ok {
				return fmt.Sprintf("%d observations vs %d; %s: %v vs %v", len(a), len(b), a[i].name, a[i].vals, b[i].vals)
			}
		}
		return fmt.Sprintf("%d observations vs %d", len(a), len(b))
	}
	for i := range a {
		if a[i].name != b[i].name {
			return fmt.Sprintf("observation %d is %s vs %s", i, a[i].name, b[i].name)
		}
		if idx, ok := vlib.Same64(a[i].vals, b[i].vals); !ok {
			if idx < 0 {
				return fmt.Sprintf("%s: %d values vs %d", a[i].name, len(a[i].vals), len(b[i].vals))
			}
			return fmt.Sprintf("%s[%d]: %v vs %v", a[i].name, idx, a[i].vals[idx], b[i].vals[idx])
		}
	}
	return ""
}

// reuseProtocol runs the history on one receiver and on a fresh one.
// factorize(receiverIndex, which) factorizes matrix 1 or 2 into receiver 0 (reused) or 1 (fresh);
// observe(receiverIndex, which) calls every accessor of that receiver.
func reuseProtocol(t *vlib.T, factorize func(recv, which int), observe func(recv, which int) *observer) {
	t.Nontrivial()
	var o1, o2, of *observer
	if msg := recoverMsg(func() {
		factorize(0, 1)
		o1 = observe(0, 1)
		factorize(0, 2)
	}); msg != "" {
		t.Failf("panic while re-factorizing on the same receiver: %s", msg)
		return
	}
	// copies handed out after the first factorization must not have changed
	for _, ob := range o1.list {
		if ob.live == nil {
			continue
		}
		if idx, ok := vlib.Same64(ob.vals, ob.live()); !ok {
			t.Failf("%s obtained after the first factorization changed when the receiver was re-factorized (index %d)", ob.name, idx)
		}
	}
	if msg := recoverMsg(func() { o2 = observe(0, 2) }); msg != "" {
		t.Failf("panic in an accessor after re-factorizing: %s", msg)
		return
	}
	if msg := recoverMsg(func() {
		factorize(1, 2)
		of = observe(1, 2)
	}); msg != "" {
		t.Failf("panic on the fresh receiver (harness or gonum): %s", msg)
		return
	}
	if d := sameObs(o2.list, of.list); d != "" {
		// Two runs of the same calls on the same input that differ are a violation in
		// themselves, also when the difference comes from uninitialised workspace and
		// does not reproduce: no confirmation re-runs.
		t.NoConfirm()
		t.Failf("re-used receiver differs from a fresh receiver: %s", d)
	}
	// a second round of accessors on the re-used receiver gives the same again (caches filled by the first round)
	var o3 *observer
	if msg := recoverMsg(func() { o3 = observe(0, 2) }); msg != "" {
		t.Failf("panic in the second accessor round: %s", msg)
		return
	}
	drop := func(l []obs) []obs {
		var out []obs
		for _, ob := range l {
			if ob.name != "At (before QTo)" { // QR.At uses the reflectors only until Q is cached: other rounding
				out = append(out, ob)
			}
		}
		return out
	}
	if d := sameObs(drop(o3.list), drop(o2.list)); d != "" {
		t.NoConfirm()
		t.Failf("second round of accessors differs from the first: %s", d)
	}
	t.Count("reuse_histories", 1)
	if f := strings.Fields(t.Key); len(f) >= 5 {
		shape := "other-shape"
		if f[2] == f[4] {
			shape = "same-shape"
		}
		t.Outcome(f[1] + " " + shape)
	}
}

// closeTo checks a Matrix-typed factorization against the matrix it represents.
func closeTo(t *vlib.T, what string, got mat.Matrix, want *M) {
	g := fromMat(got)
	if g.r != want.r || g.c != want.c {
		t.Failf("%s is %d×%d want %d×%d", what, g.r, g.c, want.r, want.c)
		return
	}
	n := float64(max(want.r, want.c))
	if r := maxAbs(subM(g, want)) / (n * eps * n * math.Max(maxAbs(want), 1e-300)); r > tolResid || math.IsNaN(r) {
		t.Failf("%s does not reproduce the second matrix (ratio %.3g): got %s want %s", what, r, fmtM(g), fmtM(want))
	}
}

type shape2 struct{ m, n int }

func genReuse(g *vlib.G) {
	hi := vlib.Pick(g, 5, 6)
	var sq []shape2
	for n := 1; n <= hi; n++ {
		sq = append(sq, shape2{n, n})
	}
	rect := []shape2{{1, 1}, {2, 2}, {3, 2}, {2, 3}, {3, 3}, {4, 2}, {2, 4}, {4, 3}, {4, 4}, {5, 3}, {3, 5}, {5, 5}, {6, 2}}
	if g.Thorough() {
		rect = append(rect, shape2{2, 6}, shape2{6, 6}, shape2{7, 4}, shape2{4, 7}, shape2{33, 32}, shape2{32, 33})
	}
	add := func(typ string, s1, s2 shape2, extra string, run func(t *vlib.T)) {
		g.Case(fmt.Sprintf("reuse %s %dx%d -> %dx%d %s", typ, s1.m, s1.n, s2.m, s2.n, extra), run)
	}
	for _, s1 := range sq {
		for _, s2 := range sq {
			s1, s2 := s1, s2
			for _, first := range []string{"ok", "singular"} {
				first := first
				add("LU", s1, s2, "first="+first, func(t *vlib.T) { reuseLU(t, s1.n, s2.n, first) })
			}
			for _, first := range []string{"ok", "notpd"} {
				first := first
				add("Cholesky", s1, s2, "first="+first, func(t *vlib.T) { reuseChol(t, s1.n, s2.n, first) })
				add("PivotedCholesky", s1, s2, "first="+first, func(t *vlib.T) { reusePChol(t, s1.n, s2.n, first) })
				seen := map[int]bool{}
				for _, k2 := range []int{0, 1, s2.n - 1} {
					if k2 >= s2.n || seen[k2] {
						continue
					}
					seen[k2] = true
					k2 := k2
					add("BandCholesky", s1, s2, fmt.Sprintf("first=%s k2=%d", first, k2), func(t *vlib.T) { reuseBandChol(t, s1.n, s2.n, k2, first) })
				}
			}
			for _, v1 := range []bool{true, false} {
				for _, v2 := range []bool{true, false} {
					v1, v2 := v1, v2
					add("EigenSym", s1, s2, fmt.Sprintf("vectors=%v->%v", v1, v2), func(t *vlib.T) { reuseEigenSym(t, s1.n, s2.n, v1, v2) })
				}
			}
			for _, k1 := range []mat.EigenKind{mat.EigenBoth, mat.EigenNone} {
				for _, k2 := range []mat.EigenKind{mat.EigenBoth, mat.EigenLeft, mat.EigenRight, mat.EigenNone} {
					k1, k2 := k1, k2
					add("Eigen", s1, s2, fmt.Sprintf("kind=%d->%d", k1, k2), func(t *vlib.T) { reuseEigen(t, s1.n, s2.n, k1, k2) })
				}
			}
		}
	}
	for _, s1 := range rect {
		for _, s2 := range rect {
			s1, s2 := s1, s2
			if s1.m >= s1.n && s2.m >= s2.n {
				add("QR", s1, s2, "", func(t *vlib.T) { reuseQR(t, s1, s2) })
			}
			if s1.m <= s1.n && s2.m <= s2.n {
				add("LQ", s1, s2, "", func(t *vlib.T) { reuseLQ(t, s1, s2) })
			}
			for _, k1 := range []mat.SVDKind{mat.SVDFull, mat.SVDThin, mat.SVDNone} {
				for _, k2 := range []mat.SVDKind{mat.SVDFull, mat.SVDThin, mat.SVDThinU | mat.SVDFullV, mat.SVDFullU, mat.SVDNone} {
					k1, k2 := k1, k2
					add("SVD", s1, s2, fmt.Sprintf("kind=%d->%d", k1, k2), func(t *vlib.T) { reuseSVD(t, s1, s2, k1, k2) })
				}
			}
			for _, k1 := range []mat.GSVDKind{mat.GSVDAll, mat.GSVDNone} {
				for _, k2 := range []mat.GSVDKind{mat.GSVDAll, mat.GSVDU | mat.GSVDQ, mat.GSVDV, mat.GSVDNone} {
					k1, k2 := k1, k2
					add("GSVD", s1, s2, fmt.Sprintf("kind=%d->%d", k1, k2), func(t *vlib.T) { reuseGSVD(t, s1, s2, k1, k2) })
				}
			}
			if s1.m >= s1.n && s2.m >= s2.n {
				for _, cnt := range [][2]int{{2, 2}, {3, 2}, {2, 3}} {
					cnt := cnt
					add("HOGSVD", s1, s2, fmt.Sprintf("count=%d->%d", cnt[0], cnt[1]), func(t *vlib.T) { reuseHOGSVD(t, s1, s2, cnt[0], cnt[1]) })
				}
			}
		}
	}
}

// the two matrices of a history: different fill variants so that equal shapes have other values
func pairGen(fam string, s1, s2 shape2) (*M, *M) {
	return genMat(fam, s1.m, s1.n, 0), genMat(fam, s2.m, s2.n, 1)
}

func reuseLU(t *vlib.T, n1, n2 int, first string) {
	A1, A2 := pairGen("pivot", shape2{n1, n1}, shape2{n2, n2})
	if first == "singular" {
		A1 = genMat("zeroline", n1, n1, 0)
	}
	B := rhsMat(n2, 2, 0)
	B1 := rhsMat(n1, 2, 0)
	recv := [2]*mat.LU{new(mat.LU), new(mat.LU)}
	reuseProtocol(t,
		func(r, w int) { recv[r].Factorize(map[int]*M{1: A1, 2: A2}[w].dense()) },
		func(r, w int) *observer {
			lu, b := recv[r], B
			if w == 1 {
				b = B1
			}
			o := &observer{}
			var L, U mat.TriDense
			lu.LTo(&L)
			lu.UTo(&U)
			o.mat("LTo", &L)
			o.mat("UTo", &U)
			o.ints("RowPivots", lu.RowPivots(nil))
			o.self("At", lu)
			o.scalar("Det", lu.Det())
			ld, sg := lu.LogDet()
			o.scalar("LogDet", ld, sg)
			o.scalar("Cond", lu.Cond())
			for _, tr := range []bool{false, true} {
				var x mat.Dense
				o.err(fmt.Sprintf("SolveTo(%v) err", tr), lu.SolveTo(&x, tr, b.dense()))
				if !x.IsEmpty() {
					o.mat(fmt.Sprintf("SolveTo(%v)", tr), &x)
				}
				var xv mat.VecDense
				o.err(fmt.Sprintf("SolveVecTo(%v) err", tr), lu.SolveVecTo(&xv, tr, mat.NewVecDense(b.r, b.col(0))))
				if !xv.IsEmpty() {
					o.mat(fmt.Sprintf("SolveVecTo(%v)", tr), &xv)
				}
				var xu mat.Dense
				o.err(fmt.Sprintf("SolveTo(%v, user b) err", tr), lu.SolveTo(&xu, tr, userMat{b}))
				var xvu mat.VecDense
				o.err(fmt.Sprintf("SolveVecTo(%v, user b) err", tr), lu.SolveVecTo(&xvu, tr, userVec{b.col(1)}))
				if !xu.IsEmpty() {
					o.mat(fmt.Sprintf("SolveTo(%v, user b)", tr), &xu)
					o.mat(fmt.Sprintf("SolveVecTo(%v, user b)", tr), &xvu)
				}
			}
			return o
		})
	closeTo(t, "LU.At", recv[0], A2)
}

func symPair(n1, n2 int, first string) (*M, *M) {
	A1, A2 := symMat("spd", n1, 0), symMat("spd-dd", n2, 1)
	if first == "notpd" {
		A1 = symMat("indef", n1, 0)
	}
	return A1, A2
}

func reuseChol(t *vlib.T, n1, n2 int, first string) {
	A1, A2 := symPair(n1, n2, first)
	recv := [2]*mat.Cholesky{new(mat.Cholesky), new(mat.Cholesky)}
	okFirst := false
	reuseProtocol(t,
		func(r, w int) {
			ok := recv[r].Factorize(repSym("sym", map[int]*M{1: A1, 2: A2}[w]))
			if w == 1 {
				okFirst = ok
			} else if !ok {
				panic("harness: second matrix not positive definite")
			}
		},
		func(r, w int) *observer {
			o := &observer{}
			ch := recv[r]
			if w == 1 && !okFirst {
				o.scalar("IsEmpty", map[bool]float64{true: 1}[ch.IsEmpty()])
				return o
			}
			n := ch.SymmetricDim()
			var U, L mat.TriDense
			var S mat.SymDense
			ch.UTo(&U)
			ch.LTo(&L)
			ch.ToSym(&S)
			o.mat("UTo", &U)
			o.mat("LTo", &L)
			o.mat("ToSym", &S)
			o.self("At", ch)
			o.scalar("Det", ch.Det())
			o.scalar("LogDet", ch.LogDet())
			o.scalar("Cond", ch.Cond())
			b := rhsMat(n, 2, 0)
			var x mat.Dense
			o.err("SolveTo err", ch.SolveTo(&x, b.dense()))
			o.mat("SolveTo", &x)
			var xv mat.VecDense
			o.err("SolveVecTo err", ch.SolveVecTo(&xv, mat.NewVecDense(n, b.col(1))))
			o.mat("SolveVecTo", &xv)
			var inv mat.SymDense
			o.err("InverseTo err", ch.InverseTo(&inv))
			o.mat("InverseTo", &inv)
			return o
		})
	closeTo(t, "Cholesky.At", recv[0], A2)
}

func reusePChol(t *vlib.T, n1, n2 int, first string) {
	A1, A2 := symPair(n1, n2, first)
	if first == "notpd" {
		A1 = symMat("psd-ones", n1, 0) // semi-definite: documented input, ok == false
	}
	recv := [2]*mat.PivotedCholesky{new(mat.PivotedCholesky), new(mat.PivotedCholesky)}
	oks := map[[2]int]bool{}
	reuseProtocol(t,
		func(r, w int) { oks[[2]int{r, w}] = recv[r].Factorize(repSym("sym", map[int]*M{1: A1, 2: A2}[w]), -1) },
		func(r, w int) *observer {
			o := &observer{}
			ch := recv[r]
			n := ch.SymmetricDim()
			var U mat.TriDense
			ch.UTo(&U)
			o.mat("UTo", &U)
			o.ints("ColumnPivots", ch.ColumnPivots(nil))
			o.scalar("Rank", float64(ch.Rank()))
			o.self("At", ch)
			o.scalar("Cond", ch.Cond())
			o.scalar("ok", map[bool]float64{true: 1}[oks[[2]int{r, w}]])
			if oks[[2]int{r, w}] {
				b := rhsMat(n, 2, 0)
				var x mat.Dense
				o.err("SolveTo err", ch.SolveTo(&x, b.dense()))
				o.mat("SolveTo", &x)
				var xv mat.VecDense
				o.err("SolveVecTo err", ch.SolveVecTo(&xv, mat.NewVecDense(n, b.col(1))))
				o.mat("SolveVecTo", &xv)
			}
			return o
		})
	closeTo(t, "PivotedCholesky.At", recv[0], A2)
}

func bandOf(a *M, k int) *mat.SymBandDense {
	n := a.r
	sb := mat.NewSymBandDense(n, k, nil)
	for i := 0; i < n; i++ {
		for j := i; j < n && j <= i+k; j++ {
			sb.SetSymBand(i, j, a.at(i, j))
		}
	}
	return sb
}

func reuseBandChol(t *vlib.T, n1, n2, k2 int, first string) {
	k1 := (n1 - 1) / 2
	A1, A2 := bandSPD(n1, k1, 0), bandSPD(n2, k2, 1)
	if first == "notpd" {
		A1.set(n1-1, n1-1, -A1.at(n1-1, n1-1))
	}
	recv := [2]*mat.BandCholesky{new(mat.BandCholesky), new(mat.BandCholesky)}
	okFirst := false
	reuseProtocol(t,
		func(r, w int) {
			var ok bool
			if w == 1 {
				ok = recv[r].Factorize(bandOf(A1, k1))
				okFirst = ok
			} else if ok = recv[r].Factorize(bandOf(A2, k2)); !ok {
				panic("harness: second band matrix not positive definite")
			}
		},
		func(r, w int) *observer {
			o := &observer{}
			ch := recv[r]
			if w == 1 && !okFirst {
				o.scalar("IsEmpty", map[bool]float64{true: 1}[ch.IsEmpty()])
				return o
			}
			n, k := ch.SymBand()
			o.scalar("SymBand", float64(n), float64(k))
			o.self("At", ch)
			o.scalar("Det", ch.Det())
			o.scalar("LogDet", ch.LogDet())
			o.scalar("Cond", ch.Cond())
			b := rhsMat(n, 2, 0)
			var x mat.Dense
			o.err("SolveTo err", ch.SolveTo(&x, b.dense()))
			o.mat("SolveTo", &x)
			var xv mat.VecDense
			o.err("SolveVecTo err", ch.SolveVecTo(&xv, mat.NewVecDense(n, b.col(1))))
			o.mat("SolveVecTo", &xv)
			return o
		})
	closeTo(t, "BandCholesky.At", recv[0], A2)
}

func reuseQR(t *vlib.T, s1, s2 shape2) {
	A1, A2 := pairGen("dd", s1, s2)
	recv := [2]*mat.QR{new(mat.QR), new(mat.QR)}
	reuseProtocol(t,
		func(r, w int) { recv[r].Factorize(map[int]*M{1: A1, 2: A2}[w].dense()) },
		func(r, w int) *observer {
			o := &observer{}
			qr := recv[r]
			m, n := qr.Dims()
			o.self("At (before QTo)", qr)
			var Q, R mat.Dense
			qr.QTo(&Q)
			qr.RTo(&R)
			o.mat("QTo", &Q)
			o.mat("RTo", &R)
			o.self("At (after QTo)", qr)
			o.scalar("Cond", qr.Cond())
			for _, tr := range []bool{false, true} {
				rows := m
				if tr {
					rows = n
				}
				b := rhsMat(rows, 2, 0)
				var x mat.Dense
				o.err(fmt.Sprintf("SolveTo(%v) err", tr), qr.SolveTo(&x, tr, b.dense()))
				o.mat(fmt.Sprintf("SolveTo(%v)", tr), &x)
				var xv mat.VecDense
				o.err(fmt.Sprintf("SolveVecTo(%v) err", tr), qr.SolveVecTo(&xv, tr, mat.NewVecDense(rows, b.col(1))))
				o.mat(fmt.Sprintf("SolveVecTo(%v)", tr), &xv)
				var xu mat.Dense
				o.err(fmt.Sprintf("SolveTo(%v, user b) err", tr), qr.SolveTo(&xu, tr, userMat{b}))
				o.mat(fmt.Sprintf("SolveTo(%v, user b)", tr), &xu)
				var xvu mat.VecDense
				o.err(fmt.Sprintf("SolveVecTo(%v, user b) err", tr), qr.SolveVecTo(&xvu, tr, userVec{b.col(1)}))
				o.mat(fmt.Sprintf("SolveVecTo(%v, user b)", tr), &xvu)
			}
			return o
		})
	closeTo(t, "QR.At", recv[0], A2)
	// Q·R of the re-used receiver is the second matrix
	var Q, R mat.Dense
	recv[0].QTo(&Q)
	recv[0].RTo(&R)
	closeTo(t, "Q·R", mulM(fromMat(&Q), fromMat(&R)).dense(), A2)
}

func reuseLQ(t *vlib.T, s1, s2 shape2) {
	A1, A2 := pairGen("dd", s1, s2)
	recv := [2]*mat.LQ{new(mat.LQ), new(mat.LQ)}
	reuseProtocol(t,
		func(r, w int) { recv[r].Factorize(map[int]*M{1: A1, 2: A2}[w].dense()) },
		func(r, w int) *observer {
			o := &observer{}
			lq := recv[r]
			m, n := lq.Dims()
			var Q, L mat.Dense
			lq.QTo(&Q)
			lq.LTo(&L)
			o.mat("QTo", &Q)
			o.mat("LTo", &L)
			o.scalar("Cond", lq.Cond())
			for _, tr := range []bool{false, true} {
				rows := m
				if tr {
					rows = n
				}
				b := rhsMat(rows, 2, 0)
				var x mat.Dense
				o.err(fmt.Sprintf("SolveTo(%v) err", tr), lq.SolveTo(&x, tr, b.dense()))
				o.mat(fmt.Sprintf("SolveTo(%v)", tr), &x)
				var xv mat.VecDense
				o.err(fmt.Sprintf("SolveVecTo(%v) err", tr), lq.SolveVecTo(&xv, tr, mat.NewVecDense(rows, b.col(1))))
				o.mat(fmt.Sprintf("SolveVecTo(%v)", tr), &xv)
				var xu mat.Dense
				o.err(fmt.Sprintf("SolveTo(%v, user b) err", tr), lq.SolveTo(&xu, tr, userMat{b}))
				o.mat(fmt.Sprintf("SolveTo(%v, user b)", tr), &xu)
				var xvu mat.VecDense
				o.err(fmt.Sprintf("SolveVecTo(%v, user b) err", tr), lq.SolveVecTo(&xvu, tr, userVec{b.col(1)}))
				o.mat(fmt.Sprintf("SolveVecTo(%v, user b)", tr), &xvu)
			}
			return o
		})
	var Q, L mat.Dense
	recv[0].QTo(&Q)
	recv[0].LTo(&L)
	closeTo(t, "L·Q", mulM(fromMat(&L), fromMat(&Q)).dense(), A2)
}

func reuseSVD(t *vlib.T, s1, s2 shape2, k1, k2 mat.SVDKind) {
	A1, A2 := pairGen("dd", s1, s2)
	recv := [2]*mat.SVD{new(mat.SVD), new(mat.SVD)}
	kinds := map[int]mat.SVDKind{1: k1, 2: k2}
	reuseProtocol(t,
		func(r, w int) {
			if !recv[r].Factorize(map[int]*M{1: A1, 2: A2}[w].dense(), kinds[w]) {
				panic("SVD.Factorize returned false")
			}
		},
		func(r, w int) *observer {
			o := &observer{}
			svd := recv[r]
			kd := kinds[w]
			A := map[int]*M{1: A1, 2: A2}[w]
			o.scalar("Kind", float64(svd.Kind()))
			vals := svd.Values(nil)
			o.floats("Values", vals)
			o.scalar("Cond", svd.Cond())
			o.scalar("Rank", float64(svd.Rank(1e-10)))
			hasU := kd&(mat.SVDThinU|mat.SVDFullU) != 0
			hasV := kd&(mat.SVDThinV|mat.SVDFullV) != 0
			if hasU {
				var U mat.Dense
				svd.UTo(&U)
				o.mat("UTo", &U)
			} else if recoverMsg(func() { svd.UTo(&mat.Dense{}) }) == "" {
				panic("UTo did not panic although U was not requested")
			}
			if hasV {
				var V mat.Dense
				svd.VTo(&V)
				o.mat("VTo", &V)
			} else if recoverMsg(func() { svd.VTo(&mat.Dense{}) }) == "" {
				panic("VTo did not panic although V was not requested")
			}
			if hasU && hasV {
				b := rhsMat(A.r, 2, 0)
				var x mat.Dense
				o.floats("SolveTo residuals", svd.SolveTo(&x, b.dense(), len(vals)))
				o.mat("SolveTo", &x)
				var xv mat.VecDense
				o.scalar("SolveVecTo residual", svd.SolveVecTo(&xv, mat.NewVecDense(A.r, b.col(1)), len(vals)))
				o.mat("SolveVecTo", &xv)
			}
			return o
		})
	if k2&(mat.SVDThinU|mat.SVDFullU) != 0 && k2&(mat.SVDThinV|mat.SVDFullV) != 0 {
		var U, V mat.Dense
		recv[0].UTo(&U)
		recv[0].VTo(&V)
		vals := recv[0].Values(nil)
		Um, Vm := fromMat(&U), fromMat(&V)
		R := newM(A2.r, A2.c)
		for i := 0; i < A2.r; i++ {
			for j := 0; j < A2.c; j++ {
				for l := range vals {
					R.add(i, j, Um.at(i, l)*vals[l]*Vm.at(j, l))
				}
			}
		}
		closeTo(t, "UΣVᵀ", R.dense(), A2)
	}
}

func reuseEigenSym(t *vlib.T, n1, n2 int, v1, v2 bool) {
	A1, A2 := symMat("spd", n1, 0), genMat("indef", n2, n2, 1)
	recv := [2]*mat.EigenSym{new(mat.EigenSym), new(mat.EigenSym)}
	vec := map[int]bool{1: v1, 2: v2}
	reuseProtocol(t,
		func(r, w int) {
			if !recv[r].Factorize(repSym("sym", map[int]*M{1: A1, 2: A2}[w]), vec[w]) {
				panic("EigenSym.Factorize returned false")
			}
		},
		func(r, w int) *observer {
			o := &observer{}
			es := recv[r]
			o.scalar("SymmetricDim", float64(es.SymmetricDim()))
			o.floats("Values", es.Values(nil))
			if vec[w] {
				var Q mat.Dense
				es.VectorsTo(&Q)
				o.mat("VectorsTo", &Q)
				o.self("At", es)
			} else {
				if recoverMsg(func() { es.VectorsTo(&mat.Dense{}) }) == "" {
					panic("VectorsTo did not panic although vectors were not requested")
				}
				if es.RawQ() != nil {
					panic("RawQ != nil although vectors were not requested")
				}
			}
			return o
		})
	if v2 {
		closeTo(t, "EigenSym.At", recv[0], A2)
	}
}

func reuseEigen(t *vlib.T, n1, n2 int, k1, k2 mat.EigenKind) {
	A1, A2 := eigenMat("rot", n1, 0), eigenMat("dd", n2, 1)
	recv := [2]*mat.Eigen{new(mat.Eigen), new(mat.Eigen)}
	kinds := map[int]mat.EigenKind{1: k1, 2: k2}
	reuseProtocol(t,
		func(r, w int) {
			if !recv[r].Factorize(map[int]*M{1: A1, 2: A2}[w].dense(), kinds[w]) {
				panic("Eigen.Factorize returned false")
			}
		},
		func(r, w int) *observer {
			o := &observer{}
			e := recv[r]
			o.scalar("Kind", float64(e.Kind()))
			vals := e.Values(nil)
			fl := make([]float64, 0, 2*len(vals))
			for _, v := range vals {
				fl = append(fl, real(v), imag(v))
			}
			o.floats("Values", fl)
			if kinds[w]&mat.EigenRight != 0 {
				V := new(mat.CDense)
				e.VectorsTo(V)
				o.cmat("VectorsTo", V)
			} else if recoverMsg(func() { e.VectorsTo(new(mat.CDense)) }) == "" {
				panic("VectorsTo did not panic although right vectors were not requested")
			}
			if kinds[w]&mat.EigenLeft != 0 {
				V := new(mat.CDense)
				e.LeftVectorsTo(V)
				o.cmat("LeftVectorsTo", V)
			} else if recoverMsg(func() { e.LeftVectorsTo(new(mat.CDense)) }) == "" {
				panic("LeftVectorsTo did not panic although left vectors were not requested")
			}
			return o
		})
}

func reuseGSVD(t *vlib.T, s1, s2 shape2, k1, k2 mat.GSVDKind) {
	// A is m×n, B has one row more or less; prefix-dominant families (see the known finding dggsvp3-no-pivoting)
	A1, A2 := pairGen("dd", s1, s2)
	B1, B2 := genMat("dd", max(1, s1.m-1), s1.n, 2), genMat("dd", s2.m+1, s2.n, 3)
	recv := [2]*mat.GSVD{new(mat.GSVD), new(mat.GSVD)}
	kinds := map[int]mat.GSVDKind{1: k1, 2: k2}
	reuseProtocol(t,
		func(r, w int) {
			a, b := A1, B1
			if w == 2 {
				a, b = A2, B2
			}
			if !recv[r].Factorize(a.dense(), b.dense(), kinds[w]) {
				panic("GSVD.Factorize returned false")
			}
		},
		func(r, w int) *observer {
			o := &observer{}
			gs := recv[r]
			o.scalar("Kind", float64(gs.Kind()))
			k, l := gs.Rank()
			o.scalar("Rank", float64(k), float64(l))
			o.floats("ValuesA", gs.ValuesA(nil))
			o.floats("ValuesB", gs.ValuesB(nil))
			o.floats("GeneralizedValues", gs.GeneralizedValues(nil))
			var ZR, S1, S2 mat.Dense
			gs.ZeroRTo(&ZR)
			gs.SigmaATo(&S1)
			gs.SigmaBTo(&S2)
			o.mat("ZeroRTo", &ZR)
			o.mat("SigmaATo", &S1)
			o.mat("SigmaBTo", &S2)
			for _, x := range []struct {
				name string
				bit  mat.GSVDKind
				to   func(*mat.Dense)
			}{{"UTo", mat.GSVDU, gs.UTo}, {"VTo", mat.GSVDV, gs.VTo}, {"QTo", mat.GSVDQ, gs.QTo}} {
				if kinds[w]&x.bit != 0 {
					var d mat.Dense
					x.to(&d)
					o.mat(x.name, &d)
				} else if recoverMsg(func() { x.to(&mat.Dense{}) }) == "" {
					panic(x.name + " did not panic although it was not requested")
				}
			}
			return o
		})
}

func reuseHOGSVD(t *vlib.T, s1, s2 shape2, c1, c2 int) {
	mk := func(s shape2, cnt, v int) []mat.Matrix {
		var ms []mat.Matrix
		for i := 0; i < cnt; i++ {
			ms = append(ms, genMat("dd", s.m+i%2, s.n, v+i).dense())
		}
		return ms
	}
	M1, M2 := mk(s1, c1, 0), mk(s2, c2, 10)
	recv := [2]*mat.HOGSVD{new(mat.HOGSVD), new(mat.HOGSVD)}
	reuseProtocol(t,
		func(r, w int) {
			ms := M1
			if w == 2 {
				ms = M2
			}
			if !recv[r].Factorize(ms...) {
				panic(fmt.Sprint("HOGSVD.Factorize returned false: ", recv[r].Err()))
			}
		},
		func(r, w int) *observer {
			o := &observer{}
			h := recv[r]
			o.scalar("Len", float64(h.Len()))
			var V mat.Dense
			h.VTo(&V)
			o.mat("VTo", &V)
			for i := 0; i < h.Len(); i++ {
				U := new(mat.Dense)
				h.UTo(U, i)
				o.mat(fmt.Sprintf("UTo(%d)", i), U)
				o.floats(fmt.Sprintf("Values(%d)", i), h.Values(nil, i))
			}
			return o
		})
}
