#!/usr/bin/env python3
"""Regenerates the suggested fixes for the C06 findings from /repo (never touches /repo).
usage: python3 mkfixes.py            writes <class>.diff for every class and all_fixes.diff (all of them together)
Each <class>.diff is an independent -p1 unified diff against /repo HEAD."""
import os, subprocess, sys, tempfile, shutil

HERE = os.path.dirname(os.path.abspath(__file__))
BASE = os.environ.get('BASE', '44ff429')  # /repo revision the diffs are made against ('WORK' = working tree)


def src(rel):
    if BASE == 'WORK':
        return open('/repo/' + rel).read()
    return subprocess.run(['git', '-C', '/repo', 'show', BASE + ':' + rel], capture_output=True, text=True, check=True).stdout

FAILED_UPDATE_BLOCK = '''\tif orig != c && alpha < 0 {
\t\t// A downdate may fail: work on a copy so that the receiver is left
\t\t// unchanged in that case, as documented.
\t\tif !c.IsEmpty() && c.chol.mat.N != n {
\t\t\tpanic(ErrShape)
\t\t}
\t\tvar tmp Cholesky
\t\ttmp.Clone(orig)
\t\tif !tmp.SymRankOne(&tmp, alpha, x) {
\t\t\treturn false
\t\t}
\t\tc.Clone(&tmp)
\t\treturn true
\t}
'''

# class -> list of (file, old, new)
CLASSES = {
 'lq-refactorize-other-size-panics': [
  ('mat/lq.go', '\t} else {\n\t\tlq.q.reuseAsNonZeroed(n, n)', '\t} else {\n\t\tlq.q.Reset()\n\t\tlq.q.reuseAsNonZeroed(n, n)'),
 ],
 'qr-rto-sized-dst-stale-rows': [
  ('mat/qr.go', '\tfor i := r; i < c; i++ {\n\t\tzero(dst.mat.Data[i*dst.mat.Stride : i*dst.mat.Stride+c])',
   '\tfor i := c; i < r; i++ {\n\t\tzero(dst.mat.Data[i*dst.mat.Stride : i*dst.mat.Stride+c])'),
 ],
 'gsvd-partial-kind-panics': [
  ('mat/gsvd.go', '\tvar jobU, jobV, jobQ lapack.GSVDJob\n', '\tjobU, jobV, jobQ := lapack.GSVDNone, lapack.GSVDNone, lapack.GSVDNone\n'),
 ],
 'dggsvp3-no-pivoting': [
  ('lapack/gonum/dggsvp3.go', '\tfor i := range iwork[:n] {\n\t\tiwork[i] = 0\n', '\tfor i := range iwork[:n] {\n\t\tiwork[i] = -1\n'),
  ('lapack/gonum/dggsvp3.go', '\tfor i := range iwork[:n-l] {\n\t\tiwork[i] = 0\n', '\tfor i := range iwork[:n-l] {\n\t\tiwork[i] = -1\n'),
 ],
 'dggsvp3-rq-wrong-routine': [
  ('lapack/gonum/dggsvp3.go', 'impl.Dorm2r(blas.Right, blas.Trans, n, n-l, k, a, lda, tau[:k], q, ldq, work)',
   'impl.Dormr2(blas.Right, blas.Trans, n, n-l, k, a, lda, tau[:k], q, ldq, work)'),
 ],
 'dggsvp3-rq-cleanup-wrong-slice': [
  ('lapack/gonum/dggsvp3.go', '\t\t\tr := a[i*lda+n-k-l : i*lda+i+n-k-l]\n\t\t\tfor j := range r {\n\t\t\t\ta[j] = 0',
   '\t\t\tr := a[i*lda+n-k-l : i*lda+i+n-k-l]\n\t\t\tfor j := range r {\n\t\t\t\tr[j] = 0'),
 ],
 'lu-rankone-new-receiver-ok-not-set': [
  ('mat/lu.go', '\t\tlu.updatePivots(lu.swaps)\n\t\tlu.lu.Copy(orig.lu)\n', '\t\tlu.updatePivots(lu.swaps)\n\t\tlu.lu.Copy(orig.lu)\n\t\tlu.ok = orig.ok\n'),
 ],
 'cholesky-symrankone-generic-vector-nil-deref': [
  ('mat/cholesky.go', '\t\tvar tmp *VecDense\n\t\ttmp.CopyVec(x)\n', '\t\ttmp := NewVecDense(n, nil)\n\t\ttmp.CopyVec(x)\n'),
 ],
 'cholesky-symrankone-alpha0-cond-not-set': [
  ('mat/cholesky.go', '\tif alpha == 0 {\n\t\treturn true\n', '\tif alpha == 0 {\n\t\tc.cond = orig.cond\n\t\treturn true\n'),
 ],
 'cholesky-update-reset-receiver-panics': [
  ('mat/cholesky.go', '\tif c.chol == nil {\n\t\tc.chol = NewTriDense(n, Upper, nil)\n\t} else if c.chol.mat.N != n {\n\t\tpanic(ErrShape)\n\t}\n\tc.chol.ScaleTri(',
   '\tif c.IsEmpty() {\n\t\tc.chol = NewTriDense(n, Upper, nil)\n\t} else if c.chol.mat.N != n {\n\t\tpanic(ErrShape)\n\t}\n\tc.chol.ScaleTri('),
  ('mat/cholesky.go', '\tif orig != c {\n\t\tif c.chol == nil {\n\t\t\tc.chol = NewTriDense(n, Upper, nil)\n\t\t} else if c.chol.mat.N != n {\n\t\t\tpanic(ErrShape)\n\t\t}\n\t\tc.chol.Copy(orig.chol)\n',
   '\tif orig != c {\n\t\tif c.IsEmpty() {\n\t\t\tc.chol = NewTriDense(n, Upper, nil)\n\t\t} else if c.chol.mat.N != n {\n\t\t\tpanic(ErrShape)\n\t\t}\n\t\tc.chol.Copy(orig.chol)\n'),
 ],
 'cholesky-failed-update-fills-receiver': [
  ('mat/cholesky.go', '\tn := orig.SymmetricDim()\n\tif r, c := x.Dims(); r != n || c != 1 {\n',
   '\tn := orig.SymmetricDim()\n' + FAILED_UPDATE_BLOCK + '\tif r, c := x.Dims(); r != n || c != 1 {\n'),
 ],
 'bandcholesky-cond-uses-norm-of-factor': [
  ('mat/cholesky.go', '\t_, ok = lapack64.Pbtrf(cSym)\n\tif !ok {\n\t\tch.Reset()\n\t\treturn false\n\t}\n\twork := getFloat64s(3*n, false)\n\tiwork := getInts(n, false)\n\taNorm := lapack64.Lansb(CondNorm, cSym, work)\n',
   '\twork := getFloat64s(3*n, false)\n\taNorm := lapack64.Lansb(CondNorm, cSym, work)\n\t_, ok = lapack64.Pbtrf(cSym)\n\tif !ok {\n\t\tputFloat64s(work)\n\t\tch.Reset()\n\t\treturn false\n\t}\n\tiwork := getInts(n, false)\n'),
 ],
 'tridense-rcond-compared-as-cond': [
  ('mat/triangular.go', '\tcond := lapack64.Trcon(CondNorm, t.mat, work, iwork)\n\tputFloat64s(work)\n\tputInts(iwork)\n\tif math.IsInf(cond, 1) {',
   '\tcond := 1 / lapack64.Trcon(CondNorm, t.mat, work, iwork)\n\tputFloat64s(work)\n\tputInts(iwork)\n\tif math.IsInf(cond, 1) {'),
  ('mat/triangular.go', '\tcond := lapack64.Trcon(CondNorm, t.mat, work, iwork)\n\tputFloat64s(work)\n\tputInts(iwork)\n\tif cond > ConditionTolerance {',
   '\tcond := 1 / lapack64.Trcon(CondNorm, t.mat, work, iwork)\n\tputFloat64s(work)\n\tputInts(iwork)\n\tif cond > ConditionTolerance {'),
 ],
}


def make(classes):
    """returns the unified diff applying the edits of the given classes (in the given order)"""
    tmp = tempfile.mkdtemp(prefix='c06fix')
    files = {}
    for cls in classes:
        for rel, old, new in CLASSES[cls]:
            if rel not in files:
                files[rel] = src(rel)
            cur = files[rel]
            if cur.count(old) != 1:
                # the failed-update block and the reset fix touch adjacent lines: retry with the other variant
                alt = old.replace('if c.chol == nil {', 'if c.IsEmpty() {')
                altnew = new.replace('if c.chol == nil {', 'if c.IsEmpty() {')
                if cur.count(alt) == 1:
                    old, new = alt, altnew
                else:
                    sys.exit('%s/%s: expected exactly one occurrence of %r, found %d' % (cls, rel, old[:70], cur.count(old)))
            files[rel] = cur.replace(old, new)
    out = ''
    for rel, new in files.items():
        orig = src(rel)
        for side, content in (('a', orig), ('b', new)):
            p = os.path.join(tmp, side, rel)
            os.makedirs(os.path.dirname(p), exist_ok=True)
            open(p, 'w').write(content)
        d = subprocess.run(['diff', '-u', 'a/' + rel, 'b/' + rel], cwd=tmp, capture_output=True, text=True).stdout
        # stable headers
        lines = d.split('\n')
        lines[0] = '--- a/' + rel
        lines[1] = '+++ b/' + rel
        out += '\n'.join(lines)
    shutil.rmtree(tmp)
    return out


def applicable(cls):
    """a class still applies if every 'old' text is present exactly once and the 'new' text is absent"""
    for rel, old, new in CLASSES[cls]:
        cur = src(rel)
        if cur.count(old) != 1 or new in cur:
            return False
    return True


if __name__ == '__main__':
    # default: regenerate every <class>.diff against the revision the findings were reported on (44ff429).
    # BASE=WORK python3 mkfixes.py: write remaining_fixes.diff with the classes that are still unfixed in /repo.
    if BASE == 'WORK':
        todo = [cls for cls in CLASSES if applicable(cls)]
        open(os.path.join(HERE, 'remaining_fixes.diff'), 'w').write(make(todo))
        print('still unfixed in the /repo working tree:', todo)
    else:
        for cls in CLASSES:
            open(os.path.join(HERE, cls + '.diff'), 'w').write(make([cls]))
        print('wrote', len(CLASSES), 'class diffs against', BASE)
