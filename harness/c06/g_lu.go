package main

import (
	"fmt"
	"math"

	"gonum.org/v1/gonum/internal/verif/vlib"
	"gonum.org/v1/gonum/mat"
)

func sizesSmall(g *vlib.G) []int { return vlib.Ints(1, vlib.Pick(g, 6, 7)) }
func sizesBig(g *vlib.G) []int {
	return vlib.Pick(g, []int{32, 33}, []int{31, 32, 33, 63, 64, 65})
}
func variants(g *vlib.G) int {
	v := vlib.Pick(g, 2, 3)
	if g.Seed != 0 {
		v++
	}
	return v
}
func variantID(g *vlib.G, v int) int {
	if g.Seed != 0 && v == variants(g)-1 {
		return 1000 + int(g.Seed%100000)
	}
	return v
}

func bigCfg() solveCfg {
	return solveCfg{nrhs: []int{1, 3}, breps: []string{"dense", "trans", "user"}, vreps: []string{"vec", "vecinc", "uservec"}, dsts: []string{"empty", "alias", "aliasT"}}
}

func genLU(g *vlib.G) {
	for _, n := range append(sizesSmall(g), sizesBig(g)...) {
		for _, f := range genFams {
			for v := 0; v < variants(g); v++ {
				reps := genReps
				big := n > 8
				if big {
					if f.name == "graded" || f.name == "indef" || f.name == "rankdef" || v > 0 {
						continue
					}
					reps = []string{"dense", "view"}
				}
				for _, rep := range reps {
					n, f, v, rep := n, f, variantID(g, v), rep
					cfg := quickCfg(g)
					if big {
						cfg = bigCfg()
					}
					cfg.variant = v
					g.Case(fmt.Sprintf("LU n=%d fam=%s v=%d A=%s", n, f.name, v, rep), func(t *vlib.T) {
						luCase(t, n, f, v, rep, cfg)
					})
				}
			}
		}
	}
}

// condBand checks a reported ∞-norm condition number estimate against the
// reference value: LAPACK's estimator returns a lower bound of the true
// condition number that is, for the sizes used here, within a small factor.
// lowCond is the accepted underestimation factor of a LAPACK condition
// estimate. The estimators (Hager/Higham) return a lower bound that is
// "almost always within a factor 3" but can be arbitrarily low for special
// structures (a decoupled 4×4 block matrix in the history space is
// underestimated 6.1 times by Gecon and Pocon alike, see NOTES.md). The factor
// 3 is therefore asserted on the fixed fill patterns only, where it is known
// to hold; the extra pattern added by VERIF_SEED gets the loose factor 100
// that only rejects grossly wrong values (0, reciprocal, unrelated matrix).
func lowCond(variant int) float64 {
	if variant >= 1000 {
		return 100
	}
	return 3
}

func condBand(t *vlib.T, what string, got, ref, lowFactor, highFactor float64) {
	if math.IsNaN(got) || got < ref/lowFactor || got > ref*highFactor {
		t.Failf("%s = %.6g, reference condition number %.6g (accepted band [ref/%g, ref*%g])", what, got, ref, lowFactor, highFactor)
	}
}

func luCase(t *vlib.T, n int, f famInfo, v int, rep string, cfg solveCfg) {
	A := genMat(f.name, n, n, v)
	a := repGen(rep, A)
	var lu mat.LU
	if (n+v)%2 == 0 {
		// receiver reuse: a factorization of a different size is overwritten
		lu.Factorize(genMat("dd", n+1, n+1, 0).dense())
	}
	lu.Factorize(a)
	if maxAbs(subM(fromMat(a), A)) != 0 {
		t.Failf("Factorize modified its argument")
	}
	if r, c := lu.Dims(); r != n || c != n {
		t.Failf("Dims = %d,%d", r, c)
		return
	}
	t.Nontrivial()
	var L, U mat.TriDense
	lu.LTo(&L)
	lu.UTo(&U)
	piv := lu.RowPivots(nil)
	if !isPerm(piv) {
		t.Failf("RowPivots %v is not a permutation", piv)
		return
	}
	Lm, Um := fromMat(&L), fromMat(&U)
	for i := 0; i < n; i++ {
		if Lm.at(i, i) != 1 {
			t.Failf("L[%d,%d]=%v want 1", i, i, Lm.at(i, i))
		}
		for j := 0; j < n; j++ {
			if j > i && Lm.at(i, j) != 0 || j < i && Um.at(i, j) != 0 {
				t.Failf("L/U not triangular at %d,%d", i, j)
			}
			if math.Abs(Lm.at(i, j)) > 1 {
				t.Failf("|L[%d,%d]|=%v > 1: not partial pivoting", i, j, Lm.at(i, j))
			}
		}
	}
	// extraction into pre-sized destinations gives the same values
	L2 := mat.NewTriDense(n, mat.Lower, nil)
	U2 := mat.NewTriDense(n, mat.Upper, nil)
	lu.LTo(L2)
	lu.UTo(U2)
	if maxAbs(subM(fromMat(L2), Lm)) != 0 || maxAbs(subM(fromMat(U2), Um)) != 0 {
		t.Failf("LTo/UTo into sized destinations differ from the empty-destination result")
	}
	// A = P·L·U: row piv[i] of L·U is row i of A (Dense.PermuteRows(piv,false) convention)
	LU := mulM(Lm, Um)
	scale := absMulMax(Lm, Um)
	if scale == 0 {
		scale = 1
	}
	var worst, worstAt float64
	for i := 0; i < n; i++ {
		for j := 0; j < n; j++ {
			worst = math.Max(worst, math.Abs(LU.at(piv[i], j)-A.at(i, j)))
			worstAt = math.Max(worstAt, math.Abs(lu.At(i, j)-A.at(i, j)))
		}
	}
	if r := worst / (float64(n) * eps * scale); r > tolResid || math.IsNaN(r) {
		t.Failf("reconstruction ratio |A-PLU|/(n·eps·|L||U|) = %.3g piv=%v A=%s", r, piv, fmtM(A))
	}
	if r := worstAt / (float64(n) * eps * scale); r > tolResid || math.IsNaN(r) {
		t.Failf("At ratio = %.3g piv=%v A=%s", r, piv, fmtM(A))
	}
	// the documented way to apply P
	pl := LU.dense()
	pl.PermuteRows(piv, false)
	if r := maxAbs(subM(fromMat(pl), A)) / (float64(n) * eps * scale); r > tolResid || math.IsNaN(r) {
		t.Failf("PermuteRows(RowPivots,false) applied to L·U does not give A: ratio %.3g", r)
	}
	moved := false
	for i, p := range piv {
		if p != i {
			moved = true
		}
	}

	s := &solver{name: "LU", A: A, hasTrans: true, aliasOK: true, fullRank: f.full, exactSing: f.exactSing,
		solve: lu.SolveTo, solveVec: lu.SolveVecTo, cond: lu.Cond}
	s.prepare()
	det := lu.Det()
	ld, sign := lu.LogDet()
	if f.full {
		ref := detRef(A)
		kinf := normInf(A) * normInf(s.pinv)
		tol := 1e3 * float64(n) * eps * kinf
		if !relClose(det, ref, tol) {
			t.Failf("Det = %v, reference %v (tol %.3g)", det, ref, tol)
		}
		if !relClose(math.Exp(ld)*sign, ref, tol) {
			t.Failf("LogDet = (%v,%v), reference det %v", ld, sign, ref)
		}
		condBand(t, "LU.Cond", lu.Cond(), kinf, lowCond(v), 1.01)
	} else {
		bound := 1e3 * float64(n) * eps * math.Pow(math.Max(normInf(A), 1), float64(n))
		if f.exactSing {
			if det != 0 {
				t.Failf("Det = %v for a matrix with a zero row/column, want exactly 0", det)
			}
			if !math.IsInf(lu.Cond(), 1) {
				t.Failf("Cond = %v for a matrix with a zero row/column, want +Inf", lu.Cond())
			}
		} else {
			if !(math.Abs(det) <= bound) {
				t.Failf("Det = %v for a singular matrix (bound %.3g)", det, bound)
			}
			if !(lu.Cond() >= 1e14) {
				t.Failf("Cond = %v for a singular matrix", lu.Cond())
			}
		}
	}
	s.run(t, cfg)
	t.Outcome(fmt.Sprintf("%s pivoted=%v", map[bool]string{true: "full", false: "singular"}[f.full], moved))
	// the factorization must be unchanged by the solves
	var U3 mat.TriDense
	lu.UTo(&U3)
	if maxAbs(subM(fromMat(&U3), Um)) != 0 {
		t.Failf("solves modified the factorization")
	}
}
