package main

// Value families (deterministic fills) and operand representations.

import (
	"fmt"
	"math"

	"gonum.org/v1/gonum/blas"
	"gonum.org/v1/gonum/blas/blas64"
	"gonum.org/v1/gonum/internal/verif/vlib"
	"gonum.org/v1/gonum/mat"
)

func seedOf(s string, ints ...int) vlib.LCG {
	h := uint64(1469598103934665603)
	for i := 0; i < len(s); i++ {
		h = (h ^ uint64(s[i])) * 1099511628211
	}
	for _, v := range ints {
		h = (h ^ uint64(v+7)) * 1099511628211
	}
	l := vlib.LCG(h)
	l.Next()
	return l
}

// ---- general m×n families -------------------------------------------------

// genFams are the families of general matrices. full reports whether the
// family has full rank min(m,n); exact reports whether a singular member
// breaks down exactly (an exact zero pivot) in LU/QR/LQ.
type famInfo struct {
	name      string
	full      bool
	exactSing bool
}

var genFams = []famInfo{
	{"dd", true, false},
	{"pivot", true, false},
	{"graded", true, false},
	{"ident", true, false},
	{"indef", true, false}, // square only: symmetric indefinite, nonsingular
	{"rankdef", false, false},
	{"zeroline", false, true},
}

// genMat builds the m×n member of a family; variant selects the fill pattern.
func genMat(fam string, m, n, variant int) *M {
	l := seedOf(fam, m, n, variant)
	a := newM(m, n)
	k := min(m, n)
	fillSmall := func(lim int) {
		for i := range a.d {
			a.d[i] = float64(l.Small(lim))
		}
	}
	dominate := func(colOf func(i int) int) {
		// the first k rows (m<=n) or columns (m>n) get a dominant entry
		if m <= n {
			for i := 0; i < k; i++ {
				var s float64
				for j := 0; j < n; j++ {
					s += math.Abs(a.at(i, j))
				}
				j := colOf(i)
				s -= math.Abs(a.at(i, j))
				sign := 1.0
				if (i+variant)%3 == 1 {
					sign = -1
				}
				a.set(i, j, sign*(s+1+float64(i%2)))
			}
		} else {
			for j := 0; j < k; j++ {
				var s float64
				for i := 0; i < m; i++ {
					s += math.Abs(a.at(i, j))
				}
				i := colOf(j)
				s -= math.Abs(a.at(i, j))
				sign := 1.0
				if (j+variant)%3 == 1 {
					sign = -1
				}
				a.set(i, j, sign*(s+1+float64(j%2)))
			}
		}
	}
	switch fam {
	case "dd":
		fillSmall(2)
		dominate(func(i int) int { return i })
	case "pivot":
		fillSmall(3)
		for i := 0; i < k; i++ {
			a.set(i, i, 0)
		}
		dominate(func(i int) int { return (i + 1) % k })
	case "graded":
		fillSmall(2)
		dominate(func(i int) int { return i })
		for i := 0; i < m; i++ {
			for j := 0; j < n; j++ {
				a.set(i, j, math.Ldexp(a.at(i, j), -3*i))
			}
		}
	case "ident":
		for i := 0; i < k; i++ {
			a.set(i, i, 1)
		}
	case "indef":
		if m != n {
			panic("indef is square")
		}
		for i := 0; i < n; i++ {
			for j := i + 1; j < n; j++ {
				v := float64(l.Small(2))
				a.set(i, j, v)
				a.set(j, i, v)
			}
		}
		for i := 0; i < n; i++ {
			var s float64
			for j := 0; j < n; j++ {
				s += math.Abs(a.at(i, j))
			}
			if i%2 == 0 {
				a.set(i, i, -(s + 1))
			} else {
				a.set(i, i, s+2)
			}
		}
	case "rankdef":
		fillSmall(2)
		dominate(func(i int) int { return i })
		switch {
		case k == 1:
			for i := range a.d {
				a.d[i] = 0
			}
		case m >= n:
			for i := 0; i < m; i++ {
				a.set(i, n-1, a.at(i, 0))
			}
		default:
			for j := 0; j < n; j++ {
				a.set(m-1, j, a.at(0, j))
			}
		}
	case "zeroline":
		// a zero column (m>=n) or a zero row (m<n): LU, QR and LQ hit an exact zero pivot.
		fillSmall(2)
		dominate(func(i int) int { return i })
		z := (variant + m + n) % k
		if m >= n {
			for i := 0; i < m; i++ {
				a.set(i, z, 0)
			}
		}
		if m <= n {
			for j := 0; j < n; j++ {
				a.set(z, j, 0)
			}
		}
	default:
		panic("unknown family " + fam)
	}
	return a
}

// ---- symmetric families ----------------------------------------------------

// symFams: class is "pd" (positive definite), "psd" (singular positive
// semidefinite; exact tells whether Cholesky hits an exactly non-positive
// pivot), "notpsd" (has a negative eigenvalue).
type symFamInfo struct {
	name  string
	class string
	exact bool
}

var symFams = []symFamInfo{
	{"spd", "pd", false},
	{"spd-dd", "pd", false},
	{"spd-graded", "pd", false},
	{"ident", "pd", false},
	{"psd-ones", "psd", true},
	{"psd-gram", "psd", false},
	{"indef", "notpsd", true},
	{"negdef", "notpsd", true},
}

func symMat(fam string, n, variant int) *M {
	l := seedOf("sym-"+fam, n, variant)
	a := newM(n, n)
	gram := func(rows int) {
		b := newM(rows, n)
		for i := range b.d {
			b.d[i] = float64(l.Small(2))
		}
		g := mulM(b.T(), b)
		copy(a.d, g.d)
	}
	switch fam {
	case "spd":
		gram(n)
		for i := 0; i < n; i++ {
			a.add(i, i, float64(n))
		}
	case "spd-dd":
		for i := 0; i < n; i++ {
			for j := i + 1; j < n; j++ {
				v := float64(l.Small(2))
				a.set(i, j, v)
				a.set(j, i, v)
			}
		}
		for i := 0; i < n; i++ {
			var s float64
			for j := 0; j < n; j++ {
				s += math.Abs(a.at(i, j))
			}
			a.set(i, i, s+1+float64(i%3))
		}
	case "spd-graded":
		gram(n)
		for i := 0; i < n; i++ {
			a.add(i, i, float64(n))
		}
		for i := 0; i < n; i++ {
			for j := 0; j < n; j++ {
				a.set(i, j, math.Ldexp(a.at(i, j), -2*(i+j)))
			}
		}
	case "ident":
		for i := 0; i < n; i++ {
			a.set(i, i, 1)
		}
	case "psd-ones":
		// n>=2: all ones (rank 1); n==1: zero.
		if n > 1 {
			for i := range a.d {
				a.d[i] = 1
			}
		}
	case "psd-gram":
		// BᵀB with B (n-1)×n: rank <= n-1; n==1: zero.
		if n > 1 {
			gram(n - 1)
		}
	case "indef":
		copy(a.d, genMat("indef", n, n, variant).d)
		if n > 1 {
			// make the FIRST pivot positive so that the failure happens later
			a.set(0, 0, 1)
			a.set(1, 1, -a.at(1, 1))
			if a.at(1, 1) > 0 {
				a.set(1, 1, -a.at(1, 1))
			}
		}
	case "negdef":
		copy(a.d, symMat("spd", n, variant).d)
		for i := range a.d {
			a.d[i] = -a.d[i]
		}
	default:
		panic("unknown sym family " + fam)
	}
	return a
}

// bandSPD returns an n×n symmetric positive definite integer matrix of
// bandwidth k (diagonally dominant).
func bandSPD(n, k, variant int) *M {
	l := seedOf("band", n, k, variant)
	a := newM(n, n)
	for i := 0; i < n; i++ {
		for j := i + 1; j < n && j <= i+k; j++ {
			v := float64(l.Small(2))
			if j == i+k && v == 0 {
				v = 1
			}
			a.set(i, j, v)
			a.set(j, i, v)
		}
	}
	for i := 0; i < n; i++ {
		var s float64
		for j := 0; j < n; j++ {
			s += math.Abs(a.at(i, j))
		}
		a.set(i, i, s+1+float64(i%2))
	}
	return a
}

// rhsMat returns an integer right-hand side.
func rhsMat(r, c, variant int) *M {
	l := seedOf("rhs", r, c, variant)
	b := newM(r, c)
	for i := range b.d {
		b.d[i] = float64(l.Small(3))
	}
	// never all zero
	if maxAbs(b) == 0 {
		b.d[0] = 1
	}
	return b
}

// ---- representations -------------------------------------------------------

type userMat struct{ m *M }

func (u userMat) Dims() (int, int)    { return u.m.r, u.m.c }
func (u userMat) At(i, j int) float64 { return u.m.at(i, j) }
func (u userMat) T() mat.Matrix       { return mat.Transpose{Matrix: u} }

type userSym struct{ m *M }

func (u userSym) Dims() (int, int)    { return u.m.r, u.m.c }
func (u userSym) At(i, j int) float64 { return u.m.at(i, j) }
func (u userSym) T() mat.Matrix       { return u }
func (u userSym) SymmetricDim() int   { return u.m.r }

type userSymBand struct {
	m *M
	k int
}

func (u userSymBand) Dims() (int, int)    { return u.m.r, u.m.c }
func (u userSymBand) At(i, j int) float64 { return u.m.at(i, j) }
func (u userSymBand) T() mat.Matrix       { return u }
func (u userSymBand) SymmetricDim() int   { return u.m.r }
func (u userSymBand) Bandwidth() (int, int) {
	return u.k, u.k
}
func (u userSymBand) TBand() mat.Banded { return u }
func (u userSymBand) SymBand() (int, int) {
	return u.m.r, u.k
}

// userRawSymBand is a user SymBanded type that also exposes its (padded) raw storage.
type userRawSymBand struct {
	userSymBand
	raw blas64.SymmetricBand
}

func (u userRawSymBand) RawSymBand() blas64.SymmetricBand { return u.raw }
func (u userRawSymBand) T() mat.Matrix                    { return u }
func (u userRawSymBand) TBand() mat.Banded                { return u }

// rawSymBand stores the upper band of a (bandwidth k) in rows of length k+1+pad, the padding
// and the unused tail of the last rows being NaN poison.
func rawSymBand(a *M, k, pad int) blas64.SymmetricBand {
	n := a.r
	stride := k + 1 + pad
	data := make([]float64, n*stride)
	vlib.FillPoison64(data)
	for i := 0; i < n; i++ {
		for j := i; j < n && j <= i+k; j++ {
			data[i*stride+j-i] = a.at(i, j)
		}
	}
	return blas64.SymmetricBand{N: n, K: k, Stride: stride, Uplo: blas.Upper, Data: data}
}

// symBandRep returns the band matrix a (bandwidth k) in the named representation.
func symBandRep(rep string, a *M, k int) mat.SymBanded {
	switch rep {
	case "symband":
		sb := mat.NewSymBandDense(a.r, k, nil)
		for i := 0; i < a.r; i++ {
			for j := i; j < a.r && j <= i+k; j++ {
				sb.SetSymBand(i, j, a.at(i, j))
			}
		}
		return sb
	case "symband-strided":
		var sb mat.SymBandDense
		sb.SetRawSymBand(rawSymBand(a, k, 3))
		return &sb
	case "usersymband":
		return userSymBand{a.clone(), k}
	case "userrawsymband":
		return userRawSymBand{userSymBand{a.clone(), k}, rawSymBand(a, k, 2)}
	}
	panic("symBandRep " + rep)
}

type userVec struct{ v []float64 }

func (u userVec) Dims() (int, int) { return len(u.v), 1 }
func (u userVec) At(i, j int) float64 {
	if j != 0 {
		panic("userVec: column index")
	}
	return u.v[i]
}
func (u userVec) T() mat.Matrix       { return mat.Transpose{Matrix: u} }
func (u userVec) AtVec(i int) float64 { return u.v[i] }
func (u userVec) Len() int            { return len(u.v) }

// guarded is a strided Dense view inside a poisoned backing array.
type guarded struct {
	back   []float64
	snap   []float64
	stride int
	r, c   int
	off    int
	view   *mat.Dense
}

// newGuarded returns an r×c view with row padding and margins filled with
// NaN poison. If a is non-nil its values are stored in the view, else the view
// itself is poison too.
func newGuarded(r, c int, a *M) *guarded {
	g := &guarded{r: r, c: c}
	R, C := r+2, c+3
	g.back = make([]float64, R*C)
	vlib.FillPoison64(g.back)
	big := mat.NewDense(R, C, g.back)
	g.view = big.Slice(1, 1+r, 2, 2+c).(*mat.Dense)
	g.stride = C
	g.off = C + 2
	if a != nil {
		for i := 0; i < r; i++ {
			for j := 0; j < c; j++ {
				g.view.Set(i, j, a.at(i, j))
			}
		}
	}
	g.snap = append([]float64(nil), g.back...)
	return g
}

// paddingIntact reports whether everything outside the view is bitwise unchanged.
func (g *guarded) paddingIntact() (int, bool) {
	for idx := range g.back {
		i, j := idx/g.stride-1, idx%g.stride-2
		if i >= 0 && i < g.r && j >= 0 && j < g.c {
			continue
		}
		if math.Float64bits(g.back[idx]) != math.Float64bits(g.snap[idx]) {
			return idx, false
		}
	}
	return 0, true
}

var genReps = []string{"dense", "view", "trans", "user"}

// repGen returns matrix a in the named representation.
func repGen(rep string, a *M) mat.Matrix {
	switch rep {
	case "dense":
		return a.dense()
	case "view":
		return newGuarded(a.r, a.c, a).view
	case "trans":
		return a.T().dense().T()
	case "transview":
		return newGuarded(a.c, a.r, a.T()).view.T()
	case "user":
		return userMat{a.clone()}
	}
	panic("unknown rep " + rep)
}

var symReps = []string{"sym", "symview", "usersym", "symband", "symband-strided", "userrawsymband"}

// repSym returns the symmetric matrix a in the named representation. The
// unreferenced triangle of SymDense storage is NaN poison.
func repSym(rep string, a *M) mat.Symmetric {
	n := a.r
	switch rep {
	case "sym":
		d := make([]float64, n*n)
		vlib.FillPoison64(d)
		for i := 0; i < n; i++ {
			for j := i; j < n; j++ {
				d[i*n+j] = a.at(i, j)
			}
		}
		return mat.NewSymDense(n, d)
	case "symview":
		N := n + 2
		d := make([]float64, N*N)
		vlib.FillPoison64(d)
		for i := 0; i < n; i++ {
			for j := i; j < n; j++ {
				d[(i+1)*N+j+1] = a.at(i, j)
			}
		}
		return mat.NewSymDense(N, d).SliceSym(1, 1+n)
	case "usersym":
		return userSym{a.clone()}
	case "symband":
		k := n - 1
		sb := mat.NewSymBandDense(n, k, nil)
		for i := 0; i < n; i++ {
			for j := i; j < n; j++ {
				sb.SetSymBand(i, j, a.at(i, j))
			}
		}
		return sb
	case "symband-strided", "userrawsymband":
		// full bandwidth, rows padded: every routine taking a Symmetric may meet such an operand
		return symBandRep(rep, a, n-1).(mat.Symmetric)
	case "dense-as-sym":
		return userSym{a.clone()}
	}
	panic("unknown sym rep " + rep)
}

var vecReps = []string{"vec", "vecinc", "uservec"}

func repVec(rep string, v []float64) mat.Vector {
	switch rep {
	case "vec":
		return mat.NewVecDense(len(v), append([]float64(nil), v...))
	case "vecinc":
		g := newM(len(v), 3)
		for i := range g.d {
			g.d[i] = vlib.Poison64(i)
		}
		for i, x := range v {
			g.set(i, 1, x)
		}
		return mat.NewDense(len(v), 3, g.d).ColView(1)
	case "uservec":
		return userVec{append([]float64(nil), v...)}
	}
	panic("unknown vec rep " + rep)
}

// dstDense kinds.
var dstKinds = []string{"empty", "sized", "sizedview", "alias", "aliasT"}

// recoverMsg runs f and returns the recovered panic value as a string ("" if none).
func recoverMsg(f func()) (msg string) {
	defer func() {
		if e := recover(); e != nil {
			msg = fmt.Sprint(e)
			if msg == "" {
				msg = "panic"
			}
		}
	}()
	f()
	return ""
}

func fmtM(a *M) string {
	s := "["
	for i := 0; i < a.r; i++ {
		if i > 0 {
			s += "; "
		}
		for j := 0; j < a.c; j++ {
			if j > 0 {
				s += " "
			}
			s += fmt.Sprintf("%g", a.at(i, j))
		}
	}
	return s + "]"
}

func alarmName(class string) string {
	if class == "" {
		return "unclassified"
	}
	return class
}

// finding reports a violation that belongs to a named finding class (see
// NOTES.md) under its own sub-key, so that the rest of the case is still
// judged on its own, and counts it.
func finding(t *vlib.T, sub, class, format string, a ...any) {
	t.Count("alarm:"+alarmName(class), 1)
	t.SubViolation(sub, class, nil, format, a...)
}
