package main

// "Into" forms of the update/derive operations — LU.RankOne(orig, …),
// Cholesky.SymRankOne / ExtendVecSym / Scale / Clone (orig, …), Cholesky.SetFromU —
// executed into receivers with their OWN previous state: fresh, previously regular,
// previously singular / failed, previously of another size and Reset, crossed with a
// regular and a singular (resp. well and ill conditioned) orig. The result may not
// depend on the receiver's history: every accessor (factors, pivots, At, Det, LogDet,
// Cond, SolveTo with its error) must be bit for bit what the same call into a fresh
// receiver gives. (That the fresh-receiver result equals a fresh factorization of the
// updated matrix is the subject of the history groups.)

import (
	"fmt"

	"gonum.org/v1/gonum/internal/verif/vlib"
	"gonum.org/v1/gonum/mat"
)

func luObsAll(lu *mat.LU, n int) *observer {
	o := &observer{}
	var L, U mat.TriDense
	lu.LTo(&L)
	lu.UTo(&U)
	o.mat("LTo", &L)
	o.mat("UTo", &U)
	o.ints("RowPivots", lu.RowPivots(nil))
	o.self("At", lu)
	o.scalar("Det", lu.Det())
	ld, sg := lu.LogDet()
	o.scalar("LogDet", ld, sg)
	o.scalar("Cond", lu.Cond())
	b := rhsMat(n, 2, 0)
	for _, tr := range []bool{false, true} {
		var x mat.Dense
		o.err(fmt.Sprintf("SolveTo(%v) err", tr), lu.SolveTo(&x, tr, b.dense()))
		if !x.IsEmpty() {
			o.mat(fmt.Sprintf("SolveTo(%v)", tr), &x)
		}
		var xv mat.VecDense
		o.err(fmt.Sprintf("SolveVecTo(%v) err", tr), lu.SolveVecTo(&xv, tr, mat.NewVecDense(n, b.col(1))))
		if !xv.IsEmpty() {
			o.mat(fmt.Sprintf("SolveVecTo(%v)", tr), &xv)
		}
	}
	return o
}

var luRecvHistories = []string{"fresh", "regular", "singular", "regular-then-updated", "other-size-reset", "singular-reset", "regular-reset"}

func luReceiver(hist string, n int) *mat.LU {
	lu := new(mat.LU)
	switch hist {
	case "fresh":
	case "regular":
		lu.Factorize(genMat("pivot", n, n, 3).dense())
	case "singular":
		lu.Factorize(genMat("zeroline", n, n, 3).dense())
	case "regular-then-updated":
		lu.Factorize(genMat("pivot", n, n, 4).dense())
		lu.RankOne(lu, 1, mat.NewVecDense(n, vecE1(n)), mat.NewVecDense(n, vecOnes(n)))
	case "other-size-reset":
		lu.Factorize(genMat("zeroline", n+1, n+1, 3).dense())
		lu.Reset()
	case "singular-reset":
		lu.Factorize(genMat("zeroline", n, n, 5).dense())
		lu.Reset()
	case "regular-reset":
		lu.Factorize(genMat("pivot", n, n, 5).dense())
		lu.Reset()
	default:
		panic(hist)
	}
	return lu
}

func genInto(g *vlib.G) {
	hi := vlib.Pick(g, 5, 7)
	for n := 1; n <= hi; n++ {
		for _, origKind := range []string{"regular", "singular", "regular-pivoted"} {
			for ai, alpha := range []float64{2, -0.5, 0} {
				n, origKind, ai, alpha := n, origKind, ai, alpha
				g.Case(fmt.Sprintf("into LU.RankOne n=%d orig=%s alpha=%g", n, origKind, alpha), func(t *vlib.T) {
					t.Nontrivial()
					t.Outcome("LU orig=" + origKind)
					fam := map[string]string{"regular": "dd", "singular": "zeroline", "regular-pivoted": "pivot"}[origKind]
					A := genMat(fam, n, n, ai)
					x, y := vecAlt(n), vecOnes(n)
					run := func(hist string) (o *observer, msg string) {
						var orig mat.LU
						orig.Factorize(A.dense())
						recv := luReceiver(hist, n)
						msg = recoverMsg(func() {
							recv.RankOne(&orig, alpha, mat.NewVecDense(n, x), mat.NewVecDense(n, y))
							o = luObsAll(recv, n)
						})
						return
					}
					base, bmsg := run("fresh")
					if bmsg != "" {
						t.Failf("RankOne into a fresh receiver panics: %s", bmsg)
						return
					}
					for _, hist := range luRecvHistories[1:] {
						got, msg := run(hist)
						if msg != "" {
							t.Failf("LU.RankOne(orig %s, alpha=%g) into a receiver with history %q panics: %s", origKind, alpha, hist, msg)
							continue
						}
						if d := sameObs(got.list, base.list); d != "" {
							t.Failf("LU.RankOne(orig %s, alpha=%g) into a receiver with history %q differs from the same call into a fresh receiver: %s", origKind, alpha, hist, d)
						}
						t.Count("into_receiver_histories", 1)
					}
				})
			}
		}
		for _, origFam := range []string{"spd", "spd-dd", "spd-graded"} {
			for _, op := range []string{"SymRankOne(2)", "SymRankOne(-1/8)", "SymRankOne(0)", "SymRankOne(-64)=rejected", "ExtendVecSym", "ExtendVecSym=rejected", "Scale(2)", "Scale(1/2)", "Clone", "SetFromU"} {
				n, origFam, op := n, origFam, op
				g.Case(fmt.Sprintf("into Cholesky.%s n=%d orig=%s", op, n, origFam), func(t *vlib.T) { intoCholCase(t, n, origFam, op) })
			}
		}
	}
}

var cholRecvHistories = []string{"fresh", "regular", "regular-then-updated", "failed", "other-size-reset", "regular-reset"}

func cholReceiver(hist string, n int) *mat.Cholesky {
	c := new(mat.Cholesky)
	switch hist {
	case "fresh":
	case "regular":
		c.Factorize(repSym("sym", symMat("spd-dd", n, 3)))
	case "regular-then-updated":
		c.Factorize(repSym("sym", symMat("spd", n, 4)))
		c.SymRankOne(c, 1, mat.NewVecDense(n, vecOnes(n)))
	case "failed":
		c.Factorize(repSym("sym", symMat("spd", n, 4)))
		c.Factorize(repSym("sym", symMat("indef", n, 0))) // returns false: the receiver is reset
	case "other-size-reset":
		c.Factorize(repSym("sym", symMat("spd", n+2, 3)))
		c.Reset()
	case "regular-reset":
		c.Factorize(repSym("sym", symMat("spd-graded", n, 3)))
		c.Reset()
	default:
		panic(hist)
	}
	return c
}

func cholObsAll(c *mat.Cholesky) *observer {
	o := &observer{}
	o.scalar("IsEmpty", b2f(c.IsEmpty())...)
	if c.IsEmpty() {
		return o
	}
	n := c.SymmetricDim()
	var U, L mat.TriDense
	var S mat.SymDense
	c.UTo(&U)
	c.LTo(&L)
	c.ToSym(&S)
	o.mat("UTo", &U)
	o.mat("LTo", &L)
	o.mat("ToSym", &S)
	o.self("At", c)
	o.scalar("Det", c.Det())
	o.scalar("LogDet", c.LogDet())
	o.scalar("Cond", c.Cond())
	b := rhsMat(n, 2, 0)
	var x mat.Dense
	o.err("SolveTo err", c.SolveTo(&x, b.dense()))
	o.mat("SolveTo", &x)
	var xv mat.VecDense
	o.err("SolveVecTo err", c.SolveVecTo(&xv, mat.NewVecDense(n, b.col(1))))
	o.mat("SolveVecTo", &xv)
	return o
}

func intoCholCase(t *vlib.T, n int, origFam, op string) {
	t.Nontrivial()
	t.Outcome("Cholesky " + op)
	A := symMat(origFam, n, 0)
	rejected := op == "SymRankOne(-64)=rejected" || op == "ExtendVecSym=rejected"
	run := func(hist string) (o, before *observer, ok bool, msg string) {
		var orig mat.Cholesky
		if !orig.Factorize(repSym("sym", A)) {
			panic("harness: orig not positive definite")
		}
		recv := cholReceiver(hist, n)
		before = cholObsAll(recv)
		ok = true
		msg = recoverMsg(func() {
			switch op {
			case "SymRankOne(2)":
				ok = recv.SymRankOne(&orig, 2, mat.NewVecDense(n, vecAlt(n)))
			case "SymRankOne(-1/8)":
				ok = recv.SymRankOne(&orig, -0.125, mat.NewVecDense(n, vecE1(n)))
			case "SymRankOne(0)":
				ok = recv.SymRankOne(&orig, 0, mat.NewVecDense(n, vecE1(n)))
			case "SymRankOne(-64)=rejected":
				x := vecOnes(n)
				for i := range x {
					x[i] *= 8
				}
				ok = recv.SymRankOne(&orig, -64, mat.NewVecDense(n, x))
			case "ExtendVecSym":
				ok = recv.ExtendVecSym(&orig, mat.NewVecDense(n+1, append(vecE1(n), A.at(0, 0)+float64(n)+9)))
			case "ExtendVecSym=rejected":
				ok = recv.ExtendVecSym(&orig, mat.NewVecDense(n+1, append(vecOnes(n), -1)))
			case "Scale(2)":
				recv.Scale(2, &orig)
			case "Scale(1/2)":
				recv.Scale(0.5, &orig)
			case "Clone":
				recv.Clone(&orig)
			case "SetFromU":
				recv.SetFromU(orig.RawU())
			}
			o = cholObsAll(recv)
		})
		return
	}
	base, _, bok, bmsg := run("fresh")
	if bmsg != "" {
		t.Failf("%s into a fresh receiver panics: %s", op, bmsg)
		return
	}
	if bok == rejected {
		t.Failf("%s into a fresh receiver returned ok=%v", op, bok)
		return
	}
	for _, hist := range cholRecvHistories[1:] {
		sameSizeNonEmpty := hist == "regular" || hist == "regular-then-updated"
		got, before, ok, msg := run(hist)
		if msg != "" {
			t.Failf("Cholesky.%s into a receiver with history %q panics: %s", op, hist, msg)
			continue
		}
		t.Count("into_receiver_histories", 1)
		if ok != bok {
			t.Failf("Cholesky.%s into a receiver with history %q returned %v, into a fresh receiver %v", op, hist, ok, bok)
			continue
		}
		if rejected {
			// documented: the receiver is left unchanged / will not be updated
			if d := sameObs(got.list, before.list); d != "" {
				if op == "SymRankOne(-64)=rejected" {
					finding(t, "rejected-"+hist, "cholesky-failed-update-fills-receiver", "rejected %s into a receiver with history %q changed the receiver: %s", op, hist, d)
				} else {
					t.Failf("rejected %s into a receiver with history %q changed the receiver: %s", op, hist, d)
				}
			}
			continue
		}
		_ = sameSizeNonEmpty
		if d := sameObs(got.list, base.list); d != "" {
			t.Failf("Cholesky.%s into a receiver with history %q differs from the same call into a fresh receiver: %s", op, hist, d)
		}
	}
}
