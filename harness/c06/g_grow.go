package main

// Growth histories of plain receivers: a zero-value TriDense / SymDense / Dense /
// VecDense / CDense receives an operation, receives it again at the same size,
// is sliced, is Reset and receives it at a larger and then at a smaller size, and
// is sliced again. Nothing may panic and every result must be bit for bit what a
// fresh receiver gives (capacity bookkeeping of the reuseAs* helpers).

import (
	"fmt"

	"gonum.org/v1/gonum/internal/verif/vlib"
	"gonum.org/v1/gonum/mat"
)

// growOp is one operation on a receiver kind. apply must size the receiver itself (empty receiver).
type growOp struct {
	name  string
	recv  string // "tri-upper", "tri-lower", "sym", "dense", "vec", "cdense"
	apply func(dst any, n, v int)
}

func spdChol(n, v int) *mat.Cholesky {
	var c mat.Cholesky
	if !c.Factorize(repSym("sym", symMat("spd", n, v))) {
		panic("harness: spd not positive definite")
	}
	return &c
}

var growOps = []growOp{
	{"InverseTri", "tri-upper", func(d any, n, v int) {
		d.(*mat.TriDense).InverseTri(mat.NewTriDense(n, mat.Upper, genMat("dd", n, n, v).d))
	}},
	{"InverseTri", "tri-lower", func(d any, n, v int) {
		d.(*mat.TriDense).InverseTri(mat.NewTriDense(n, mat.Lower, genMat("dd", n, n, v).d))
	}},
	{"ScaleTri", "tri-upper", func(d any, n, v int) {
		d.(*mat.TriDense).ScaleTri(2, mat.NewTriDense(n, mat.Upper, genMat("dd", n, n, v).d))
	}},
	{"MulTri", "tri-lower", func(d any, n, v int) {
		a := mat.NewTriDense(n, mat.Lower, genMat("dd", n, n, v).d)
		d.(*mat.TriDense).MulTri(a, a)
	}},
	{"LU.LTo", "tri-lower", func(d any, n, v int) {
		var lu mat.LU
		lu.Factorize(genMat("pivot", n, n, v).dense())
		lu.LTo(d.(*mat.TriDense))
	}},
	{"LU.UTo", "tri-upper", func(d any, n, v int) {
		var lu mat.LU
		lu.Factorize(genMat("pivot", n, n, v).dense())
		lu.UTo(d.(*mat.TriDense))
	}},
	{"Cholesky.UTo", "tri-upper", func(d any, n, v int) { spdChol(n, v).UTo(d.(*mat.TriDense)) }},
	{"Cholesky.LTo", "tri-lower", func(d any, n, v int) { spdChol(n, v).LTo(d.(*mat.TriDense)) }},
	{"PivotedCholesky.UTo", "tri-upper", func(d any, n, v int) {
		var pc mat.PivotedCholesky
		pc.Factorize(repSym("sym", symMat("spd-dd", n, v)), -1)
		pc.UTo(d.(*mat.TriDense))
	}},
	{"PowPSD", "sym", func(d any, n, v int) { d.(*mat.SymDense).PowPSD(repSym("sym", symMat("spd", n, v)), 0.5) }},
	{"Cholesky.ToSym", "sym", func(d any, n, v int) { spdChol(n, v).ToSym(d.(*mat.SymDense)) }},
	{"Cholesky.InverseTo", "sym", func(d any, n, v int) { spdChol(n, v).InverseTo(d.(*mat.SymDense)) }},
	{"SymOuterK", "sym", func(d any, n, v int) { d.(*mat.SymDense).SymOuterK(2, genMat("dd", n, 2, v).dense()) }},
	{"ScaleSym", "sym", func(d any, n, v int) {
		d.(*mat.SymDense).ScaleSym(2, repSym("sym", symMat("spd", n, v)))
	}},
	{"AddSym", "sym", func(d any, n, v int) {
		d.(*mat.SymDense).AddSym(repSym("sym", symMat("spd", n, v)), repSym("sym", symMat("spd-dd", n, v)))
	}},
	{"Inverse", "dense", func(d any, n, v int) { d.(*mat.Dense).Inverse(genMat("dd", n, n, v).dense()) }},
	{"Exp", "dense", func(d any, n, v int) { d.(*mat.Dense).Exp(genMat("ident", n, n, v).dense()) }},
	{"Pow", "dense", func(d any, n, v int) { d.(*mat.Dense).Pow(genMat("dd", n, n, v).dense(), 3) }},
	{"Solve", "dense", func(d any, n, v int) {
		d.(*mat.Dense).Solve(genMat("dd", n, n, v).dense(), rhsMat(n, n, v).dense())
	}},
	{"LU.SolveTo", "dense", func(d any, n, v int) {
		var lu mat.LU
		lu.Factorize(genMat("pivot", n, n, v).dense())
		lu.SolveTo(d.(*mat.Dense), false, rhsMat(n, n, v).dense())
	}},
	{"Cholesky.SolveTo", "dense", func(d any, n, v int) { spdChol(n, v).SolveTo(d.(*mat.Dense), rhsMat(n, n, v).dense()) }},
	{"QR.QTo", "dense", func(d any, n, v int) {
		var qr mat.QR
		qr.Factorize(genMat("dd", n, n, v).dense())
		qr.QTo(d.(*mat.Dense))
	}},
	{"QR.RTo", "dense", func(d any, n, v int) {
		var qr mat.QR
		qr.Factorize(genMat("dd", n, n, v).dense())
		qr.RTo(d.(*mat.Dense))
	}},
	{"LQ.LTo", "dense", func(d any, n, v int) {
		var lq mat.LQ
		lq.Factorize(genMat("dd", n, n, v).dense())
		lq.LTo(d.(*mat.Dense))
	}},
	{"SVD.UTo", "dense", func(d any, n, v int) {
		var svd mat.SVD
		svd.Factorize(genMat("dd", n, n, v).dense(), mat.SVDFull)
		svd.UTo(d.(*mat.Dense))
	}},
	{"EigenSym.VectorsTo", "dense", func(d any, n, v int) {
		var es mat.EigenSym
		es.Factorize(repSym("sym", genMat("indef", n, n, v)), true)
		es.VectorsTo(d.(*mat.Dense))
	}},
	{"SolveVec", "vec", func(d any, n, v int) {
		d.(*mat.VecDense).SolveVec(genMat("dd", n, n, v).dense(), mat.NewVecDense(n, rhsMat(n, 1, v).d))
	}},
	{"LU.SolveVecTo", "vec", func(d any, n, v int) {
		var lu mat.LU
		lu.Factorize(genMat("pivot", n, n, v).dense())
		lu.SolveVecTo(d.(*mat.VecDense), true, mat.NewVecDense(n, rhsMat(n, 1, v).d))
	}},
	{"Cholesky.SolveVecTo", "vec", func(d any, n, v int) {
		spdChol(n, v).SolveVecTo(d.(*mat.VecDense), mat.NewVecDense(n, rhsMat(n, 1, v).d))
	}},
	{"Eigen.VectorsTo", "cdense", func(d any, n, v int) {
		var e mat.Eigen
		e.Factorize(eigenMat("rot", n, v).dense(), mat.EigenRight)
		e.VectorsTo(d.(*mat.CDense))
	}},
}

func newRecv(kind string) any {
	switch kind {
	case "tri-upper", "tri-lower":
		return &mat.TriDense{}
	case "sym":
		return &mat.SymDense{}
	case "dense":
		return &mat.Dense{}
	case "vec":
		return &mat.VecDense{}
	case "cdense":
		return &mat.CDense{}
	}
	panic(kind)
}

func readRecv(d any) *M {
	if c, ok := d.(*mat.CDense); ok {
		return cflat(c)
	}
	return fromMat(d.(mat.Matrix))
}

func resetRecv(d any) { d.(interface{ Reset() }).Reset() }

// sliceRecv reads the leading k×k (k) part of the receiver through its slicing method.
func sliceRecv(d any, k int) *M {
	switch r := d.(type) {
	case *mat.TriDense:
		return fromMat(r.SliceTri(0, k))
	case *mat.SymDense:
		return fromMat(r.SliceSym(0, k))
	case *mat.Dense:
		return fromMat(r.Slice(0, k, 0, k))
	case *mat.VecDense:
		return fromMat(r.SliceVec(0, k))
	case *mat.CDense:
		return cflat(r.Slice(0, k, 0, k).(*mat.CDense))
	}
	panic("sliceRecv")
}

func leading(full *M, k int, vec, cplx bool) *M {
	cols := k
	if vec {
		cols = 1
	}
	if cplx {
		cols = 2 * k
	}
	s := newM(k, cols)
	for i := 0; i < k; i++ {
		for j := 0; j < cols; j++ {
			s.set(i, j, full.at(i, j))
		}
	}
	return s
}

func genGrowRecv(g *vlib.G) {
	hi := vlib.Pick(g, 4, 6)
	for _, op := range growOps {
		for n0 := 1; n0 <= hi; n0++ {
			op, n0 := op, n0
			g.Case(fmt.Sprintf("grow-receiver %s %s n0=%d", op.recv, op.name, n0), func(t *vlib.T) {
				t.Nontrivial()
				t.Outcome(op.recv)
				r := newRecv(op.recv)
				step := 0
				use := func(what string, n, v int) bool {
					step++
					label := fmt.Sprintf("%s on a %s receiver, step %d (%s, n=%d)", op.name, op.recv, step, what, n)
					if msg := recoverMsg(func() { op.apply(r, n, v) }); msg != "" {
						t.Failf("%s: panic %s", label, msg)
						return false
					}
					f := newRecv(op.recv)
					op.apply(f, n, v)
					got, want := readRecv(r), readRecv(f)
					if got.r != want.r || got.c != want.c {
						t.Failf("%s: %d×%d, fresh receiver %d×%d", label, got.r, got.c, want.r, want.c)
						return false
					}
					if idx, ok := vlib.Same64(got.d, want.d); !ok {
						t.Failf("%s: differs from a fresh receiver at %d: %v vs %v", label, idx, got.d[idx], want.d[idx])
						return false
					}
					// slicing the receiver
					for _, k := range []int{n, max(1, n-1)} {
						var sl *M
						if msg := recoverMsg(func() { sl = sliceRecv(r, k) }); msg != "" {
							t.Failf("%s: slicing the result to its leading %d part panics: %s", label, k, msg)
							return false
						}
						exp := leading(want, k, op.recv == "vec", op.recv == "cdense")
						if idx, ok := vlib.Same64(sl.d, exp.d); !ok {
							t.Failf("%s: leading %d slice differs at %d", label, k, idx)
							return false
						}
					}
					t.Count("receiver_growth_steps", 1)
					return true
				}
				if !use("zero value", n0, 0) || !use("same size again", n0, 1) {
					return
				}
				for i, n := range []int{n0 + 1, n0 + 3, max(1, n0-1), n0 + 2} {
					resetRecv(r)
					if !use("after Reset", n, 2+i) || !use("same size again", n, 7+i) {
						return
					}
				}
			})
		}
	}
}
