package main

// Dense.Solve / VecDense.SolveVec (with plain, transposed, user and SolveToer
// operands), the structured SolveTo methods, Inverse, InverseTri, Exp, Pow,
// PowPSD.

import (
	"fmt"
	"math"
	"strings"

	"gonum.org/v1/gonum/blas"
	"gonum.org/v1/gonum/blas/blas64"

	"gonum.org/v1/gonum/internal/verif/vlib"
	"gonum.org/v1/gonum/mat"
)

// ---------------------------------------------------------------- Dense.Solve

func genSolveFunc(g *vlib.G) {
	type shape struct{ m, n int }
	var shapes []shape
	for _, m := range sizesSmall(g) {
		for _, n := range sizesSmall(g) {
			shapes = append(shapes, shape{m, n})
		}
	}
	for _, b := range sizesBig(g) {
		shapes = append(shapes, shape{b, b}, shape{b + 5, b}, shape{b, b + 5})
	}
	for _, sh := range shapes {
		for _, f := range genFams {
			if f.name == "indef" && sh.m != sh.n {
				continue
			}
			for v := 0; v < variants(g); v++ {
				kinds := []string{"dense", "view", "trans", "user"}
				if sh.m == sh.n {
					kinds = append(kinds, "LU")
				}
				if sh.m >= sh.n {
					kinds = append(kinds, "QR")
				}
				if sh.m <= sh.n {
					kinds = append(kinds, "LQ")
				}
				big := max(sh.m, sh.n) > 8
				if big {
					if f.name == "graded" || f.name == "indef" || f.name == "rankdef" || v > 0 {
						continue
					}
					kinds = []string{"dense", "trans"}
				}
				for _, kind := range kinds {
					sh, f, v, kind := sh, f, variantID(g, v), kind
					cfg := quickCfg(g)
					if big {
						cfg = bigCfg()
					}
					cfg.variant = v
					g.Case(fmt.Sprintf("Solve m=%d n=%d fam=%s v=%d A=%s", sh.m, sh.n, f.name, v, kind), func(t *vlib.T) {
						solveFuncCase(t, sh.m, sh.n, f, v, kind, cfg)
					})
				}
			}
		}
	}
}

func solveFuncCase(t *vlib.T, m, n int, f famInfo, v int, kind string, cfg solveCfg) {
	A := genMat(f.name, m, n, v)
	var a mat.Matrix
	var cond func() float64
	switch kind {
	case "LU":
		var lu mat.LU
		lu.Factorize(A.dense())
		a, cond = &lu, lu.Cond
	case "QR":
		var qr mat.QR
		qr.Factorize(A.dense())
		a, cond = &qr, qr.Cond
	case "LQ":
		var lq mat.LQ
		lq.Factorize(A.dense())
		a, cond = &lq, lq.Cond
	default:
		a = repGen(kind, A)
		// the condition number that Solve's internal factorization will see
		cond = func() float64 {
			switch {
			case m == n:
				var lu mat.LU
				lu.Factorize(A.dense())
				return lu.Cond()
			case m > n:
				var qr mat.QR
				qr.Factorize(A.dense())
				return qr.Cond()
			default:
				var lq mat.LQ
				lq.Factorize(A.dense())
				return lq.Cond()
			}
		}
	}
	t.Nontrivial()
	t.Outcome(fmt.Sprintf("%s full=%v", map[bool]string{true: "solvetoer", false: "generic"}[kind == "LU" || kind == "QR" || kind == "LQ"], f.full))
	s := &solver{name: "Dense.Solve(" + kind + ")", A: A, hasTrans: true, aliasOK: true, fullRank: f.full, exactSing: f.exactSing, cond: cond,
		solve: func(dst *mat.Dense, trans bool, b mat.Matrix) error {
			if trans {
				return dst.Solve(a.T(), b)
			}
			return dst.Solve(a, b)
		},
		solveVec: func(dst *mat.VecDense, trans bool, b mat.Vector) error {
			if trans {
				return dst.SolveVec(a.T(), b)
			}
			return dst.SolveVec(a, b)
		}}
	s.prepare()
	s.run(t, cfg)
	if maxAbs(subM(fromMat(a), A)) > 1e-9*math.Max(1, maxAbs(A)) {
		t.Failf("Solve modified its matrix argument")
	}
	// A·X = A is answered with the identity without factorizing (documented fast path in the source)
	if m == n && (kind == "dense" || kind == "view") {
		var x mat.Dense
		if err := x.Solve(a, a); err != nil {
			t.Failf("Solve(a, a): %v", err)
		} else if maxAbs(subM(fromMat(&x), eyeM(n))) != 0 {
			t.Failf("Solve(a, a) = %s, want identity", fmtM(fromMat(&x)))
		}
	}
}

// ---------------------------------------------------------------- structured SolveTo

func genStructured(g *vlib.G) {
	for _, n := range append(sizesSmall(g), sizesBig(g)...) {
		for _, kind := range []string{"tri-upper", "tri-lower", "tri-upper-strided", "tri-lower-strided", "triband-upper", "triband-lower", "triband-upper-strided", "triband-lower-strided", "tridiag"} {
			ks := []int{0}
			if strings.HasPrefix(kind, "triband") {
				ks = vlib.Ints(0, n-1)
				if n > 8 {
					ks = []int{0, 1, 5, n - 1}
				}
			}
			for _, k := range ks {
				for _, sing := range []string{"regular", "zero-diag"} {
					for v := 0; v < variants(g); v++ {
						if n > 8 && v > 0 {
							continue
						}
						n, kind, k, sing, v := n, kind, k, sing, variantID(g, v)
						cfg := quickCfg(g)
						if n > 8 {
							cfg = bigCfg()
						}
						cfg.variant = v
						g.Case(fmt.Sprintf("%s n=%d k=%d %s v=%d", kind, n, k, sing, v), func(t *vlib.T) {
							structuredCase(t, n, kind, k, sing, v, cfg)
						})
					}
				}
			}
		}
	}
}

func structuredCase(t *vlib.T, n int, kind string, k int, sing string, v int, cfg solveCfg) {
	// "-strided": the same band matrix stored with padded rows (SetRawTriBand, NaN poison in the padding)
	strided := strings.HasSuffix(kind, "-strided")
	kind = strings.TrimSuffix(kind, "-strided")
	full := genMat("dd", n, n, v)
	A := newM(n, n)
	keep := func(i, j int) bool {
		switch kind {
		case "tri-upper":
			return j >= i
		case "tri-lower":
			return j <= i
		case "triband-upper":
			return j >= i && j-i <= k
		case "triband-lower":
			return j <= i && i-j <= k
		case "tridiag":
			return j-i <= 1 && i-j <= 1
		}
		panic(kind)
	}
	for i := 0; i < n; i++ {
		for j := 0; j < n; j++ {
			if keep(i, j) {
				A.set(i, j, full.at(i, j))
			}
		}
	}
	singular := sing == "zero-diag"
	if singular {
		z := (v + n) % n
		A.set(z, z, 0)
		if kind == "tridiag" {
			// a zero diagonal entry alone does not make a tridiagonal matrix singular: zero the row
			for j := 0; j < n; j++ {
				A.set(z, j, 0)
			}
		}
	}
	var a mat.Matrix
	var direct func(*mat.Dense, bool, mat.Matrix) error
	var directVec func(*mat.VecDense, bool, mat.Vector) error
	switch kind {
	case "tri-upper", "tri-lower":
		d := make([]float64, n*n)
		vlib.FillPoison64(d) // the other triangle must never be read
		for i := 0; i < n; i++ {
			for j := 0; j < n; j++ {
				if keep(i, j) {
					d[i*n+j] = A.at(i, j)
				}
			}
		}
		tk := mat.Upper
		if kind == "tri-lower" {
			tk = mat.Lower
		}
		tr := mat.NewTriDense(n, tk, d)
		if strided {
			// SliceTri view of a larger poisoned triangle: row stride n+2
			N := n + 2
			back := make([]float64, N*N)
			vlib.FillPoison64(back)
			tr = mat.NewTriDense(N, tk, back).SliceTri(1, 1+n).(*mat.TriDense)
			for i := 0; i < n; i++ {
				for j := 0; j < n; j++ {
					if keep(i, j) {
						tr.SetTri(i, j, A.at(i, j))
					}
				}
			}
		}
		a, direct = tr, tr.SolveTo
	case "triband-upper", "triband-lower":
		tk := mat.Upper
		if kind == "triband-lower" {
			tk = mat.Lower
		}
		tb := mat.NewTriBandDense(n, k, tk, nil)
		if strided {
			stride := k + 4
			data := make([]float64, n*stride)
			vlib.FillPoison64(data)
			ul := blas.Upper
			if tk == mat.Lower {
				ul = blas.Lower
			}
			tb = &mat.TriBandDense{}
			tb.SetRawTriBand(blas64.TriangularBand{N: n, K: k, Stride: stride, Uplo: ul, Diag: blas.NonUnit, Data: data})
		}
		for i := 0; i < n; i++ {
			for j := 0; j < n; j++ {
				if keep(i, j) {
					tb.SetTriBand(i, j, A.at(i, j))
				}
			}
		}
		a, direct, directVec = tb, tb.SolveTo, tb.SolveVecTo
	case "tridiag":
		var dl, du []float64
		d := make([]float64, n)
		if n > 1 {
			dl, du = make([]float64, n-1), make([]float64, n-1)
		}
		for i := 0; i < n; i++ {
			d[i] = A.at(i, i)
			if i+1 < n {
				du[i] = A.at(i, i+1)
				dl[i] = A.at(i+1, i)
			}
		}
		td := mat.NewTridiag(n, dl, d, du)
		a, direct, directVec = td, td.SolveTo, td.SolveVecTo
	}
	t.Nontrivial()
	t.Outcome(sing)
	if maxAbs(subM(fromMat(a), A)) != 0 {
		t.Failf("harness: structured matrix does not read back: %s vs %s", fmtM(fromMat(a)), fmtM(A))
		return
	}
	s := &solver{name: kind + ".SolveTo", A: A, hasTrans: true, aliasOK: true, fullRank: !singular, exactSing: singular,
		solve: direct, solveVec: directVec}
	s.prepare()
	s.run(t, cfg)
	// the same through Dense.Solve (SolveToer dispatch, transposes unwrapped)
	s2 := &solver{name: "Dense.Solve(" + kind + ")", A: A, hasTrans: true, aliasOK: true, fullRank: !singular, exactSing: singular,
		solve: func(dst *mat.Dense, trans bool, b mat.Matrix) error {
			if trans {
				return dst.Solve(a.T(), b)
			}
			return dst.Solve(a, b)
		},
		solveVec: func(dst *mat.VecDense, trans bool, b mat.Vector) error {
			if trans {
				return dst.SolveVec(a.T(), b)
			}
			return dst.SolveVec(a, b)
		}}
	s2.pinv, s2.kappa = s.pinv, s.kappa
	cfg2 := cfg
	cfg2.breps = []string{"dense", "trans", "user"}
	cfg2.vreps = []string{"vec", "uservec"}
	s2.run(t, cfg2)
	if maxAbs(subM(fromMat(a), A)) != 0 {
		t.Failf("solves modified the matrix")
	}

	// InverseTri
	if tr, ok := a.(*mat.TriDense); ok {
		for _, dk := range []string{"empty", "sized"} {
			var dst mat.TriDense
			if dk == "sized" {
				_, tk := tr.Triangle()
				dst = *mat.NewTriDense(n, tk, nil)
			}
			err := dst.InverseTri(tr)
			if singular {
				if err == nil {
					t.Failf("InverseTri of a triangular matrix with a zero diagonal entry: nil error")
				}
				continue
			}
			if err != nil {
				if s.kappa < wellCond {
					t.Failf("InverseTri: %v (reference condition %.3g)", err, s.kappa)
				}
				continue
			}
			bound := tolForward * float64(n) * eps * s.kappa * normF(s.pinv)
			if d := maxAbs(subM(fromMat(&dst), s.pinv)); !(d <= bound) {
				t.Failf("InverseTri(%s): |inv-ref| = %.3g > %.3g", dk, d, bound)
			}
		}
		// documented: "If a is ill-conditioned, a Condition error will be returned."
		if !singular && n >= 2 {
			ill := A.clone()
			// scale the last row to 2^-70: condition number >= 2^70/|A| ~ 1e20, far beyond ConditionTolerance = 1e16
			for j := 0; j < n; j++ {
				ill.set(n-1, j, math.Ldexp(ill.at(n-1, j), -70))
			}
			if kind == "tri-upper" {
				// keep it triangular: the last row of an upper triangle is only its diagonal entry
			}
			d := make([]float64, n*n)
			for i := 0; i < n; i++ {
				for j := 0; j < n; j++ {
					if keep(i, j) {
						d[i*n+j] = ill.at(i, j)
					}
				}
			}
			_, tk := tr.Triangle()
			it := mat.NewTriDense(n, tk, d)
			p, _ := pinvRef(ill)
			kref := normInf(ill) * normInf(p)
			var dst mat.TriDense
			if err := dst.InverseTri(it); err == nil && kref > 1e19 {
				finding(t, "InverseTri-illcond", "tridense-rcond-compared-as-cond",
					"InverseTri of a triangular matrix with condition number %.3g (ConditionTolerance 1e16) returned nil error", kref)
			}
		}
	}
}

// ---------------------------------------------------------------- Inverse

func genInverse(g *vlib.G) {
	for _, n := range append(sizesSmall(g), sizesBig(g)...) {
		for _, f := range genFams {
			for v := 0; v < variants(g); v++ {
				reps := []string{"dense", "view", "trans", "transview", "user", "sym"}
				if n > 8 {
					if f.name == "graded" || f.name == "indef" || f.name == "rankdef" || v > 0 {
						continue
					}
					reps = []string{"dense", "trans"}
				}
				for _, rep := range reps {
					if rep == "sym" && f.name != "indef" {
						continue
					}
					n, f, v, rep := n, f, variantID(g, v), rep
					g.Case(fmt.Sprintf("Inverse n=%d fam=%s v=%d A=%s", n, f.name, v, rep), func(t *vlib.T) {
						inverseCase(t, n, f, v, rep)
					})
				}
			}
		}
	}
}

func inverseCase(t *vlib.T, n int, f famInfo, v int, rep string) {
	A := genMat(f.name, n, n, v)
	t.Nontrivial()
	t.Outcome(fmt.Sprintf("full=%v", f.full))
	var pinv *M
	var kappa float64
	if f.full {
		pinv, _ = pinvRef(A)
		kappa = normF(A) * normF(pinv)
	}
	for _, dk := range []string{"empty", "sized", "sizedview", "alias", "alias-trans"} {
		var a mat.Matrix
		if rep == "sym" {
			a = repSym("sym", A)
		} else {
			a = repGen(rep, A)
		}
		var dst *mat.Dense
		var gd *guarded
		switch dk {
		case "empty":
			dst = &mat.Dense{}
		case "sized":
			d := make([]float64, n*n)
			vlib.FillPoison64(d)
			dst = mat.NewDense(n, n, d)
		case "sizedview":
			gd = newGuarded(n, n, nil)
			dst = gd.view
		case "alias":
			ad, ok := a.(*mat.Dense)
			if !ok {
				continue
			}
			dst = ad
		case "alias-trans":
			if rep != "dense" && rep != "view" {
				continue
			}
			// receiver is the matrix whose transpose is inverted
			ad := repGen(rep, A.T()).(*mat.Dense)
			dst, a = ad, ad.T()
		}
		label := fmt.Sprintf("Inverse A=%s dst=%s", rep, dk)
		var err error
		if msg := recoverMsg(func() { err = dst.Inverse(a) }); msg != "" {
			t.Failf("%s: panic %s", label, msg)
			continue
		}
		if gd != nil {
			if idx, ok := gd.paddingIntact(); !ok {
				t.Failf("%s: wrote outside the destination view (backing index %d)", label, idx)
			}
		}
		if !f.full {
			ce, isCond := err.(mat.Condition)
			switch {
			case err == nil:
				t.Failf("%s: singular matrix %s inverted with nil error", label, fmtM(A))
			case !isCond:
				t.Failf("%s: error %T, want mat.Condition", label, err)
			case f.exactSing && !math.IsInf(float64(ce), 1):
				t.Failf("%s: exactly singular matrix gave Condition(%g), want +Inf", label, float64(ce))
			case !(float64(ce) >= 1e15):
				t.Failf("%s: singular matrix gave Condition(%g)", label, float64(ce))
			}
			continue
		}
		if err != nil {
			if kappa < wellCond {
				t.Failf("%s: %v (reference condition %.3g)", label, err, kappa)
			}
			continue
		}
		X := fromMat(dst)
		bound := tolForward * float64(n) * eps * kappa * normF(pinv)
		if d := maxAbs(subM(X, pinv)); !(d <= bound) {
			t.Failf("%s: |inv-ref| = %.3g > %.3g A=%s", label, d, bound, fmtM(A))
		}
	}
}

// ---------------------------------------------------------------- Exp

var expNorms = []float64{0, 0.01, 0.2, 0.9, 2, 5, 12, 40}

func expMat(fam string, n, v int, target float64) *M {
	var a *M
	switch fam {
	case "dd":
		a = genMat("dd", n, n, v)
	case "nilpotent":
		a = genMat("dd", n, n, v)
		for i := 0; i < n; i++ {
			for j := 0; j <= i; j++ {
				a.set(i, j, 0)
			}
		}
		if n == 1 {
			a.set(0, 0, 1)
		}
	case "skew":
		a = genMat("pivot", n, n, v)
		for i := 0; i < n; i++ {
			a.set(i, i, 0)
			for j := 0; j < i; j++ {
				a.set(i, j, -a.at(j, i))
			}
		}
		if n == 1 {
			a.set(0, 0, -1)
		}
	case "negdef":
		a = symMat("negdef", n, v)
	case "diag":
		a = newM(n, n)
		for i := 0; i < n; i++ {
			a.set(i, i, float64(i-n/2)+0.5)
		}
	}
	// scale by a power of two so that the 1-norm is just below the target (stays dyadic)
	n1 := norm1(a)
	if target == 0 || n1 == 0 {
		return newM(n, n)
	}
	e := math.Floor(math.Log2(target / n1))
	return scaleM(math.Ldexp(1, int(e)), a)
}

func genExp(g *vlib.G) {
	for _, n := range append(sizesSmall(g), vlib.Pick(g, []int{9}, []int{9, 16, 33})...) {
		for _, fam := range []string{"dd", "nilpotent", "skew", "negdef", "diag"} {
			for _, target := range expNorms {
				for v := 0; v < variants(g); v++ {
					if n > 8 && v > 0 {
						continue
					}
					n, fam, target, v := n, fam, target, variantID(g, v)
					g.Case(fmt.Sprintf("Exp n=%d fam=%s norm<=%g v=%d", n, fam, target, v), func(t *vlib.T) {
						expCase(t, n, fam, target, v)
					})
				}
			}
		}
	}
}

func expCase(t *vlib.T, n int, fam string, target float64, v int) {
	A := expMat(fam, n, v, target)
	n1 := norm1(A)
	want := bigExpRef(A)
	t.Nontrivial()
	branch := "scaled"
	for _, th := range []float64{0.015, 0.25, 0.95, 2.1, 5.4} {
		if n1 <= th {
			branch = fmt.Sprintf("theta<=%g", th)
			break
		}
	}
	if n == 1 {
		branch = "scalar"
	}
	t.Outcome(branch)
	// error model: Padé approximation is backward stable (|ΔA| <= eps|A|) and the
	// condition number of exp is at most |A|·e^|A| relative to e^|A|; squaring phases add log2 steps.
	bound := tolForward * float64(n) * eps * math.Max(1, n1) * math.Exp(n1)
	reps := []string{"dense", "view", "trans", "user"}
	if n > 8 {
		reps = []string{"dense"}
	}
	for _, rep := range reps {
		for _, dk := range []string{"empty", "sized", "sizedview", "alias"} {
			a := repGen(rep, A)
			var dst *mat.Dense
			var gd *guarded
			switch dk {
			case "empty":
				dst = &mat.Dense{}
			case "sized":
				d := make([]float64, n*n)
				vlib.FillPoison64(d)
				dst = mat.NewDense(n, n, d)
			case "sizedview":
				gd = newGuarded(n, n, nil)
				dst = gd.view
			case "alias":
				ad, ok := a.(*mat.Dense)
				if !ok {
					continue
				}
				dst = ad
			}
			label := fmt.Sprintf("Exp A=%s dst=%s", rep, dk)
			if msg := recoverMsg(func() { dst.Exp(a) }); msg != "" {
				t.Failf("%s: panic %s", label, msg)
				continue
			}
			if gd != nil {
				if idx, ok := gd.paddingIntact(); !ok {
					t.Failf("%s: wrote outside the destination view (backing index %d)", label, idx)
				}
			}
			if dk != "alias" && maxAbs(subM(fromMat(a), A)) != 0 {
				t.Failf("%s: argument modified", label)
			}
			if d := maxAbs(subM(fromMat(dst), want)); !(d <= bound) {
				t.Failf("%s: |exp-ref| = %.3g > %.3g (|A|_1 = %g) A=%s", label, d, bound, n1, fmtM(A))
			}
		}
	}
}

// ---------------------------------------------------------------- Pow

func genPow(g *vlib.G) {
	for _, n := range sizesSmall(g) {
		for _, fam := range []string{"small", "pivot01", "sym"} {
			for v := 0; v < variants(g); v++ {
				for _, rep := range []string{"dense", "view", "trans", "user", "symdense"} {
					if (rep == "symdense") != (fam == "sym") {
						continue
					}
					n, fam, v, rep := n, fam, variantID(g, v), rep
					g.Case(fmt.Sprintf("Pow n=%d fam=%s v=%d A=%s", n, fam, v, rep), func(t *vlib.T) {
						powCase(t, n, fam, v, rep, vlib.Pick(g, 8, 12))
					})
				}
			}
		}
	}
}

func powCase(t *vlib.T, n int, fam string, v int, rep string, maxPow int) {
	l := seedOf("pow"+fam, n, v)
	A := newM(n, n)
	switch fam {
	case "small":
		for i := range A.d {
			A.d[i] = float64(l.Small(2))
		}
	case "pivot01":
		for i := range A.d {
			A.d[i] = float64(l.Next() % 2)
		}
	case "sym":
		for i := 0; i < n; i++ {
			for j := i; j < n; j++ {
				x := float64(l.Small(2))
				A.set(i, j, x)
				A.set(j, i, x)
			}
		}
	}
	t.Nontrivial()
	want := eyeM(n)
	for p := 0; p <= maxPow; p++ {
		if p > 0 {
			want = mulM(want, A) // exact: integers below 2^53
		}
		if maxAbs(want) >= 1<<52 {
			t.Failf("harness: reference overflow")
			return
		}
		for _, dk := range []string{"empty", "sized", "sizedview", "alias"} {
			var a mat.Matrix
			if rep == "symdense" {
				a = repSym("sym", A)
			} else {
				a = repGen(rep, A)
			}
			var dst *mat.Dense
			var gd *guarded
			switch dk {
			case "empty":
				dst = &mat.Dense{}
			case "sized":
				d := make([]float64, n*n)
				vlib.FillPoison64(d)
				dst = mat.NewDense(n, n, d)
			case "sizedview":
				gd = newGuarded(n, n, nil)
				dst = gd.view
			case "alias":
				ad, ok := a.(*mat.Dense)
				if !ok {
					continue
				}
				dst = ad
			}
			label := fmt.Sprintf("Pow(%d) A=%s dst=%s", p, rep, dk)
			if msg := recoverMsg(func() { dst.Pow(a, p) }); msg != "" {
				t.Failf("%s: panic %s", label, msg)
				continue
			}
			if gd != nil {
				if idx, ok := gd.paddingIntact(); !ok {
					t.Failf("%s: wrote outside the destination view (backing index %d)", label, idx)
				}
			}
			got := fromMat(dst)
			if idx, same := vlib.Same64(zeroNorm(got.d), zeroNorm(want.d)); !same {
				t.Failf("%s: differs from repeated multiplication at %d: got %s want %s", label, idx, fmtM(got), fmtM(want))
			}
		}
	}
	t.Count("pow_evaluations", int64(4*(maxPow+1)))
	mustPanic(t, "Pow(-1)", func() { (&mat.Dense{}).Pow(A.dense(), -1) })
}

// zeroNorm maps -0 to +0 (the sign of an exact zero sum is order dependent).
func zeroNorm(s []float64) []float64 {
	o := make([]float64, len(s))
	for i, v := range s {
		if v != 0 {
			o[i] = v
		}
	}
	return o
}

// ---------------------------------------------------------------- PowPSD

func genPowPSD(g *vlib.G) {
	for _, n := range append(sizesSmall(g), vlib.Pick(g, []int{9}, []int{9, 33})...) {
		for _, f := range symFams {
			for v := 0; v < variants(g); v++ {
				reps := symReps
				if n > 8 {
					if v > 0 || f.name == "spd-graded" {
						continue
					}
					reps = []string{"sym"}
				}
				for _, rep := range reps {
					n, f, v, rep := n, f, variantID(g, v), rep
					g.Case(fmt.Sprintf("PowPSD n=%d fam=%s v=%d A=%s", n, f.name, v, rep), func(t *vlib.T) {
						powPSDCase(t, n, f, v, rep)
					})
				}
			}
		}
	}
}

func powPSDCase(t *vlib.T, n int, f symFamInfo, v int, rep string) {
	A := symMat(f.name, n, v)
	t.Nontrivial()
	t.Outcome(f.class)
	var pinv *M
	var kappa float64
	if f.class == "pd" {
		pinv, _ = pinvRef(A)
		kappa = normF(A) * normF(pinv)
	}
	fn := float64(n)
	for _, pw := range []float64{1, 2, -1, 0.5, -0.5, 0, 3} {
		for _, dk := range []string{"empty", "sized", "alias"} {
			a := repSym(rep, A)
			var dst *mat.SymDense
			switch dk {
			case "empty":
				dst = &mat.SymDense{}
			case "sized":
				dst = mat.NewSymDense(n, nil)
				for i := 0; i < n; i++ {
					for j := i; j < n; j++ {
						dst.SetSym(i, j, 77)
					}
				}
			case "alias":
				sd, ok := a.(*mat.SymDense)
				if !ok {
					continue
				}
				dst = sd
			}
			label := fmt.Sprintf("PowPSD(%g) A=%s dst=%s", pw, rep, dk)
			var err error
			if msg := recoverMsg(func() { err = dst.PowPSD(a, pw) }); msg != "" {
				t.Failf("%s: panic %s", label, msg)
				continue
			}
			switch f.class {
			case "notpsd":
				if err != mat.ErrNotPSD {
					t.Failf("%s: error %v for a matrix with a negative eigenvalue, want ErrNotPSD", label, err)
				}
				continue
			case "psd":
				// eigenvalue zero: computed as ±rounding noise; either outcome is acceptable
				continue
			}
			if err != nil {
				t.Failf("%s: %v for positive definite %s", label, err, fmtM(A))
				continue
			}
			S := fromMat(dst)
			var got, want *M
			var amp float64
			switch pw {
			case 1:
				got, want, amp = S, A, 1
			case 2:
				got, want, amp = S, mulM(A, A), 1
			case 3:
				got, want, amp = S, mulM(mulM(A, A), A), 1
			case -1:
				got, want, amp = S, pinv, kappa
			case 0.5:
				got, want, amp = mulM(S, S), A, 1
			case -0.5:
				got, want, amp = mulM(mulM(S, A), S), eyeM(n), kappa
			case 0:
				got, want, amp = S, eyeM(n), 1
			}
			bound := tolForward * fn * eps * math.Max(amp, 1) * math.Max(normF(want), 1e-300)
			if d := maxAbs(subM(got, want)); !(d <= bound) {
				t.Failf("%s: defect %.3g > %.3g A=%s", label, d, bound, fmtM(A))
			}
		}
	}
}

// ---------------------------------------------------------------- same object in several argument positions

// genSolveSame: Dense.Solve / VecDense.SolveVec where the coefficient matrix and the
// right-hand side are the SAME object, possibly under T() on either side, and the
// receiver possibly that object too: X must be op(a)⁻¹·op(b) by definition (the
// identity only when both sides are the same view).
func genSolveSame(g *vlib.G) {
	hi := vlib.Pick(g, 5, 7)
	for n := 1; n <= hi; n++ {
		for _, fam := range []string{"dd", "pivot", "graded", "indef", "zeroline"} {
			for _, kind := range []string{"dense", "view", "sym", "tri-upper", "tri-lower", "LU"} {
				if kind == "sym" && fam != "indef" {
					continue
				}
				n, fam, kind := n, fam, kind
				g.Case(fmt.Sprintf("Solve-same n=%d fam=%s obj=%s", n, fam, kind), func(t *vlib.T) { solveSameCase(t, n, fam, kind) })
			}
		}
	}
}

func solveSameCase(t *vlib.T, n int, fam, kind string) {
	A := genMat(fam, n, n, 0)
	if kind == "tri-upper" || kind == "tri-lower" {
		for i := 0; i < n; i++ {
			for j := 0; j < n; j++ {
				if (kind == "tri-upper" && j < i) || (kind == "tri-lower" && j > i) {
					A.set(i, j, 0)
				}
			}
		}
	}
	mk := func() mat.Matrix {
		switch kind {
		case "dense":
			return A.dense()
		case "view":
			return newGuarded(n, n, A).view
		case "sym":
			return repSym("sym", A)
		case "tri-upper":
			return mat.NewTriDense(n, mat.Upper, append([]float64(nil), A.d...))
		case "tri-lower":
			return mat.NewTriDense(n, mat.Lower, append([]float64(nil), A.d...))
		case "LU":
			var lu mat.LU
			lu.Factorize(A.dense())
			return &lu
		}
		panic(kind)
	}
	_, rank := ratElim(A)
	full := rank == n
	t.Nontrivial()
	t.Outcome(fmt.Sprintf("%s full=%v", kind, full))
	var pinv *M
	var kappa float64
	if full {
		pinv, _ = pinvRef(A)
		kappa = normF(A) * normF(pinv)
	}
	type arg struct {
		name   string
		ta, tb bool
	}
	for _, ar := range []arg{{"Solve(a, a)", false, false}, {"Solve(a.T(), a)", true, false}, {"Solve(a, a.T())", false, true}, {"Solve(a.T(), a.T())", true, true}} {
		for _, recv := range []string{"empty", "sized", "receiver-is-a"} {
			obj := mk()
			var a, b mat.Matrix = obj, obj
			opA, opB := A, A
			if ar.ta {
				a, opA = obj.T(), A.T()
			}
			if ar.tb {
				b, opB = obj.T(), A.T()
			}
			var dst *mat.Dense
			switch recv {
			case "empty":
				dst = &mat.Dense{}
			case "sized":
				d := make([]float64, n*n)
				vlib.FillPoison64(d)
				dst = mat.NewDense(n, n, d)
			case "receiver-is-a":
				od, ok := obj.(*mat.Dense)
				if !ok {
					continue
				}
				dst = od
			}
			label := fmt.Sprintf("%s recv=%s", ar.name, recv)
			var err error
			if msg := recoverMsg(func() { err = dst.Solve(a, b) }); msg != "" {
				if recv == "receiver-is-a" && strings.Contains(msg, "bad region") {
					t.Count("same_object_refused_with_overlap_panic", 1)
					continue
				}
				t.Failf("%s: panic %s", label, msg)
				continue
			}
			t.Count("same_object_solves", 1)
			sameView := ar.ta == ar.tb
			if !full {
				// op(a)·X = op(a) is solved by X = I whatever a is; otherwise a singular a must be reported
				if err == nil && !sameView {
					t.Failf("%s: singular a %s solved with nil error", label, fmtM(A))
				}
				if err != nil {
					continue
				}
			}
			if err != nil {
				if kappa < wellCond {
					t.Failf("%s: %v (reference condition %.3g)", label, err, kappa)
				}
				continue
			}
			X := fromMat(dst)
			if X.r != n || X.c != n || hasNaN(X) {
				t.Failf("%s: result %s", label, fmtM(X))
				continue
			}
			// definition: op(a)·X = op(b)
			res := subM(mulM(opA, X), opB)
			if r := maxAbs(res) / (float64(n) * eps * (normF(opA)*normF(X) + normF(opB))); r > tolResid {
				t.Failf("%s: residual ratio %.3g: op(a)·X != op(b); a=%s X=%s", label, r, fmtM(A), fmtM(X))
				continue
			}
			if full {
				want := mulM(pinv, opB)
				if ar.ta {
					want = mulM(pinv.T(), opB)
				}
				bound := tolForward * float64(n) * eps * kappa * math.Max(normF(want), 1)
				if bound <= 1e-3*normF(want) {
					if d := maxAbs(subM(X, want)); !(d <= bound) {
						t.Failf("%s: |X - op(a)⁻¹op(b)| = %.3g > %.3g a=%s X=%s", label, d, bound, fmtM(A), fmtM(X))
					}
				}
			}
		}
	}
	// SolveVec with a column (or row) view of the coefficient matrix itself as right-hand side
	if kind == "dense" || kind == "view" {
		for _, ta := range []bool{false, true} {
			for j := 0; j < n; j++ {
				obj := mk().(*mat.Dense)
				var a mat.Matrix = obj
				opA := A
				var bv mat.Vector = obj.ColView(j)
				bcol := A.col(j)
				if ta {
					a, opA = obj.T(), A.T()
					bv = obj.RowView(j) // column j of aᵀ
					bcol = A.T().col(j)
				}
				var x mat.VecDense
				var err error
				label := fmt.Sprintf("SolveVec(a%s, own column %d)", map[bool]string{true: ".T()"}[ta], j)
				if msg := recoverMsg(func() { err = x.SolveVec(a, bv) }); msg != "" {
					t.Failf("%s: panic %s", label, msg)
					continue
				}
				t.Count("same_object_solves", 1)
				if !full {
					if err == nil {
						t.Failf("%s: singular a solved with nil error", label)
					}
					continue
				}
				if err != nil {
					if kappa < wellCond {
						t.Failf("%s: %v", label, err)
					}
					continue
				}
				// op(a)·e_j = its own column j
				X := fromMat(&x)
				res := subM(mulM(opA, X), &M{r: n, c: 1, d: bcol})
				if r := maxAbs(res) / (float64(n) * eps * (normF(opA)*normF(X) + normF(opA))); r > tolResid {
					t.Failf("%s: residual ratio %.3g", label, r)
				}
				bound := tolForward * float64(n) * eps * kappa
				for i := 0; i < n; i++ {
					w := 0.0
					if i == j {
						w = 1
					}
					if bound <= 1e-3 && math.Abs(X.at(i, 0)-w) > bound {
						t.Failf("%s: x = %s, want e_%d", label, fmtM(X), j)
						break
					}
				}
			}
		}
	}
	// 1×1: a VecDense is both a matrix and a vector
	if n == 1 && kind == "dense" && full {
		v := mat.NewVecDense(1, []float64{A.at(0, 0)})
		for _, a := range []mat.Matrix{v, v.T()} {
			var x mat.VecDense
			if err := x.SolveVec(a, v); err != nil || x.AtVec(0) != 1 {
				t.Failf("SolveVec(v, v) for a 1×1 v: x=%v err=%v", fromMat(&x).d, err)
			}
		}
	}
}
