package main

// Update histories (E2): every sequence of update operations up to a fixed
// depth is applied to a factorization, depth-first with prefix sharing; after
// every step the factorization is compared with the explicitly updated matrix
// (tracked exactly: all values are dyadic rationals with few bits) and with a
// fresh factorization of it.

import (
	"fmt"
	"math"

	"gonum.org/v1/gonum/internal/verif/vlib"
	"gonum.org/v1/gonum/mat"
)

// invF64 is Gauss-Jordan with partial pivoting in float64 (reference for the
// small, exactly known history matrices).
var invScratch = map[int]*M{}

func invF64(a *M) (inv *M, det float64, ok bool) {
	n := a.r
	// scratch matrix per size, completely overwritten on every call (workers run cases sequentially)
	w := invScratch[n]
	if w == nil {
		w = newM(n, 2*n)
		invScratch[n] = w
	}
	for i := range w.d {
		w.d[i] = 0
	}
	for i := 0; i < n; i++ {
		for j := 0; j < n; j++ {
			w.set(i, j, a.at(i, j))
		}
		w.set(i, n+i, 1)
	}
	det = 1
	for k := 0; k < n; k++ {
		p := k
		for i := k + 1; i < n; i++ {
			if math.Abs(w.at(i, k)) > math.Abs(w.at(p, k)) {
				p = i
			}
		}
		if w.at(p, k) == 0 {
			return nil, 0, false
		}
		if p != k {
			for j := 0; j < 2*n; j++ {
				x, y := w.at(k, j), w.at(p, j)
				w.set(k, j, y)
				w.set(p, j, x)
			}
			det = -det
		}
		piv := w.at(k, k)
		det *= piv
		for j := 0; j < 2*n; j++ {
			w.set(k, j, w.at(k, j)/piv)
		}
		for i := 0; i < n; i++ {
			if i == k {
				continue
			}
			f := w.at(i, k)
			if f == 0 {
				continue
			}
			for j := 0; j < 2*n; j++ {
				w.add(i, j, -f*w.at(k, j))
			}
		}
	}
	inv = newM(n, n)
	for i := 0; i < n; i++ {
		for j := 0; j < n; j++ {
			inv.set(i, j, w.at(i, n+j))
		}
	}
	return inv, det, true
}

func vecE1(n int) []float64 { v := make([]float64, n); v[0] = 1; return v }
func vecEn(n int) []float64 { v := make([]float64, n); v[n-1] = 1; return v }
func vecOnes(n int) []float64 {
	v := make([]float64, n)
	for i := range v {
		v[i] = 1
	}
	return v
}
func vecAlt(n int) []float64 {
	v := make([]float64, n)
	for i := range v {
		v[i] = 1 - 2*float64(i%2)
	}
	return v
}

// ---------------------------------------------------------------- Cholesky

type cholOp struct {
	name  string
	kind  byte // 'R' rank one, 'E' extend, 'S' scale, 'C' clone, 'U' SetFromU
	alpha float64
	x     func(n int) []float64
	// state dependent operations that make the result EXACTLY singular (computed from
	// the exactly tracked matrix); they are always rejected and end the history.
	boundary func(A *M) (alpha float64, v []float64)
}

func colOf(A *M, j int) []float64 { return A.col(j) }

// dupExtend: [A w; wᵀ k] with w = A[:,j], k = A[j,j] has two equal rows.
func dupExtend(last bool) func(A *M) (float64, []float64) {
	return func(A *M) (float64, []float64) {
		j := 0
		if last {
			j = A.r - 1
		}
		return 0, append(colOf(A, j), A.at(j, j))
	}
}

// boundaryDowndate: A - a_j a_jᵀ / a_jj has a zero j-th row: 1 + alpha xᵀA⁻¹x = 0 exactly.
func boundaryDowndate(last bool) func(A *M) (float64, []float64) {
	return func(A *M) (float64, []float64) {
		j := 0
		if last {
			j = A.r - 1
		}
		return -1 / A.at(j, j), colOf(A, j)
	}
}

var cholOps = []cholOp{
	{"R(1,e1)", 'R', 1, vecE1, nil}, {"R(1,ones)", 'R', 1, vecOnes, nil}, {"R(1,alt)", 'R', 1, vecAlt, nil},
	{"R(-1/2,e1)", 'R', -0.5, vecE1, nil}, {"R(-1/2,ones)", 'R', -0.5, vecOnes, nil}, {"R(-1/2,alt)", 'R', -0.5, vecAlt, nil},
	{"R(2,e1)", 'R', 2, vecE1, nil}, {"R(2,ones)", 'R', 2, vecOnes, nil}, {"R(2,alt)", 'R', 2, vecAlt, nil},
	// ExtendVecSym(v): v[:n] = w, v[n] = k
	{"E(e1,n+4)", 'E', 0, func(n int) []float64 { return append(vecE1(n), float64(n+4)) }, nil},
	{"E(alt,4096)", 'E', 0, func(n int) []float64 { return append(vecAlt(n), 4096) }, nil},
	{"E(2ones,0)", 'E', 0, func(n int) []float64 { // k = 0: never positive definite
		v := vecOnes(n)
		for i := range v {
			v[i] = 2
		}
		return append(v, 0)
	}, nil},
	{"S(2)", 'S', 2, nil, nil}, {"S(1/2)", 'S', 0.5, nil, nil},
	{"Clone", 'C', 0, nil, nil},
	{"SetFromU", 'U', 0, nil, nil},
	{"E(dup-first)", 'E', 0, nil, dupExtend(false)},
	{"E(dup-last)", 'E', 0, nil, dupExtend(true)},
	{"R(-1/a11,col1)", 'R', 0, nil, boundaryDowndate(false)},
	{"R(-1/ann,coln)", 'R', 0, nil, boundaryDowndate(true)},
}

const histMaxN = 6 // ExtendVecSym is not applied beyond this size

type cholNode struct {
	A     *M
	c     *mat.Cholesky
	acc   float64 // accumulated backward-error scale
	steps int
	// caches shared by all children (computed once per node)
	U    *M      // snapshot of the factor
	cond float64 // Cond() at snapshot time
	inv  *M      // reference inverse of A
	det  float64 // reference determinant of A
}

func (nd *cholNode) snapshot() {
	if nd.U == nil {
		var u mat.TriDense
		nd.c.UTo(&u)
		nd.U = fromMat(&u)
		nd.cond = nd.c.Cond()
	}
}

func (nd *cholNode) inverse() *M {
	if nd.inv == nil {
		inv, det, ok := invF64(nd.A)
		if !ok {
			panic("harness: state matrix not invertible")
		}
		nd.inv, nd.det = inv, det
	}
	return nd.inv
}

// sameFactor compares the factor held by c with a snapshot without allocating.
func sameFactor(c *mat.Cholesky, U *M) bool {
	r := c.RawU()
	if r == nil {
		return false
	}
	n, _ := r.Triangle()
	if n != U.r {
		return false
	}
	for i := 0; i < n; i++ {
		for j := i; j < n; j++ {
			if math.Float64bits(r.At(i, j)) != math.Float64bits(U.at(i, j)) {
				return false
			}
		}
	}
	return true
}

type histCtx struct {
	t           *vlib.T
	maxDepth    int
	nodes       int64
	failed      int
	failedKnown int
	path        []string
	outcomes    map[string]int64
	second      int // the case explores only this operation at depth 2 (-1: all)
	// reusable objects (per size) to keep the allocation rate down
	freshC map[int]*mat.Cholesky
	viaUC  map[int]*mat.Cholesky
	symBuf map[int]*mat.SymDense
}

func (h *histCtx) out(cls string, mute bool) {
	if !mute {
		h.outcomes[cls]++
	}
}

// fresh returns a factorization object that is re-used for every fresh factorization of size n
// (re-factorizing on one receiver is itself covered by the reuse group) and the matrix to fill.
func (h *histCtx) ensure(n int) {
	if h.freshC == nil {
		h.freshC, h.viaUC, h.symBuf = map[int]*mat.Cholesky{}, map[int]*mat.Cholesky{}, map[int]*mat.SymDense{}
	}
	if h.freshC[n] == nil {
		h.freshC[n], h.viaUC[n], h.symBuf[n] = new(mat.Cholesky), new(mat.Cholesky), mat.NewSymDense(n, nil)
	}
}

func (h *histCtx) fresh(a *M) (*mat.Cholesky, bool) {
	n := a.r
	h.ensure(n)
	sb := h.symBuf[n]
	for i := 0; i < n; i++ {
		for j := i; j < n; j++ {
			sb.SetSym(i, j, a.at(i, j))
		}
	}
	c := h.freshC[n]
	return c, c.Factorize(sb)
}

// utuDefect returns max |UᵀU − A| for an upper triangular U without allocating.
func utuDefect(U, A *M) float64 {
	n := U.r
	var worst float64
	for i := 0; i < n; i++ {
		for j := i; j < n; j++ {
			var s float64
			for k := 0; k <= i; k++ {
				s += U.d[k*n+i] * U.d[k*n+j]
			}
			d := math.Abs(s - A.d[i*n+j])
			if d > worst || d != d {
				worst = d
			}
		}
	}
	return worst
}

// skip reports whether operation o at the given depth belongs to another case.
func (h *histCtx) skip(o, depth int) bool { return depth == 2 && h.second >= 0 && o != h.second }

func (h *histCtx) failf(class, format string, a ...any) {
	// vlib keeps at most 8 sub-violations per case: at most 2 of them may be spent on
	// named finding classes so that these can never crowd out an unclassified alarm.
	if class != "" {
		h.failedKnown++
		if h.failedKnown > 2 {
			h.t.Count("alarm:"+alarmName(class), 1)
			return
		}
	} else {
		h.failed++
		if h.failed > 6 {
			h.t.Count("alarm:"+alarmName(class), 1)
			h.t.Incomplete("more than 6 unclassified alarms in one history case")
			return
		}
	}
	msg := fmt.Sprintf(format, a...)
	h.t.Count("alarm:"+alarmName(class), 1)
	h.t.SubViolation(fmt.Sprint(h.path), class, map[string]any{"history": append([]string(nil), h.path...)}, "history %v: %s", h.path, msg)
}

// cholDepth is the history depth for a start family and size.
func cholDepth(g *vlib.G, fam string, n int) int {
	d := 5
	if g.Thorough() && fam == "spd" && n == 2 {
		d = 6
	}

	if fam == "ident" && !g.Thorough() {
		// exact-arithmetic start (the boundary operations are decided exactly by the
		// implementation too): one level less in the quick tier.
		d = 4
	}
	return d
}

func genCholHist(g *vlib.G) {
	for _, fam := range []string{"spd", "spd-dd", "ident"} {
		for n := 1; n <= 4; n++ {
			depth := cholDepth(g, fam, n)
			for o1 := range cholOps {
				for o2 := range cholOps {
					fam, n, o1, o2, depth := fam, n, o1, o2, depth
					// one case = all histories that start with (o1, o2); the node of o1 alone is counted in the case o2 == 0
					g.Case(fmt.Sprintf("chol-history start=%s n=%d first=%s second=%s depth<=%d", fam, n, cholOps[o1].name, cholOps[o2].name, depth), func(t *vlib.T) {
						A := symMat(fam, n, 0)
						var c mat.Cholesky
						if !c.Factorize(repSym("sym", A)) {
							t.Failf("start factorization failed")
							return
						}
						h := &histCtx{t: t, maxDepth: depth, outcomes: map[string]int64{}, second: o2}
						root := &cholNode{A: A, c: &c, acc: float64(n) * maxAbs(A)}
						h.cholStep(root, o1, 1)
						t.Count("histories", h.nodes)
						t.Count("chol_histories", h.nodes)
						for k, v := range h.outcomes {
							t.Count("chol_step:"+k, v)
						}
						t.Max("depth", int64(depth))
						if h.nodes > 0 {
							t.Nontrivial()
						}
						t.Outcome(fmt.Sprintf("nodes>0=%v downdate-rejected=%v extend-rejected=%v singular-rejected=%v", h.nodes > 0, h.outcomes["R-rejected"] > 0, h.outcomes["E-rejected"] > 0, h.outcomes["E-singular-rejected"]+h.outcomes["R-singular-rejected"] > 0))
					})
				}
			}
		}
	}
}

// badDiag describes a diagonal entry of the factor that is not finite and strictly positive ("" if none).
func badDiag(c *mat.Cholesky) string {
	if c.IsEmpty() {
		return "an empty receiver"
	}
	var u mat.TriDense
	c.UTo(&u)
	n, _ := u.Triangle()
	for i := 0; i < n; i++ {
		if d := u.At(i, i); !(d > 0) || math.IsInf(d, 0) {
			return fmt.Sprintf("U[%d,%d] = %v", i, i, d)
		}
	}
	return ""
}

// cholStep applies op to a copy of the parent state, checks the result and recurses.
func (h *histCtx) cholStep(parent *cholNode, oi int, depth int) {
	op := cholOps[oi]
	n := parent.A.r
	if op.kind == 'E' && n >= histMaxN {
		return // not applicable (size bound); not a history
	}
	// the depth-1 node is shared by the cases of all second operations: counted once
	mute := depth == 1 && h.second > 0
	if !mute {
		h.nodes++
	}
	h.path = append(h.path, op.name)
	defer func() { h.path = h.path[:len(h.path)-1] }()

	// The parent factorization must stay intact for its other children: in-place
	// operations run on a Clone (Clone is itself an operation of the alphabet and is
	// verified like every other step).
	inPlace := (oi+depth)%2 == 0
	parent.snapshot()
	parentU, parentCond := parent.U, parent.cond

	var recv *mat.Cholesky
	orig := parent.c
	if inPlace {
		recv = new(mat.Cholesky)
		recv.Clone(parent.c)
		orig = recv
	} else {
		recv = new(mat.Cholesky)
	}
	A2 := parent.A
	applied := true
	terminal := false // the history ends here (exactly singular result)
	var cls string
	switch op.kind {
	case 'R':
		var x []float64
		if op.boundary != nil {
			op.alpha, x = op.boundary(parent.A)
		} else {
			x = op.x(n)
		}
		var xv mat.Vector = mat.NewVecDense(n, append([]float64(nil), x...))
		if depth%2 == 0 {
			xv = repVec("vecinc", x)
		}
		// exact decision: A + αxxᵀ is positive definite iff 1 + α xᵀA⁻¹x > 0
		want := 1
		if op.boundary != nil {
			want = 0 // by construction
		} else if op.alpha < 0 {
			inv := parent.inverse()
			var q float64
			for i := 0; i < n; i++ {
				for j := 0; j < n; j++ {
					q += x[i] * inv.at(i, j) * x[j]
				}
			}
			d := 1 + op.alpha*q
			switch {
			case d > 1e-9:
				want = 1
			case d < -1e-9:
				want = -1
			default:
				upd := parent.A.clone()
				for i := 0; i < n; i++ {
					for j := 0; j < n; j++ {
						upd.add(i, j, op.alpha*x[i]*x[j])
					}
				}
				want, _ = ratElim(upd) // sign of det decides (one eigenvalue can cross zero)
			}
		}
		var ok bool
		if msg := recoverMsg(func() { ok = recv.SymRankOne(orig, op.alpha, xv) }); msg != "" {
			h.failf("", "SymRankOne panicked: %s", msg)
			return
		}
		switch {
		case want == 0:
			// Exactly singular result: documented to return false ("returns whether the updated
			// matrix A' is positive definite"). The implementation decides on rounded quantities,
			// so true is tolerated only if it leaves a usable factor (finite, strictly positive
			// diagonal; then the pivot is rounding noise); a zero or NaN diagonal with ok == true is
			// the violation. In states whose factors are exactly representable (start = identity)
			// this is the strict test ok == false.
			terminal = true
			if ok {
				if bad := badDiag(recv); bad != "" {
					h.failf("", "SymRankOne(%g,%v) on %s gives an exactly singular matrix but returned true with %s", op.alpha, x, fmtM(parent.A), bad)
					return
				}
				h.out("R-singular-accepted-by-rounding", mute)
				return
			}
			cls = "R-singular-rejected"
			applied = false
		case want < 0:
			cls = "R-rejected"
			if ok {
				h.failf("", "SymRankOne(%g,%v) returned true although the updated matrix is indefinite; A=%s", op.alpha, x, fmtM(parent.A))
				return
			}
			applied = false
		default:
			cls = "R-applied"
			if !ok {
				h.failf("", "SymRankOne(%g,%v) returned false although the updated matrix is positive definite; A=%s", op.alpha, x, fmtM(parent.A))
				return
			}
			A2 = parent.A.clone()
			for i := 0; i < n; i++ {
				for j := 0; j < n; j++ {
					A2.add(i, j, op.alpha*x[i]*x[j])
				}
			}
		}
	case 'E':
		var v []float64
		if op.boundary != nil {
			_, v = op.boundary(parent.A)
		} else {
			v = op.x(n)
		}
		var vv mat.Vector = mat.NewVecDense(n+1, append([]float64(nil), v...))
		if depth%2 == 0 {
			vv = userVec{append([]float64(nil), v...)}
		}
		// positive definite iff k > wᵀA⁻¹w
		inv := parent.inverse()
		var q float64
		for i := 0; i < n; i++ {
			for j := 0; j < n; j++ {
				q += v[i] * inv.at(i, j) * v[j]
			}
		}
		d := v[n] - q
		if op.boundary != nil {
			d = 0 // two equal rows by construction
		} else if math.Abs(d) < 1e-9*(1+math.Abs(q)) {
			// decide exactly: sign of the determinant of the extended matrix (A is positive definite)
			ext := newM(n+1, n+1)
			for i := 0; i < n; i++ {
				for j := 0; j < n; j++ {
					ext.set(i, j, parent.A.at(i, j))
				}
				ext.set(i, n, v[i])
				ext.set(n, i, v[i])
			}
			ext.set(n, n, v[n])
			sgn, _ := ratElim(ext)
			d = float64(sgn)
		}
		var ok bool
		if msg := recoverMsg(func() { ok = recv.ExtendVecSym(orig, vv) }); msg != "" {
			h.failf("", "ExtendVecSym panicked: %s", msg)
			return
		}
		if d == 0 {
			// exactly singular extension (k == wᵀA⁻¹w): documented to return false; see the
			// SymRankOne case above for what is tolerated.
			terminal = true
			if ok {
				if bad := badDiag(recv); bad != "" {
					h.failf("", "ExtendVecSym(%v) of %s is exactly singular but returned true with %s", v, fmtM(parent.A), bad)
					return
				}
				h.out("E-singular-accepted-by-rounding", mute)
				return
			}
			cls = "E-singular-rejected"
			applied = false
		} else if d < 0 {
			cls = "E-rejected"
			if ok {
				h.failf("", "ExtendVecSym(%v) returned true although the extended matrix is not positive definite; A=%s", v, fmtM(parent.A))
				return
			}
			applied = false
		} else {
			cls = "E-applied"
			if !ok {
				h.failf("", "ExtendVecSym(%v) returned false although the extended matrix is positive definite; A=%s", v, fmtM(parent.A))
				return
			}
			A2 = newM(n+1, n+1)
			for i := 0; i < n; i++ {
				for j := 0; j < n; j++ {
					A2.set(i, j, parent.A.at(i, j))
				}
				A2.set(i, n, v[i])
				A2.set(n, i, v[i])
			}
			A2.set(n, n, v[n])
		}
	case 'S':
		cls = "S"
		if msg := recoverMsg(func() { recv.Scale(op.alpha, orig) }); msg != "" {
			h.failf("", "Scale panicked: %s", msg)
			return
		}
		A2 = scaleM(op.alpha, parent.A)
	case 'C':
		cls = "C"
		recv = new(mat.Cholesky)
		if depth%2 == 0 {
			// Clone into a receiver that already holds a factorization of another size
			recv.Factorize(repSym("sym", symMat("spd", n+1, 1)))
		}
		recv.Clone(parent.c)
	case 'U':
		cls = "U"
		recv = new(mat.Cholesky)
		var tri mat.Triangular
		if depth%2 == 0 {
			tri = parent.c.RawU()
		} else {
			var u mat.TriDense
			parent.c.UTo(&u)
			tri = &u
		}
		if msg := recoverMsg(func() { recv.SetFromU(tri) }); msg != "" {
			h.failf("", "SetFromU panicked: %s", msg)
			return
		}
	}
	h.out(cls, mute)

	// the parent must be untouched whatever happened
	if !sameFactor(parent.c, parentU) || parent.c.Cond() != parentCond {
		h.failf("", "%s modified the factorization it was given as orig", op.name)
		return
	}

	if !applied {
		// documented: "If the update fails the receiver is left unchanged" /
		// "ExtendVecSym will return false and the receiver will not be updated"
		if inPlace {
			if !sameFactor(recv, parentU) || recv.Cond() != parentCond {
				h.failf("", "failed %s changed the receiver (in place)", op.name)
				return
			}
		} else if !recv.IsEmpty() {
			// the receiver was empty before the call
			c := math.NaN()
			recoverMsg(func() { c = recv.Cond() })
			h.failf("cholesky-failed-update-fills-receiver", "failed %s into an empty receiver left it non-empty (n=%d, Cond()=%v): documented as left unchanged", op.name, recv.SymmetricDim(), c)
			recv = nil
		}
		if depth < h.maxDepth && !terminal {
			for o := range cholOps {
				if !h.skip(o, depth+1) {
					h.cholStep(parent, o, depth+1)
				}
			}
		}
		return
	}

	node := &cholNode{A: A2, c: recv, steps: parent.steps + 1}
	n2 := A2.r
	fn := float64(n2)
	node.acc = parent.acc + fn*(maxAbs(parent.A)+maxAbs(A2))
	var inv *M
	var detRef float64
	if A2 == parent.A {
		// Clone / SetFromU: same matrix as the parent
		inv = parent.inverse()
		detRef = parent.det
	} else {
		var okInv bool
		inv, detRef, okInv = invF64(A2)
		if !okInv {
			h.failf("", "harness: updated matrix not invertible %s", fmtM(A2))
			return
		}
	}
	node.inv, node.det = inv, detRef
	kappa := normInf(A2) * normInf(inv)
	if kappa > 1e9 {
		h.out("illcond-stop", mute)
		return
	}
	if recv.SymmetricDim() != n2 {
		h.failf("", "size %d after %s, want %d", recv.SymmetricDim(), op.name, n2)
		return
	}
	var U mat.TriDense
	recv.UTo(&U)
	Um := fromMat(&U)
	node.U, node.cond = Um, recv.Cond()
	for i := 0; i < n2; i++ {
		if !(Um.at(i, i) > 0) {
			h.failf("", "U[%d,%d] = %v not positive after %s", i, i, Um.at(i, i), op.name)
			return
		}
	}
	if r := utuDefect(Um, A2) / (fn * eps * node.acc); r > tolResid || math.IsNaN(r) {
		h.failf("", "reconstruction ratio %.3g after %s: UᵀU=%s, updated matrix %s", r, op.name, fmtM(mulM(Um.T(), Um)), fmtM(A2))
		return
	}
	// A fresh factorization of the explicitly updated matrix is compared at every node
	// except the leaves of the searches of depth >= 5 (16/17 of the nodes; a third of the
	// cost is the condition estimate inside Factorize): there the comparison is with the
	// independent reference only, which is the stronger oracle anyway.
	tol := tolForward * fn * eps * kappa * float64(node.steps+1)
	freshDet, freshCond := detRef, math.NaN()
	h.ensure(n2)
	if !(h.maxDepth >= 5 && depth == h.maxDepth) {
		fresh, okFresh := h.fresh(A2)
		if !okFresh {
			h.failf("", "fresh factorization of the updated matrix %s failed", fmtM(A2))
			return
		}
		freshDet, freshCond = fresh.Det(), fresh.Cond()
		h.out("fresh-compared", mute)
	}
	if d := recv.Det(); !relClose(d, detRef, tol) || !relClose(d, freshDet, tol) {
		h.failf("", "Det = %v after %s; fresh %v, reference %v (tol %.2g)", d, op.name, freshDet, detRef, tol)
		return
	}
	if ld := recv.LogDet(); !relClose(math.Exp(ld), detRef, tol) {
		h.failf("", "LogDet = %v after %s; reference det %v", ld, op.name, detRef)
		return
	}
	// Cond: updated factorizations estimate the norm of A by |Uᵀ||U| (documented
	// overestimate, at most n times larger); Scale and Clone copy the parent's value.
	// Absolute band: the estimate is a lower bound of the true value times the norm
	// overestimate (<= n); from below only gross errors are rejected (see lowCond).
	if c, fc := recv.Cond(), freshCond; !(c >= kappa/100 && c <= 1.01*fn*kappa) || math.IsNaN(c) {
		h.failf("", "Cond = %.6g after %s; reference %.6g (fresh factorization %.6g), accepted [ref/100, n·ref]", c, op.name, kappa, fc)
		return
	}
	// Exact consistency: Scale and Clone carry the parent's value over (scaling does
	// not change a condition number); every other operation recomputes the estimate
	// from the factor alone, exactly as SetFromU does for the same factor.
	switch op.kind {
	case 'S', 'C':
		if recv.Cond() != parentCond {
			h.failf("", "Cond = %v after %s, parent had %v", recv.Cond(), op.name, parentCond)
			return
		}
	default:
		viaU := h.viaUC[n2]
		viaU.SetFromU(recv.RawU())
		if recv.Cond() != viaU.Cond() {
			h.failf("", "Cond = %v after %s, but SetFromU of the same factor reports %v", recv.Cond(), op.name, viaU.Cond())
			return
		}
	}
	// a solve
	b := make([]float64, n2)
	for i := range b {
		b[i] = float64((i*7+node.steps)%5) - 2
	}
	b[0] = 3
	var x mat.VecDense
	var rhs mat.Vector = mat.NewVecDense(n2, b)
	if depth%2 == 1 {
		rhs = userVec{b} // not a RawVectorer: the generic path through SolveTo
	}
	if err := recv.SolveVecTo(&x, rhs); err != nil {
		h.failf("", "SolveVecTo after %s: %v (reference condition %.3g)", op.name, err, kappa)
		return
	}
	xref := mulM(inv, &M{r: n2, c: 1, d: b})
	if d := maxAbs(subM(fromMat(&x), xref)); !(d <= tol*math.Max(normF(xref), 1e-300)) {
		h.failf("", "solve after %s: |x-xref| = %.3g > %.3g", op.name, d, tol*normF(xref))
		return
	}
	if depth < h.maxDepth {
		for o := range cholOps {
			if !h.skip(o, depth+1) {
				h.cholStep(node, o, depth+1)
			}
		}
	}
}

// ---------------------------------------------------------------- LU

type luOp struct {
	name  string
	alpha float64
	x, y  func(n int) []float64
}

var luOps = func() []luOp {
	var ops []luOp
	for _, a := range []struct {
		s string
		v float64
	}{{"1", 1}, {"-1/2", -0.5}, {"2", 2}} {
		ops = append(ops,
			luOp{"RankOne(" + a.s + ",e1,e1)", a.v, vecE1, vecE1},
			luOp{"RankOne(" + a.s + ",e1,ones)", a.v, vecE1, vecOnes},
			luOp{"RankOne(" + a.s + ",ones,alt)", a.v, vecOnes, vecAlt},
			luOp{"RankOne(" + a.s + ",alt,en)", a.v, vecAlt, vecEn},
		)
	}
	return ops
}()

type luNode struct {
	A     *M
	lu    *mat.LU
	acc   float64
	steps int
	root  *M    // start matrix of the history
	path  []int // operations applied so far
}

func genLUHist(g *vlib.G) {
	depth := vlib.Pick(g, 4, 5)
	for _, fam := range []string{"dd", "pivot"} {
		for n := 1; n <= 4; n++ {
			for o1 := range luOps {
				for o2 := range luOps {
					fam, n, o1, o2 := fam, n, o1, o2
					g.Case(fmt.Sprintf("lu-history start=%s n=%d first=%s second=%s depth<=%d", fam, n, luOps[o1].name, luOps[o2].name, depth), func(t *vlib.T) {
						A := genMat(fam, n, n, 0)
						var lu mat.LU
						lu.Factorize(A.dense())
						h := &histCtx{t: t, maxDepth: depth, outcomes: map[string]int64{}, second: o2}
						root := &luNode{A: A, lu: &lu, acc: float64(n) * maxAbs(A), root: A}
						h.luStep(root, o1, 1)
						t.Count("histories", h.nodes)
						t.Count("lu_histories", h.nodes)
						for k, v := range h.outcomes {
							t.Count("lu_step:"+k, v)
						}
						t.Max("depth", int64(depth))
						if h.nodes > 0 {
							t.Nontrivial()
						}
						t.Outcome(fmt.Sprintf("nodes>0=%v breakdown-seen=%v", h.nodes > 0, h.outcomes["no-fixed-pivot-LU-dontcare"] > 0))
					})
				}
			}
		}
	}
}

func luFresh(a *M) *mat.LU {
	var lu mat.LU
	lu.Factorize(a.dense())
	return &lu
}

func (h *histCtx) luStep(parent *luNode, oi int, depth int) {
	op := luOps[oi]
	n := parent.A.r
	mute := depth == 1 && h.second > 0
	if !mute {
		h.nodes++
	}
	h.path = append(h.path, op.name)
	defer func() { h.path = h.path[:len(h.path)-1] }()

	x, y := op.x(n), op.y(n)
	A2 := parent.A.clone()
	for i := 0; i < n; i++ {
		for j := 0; j < n; j++ {
			A2.add(i, j, op.alpha*x[i]*y[j])
		}
	}
	piv := parent.lu.RowPivots(nil)
	// P is kept: P·L'·U' = A'. Such a factorization exists iff all leading principal
	// minors of PᵀA' are nonzero; otherwise the documented result does not exist (don't care).
	PA := newM(n, n)
	for i := 0; i < n; i++ {
		for j := 0; j < n; j++ {
			// (L·U)[piv[i]] = A[i]  =>  row piv[i] of PᵀA is row i of A
			PA.set(piv[i], j, A2.at(i, j))
		}
	}
	if !leadingMinorsNonzero(PA) {
		h.out("no-fixed-pivot-LU-dontcare", mute)
		return
	}
	// reference LU without row exchanges of PᵀA' and its growth
	Lr, Ur := eyeM(n), PA.clone()
	for k := 0; k < n; k++ {
		for i := k + 1; i < n; i++ {
			f := Ur.at(i, k) / Ur.at(k, k)
			Lr.set(i, k, f)
			for j := k; j < n; j++ {
				Ur.add(i, j, -f*Ur.at(k, j))
			}
			Ur.set(i, k, 0)
		}
	}
	growth := absMulMax(Lr, Ur) / math.Max(maxAbs(A2), 1e-300)
	inv, detRef, okInv := invF64(A2)
	if !okInv {
		h.out("no-fixed-pivot-LU-dontcare", mute)
		return
	}
	kappa := normInf(A2) * normInf(inv)
	if growth > 1e4 || kappa > 1e8 {
		// LU without re-pivoting is not stable here: accuracy is a don't-care zone
		h.out("unstable-stop", mute)
		return
	}

	inPlace := (oi+depth)%2 == 0
	var UB mat.TriDense
	parent.lu.UTo(&UB)
	parentU := fromMat(&UB)
	var recv *mat.LU
	orig := parent.lu
	if inPlace {
		// LU has no Clone: the in-place variant replays the whole history in place on
		// one object, starting from a factorization of the start matrix, so that the
		// parent object stays intact for its other children.
		recv = luFresh(parent.root)
		for _, pi := range parent.path {
			po := luOps[pi]
			recv.RankOne(recv, po.alpha, mat.NewVecDense(n, po.x(n)), mat.NewVecDense(n, po.y(n)))
		}
		orig = recv
	} else {
		recv = new(mat.LU)
		if depth%2 == 0 {
			// receiver already holds another factorization of the same size
			recv.Factorize(genMat("pivot", n, n, 3).dense())
		}
	}
	var xv, yv mat.Vector = mat.NewVecDense(n, append([]float64(nil), x...)), mat.NewVecDense(n, append([]float64(nil), y...))
	switch depth % 3 {
	case 1:
		xv = repVec("vecinc", x)
	case 2:
		yv = userVec{append([]float64(nil), y...)}
	}
	if msg := recoverMsg(func() { recv.RankOne(orig, op.alpha, xv, yv) }); msg != "" {
		h.failf("", "RankOne panicked: %s", msg)
		return
	}
	h.outcomes[map[bool]string{true: "in-place", false: "new-receiver"}[inPlace]]++
	var UA mat.TriDense
	parent.lu.UTo(&UA)
	if maxAbs(subM(fromMat(&UA), parentU)) != 0 {
		h.failf("", "RankOne modified the factorization given as orig")
		return
	}

	node := &luNode{A: A2, lu: recv, steps: parent.steps + 1, root: parent.root, path: append(append([]int(nil), parent.path...), oi)}
	fn := float64(n)
	node.acc = parent.acc + fn*(maxAbs(parent.A)+absMulMax(Lr, Ur))
	var L, U mat.TriDense
	recv.LTo(&L)
	recv.UTo(&U)
	Lm, Um := fromMat(&L), fromMat(&U)
	p2 := recv.RowPivots(nil)
	for i := range piv {
		if p2[i] != piv[i] {
			h.failf("", "RankOne changed the row permutation: %v -> %v (documented: P is kept)", piv, p2)
			return
		}
	}
	LU := mulM(Lm, Um)
	var worst float64
	for i := 0; i < n; i++ {
		for j := 0; j < n; j++ {
			worst = math.Max(worst, math.Abs(LU.at(p2[i], j)-A2.at(i, j)))
		}
	}
	if r := worst / (fn * eps * node.acc * math.Max(growth, 1)); r > tolResid || math.IsNaN(r) {
		h.failf("", "reconstruction ratio %.3g: P·L·U != A+αxyᵀ = %s (L=%s U=%s piv=%v)", r, fmtM(A2), fmtM(Lm), fmtM(Um), p2)
		return
	}
	tol := tolForward * fn * eps * kappa * math.Max(growth, 1) * float64(node.steps+1)
	fresh := luFresh(A2)
	staleOK := false
	if d := recv.Det(); !relClose(d, detRef, tol) || !relClose(d, fresh.Det(), tol) {
		if d == 0 && !inPlace {
			// known finding: the ok flag of a new receiver is never set by RankOne. The
			// remaining flag-independent checks and the subtree are still explored.
			staleOK = true
			h.failf("lu-rankone-new-receiver-ok-not-set", "Det = %v after %s into a new receiver; fresh %v, reference %v", d, op.name, fresh.Det(), detRef)
		} else {
			h.failf("", "Det = %v after %s into %s; fresh %v, reference %v", d, op.name, map[bool]string{true: "the same receiver", false: "a new receiver"}[inPlace], fresh.Det(), detRef)
			return
		}
	}
	// Cond after an update uses |L||U| as the norm of A (documented overestimate)
	over := normInf(Lm) * normInf(Um) / normInf(A2)
	if c := recv.Cond(); !(c >= kappa/100 && c <= kappa*math.Max(over, 1)*1.01) || math.IsNaN(c) {
		h.failf("", "Cond = %.6g after %s; reference %.6g (accepted [ref/100, ref·|L||U|/|A|])", c, op.name, kappa)
		return
	}
	b := make([]float64, n)
	for i := range b {
		b[i] = float64((i*7+node.steps)%5) - 2
	}
	b[0] = 3
	for _, trans := range []bool{false, true} {
		var xs mat.VecDense
		var rhs mat.Vector = mat.NewVecDense(n, b)
		if (depth%2 == 0) == trans {
			rhs = userVec{b} // not a RawVectorer, with both values of trans over the depths
		}
		err := recv.SolveVecTo(&xs, trans, rhs)
		if err != nil {
			if ce, ok := err.(mat.Condition); ok && math.IsInf(float64(ce), 1) && staleOK {
				break // same known finding: SolveTo refuses because ok is false
			}
			h.failf("", "SolveVecTo(trans=%v) after %s into %s: %v (reference condition %.3g)", trans, op.name, map[bool]string{true: "the same receiver", false: "a new receiver"}[inPlace], err, kappa)
			return
		}
		iv := inv
		if trans {
			iv = inv.T()
		}
		xref := mulM(iv, &M{r: n, c: 1, d: b})
		if d := maxAbs(subM(fromMat(&xs), xref)); !(d <= tol*math.Max(normF(xref), 1e-300)) {
			h.failf("", "solve(trans=%v) after %s: |x-xref| = %.3g > %.3g", trans, op.name, d, tol*normF(xref))
			return
		}
	}
	if depth < h.maxDepth {
		for o := range luOps {
			if !h.skip(o, depth+1) {
				h.luStep(node, o, depth+1)
			}
		}
	}
}
