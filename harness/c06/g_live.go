package main

// Two (and more) LIVE factorization objects. A factorization must own its
// storage: after receiver 1 has been factorized and all its accessors read, other
// operations that draw workspaces of the same size classes from mat's pools — a
// factorization of every type on another receiver, PowPSD, Exp, Inverse, Solve,
// aliased arithmetic that goes through isolatedWorkspace, updates — must not change
// anything receiver 1 reports afterwards (bit for bit, all accessors). Pool reuse is
// not guaranteed, so the interleaving is repeated; any difference is a violation
// (a non-recurring one is reported by the framework as nondeterministic-failure).
//
// The same file holds the growth histories of the updatable factorizations: a
// receiver factorized at n0, then at n1 (smaller, equal, larger), then updated
// (Scale, SetFromU, SymRankOne, ExtendVecSym, Clone, LU.RankOne) must give what a
// fresh receiver gives.

import (
	"fmt"

	"gonum.org/v1/gonum/internal/verif/vlib"
	"gonum.org/v1/gonum/mat"
)

type liveObj struct {
	fact func()
	obs  func() *observer
}

var liveTypes = []string{"LU", "Cholesky", "BandCholesky", "PivotedCholesky", "QR", "LQ", "SVD", "EigenSym", "Eigen", "GSVD", "HOGSVD"}

// mkLive returns a new receiver of the type for a size-n problem (variant v selects the values).
func mkLive(typ string, n, v int) liveObj {
	rhs := rhsMat(n, 2, v)
	switch typ {
	case "LU":
		r := new(mat.LU)
		return liveObj{func() { r.Factorize(genMat("pivot", n, n, v).dense()) }, func() *observer {
			o := &observer{}
			var L, U mat.TriDense
			r.LTo(&L)
			r.UTo(&U)
			o.mat("LTo", &L)
			o.mat("UTo", &U)
			o.ints("RowPivots", r.RowPivots(nil))
			o.self("At", r)
			o.scalar("Det/Cond", r.Det(), r.Cond())
			for _, tr := range []bool{false, true} {
				var x mat.Dense
				o.err("SolveTo err", r.SolveTo(&x, tr, rhs.dense()))
				o.mat("SolveTo", &x)
			}
			return o
		}}
	case "Cholesky":
		r := new(mat.Cholesky)
		return liveObj{func() { r.Factorize(repSym("sym", symMat("spd", n, v))) }, func() *observer {
			o := &observer{}
			var U mat.TriDense
			var S, I mat.SymDense
			r.UTo(&U)
			r.ToSym(&S)
			o.mat("UTo", &U)
			o.mat("ToSym", &S)
			o.self("At", r)
			o.scalar("Det/Cond", r.Det(), r.Cond())
			var x mat.Dense
			o.err("SolveTo err", r.SolveTo(&x, rhs.dense()))
			o.mat("SolveTo", &x)
			o.err("InverseTo err", r.InverseTo(&I))
			o.mat("InverseTo", &I)
			return o
		}}
	case "BandCholesky":
		r := new(mat.BandCholesky)
		k := (n - 1) / 2
		return liveObj{func() { r.Factorize(bandOf(bandSPD(n, k, v), k)) }, func() *observer {
			o := &observer{}
			o.self("At", r)
			o.scalar("Det/Cond", r.Det(), r.Cond())
			var x mat.Dense
			o.err("SolveTo err", r.SolveTo(&x, rhs.dense()))
			o.mat("SolveTo", &x)
			return o
		}}
	case "PivotedCholesky":
		r := new(mat.PivotedCholesky)
		return liveObj{func() { r.Factorize(repSym("sym", symMat("spd-dd", n, v)), -1) }, func() *observer {
			o := &observer{}
			var U mat.TriDense
			r.UTo(&U)
			o.mat("UTo", &U)
			o.ints("ColumnPivots", r.ColumnPivots(nil))
			o.self("At", r)
			o.scalar("Rank/Cond", float64(r.Rank()), r.Cond())
			var x mat.Dense
			o.err("SolveTo err", r.SolveTo(&x, rhs.dense()))
			o.mat("SolveTo", &x)
			return o
		}}
	case "QR":
		r := new(mat.QR)
		return liveObj{func() { r.Factorize(genMat("dd", n+1, n, v).dense()) }, func() *observer {
			o := &observer{}
			var Q, R mat.Dense
			r.QTo(&Q)
			r.RTo(&R)
			o.mat("QTo", &Q)
			o.mat("RTo", &R)
			o.self("At", r)
			o.scalar("Cond", r.Cond())
			var x mat.Dense
			o.err("SolveTo err", r.SolveTo(&x, false, rhsMat(n+1, 2, v).dense()))
			o.mat("SolveTo", &x)
			var y mat.Dense
			o.err("SolveTo(T) err", r.SolveTo(&y, true, rhs.dense()))
			o.mat("SolveTo(T)", &y)
			return o
		}}
	case "LQ":
		r := new(mat.LQ)
		return liveObj{func() { r.Factorize(genMat("dd", n, n+1, v).dense()) }, func() *observer {
			o := &observer{}
			var Q, L mat.Dense
			r.QTo(&Q)
			r.LTo(&L)
			o.mat("QTo", &Q)
			o.mat("LTo", &L)
			o.scalar("Cond", r.Cond())
			var x mat.Dense
			o.err("SolveTo err", r.SolveTo(&x, false, rhs.dense()))
			o.mat("SolveTo", &x)
			return o
		}}
	case "SVD":
		r := new(mat.SVD)
		return liveObj{func() { r.Factorize(genMat("dd", n+1, n, v).dense(), mat.SVDFull) }, func() *observer {
			o := &observer{}
			var U, V mat.Dense
			r.UTo(&U)
			r.VTo(&V)
			o.mat("UTo", &U)
			o.mat("VTo", &V)
			o.floats("Values", r.Values(nil))
			o.scalar("Cond", r.Cond())
			var x mat.Dense
			o.floats("SolveTo residuals", r.SolveTo(&x, rhsMat(n+1, 2, v).dense(), n))
			o.mat("SolveTo", &x)
			return o
		}}
	case "EigenSym":
		r := new(mat.EigenSym)
		return liveObj{func() { r.Factorize(repSym("sym", genMat("indef", n, n, v)), true) }, func() *observer {
			o := &observer{}
			var Q mat.Dense
			r.VectorsTo(&Q)
			o.mat("VectorsTo", &Q)
			o.self("RawQ", r.RawQ())
			o.self("At", r)
			o.floats("Values", r.Values(nil))
			return o
		}}
	case "Eigen":
		r := new(mat.Eigen)
		return liveObj{func() { r.Factorize(eigenMat("rot", n, v).dense(), mat.EigenBoth) }, func() *observer {
			o := &observer{}
			V, W := new(mat.CDense), new(mat.CDense)
			r.VectorsTo(V)
			r.LeftVectorsTo(W)
			o.cmat("VectorsTo", V)
			o.cmat("LeftVectorsTo", W)
			var fl []float64
			for _, l := range r.Values(nil) {
				fl = append(fl, real(l), imag(l))
			}
			o.floats("Values", fl)
			return o
		}}
	case "GSVD":
		r := new(mat.GSVD)
		return liveObj{func() { r.Factorize(genMat("dd", n+1, n, v).dense(), genMat("dd", n, n, v+5).dense(), mat.GSVDAll) }, func() *observer {
			o := &observer{}
			for _, x := range []struct {
				name string
				to   func(*mat.Dense)
			}{{"UTo", r.UTo}, {"VTo", r.VTo}, {"QTo", r.QTo}, {"ZeroRTo", r.ZeroRTo}, {"SigmaATo", r.SigmaATo}, {"SigmaBTo", r.SigmaBTo}} {
				var d mat.Dense
				x.to(&d)
				o.mat(x.name, &d)
			}
			o.floats("ValuesA", r.ValuesA(nil))
			o.floats("ValuesB", r.ValuesB(nil))
			return o
		}}
	case "HOGSVD":
		r := new(mat.HOGSVD)
		return liveObj{func() {
			if !r.Factorize(genMat("dd", n+1, n, v).dense(), genMat("pivot", n, n, v+1).dense()) {
				panic(fmt.Sprint("HOGSVD failed: ", r.Err()))
			}
		}, func() *observer {
			o := &observer{}
			var V mat.Dense
			r.VTo(&V)
			o.mat("VTo", &V)
			for i := 0; i < 2; i++ {
				U := new(mat.Dense)
				r.UTo(U, i)
				o.mat(fmt.Sprintf("UTo(%d)", i), U)
				o.floats(fmt.Sprintf("Values(%d)", i), r.Values(nil, i))
			}
			return o
		}}
	}
	panic(typ)
}

// disturb runs operations that take workspaces of the size classes of n (and its neighbours) from every pool.
func disturb(n, round int) {
	for _, m := range []int{n, n + 1, max(1, n-1)} {
		for _, typ := range liveTypes {
			o := mkLive(typ, m, 7+round)
			o.fact()
			o.obs()
		}
		S := repSym("sym", symMat("spd", m, 3+round)).(*mat.SymDense)
		var P mat.SymDense
		P.PowPSD(S, 0.5)
		S.SymRankOne(S, 1, mat.NewVecDense(m, vecOnes(m))) // in place
		S.AddSym(S, S)                                     // aliased
		S.SymOuterK(1, S)                                  // receiver is the operand: isolatedWorkspace
		D := genMat("dd", m, m, 4+round).dense()
		var E, I, X mat.Dense
		E.Exp(D)
		I.Inverse(D)
		X.Solve(D, rhsMat(m, 2, round).dense())
		D.Mul(D, D)     // aliased product: isolatedWorkspace
		D.Mul(D.T(), D) // transposed self
		D.Pow(D, 3)
		T := mat.NewTriDense(m, mat.Upper, genMat("dd", m, m, 5).d)
		T.MulTri(T, T) // aliased triangular product
		var TI mat.TriDense
		TI.InverseTri(T)
		v := mat.NewVecDense(m, vecAlt(m))
		v.MulVec(genMat("dd", m, m, 6).dense(), v) // aliased vector
		var ch mat.Cholesky
		if ch.Factorize(repSym("sym", symMat("spd", m, 9))) {
			ch.SymRankOne(&ch, -0.125, mat.NewVecDense(m, vecE1(m))) // downdate: triangular workspace
		}
	}
}

func genLive(g *vlib.G) {
	hi := vlib.Pick(g, 5, 8)
	rounds := vlib.Pick(g, 2, 4)
	for _, typ := range liveTypes {
		for n := 1; n <= hi; n++ {
			typ, n := typ, n
			g.Case(fmt.Sprintf("live %s n=%d rounds=%d", typ, n, rounds), func(t *vlib.T) {
				t.Nontrivial()
				t.Outcome(typ)
				o := mkLive(typ, n, 0)
				o.fact()
				base := o.obs()
				for r := 0; r < rounds; r++ {
					if msg := recoverMsg(func() { disturb(n, r) }); msg != "" {
						t.Failf("harness/gonum: disturbing operations panic: %s", msg)
						return
					}
					var cur *observer
					if msg := recoverMsg(func() { cur = o.obs() }); msg != "" {
						t.Failf("%s: accessor panics after other objects were used: %s", typ, msg)
						return
					}
					if d := sameObs(cur.list, base.list); d != "" {
						t.Failf("%s (n=%d): after other factorizations/operations ran (round %d) the receiver no longer reports what it reported right after its Factorize: %s", typ, n, r+1, d)
						return
					}
					// copies handed out earlier must not change either
					for _, ob := range base.list {
						if ob.live == nil {
							continue
						}
						if idx, ok := vlib.Same64(ob.vals, ob.live()); !ok {
							t.Failf("%s: %s extracted earlier changed (index %d) when other objects were used", typ, ob.name, idx)
							return
						}
					}
				}
				t.Count("live_object_rounds", int64(rounds))
			})
		}
	}
}

// ---------------------------------------------------------------- growth histories of updatable factorizations

func genGrowUpdate(g *vlib.G) {
	hi := vlib.Pick(g, 5, 7)
	for n0 := 1; n0 <= hi; n0++ {
		for n1 := 1; n1 <= hi; n1++ {
			for _, op := range []string{"Scale-inplace", "Scale-into", "SetFromU", "SymRankOne-inplace", "SymRankOne-into", "SymRankOne-downdate", "ExtendVecSym-inplace", "ExtendVecSym-into", "Clone-into", "SolveTo", "UTo-LTo-ToSym"} {
				n0, n1, op := n0, n1, op
				g.Case(fmt.Sprintf("grow Cholesky %d->%d then %s", n0, n1, op), func(t *vlib.T) { growCholCase(t, n0, n1, op) })
			}
			for _, op := range []string{"RankOne-inplace", "RankOne-into"} {
				n0, n1, op := n0, n1, op
				g.Case(fmt.Sprintf("grow LU %d->%d then %s", n0, n1, op), func(t *vlib.T) { growLUCase(t, n0, n1, op) })
			}
		}
	}
}

func cholObs(c *mat.Cholesky) *observer {
	o := &observer{}
	var U mat.TriDense
	c.UTo(&U)
	o.mat("UTo", &U)
	o.scalar("Det/Cond", c.Det(), c.Cond())
	return o
}

func growCholCase(t *vlib.T, n0, n1 int, op string) {
	A0, A1, B := symMat("spd", n0, 0), symMat("spd-dd", n1, 1), symMat("spd", n1, 2)
	t.Nontrivial()
	t.Outcome(map[bool]string{true: "grow", false: "shrink-or-same"}[n1 > n0] + " " + op)
	// run executes the operation with `c` being the receiver that went through the history (or a fresh one)
	run := func(c *mat.Cholesky) *observer {
		x := mat.NewVecDense(n1, vecAlt(n1))
		var other mat.Cholesky // a factorization of another matrix of size n1
		other.Factorize(repSym("sym", B))
		switch op {
		case "Scale-inplace":
			c.Scale(2, c)
		case "Scale-into":
			c.Scale(2, &other) // c is the receiver, holds a size-n1 factorization already
		case "SetFromU":
			c.SetFromU(other.RawU())
		case "SymRankOne-inplace":
			c.SymRankOne(c, 2, x)
		case "SymRankOne-into":
			c.SymRankOne(&other, 2, x)
		case "SymRankOne-downdate":
			c.SymRankOne(c, -0.125, mat.NewVecDense(n1, vecE1(n1)))
		case "ExtendVecSym-inplace":
			c.ExtendVecSym(c, mat.NewVecDense(n1+1, append(vecE1(n1), float64(n1+9))))
		case "ExtendVecSym-into":
			c.ExtendVecSym(&other, mat.NewVecDense(n1+1, append(vecE1(n1), float64(n1+9))))
		case "Clone-into":
			c.Clone(&other)
		case "SolveTo":
			o := &observer{}
			var X mat.Dense
			o.err("err", c.SolveTo(&X, rhsMat(n1, 2, 0).dense()))
			o.mat("X", &X)
			return o
		case "UTo-LTo-ToSym":
			o := &observer{}
			var U, L mat.TriDense
			var S mat.SymDense
			c.UTo(&U)
			c.LTo(&L)
			c.ToSym(&S)
			o.mat("U", &U)
			o.mat("L", &L)
			o.mat("S", &S)
			// the extracted triangles can be sliced
			o.self("SliceTri", U.SliceTri(0, max(1, n1-1)))
			return o
		}
		return cholObs(c)
	}
	var hist, fresh mat.Cholesky
	var got, want *observer
	if msg := recoverMsg(func() {
		hist.Factorize(repSym("sym", A0))
		hist.Factorize(repSym("sym", A1))
		got = run(&hist)
	}); msg != "" {
		t.Failf("receiver factorized at n=%d, then n=%d, then %s: panic %s", n0, n1, op, msg)
		return
	}
	fresh.Factorize(repSym("sym", A1))
	want = run(&fresh)
	if d := sameObs(got.list, want.list); d != "" {
		t.Failf("receiver factorized at n=%d, then n=%d, then %s differs from a fresh receiver: %s", n0, n1, op, d)
	}
	t.Count("growth_histories", 1)
}

func growLUCase(t *vlib.T, n0, n1 int, op string) {
	A0, A1, B := genMat("pivot", n0, n0, 0), genMat("dd", n1, n1, 1), genMat("pivot", n1, n1, 2)
	t.Nontrivial()
	t.Outcome(map[bool]string{true: "grow", false: "shrink-or-same"}[n1 > n0] + " " + op)
	run := func(lu *mat.LU) *observer {
		x, y := mat.NewVecDense(n1, vecE1(n1)), mat.NewVecDense(n1, vecOnes(n1))
		var other mat.LU
		other.Factorize(B.dense())
		if op == "RankOne-inplace" {
			lu.RankOne(lu, 2, x, y)
		} else {
			lu.RankOne(&other, 2, x, y)
		}
		o := &observer{}
		var L, U mat.TriDense
		lu.LTo(&L)
		lu.UTo(&U)
		o.mat("L", &L)
		o.mat("U", &U)
		o.ints("piv", lu.RowPivots(nil))
		o.scalar("Det/Cond", lu.Det(), lu.Cond())
		return o
	}
	var hist, fresh mat.LU
	var got *observer
	if msg := recoverMsg(func() {
		hist.Factorize(A0.dense())
		hist.Factorize(A1.dense())
		got = run(&hist)
	}); msg != "" {
		t.Failf("LU factorized at n=%d, then n=%d, then %s: panic %s", n0, n1, op, msg)
		return
	}
	fresh.Factorize(A1.dense())
	want := run(&fresh)
	if d := sameObs(got.list, want.list); d != "" {
		t.Failf("LU factorized at n=%d, then n=%d, then %s differs from a fresh receiver: %s", n0, n1, op, d)
	}
	t.Count("growth_histories", 1)
}
