package main

import (
	"fmt"
	"math"

	"gonum.org/v1/gonum/internal/verif/vlib"
	"gonum.org/v1/gonum/mat"
)

func noTrans(f func(*mat.Dense, mat.Matrix) error) func(*mat.Dense, bool, mat.Matrix) error {
	return func(d *mat.Dense, _ bool, b mat.Matrix) error { return f(d, b) }
}
func noTransVec(f func(*mat.VecDense, mat.Vector) error) func(*mat.VecDense, bool, mat.Vector) error {
	return func(d *mat.VecDense, _ bool, b mat.Vector) error { return f(d, b) }
}

func genChol(g *vlib.G) {
	for _, n := range append(sizesSmall(g), sizesBig(g)...) {
		for _, f := range symFams {
			for v := 0; v < variants(g); v++ {
				reps := symReps
				big := n > 8
				if big {
					if f.name == "spd-graded" || f.name == "psd-gram" || v > 0 {
						continue
					}
					reps = []string{"sym", "symview"}
				}
				for _, rep := range reps {
					n, f, v, rep := n, f, variantID(g, v), rep
					cfg := quickCfg(g)
					if big {
						cfg = bigCfg()
					}
					cfg.variant = v
					g.Case(fmt.Sprintf("Cholesky n=%d fam=%s v=%d A=%s", n, f.name, v, rep), func(t *vlib.T) {
						cholCase(t, n, f, v, rep, cfg)
					})
					g.Case(fmt.Sprintf("PivotedCholesky n=%d fam=%s v=%d A=%s", n, f.name, v, rep), func(t *vlib.T) {
						pcholCase(t, n, f, v, rep, cfg)
					})
				}
			}
		}
	}
}

// mustPanic reports a violation if f does not panic.
func mustPanic(t *vlib.T, what string, f func()) {
	if recoverMsg(f) == "" {
		t.Failf("%s did not panic", what)
	}
}

func cholCase(t *vlib.T, n int, f symFamInfo, v int, rep string, cfg solveCfg) {
	A := symMat(f.name, n, v)
	a := repSym(rep, A)
	var ch mat.Cholesky
	if (n+v)%2 == 0 {
		// receiver reuse: a successful factorization of a different size is overwritten
		if !ch.Factorize(repSym("sym", symMat("spd", n+1, 0))) {
			t.Failf("warm-up factorization failed")
		}
	}
	ok := ch.Factorize(a)
	t.Nontrivial()
	switch f.class {
	case "pd":
		if !ok {
			t.Failf("Factorize returned false for positive definite %s", fmtM(A))
			return
		}
	case "notpsd":
		if ok {
			t.Failf("Factorize returned true for a matrix with a negative eigenvalue %s", fmtM(A))
			return
		}
	case "psd":
		if ok && f.exact {
			t.Failf("Factorize returned true for exactly singular %s", fmtM(A))
			return
		}
	}
	if !ok {
		t.Outcome("not-pd ok=false")
		// "If Factorize returns false, the factorization must not be used" / "Calls to
		// methods of an unsuccessful Cholesky factorization will panic."
		mustPanic(t, "Det after failed Factorize", func() { ch.Det() })
		mustPanic(t, "LogDet after failed Factorize", func() { ch.LogDet() })
		mustPanic(t, "Cond after failed Factorize", func() { ch.Cond() })
		mustPanic(t, "SolveTo after failed Factorize", func() { ch.SolveTo(&mat.Dense{}, eyeM(n).dense()) })
		mustPanic(t, "UTo after failed Factorize", func() { ch.UTo(&mat.TriDense{}) })
		mustPanic(t, "ToSym after failed Factorize", func() { ch.ToSym(&mat.SymDense{}) })
		if ch.RawU() != nil {
			t.Failf("RawU != nil after failed Factorize")
		}
		// the receiver must be reusable
		if !ch.Factorize(repSym("sym", symMat("spd", n, 1))) {
			t.Failf("receiver not reusable after a failed Factorize")
		}
		return
	}
	if ok && f.class == "psd" {
		// rounding made a singular PSD matrix look definite: documented grey zone,
		// but then the condition number must say so.
		t.Outcome("psd ok=true")
		if !(ch.Cond() >= 1e14) {
			t.Failf("singular PSD matrix factorized with Cond=%g", ch.Cond())
		}
		return
	}
	t.Outcome("pd")
	var U, L mat.TriDense
	ch.UTo(&U)
	ch.LTo(&L)
	Um, Lm := fromMat(&U), fromMat(&L)
	if maxAbs(subM(Um.T(), Lm)) != 0 {
		t.Failf("LTo is not the transpose of UTo")
	}
	if maxAbs(subM(fromMat(ch.RawU()), Um)) != 0 {
		t.Failf("RawU differs from UTo")
	}
	for i := 0; i < n; i++ {
		if !(Um.at(i, i) > 0) {
			t.Failf("U[%d,%d]=%v not positive", i, i, Um.at(i, i))
		}
		for j := 0; j < i; j++ {
			if Um.at(i, j) != 0 {
				t.Failf("U not upper triangular")
			}
		}
	}
	fn := float64(n)
	scale := absMulMax(Um.T(), Um)
	if r := maxAbs(subM(mulM(Um.T(), Um), A)) / (fn * eps * scale); r > tolResid || math.IsNaN(r) {
		t.Failf("reconstruction ratio |A-UᵀU|/(n·eps·|Uᵀ||U|) = %.3g A=%s", r, fmtM(A))
	}
	var S mat.SymDense
	ch.ToSym(&S)
	if r := maxAbs(subM(fromMat(&S), A)) / (fn * eps * scale); r > tolResid || math.IsNaN(r) {
		t.Failf("ToSym ratio %.3g", r)
	}
	S2 := mat.NewSymDense(n, nil)
	ch.ToSym(S2)
	if maxAbs(subM(fromMat(S2), fromMat(&S))) != 0 {
		t.Failf("ToSym into a sized destination differs")
	}
	if r := maxAbs(subM(fromMat(&ch), A)) / (fn * eps * scale); r > tolResid || math.IsNaN(r) {
		t.Failf("At ratio %.3g", r)
	}
	if ch.SymmetricDim() != n {
		t.Failf("SymmetricDim=%d", ch.SymmetricDim())
	}

	s := &solver{name: "Cholesky", A: A, aliasOK: true, fullRank: true,
		solve: noTrans(ch.SolveTo), solveVec: noTransVec(ch.SolveVecTo), cond: ch.Cond}
	s.prepare()
	kinf := normInf(A) * normInf(s.pinv)
	ref := detRef(A)
	tol := 1e3 * fn * eps * kinf
	if !relClose(ch.Det(), ref, tol) {
		t.Failf("Det = %v, reference %v", ch.Det(), ref)
	}
	if !relClose(math.Exp(ch.LogDet()), ref, tol) {
		t.Failf("LogDet = %v, reference det %v", ch.LogDet(), ref)
	}
	condBand(t, "Cholesky.Cond", ch.Cond(), kinf, lowCond(v), 1.01)
	s.run(t, cfg)

	// InverseTo
	var inv mat.SymDense
	if err := ch.InverseTo(&inv); err != nil {
		if s.kappa < wellCond {
			t.Failf("InverseTo: %v", err)
		}
	} else {
		im := fromMat(&inv)
		bound := tolForward * fn * eps * s.kappa * normF(s.pinv)
		if d := maxAbs(subM(im, s.pinv)); !(d <= bound) {
			t.Failf("InverseTo: |inv-ref|=%.3g > %.3g", d, bound)
		}
	}
	// SolveCholTo: A⁻¹·B for B given by its own factorization
	if n <= 8 {
		B := symMat("spd-dd", n, v+3)
		var cb mat.Cholesky
		if !cb.Factorize(repSym("sym", B)) {
			t.Failf("B factorization failed")
			return
		}
		for _, dk := range []string{"empty", "sized"} {
			dst := &mat.Dense{}
			if dk == "sized" {
				d := make([]float64, n*n)
				vlib.FillPoison64(d)
				dst = mat.NewDense(n, n, d)
			}
			if err := ch.SolveCholTo(dst, &cb); err != nil {
				if s.kappa < wellCond {
					t.Failf("SolveCholTo: %v", err)
				}
				continue
			}
			s.checkX(t, "SolveCholTo dst="+dk, A, s.pinv, B, dst, nil)
		}
	}
	var U3 mat.TriDense
	ch.UTo(&U3)
	if maxAbs(subM(fromMat(&U3), Um)) != 0 {
		t.Failf("solves modified the factorization")
	}
}

func pcholCase(t *vlib.T, n int, f symFamInfo, v int, rep string, cfg solveCfg) {
	A := symMat(f.name, n, v)
	if f.class == "notpsd" {
		// PivotedCholesky is documented for positive semi-definite input only.
		return
	}
	a := repSym(rep, A)
	var ch mat.PivotedCholesky
	if (n+v)%2 == 0 {
		ch.Factorize(repSym("sym", symMat("spd", n+1, 0)), -1)
	}
	ok := ch.Factorize(a, -1)
	t.Nontrivial()
	_, rankRef := ratElim(A)
	if f.class == "pd" && !ok {
		t.Failf("Factorize returned false for positive definite %s", fmtM(A))
		return
	}
	if f.class == "psd" && ok {
		t.Failf("Factorize returned true for singular %s", fmtM(A))
		return
	}
	if ch.Rank() != rankRef {
		t.Failf("Rank = %d, exact rank %d for %s", ch.Rank(), rankRef, fmtM(A))
	}
	t.Outcome(fmt.Sprintf("ok=%v rankdef=%d", ok, n-ch.Rank()))
	var U mat.TriDense
	ch.UTo(&U)
	Um := fromMat(&U)
	if maxAbs(subM(fromMat(ch.RawU()), Um)) != 0 {
		t.Failf("RawU differs from UTo")
	}
	p := ch.ColumnPivots(nil)
	if !isPerm(p) {
		t.Failf("ColumnPivots %v not a permutation", p)
		return
	}
	for i := ch.Rank(); i < n; i++ {
		for j := 0; j < n; j++ {
			if Um.at(i, j) != 0 {
				t.Failf("row %d of U beyond the rank is not zero", i)
			}
		}
	}
	// PᵀAP = UᵀU with P[p[k],k] = 1  <=>  A[p[i],p[j]] = (UᵀU)[i,j]
	fn := float64(n)
	UtU := mulM(Um.T(), Um)
	scale := math.Max(absMulMax(Um.T(), Um), maxAbs(A))
	var worst, worstAt float64
	for i := 0; i < n; i++ {
		for j := 0; j < n; j++ {
			worst = math.Max(worst, math.Abs(UtU.at(i, j)-A.at(p[i], p[j])))
			worstAt = math.Max(worstAt, math.Abs(ch.At(i, j)-A.at(i, j)))
		}
	}
	if scale == 0 {
		scale = 1
	}
	if r := worst / (fn * eps * scale); r > tolResid || math.IsNaN(r) {
		t.Failf("reconstruction ratio |PᵀAP-UᵀU| = %.3g p=%v A=%s U=%s", r, p, fmtM(A), fmtM(Um))
	}
	if r := worstAt / (fn * eps * scale); r > tolResid || math.IsNaN(r) {
		t.Failf("At ratio %.3g", r)
	}
	// complete pivoting: diagonal of U is non-increasing
	for i := 1; i < ch.Rank(); i++ {
		if Um.at(i, i) > Um.at(i-1, i-1)*(1+16*eps) {
			t.Failf("diagonal of U increases at %d: %v > %v", i, Um.at(i, i), Um.at(i-1, i-1))
		}
	}
	if !ok {
		if !math.IsInf(ch.Cond(), 1) {
			t.Failf("Cond = %v after ok=false, want +Inf", ch.Cond())
		}
		mustPanic(t, "PivotedCholesky.SolveTo after ok=false", func() { ch.SolveTo(&mat.Dense{}, eyeM(n).dense()) })
		mustPanic(t, "PivotedCholesky.SolveVecTo after ok=false", func() { ch.SolveVecTo(&mat.VecDense{}, mat.NewVecDense(n, nil)) })
		return
	}
	s := &solver{name: "PivotedCholesky", A: A, aliasOK: true, fullRank: true,
		solve: noTrans(ch.SolveTo), solveVec: noTransVec(ch.SolveVecTo), cond: ch.Cond}
	s.prepare()
	condBand(t, "PivotedCholesky.Cond", ch.Cond(), normInf(A)*normInf(s.pinv), lowCond(v), 1.01)
	s.run(t, cfg)
}

// ---------------------------------------------------------------------------

func genBandChol(g *vlib.G) {
	for _, n := range append(sizesSmall(g), sizesBig(g)...) {
		ks := vlib.Ints(0, n-1)
		if n > 8 {
			ks = []int{0, 1, 3, n - 1}
		}
		for _, k := range ks {
			for v := 0; v < variants(g); v++ {
				for _, rep := range []string{"symband", "symband-strided", "usersymband", "userrawsymband", "notpd", "notpd-strided"} {
					if n > 8 && ((rep != "symband" && rep != "symband-strided") || v > 0) {
						continue
					}
					n, k, v, rep := n, k, variantID(g, v), rep
					cfg := quickCfg(g)
					if n > 8 {
						cfg = bigCfg()
					}
					cfg.variant = v
					g.Case(fmt.Sprintf("BandCholesky n=%d k=%d v=%d A=%s", n, k, v, rep), func(t *vlib.T) {
						bandCholCase(t, n, k, v, rep, cfg)
					})
				}
			}
		}
	}
}

func bandCholCase(t *vlib.T, n, k, v int, rep string, cfg solveCfg) {
	A := bandSPD(n, k, v)
	notpd := rep == "notpd" || rep == "notpd-strided"
	if notpd {
		// flip the last diagonal entry: the last pivot becomes negative
		A.set(n-1, n-1, -A.at(n-1, n-1))
	}
	brep := rep
	switch rep {
	case "notpd":
		brep = "symband"
	case "notpd-strided":
		brep = "symband-strided"
	}
	a := symBandRep(brep, A, k)
	if maxAbs(subM(fromMat(a), A)) != 0 {
		t.Failf("harness: band representation %s does not read back", rep)
		return
	}
	var ch mat.BandCholesky
	if (n+v)%2 == 0 {
		w := mat.NewSymBandDense(n+1, 0, nil)
		for i := 0; i <= n; i++ {
			w.SetSymBand(i, i, 2)
		}
		ch.Factorize(w)
	}
	ok := ch.Factorize(a)
	t.Nontrivial()
	if maxAbs(subM(fromMat(a), A)) != 0 {
		t.Failf("Factorize modified its argument")
	}
	if notpd {
		t.Outcome("not-pd")
		if ok {
			t.Failf("Factorize returned true for a matrix with negative last pivot")
			return
		}
		mustPanic(t, "BandCholesky.Det after failed Factorize", func() { ch.Det() })
		mustPanic(t, "BandCholesky.Cond after failed Factorize", func() { ch.Cond() })
		mustPanic(t, "BandCholesky.SolveTo after failed Factorize", func() { ch.SolveTo(&mat.Dense{}, eyeM(n).dense()) })
		return
	}
	if !ok {
		t.Failf("Factorize returned false for positive definite band matrix %s", fmtM(A))
		return
	}
	t.Outcome("pd")
	if nn, kk := ch.SymBand(); nn != n || kk != k {
		t.Failf("SymBand = %d,%d", nn, kk)
	}
	if kl, ku := ch.Bandwidth(); kl != k || ku != k {
		t.Failf("Bandwidth = %d,%d", kl, ku)
	}
	if r, c := ch.Dims(); r != n || c != n || ch.SymmetricDim() != n {
		t.Failf("Dims = %d,%d", r, c)
	}
	fn := float64(n)
	if r := maxAbs(subM(fromMat(&ch), A)) / (fn * eps * maxAbs(A)); r > tolResid || math.IsNaN(r) {
		t.Failf("At ratio %.3g A=%s", r, fmtM(A))
	}
	s := &solver{name: "BandCholesky", A: A, aliasOK: true, fullRank: true,
		solve: noTrans(ch.SolveTo), solveVec: noTransVec(ch.SolveVecTo), cond: ch.Cond}
	s.prepare()
	kinf := normInf(A) * normInf(s.pinv)
	ref := detRef(A)
	tol := 1e3 * fn * eps * kinf
	if !relClose(ch.Det(), ref, tol) {
		t.Failf("Det = %v, reference %v", ch.Det(), ref)
	}
	if !relClose(math.Exp(ch.LogDet()), ref, tol) {
		t.Failf("LogDet = %v, reference det %v", ch.LogDet(), ref)
	}
	condBand(t, "BandCholesky.Cond", ch.Cond(), kinf, 100, 1.01)
	s.run(t, cfg)
	// agreement with the dense Cholesky of the same matrix
	var dc mat.Cholesky
	if !dc.Factorize(repSym("sym", A)) {
		t.Failf("dense Cholesky failed")
		return
	}
	if !relClose(dc.Det(), ch.Det(), tol) {
		t.Failf("Det: band %v, dense %v", ch.Det(), dc.Det())
	}
	// same estimator (Pocon/Pbcon) on the same matrix and norm: the two estimates agree closely
	if bc, c := ch.Cond(), dc.Cond(); v < 1000 && !(bc >= c/1.5 && bc <= c*1.5) {
		finding(t, "cond-vs-dense", "bandcholesky-cond-uses-norm-of-factor", "BandCholesky.Cond = %.6g but Cholesky.Cond of the same matrix = %.6g (reference %.6g) n=%d k=%d", bc, c, kinf, n, k)
	}
}
