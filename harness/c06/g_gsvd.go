package main

import (
	"fmt"
	"math"
	"strings"

	"gonum.org/v1/gonum/internal/verif/vlib"
	"gonum.org/v1/gonum/mat"
)

var gsvdKinds = []struct {
	name string
	kind mat.GSVDKind
}{
	{"None", mat.GSVDNone}, {"U", mat.GSVDU}, {"V", mat.GSVDV}, {"Q", mat.GSVDQ},
	{"UV", mat.GSVDU | mat.GSVDV}, {"UQ", mat.GSVDU | mat.GSVDQ}, {"VQ", mat.GSVDV | mat.GSVDQ}, {"All", mat.GSVDAll},
}

func genGSVD(g *vlib.G) {
	hi := vlib.Pick(g, 5, 6)
	fams := []string{"dd", "pivot", "ident", "rankdef", "zeroline", "graded"}
	for r := 1; r <= hi; r++ {
		for p := 1; p <= hi; p++ {
			for c := 1; c <= hi; c++ {
				for fi, fa := range fams {
					// B's family is paired deterministically (all pairs would be 36 per shape)
					for _, fb := range []string{fams[(fi+1)%len(fams)], fa} {
						for v := 0; v < variants(g); v++ {
							for _, rep := range []string{"dense", "view", "user"} {
								r, p, c, fa, fb, v, rep := r, p, c, fa, fb, variantID(g, v), rep
								g.Case(fmt.Sprintf("GSVD r=%d p=%d c=%d A=%s/%s B=%s v=%d", r, p, c, fa, rep, fb, v), func(t *vlib.T) {
									gsvdCase(t, r, p, c, fa, fb, v, rep)
								})
							}
						}
					}
				}
			}
		}
	}
	for _, n := range sizesBig(g) {
		n := n
		g.Case(fmt.Sprintf("GSVD r=%d p=%d c=%d A=dd/dense B=pivot v=0", n, n-3, n), func(t *vlib.T) {
			gsvdCase(t, n, n-3, n, "dd", "pivot", 0, "dense")
		})
	}
}

func gsvdCase(t *vlib.T, r, p, c int, fa, fb string, v int, rep string) {
	A := genMat(fa, r, c, v)
	B := genMat(fb, p, c, v+11)
	stack := newM(r+p, c)
	copy(stack.d, A.d)
	copy(stack.d[r*c:], B.d)
	_, rankAB := ratElim(stack)
	_, rankB := ratElim(B)
	fmax := float64(max(r, p, c))
	t.Nontrivial()
	// Inputs on which Dggsvp3's missing column pivoting matters (see NOTES.md finding 4):
	// anything but prefix-diagonally-dominant full-rank pairs.
	plain := func(f string) bool { return f == "dd" || f == "graded" }
	suspect := rankAB < c || !plain(fa) || !plain(fb)
	fail := func(format string, a ...any) {
		if suspect {
			finding(t, "factors", "dggsvp3-no-pivoting", format, a...)
		} else {
			t.Failf(format, a...)
		}
	}
	var allVA, allVB []float64
	var kAll, lAll int
	var partialPanics []string
	defer func() {
		if len(partialPanics) > 0 {
			finding(t, "partial-kinds", "gsvd-partial-kind-panics", "Factorize panics for documented kinds: %v", partialPanics)
		}
	}()
	for ki := len(gsvdKinds) - 1; ki >= 0; ki-- { // All first
		kd := gsvdKinds[ki]
		a, b := repGen(rep, A), repGen(rep, B)
		var gs mat.GSVD
		if (r+p+c+v+ki)%2 == 0 {
			gs.Factorize(genMat("dd", r+1, c+1, 0).dense(), genMat("dd", p+2, c+1, 1).dense(), mat.GSVDAll)
		}
		var fok bool
		if msg := recoverMsg(func() { fok = gs.Factorize(a, b, kd.kind) }); msg != "" {
			switch {
			case strings.Contains(msg, "bad GSVDJob"):
				partialPanics = append(partialPanics, kd.name+": "+msg)
			case strings.Contains(msg, "insufficient length of a") && rankAB-rankB < c-rankB && kd.kind&mat.GSVDQ != 0:
				finding(t, kd.name, "dggsvp3-rq-wrong-routine", "%s: Factorize panics (%s) for r=%d p=%d c=%d rank[A;B]=%d rank B=%d A=%s B=%s", kd.name, msg, r, p, c, rankAB, rankB, fmtM(A), fmtM(B))
			default:
				t.Failf("%s: Factorize panics: %s A=%s B=%s", kd.name, msg, fmtM(A), fmtM(B))
			}
			continue
		}
		if !fok {
			fail("%s: Factorize returned false A=%s B=%s", kd.name, fmtM(A), fmtM(B))
			continue
		}
		if maxAbs(subM(fromMat(a), A)) != 0 || maxAbs(subM(fromMat(b), B)) != 0 {
			fail("%s: Factorize modified an argument", kd.name)
		}
		if gs.Kind() != kd.kind {
			fail("%s: Kind = %v", kd.name, gs.Kind())
		}
		k, l := gs.Rank()
		if k+l != rankAB || l != rankB {
			fail("%s: Rank = (%d,%d), exact rank([A;B]) = %d, rank(B) = %d  A=%s B=%s", kd.name, k, l, rankAB, rankB, fmtM(A), fmtM(B))
			continue
		}
		va, vb, gv := gs.ValuesA(nil), gs.ValuesB(nil), gs.GeneralizedValues(nil)
		d := min(r, c)
		if len(va) != d-k || len(vb) != d-k || len(gv) != d-k {
			fail("%s: value lengths %d %d %d want %d", kd.name, len(va), len(vb), len(gv), d-k)
			continue
		}
		for i := range va {
			if i < min(l, r-k) {
				if math.Abs(va[i]*va[i]+vb[i]*vb[i]-1) > tolResid*fmax*eps {
					fail("%s: alpha²+beta² = %v at %d", kd.name, va[i]*va[i]+vb[i]*vb[i], i)
				}
				if gv[i] != va[i]/vb[i] && !(math.IsNaN(gv[i]) && vb[i] == 0 && va[i] == 0) {
					fail("%s: GeneralizedValues[%d] = %v, want %v/%v", kd.name, i, gv[i], va[i], vb[i])
				}
			}
		}
		if kd.kind == mat.GSVDAll {
			allVA, allVB, kAll, lAll = va, vb, k, l
		} else if allVA != nil {
			if k != kAll || l != lAll {
				fail("%s: Rank (%d,%d) differs from kind All (%d,%d)", kd.name, k, l, kAll, lAll)
			} else {
				for i := range va {
					if math.Abs(va[i]-allVA[i]) > 1e-9 || math.Abs(vb[i]-allVB[i]) > 1e-9 {
						fail("%s: values differ from kind All: %v/%v vs %v/%v", kd.name, va, vb, allVA, allVB)
						break
					}
				}
			}
		}
		if k+l == 0 {
			// A = B = 0: [0 R] is 0×c, which mat cannot represent (ErrZeroLength); nothing to extract.
			continue
		}
		var ZR, S1, S2 mat.Dense
		gs.ZeroRTo(&ZR)
		gs.SigmaATo(&S1)
		gs.SigmaBTo(&S2)
		zr, s1, s2 := fromMat(&ZR), fromMat(&S1), fromMat(&S2)
		if zr.r != k+l || zr.c != c || s1.r != r || s1.c != k+l || s2.r != p || s2.c != k+l {
			fail("%s: shapes [0 R] %d×%d Σ1 %d×%d Σ2 %d×%d (k=%d l=%d)", kd.name, zr.r, zr.c, s1.r, s1.c, s2.r, s2.c, k, l)
			continue
		}
		// sized (dirty) destinations give the same
		for _, pair := range []struct {
			to   func(*mat.Dense)
			want *M
			nm   string
		}{{gs.ZeroRTo, zr, "ZeroRTo"}, {gs.SigmaATo, s1, "SigmaATo"}, {gs.SigmaBTo, s2, "SigmaBTo"}} {
			if pair.want.r == 0 || pair.want.c == 0 {
				continue
			}
			dd := make([]float64, pair.want.r*pair.want.c)
			for i := range dd {
				dd[i] = 7
			}
			dst := mat.NewDense(pair.want.r, pair.want.c, dd)
			pair.to(dst)
			if maxAbs(subM(fromMat(dst), pair.want)) != 0 {
				fail("%s: %s into a sized destination differs", kd.name, pair.nm)
			}
		}
		// [0 R]: first c-k-l columns zero, R upper triangular and nonsingular
		for i := 0; i < k+l; i++ {
			for j := 0; j < c-k-l+i; j++ {
				if zr.at(i, j) != 0 {
					fail("%s: [0 R] has nonzero %v at %d,%d (k=%d l=%d) A=%s B=%s", kd.name, zr.at(i, j), i, j, k, l, fmtM(A), fmtM(B))
				}
			}
		}
		var Um, Vm, Qm *M
		if kd.kind&mat.GSVDU != 0 {
			var U mat.Dense
			gs.UTo(&U)
			Um = fromMat(&U)
			if q := orthoDefect(Um) / (fmax * eps); Um.r != r || Um.c != r || q > tolResid || math.IsNaN(q) {
				fail("%s: U %d×%d orthogonality ratio %.3g", kd.name, Um.r, Um.c, q)
			}
		} else {
			mustPanic(t, kd.name+": UTo without U", func() { gs.UTo(&mat.Dense{}) })
		}
		if kd.kind&mat.GSVDV != 0 {
			var V mat.Dense
			gs.VTo(&V)
			Vm = fromMat(&V)
			if q := orthoDefect(Vm) / (fmax * eps); Vm.r != p || Vm.c != p || q > tolResid || math.IsNaN(q) {
				fail("%s: V %d×%d orthogonality ratio %.3g", kd.name, Vm.r, Vm.c, q)
			}
		} else {
			mustPanic(t, kd.name+": VTo without V", func() { gs.VTo(&mat.Dense{}) })
		}
		if kd.kind&mat.GSVDQ != 0 {
			var Q mat.Dense
			gs.QTo(&Q)
			Qm = fromMat(&Q)
			if q := orthoDefect(Qm) / (fmax * eps); Qm.r != c || Qm.c != c || q > tolResid || math.IsNaN(q) {
				fail("%s: Q %d×%d orthogonality ratio %.3g", kd.name, Qm.r, Qm.c, q)
			}
		} else {
			mustPanic(t, kd.name+": QTo without Q", func() { gs.QTo(&mat.Dense{}) })
		}
		scale := math.Max(math.Max(maxAbs(A), maxAbs(B)), 1e-300) * fmax
		if Um != nil && Qm != nil {
			rec := mulM(mulM(mulM(Um, s1), zr), Qm.T())
			if q := maxAbs(subM(rec, A)) / (fmax * eps * scale); q > tolResid || math.IsNaN(q) {
				fail("%s: |A - UΣ₁[0 R]Qᵀ| ratio %.3g (k=%d l=%d) A=%s B=%s", kd.name, q, k, l, fmtM(A), fmtM(B))
			}
		}
		if Vm != nil && Qm != nil {
			rec := mulM(mulM(mulM(Vm, s2), zr), Qm.T())
			if q := maxAbs(subM(rec, B)) / (fmax * eps * scale); q > tolResid || math.IsNaN(q) {
				fail("%s: |B - VΣ₂[0 R]Qᵀ| ratio %.3g (k=%d l=%d) A=%s B=%s", kd.name, q, k, l, fmtM(A), fmtM(B))
			}
		}
	}
	t.Outcome(fmt.Sprintf("k=%d l=%d deficient=%v", kAll, lAll, kAll+lAll < c))
}

// ---------------------------------------------------------------------------

func genHOGSVD(g *vlib.G) {
	hi := vlib.Pick(g, 5, 6)
	for c := 1; c <= hi; c++ {
		for _, cnt := range []int{2, 3} {
			for extra := 0; extra <= 2; extra++ {
				for _, fam := range []string{"dd", "pivot", "graded", "ident", "rankdef", "wide"} {
					for v := 0; v < variants(g); v++ {
						for _, rep := range []string{"dense", "view", "user"} {
							c, cnt, extra, fam, v, rep := c, cnt, extra, fam, variantID(g, v), rep
							g.Case(fmt.Sprintf("HOGSVD c=%d count=%d extra=%d fam=%s v=%d M=%s", c, cnt, extra, fam, v, rep), func(t *vlib.T) {
								hogsvdCase(t, c, cnt, extra, fam, v, rep)
							})
						}
					}
				}
			}
		}
	}
}

func hogsvdCase(t *vlib.T, c, cnt, extra int, fam string, v int, rep string) {
	var Ms []*M
	var ms []mat.Matrix
	for i := 0; i < cnt; i++ {
		r := c + (extra+i)%3
		f := fam
		if i > 0 && (fam == "rankdef" || fam == "wide") {
			f = "dd"
		}
		if f == "wide" {
			// r < c: documented "column tall" precondition violated: ok=false, Err()=ErrShape
			if c == 1 {
				f, r = "dd", c
			} else {
				f, r = "dd", c-1
			}
		}
		m := genMat(f, r, c, v+i)
		Ms = append(Ms, m)
		ms = append(ms, repGen(rep, m))
	}
	t.Nontrivial()
	var h mat.HOGSVD
	ok := h.Factorize(ms...)
	for i := range ms {
		if maxAbs(subM(fromMat(ms[i]), Ms[i])) != 0 {
			t.Failf("Factorize modified argument %d", i)
		}
	}
	bad := Ms[0].r < c || fam == "rankdef"
	if bad {
		t.Outcome("not-full-column-rank ok=false")
		if fam == "rankdef" && ok {
			// AᵀA of a rank-deficient integer matrix is singular; rounding may let the
			// Cholesky pass, then a Condition error is expected downstream. ok=true with
			// a finite wrong answer is the violation: check reconstruction below.
			t.Outcome("rankdef ok=true")
		} else {
			if ok {
				t.Failf("Factorize returned true for a %d×%d first matrix", Ms[0].r, c)
			}
			if h.Err() == nil {
				t.Failf("ok=false but Err() == nil")
			}
			if h.Len() != 0 {
				t.Failf("Len = %d after failure", h.Len())
			}
			mustPanic(t, "VTo after failed Factorize", func() { h.VTo(&mat.Dense{}) })
			return
		}
	}
	if !ok {
		t.Failf("Factorize returned false (%v) for full-column-rank inputs %s", h.Err(), fmtM(Ms[0]))
		return
	}
	if !bad {
		t.Outcome("ok")
	}
	if h.Len() != cnt {
		t.Failf("Len = %d want %d", h.Len(), cnt)
	}
	var V mat.Dense
	h.VTo(&V)
	Vm := fromMat(&V)
	if Vm.r != c || Vm.c != c {
		t.Failf("V is %d×%d", Vm.r, Vm.c)
		return
	}
	// V has unit-norm columns (documented normalisation in the source: "Rescale the columns of v by their Frobenius norms")
	for j := 0; j < c; j++ {
		var s float64
		for i := 0; i < c; i++ {
			s += Vm.at(i, j) * Vm.at(i, j)
		}
		if math.Abs(math.Sqrt(s)-1) > tolResid*float64(c)*eps {
			t.Failf("column %d of V has norm %v", j, math.Sqrt(s))
		}
	}
	// kappa of the whole construction: cond(V) and cond(M_i)² enter (normal equations inside)
	pv, okv := pinvRef(Vm)
	if !okv {
		t.Failf("V is singular")
		return
	}
	kv := normF(Vm) * normF(pv)
	for i := 0; i < cnt; i++ {
		var U mat.Dense
		h.UTo(&U, i)
		Um := fromMat(&U)
		s := h.Values(nil, i)
		if Um.r != Ms[i].r || Um.c != c || len(s) != c {
			t.Failf("U_%d is %d×%d, %d values", i, Um.r, Um.c, len(s))
			continue
		}
		for j := 0; j < c; j++ {
			if !(s[j] > 0) {
				t.Failf("Σ_%d[%d] = %v", i, j, s[j])
			}
			var nn float64
			for k := 0; k < Um.r; k++ {
				nn += Um.at(k, j) * Um.at(k, j)
			}
			if math.Abs(math.Sqrt(nn)-1) > tolResid*float64(Um.r)*eps {
				t.Failf("column %d of U_%d has norm %v", j, i, math.Sqrt(nn))
			}
		}
		// M_i = U_i Σ_i Vᵀ
		rec := newM(Um.r, c)
		for a := 0; a < Um.r; a++ {
			for b := 0; b < c; b++ {
				var x float64
				for j := 0; j < c; j++ {
					x += Um.at(a, j) * s[j] * Vm.at(b, j)
				}
				rec.set(a, b, x)
			}
		}
		bound := tolForward * float64(max(Um.r, c)) * eps * kv * normF(Ms[i])
		if d := maxAbs(subM(rec, Ms[i])); !(d <= bound) {
			t.Failf("|M_%d - UΣVᵀ| = %.3g > %.3g (cond V %.3g) M=%s", i, d, bound, kv, fmtM(Ms[i]))
		}
		s2 := make([]float64, c)
		h.Values(s2, i)
		if idx, same := vlib.Same64(s, s2); !same {
			t.Failf("Values(nil) and Values(dst) differ at %d", idx)
		}
	}
}
