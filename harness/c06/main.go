// Harness C06: mat factorization types reconstruct, solve and update
// consistently. See NOTES.md.
package main

import "gonum.org/v1/gonum/internal/verif/vlib"

func main() {
	vlib.Main("C06",
		vlib.Group{Name: "lu", Gen: genLU},
		vlib.Group{Name: "cholesky", Gen: genChol},
		vlib.Group{Name: "bandcholesky", Gen: genBandChol},
		vlib.Group{Name: "qr-lq", Gen: genQRLQ},
		vlib.Group{Name: "svd", Gen: genSVD},
		vlib.Group{Name: "eigensym", Gen: genEigenSym},
		vlib.Group{Name: "eigen", Gen: genEigen},
		vlib.Group{Name: "gsvd", Gen: genGSVD},
		vlib.Group{Name: "hogsvd", Gen: genHOGSVD},
		vlib.Group{Name: "cross-consistency", Gen: genCross},
		vlib.Group{Name: "dense-solve", Gen: genSolveFunc},
		vlib.Group{Name: "structured-solve", Gen: genStructured},
		vlib.Group{Name: "solve-same-object", Gen: genSolveSame},
		vlib.Group{Name: "inverse", Gen: genInverse},
		vlib.Group{Name: "exp", Gen: genExp},
		vlib.Group{Name: "pow", Gen: genPow},
		vlib.Group{Name: "exp-sweep", Gen: genExpSweep},
		vlib.Group{Name: "pow-sweep", Gen: genPowSweep},
		vlib.Group{Name: "powpsd", Gen: genPowPSD},
		vlib.Group{Name: "extract-dst", Gen: genExtractDst},
		vlib.Group{Name: "reuse", Gen: genReuse},
		vlib.Group{Name: "failed-refactorize", Gen: genFailedRefactorize},
		vlib.Group{Name: "into-receivers", Gen: genInto},
		vlib.Group{Name: "live-objects", Gen: genLive},
		vlib.Group{Name: "grow-update", Gen: genGrowUpdate},
		vlib.Group{Name: "grow-receiver", Gen: genGrowRecv},
		vlib.Group{Name: "update-contracts", Gen: genUpdateMisc},
		vlib.Group{Name: "lu-histories", Gen: genLUHist},
		// the Cholesky histories are by far the largest group: last, so that an internal
		// deadline on an overloaded machine cuts nothing else
		vlib.Group{Name: "chol-histories", Gen: genCholHist},
	)
}
