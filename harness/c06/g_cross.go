package main

// Det / LogDet / Cond computed through different factorizations of the same
// matrix agree with each other and with the exact value.

import (
	"fmt"
	"math"
	"math/cmplx"

	"gonum.org/v1/gonum/internal/verif/vlib"
	"gonum.org/v1/gonum/mat"
)

func genCross(g *vlib.G) {
	for _, n := range append(sizesSmall(g), sizesBig(g)...) {
		for _, fam := range []string{"spd", "spd-dd", "spd-graded", "ident", "gen-dd", "gen-pivot", "gen-indef", "gen-graded", "gen-rankdef", "gen-zeroline"} {
			for v := 0; v < variants(g); v++ {
				if n > 8 && (v > 0 || fam == "spd-graded" || fam == "gen-graded" || fam == "gen-rankdef") {
					continue
				}
				n, fam, v := n, fam, variantID(g, v)
				g.Case(fmt.Sprintf("cross n=%d fam=%s v=%d", n, fam, v), func(t *vlib.T) {
					crossCase(t, n, fam, v)
				})
			}
		}
	}
	// rectangular: only the 2-norm condition number is documented as accurate
	for _, m := range sizesSmall(g) {
		for _, n := range sizesSmall(g) {
			if m == n {
				continue
			}
			for _, fam := range []string{"dd", "pivot", "graded"} {
				m, n, fam := m, n, fam
				g.Case(fmt.Sprintf("cond2 m=%d n=%d fam=%s", m, n, fam), func(t *vlib.T) {
					A := genMat(fam, m, n, 0)
					sv := jacobiSV(A)
					want := sv[0] / sv[len(sv)-1]
					got := mat.Cond(A.dense(), 2)
					t.Nontrivial()
					t.Outcome("rect")
					if !relClose(got, want, 1e3*float64(max(m, n))*eps*want) {
						t.Failf("mat.Cond(A,2) = %v, reference %v", got, want)
					}
				})
			}
		}
	}
}

func crossCase(t *vlib.T, n int, fam string, v int) {
	var A *M
	sym := false
	switch fam {
	case "spd", "spd-dd", "spd-graded", "ident":
		A, sym = symMat(fam, n, v), true
	default:
		A = genMat(fam[4:], n, n, v)
		sym = fam == "gen-indef"
	}
	t.Nontrivial()
	fn := float64(n)
	pinv, full := pinvRef(A)
	if !full {
		t.Outcome("singular")
		// every route must call the matrix singular: determinant ~ 0, condition number huge
		bound := 1e3 * fn * eps * math.Pow(math.Max(normInf(A), 1), fn)
		for name, d := range map[string]float64{"mat.Det": mat.Det(A.dense()), "LU.Det": func() float64 { var lu mat.LU; lu.Factorize(A.dense()); return lu.Det() }()} {
			if !(math.Abs(d) <= bound) {
				t.Failf("%s = %v for a singular matrix", name, d)
			}
		}
		for _, nrm := range []float64{1, 2, math.Inf(1)} {
			if nrm == 2 && maxAbs(A) == 0 {
				continue // zero matrix: 0/0, undefined
			}
			if c := mat.Cond(A.dense(), nrm); !(c >= 1e14) {
				t.Failf("mat.Cond(A,%v) = %v for a singular matrix", nrm, c)
			}
		}
		return
	}
	t.Outcome(map[bool]string{true: "sym", false: "general"}[sym])
	det := detRef(A)
	k1 := norm1(A) * norm1(pinv)
	kinf := normInf(A) * normInf(pinv)
	sv := jacobiSV(A)
	k2 := sv[0] / sv[n-1]
	tol := 1e3 * fn * eps * kinf

	dets := map[string]float64{}
	logdets := map[string]float64{}
	var lu mat.LU
	lu.Factorize(A.dense())
	dets["LU.Det"] = lu.Det()
	ld, sg := lu.LogDet()
	logdets["LU.LogDet"] = ld
	if sg != math.Copysign(1, det) {
		t.Failf("LU.LogDet sign %v, det %v", sg, det)
	}
	dets["mat.Det"] = mat.Det(A.dense())
	ld, sg = mat.LogDet(A.dense())
	logdets["mat.LogDet"] = ld
	if sg != math.Copysign(1, det) {
		t.Failf("mat.LogDet sign %v, det %v", sg, det)
	}
	dets["mat.Det(user)"] = mat.Det(userMat{A})
	dets["mat.Det(T)"] = mat.Det(A.T().dense().T())
	var svd mat.SVD
	if !svd.Factorize(A.dense(), mat.SVDNone) {
		t.Failf("SVD failed")
		return
	}
	p := 1.0
	for _, s := range svd.Values(nil) {
		p *= s
	}
	dets["prod(SVD values)·sign"] = math.Copysign(p, det)
	var eg mat.Eigen
	if !eg.Factorize(A.dense(), mat.EigenNone) {
		t.Failf("Eigen failed")
		return
	}
	pc := complex(1, 0)
	for _, l := range eg.Values(nil) {
		pc *= l
	}
	if math.Abs(imag(pc)) > tol*cmplx.Abs(pc)*1e3 {
		t.Failf("product of eigenvalues %v is not real", pc)
	}
	// eigenvalues of nonsymmetric matrices have their own conditioning: only compared for symmetric input
	if sym {
		dets["prod(Eigen values)"] = real(pc)
		var es mat.EigenSym
		if !es.Factorize(repSym("sym", A), false) {
			t.Failf("EigenSym failed")
			return
		}
		p = 1
		for _, l := range es.Values(nil) {
			p *= l
		}
		dets["prod(EigenSym values)"] = p
	}
	conds := map[string]float64{"LU.Cond": lu.Cond()}
	if sym && det > 0 && fam != "gen-indef" {
		var ch mat.Cholesky
		if !ch.Factorize(repSym("sym", A)) {
			t.Failf("Cholesky failed for %s", fmtM(A))
			return
		}
		dets["Cholesky.Det"] = ch.Det()
		logdets["Cholesky.LogDet"] = ch.LogDet()
		conds["Cholesky.Cond"] = ch.Cond()
		var pc mat.PivotedCholesky
		if !pc.Factorize(repSym("sym", A), -1) {
			t.Failf("PivotedCholesky failed")
			return
		}
		conds["PivotedCholesky.Cond"] = pc.Cond()
		sb := mat.NewSymBandDense(n, n-1, nil)
		for i := 0; i < n; i++ {
			for j := i; j < n; j++ {
				sb.SetSymBand(i, j, A.at(i, j))
			}
		}
		var bc mat.BandCholesky
		if !bc.Factorize(sb) {
			t.Failf("BandCholesky failed")
			return
		}
		dets["BandCholesky.Det"] = bc.Det()
		logdets["BandCholesky.LogDet"] = bc.LogDet()
		conds["BandCholesky.Cond"] = bc.Cond()
	}
	for name, d := range dets {
		if !relClose(d, det, tol) {
			t.Failf("%s = %v, exact determinant %v (tol %.2g)", name, d, det, tol)
		}
	}
	for name, l := range logdets {
		if math.Abs(l-math.Log(math.Abs(det))) > tol+4*eps*math.Abs(l) {
			t.Failf("%s = %v, log|det| = %v", name, l, math.Log(math.Abs(det)))
		}
	}
	// ∞-norm condition estimates: all estimate the same number from below
	for name, c := range conds {
		if name == "BandCholesky.Cond" {
			if cc := conds["Cholesky.Cond"]; v < 1000 && !(c >= cc/1.5 && c <= cc*1.5) {
				finding(t, "bandcond", "bandcholesky-cond-uses-norm-of-factor", "BandCholesky.Cond = %.6g, Cholesky.Cond = %.6g, reference %.6g", c, cc, kinf)
			}
			continue
		}
		condBand(t, name, c, kinf, lowCond(v), 1.01)
	}
	condBand(t, "mat.Cond(A,Inf)", mat.Cond(A.dense(), math.Inf(1)), kinf, lowCond(v), 1.01)
	condBand(t, "mat.Cond(A,1)", mat.Cond(A.dense(), 1), k1, lowCond(v), 1.01)
	c2 := mat.Cond(A.dense(), 2)
	if !relClose(c2, k2, 1e3*fn*eps*k2) {
		t.Failf("mat.Cond(A,2) = %v, reference %v", c2, k2)
	}
	if sc := svd.Cond(); !relClose(sc, c2, 1e-12) {
		t.Failf("SVD.Cond = %v but mat.Cond(A,2) = %v", sc, c2)
	}
	// norm equivalence: k2/n <= kinf <= n·k2
	if l := lu.Cond(); l < k2/(10*fn) || l > k2*fn*1.01 {
		t.Failf("LU.Cond (inf-norm) %v inconsistent with 2-norm condition %v", l, k2)
	}
}
