#!/bin/sh
# development helper: aggregate `verif check` output by message shape
grep -v '^VIOLATION' | cut -c1-700 | awk '{k=$0; sub(/^[^\]]*\]/,"",k); gsub(/[-0-9.e+]+/,"#",k); k=substr(k,1,80); c[k]++; if(!(k in s)){s[k]=$0}} END{for(k in s) print c[k], s[k]}'
