package main

import (
	"fmt"
	"math"

	"gonum.org/v1/gonum/internal/verif/vlib"
	"gonum.org/v1/gonum/mat"
)

var svdKinds = []struct {
	name string
	kind mat.SVDKind
}{
	{"None", mat.SVDNone},
	{"ThinU", mat.SVDThinU},
	{"FullU", mat.SVDFullU},
	{"ThinV", mat.SVDThinV},
	{"FullV", mat.SVDFullV},
	{"Thin", mat.SVDThin},
	{"Full", mat.SVDFull},
	{"ThinU|FullV", mat.SVDThinU | mat.SVDFullV},
	{"FullU|ThinV", mat.SVDFullU | mat.SVDThinV},
}

func genSVD(g *vlib.G) {
	type shape struct{ m, n int }
	var shapes []shape
	for _, m := range sizesSmall(g) {
		for _, n := range sizesSmall(g) {
			shapes = append(shapes, shape{m, n})
		}
	}
	for _, b := range sizesBig(g) {
		shapes = append(shapes, shape{b, b}, shape{b + 5, b}, shape{b, b + 5}, shape{b, 3}, shape{3, b})
	}
	for _, sh := range shapes {
		for _, f := range genFams {
			if f.name == "indef" && sh.m != sh.n {
				continue
			}
			for v := 0; v < variants(g); v++ {
				reps := genReps
				big := max(sh.m, sh.n) > 8
				if big {
					if f.name == "graded" || f.name == "indef" || v > 0 {
						continue
					}
					reps = []string{"dense"}
				}
				for _, rep := range reps {
					sh, f, v, rep := sh, f, variantID(g, v), rep
					cfg := quickCfg(g)
					if big {
						cfg = bigCfg()
					}
					cfg.variant = v
					g.Case(fmt.Sprintf("SVD m=%d n=%d fam=%s v=%d A=%s", sh.m, sh.n, f.name, v, rep), func(t *vlib.T) {
						svdCase(t, sh.m, sh.n, f, v, rep, cfg)
					})
				}
			}
		}
	}
}

func svdCase(t *vlib.T, m, n int, f famInfo, v int, rep string, cfg solveCfg) {
	A := genMat(f.name, m, n, v)
	k := min(m, n)
	fmax := float64(max(m, n))
	anorm := maxAbs(A)
	svRef := jacobiSV(A)
	s0 := svRef[0]
	_, rankRef := ratElim(A)
	t.Nontrivial()
	var full mat.SVD // reused below for the solves
	var fullVals []float64
	for ki, kd := range svdKinds {
		a := repGen(rep, A)
		var svd mat.SVD
		if (m+n+v+ki)%2 == 0 {
			// receiver reuse
			svd.Factorize(genMat("dd", m+1, n+2, 0).dense(), mat.SVDFull)
		}
		if !svd.Factorize(a, kd.kind) {
			t.Failf("%s: Factorize returned false for %s", kd.name, fmtM(A))
			continue
		}
		if maxAbs(subM(fromMat(a), A)) != 0 {
			t.Failf("%s: Factorize modified its argument", kd.name)
		}
		if svd.Kind() != kd.kind {
			t.Failf("%s: Kind() = %v", kd.name, svd.Kind())
		}
		vals := svd.Values(nil)
		if len(vals) != k {
			t.Failf("%s: %d values, want %d", kd.name, len(vals), k)
			continue
		}
		for i, s := range vals {
			if !(s >= 0) || i > 0 && s > vals[i-1] {
				t.Failf("%s: singular values not non-negative descending: %v", kd.name, vals)
			}
			// Weyl: computed singular values are those of A+E, |E| <= c·eps·|A|
			if math.Abs(s-svRef[i]) > tolResid*fmax*eps*s0+1e-300 {
				t.Failf("%s: singular value %d = %v, Jacobi reference %v (A=%s)", kd.name, i, s, svRef[i], fmtM(A))
			}
		}
		vals2 := make([]float64, k)
		svd.Values(vals2)
		if idx, same := vlib.Same64(vals, vals2); !same {
			t.Failf("%s: Values(nil) and Values(dst) differ at %d", kd.name, idx)
		}
		// Cond, Rank
		cond := svd.Cond()
		switch {
		case s0 == 0:
			// zero matrix: 0/0, undefined
		case rankRef == k:
			if !relClose(cond, svRef[0]/svRef[k-1], 1e3*fmax*eps*svRef[0]/svRef[k-1]) {
				t.Failf("%s: Cond = %v, reference %v", kd.name, cond, svRef[0]/svRef[k-1])
			}
		default:
			if !(cond >= 1e14) {
				t.Failf("%s: Cond = %v for a rank-deficient matrix", kd.name, cond)
			}
		}
		if s0 > 0 {
			if r := svd.Rank(1e-10); r != rankRef {
				t.Failf("%s: Rank(1e-10) = %d, exact rank %d (values %v)", kd.name, r, rankRef, vals)
			}
		}
		hasU := kd.kind&(mat.SVDThinU|mat.SVDFullU) != 0
		hasV := kd.kind&(mat.SVDThinV|mat.SVDFullV) != 0
		var Um, Vm *M
		if hasU {
			var U mat.Dense
			svd.UTo(&U)
			Um = fromMat(&U)
			wc := k
			if kd.kind&mat.SVDFullU != 0 {
				wc = m
			}
			if Um.r != m || Um.c != wc {
				t.Failf("%s: U is %d×%d want %d×%d", kd.name, Um.r, Um.c, m, wc)
				continue
			}
			if r := orthoDefect(Um) / (fmax * eps); r > tolResid || math.IsNaN(r) {
				t.Failf("%s: |UᵀU-I|/(n·eps) = %.3g", kd.name, r)
			}
			U2 := mat.NewDense(m, wc, nil)
			svd.UTo(U2)
			if maxAbs(subM(fromMat(U2), Um)) != 0 {
				t.Failf("%s: UTo into a sized destination differs", kd.name)
			}
		} else {
			mustPanic(t, kd.name+": UTo without U", func() { svd.UTo(&mat.Dense{}) })
		}
		if hasV {
			var V mat.Dense
			svd.VTo(&V)
			Vm = fromMat(&V)
			wc := k
			if kd.kind&mat.SVDFullV != 0 {
				wc = n
			}
			if Vm.r != n || Vm.c != wc {
				t.Failf("%s: V is %d×%d want %d×%d", kd.name, Vm.r, Vm.c, n, wc)
				continue
			}
			if r := orthoDefect(Vm) / (fmax * eps); r > tolResid || math.IsNaN(r) {
				t.Failf("%s: |VᵀV-I|/(n·eps) = %.3g", kd.name, r)
			}
			V2 := mat.NewDense(n, wc, nil)
			svd.VTo(V2)
			if maxAbs(subM(fromMat(V2), Vm)) != 0 {
				t.Failf("%s: VTo into a sized destination differs", kd.name)
			}
		} else {
			mustPanic(t, kd.name+": VTo without V", func() { svd.VTo(&mat.Dense{}) })
		}
		if hasU && hasV {
			// A = U[:, :k] diag(s) V[:, :k]ᵀ
			R := newM(m, n)
			for i := 0; i < m; i++ {
				for j := 0; j < n; j++ {
					var s float64
					for l := 0; l < k; l++ {
						s += Um.at(i, l) * vals[l] * Vm.at(j, l)
					}
					R.set(i, j, s)
				}
			}
			if r := maxAbs(subM(R, A)) / (fmax * eps * math.Max(math.Max(s0, anorm), 1e-300)); r > tolResid || math.IsNaN(r) {
				t.Failf("%s: reconstruction ratio |A-UΣVᵀ| = %.3g A=%s", kd.name, r, fmtM(A))
			}
		} else if hasU {
			// AᵀU[:, :k] has columns of norm s_i (and they are orthogonal)
			W := mulM(A.T(), Um)
			for l := 0; l < k; l++ {
				var s float64
				for i := 0; i < n; i++ {
					s += W.at(i, l) * W.at(i, l)
				}
				if math.Abs(math.Sqrt(s)-vals[l]) > tolResid*fmax*eps*s0 {
					t.Failf("%s: |Aᵀu_%d| = %v, singular value %v", kd.name, l, math.Sqrt(s), vals[l])
				}
			}
		} else if hasV {
			W := mulM(A, Vm)
			for l := 0; l < k; l++ {
				var s float64
				for i := 0; i < m; i++ {
					s += W.at(i, l) * W.at(i, l)
				}
				if math.Abs(math.Sqrt(s)-vals[l]) > tolResid*fmax*eps*s0 {
					t.Failf("%s: |A v_%d| = %v, singular value %v", kd.name, l, math.Sqrt(s), vals[l])
				}
			}
		}
		if !(hasU && hasV) {
			mustPanic(t, kd.name+": SolveTo without both U and V", func() { svd.SolveTo(&mat.Dense{}, rhsMat(m, 1, 0).dense(), 1) })
		}
		if kd.kind == mat.SVDFull {
			full = svd
			fullVals = vals
		}
		if kd.kind == mat.SVDThin && s0 > 0 {
			// thin factorization: solves agree with the definition too
			svdSolves(t, "SVD(thin)", &svd, A, f, Um, Vm, vals, rankRef, false, cfg)
		}
	}
	if fullVals != nil && s0 > 0 {
		var U, V mat.Dense
		full.UTo(&U)
		full.VTo(&V)
		svdSolves(t, "SVD(full)", &full, A, f, fromMat(&U), fromMat(&V), fullVals, rankRef, true, cfg)
	}
	t.Outcome(fmt.Sprintf("rankdef=%d", k-rankRef))
}

// svdSolves checks SolveTo/SolveVecTo at full rank (against the generic
// least-squares / minimum-norm oracle) and at every rank cut 1..rank (against
// the definition x = Σ_{i<rank} v_i (u_iᵀ b)/s_i evaluated with plain loops on
// the extracted, already verified, factors).
func svdSolves(t *vlib.T, name string, svd *mat.SVD, A *M, f famInfo, Um, Vm *M, vals []float64, rankRef int, fullU bool, cfg solveCfg) {
	m, n := A.r, A.c
	k := min(m, n)
	if f.full {
		var lastRes []float64
		s := &solver{name: name, A: A, aliasOK: m == n, fullRank: true,
			solve: func(dst *mat.Dense, _ bool, b mat.Matrix) error {
				lastRes = svd.SolveTo(dst, b, k)
				return nil
			},
			solveVec: func(dst *mat.VecDense, _ bool, b mat.Vector) error {
				lastRes = []float64{svd.SolveVecTo(dst, b, k)}
				return nil
			}}
		s.prepare()
		s.run(t, cfg)
		_ = lastRes
	}
	// rank cuts
	for rank := 1; rank <= k; rank++ {
		if rank > rankRef {
			// dividing by a rounding-noise singular value is meaningless; the documented use is rank <= Rank()
			continue
		}
		for _, nrhs := range []int{1, 3} {
			B := rhsMat(m, nrhs, cfg.variant+rank)
			want := newM(n, nrhs)
			for j := 0; j < nrhs; j++ {
				for l := 0; l < rank; l++ {
					var dot float64
					for i := 0; i < m; i++ {
						dot += Um.at(i, l) * B.at(i, j)
					}
					for i := 0; i < n; i++ {
						want.add(i, j, Vm.at(i, l)*dot/vals[l])
					}
				}
			}
			bound := tolForward * float64(max(m, n)) * eps * normF(B) / vals[rank-1]
			for _, brep := range []string{"dense", "user", "trans", "view"} {
				for _, dk := range []string{"empty", "sized"} {
					dst := &mat.Dense{}
					if dk == "sized" {
						dd := make([]float64, n*nrhs)
						vlib.FillPoison64(dd)
						dst = mat.NewDense(n, nrhs, dd)
					}
					name := fmt.Sprintf("%s b=%s dst=%s", name, brep, dk)
					res := svd.SolveTo(dst, repGen(brep, B), rank)
					x := fromMat(dst)
					if x.r != n || x.c != nrhs {
						t.Failf("%s.SolveTo rank=%d: result %d×%d", name, rank, x.r, x.c)
						continue
					}
					if d := maxAbs(subM(x, want)); !(d <= bound) {
						t.Failf("%s.SolveTo rank=%d nrhs=%d: |x-def|=%.3g > %.3g A=%s", name, rank, nrhs, d, bound, fmtM(A))
					}
					if len(res) != nrhs {
						t.Failf("%s.SolveTo: %d residuals for %d columns", name, len(res), nrhs)
						continue
					}
					if fullU {
						// documented: residuals valid with SVDFullU: |b - A x|² for the rank-truncated A
						Ak := newM(m, n)
						for i := 0; i < m; i++ {
							for j := 0; j < n; j++ {
								var s float64
								for l := 0; l < rank; l++ {
									s += Um.at(i, l) * vals[l] * Vm.at(j, l)
								}
								Ak.set(i, j, s)
							}
						}
						R := subM(mulM(Ak, x), B)
						for j := 0; j < nrhs; j++ {
							var s float64
							for i := 0; i < m; i++ {
								s += R.at(i, j) * R.at(i, j)
							}
							if math.Abs(res[j]-s) > tolForward*float64(max(m, n))*eps*normF(B)*normF(B) {
								t.Failf("%s.SolveTo rank=%d: residual[%d] = %v, |b-A_k x|² = %v", name, rank, j, res[j], s)
							}
						}
						if rank == rankRef {
							// at the exact rank of A the truncated matrix is A itself: |b - A x|² with the input matrix
							R := subM(mulM(A, x), B)
							for j := 0; j < nrhs; j++ {
								var s float64
								for i := 0; i < m; i++ {
									s += R.at(i, j) * R.at(i, j)
								}
								if math.Abs(res[j]-s) > tolForward*float64(max(m, n))*eps*(normF(B)+normF(A)*normF(x))*(normF(B)+normF(A)*normF(x)) {
									t.Failf("%s.SolveTo rank=%d (= rank of A): residual[%d] = %v, |b-A x|² = %v A=%s", name, rank, j, res[j], s, fmtM(A))
								}
							}
						}
					}
					t.Count("solves", 1)
					if nrhs == 1 {
						for _, vrep := range vecReps {
							dv := &mat.VecDense{}
							if dk == "sized" {
								dd := make([]float64, n)
								vlib.FillPoison64(dd)
								dv = mat.NewVecDense(n, dd)
							}
							r1 := svd.SolveVecTo(dv, repVec(vrep, B.col(0)), rank)
							if d := maxAbs(subM(fromMat(dv), want)); !(d <= bound) {
								t.Failf("%s.SolveVecTo rank=%d b=%s: |x-def|=%.3g > %.3g", name, rank, vrep, d, bound)
							}
							if !relClose(r1, res[0], 1e-9) && math.Abs(r1-res[0]) > 1e-20 {
								t.Failf("%s.SolveVecTo rank=%d b=%s: residual %v, SolveTo gave %v", name, rank, vrep, r1, res[0])
							}
							t.Count("solves", 1)
						}
					}
				}
			}
		}
	}
}
