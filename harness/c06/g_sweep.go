package main

// Branch-variable sweeps: Dense.Exp selects its Padé order and the number of
// squarings from the 1-norm of the argument, Dense.Pow decomposes the exponent
// in binary. The families here place the branch variable just below, exactly
// at and just above EVERY threshold, strictly inside every interval and over
// several octaves of the squaring loop, on matrices whose exponential is known
// in closed form (or from the 320-bit Taylor series for moderate norms).

import (
	"fmt"
	"math"

	"gonum.org/v1/gonum/internal/verif/vlib"
	"gonum.org/v1/gonum/mat"
)

// expThetas are the thresholds of Dense.Exp (Higham 2005, Algorithm 10.20): Padé
// orders 3, 5, 7, 9 and 13; above the last one the argument is halved
// ceil(log2(norm/5.4)) times and the result squared as often.
var expThetas = []float64{1.5e-2, 2.5e-1, 9.5e-1, 2.1e0, 5.4e0}

type sweepPoint struct {
	label string
	norm  float64
	exact bool // only meaningful for families whose 1-norm is exactly the scale factor
}

// expSweepPoints lists the norms: for every threshold θ (and 5.4·2^k): θ·(1-2^-30), θ, θ·(1+2^-30)
// and the neighbouring floats of θ; inside every interval `inner` points (geometrically spaced).
func expSweepPoints(octaves, inner int) []sweepPoint {
	ths := append([]float64(nil), expThetas...)
	for k := 1; k <= octaves; k++ {
		ths = append(ths, math.Ldexp(5.4, k))
	}
	var pts []sweepPoint
	pts = append(pts, sweepPoint{"zero", 0, true}, sweepPoint{"tiny", math.Ldexp(1, -40), true})
	lo := math.Ldexp(1, -12)
	for i, th := range ths {
		for j := 1; j <= inner; j++ {
			x := lo * math.Pow(th/lo, float64(j)/float64(inner+1))
			pts = append(pts, sweepPoint{fmt.Sprintf("inside(%g,%g)#%d", lo, th, j), x, false})
		}
		name := fmt.Sprintf("%g", th)
		if i >= len(expThetas) {
			name = fmt.Sprintf("5.4*2^%d", i-len(expThetas)+1)
		}
		pts = append(pts,
			sweepPoint{name + "*(1-2^-30)", th * (1 - math.Ldexp(1, -30)), false},
			sweepPoint{name + "-ulp", math.Nextafter(th, 0), true},
			sweepPoint{name, th, true},
			sweepPoint{name + "+ulp", math.Nextafter(th, math.Inf(1)), true},
			sweepPoint{name + "*(1+2^-30)", th * (1 + math.Ldexp(1, -30)), false},
		)
		lo = th
	}
	// one more point beyond the last threshold
	pts = append(pts, sweepPoint{"beyond", lo * 1.37, false})
	return pts
}

// A sweep family gives, for a requested 1-norm t, the matrix and its exponential.
// exactNorm: the 1-norm of the matrix is exactly t (one nonzero per dominant column), so that
// the "-ulp / at / +ulp" points really sit on the two sides of a threshold.
type sweepFam struct {
	name      string
	exactNorm bool
	maxNorm   float64 // the reference is usable up to this norm
	build     func(t float64) (A, expA *M, amp float64)
}

func rot2(t float64) *M {
	return &M{r: 2, c: 2, d: []float64{math.Cos(t), -math.Sin(t), math.Sin(t), math.Cos(t)}}
}

func blockDiag(bs ...*M) *M {
	n := 0
	for _, b := range bs {
		n += b.r
	}
	a := newM(n, n)
	o := 0
	for _, b := range bs {
		for i := 0; i < b.r; i++ {
			for j := 0; j < b.c; j++ {
				a.set(o+i, o+j, b.at(i, j))
			}
		}
		o += b.r
	}
	return a
}

// shiftExp returns t·J_n (ones on the first superdiagonal) and its exponential Σ t^k J^k / k!.
func shiftExp(n int, t float64) (*M, *M) {
	a, e := newM(n, n), newM(n, n)
	for i := 0; i < n; i++ {
		if i+1 < n {
			a.set(i, i+1, t)
		}
		term := 1.0
		for k := 0; i+k < n; k++ {
			if k > 0 {
				term *= t / float64(k)
			}
			e.set(i, i+k, term)
		}
	}
	return a, e
}

// unimodular integer similarity: unit lower triangular times a permutation; the inverse is integer too.
var simP, simPinv = func() (*M, *M) {
	p := &M{r: 5, c: 5, d: []float64{
		0, 1, 0, 0, 0,
		1, 1, 0, 0, 0,
		0, -1, 1, 0, 0,
		2, 0, 1, 0, 1,
		0, 1, 0, 1, -1,
	}}
	inv, det, ok := bigInvDet(bigFrom(p))
	if d, _ := det.Float64(); !ok || math.Abs(d) != 1 {
		panic("harness: similarity matrix is not unimodular")
	}
	pi := inv.toM()
	for i, v := range pi.d {
		pi.d[i] = math.Round(v)
	}
	return p, pi
}()

// gen5 is the 5×5 block generator with unit 1-norm: rotation, 2×2 nilpotent, decaying scalar.
func gen5(t float64) (A, E *M) {
	rotA := &M{r: 2, c: 2, d: []float64{0, -t, t, 0}}
	nilA := &M{r: 2, c: 2, d: []float64{0, t, 0, 0}}
	nilE := &M{r: 2, c: 2, d: []float64{1, t, 0, 1}}
	sc := &M{r: 1, c: 1, d: []float64{-t / 2}}
	scE := &M{r: 1, c: 1, d: []float64{math.Exp(-t / 2)}}
	return blockDiag(rotA, nilA, sc), blockDiag(rot2(t), nilE, scE)
}

var sweepFams = []sweepFam{
	{"diag", true, 650, func(t float64) (*M, *M, float64) {
		d := []float64{t, -t / 2, t / 4}
		a, e := newM(3, 3), newM(3, 3)
		for i, v := range d {
			a.set(i, i, v)
			e.set(i, i, math.Exp(v))
		}
		return a, e, 1
	}},
	{"negdiag", true, 1e9, func(t float64) (*M, *M, float64) {
		d := []float64{-t, -t / 2, -t / 8, 0}
		a, e := newM(4, 4), newM(4, 4)
		for i, v := range d {
			a.set(i, i, v)
			e.set(i, i, math.Exp(v))
		}
		return a, e, 1
	}},
	{"rotation", true, 1e9, func(t float64) (*M, *M, float64) {
		return &M{r: 2, c: 2, d: []float64{0, -t, t, 0}}, rot2(t), 1
	}},
	{"nilpotent", true, 1e9, func(t float64) (*M, *M, float64) {
		a, e := shiftExp(4, t)
		return a, e, 1
	}},
	{"block", true, 1e9, func(t float64) (*M, *M, float64) {
		a, e := gen5(t)
		return a, e, 1
	}},
	{"similar", false, 1e9, func(t float64) (*M, *M, float64) {
		// P·G(c)·P⁻¹ with the scale c chosen so that the 1-norm is t: exp = P·exp(G(c))·P⁻¹
		g1, _ := gen5(1)
		unit := norm1(mulM(mulM(simP, g1), simPinv))
		c := t / unit
		g, e := gen5(c)
		return mulM(mulM(simP, g), simPinv), mulM(mulM(simP, e), simPinv), norm1(simP) * norm1(simPinv)
	}},
	{"commuting-sum", false, 1e9, func(t float64) (*M, *M, float64) {
		// c·I commutes with everything: exp(c·I + R(s)) = e^c · exp(R(s)); |A|_1 = |c| + s
		c, s := -t/4, 3*t/4
		a := &M{r: 2, c: 2, d: []float64{c, -s, s, c}}
		return a, scaleM(math.Exp(c), rot2(s)), 1
	}},
	{"shifted-nilpotent", false, 1300, func(t float64) (*M, *M, float64) {
		// exp(c·I + s·J) = e^c · Σ s^k J^k / k!
		c, s := t/2, t/2
		a, e := shiftExp(3, s)
		for i := 0; i < 3; i++ {
			a.set(i, i, c)
		}
		return a, scaleM(math.Exp(c), e), 1
	}},
	{"taylor", false, 60, func(t float64) (*M, *M, float64) {
		// general integer matrix scaled to the norm; reference: 320-bit Taylor series
		g := &M{r: 3, c: 3, d: []float64{2, -1, 3, 1, 0, -2, -3, 2, 1}}
		a := scaleM(t/norm1(g), g)
		return a, bigExpRef(a), 1
	}},
}

func genExpSweep(g *vlib.G) {
	pts := expSweepPoints(vlib.Pick(g, 4, 7), vlib.Pick(g, 3, 9))
	for _, f := range sweepFams {
		for _, p := range pts {
			if p.norm > f.maxNorm {
				continue
			}
			f, p := f, p
			g.Case(fmt.Sprintf("Exp-sweep fam=%s norm=%s", f.name, p.label), func(t *vlib.T) { expSweepCase(t, f, p) })
		}
	}
}

// expBranch names the code path Dense.Exp must take for a 1-norm.
func expBranch(n1 float64) string {
	for i, th := range expThetas[:4] {
		if n1 <= th {
			return fmt.Sprintf("pade%d", []int{3, 5, 7, 9}[i])
		}
	}
	if n1 <= 5.4 {
		return "pade13 s=0"
	}
	return fmt.Sprintf("pade13 s=%d", int(math.Ceil(math.Log2(n1/5.4))))
}

func expSweepCase(t *vlib.T, f sweepFam, p sweepPoint) {
	A, want, amp := f.build(p.norm)
	n := A.r
	n1 := norm1(A)
	gn := mat.Norm(A.dense(), 1) // the branch variable as the implementation computes it
	if f.exactNorm && (n1 != p.norm || gn != p.norm) {
		t.Failf("harness: family %s does not have 1-norm exactly %v (got %v / mat.Norm %v)", f.name, p.norm, n1, gn)
		return
	}
	t.Nontrivial()
	t.Outcome(f.name + " " + expBranch(gn))
	// Error model: the Padé approximant is backward stable (relative perturbation of A of
	// order eps), exp has condition number <= |A| for normal matrices, s squarings at most
	// double the relative error each in theory and add ~s·eps in practice. Observed ratios
	// (counter maxima exp_sweep_ratio) stay below 20 in units of eps·max(1,|A|_1); the
	// bugs hunted (wrong order, wrong scaling, missing squaring) are O(1) relative errors.
	scale := math.Max(maxAbs(want), math.SmallestNonzeroFloat64)
	unit := eps * math.Max(1, gn) * amp * scale
	bound := 500 * unit
	var worst float64
	for _, rep := range []string{"dense", "user"} {
		for _, dk := range []string{"empty", "sized", "sizedview", "alias"} {
			a := repGen(rep, A)
			var dst *mat.Dense
			var gd *guarded
			switch dk {
			case "empty":
				dst = &mat.Dense{}
			case "sized":
				d := make([]float64, n*n)
				vlib.FillPoison64(d)
				dst = mat.NewDense(n, n, d)
			case "sizedview":
				gd = newGuarded(n, n, nil)
				dst = gd.view
			case "alias":
				ad, ok := a.(*mat.Dense)
				if !ok {
					continue
				}
				dst = ad
			}
			label := fmt.Sprintf("Exp A=%s dst=%s", rep, dk)
			if msg := recoverMsg(func() { dst.Exp(a) }); msg != "" {
				t.Failf("%s: panic %s", label, msg)
				continue
			}
			if gd != nil {
				if idx, ok := gd.paddingIntact(); !ok {
					t.Failf("%s: wrote outside the destination view (backing index %d)", label, idx)
				}
			}
			if dk != "alias" && maxAbs(subM(fromMat(a), A)) != 0 {
				t.Failf("%s: argument modified", label)
			}
			d := maxAbs(subM(fromMat(dst), want))
			if !(d <= bound) {
				t.Failf("%s: |exp-ref| = %.3g > %.3g for |A|_1 = %.17g (%s, branch %s) A=%s got=%s want=%s", label, d, bound, gn, p.label, expBranch(gn), fmtM(A), fmtM(fromMat(dst)), fmtM(want))
			}
			worst = math.Max(worst, d/unit)
			t.Count("exp_sweep_evaluations", 1)
		}
	}
	if !math.IsNaN(worst) && !math.IsInf(worst, 0) {
		t.Max("exp_sweep_ratio", int64(math.Ceil(worst)))
	}
}

// ---------------------------------------------------------------- Pow

// powSweepExponents: every exponent up to lim (all binary patterns of that length) and the
// neighbours of larger powers of two.
func powSweepExponents(lim int) []int {
	e := vlib.Ints(0, lim)
	for _, k := range []int{255, 256, 257, 511, 512, 513, 1000, 1023, 1024, 1025} {
		if k > lim {
			e = append(e, k)
		}
	}
	return e
}

func permMat(p []int) *M {
	a := newM(len(p), len(p))
	for i, j := range p {
		a.set(i, j, 1)
	}
	return a
}

var powSweepMats = []struct {
	name string
	a    *M
}{
	{"cycle3", permMat([]int{1, 2, 0})},
	{"cycle5", permMat([]int{1, 2, 3, 4, 0})},
	{"order6", permMat([]int{1, 0, 3, 4, 2})},
	{"signed-perm", &M{r: 3, c: 3, d: []float64{0, -1, 0, 0, 0, 1, 1, 0, 0}}},
	{"unipotent3", &M{r: 3, c: 3, d: []float64{1, 1, 0, 0, 1, 1, 0, 0, 1}}},
	{"unipotent4", &M{r: 4, c: 4, d: []float64{1, 1, 0, 0, 0, 1, 1, 0, 0, 0, 1, 1, 0, 0, 0, 1}}},
	{"rotation90", &M{r: 2, c: 2, d: []float64{0, -1, 1, 0}}},
	{"half", &M{r: 2, c: 2, d: []float64{0.5, 0.5, 0, 0.5}}}, // dyadic: exact down to 2^-1025·k? kept below 2^-1000 by the exponent list
}

func genPowSweep(g *vlib.G) {
	lim := vlib.Pick(g, 130, 600)
	for _, pm := range powSweepMats {
		for _, rep := range []string{"dense", "view", "trans", "user"} {
			pm, rep := pm, rep
			g.Case(fmt.Sprintf("Pow-sweep A=%s rep=%s exponents<=%d", pm.name, rep, lim), func(t *vlib.T) {
				exps := powSweepExponents(lim)
				t.Nontrivial()
				t.Outcome(pm.name)
				n := pm.a.r
				want := eyeM(n)
				k := 0
				for _, e := range exps {
					if pm.name == "half" && e > 900 {
						break // 2^-e must stay a normal number
					}
					for ; k < e; k++ {
						want = mulM(want, pm.a) // exact: integers below 2^53 / dyadic numbers
					}
					dks := []string{"empty", "sized", "alias"}
					dk := dks[e%3]
					var a mat.Matrix = repGen(rep, pm.a)
					dst := &mat.Dense{}
					switch dk {
					case "sized":
						d := make([]float64, n*n)
						vlib.FillPoison64(d)
						dst = mat.NewDense(n, n, d)
					case "alias":
						if ad, ok := a.(*mat.Dense); ok {
							dst = ad
						}
					}
					if msg := recoverMsg(func() { dst.Pow(a, e) }); msg != "" {
						t.Failf("Pow(%d) dst=%s: panic %s", e, dk, msg)
						continue
					}
					got := fromMat(dst)
					if idx, same := vlib.Same64(zeroNorm(got.d), zeroNorm(want.d)); !same {
						t.Failf("Pow(%d) of %s (dst=%s) differs from repeated multiplication at %d: got %s want %s", e, pm.name, dk, idx, fmtM(got), fmtM(want))
					}
					t.Count("pow_sweep_evaluations", 1)
				}
			})
		}
	}
}
