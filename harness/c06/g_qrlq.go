package main

import (
	"fmt"
	"math"

	"gonum.org/v1/gonum/internal/verif/vlib"
	"gonum.org/v1/gonum/mat"
)

func genQRLQ(g *vlib.G) {
	type shape struct{ m, n int }
	var shapes []shape
	for _, m := range sizesSmall(g) {
		for _, n := range sizesSmall(g) {
			shapes = append(shapes, shape{m, n})
		}
	}
	for _, b := range sizesBig(g) {
		shapes = append(shapes, shape{b, b}, shape{b + 5, b}, shape{b, b + 5}, shape{b, 3}, shape{3, b})
	}
	for _, sh := range shapes {
		for _, f := range genFams {
			if f.name == "indef" {
				continue
			}
			for v := 0; v < variants(g); v++ {
				reps := genReps
				big := max(sh.m, sh.n) > 8
				if big {
					if f.name == "graded" || f.name == "rankdef" || v > 0 {
						continue
					}
					reps = []string{"dense", "view"}
				}
				for _, rep := range reps {
					sh, f, v, rep := sh, f, variantID(g, v), rep
					cfg := quickCfg(g)
					if big {
						cfg = bigCfg()
					}
					cfg.variant = v
					if sh.m >= sh.n {
						g.Case(fmt.Sprintf("QR m=%d n=%d fam=%s v=%d A=%s", sh.m, sh.n, f.name, v, rep), func(t *vlib.T) {
							qrCase(t, sh.m, sh.n, f, v, rep, cfg)
						})
					}
					if sh.m <= sh.n {
						g.Case(fmt.Sprintf("LQ m=%d n=%d fam=%s v=%d A=%s", sh.m, sh.n, f.name, v, rep), func(t *vlib.T) {
							lqCase(t, sh.m, sh.n, f, v, rep, cfg)
						})
					}
				}
			}
		}
	}
}

// triCondRef returns the ∞-norm condition number of the leading k×k block of r (reference for QR/LQ.Cond,
// which is documented as the condition number of the triangular factor).
func triCondRef(tri *M) (float64, bool) {
	p, ok := pinvRef(tri)
	if !ok {
		return math.Inf(1), false
	}
	return normInf(tri) * normInf(p), true
}

func qrCase(t *vlib.T, m, n int, f famInfo, v int, rep string, cfg solveCfg) {
	A := genMat(f.name, m, n, v)
	a := repGen(rep, A)
	var qr mat.QR
	if (m+n+v)%2 == 0 {
		qr.Factorize(genMat("dd", m+2, n+1, 0).dense())
		var q0 mat.Dense
		qr.QTo(&q0) // leaves a cached Q of the old size behind
	}
	qr.Factorize(a)
	if maxAbs(subM(fromMat(a), A)) != 0 {
		t.Failf("Factorize modified its argument")
	}
	t.Nontrivial()
	if r, c := qr.Dims(); r != m || c != n {
		t.Failf("Dims = %d,%d", r, c)
		return
	}
	fm := float64(m)
	// At before Q is formed (reflector path) and after (cached Q path)
	at1 := fromMat(&qr)
	var Q, R mat.Dense
	qr.QTo(&Q)
	qr.RTo(&R)
	at2 := fromMat(&qr)
	Qm, Rm := fromMat(&Q), fromMat(&R)
	if Qm.r != m || Qm.c != m || Rm.r != m || Rm.c != n {
		t.Failf("Q is %d×%d, R is %d×%d", Qm.r, Qm.c, Rm.r, Rm.c)
		return
	}
	for i := 0; i < m; i++ {
		for j := 0; j < n && j < i; j++ {
			if Rm.at(i, j) != 0 {
				t.Failf("R[%d,%d]=%v below the diagonal", i, j, Rm.at(i, j))
			}
		}
	}
	if r := orthoDefect(Qm) / (fm * eps); r > tolResid || math.IsNaN(r) {
		t.Failf("|QᵀQ-I|/(m·eps) = %.3g", r)
	}
	an := math.Max(maxAbs(A), math.SmallestNonzeroFloat64)
	// column-wise scaling: Householder QR is column-wise backward stable
	colScale := func(d *M) float64 {
		var worst float64
		for j := 0; j < n; j++ {
			var cn, dn float64
			for i := 0; i < m; i++ {
				cn = math.Max(cn, math.Abs(A.at(i, j)))
				dn = math.Max(dn, math.Abs(d.at(i, j)))
			}
			if cn == 0 {
				if dn != 0 {
					return math.Inf(1)
				}
				continue
			}
			worst = math.Max(worst, dn/cn)
		}
		return worst / (fm * eps)
	}
	_ = an
	if r := colScale(subM(mulM(Qm, Rm), A)); r > tolResid || math.IsNaN(r) {
		t.Failf("reconstruction ratio |A-QR| (column-wise) = %.3g A=%s", r, fmtM(A))
	}
	if r := colScale(subM(at1, A)); r > tolResid || math.IsNaN(r) {
		t.Failf("At (reflector path) ratio %.3g", r)
	}
	if r := colScale(subM(at2, A)); r > tolResid || math.IsNaN(r) {
		t.Failf("At (cached Q path) ratio %.3g", r)
	}
	// sized destinations
	Q2, R2 := mat.NewDense(m, m, nil), mat.NewDense(m, n, nil)
	for i := 0; i < m; i++ {
		for j := 0; j < n; j++ {
			R2.Set(i, j, vlib.Poison64(i+j))
		}
	}
	qr.QTo(Q2)
	qr.RTo(R2)
	if maxAbs(subM(fromMat(Q2), Qm)) != 0 {
		t.Failf("QTo into a sized destination differs from the empty-destination result")
	}
	if d := subM(fromMat(R2), Rm); maxAbs(d) != 0 {
		stale := true
		for i := 0; i < n; i++ {
			for j := 0; j < n; j++ {
				if d.at(i, j) != 0 {
					stale = false
				}
			}
		}
		if stale {
			finding(t, "RTo-sized", "qr-rto-sized-dst-stale-rows", "RTo into a non-empty %d×%d destination leaves rows %d..%d with their old contents: %s", m, n, n, m-1, fmtM(fromMat(R2)))
		} else {
			t.Failf("RTo into a sized destination differs from the empty-destination result")
		}
	}

	s := &solver{name: "QR", A: A, hasTrans: true, aliasOK: true, fullRank: f.full, exactSing: f.exactSing,
		solve: qr.SolveTo, solveVec: qr.SolveVecTo, cond: qr.Cond}
	s.prepare()
	top := newM(n, n)
	for i := 0; i < n; i++ {
		for j := 0; j < n; j++ {
			top.set(i, j, Rm.at(i, j))
		}
	}
	if f.full {
		// documented: the condition number of R
		if kr, ok := triCondRef(top); ok {
			condBand(t, "QR.Cond", qr.Cond(), kr, lowCond(v), 1.01)
		}
		t.Outcome("full")
	} else if f.exactSing {
		if !math.IsInf(qr.Cond(), 1) {
			t.Failf("Cond = %v for a matrix with a zero column, want +Inf", qr.Cond())
		}
		t.Outcome("zero-column")
	} else {
		if !(qr.Cond() >= 1e14) {
			t.Failf("Cond = %v for a rank-deficient matrix", qr.Cond())
		}
		t.Outcome("rankdef")
	}
	s.run(t, cfg)
	var R3 mat.Dense
	qr.RTo(&R3)
	if maxAbs(subM(fromMat(&R3), Rm)) != 0 {
		t.Failf("solves modified the factorization")
	}
}

func lqCase(t *vlib.T, m, n int, f famInfo, v int, rep string, cfg solveCfg) {
	A := genMat(f.name, m, n, v)
	a := repGen(rep, A)
	var lq mat.LQ
	lq.Factorize(a)
	if (m+n+v)%2 == 0 {
		// receiver reuse: a factorization of a different size is overwritten
		var w mat.LQ
		w.Factorize(genMat("dd", m+1, n+2, 0).dense())
		if msg := recoverMsg(func() { w.Factorize(a) }); msg != "" {
			finding(t, "reuse", "lq-refactorize-other-size-panics", "LQ.Factorize on a receiver holding a %d×%d factorization panics for a %d×%d matrix: %s", m+1, n+2, m, n, msg)
		} else {
			var l1, l2 mat.Dense
			lq.LTo(&l1)
			w.LTo(&l2)
			if maxAbs(subM(fromMat(&l1), fromMat(&l2))) != 0 {
				t.Failf("reused LQ receiver gives a different L")
			}
		}
	}
	if maxAbs(subM(fromMat(a), A)) != 0 {
		t.Failf("Factorize modified its argument")
	}
	t.Nontrivial()
	if r, c := lq.Dims(); r != m || c != n {
		t.Failf("Dims = %d,%d", r, c)
		return
	}
	fn := float64(n)
	var Q, L mat.Dense
	lq.QTo(&Q)
	lq.LTo(&L)
	Qm, Lm := fromMat(&Q), fromMat(&L)
	if Qm.r != n || Qm.c != n || Lm.r != m || Lm.c != n {
		t.Failf("Q is %d×%d, L is %d×%d", Qm.r, Qm.c, Lm.r, Lm.c)
		return
	}
	for i := 0; i < m; i++ {
		for j := i + 1; j < n; j++ {
			if Lm.at(i, j) != 0 {
				t.Failf("L[%d,%d]=%v above the diagonal", i, j, Lm.at(i, j))
			}
		}
	}
	if r := orthoDefect(Qm) / (fn * eps); r > tolResid || math.IsNaN(r) {
		t.Failf("|QᵀQ-I|/(n·eps) = %.3g", r)
	}
	rowScale := func(d *M) float64 {
		var worst float64
		for i := 0; i < m; i++ {
			var cn, dn float64
			for j := 0; j < n; j++ {
				cn = math.Max(cn, math.Abs(A.at(i, j)))
				dn = math.Max(dn, math.Abs(d.at(i, j)))
			}
			if cn == 0 {
				if dn != 0 {
					return math.Inf(1)
				}
				continue
			}
			worst = math.Max(worst, dn/cn)
		}
		return worst / (fn * eps)
	}
	if r := rowScale(subM(mulM(Lm, Qm), A)); r > tolResid || math.IsNaN(r) {
		t.Failf("reconstruction ratio |A-LQ| (row-wise) = %.3g A=%s", r, fmtM(A))
	}
	Q2, L2 := mat.NewDense(n, n, nil), mat.NewDense(m, n, nil)
	for i := 0; i < m; i++ {
		for j := 0; j < n; j++ {
			L2.Set(i, j, vlib.Poison64(i+j))
		}
	}
	lq.QTo(Q2)
	lq.LTo(L2)
	if maxAbs(subM(fromMat(Q2), Qm)) != 0 || maxAbs(subM(fromMat(L2), Lm)) != 0 {
		t.Failf("QTo/LTo into sized destinations differ from the empty-destination result")
	}

	s := &solver{name: "LQ", A: A, hasTrans: true, aliasOK: true, fullRank: f.full, exactSing: f.exactSing,
		solve: lq.SolveTo, solveVec: lq.SolveVecTo, cond: lq.Cond}
	s.prepare()
	left := newM(m, m)
	for i := 0; i < m; i++ {
		for j := 0; j < m; j++ {
			left.set(i, j, Lm.at(i, j))
		}
	}
	if f.full {
		if kl, ok := triCondRef(left); ok {
			condBand(t, "LQ.Cond", lq.Cond(), kl, lowCond(v), 1.01)
		}
		t.Outcome("full")
	} else if f.exactSing {
		if !math.IsInf(lq.Cond(), 1) {
			t.Failf("Cond = %v for a matrix with a zero row, want +Inf", lq.Cond())
		}
		t.Outcome("zero-row")
	} else {
		if !(lq.Cond() >= 1e14) {
			t.Failf("Cond = %v for a rank-deficient matrix", lq.Cond())
		}
		t.Outcome("rankdef")
	}
	s.run(t, cfg)
	var L3 mat.Dense
	lq.LTo(&L3)
	if maxAbs(subM(fromMat(&L3), Lm)) != 0 {
		t.Failf("solves modified the factorization")
	}
}
