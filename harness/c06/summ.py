#!/usr/bin/env python3
"""Development helper: summarise the VIOLATION lines of a `verif check` run read from stdin."""
import sys, re, collections
c = collections.Counter()
ex = {}
key = None
for line in sys.stdin:
    line = line.rstrip('\n')
    m = re.match(r'\s+\[(\S+) ([^\]]+)\] (.*)', line)
    if m:
        msg = m.group(3)
        k = re.sub(r'[-0-9.e+]+', '#', msg)[:90]
        c[k] += 1
        ex.setdefault(k, (m.group(2), msg[:900]))
    elif line.startswith('C06 '):
        print(line)
for k, n in c.most_common(40):
    print(n, k)
    print('     ', ex[k])
