package main

// Generic driver for SolveTo/SolveVecTo style methods: enumerates right-hand
// side shapes and representations, destination states and the transpose flag,
// and checks every answer against the definition (exact system, normal
// equations, minimum norm) and against an independent reference solution
// computed from a 320-bit pseudo-inverse.

import (
	"fmt"
	"math"
	"strings"

	"gonum.org/v1/gonum/internal/verif/vlib"
	"gonum.org/v1/gonum/mat"
)

// Fixed thresholds (see NOTES.md "Thresholds").
const (
	tolResid   = 100.0  // backward-error style ratios (LAPACK test style, bugs give >= 1e10)
	tolForward = 1000.0 // forward error in units of n·eps·kappa
	// a matrix with reference condition number below this must never draw a Condition error
	// (ConditionTolerance is 1e16 and the estimators are within a factor ~n of the truth)
	wellCond = 1e11
)

type solver struct {
	name     string
	A        *M   // the factorized matrix (m×n)
	hasTrans bool // the method has a trans flag
	aliasOK  bool // dst == b is supported
	solve    func(dst *mat.Dense, trans bool, b mat.Matrix) error
	solveVec func(dst *mat.VecDense, trans bool, b mat.Vector) error
	cond     func() float64 // reported condition number (nil if none)
	// expectation
	fullRank  bool // A has full rank min(m,n)
	exactSing bool // singular and the factorization breaks down exactly: error must be Condition(+Inf)
	// set by prepare
	pinv  *M
	kappa float64
}

func (s *solver) prepare() {
	if s.fullRank {
		p, ok := pinvRef(s.A)
		if !ok {
			panic("harness: family declared full rank is not: " + fmtM(s.A))
		}
		s.pinv = p
		s.kappa = normF(s.A) * normF(p)
	}
}

type solveCfg struct {
	nrhs    []int
	breps   []string
	vreps   []string
	dsts    []string
	variant int
}

func quickCfg(g *vlib.G) solveCfg {
	return solveCfg{
		nrhs:  vlib.Pick(g, []int{1, 2, 3, 4, 5, 6}, []int{1, 2, 3, 4, 5, 6, 7}),
		breps: []string{"dense", "view", "trans", "transview", "user"},
		vreps: vecReps,
		dsts:  dstKinds,
	}
}

// run enumerates and checks all solves for one factorization; returns the number of solves.
func (s *solver) run(t *vlib.T, cfg solveCfg) {
	transs := []bool{false}
	if s.hasTrans {
		transs = []bool{false, true}
	}
	var nsolve int64
	for _, trans := range transs {
		op := s.A
		var pinv *M
		if trans {
			op = s.A.T()
		}
		if s.pinv != nil {
			pinv = s.pinv
			if trans {
				pinv = s.pinv.T()
			}
		}
		for _, nrhs := range cfg.nrhs {
			bM := rhsMat(op.r, nrhs, cfg.variant+op.c)
			for _, brep := range cfg.breps {
				for _, dk := range cfg.dsts {
					if s.solve == nil {
						continue
					}
					b := repGen(brep, bM)
					var dst *mat.Dense
					var gd *guarded
					switch dk {
					case "empty":
						dst = &mat.Dense{}
					case "sized":
						d := make([]float64, op.c*nrhs)
						vlib.FillPoison64(d)
						dst = mat.NewDense(op.c, nrhs, d)
					case "sizedview":
						gd = newGuarded(op.c, nrhs, nil)
						dst = gd.view
					case "alias":
						bd, ok := b.(*mat.Dense)
						if !ok || !s.aliasOK || op.r != op.c {
							continue
						}
						dst = bd
					case "aliasT":
						// the right-hand side is the transpose VIEW of the destination itself: b = dst.T()
						if !s.aliasOK || op.r != op.c || nrhs != op.r || (brep != "dense" && brep != "view") {
							continue
						}
						dst = repGen(brep, bM.T()).(*mat.Dense)
						b = dst.T()
					}
					label := fmt.Sprintf("%s.SolveTo trans=%v nrhs=%d b=%s dst=%s", s.name, trans, nrhs, brep, dk)
					var err error
					if msg := recoverMsg(func() { err = s.solve(dst, trans, b) }); msg != "" {
						if dk == "aliasT" && strings.Contains(msg, "bad region") {
							// mat's documented reaction to overlapping operands it does not support (C05's
							// territory): an explicit refusal is fine, a silently wrong answer is not.
							t.Count("aliasT_refused_with_overlap_panic", 1)
							continue
						}
						t.Failf("%s: panic %q", label, msg)
						continue
					}
					nsolve++
					if gd != nil {
						if idx, ok := gd.paddingIntact(); !ok {
							t.Failf("%s: wrote outside dst view at backing index %d", label, idx)
						}
					}
					if dk != "alias" && dk != "aliasT" {
						// b must be unchanged
						if got := fromMat(b); maxAbs(subM(got, bM)) != 0 {
							t.Failf("%s: right-hand side was modified", label)
						}
					}
					s.checkX(t, label, op, pinv, bM, dst, err)
				}
			}
			if nrhs != 1 || s.solveVec == nil {
				continue
			}
			for _, vrep := range cfg.vreps {
				for _, dk := range cfg.dsts {
					b := repVec(vrep, bM.d)
					var dst *mat.VecDense
					var back *mat.Dense
					switch dk {
					case "empty":
						dst = &mat.VecDense{}
					case "sized":
						d := make([]float64, op.c)
						vlib.FillPoison64(d)
						dst = mat.NewVecDense(op.c, d)
					case "sizedview":
						d := make([]float64, op.c*3)
						vlib.FillPoison64(d)
						back = mat.NewDense(op.c, 3, d)
						dst = back.ColView(2).(*mat.VecDense)
					case "alias":
						bd, ok := b.(*mat.VecDense)
						if !ok || !s.aliasOK || op.r != op.c {
							continue
						}
						dst = bd
					case "aliasT":
						continue // matrices only
					}
					label := fmt.Sprintf("%s.SolveVecTo trans=%v b=%s dst=%s", s.name, trans, vrep, dk)
					var err error
					if msg := recoverMsg(func() { err = s.solveVec(dst, trans, b) }); msg != "" {
						t.Failf("%s: panic %q", label, msg)
						continue
					}
					nsolve++
					if back != nil {
						for i := 0; i < op.c; i++ {
							for j := 0; j < 2; j++ {
								if math.Float64bits(back.At(i, j)) != math.Float64bits(vlib.Poison64(i*3+j)) {
									t.Failf("%s: wrote outside the strided dst vector at (%d,%d)", label, i, j)
								}
							}
						}
					}
					if dk != "alias" {
						if got := fromMat(b); maxAbs(subM(got, bM)) != 0 {
							t.Failf("%s: right-hand side was modified", label)
						}
					}
					s.checkX(t, label, op, pinv, bM, dst, err)
				}
			}
		}
	}
	t.Count("solves", nsolve)
}

// checkX validates one solution of op·X = B (square: exact; tall: least
// squares; wide: minimum norm).
func (s *solver) checkX(t *vlib.T, label string, op, pinv, b *M, dst mat.Matrix, err error) {
	if !s.fullRank {
		if err == nil {
			c := math.Inf(1)
			if s.cond != nil {
				c = s.cond()
			}
			// rank-deficient input: a nil error is acceptable only in the documented
			// grey zone (reported condition number within a factor 10 of ConditionTolerance)
			// and never for a family that breaks down exactly.
			if s.exactSing || !(c >= 1e15) {
				t.Failf("%s: rank-deficient matrix %s solved with nil error (Cond()=%g)", label, fmtM(s.A), c)
			}
			return
		}
		ce, ok := err.(mat.Condition)
		if !ok {
			t.Failf("%s: error is %T %v, want mat.Condition", label, err, err)
			return
		}
		if s.exactSing && !math.IsInf(float64(ce), 1) {
			t.Failf("%s: exactly singular matrix gave Condition(%g), want +Inf", label, float64(ce))
		}
		return
	}
	if err != nil {
		if s.kappa < wellCond {
			t.Failf("%s: error %v for a matrix with reference condition number %.3g", label, err, s.kappa)
		}
		return
	}
	xr, xc := dst.Dims()
	if xr != op.c || xc != b.c {
		t.Failf("%s: result is %d×%d, want %d×%d", label, xr, xc, op.c, b.c)
		return
	}
	x := fromMat(dst)
	if hasNaN(x) {
		t.Failf("%s: result has NaN/Inf: %s", label, fmtM(x))
		return
	}
	nmax := float64(max(op.r, op.c))
	res := subM(mulM(op, x), b)
	scale := normF(op)*normF(x) + normF(b)
	if op.r <= op.c {
		// exact system (square or underdetermined)
		if r := maxAbs(res) / (nmax * eps * scale); r > tolResid {
			t.Failf("%s: residual ratio %.3g (|op·x-b|=%.3g) A=%s b=%s x=%s", label, r, maxAbs(res), fmtM(s.A), fmtM(b), fmtM(x))
			return
		}
	} else {
		// least squares: normal equations
		ne := mulM(op.T(), res)
		if r := maxAbs(ne) / (nmax * eps * normF(op) * scale); r > tolResid {
			t.Failf("%s: normal-equations ratio %.3g A=%s b=%s x=%s", label, r, fmtM(s.A), fmtM(b), fmtM(x))
			return
		}
	}
	// forward error against the reference solution
	xref := mulM(pinv, b)
	rref := subM(mulM(op, xref), b)
	bound := tolForward * nmax * eps * (s.kappa*normF(xref) + s.kappa*s.kappa*normF(rref)/normF(op))
	if bound > 1e-3*normF(xref) {
		t.Count("forward_checks_skipped_illcond", 1)
		return
	}
	if d := maxAbs(subM(x, xref)); d > bound {
		t.Failf("%s: |x-xref|=%.3g > %.3g (kappa %.3g) A=%s b=%s x=%s xref=%s", label, d, bound, s.kappa, fmtM(s.A), fmtM(b), fmtM(x), fmtM(xref))
	}
}
