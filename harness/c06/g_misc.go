package main

// Single-step contract checks for the update methods that the histories do not
// reach (argument representations, receiver states, alpha = 0).

import (
	"fmt"
	"math"
	"strings"

	"gonum.org/v1/gonum/internal/verif/vlib"
	"gonum.org/v1/gonum/mat"
)

func genUpdateMisc(g *vlib.G) {
	for n := 1; n <= vlib.Pick(g, 4, 6); n++ {
		for _, fam := range []string{"spd", "spd-dd"} {
			for _, alpha := range []float64{1, 2, -0.5, 0, -64} {
				for _, xrep := range []string{"vec", "vecinc", "uservec"} {
					for _, recv := range []string{"same", "empty", "reset", "other-same-size"} {
						n, fam, alpha, xrep, recv := n, fam, alpha, xrep, recv
						g.Case(fmt.Sprintf("SymRankOne n=%d fam=%s alpha=%g x=%s recv=%s", n, fam, alpha, xrep, recv), func(t *vlib.T) {
							symRankOneCase(t, n, fam, alpha, xrep, recv)
						})
					}
				}
			}
		}
		// ExtendVecSym and boundary downdates on matrices whose factors are exact (identity, diagonal of
		// perfect squares / powers of four) and on a generic SPD matrix
		for _, fam := range []string{"ident", "sqdiag", "pow4diag", "spd"} {
			for j := 0; j < n; j++ {
				for _, kind := range []string{"dup", "dup+1", "dup-1", "dup+tiny"} {
					for _, vrep := range []string{"vec", "vecinc", "uservec"} {
						for _, recv := range []string{"same", "empty", "other-same-size"} {
							n, fam, j, kind, vrep, recv := n, fam, j, kind, vrep, recv
							g.Case(fmt.Sprintf("ExtendVecSym n=%d fam=%s col=%d v=%s rep=%s recv=%s", n, fam, j, kind, vrep, recv), func(t *vlib.T) {
								extendCase(t, n, fam, j, kind, vrep, recv)
							})
						}
					}
				}
				for _, recv := range []string{"same", "empty", "other-same-size"} {
					n, fam, j, recv := n, fam, j, recv
					g.Case(fmt.Sprintf("SymRankOne-boundary n=%d fam=%s col=%d recv=%s", n, fam, j, recv), func(t *vlib.T) {
						boundaryDowndateCase(t, n, fam, j, recv)
					})
				}
			}
		}
		for _, fam := range []string{"spd", "spd-dd"} {
			for _, f := range []float64{2, 0.5, 3} {
				for _, recv := range []string{"same", "empty", "reset", "other-same-size"} {
					n, fam, f, recv := n, fam, f, recv
					g.Case(fmt.Sprintf("Scale n=%d fam=%s f=%g recv=%s", n, fam, f, recv), func(t *vlib.T) {
						scaleCase(t, n, fam, f, recv)
					})
				}
			}
		}
	}
}

func cholOf(t *vlib.T, a *M) *mat.Cholesky {
	var c mat.Cholesky
	if !c.Factorize(repSym("sym", a)) {
		t.Failf("harness: factorization of %s failed", fmtM(a))
	}
	return &c
}

func makeRecv(t *vlib.T, kind string, orig *mat.Cholesky, n int) *mat.Cholesky {
	switch kind {
	case "same":
		return orig
	case "empty":
		return new(mat.Cholesky)
	case "reset":
		c := cholOf(t, symMat("spd", n+1, 2))
		c.Reset()
		return c
	case "other-same-size":
		return cholOf(t, symMat("spd-dd", n, 5))
	}
	panic(kind)
}

func symRankOneCase(t *vlib.T, n int, fam string, alpha float64, xrep, recvKind string) {
	A := symMat(fam, n, 0)
	orig := cholOf(t, A)
	recv := makeRecv(t, recvKind, orig, n)
	x := vecAlt(n)
	if n > 1 {
		x[1] = 2
	}
	t.Nontrivial()
	var recvBefore *M
	var recvCondBefore float64
	if recvKind == "other-same-size" || recvKind == "same" {
		var u mat.TriDense
		recv.UTo(&u)
		recvBefore = fromMat(&u)
		recvCondBefore = recv.Cond()
	}
	A2 := A.clone()
	for i := 0; i < n; i++ {
		for j := 0; j < n; j++ {
			A2.add(i, j, alpha*x[i]*x[j])
		}
	}
	sign, _ := ratElim(A2) // A positive definite: A2 is positive definite iff det > 0
	var ok bool
	if msg := recoverMsg(func() { ok = recv.SymRankOne(orig, alpha, repVec(xrep, x)) }); msg != "" {
		switch {
		case xrep == "uservec" && alpha != 0 && strings.Contains(msg, "nil pointer"):
			finding(t, "x-not-rawvectorer", "cholesky-symrankone-generic-vector-nil-deref",
				"SymRankOne with a Vector that is not a RawVectorer panics: %s", msg)
		case recvKind == "reset" && strings.Contains(msg, "dimension mismatch"):
			// documented: "panics ... if the receiver is non-empty and is of a different size": a Reset receiver is empty
			finding(t, "reset-receiver", "cholesky-update-reset-receiver-panics",
				"SymRankOne into a Reset (empty) receiver panics: %s", msg)
		default:
			t.Failf("SymRankOne panicked: %s", msg)
		}
		t.Outcome("panic")
		return
	}
	if sign == 0 {
		t.Outcome("singular-dontcare")
		return
	}
	if ok != (sign > 0) {
		t.Failf("SymRankOne returned %v, updated matrix %s has det sign %d", ok, fmtM(A2), sign)
		return
	}
	if !ok {
		t.Outcome("rejected")
		// "If the update fails the receiver is left unchanged."
		switch recvKind {
		case "same", "other-same-size":
			var u mat.TriDense
			recv.UTo(&u)
			if maxAbs(subM(fromMat(&u), recvBefore)) != 0 || recv.Cond() != recvCondBefore {
				cls := ""
				if recvKind == "other-same-size" {
					cls = "cholesky-failed-update-fills-receiver"
				}
				finding(t, "failed-update", cls, "failed SymRankOne changed the receiver (%s): U %s -> %s, Cond %v -> %v", recvKind, fmtM(recvBefore), fmtM(fromMat(&u)), recvCondBefore, recv.Cond())
			}
		default:
			if !recv.IsEmpty() {
				finding(t, "failed-update", "cholesky-failed-update-fills-receiver", "failed SymRankOne into an empty receiver left it non-empty")
			}
		}
		return
	}
	t.Outcome("applied")
	checkCholAgainst(t, map[bool]string{true: "SymRankOne(alpha=0)", false: "SymRankOne"}[alpha == 0], recv, A2, alpha == 0 && recvKind != "same")
}

// checkCholAgainst compares a factorization object with the exactly known matrix.
func checkCholAgainst(t *vlib.T, what string, c *mat.Cholesky, A *M, condCopied bool) {
	n := A.r
	fn := float64(n)
	if c.SymmetricDim() != n {
		t.Failf("%s: size %d want %d", what, c.SymmetricDim(), n)
		return
	}
	var U mat.TriDense
	c.UTo(&U)
	Um := fromMat(&U)
	if r := maxAbs(subM(mulM(Um.T(), Um), A)) / (fn * eps * fn * maxAbs(A)); r > tolResid || math.IsNaN(r) {
		t.Failf("%s: reconstruction ratio %.3g, want %s", what, r, fmtM(A))
		return
	}
	var fresh mat.Cholesky
	if !fresh.Factorize(repSym("sym", A)) {
		t.Failf("%s: fresh factorization failed", what)
		return
	}
	inv, det, _ := invF64(A)
	kappa := normInf(A) * normInf(inv)
	cc, fc := c.Cond(), fresh.Cond()
	// lower bound: only gross errors (see lowCond); sharpness comes from the exact comparison below
	viaOK := true
	if !condCopied && what != "Scale" && what != "SymRankOne(alpha=0)" {
		// computed from the factor alone, exactly as SetFromU does for the same factor
		var viaU mat.Cholesky
		viaU.SetFromU(c.RawU())
		viaOK = viaU.Cond() == cc
	}
	if !(cc >= kappa/100 && cc <= 1.01*fn*kappa) || !viaOK {
		cls := ""
		if (cc == 0 || math.IsInf(cc, 1)) && condCopied {
			// stale value: 0 in a new receiver, +Inf in a Reset one
			cls = "cholesky-symrankone-alpha0-cond-not-set"
		}
		finding(t, "cond", cls, "%s: Cond = %v, reference %v (fresh factorization %v)", what, cc, kappa, fc)
	}
	if !relClose(c.Det(), det, tolForward*fn*eps*kappa) {
		t.Failf("%s: Det = %v want %v", what, c.Det(), det)
	}
}

func scaleCase(t *vlib.T, n int, fam string, f float64, recvKind string) {
	A := symMat(fam, n, 0)
	orig := cholOf(t, A)
	recv := makeRecv(t, recvKind, orig, n)
	condBefore := orig.Cond()
	t.Nontrivial()
	if msg := recoverMsg(func() { recv.Scale(f, orig) }); msg != "" {
		if recvKind == "reset" {
			finding(t, "reset-receiver", "cholesky-update-reset-receiver-panics", "Scale into a Reset (empty) receiver panics: %s", msg)
		} else {
			t.Failf("Scale panicked: %s", msg)
		}
		t.Outcome("panic")
		return
	}
	t.Outcome("applied")
	// documented in the source: scaling does not change the condition number
	if recv.Cond() != condBefore {
		t.Failf("Scale: Cond %v -> %v", condBefore, recv.Cond())
	}
	checkCholAgainst(t, "Scale", recv, scaleM(f, A), false)
	mustPanic(t, "Scale by 0", func() { new(mat.Cholesky).Scale(0, orig) })
	mustPanic(t, "Scale by -1", func() { new(mat.Cholesky).Scale(-1, orig) })
}

// exactFam returns a matrix of a family whose Cholesky factor is exactly
// representable and computed without rounding (exact == true), or a generic SPD matrix.
func exactFam(fam string, n int) (A *M, exact bool) {
	switch fam {
	case "ident":
		return eyeM(n), true
	case "sqdiag":
		A = newM(n, n)
		for i := 0; i < n; i++ {
			A.set(i, i, float64((i+2)*(i+2)))
		}
		return A, true
	case "pow4diag":
		A = newM(n, n)
		for i := 0; i < n; i++ {
			A.set(i, i, math.Ldexp(1, 2*(i%3+1)))
		}
		return A, true
	}
	return symMat(fam, n, 0), false
}

// extendCase: v = (A[:,j], A[j,j] + delta): delta = 0 makes the extended matrix exactly
// singular (two equal rows), delta > 0 positive definite, delta < 0 indefinite.
func extendCase(t *vlib.T, n int, fam string, j int, kind, vrep, recvKind string) {
	A, exact := exactFam(fam, n)
	orig := cholOf(t, A)
	recv := makeRecv(t, recvKind, orig, n)
	delta := map[string]float64{"dup": 0, "dup+1": 1, "dup-1": -1, "dup+tiny": math.Ldexp(1, -20)}[kind]
	v := append(A.col(j), A.at(j, j)+delta)
	t.Nontrivial()
	var before *M
	var condBefore float64
	if recvKind != "empty" {
		var u mat.TriDense
		recv.UTo(&u)
		before, condBefore = fromMat(&u), recv.Cond()
	}
	var ok bool
	if msg := recoverMsg(func() { ok = recv.ExtendVecSym(orig, repVec(vrep, v)) }); msg != "" {
		t.Failf("ExtendVecSym panicked: %s", msg)
		return
	}
	unchanged := func() {
		// "ExtendVecSym will return false and the receiver will not be updated"
		if recvKind == "empty" {
			if !recv.IsEmpty() {
				t.Failf("rejected ExtendVecSym left an empty receiver non-empty")
			}
			return
		}
		var u mat.TriDense
		recv.UTo(&u)
		if maxAbs(subM(fromMat(&u), before)) != 0 || recv.Cond() != condBefore {
			t.Failf("rejected ExtendVecSym changed the receiver (%s)", recvKind)
		}
	}
	switch {
	case delta == 0:
		switch {
		case !ok:
			t.Outcome("singular-rejected")
			unchanged()
		case exact:
			// k == wᵀA⁻¹w holds in floating point too: documented to return false
			t.Failf("ExtendVecSym(%v) of %s: the extended matrix is exactly singular (k = wᵀA⁻¹w) but true was returned (%s)", v, fmtM(A), badDiag(recv))
		default:
			t.Outcome("singular-accepted-by-rounding")
			if bad := badDiag(recv); bad != "" {
				t.Failf("ExtendVecSym(%v) of %s is exactly singular but returned true with %s", v, fmtM(A), bad)
			}
		}
	case delta < 0:
		t.Outcome("indefinite-rejected")
		if ok {
			t.Failf("ExtendVecSym(%v) of %s returned true for an indefinite extension", v, fmtM(A))
			return
		}
		unchanged()
	default:
		t.Outcome("applied")
		if !ok {
			t.Failf("ExtendVecSym(%v) of %s returned false for a positive definite extension", v, fmtM(A))
			return
		}
		ext := newM(n+1, n+1)
		for i := 0; i < n; i++ {
			for k := 0; k < n; k++ {
				ext.set(i, k, A.at(i, k))
			}
			ext.set(i, n, v[i])
			ext.set(n, i, v[i])
		}
		ext.set(n, n, v[n])
		if delta >= 1 {
			checkCholAgainst(t, "ExtendVecSym", recv, ext, false)
		} else {
			// nearly singular (Schur complement 2^-20): reconstruction only
			var U mat.TriDense
			recv.UTo(&U)
			Um := fromMat(&U)
			if r := maxAbs(subM(mulM(Um.T(), Um), ext)) / (float64(n+1) * eps * float64(n+1) * maxAbs(ext)); r > tolResid || math.IsNaN(r) {
				t.Failf("ExtendVecSym: reconstruction ratio %.3g", r)
			}
			if bad := badDiag(recv); bad != "" {
				t.Failf("ExtendVecSym: %s", bad)
			}
		}
	}
}

// boundaryDowndateCase: A - a_j a_jᵀ/a_jj has a zero j-th row and column:
// 1 + alpha xᵀA⁻¹x == 0 exactly, so the downdate must be rejected.
func boundaryDowndateCase(t *vlib.T, n int, fam string, j int, recvKind string) {
	A, exact := exactFam(fam, n)
	if fam == "sqdiag" {
		exact = false // alpha = -1/9 ... is not representable
	}
	orig := cholOf(t, A)
	recv := makeRecv(t, recvKind, orig, n)
	x := A.col(j)
	alpha := -1 / A.at(j, j)
	t.Nontrivial()
	var before *M
	var condBefore float64
	if recvKind != "empty" {
		var u mat.TriDense
		recv.UTo(&u)
		before, condBefore = fromMat(&u), recv.Cond()
	}
	var ok bool
	if msg := recoverMsg(func() { ok = recv.SymRankOne(orig, alpha, mat.NewVecDense(n, x)) }); msg != "" {
		t.Failf("SymRankOne panicked: %s", msg)
		return
	}
	if ok {
		if exact {
			t.Failf("SymRankOne(%g, %v) on %s gives an exactly singular matrix (1 + alpha xᵀA⁻¹x = 0) but returned true (%s)", alpha, x, fmtM(A), badDiag(recv))
			return
		}
		t.Outcome("singular-accepted-by-rounding")
		if bad := badDiag(recv); bad != "" {
			t.Failf("SymRankOne(%g, %v) on %s is exactly singular but returned true with %s", alpha, x, fmtM(A), bad)
		}
		return
	}
	t.Outcome("singular-rejected")
	// "If the update fails the receiver is left unchanged."
	switch recvKind {
	case "same":
		var u mat.TriDense
		recv.UTo(&u)
		if maxAbs(subM(fromMat(&u), before)) != 0 || recv.Cond() != condBefore {
			t.Failf("rejected SymRankOne changed the receiver (in place)")
		}
	case "other-same-size":
		var u mat.TriDense
		recv.UTo(&u)
		if maxAbs(subM(fromMat(&u), before)) != 0 || recv.Cond() != condBefore {
			finding(t, "failed-update", "cholesky-failed-update-fills-receiver", "rejected SymRankOne changed the receiver (other factorization of the same size)")
		}
	default:
		if !recv.IsEmpty() {
			finding(t, "failed-update", "cholesky-failed-update-fills-receiver", "rejected SymRankOne into an empty receiver left it non-empty")
		}
	}
}
