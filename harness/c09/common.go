package main

import (
	"fmt"
	"os"
	"runtime"
	"strings"
	"time"

	"gonum.org/v1/gonum/internal/verif/vlib"
	"gonum.org/v1/gonum/internal/verif/vsched"
)

// plan is one (default scheduler, bound) combination of an exploration.
type plan struct {
	policy int
	bound  vsched.Bound
	name   string
}

func execBudget(g *vlib.G) int { return vlib.Pick(g, 24000, 400000) }

// explore runs body under every plan. check receives the execution and must
// return "" when the property holds for that schedule; it is only consulted
// for executions whose outcome is "ok" unless allowOutcome accepts another one.
func explore(t *vlib.T, g *vlib.G, small bool, body func(), check func(x *vsched.Exec) string) {
	if raceMode {
		// companion pass: the same bodies, un-instrumented, free-running under the race detector.
		reps := vlib.Pick(g, 15, 150)
		for r := 0; r < reps; r++ {
			e, hung := vlib.RunWithWatchdog(body, 150*time.Second)
			if e != nil {
				panic(e)
			}
			if hung {
				// bodies take milliseconds; the deterministic pass is the deciding one for deadlocks,
				// this only catches a hang outside its bounds.
				t.NoConfirm()
				t.FailClass("free-running-hang", "free-running repetition %d did not return within 150 s", r)
				return
			}
			if msg := check(&vsched.Exec{Outcome: "ok"}); msg != "" {
				t.Failf("free-running repetition %d: %s", r, msg)
				break
			}
		}
		t.Count("free_running_repetitions", int64(reps))
		t.Nontrivial()
		t.Outcome("race-pass")
		return
	}
	defer func() {
		if e := recover(); e != nil {
			if ee, ok := e.(vsched.EngineError); ok {
				// engine inconsistencies are never reported as violations
				panic("ENGINE: " + string(ee))
			}
			panic(e)
		}
	}()
	outcomes := map[string]int{}
	x0 := vsched.Run(body, vsched.Options{})
	// Iterative bounding: for each cost model / default scheduler the bound is raised
	// (1, 2, 3, ...) while the exploration completes within this scenario's share of the
	// execution budget; the completed bound is reported, a capped level is not counted as covered.
	families := []struct {
		name   string
		policy int
		pre    bool
	}{{"pb/lowest", 0, true}, {"db/lowest", 0, false}, {"db/highest", 1, false}, {"db/roundrobin", 2, false}}
	share := execBudget(g) / len(families)
	detail := map[string]any{}
	failed := false
	for _, f := range families {
		completed := 0
		spent := 0
		for n := 1; n <= 6 && !failed; n++ {
			b := vsched.Bound{Preemptions: -1, Delays: -1, MaxExecs: share - spent}
			if f.pre {
				b.Preemptions = n
			} else {
				b.Delays = n
			}
			st, v := vsched.Explore(body, vsched.Options{DefaultPolicy: f.policy}, b, func(x *vsched.Exec) string {
				if x.Outcome != "ok" {
					return "schedule ends in " + x.Outcome
				}
				return check(x)
			})
			spent += st.Executions
			t.Count("schedules", int64(st.Executions))
			t.Count("traces_validated_against_impl", int64(st.Executions))
			t.Count("transitions", st.Transitions)
			t.Max("points_per_execution", int64(st.MaxPoints))
			t.Max("goroutines", int64(st.MaxGoroutines))
			for k, c := range st.Outcomes {
				outcomes[k] += c
			}
			if v != nil {
				failed = true
				name := fmt.Sprintf("%s bound=%d", f.name, n)
				t.SubViolation(" plan="+name+" schedule="+fmt.Sprint(v.Choices), "schedule", map[string]any{"plan": name, "choices": v.Choices, "trace_tail": tail(v.Trace, 80)}, "%s [plan %s, schedule %v, %d steps; trace tail: %s]", v.Msg, name, v.Choices, len(v.Trace), strings.Join(tail(v.Trace, 14), "; "))
				break
			}
			if st.CapHit {
				break
			}
			completed = n
			// "states": distinct operation traces of the deepest completed level of this family
			detail[f.name] = map[string]any{"completed_bound": n, "executions": st.Executions, "distinct_traces": st.DistinctTraces, "points_min": st.MinPoints, "points_max": st.MaxPoints}
			if st.Executions == 1 || st.Executions*6 > share-spent {
				break
			}
		}
		if d, ok := detail[f.name].(map[string]any); ok {
			t.Count("states", int64(d["distinct_traces"].(int)))
		}
		t.Count(fmt.Sprintf("scenarios_with_%s_completed_bound_%d", f.name, completed), 1)
		if completed == 0 && !failed && !f.pre {
			// the declared space of the check is "delay bound >= 1 under each default scheduler";
			// the preemption-bounded family is reported (counters) but optional.
			t.Incomplete("delay bound 1 of " + f.name + " hit the execution cap")
		}
		if failed {
			break
		}
	}
	detail["decisions_default_schedule"] = len(x0.Decisions)
	t.Detail(detail)
	t.Nontrivial()
	ks := vlib.SortedKeys(outcomes)
	t.Outcome(strings.Join(ks, "|"))
}

// raceMode is set for the free-running -race companion configuration.
var raceMode = os.Getenv("VERIF_RACE") == "1"

var yieldCtr int

// point is a scheduling point in a user callback: under the scheduler a real
// choice point, in the free-running pass an occasional yield.
func point(what string) {
	if raceMode {
		n := 0
		vlib.Atomically(func() { yieldCtr++; n = yieldCtr })
		if n%3 == 0 {
			runtime.Gosched()
		}
		return
	}
	vsched.Point(what)
}

func tail(s []string, n int) []string {
	if len(s) > n {
		return s[len(s)-n:]
	}
	return s
}
