package main

import (
	"fmt"
	"strings"

	"gonum.org/v1/gonum/internal/verif/vlib"
	"gonum.org/v1/gonum/internal/verif/vsched"
)

// plan is one (default scheduler, bound) combination of an exploration.
type plan struct {
	policy int
	bound  vsched.Bound
	name   string
}

func plans(g *vlib.G, small bool) []plan {
	if g.Thorough() {
		ps := []plan{
			{0, vsched.Bound{Preemptions: 2, Delays: -1, MaxExecs: 400000}, "pb2/lowest"},
			{0, vsched.Bound{Preemptions: -1, Delays: 3, MaxExecs: 400000}, "db3/lowest"},
			{1, vsched.Bound{Preemptions: -1, Delays: 3, MaxExecs: 400000}, "db3/highest"},
			{2, vsched.Bound{Preemptions: -1, Delays: 3, MaxExecs: 400000}, "db3/roundrobin"},
		}
		if small {
			ps = append(ps, plan{0, vsched.Bound{Preemptions: 3, Delays: -1, MaxExecs: 400000}, "pb3/lowest"})
		}
		return ps
	}
	ps := []plan{
		{0, vsched.Bound{Preemptions: 1, Delays: -1, MaxExecs: 60000}, "pb1/lowest"},
		{0, vsched.Bound{Preemptions: -1, Delays: 2, MaxExecs: 60000}, "db2/lowest"},
		{1, vsched.Bound{Preemptions: -1, Delays: 2, MaxExecs: 60000}, "db2/highest"},
		{2, vsched.Bound{Preemptions: -1, Delays: 2, MaxExecs: 60000}, "db2/roundrobin"},
	}
	if small {
		ps = append(ps, plan{0, vsched.Bound{Preemptions: 2, Delays: -1, MaxExecs: 60000}, "pb2/lowest"})
	}
	return ps
}

// explore runs body under every plan. check receives the execution and must
// return "" when the property holds for that schedule; it is only consulted
// for executions whose outcome is "ok" unless allowOutcome accepts another one.
func explore(t *vlib.T, g *vlib.G, small bool, body func(), check func(x *vsched.Exec) string) {
	defer func() {
		if e := recover(); e != nil {
			if ee, ok := e.(vsched.EngineError); ok {
				// engine inconsistencies are never reported as violations
				panic("ENGINE: " + string(ee))
			}
			panic(e)
		}
	}()
	outcomes := map[string]int{}
	for _, p := range plans(g, small) {
		st, v := vsched.Explore(body, vsched.Options{DefaultPolicy: p.policy}, p.bound, func(x *vsched.Exec) string {
			if x.Outcome != "ok" {
				return "schedule ends in " + x.Outcome
			}
			return check(x)
		})
		t.Count("schedules", int64(st.Executions))
		t.Count("traces_validated_against_impl", int64(st.Executions))
		t.Count("transitions", st.Transitions)
		t.Count("states", int64(st.DistinctTraces))
		t.Max("points_per_execution", int64(st.MaxPoints))
		t.Max("goroutines", int64(st.MaxGoroutines))
		if st.CapHit {
			t.Count("plans_capped", 1)
		} else {
			t.Count("plans_completed", 1)
		}
		for k, n := range st.Outcomes {
			outcomes[k] += n
		}
		if v != nil {
			tr := v.Trace
			if len(tr) > 80 {
				tr = tr[len(tr)-80:]
			}
			t.SubViolation(" plan="+p.name+" schedule="+fmt.Sprint(v.Choices), "schedule", map[string]any{"plan": p.name, "choices": v.Choices, "trace_tail": tr}, "%s [plan %s, schedule %v, %d steps; trace tail: %s]", v.Msg, p.name, v.Choices, len(v.Trace), strings.Join(tail(v.Trace, 14), "; "))
			break
		}
		t.Detail(map[string]any{"last_plan": p.name, "executions": st.Executions, "distinct_traces": st.DistinctTraces, "points_min": st.MinPoints, "points_max": st.MaxPoints, "max_live_goroutines": st.MaxLive})
	}
	t.Nontrivial()
	ks := vlib.SortedKeys(outcomes)
	t.Outcome(strings.Join(ks, "|"))
}

func tail(s []string, n int) []string {
	if len(s) > n {
		return s[len(s)-n:]
	}
	return s
}
