package main

import (
	"fmt"
	"hash"
	"hash/fnv"
	"math"
	"sync"

	"gonum.org/v1/gonum/internal/verif/vlib"
	"gonum.org/v1/gonum/internal/verif/vsched"
	"gonum.org/v1/gonum/mat"
	"gonum.org/v1/gonum/stat/card"
	"gonum.org/v1/gonum/stat/distmat"
	"gonum.org/v1/gonum/unit"
)

// vsyncWG is sync.WaitGroup (rewritten to the vsync twin by the instrumenter).
type vsyncWG = sync.WaitGroup

var symCounter int

func genLazy(g *vlib.G) {
	g.Case("Wishart once from 2 goroutines", func(t *vlib.T) {
		v := mat.NewSymDense(2, []float64{4, 1, 1, 3})
		x := mat.NewSymDense(2, []float64{2, 0.5, 0.5, 1})
		ref, _ := distmat.NewWishart(v, 3, nil)
		wantLP := ref.LogProbSym(x)
		var wantMean mat.SymDense
		ref.MeanSymTo(&wantMean)
		var lp float64
		var mean mat.SymDense
		body := func() {
			w, ok := distmat.NewWishart(v, 3, nil)
			if !ok {
				panic("not PD")
			}
			mean = mat.SymDense{}
			var wg sync.WaitGroup
			wg.Add(2)
			go func() { defer wg.Done(); lp = w.LogProbSym(x) }()
			go func() { defer wg.Done(); w.MeanSymTo(&mean) }()
			wg.Wait()
		}
		explore(t, g, true, body, func(x *vsched.Exec) string {
			if math.Float64bits(lp) != math.Float64bits(wantLP) {
				return fmt.Sprintf("LogProbSym %v != %v", lp, wantLP)
			}
			if !mat.Equal(&mean, &wantMean) {
				return "MeanSymTo differs from the serial result"
			}
			return ""
		})
	})
	// every goroutine needs the lazily built covariance matrix of one shared, fresh distribution
	for _, n := range []int{2, 3} {
		n := n
		g.Case(fmt.Sprintf("Wishart first MeanSymTo from %d goroutines", n), func(t *vlib.T) {
			dim := 6
			v := mat.NewSymDense(dim, nil)
			for i := 0; i < dim; i++ {
				for j := i; j < dim; j++ {
					v.SetSym(i, j, float64((i*3+j)%4))
				}
				v.SetSym(i, i, float64(20+i))
			}
			ref, ok := distmat.NewWishart(v, 9, nil)
			if !ok {
				panic("not PD")
			}
			var want mat.SymDense
			ref.MeanSymTo(&want)
			means := make([]mat.SymDense, n)
			body := func() {
				w, _ := distmat.NewWishart(v, 9, nil)
				var wg sync.WaitGroup
				wg.Add(n)
				for k := 0; k < n; k++ {
					k := k
					means[k] = mat.SymDense{}
					go func() { defer wg.Done(); w.MeanSymTo(&means[k]) }()
				}
				wg.Wait()
			}
			explore(t, g, true, body, func(x *vsched.Exec) string {
				for k := range means {
					if !mat.Equal(&means[k], &want) {
						return fmt.Sprintf("MeanSymTo in goroutine %d differs from the serial result", k)
					}
				}
				return ""
			})
		})
	}
	g.Case("card.RegisterHash || Marshal/Unmarshal", func(t *vlib.T) {
		var errs [2]error
		var counts [2]float64
		body := func() {
			var wg sync.WaitGroup
			wg.Add(2)
			for k := 0; k < 2; k++ {
				k := k
				go func() {
					defer wg.Done()
					card.RegisterHash(func() hash.Hash32 { return fnv.New32a() })
					h, err := card.NewHyperLogLog32(4, fnv.New32a())
					if err != nil {
						errs[k] = err
						return
					}
					h.Write([]byte{byte(k), 1, 2})
					h.Write([]byte("abc"))
					b, err := h.MarshalBinary()
					if err != nil {
						errs[k] = err
						return
					}
					var h2 card.HyperLogLog32
					if err := h2.UnmarshalBinary(b); err != nil {
						errs[k] = err
						return
					}
					counts[k] = h2.Count() - h.Count()
				}()
			}
			wg.Wait()
		}
		explore(t, g, true, body, func(x *vsched.Exec) string {
			for k := 0; k < 2; k++ {
				if errs[k] != nil {
					return fmt.Sprintf("goroutine %d: %v", k, errs[k])
				}
				if counts[k] != 0 {
					return "decoded sketch count differs"
				}
			}
			return ""
		})
	})
	g.Case("unit.NewDimension of the same symbol from 2 goroutines", func(t *vlib.T) {
		var okCount, panics int
		body := func() {
			symCounter++
			sym := fmt.Sprintf("vdup%d", symCounter)
			okCount, panics = 0, 0
			var wg sync.WaitGroup
			wg.Add(2)
			for k := 0; k < 2; k++ {
				go func() {
					defer wg.Done()
					defer func() {
						if recover() != nil {
							vlib.Atomically(func() { panics++ })
						}
					}()
					unit.NewDimension(sym)
					vlib.Atomically(func() { okCount++ })
				}()
			}
			wg.Wait()
		}
		explore(t, g, true, body, func(x *vsched.Exec) string {
			if okCount != 1 || panics != 1 {
				return fmt.Sprintf("registering one new symbol twice: %d calls succeeded and %d panicked; documented: exactly one succeeds, the other panics", okCount, panics)
			}
			return ""
		})
	})
	g.Case("card sketches restored from bytes, written from 2 goroutines", func(t *vlib.T) {
		// each goroutine restores its own sketch into a zero receiver (the hash comes from the registry)
		// and keeps writing to it; the hash's Write is a user callback with a scheduling point.
		card.RegisterHash(func() hash.Hash32 { return &pointHash32{Hash32: fnv.New32a()} })
		h0, err := card.NewHyperLogLog32(4, &pointHash32{Hash32: fnv.New32a()})
		if err != nil {
			panic(err)
		}
		h0.Write([]byte("seed"))
		enc, err := h0.MarshalBinary()
		if err != nil {
			panic(err)
		}
		words := [2][]string{{"a", "bb", "ccc", "dddd"}, {"zz", "y", "xxxx", "www"}}
		serial := func(k int) float64 {
			var h card.HyperLogLog32
			if err := h.UnmarshalBinary(enc); err != nil {
				panic(err)
			}
			for _, w := range words[k] {
				h.Write([]byte(w))
			}
			return h.Count()
		}
		want := [2]float64{serial(0), serial(1)}
		var got [2]float64
		body := func() {
			var wg sync.WaitGroup
			wg.Add(2)
			for k := 0; k < 2; k++ {
				k := k
				go func() { defer wg.Done(); got[k] = serial(k) }()
			}
			wg.Wait()
		}
		explore(t, g, false, body, func(x *vsched.Exec) string {
			for k := 0; k < 2; k++ {
				if got[k] != want[k] {
					return fmt.Sprintf("sketch %d restored from bytes counts %v when another restored sketch is written concurrently, %v alone", k, got[k], want[k])
				}
			}
			return ""
		})
	})
	g.Case("unit.NewDimension || Dimension.String", func(t *vlib.T) {
		var names [2]string
		var want [2]string
		body := func() {
			symCounter++
			base := fmt.Sprintf("vq%d", symCounter)
			var wg sync.WaitGroup
			wg.Add(2)
			for k := 0; k < 2; k++ {
				k := k
				want[k] = fmt.Sprintf("%s_%d", base, k)
				go func() {
					defer wg.Done()
					d := unit.NewDimension(want[k])
					_ = unit.LengthDim.String()
					names[k] = d.String()
				}()
			}
			wg.Wait()
		}
		explore(t, g, true, body, func(x *vsched.Exec) string {
			for k := 0; k < 2; k++ {
				if names[k] != want[k] {
					return fmt.Sprintf("dimension %d prints %q, want %q", k, names[k], want[k])
				}
			}
			return ""
		})
	})
}

// pointHash32 is a user hash whose Write is a scheduling point (a user callback).
type pointHash32 struct{ hash.Hash32 }

func (p *pointHash32) Write(b []byte) (int, error) {
	point("hash.Write")
	return p.Hash32.Write(b)
}
