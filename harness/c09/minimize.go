package main

import (
	"errors"
	"fmt"
	"math"
	"math/rand/v2"

	"gonum.org/v1/gonum/internal/verif/vlib"
	"gonum.org/v1/gonum/internal/verif/vsched"
	"gonum.org/v1/gonum/mat"
	"gonum.org/v1/gonum/optimize"
)

// fixedRander hands out a fixed cycle of integer points.
type fixedRander struct{ k int }

func (r *fixedRander) Rand(x []float64) []float64 {
	if x == nil {
		x = make([]float64, 2)
	}
	for i := range x {
		x[i] = float64((r.k*3+i*2)%7 - 3)
	}
	r.k++
	return x
}

// quad2 is a strictly convex integer quadratic with minimiser (1,-1).
func quad2(x []float64) float64 {
	a, b := x[0]-1, x[1]+1
	return 2*a*a + a*b + 3*b*b
}

func quad2Grad(g, x []float64) {
	a, b := x[0]-1, x[1]+1
	g[0] = 4*a + b
	g[1] = a + 6*b
}

type stopCause struct {
	name string
	set  func(s *optimize.Settings, p *optimize.Problem, st *minState)
}

type minState struct {
	funcCalls, gradCalls, statusCalls, records int
	evals                                      map[string]float64
	// badAt > 0 makes the badAt-th call of Func (in call order) return badVal (NaN or +Inf): the paths on
	// which a method gives up by itself (MethodDone / ErrFunc) instead of being stopped by Minimize.
	badAt  int
	badVal float64
}

type errRecorder struct {
	st     *minState
	failAt int
}

func (r *errRecorder) Init() error { return nil }
func (r *errRecorder) Record(l *optimize.Location, op optimize.Operation, s *optimize.Stats) error {
	r.st.records++
	if r.failAt >= 0 && r.st.records > r.failAt {
		return errors.New("recorder failure")
	}
	return nil
}

// bestOfAll lists the methods whose result is documented/implemented as the best of all evaluated points.
var bestOfAll = map[string]bool{"GuessAndCheck": true, "ListSearch": true}

func genMinimize(g *vlib.G) {
	type methodSpec struct {
		name string
		mk   func() optimize.Method
		grad bool
		maxC int
	}
	methods := []methodSpec{
		{"GuessAndCheck", func() optimize.Method { return &optimize.GuessAndCheck{Rander: &fixedRander{}} }, false, 3},
		{"ListSearch", func() optimize.Method {
			return &optimize.ListSearch{Locs: mat.NewDense(4, 2, []float64{0, 0, 1, -1, 2, 1, -1, 0})}
		}, false, 3},
		{"NelderMead", func() optimize.Method { return &optimize.NelderMead{} }, false, 1},
		{"GradientDescent", func() optimize.Method { return &optimize.GradientDescent{} }, true, 1},
		{"LBFGS", func() optimize.Method { return &optimize.LBFGS{} }, true, 1},
		{"CmaEsChol", func() optimize.Method {
			return &optimize.CmaEsChol{Population: 4, Src: rand.NewPCG(1, 1)}
		}, false, 3},
	}
	causes := []stopCause{
		{"FuncEvaluations=1", func(s *optimize.Settings, p *optimize.Problem, st *minState) { s.FuncEvaluations = 1 }},
		{"FuncEvaluations=3", func(s *optimize.Settings, p *optimize.Problem, st *minState) { s.FuncEvaluations = 3 }},
		{"MajorIterations=1", func(s *optimize.Settings, p *optimize.Problem, st *minState) { s.MajorIterations = 1 }},
		{"MajorIterations=2", func(s *optimize.Settings, p *optimize.Problem, st *minState) { s.MajorIterations = 2 }},
		{"Status@2", func(s *optimize.Settings, p *optimize.Problem, st *minState) {
			s.MajorIterations = 6
			p.Status = func() (optimize.Status, error) {
				st.statusCalls++
				if st.statusCalls > 2 {
					return optimize.Success, nil
				}
				return optimize.NotTerminated, nil
			}
		}},
		{"RecorderErr@2", func(s *optimize.Settings, p *optimize.Problem, st *minState) {
			s.MajorIterations = 6
			s.Recorder = &errRecorder{st: st, failAt: 2}
		}},
		{"converge", func(s *optimize.Settings, p *optimize.Problem, st *minState) {
			s.MajorIterations = 5
			s.FuncEvaluations = 12
		}},
		{"NaN@1", func(s *optimize.Settings, p *optimize.Problem, st *minState) {
			s.MajorIterations = 4
			st.badAt, st.badVal = 1, math.NaN()
		}},
		{"+Inf@1", func(s *optimize.Settings, p *optimize.Problem, st *minState) {
			s.MajorIterations = 4
			st.badAt, st.badVal = 1, math.Inf(1)
		}},
		{"NaN@2", func(s *optimize.Settings, p *optimize.Problem, st *minState) {
			s.MajorIterations = 4
			st.badAt, st.badVal = 2, math.NaN()
		}},
	}
	for _, ms := range methods {
		for conc := 1; conc <= ms.maxC; conc++ {
			if conc == 3 && !g.Thorough() {
				continue
			}
			for _, cs := range causes {
				ms, conc, cs := ms, conc, cs
				g.Case(fmt.Sprintf("%s concurrent=%d stop=%s", ms.name, conc, cs.name), func(t *vlib.T) {
					var res *optimize.Result
					var err error
					var st *minState
					body := func() {
						st = &minState{evals: map[string]float64{}}
						p := optimize.Problem{Func: func(x []float64) float64 {
							point("Func")
							f := quad2(x)
							k := fmt.Sprint(x)
							vlib.Atomically(func() {
								st.funcCalls++
								if st.funcCalls == st.badAt {
									f = st.badVal
								}
								st.evals[k] = f
							})
							return f
						}}
						if ms.grad {
							p.Grad = func(gr, x []float64) {
								point("Grad")
								vlib.Atomically(func() { st.gradCalls++ })
								quad2Grad(gr, x)
							}
						}
						set := &optimize.Settings{Concurrent: conc}
						cs.set(set, &p, st)
						res, err = optimize.Minimize(p, []float64{3, 2}, set, ms.mk())
					}
					explore(t, g, false, body, func(x *vsched.Exec) string {
						if res == nil {
							return fmt.Sprintf("Minimize returned a nil result (err %v)", err)
						}
						if (err != nil) != (res.Status == optimize.Failure) {
							return fmt.Sprintf("status %v with error %v", res.Status, err)
						}
						if res.Status == optimize.NotTerminated {
							return "status NotTerminated on return"
						}
						if res.Stats.FuncEvaluations != st.funcCalls {
							return fmt.Sprintf("Stats.FuncEvaluations=%d but Func was called %d times", res.Stats.FuncEvaluations, st.funcCalls)
						}
						if res.Stats.GradEvaluations != st.gradCalls {
							return fmt.Sprintf("Stats.GradEvaluations=%d but Grad was called %d times", res.Stats.GradEvaluations, st.gradCalls)
						}
						if bestOfAll[ms.name] && res.Status != optimize.Failure {
							// methods that keep the best of everything they evaluated: evaluations that were in
							// flight when the run was stopped were made and counted, so they must be folded in.
							best := math.Inf(1)
							for _, f := range st.evals {
								if f < best {
									best = f
								}
							}
							if len(st.evals) > 0 && !(res.F <= best) {
								return fmt.Sprintf("result F=%v but %v was evaluated (and counted in Stats.FuncEvaluations=%d): an evaluation was dropped", res.F, best, res.Stats.FuncEvaluations)
							}
						}
						if res.Stats.MajorIterations > 0 {
							f, ok := st.evals[fmt.Sprint(res.X)]
							if !ok {
								return fmt.Sprintf("result X=%v was never evaluated", res.X)
							}
							if math.Float64bits(f) != math.Float64bits(res.F) {
								return fmt.Sprintf("result F=%v but f(X)=%v at X=%v", res.F, f, res.X)
							}
						}
						return ""
					})
				})
			}
		}
	}
}
