// Harness C09: results do not depend on goroutine scheduling.
package main

import "gonum.org/v1/gonum/internal/verif/vlib"

func main() {
	vlib.Main("C09",
		vlib.Group{Name: "quad", Gen: genQuad},
		vlib.Group{Name: "dgemm", Gen: genDgemm},
		vlib.Group{Name: "fd", Gen: genFD},
		vlib.Group{Name: "minimize", Gen: genMinimize},
		vlib.Group{Name: "pools", Gen: genPools},
		vlib.Group{Name: "pool-discipline", Gen: genPoolDiscipline},
		vlib.Group{Name: "pool-resize", Gen: genPoolResize},
		vlib.Group{Name: "lazy", Gen: genLazy},
	)
}
