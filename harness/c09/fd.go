package main

import (
	"fmt"
	"math"
	"sort"

	"gonum.org/v1/gonum/diff/fd"
	"gonum.org/v1/gonum/internal/verif/vlib"
	"gonum.org/v1/gonum/internal/verif/vrt"
	"gonum.org/v1/gonum/internal/verif/vsched"
	"gonum.org/v1/gonum/mat"
)

// poly is an integer polynomial: exact in float64 at integer points.
func poly(x []float64) float64 {
	s := 1.0
	for i, v := range x {
		s += float64(i+1)*v*v + float64(2*i+1)*v
		if i > 0 {
			s += x[i-1] * v
		}
	}
	return s
}

// dirtyFloats returns n distinct non-zero integers (exactly representable, so an accumulation into
// stale contents changes the result bit pattern).
func dirtyFloats(n int) []float64 {
	d := make([]float64, n)
	for i := range d {
		d[i] = float64(1000 + 37*i)
	}
	return d
}

// scribble overwrites a user-function argument after it has been used: the fd routines document that they
// protect their evaluation points against functions that modify the slice they are given.
func scribble(x []float64) {
	for i := range x {
		x[i] = 1e9 + float64(i)
	}
}

type evalLog struct{ pts []string }

func (l *evalLog) add(x ...[]float64) {
	p := fmt.Sprint(x)
	vlib.Atomically(func() { l.pts = append(l.pts, p) })
}

func (l *evalLog) key() string {
	s := append([]string(nil), l.pts...)
	sort.Strings(s)
	return fmt.Sprint(s)
}

func bits(s []float64) string {
	o := ""
	for _, v := range s {
		o += fmt.Sprintf("%x,", math.Float64bits(v))
	}
	return o
}

func genFD(g *vlib.G) {
	formulas := []struct {
		name string
		f    fd.Formula
	}{{"Forward", fd.Forward}, {"Central", fd.Central}, {"Backward", fd.Backward}}
	formulas2 := []struct {
		name string
		f    fd.Formula
	}{{"Central2nd", fd.Central2nd}, {"Forward2nd", fd.Forward2nd}}
	maxDim := vlib.Pick(g, 2, 3)
	for _, procs := range []int{2, 4} {
		for dim := 1; dim <= maxDim; dim++ {
			for _, ok := range []bool{false, true} {
				for _, fm := range formulas {
					procs, dim, ok, fm := procs, dim, ok, fm
					x0 := make([]float64, dim)
					for i := range x0 {
						x0[i] = float64(i + 1)
					}
					key0 := fmt.Sprintf("dim=%d formula=%s originKnown=%v procs=%d", dim, fm.name, ok, procs)
					// dst states: a fresh (nil / zeroed) destination and a correctly sized one still holding
					// other data (e.g. the previous result); the documented result does not depend on it.
					for _, dirty := range []bool{false, true} {
						dirty := dirty
						key := key0
						if dirty {
							key += " dst=dirty"
						}
						g.Case("Gradient "+key, func(t *vlib.T) {
							set := func(conc bool) *fd.Settings {
								return &fd.Settings{Formula: fm.f, Step: 1, OriginKnown: ok, OriginValue: poly(x0), Concurrent: conc}
							}
							vrt.Procs = procs
							defer func() { vrt.Procs = 0 }()
							var slog evalLog
							want := fd.Gradient(nil, func(x []float64) float64 { slog.add(x); return poly(x) }, x0, set(false))
							var got []float64
							var clog evalLog
							body := func() {
								clog = evalLog{}
								x := append([]float64(nil), x0...)
								var dst []float64
								if dirty {
									dst = dirtyFloats(dim)
								}
								got = fd.Gradient(dst, func(x []float64) float64 {
									point("f")
									clog.add(x)
									v := poly(x)
									if dirty {
										scribble(x)
									}
									return v
								}, x, set(true))
								if bits(x) != bits(x0) {
									panic(fmt.Sprintf("Gradient modified the caller's x: %v", x))
								}
							}
							explore(t, g, dim == 1, body, func(x *vsched.Exec) string {
								if bits(got) != bits(want) {
									return fmt.Sprintf("gradient %v != serial %v", got, want)
								}
								if clog.key() != slog.key() {
									return fmt.Sprintf("evaluation points differ from the serial run: %v vs %v", clog.key(), slog.key())
								}
								return ""
							})
						})
						set := func(conc bool) *fd.Settings {
							return &fd.Settings{Formula: fm.f, Step: 1, OriginKnown: ok, OriginValue: poly(x0), Concurrent: conc}
						}
						if (dim == 1 || (dim == 2 && (g.Thorough() || (dirty && procs == 2)))) && fm.name != "Backward" {
							g.Case("Hessian "+key, func(t *vlib.T) {
								vrt.Procs = procs
								defer func() { vrt.Procs = 0 }()
								var slog evalLog
								want := mat.NewSymDense(dim, nil)
								fd.Hessian(want, func(x []float64) float64 { slog.add(x); return poly(x) }, x0, set(false))
								var got *mat.SymDense
								var clog evalLog
								body := func() {
									clog = evalLog{}
									got = mat.NewSymDense(dim, nil)
									if dirty {
										got = mat.NewSymDense(dim, dirtyFloats(dim*dim))
									}
									fd.Hessian(got, func(x []float64) float64 {
										point("f")
										clog.add(x)
										v := poly(x)
										if dirty {
											scribble(x)
										}
										return v
									}, append([]float64(nil), x0...), set(true))
								}
								explore(t, g, false, body, func(x *vsched.Exec) string {
									for i := 0; i < dim; i++ {
										for j := i; j < dim; j++ {
											if math.Float64bits(got.At(i, j)) != math.Float64bits(want.At(i, j)) {
												return fmt.Sprintf("hessian[%d,%d] %v != serial %v", i, j, got.At(i, j), want.At(i, j))
											}
										}
									}
									if clog.key() != slog.key() {
										return fmt.Sprintf("evaluation points differ from the serial run")
									}
									return ""
								})
							})
							if !dirty {
								g.Case("CrossLaplacian "+key, func(t *vlib.T) {
									vrt.Procs = procs
									defer func() { vrt.Procs = 0 }()
									y0 := make([]float64, dim)
									for i := range y0 {
										y0[i] = float64(2 - i)
									}
									f2 := func(x, y []float64) float64 { return poly(x)*poly(y) + poly(y) }
									set2 := func(conc bool) *fd.Settings {
										return &fd.Settings{Formula: fm.f, Step: 1, OriginKnown: ok, OriginValue: f2(x0, y0), Concurrent: conc}
									}
									var slog evalLog
									want := fd.CrossLaplacian(func(x, y []float64) float64 { slog.add(x, y); return f2(x, y) }, x0, y0, set2(false))
									var got float64
									var clog evalLog
									body := func() {
										clog = evalLog{}
										got = fd.CrossLaplacian(func(x, y []float64) float64 {
											point("f")
											clog.add(x, y)
											v := f2(x, y)
											scribble(x)
											scribble(y)
											return v
										}, append([]float64(nil), x0...), append([]float64(nil), y0...), set2(true))
									}
									explore(t, g, false, body, func(x *vsched.Exec) string {
										if math.Float64bits(got) != math.Float64bits(want) {
											return fmt.Sprintf("cross laplacian %v != serial %v", got, want)
										}
										if clog.key() != slog.key() {
											return fmt.Sprintf("evaluation points differ from the serial run")
										}
										return ""
									})
								})
							}
						}
						if dim <= 2 {
							g.Case("Jacobian "+key, func(t *vlib.T) {
								vrt.Procs = procs
								defer func() { vrt.Procs = 0 }()
								m := dim + 1
								fn := func(y, x []float64) {
									for i := range y {
										y[i] = poly(x) * float64(i+1)
									}
								}
								var origin []float64
								if ok {
									origin = make([]float64, m)
									fn(origin, x0)
								}
								want := mat.NewDense(m, dim, nil)
								nser := 0
								fd.Jacobian(want, func(y, x []float64) { nser++; fn(y, x) }, x0, &fd.JacobianSettings{Formula: fm.f, Step: 1, OriginValue: origin})
								var got *mat.Dense
								ncon := 0
								body := func() {
									ncon = 0
									got = mat.NewDense(m, dim, nil)
									if dirty {
										got = mat.NewDense(m, dim, dirtyFloats(m*dim))
									}
									fd.Jacobian(got, func(y, x []float64) {
										point("f")
										vlib.Atomically(func() { ncon++ })
										fn(y, x)
										if dirty {
											scribble(x)
										}
									}, append([]float64(nil), x0...), &fd.JacobianSettings{Formula: fm.f, Step: 1, OriginValue: origin, Concurrent: true})
								}
								explore(t, g, false, body, func(x *vsched.Exec) string {
									if bits(got.RawMatrix().Data) != bits(want.RawMatrix().Data) {
										return fmt.Sprintf("jacobian %v != serial %v", got.RawMatrix().Data, want.RawMatrix().Data)
									}
									if ncon != nser {
										return fmt.Sprintf("f called %d times, serial run %d", ncon, nser)
									}
									return ""
								})
							})
						}
					}
				}
				for _, fm := range formulas2 {
					procs, dim, ok, fm := procs, dim, ok, fm
					if dim > 2 {
						continue
					}
					x0 := make([]float64, dim)
					for i := range x0 {
						x0[i] = float64(i + 1)
					}
					key := fmt.Sprintf("dim=%d formula=%s originKnown=%v procs=%d", dim, fm.name, ok, procs)
					set := func(conc bool) *fd.Settings {
						return &fd.Settings{Formula: fm.f, Step: 1, OriginKnown: ok, OriginValue: poly(x0), Concurrent: conc}
					}
					g.Case("Laplacian "+key, func(t *vlib.T) {
						vrt.Procs = procs
						defer func() { vrt.Procs = 0 }()
						var slog evalLog
						want := fd.Laplacian(func(x []float64) float64 { slog.add(x); return poly(x) }, x0, set(false))
						var got float64
						var clog evalLog
						body := func() {
							clog = evalLog{}
							got = fd.Laplacian(func(x []float64) float64 {
								point("f")
								clog.add(x)
								v := poly(x)
								scribble(x)
								return v
							}, append([]float64(nil), x0...), set(true))
						}
						explore(t, g, false, body, func(x *vsched.Exec) string {
							if math.Float64bits(got) != math.Float64bits(want) {
								return fmt.Sprintf("laplacian %v != serial %v", got, want)
							}
							if clog.key() != slog.key() {
								return fmt.Sprintf("evaluation points differ from the serial run: %v vs %v", clog.key(), slog.key())
							}
							return ""
						})
					})
				}
			}
		}
		for _, fm := range append(formulas, formulas2...) {
			for _, ok := range []bool{false, true} {
				procs, fm, ok := procs, fm, ok
				g.Case(fmt.Sprintf("Derivative formula=%s originKnown=%v procs=%d", fm.name, ok, procs), func(t *vlib.T) {
					vrt.Procs = procs
					defer func() { vrt.Procs = 0 }()
					f1 := func(x float64) float64 { return x*x*x + 2*x*x + 1 }
					set := func(conc bool) *fd.Settings {
						return &fd.Settings{Formula: fm.f, Step: 1, OriginKnown: ok, OriginValue: f1(2), Concurrent: conc}
					}
					nser := 0
					want := fd.Derivative(func(x float64) float64 { nser++; return f1(x) }, 2, set(false))
					var got float64
					ncon := 0
					body := func() {
						ncon = 0
						got = fd.Derivative(func(x float64) float64 {
							point("f")
							vlib.Atomically(func() { ncon++ })
							return f1(x)
						}, 2, set(true))
					}
					explore(t, g, true, body, func(x *vsched.Exec) string {
						if math.Float64bits(got) != math.Float64bits(want) {
							return fmt.Sprintf("derivative %v != serial %v", got, want)
						}
						if ncon != nser {
							return fmt.Sprintf("f called %d times, serial %d", ncon, nser)
						}
						return ""
					})
				})
			}
		}
	}
}
