package main

import (
	"fmt"

	"gonum.org/v1/gonum/blas"
	"gonum.org/v1/gonum/blas/gonum"
	"gonum.org/v1/gonum/internal/verif/vhook"
	"gonum.org/v1/gonum/internal/verif/vlib"
	"gonum.org/v1/gonum/internal/verif/vrt"
	"gonum.org/v1/gonum/internal/verif/vsched"
)

type gemmCase struct {
	bs, m, n, k, procs int
	tA, tB             blas.Transpose
	single             bool
	inexact            bool // non-dyadic values: rounding depends on the reduction order, so only bit-identity across schedules and GOMAXPROCS is checked
}

func tname(t blas.Transpose) string {
	if t == blas.NoTrans {
		return "N"
	}
	return "T"
}

func genDgemm(g *vlib.G) {
	var cases []gemmCase
	trs := []blas.Transpose{blas.NoTrans, blas.Trans}
	// seam: tiny blocks so that the block-edge arithmetic and the worker protocol run on tiny operands
	type shape struct{ bs, m, n, k int }
	shapes := []shape{{2, 3, 3, 1}, {2, 4, 3, 3}, {2, 3, 5, 2}, {3, 4, 7, 4}, {2, 5, 5, 0}}
	if g.Thorough() {
		shapes = append(shapes, shape{2, 5, 7, 3}, shape{3, 7, 7, 5}, shape{2, 7, 3, 5}, shape{3, 5, 4, 2})
	}
	for _, sh := range shapes {
		for _, procs := range []int{1, 2, 4} {
			for _, tA := range trs {
				for _, tB := range trs {
					for _, single := range []bool{false, true} {
						cases = append(cases, gemmCase{sh.bs, sh.m, sh.n, sh.k, procs, tA, tB, single, false})
						if sh.k >= 3 {
							cases = append(cases, gemmCase{sh.bs, sh.m, sh.n, sh.k, procs, tA, tB, single, true})
						}
					}
				}
			}
		}
	}
	// stock block size: shapes straddling 64/128 (4 and 6 blocks)
	stock := []shape{{0, 65, 65, 1}, {0, 65, 129, 3}, {0, 65, 65, 66}}
	if g.Thorough() {
		stock = append(stock, shape{0, 128, 129, 65}, shape{0, 129, 65, 2})
	}
	for _, sh := range stock {
		for _, procs := range []int{1, 2, 4} {
			cases = append(cases, gemmCase{sh.bs, sh.m, sh.n, sh.k, procs, blas.NoTrans, blas.Trans, false, sh.k > 1})
			cases = append(cases, gemmCase{sh.bs, sh.m, sh.n, sh.k, procs, blas.Trans, blas.NoTrans, true, sh.k > 1})
		}
	}
	for _, c := range cases {
		c := c
		prec := "D"
		if c.single {
			prec = "S"
		}
		val := "exact"
		if c.inexact {
			val = "inexact"
		}
		g.Case(fmt.Sprintf("%sgemm bs=%d m=%d n=%d k=%d tA=%s tB=%s procs=%d values=%s", prec, c.bs, c.m, c.n, c.k, tname(c.tA), tname(c.tB), c.procs, val), func(t *vlib.T) {
			runGemm(t, g, c)
		})
	}
}

func runGemm(t *vlib.T, g *vlib.G, c gemmCase) {
	vhook.SetBlockSize(c.bs)
	defer vhook.SetBlockSize(0)
	vrt.Procs = c.procs
	defer func() { vrt.Procs = 0 }()
	m, n, k := c.m, c.n, c.k
	ar, ac := m, k
	if c.tA != blas.NoTrans {
		ar, ac = k, m
	}
	br, bc := k, n
	if c.tB != blas.NoTrans {
		br, bc = n, k
	}
	lda, ldb, ldc := ac+1, bc+2, n+1
	if lda < 1 {
		lda = 1
	}
	a := make([]float64, ar*lda+1)
	b := make([]float64, br*ldb+1)
	c0 := make([]float64, m*ldc+1)
	for i := range a {
		a[i] = float64((i*7+3)%5 - 2)
	}
	for i := range b {
		b[i] = float64((i*5+1)%7 - 3)
	}
	for i := range c0 {
		c0[i] = float64((i*3)%4 - 1)
	}
	if c.inexact {
		for i := range a {
			a[i] = 0.1*float64(i%11) + 1.0/3
		}
		for i := range b {
			b[i] = 0.7*float64(i%13) - 1.0/7
		}
	}
	at := func(i, l int) float64 {
		if c.tA == blas.NoTrans {
			return a[i*lda+l]
		}
		return a[l*lda+i]
	}
	bt := func(l, j int) float64 {
		if c.tB == blas.NoTrans {
			return b[l*ldb+j]
		}
		return b[j*ldb+l]
	}
	const alpha, beta = 2, -1
	want := append([]float64(nil), c0...)
	for i := 0; i < m; i++ {
		for j := 0; j < n; j++ {
			var s float64
			for l := 0; l < k; l++ {
				s += at(i, l) * bt(l, j)
			}
			want[i*ldc+j] = alpha*s + beta*c0[i*ldc+j]
		}
	}
	var got []float64
	var got32 []float32
	want32 := make([]float32, len(want))
	body := func() {
		if c.single {
			a32, b32 := to32(a), to32(b)
			got32 = to32(c0)
			gonum.Implementation{}.Sgemm(c.tA, c.tB, m, n, k, alpha, a32, lda, b32, ldb, beta, got32, ldc)
			return
		}
		got = append([]float64(nil), c0...)
		gonum.Implementation{}.Dgemm(c.tA, c.tB, m, n, k, alpha, a, lda, b, ldb, beta, got, ldc)
	}
	// value oracle: the triple loop (signed zeros are not distinguished: the serial and the
	// parallel path legitimately differ in the sign of a zero when k == 0);
	// bit oracle: the same call under the default schedule with GOMAXPROCS=1.
	vrt.Procs = 1
	if x := vsched.Run(body, vsched.Options{}); x.Outcome != "ok" {
		t.Failf("the default schedule with GOMAXPROCS=1 ends in %s", x.Outcome)
		return
	}
	vrt.Procs = c.procs
	if c.single {
		for i := range want {
			if c.inexact {
				break
			}
			if float32(want[i]) != got32[i] {
				t.Failf("C[%d]=%v, the definition gives %v", i, got32[i], want[i])
				return
			}
		}
		copy(want32, got32)
	} else {
		for i := range want {
			if c.inexact {
				break
			}
			if want[i] != got[i] {
				t.Failf("C[%d]=%v, the definition gives %v", i, got[i], want[i])
				return
			}
		}
		copy(want, got)
	}
	explore(t, g, false, body, func(x *vsched.Exec) string {
		if c.single {
			if i, ok := vlib.Same32(got32, want32); !ok {
				return fmt.Sprintf("C[%d]=%v want %v", i, got32[i], want32[i])
			}
		} else if i, ok := vlib.Same64(got, want); !ok {
			return fmt.Sprintf("C[%d]=%v want %v", i, got[i], want[i])
		}
		if x.MaxLive > c.procs+1 {
			return fmt.Sprintf("%d goroutines alive at once with GOMAXPROCS=%d (worker limit exceeded)", x.MaxLive, c.procs)
		}
		return ""
	})
}

func to32(s []float64) []float32 {
	o := make([]float32, len(s))
	for i, v := range s {
		o[i] = float32(v)
	}
	return o
}
