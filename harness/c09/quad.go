package main

import (
	"fmt"
	"math"

	"gonum.org/v1/gonum/integrate/quad"
	"gonum.org/v1/gonum/internal/verif/vlib"
	"gonum.org/v1/gonum/internal/verif/vsched"
)

// intRule is a FixedLocationer with integer nodes and weights (exact arithmetic).
type intRule struct{}

func (intRule) FixedLocations(x, w []float64, min, max float64) {
	for i := range x {
		x[i] = float64(i + 1)
		w[i] = float64(2*i + 1)
	}
}

// intSingler also implements FixedLocationSingler.
type intSingler struct{ intRule }

func (intSingler) FixedLocationSingle(n, k int, min, max float64) (x, w float64) {
	return float64(k + 1), float64(2*k + 1)
}

func genQuad(g *vlib.G) {
	rules := []struct {
		name string
		r    quad.FixedLocationer
	}{{"int", intRule{}}, {"intsingle", intSingler{}}, {"legendre", quad.Legendre{}}}
	for _, rl := range rules {
		for n := 1; n <= vlib.Pick(g, 3, 4); n++ {
			for conc := 0; conc <= n+1; conc++ {
				// mask selects the nodes (in the serial call order) at which the integrand is NaN: a worker
				// whose partial sum is NaN still has to drain its tasks, or the distributor blocks forever.
				masks := []int{0, 1, 1 << (n - 1), 1<<n - 1}
				if g.Thorough() {
					masks = masks[:0]
					for m := 0; m < 1<<n; m++ {
						masks = append(masks, m)
					}
				}
				seenMask := map[int]bool{}
				for _, mask := range masks {
					if seenMask[mask] {
						continue
					}
					seenMask[mask] = true
					rl, n, conc, mask := rl, n, conc, mask
					name := fmt.Sprintf("rule=%s n=%d concurrent=%d", rl.name, n, conc)
					if mask != 0 {
						name += fmt.Sprintf(" nanmask=%b", mask)
					}
					g.Case(name, func(t *vlib.T) {
						var order []float64
						quad.Fixed(func(x float64) float64 { order = append(order, x); return 0 }, 0, 1, n, rl.r, 0)
						bad := map[float64]bool{}
						for k, x := range order {
							if mask>>k&1 == 1 {
								bad[x] = true
							}
						}
						f := func(x float64) float64 {
							if bad[x] {
								return math.NaN()
							}
							return x*x + 1
						}
						want := quad.Fixed(f, 0, 1, n, rl.r, 0) // serial path, no goroutines
						if math.IsNaN(want) != (mask != 0) {
							t.Failf("serial result %v with nanmask=%b", want, mask)
							return
						}
						var got float64
						var calls map[float64]int
						body := func() {
							calls = map[float64]int{}
							got = quad.Fixed(func(x float64) float64 {
								point("f")
								vlib.Atomically(func() { calls[x]++ })
								return f(x)
							}, 0, 1, n, rl.r, conc)
						}
						explore(t, g, n <= 2, body, func(x *vsched.Exec) string {
							if mask != 0 {
								if !math.IsNaN(got) {
									return fmt.Sprintf("result %v, serial NaN", got)
								}
							} else if rl.name == "legendre" {
								if math.Abs(got-want) > float64(n)*1e-15*math.Abs(want) {
									return fmt.Sprintf("result %v differs from serial %v beyond rounding", got, want)
								}
							} else if got != want {
								return fmt.Sprintf("result %v != serial %v", got, want)
							}
							tot := 0
							for _, c := range calls {
								tot += c
								if c != 1 {
									return fmt.Sprintf("f called %d times at one node", c)
								}
							}
							if tot != n {
								return fmt.Sprintf("f called %d times, want %d", tot, n)
							}
							return ""
						})
					})
				}
			}
		}
	}
}
