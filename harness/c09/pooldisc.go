package main

import (
	"fmt"
	"math"
	"unsafe"

	"gonum.org/v1/gonum/internal/verif/vlib"
	"gonum.org/v1/gonum/internal/verif/vsync"
	"gonum.org/v1/gonum/mat"
	"gonum.org/v1/gonum/stat"
)

// Group pool-discipline: the shared workspace pools are only safe to share between goroutines if every
// operation — on its error and panic paths too — hands each workspace back at most once and never uses it
// afterwards. A workspace released twice is later handed to two independent operations at the same time
// (a data race and wrong results far away from the culprit), so the discipline is checked where it is
// decidable: per operation, sequentially, for an alphabet of operations x input kinds (regular, exactly
// singular, numerically singular with a successful factorization, not positive definite, rank deficient,
// shape-mismatch panics), under the deterministic pool twin:
//   - no storage is put back while it is already in a pool (vsync.Ident compares backing arrays);
//   - the result is bit-identical whether the pools are empty (PoolFresh) or hold poisoned workspaces left by
//     earlier operations (PoolDirty + scrub), twice in a row;
//   - a pair of probe operations run after it, holding workspaces of the same size classes, still gives the
//     results it gives alone.

// identOf maps a pooled item to the address of the first element of the backing array it owns.
func identOf(x any) uintptr {
	f := func(d []float64) uintptr {
		d = d[:cap(d)]
		if len(d) == 0 {
			return 0
		}
		return uintptr(unsafe.Pointer(&d[0]))
	}
	switch w := x.(type) {
	case *mat.Dense:
		return f(w.RawMatrix().Data)
	case *mat.SymDense:
		return f(w.RawSymmetric().Data)
	case *mat.TriDense:
		return f(w.RawTriangular().Data)
	case *mat.VecDense:
		return f(w.RawVector().Data)
	case *mat.CDense:
		d := w.RawCMatrix().Data
		d = d[:cap(d)]
		if len(d) == 0 {
			return 0
		}
		return uintptr(unsafe.Pointer(&d[0]))
	case *[]float64:
		return f(*w)
	case *[]int:
		d := (*w)[:cap(*w)]
		if len(d) == 0 {
			return 0
		}
		return uintptr(unsafe.Pointer(&d[0]))
	}
	return 0
}

// basic hides the concrete type of a matrix so that the generic (At-based) code paths are taken.
type basic struct{ m mat.Matrix }

func (b basic) Dims() (int, int)    { return b.m.Dims() }
func (b basic) At(i, j int) float64 { return b.m.At(i, j) }
func (b basic) T() mat.Matrix       { return mat.Transpose{Matrix: b} }

// input kinds for square systems
func sq(kind string, n, seed int) *mat.Dense {
	m := mk(n, n, seed)
	switch kind {
	case "regular":
	case "singular": // last row = first row
		for j := 0; j < n; j++ {
			m.Set(n-1, j, m.At(0, j))
		}
	case "rcond0": // factorizes, but the reciprocal condition number underflows to zero
		m.Zero()
		for i := 0; i < n; i++ {
			m.Set(i, i, 1)
		}
		m.Set(0, 0, 1e200)
		m.Set(n-1, n-1, 1e-200)
	case "zero":
		m.Zero()
	}
	return m
}

func symOf(kind string, n, seed int) *mat.SymDense {
	var s mat.SymDense
	a := mk(n, n, seed)
	s.SymOuterK(1, a)
	switch kind {
	case "spd":
	case "indefinite":
		s.SetSym(n-1, n-1, -1)
	case "semidefinite": // exactly singular: rank one
		v := make([]float64, n)
		for i := range v {
			v[i] = float64(i + 1)
		}
		s = *mat.NewSymDense(n, nil)
		s.SymOuterK(1, mat.NewDense(n, 1, v))
	}
	return &s
}

type discOp struct {
	name string
	run  func() []float64
}

func dataOf(ms ...mat.Matrix) []float64 {
	var out []float64
	for _, m := range ms {
		r, c := m.Dims()
		out = append(out, float64(r), float64(c))
		for i := 0; i < r; i++ {
			for j := 0; j < c; j++ {
				out = append(out, m.At(i, j))
			}
		}
	}
	return out
}

func errBits(err error) []float64 {
	if err == nil {
		return []float64{0}
	}
	return []float64{1}
}

func discOps() []discOp {
	var ops []discOp
	add := func(name string, f func() []float64) { ops = append(ops, discOp{name, f}) }
	for _, n := range []int{2, 3, 5} {
		n := n
		for _, kind := range []string{"regular", "singular", "rcond0", "zero"} {
			kind := kind
			tag := fmt.Sprintf("%s n=%d", kind, n)
			add("Inverse "+tag, func() []float64 {
				a := sq(kind, n, 1)
				err := a.Inverse(a)
				return append(errBits(err), dataOf(a)...)
			})
			add("Inverse-into-empty "+tag, func() []float64 {
				a := sq(kind, n, 1)
				var d mat.Dense
				err := d.Inverse(a)
				return append(errBits(err), dataOf(&d)...)
			})
			add("Solve-aliased "+tag, func() []float64 {
				a, b := sq(kind, n, 2), mk(n, 2, 3)
				err := b.Solve(a, b)
				return append(errBits(err), dataOf(b)...)
			})
			add("Solve-T "+tag, func() []float64 {
				a, b := sq(kind, n, 2), mk(n, 2, 3)
				var x mat.Dense
				err := x.Solve(a.T(), b)
				return append(errBits(err), dataOf(&x)...)
			})
			add("Solve-generic "+tag, func() []float64 {
				a, b := sq(kind, n, 2), mk(n, 2, 3)
				var x mat.Dense
				err := x.Solve(basic{a}, basic{b})
				return append(errBits(err), dataOf(&x)...)
			})
			add("SolveVec-aliased "+tag, func() []float64 {
				a := sq(kind, n, 4)
				v := mat.NewVecDense(n, mk(n, 1, 5).RawMatrix().Data)
				err := v.SolveVec(a, v)
				return append(errBits(err), dataOf(v)...)
			})
			add("LU "+tag, func() []float64 {
				a := sq(kind, n, 6)
				var lu mat.LU
				lu.Factorize(a)
				b := mk(n, 2, 7)
				err := lu.SolveTo(b, false, b)
				out := append(errBits(err), dataOf(b)...)
				bt := mk(n, 2, 8)
				err = lu.SolveTo(bt, true, bt)
				out = append(out, errBits(err)...)
				out = append(out, dataOf(bt)...)
				v := mat.NewVecDense(n, mk(n, 1, 9).RawMatrix().Data)
				err = lu.SolveVecTo(v, false, v)
				out = append(out, errBits(err)...)
				out = append(out, dataOf(v)...)
				var l, u mat.TriDense
				lu.LTo(&l)
				lu.UTo(&u)
				out = append(out, dataOf(&l, &u)...)
				out = append(out, lu.Cond(), lu.Det())
				x := mat.NewVecDense(n, mk(n, 1, 10).RawMatrix().Data)
				y := mat.NewVecDense(n, mk(n, 1, 11).RawMatrix().Data)
				var lu2 mat.LU
				lu2.RankOne(&lu, 2, x, y)
				lu2.LTo(&l)
				lu2.UTo(&u)
				out = append(out, dataOf(&l, &u)...)
				lu.RankOne(&lu, -1, x, y)
				lu.LTo(&l)
				lu.UTo(&u)
				return append(out, dataOf(&l, &u)...)
			})
			add("Exp/Pow "+tag, func() []float64 {
				a := sq(kind, n, 12)
				if kind == "rcond0" {
					a.Set(0, 0, 3) // keep exp finite
				}
				a.Scale(1.0/16, a)
				var e mat.Dense
				e.Exp(a)
				p := sq(kind, n, 12)
				if kind == "rcond0" {
					p.Set(0, 0, 3)
				}
				p.Pow(p, 3)
				return dataOf(&e, p)
			})
			add("Eigen "+tag, func() []float64 {
				a := sq(kind, n, 13)
				var eig mat.Eigen
				ok := eig.Factorize(a, mat.EigenBoth)
				out := []float64{b2f(ok)}
				if ok {
					for _, v := range eig.Values(nil) {
						out = append(out, real(v), imag(v))
					}
					var cv mat.CDense
					eig.VectorsTo(&cv)
					r, c := cv.Dims()
					for i := 0; i < r; i++ {
						for j := 0; j < c; j++ {
							out = append(out, real(cv.At(i, j)), imag(cv.At(i, j)))
						}
					}
				}
				return out
			})
		}
		for _, kind := range []string{"spd", "indefinite", "semidefinite"} {
			kind := kind
			tag := fmt.Sprintf("%s n=%d", kind, n)
			add("Cholesky "+tag, func() []float64 {
				s := symOf(kind, n, 14)
				var ch mat.Cholesky
				ok := ch.Factorize(s)
				out := []float64{b2f(ok)}
				if !ok {
					return out
				}
				b := mk(n, 2, 15)
				out = append(out, errBits(ch.SolveTo(b, b))...)
				out = append(out, dataOf(b)...)
				v := mat.NewVecDense(n, mk(n, 1, 16).RawMatrix().Data)
				out = append(out, errBits(ch.SolveVecTo(v, v))...)
				out = append(out, dataOf(v)...)
				var inv, back mat.SymDense
				out = append(out, errBits(ch.InverseTo(&inv))...)
				ch.ToSym(&back)
				out = append(out, dataOf(&inv, &back)...)
				out = append(out, ch.Cond(), ch.Det(), ch.LogDet())
				var up, down, ext, sc mat.Cholesky
				x := mat.NewVecDense(n, mk(n, 1, 17).RawMatrix().Data)
				okU := up.SymRankOne(&ch, 1, x)
				okD := down.SymRankOne(&ch, -1000, x) // not positive definite any more
				out = append(out, b2f(okU), b2f(okD))
				if okU {
					up.ToSym(&back)
					out = append(out, dataOf(&back)...)
				}
				ev := mat.NewVecDense(n+1, mk(n+1, 1, 18).RawMatrix().Data)
				ev.SetVec(n, 1000)
				okE := ext.ExtendVecSym(&ch, ev)
				ev.SetVec(n, -1000)
				var ext2 mat.Cholesky
				okE2 := ext2.ExtendVecSym(&ch, ev)
				out = append(out, b2f(okE), b2f(okE2))
				if okE {
					ext.ToSym(&back)
					out = append(out, dataOf(&back)...)
				}
				sc.Scale(4, &ch)
				sc.ToSym(&back)
				out = append(out, dataOf(&back)...)
				var tri mat.TriDense
				ch.LTo(&tri)
				out = append(out, dataOf(&tri)...)
				ch.UTo(&tri)
				return append(out, dataOf(&tri)...)
			})
			add("EigenSym "+tag, func() []float64 {
				s := symOf(kind, n, 19)
				var es mat.EigenSym
				ok := es.Factorize(s, true)
				out := []float64{b2f(ok)}
				if ok {
					out = append(out, es.Values(nil)...)
					var d mat.Dense
					es.VectorsTo(&d)
					out = append(out, dataOf(&d)...)
				}
				return out
			})
			add("Sym-updates "+tag, func() []float64 {
				s := symOf(kind, n, 20)
				x := mk(n, 2, 21)
				s.SymRankK(s, 2, x)
				u := mat.NewVecDense(n, mk(n, 1, 22).RawMatrix().Data)
				w := mat.NewVecDense(n, mk(n, 1, 23).RawMatrix().Data)
				s.RankTwo(s, 3, u, w)
				s.SymRankOne(s, -1, u)
				var o mat.SymDense
				o.SymOuterK(2, basic{x})
				return dataOf(s, &o)
			})
			add("Mahalanobis/Cov "+tag, func() []float64 {
				x := mk(6, n, 24)
				var cov, cor mat.SymDense
				stat.CovarianceMatrix(&cov, x, []float64{1, 2, 1, 3, 1, 2})
				stat.CorrelationMatrix(&cor, x, nil)
				out := dataOf(&cov, &cor)
				var ch mat.Cholesky
				if ch.Factorize(symOf(kind, n, 25)) {
					a := mat.NewVecDense(n, mk(n, 1, 26).RawMatrix().Data)
					b := mat.NewVecDense(n, mk(n, 1, 27).RawMatrix().Data)
					out = append(out, stat.Mahalanobis(a, b, &ch))
				}
				var pc stat.PC
				okPC := pc.PrincipalComponents(x, nil)
				out = append(out, b2f(okPC))
				if okPC {
					out = append(out, pc.VarsTo(nil)...)
				}
				return out
			})
		}
		for _, shape := range [][2]int{{n + 2, n}, {n, n + 2}} {
			r, c := shape[0], shape[1]
			for _, kind := range []string{"full", "deficient"} {
				kind := kind
				tag := fmt.Sprintf("%s %dx%d", kind, r, c)
				build := func(seed int) *mat.Dense {
					a := mk(r, c, seed)
					if kind == "deficient" {
						if r > c {
							for i := 0; i < r; i++ {
								a.Set(i, c-1, a.At(i, 0))
							}
						} else {
							for j := 0; j < c; j++ {
								a.Set(r-1, j, a.At(0, j))
							}
						}
					}
					return a
				}
				add("Solve-rect "+tag, func() []float64 {
					a, b := build(28), mk(r, 2, 29)
					var x mat.Dense
					err := x.Solve(a, b)
					out := append(errBits(err), dataOf(&x)...)
					bt := mk(c, 2, 30)
					var xt mat.Dense
					err = xt.Solve(a.T(), bt)
					out = append(out, errBits(err)...)
					return append(out, dataOf(&xt)...)
				})
				add("QR/LQ "+tag, func() []float64 {
					a := build(31)
					var out []float64
					if r >= c {
						var qr mat.QR
						qr.Factorize(a)
						var q, rr mat.Dense
						qr.QTo(&q)
						qr.RTo(&rr)
						out = append(out, dataOf(&q, &rr)...)
						out = append(out, qr.Cond())
						var x, xt mat.Dense
						out = append(out, errBits(qr.SolveTo(&x, false, mk(r, 2, 32)))...)
						out = append(out, errBits(qr.SolveTo(&xt, true, mk(c, 2, 33)))...)
						out = append(out, dataOf(&x, &xt)...)
						var v mat.VecDense
						out = append(out, errBits(qr.SolveVecTo(&v, false, mat.NewVecDense(r, mk(r, 1, 34).RawMatrix().Data)))...)
						out = append(out, dataOf(&v)...)
					} else {
						var lq mat.LQ
						lq.Factorize(a)
						var q, l mat.Dense
						lq.QTo(&q)
						lq.LTo(&l)
						out = append(out, dataOf(&q, &l)...)
						out = append(out, lq.Cond())
						var x, xt mat.Dense
						out = append(out, errBits(lq.SolveTo(&x, false, mk(r, 2, 32)))...)
						out = append(out, errBits(lq.SolveTo(&xt, true, mk(c, 2, 33)))...)
						out = append(out, dataOf(&x, &xt)...)
						var v mat.VecDense
						out = append(out, errBits(lq.SolveVecTo(&v, false, mat.NewVecDense(r, mk(r, 1, 34).RawMatrix().Data)))...)
						out = append(out, dataOf(&v)...)
					}
					return out
				})
				add("SVD "+tag, func() []float64 {
					a := build(35)
					var svd mat.SVD
					ok := svd.Factorize(a, mat.SVDThin)
					out := []float64{b2f(ok)}
					if !ok {
						return out
					}
					out = append(out, svd.Values(nil)...)
					var u, v, x mat.Dense
					svd.UTo(&u)
					svd.VTo(&v)
					out = append(out, dataOf(&u, &v)...)
					rank := svd.Rank(1e-10)
					if rank > 0 {
						out = append(out, svd.SolveTo(&x, mk(r, 2, 36), rank)...)
						out = append(out, dataOf(&x)...)
					}
					return out
				})
				add("Mul-family "+tag, func() []float64 {
					a, b := build(37), mk(c, r, 38)
					var p, g, pr, k mat.Dense
					p.Mul(a, b)
					g.Mul(basic{a}, basic{b})
					pr.Product(a, b, a, b.T().T())
					k.Kronecker(a, mk(2, 2, 39))
					sqr := mk(r, r, 40)
					sqr.Mul(sqr, &p) // aliased
					sqt := mk(r, r, 41)
					sqt.Mul(sqt.T(), sqt) // aliased, transposed
					v := mat.NewVecDense(r, mk(r, 1, 42).RawMatrix().Data)
					v.MulVec(sqt.T(), v)
					var el mat.Dense
					el.MulElem(a, b.T())
					return dataOf(&p, &g, &pr, &k, sqr, sqt, v, &el)
				})
			}
		}
		add(fmt.Sprintf("Tri n=%d", n), func() []float64 {
			a := mk(n, n, 43)
			up := mat.NewTriDense(n, mat.Upper, nil)
			lo := mat.NewTriDense(n, mat.Lower, nil)
			for i := 0; i < n; i++ {
				for j := i; j < n; j++ {
					up.SetTri(i, j, a.At(i, j))
					lo.SetTri(j, i, a.At(j, i))
				}
			}
			var out []float64
			var inv mat.TriDense
			out = append(out, errBits(inv.InverseTri(up))...)
			out = append(out, dataOf(&inv)...)
			sing := mat.NewTriDense(n, mat.Upper, nil)
			sing.Copy(up)
			sing.SetTri(n-1, n-1, 0)
			var inv2 mat.TriDense
			out = append(out, errBits(inv2.InverseTri(sing))...)
			up2 := mat.NewTriDense(n, mat.Upper, nil)
			up2.Copy(up)
			up2.MulTri(up2, up)
			out = append(out, dataOf(up2)...)
			var d mat.Dense
			d.Mul(up, lo)
			out = append(out, dataOf(&d)...)
			b := mk(n, 2, 44)
			out = append(out, errBits(b.Solve(up, b))...)
			out = append(out, dataOf(b)...)
			b2 := mk(n, 2, 45)
			out = append(out, errBits(b2.Solve(sing, b2))...)
			return out
		})
		add(fmt.Sprintf("Banded n=%d", n), func() []float64 {
			// symmetric positive definite band and tridiagonal systems
			sb := mat.NewSymBandDense(n, 1, nil)
			td := mat.NewTridiag(n, nil, nil, nil)
			for i := 0; i < n; i++ {
				sb.SetSymBand(i, i, 4+float64(i))
				td.SetBand(i, i, 4+float64(i))
				if i+1 < n {
					sb.SetSymBand(i, i+1, 1)
					td.SetBand(i, i+1, 1)
					td.SetBand(i+1, i, -1)
				}
			}
			var out []float64
			var bc mat.BandCholesky
			ok := bc.Factorize(sb)
			out = append(out, b2f(ok))
			if ok {
				b := mk(n, 2, 46)
				out = append(out, errBits(bc.SolveTo(b, b))...)
				out = append(out, dataOf(b)...)
				v := mat.NewVecDense(n, mk(n, 1, 47).RawMatrix().Data)
				out = append(out, errBits(bc.SolveVecTo(v, v))...)
				out = append(out, dataOf(v)...)
				out = append(out, bc.Cond(), bc.Det())
			}
			bad := mat.NewSymBandDense(n, 1, nil)
			for i := 0; i < n; i++ {
				bad.SetSymBand(i, i, 1)
				if i+1 < n {
					bad.SetSymBand(i, i+1, 5)
				}
			}
			var bc2 mat.BandCholesky
			out = append(out, b2f(bc2.Factorize(bad)))
			x := mk(n, 2, 48)
			out = append(out, errBits(td.SolveTo(x, false, x))...)
			out = append(out, dataOf(x)...)
			xt := mk(n, 2, 49)
			out = append(out, errBits(td.SolveTo(xt, true, xt))...)
			out = append(out, dataOf(xt)...)
			var y mat.VecDense
			y.MulVec(td, mat.NewVecDense(n, mk(n, 1, 50).RawMatrix().Data))
			out = append(out, dataOf(&y)...)
			tds := mat.NewTridiag(n, nil, nil, nil) // exactly singular: zero matrix
			z := mk(n, 1, 51)
			out = append(out, errBits(tds.SolveTo(z, false, z))...)
			return out
		})
		add(fmt.Sprintf("GSVD/HOGSVD n=%d", n), func() []float64 {
			a, b := mk(n+1, n, 52), mk(n+2, n, 53)
			var out []float64
			var g mat.GSVD
			ok := g.Factorize(a, b, mat.GSVDU|mat.GSVDV|mat.GSVDQ)
			out = append(out, b2f(ok))
			if ok {
				out = append(out, g.GeneralizedValues(nil)...)
				var u, v, q mat.Dense
				g.UTo(&u)
				g.VTo(&v)
				g.QTo(&q)
				out = append(out, dataOf(&u, &v, &q)...)
			}
			var h mat.HOGSVD
			okH := h.Factorize(a, b)
			out = append(out, b2f(okH))
			if okH {
				out = append(out, h.Values(nil, 0)...)
				out = append(out, h.Values(nil, 1)...)
				var v mat.Dense
				h.VTo(&v)
				out = append(out, dataOf(&v)...)
			}
			var h2 mat.HOGSVD
			out = append(out, b2f(h2.Factorize(a, sqDef(n+2, n)))) // rank-deficient member: documented failure
			return out
		})
	}
	// every pair of operand kinds of Dense.Mul (each specialised branch draws and returns workspaces itself;
	// a workspace returned before it has been copied out shows as poison under the scrubbing pool twin)
	{
		const n = 3
		type kind struct {
			name string
			mk   func(seed int) mat.Matrix
		}
		tri := func(k mat.TriKind, seed int) *mat.TriDense {
			a := mk(n, n, seed)
			t := mat.NewTriDense(n, k, nil)
			for i := 0; i < n; i++ {
				for j := 0; j < n; j++ {
					if (k == mat.Upper && j >= i) || (k == mat.Lower && j <= i) {
						t.SetTri(i, j, a.At(i, j))
					}
				}
			}
			return t
		}
		kinds := []kind{
			{"Dense", func(s int) mat.Matrix { return mk(n, n, s) }},
			{"DenseT", func(s int) mat.Matrix { return mk(n, n, s).T() }},
			{"View", func(s int) mat.Matrix { return mk(n+2, n+2, s).Slice(1, 1+n, 1, 1+n) }},
			{"ViewT", func(s int) mat.Matrix { return mk(n+2, n+2, s).Slice(1, 1+n, 1, 1+n).T() }},
			{"TriU", func(s int) mat.Matrix { return tri(mat.Upper, s) }},
			{"TriL", func(s int) mat.Matrix { return tri(mat.Lower, s) }},
			{"TriUT", func(s int) mat.Matrix { return tri(mat.Upper, s).T() }},
			{"Sym", func(s int) mat.Matrix { return symOf("spd", n, s) }},
			{"Diag", func(s int) mat.Matrix { return mat.NewDiagDense(n, []float64{float64(s%5 + 1), 2, -3}) }},
			{"Band", func(s int) mat.Matrix {
				b := mat.NewBandDense(n, n, 1, 1, nil)
				a := mk(n, n, s)
				for i := 0; i < n; i++ {
					for j := max(0, i-1); j < min(n, i+2); j++ {
						b.SetBand(i, j, a.At(i, j))
					}
				}
				return b
			}},
			{"Vec", func(s int) mat.Matrix { return mat.NewVecDense(n, mk(n, 1, s).RawMatrix().Data) }},
			{"basic", func(s int) mat.Matrix { return basic{mk(n, n, s)} }},
		}
		for _, ka := range kinds {
			for _, kb := range kinds {
				ka, kb := ka, kb
				if ka.name == "Vec" {
					continue // a 3x1 times 3x? is a shape error for every b but Vec-less kinds; covered by "panics"
				}
				add(fmt.Sprintf("Mul a=%s b=%s", ka.name, kb.name), func() []float64 {
					a, b := ka.mk(81), kb.mk(82)
					var p mat.Dense
					p.Mul(a, b)
					sized := mat.NewDense(n, p.RawMatrix().Cols, nil)
					sized.Mul(a, b)
					return dataOf(&p, sized)
				})
			}
		}
	}
	// documented shape-mismatch panics must not leak or double-release workspaces either
	add("panics", func() []float64 {
		var out []float64
		try := func(f func()) {
			defer func() { out = append(out, b2f(recover() != nil)) }()
			f()
		}
		a, b := mk(3, 3, 54), mk(2, 2, 55)
		try(func() { a.Mul(a, b) })
		try(func() { a.Solve(a, b) })
		try(func() { var d mat.Dense; d.Product(a, b, a) })
		try(func() { a.Pow(mk(2, 3, 56), 2) })
		try(func() { a.Exp(mk(2, 3, 56)) })
		try(func() { a.Inverse(mk(2, 3, 56)) })
		try(func() { v := mat.NewVecDense(2, nil); v.MulVec(a, v) })
		try(func() { var ch mat.Cholesky; ch.Factorize(symOf("spd", 3, 57)); ch.SolveTo(b, b) })
		try(func() { var lu mat.LU; lu.Factorize(a); lu.SolveTo(b, false, b) })
		try(func() { var qr mat.QR; qr.Factorize(mk(2, 3, 58)) })
		try(func() { var lq mat.LQ; lq.Factorize(mk(3, 2, 59)) })
		return out
	})
	return ops
}

func sqDef(r, c int) *mat.Dense {
	a := mk(r, c, 60)
	for i := 0; i < r; i++ {
		a.Set(i, c-1, a.At(i, 0))
	}
	return a
}

func b2f(b bool) float64 {
	if b {
		return 1
	}
	return 0
}

// runCaught runs f; a panic escaping an operation is part of its observable result.
func runCaught(f func() []float64) (res []float64, panicked string) {
	defer func() {
		if e := recover(); e != nil {
			panicked = fmt.Sprint(e)
		}
	}()
	return f(), ""
}

func genPoolDiscipline(g *vlib.G) {
	if raceMode {
		return // needs the pool twin (not present in the un-instrumented -race build)
	}
	ops := discOps()
	probes := poolOps()
	for _, op := range ops {
		op := op
		g.Case(op.name, func(t *vlib.T) {
			defer func() { vsync.Policy = vsync.PoolReal; vsync.Scrub = nil; vsync.Ident = nil }()
			vsync.Policy = vsync.PoolFresh
			want, wantPanic := runCaught(op.run)
			var probeWant [][]float64
			for k, p := range probes {
				probeWant = append(probeWant, append([]float64(nil), p.run(k)...))
			}
			vsync.Policy = vsync.PoolDirty
			vsync.Scrub = scrub
			vsync.Ident = identOf
			vsync.FirstDoublePut = ""
			before := vsync.PoolStats
			for rep := 0; rep < 2; rep++ {
				got, gotPanic := runCaught(op.run)
				if gotPanic != wantPanic {
					t.Failf("run %d with used pools panics with %q, with empty pools %q", rep, gotPanic, wantPanic)
					return
				}
				if bits(got) != bits(want) {
					t.Failf("run %d with poisoned workspaces in the pools gives %v, with empty pools %v", rep, got, want)
					return
				}
				if vsync.PoolStats.DoublePuts != before.DoublePuts {
					t.Failf("run %d released a workspace twice: %s", rep, vsync.FirstDoublePut)
					return
				}
				// every probe after the operation, with whatever it left in the pools
				for k, p := range probes {
					if r := p.run(k); bits(r) != bits(probeWant[k]) {
						t.Failf("after run %d, probe %s gives %v, alone %v", rep, p.name, r, probeWant[k])
						return
					}
				}
				if vsync.PoolStats.DoublePuts != before.DoublePuts {
					t.Failf("a probe after run %d released a workspace twice: %s", rep, vsync.FirstDoublePut)
					return
				}
			}
			st := vsync.PoolStats
			t.Count("pool_gets", int64(st.Gets-before.Gets))
			t.Count("pool_reuses_observed", int64(st.Reuses-before.Reuses))
			if st.Gets > before.Gets {
				t.Nontrivial()
			}
			res := "ok"
			if wantPanic != "" {
				res = "panic"
			} else if len(want) > 0 && (want[0] == 1 || math.IsNaN(want[0])) {
				res = "error-path"
			}
			t.Outcome(res)
		})
	}
}

// Group pool-resize: a pooled workspace is handed out at a different length than it had when it was put back.
// A request for a cleared workspace must then be zero over its whole new extent, and a request for an
// uncleared one must not let the old contents through. For every family of operations F(n) that draws
// workspaces whose size depends on n, and every dirtying operation G(n1) that leaves a shorter or longer
// workspace of the same pool kind behind (scrubbed with NaN over its full capacity), F(n2) run directly after
// G(n1) must give bit for bit the result it gives with empty pools, for all n1 != n2 in 1..9 (so every pair of
// lengths inside every size class 1, 2-3, 4-7, 8-15, 16-31, 32-63, 64-127 occurs).
func resizeFamilies() []struct {
	name string
	run  func(n int) []float64
} {
	return []struct {
		name string
		run  func(n int) []float64
	}{
		{"QR.At", func(n int) []float64 { // getFloat64s(m, true) per element
			k := n
			if k > 2 {
				k = 2
			}
			var qr mat.QR
			qr.Factorize(mk(n, k, 61))
			var out []float64
			for i := 0; i < n; i++ {
				for j := 0; j < k; j++ {
					out = append(out, qr.At(i, j))
				}
			}
			return out
		}},
		{"LQ.At", func(n int) []float64 {
			k := n
			if k > 2 {
				k = 2
			}
			var lq mat.LQ
			lq.Factorize(mk(k, n, 62))
			var out []float64
			for i := 0; i < k; i++ {
				for j := 0; j < n; j++ {
					out = append(out, lq.At(i, j))
				}
			}
			return out
		}},
		{"Exp", func(n int) []float64 { // getDenseWorkspace(r, r, true)
			a := mk(n, n, 63)
			a.Scale(1.0/32, a)
			var e mat.Dense
			e.Exp(a)
			return dataOf(&e)
		}},
		{"HOGSVD", func(n int) []float64 { // getDenseWorkspace(c, c, true)
			var h mat.HOGSVD
			if !h.Factorize(mk(n+1, n, 64), mk(n+2, n, 65)) {
				return []float64{-1}
			}
			return h.Values(nil, 0)
		}},
		{"SymOuterK-self", func(n int) []float64 { // getSymDenseWorkspace(n, true)
			s := symOf("spd", n, 66)
			s.SymOuterK(0.5, s)
			return dataOf(s)
		}},
		{"Mul-aliased", func(n int) []float64 {
			a, b := mk(n, n, 67), mk(n, n, 68)
			a.Mul(a, b)
			return dataOf(a)
		}},
		{"Mul-generic", func(n int) []float64 {
			var p mat.Dense
			p.Mul(basic{mk(n, n, 69)}, basic{mk(n, n, 70)})
			return dataOf(&p)
		}},
		{"LU-solve", func(n int) []float64 {
			a, b := sq("regular", n, 71), mk(n, 1, 72)
			var lu mat.LU
			lu.Factorize(a)
			err := lu.SolveTo(b, false, b)
			return append(errBits(err), append(dataOf(b), lu.Cond())...)
		}},
		{"Cholesky-solve", func(n int) []float64 {
			var ch mat.Cholesky
			ch.Factorize(symOf("spd", n, 73))
			v := mat.NewVecDense(n, mk(n, 1, 74).RawMatrix().Data)
			err := ch.SolveVecTo(v, v)
			return append(errBits(err), append(dataOf(v), ch.Cond())...)
		}},
		{"Pow", func(n int) []float64 {
			a := mk(n, n, 75)
			a.Pow(a, 5)
			return dataOf(a)
		}},
		{"Solve-rect", func(n int) []float64 {
			var x mat.Dense
			err := x.Solve(mk(n+2, n, 76), mk(n+2, 2, 77))
			return append(errBits(err), dataOf(&x)...)
		}},
		{"SVD", func(n int) []float64 {
			var svd mat.SVD
			if !svd.Factorize(mk(n+1, n, 78), mat.SVDThin) {
				return []float64{-1}
			}
			return svd.Values(nil)
		}},
		{"EigenSym", func(n int) []float64 {
			var es mat.EigenSym
			if !es.Factorize(symOf("spd", n, 79), true) {
				return []float64{-1}
			}
			return es.Values(nil)
		}},
	}
}

func genPoolResize(g *vlib.G) {
	if raceMode {
		return
	}
	fams := resizeFamilies()
	maxN := vlib.Pick(g, 9, 12)
	for fi := range fams {
		for gi := range fams {
			f, d := fams[fi], fams[gi]
			g.Case(fmt.Sprintf("%s after %s", f.name, d.name), func(t *vlib.T) {
				defer func() { vsync.Policy = vsync.PoolReal; vsync.Scrub = nil; vsync.Ident = nil }()
				vsync.Policy = vsync.PoolFresh
				want := make([][]float64, maxN+1)
				for n := 1; n <= maxN; n++ {
					want[n] = append([]float64(nil), f.run(n)...)
				}
				vsync.Policy = vsync.PoolDirty
				vsync.Scrub = scrub
				vsync.Ident = identOf
				before := vsync.PoolStats
				pairs := 0
				for n1 := 1; n1 <= maxN; n1++ {
					for n2 := 1; n2 <= maxN; n2++ {
						if n1 == n2 {
							continue
						}
						d.run(n1)
						got := f.run(n2)
						pairs++
						if bits(got) != bits(want[n2]) {
							t.Failf("%s(n=%d) directly after %s(n=%d), with the workspaces that left in the pools, gives %v; with empty pools %v", f.name, n2, d.name, n1, got, want[n2])
							return
						}
					}
				}
				if vsync.PoolStats.DoublePuts != before.DoublePuts {
					t.Failf("a workspace was released twice: %s", vsync.FirstDoublePut)
				}
				t.Count("pool_resize_pairs", int64(pairs))
				t.Count("pool_reuses_observed", int64(vsync.PoolStats.Reuses-before.Reuses))
				t.Nontrivial()
				t.Outcome("ok")
			})
		}
	}
}
