package main

import (
	"fmt"
	"math"

	"gonum.org/v1/gonum/internal/verif/vlib"
	"gonum.org/v1/gonum/internal/verif/vsched"
	"gonum.org/v1/gonum/internal/verif/vsync"
	"gonum.org/v1/gonum/mat"
	"gonum.org/v1/gonum/stat"
)

// scrub poisons a workspace that is handed back to a pool: the pools'
// contract ("must not be retained", "clear=false gives arbitrary contents")
// makes this a legal environment.
func scrub(x any) {
	nan := math.NaN()
	fill := func(d []float64) {
		d = d[:cap(d)]
		for i := range d {
			d[i] = nan
		}
	}
	switch w := x.(type) {
	case *mat.Dense:
		fill(w.RawMatrix().Data)
	case *mat.SymDense:
		fill(w.RawSymmetric().Data)
	case *mat.TriDense:
		fill(w.RawTriangular().Data)
	case *mat.VecDense:
		fill(w.RawVector().Data)
	case *mat.CDense:
		d := w.RawCMatrix().Data
		d = d[:cap(d)]
		for i := range d {
			d[i] = complex(nan, nan)
		}
	case *[]float64:
		fill(*w)
	case *[]int:
		d := (*w)[:cap(*w)]
		for i := range d {
			d[i] = -7777777
		}
	}
}

type poolOp struct {
	name string
	run  func(seed int) []float64 // returns the bits of the result
}

func mk(r, c, seed int) *mat.Dense {
	d := make([]float64, r*c)
	for i := range d {
		d[i] = float64((i*7+seed*3)%9 - 4)
	}
	m := mat.NewDense(r, c, d)
	if r == c {
		for i := 0; i < r; i++ {
			m.Set(i, i, m.At(i, i)+16)
		}
	}
	return m
}

func poolOps() []poolOp {
	return []poolOp{
		{"Mul-aliased", func(seed int) []float64 {
			a, b := mk(3, 3, seed), mk(3, 3, seed+1)
			a.Mul(a, b)
			return a.RawMatrix().Data
		}},
		{"MulVec-aliased-T", func(seed int) []float64 {
			m := mk(4, 4, seed)
			v := mat.NewVecDense(4, []float64{1, float64(seed), -2, 3})
			v.MulVec(m.T(), v)
			return v.RawVector().Data
		}},
		{"Solve-aliased", func(seed int) []float64 {
			a, b := mk(3, 3, seed), mk(3, 2, seed+2)
			if err := b.Solve(a, b); err != nil {
				return []float64{math.Inf(1)}
			}
			return b.RawMatrix().Data
		}},
		{"Inverse", func(seed int) []float64 {
			a := mk(3, 3, seed)
			if err := a.Inverse(a); err != nil {
				return []float64{math.Inf(1)}
			}
			return a.RawMatrix().Data
		}},
		{"Inverse-rcond0", func(seed int) []float64 {
			// the factorization succeeds, the condition estimate underflows to zero: the late error return
			a := mat.NewDense(2, 2, []float64{1e200, float64(seed), 0, 1e-200})
			if err := a.Inverse(a); err != nil {
				return []float64{math.Inf(1)}
			}
			return a.RawMatrix().Data
		}},
		{"Cholesky-SolveTo", func(seed int) []float64 {
			a := mk(3, 3, seed)
			var s mat.SymDense
			s.SymOuterK(1, a)
			var ch mat.Cholesky
			if !ch.Factorize(&s) {
				return []float64{math.Inf(1)}
			}
			b := mk(3, 2, seed+5)
			if err := ch.SolveTo(b, b); err != nil {
				return []float64{math.Inf(-1)}
			}
			return b.RawMatrix().Data
		}},
		{"CovarianceMatrix", func(seed int) []float64 {
			x := mk(5, 3, seed)
			var cov mat.SymDense
			stat.CovarianceMatrix(&cov, x, []float64{1, 2, 1, 3, 1})
			return cov.RawSymmetric().Data
		}},
		{"Pow", func(seed int) []float64 {
			a := mk(3, 3, seed)
			a.Pow(a, 3)
			return a.RawMatrix().Data
		}},
	}
}

func genPools(g *vlib.G) {
	ops := poolOps()
	for i := range ops {
		for j := i; j < len(ops); j++ {
			for _, three := range []bool{false, true} {
				if three && !(g.Thorough() || j == i+1) {
					continue
				}
				i, j, three := i, j, three
				g.Case(fmt.Sprintf("%s || %s three=%v", ops[i].name, ops[j].name, three), func(t *vlib.T) {
					vsync.Policy = vsync.PoolDirty
					vsync.Scrub = scrub
					vsync.Ident = identOf
					vsync.FirstDoublePut = ""
					doublePuts := vsync.PoolStats.DoublePuts
					defer func() { vsync.Policy = vsync.PoolReal; vsync.Scrub = nil; vsync.Ident = nil }()
					// each operation alone (fresh pool state irrelevant: results must not depend on it)
					want := [][]float64{
						append([]float64(nil), ops[i].run(1)...),
						append([]float64(nil), ops[j].run(2)...),
						append([]float64(nil), ops[i].run(3)...),
					}
					var got [3][]float64
					body := func() {
						var wg vsyncWG
						n := 2
						if three {
							n = 3
						}
						got = [3][]float64{}
						wg.Add(n)
						go func() { defer wg.Done(); got[0] = append([]float64(nil), ops[i].run(1)...) }()
						go func() { defer wg.Done(); got[1] = append([]float64(nil), ops[j].run(2)...) }()
						if three {
							go func() { defer wg.Done(); got[2] = append([]float64(nil), ops[i].run(3)...) }()
						}
						wg.Wait()
					}
					explore(t, g, false, body, func(x *vsched.Exec) string {
						if vsync.PoolStats.DoublePuts != doublePuts {
							return "a workspace was released twice: " + vsync.FirstDoublePut
						}
						for k := 0; k < 3; k++ {
							if k == 2 && !three {
								continue
							}
							if bits(got[k]) != bits(want[k]) {
								return fmt.Sprintf("operation %d: %v differs from the result of the same operation run alone %v", k, got[k], want[k])
							}
						}
						return ""
					})
					t.Count("pool_reuses_observed", int64(vsync.PoolStats.Reuses))
				})
			}
		}
	}
}
