// Group "dist": Entropy, CrossEntropy, KullbackLeibler, JensenShannon,
// Bhattacharyya, Hellinger, ChiSquare on all pairs of small discrete
// distributions (tenths and eighths, zeros included), 200-bit logarithms.
package main

import (
	"fmt"
	"math"
	"math/big"

	"gonum.org/v1/gonum/internal/verif/vlib"
	"gonum.org/v1/gonum/stat"
)

// compositions returns all vectors of k non-negative integers summing to total.
func compositions(total, k int) [][]int {
	var out [][]int
	cur := make([]int, k)
	var rec func(p, left int)
	rec = func(p, left int) {
		if p == k-1 {
			cur[p] = left
			out = append(out, append([]int(nil), cur...))
			return
		}
		for v := 0; v <= left; v++ {
			cur[p] = v
			rec(p+1, left-v)
		}
	}
	rec(0, total)
	return out
}

// logCache holds ln of every value that can occur: j/den and (a/den+b/den)/2.
// It is filled once before the enumeration starts and only read afterwards.
var logCache = map[float64]*big.Float{}

func cachedLog(v float64) *big.Float {
	if l, ok := logCache[v]; ok {
		return l
	}
	return bigLogF(v) // not reached for alphabet values; kept for safety
}

func fillLogCache() {
	for _, den := range []int{8, 10} {
		for a := 0; a <= den; a++ {
			p := float64(a) / float64(den)
			if p > 0 {
				logCache[p] = bigLogF(p)
			}
		}
	}
}

func bfMul(a, b *big.Float) *big.Float { return new(big.Float).SetPrec(prec).Mul(a, b) }

func distCase(t *vlib.T, den int, pc, qc []int) {
	k := len(pc)
	fk := float64(k)
	p, q := make([]float64, k), make([]float64, k)
	for i := range pc {
		p[i] = float64(pc[i]) / float64(den)
		q[i] = float64(qc[i]) / float64(den)
	}
	p0, q0 := cloneF(p), cloneF(q)
	zero := func() *big.Float { return new(big.Float).SetPrec(prec) }

	// Entropy(p) = -sum p log p
	{
		s, abs := zero(), 0.0
		for _, v := range p {
			if v != 0 {
				term := bfMul(bfF(v), cachedLog(v))
				s.Sub(s, term)
				abs += math.Abs(bff(term))
			}
		}
		want := bff(s)
		if got := stat.Entropy(p); !near(got, want, 8*(fk+3)*eps*(abs+1)) {
			t.Failf("Entropy(%v) = %v, definition gives %v", p, got, want)
		}
	}
	// CrossEntropy(p,q) = -sum p log q ; KL(p,q) = sum p (log p - log q)
	{
		ce, kl := zero(), zero()
		abs := 0.0
		inf := false
		for i, v := range p {
			if v == 0 {
				continue
			}
			if q[i] == 0 {
				inf = true
				continue
			}
			lq, lp := cachedLog(q[i]), cachedLog(v)
			ce.Sub(ce, bfMul(bfF(v), lq))
			kl.Add(kl, bfMul(bfF(v), new(big.Float).SetPrec(prec).Sub(lp, lq)))
			abs += v * (math.Abs(bff(lq)) + math.Abs(bff(lp)) + 1)
		}
		wce, wkl := bff(ce), bff(kl)
		if inf {
			wce, wkl = math.Inf(1), math.Inf(1)
		}
		tol := 8 * (fk + 4) * eps * (abs + 1)
		if got := stat.CrossEntropy(p, q); !near(got, wce, tol) {
			t.Failf("CrossEntropy(%v,%v) = %v, definition gives %v", p, q, got, wce)
		}
		if got := stat.KullbackLeibler(p, q); !near(got, wkl, tol) {
			t.Failf("KullbackLeibler(%v,%v) = %v, definition gives %v", p, q, got, wkl)
		}
	}
	// JensenShannon = 0.5 (KL(p,m) + KL(q,m)), m = (p+q)/2
	{
		js := zero()
		abs := 0.0
		half := bfF(0.5)
		for i := range p {
			mr := rquo(radd(rat(p[i]), rat(q[i])), rint(2))
			if mr.Sign() == 0 {
				continue
			}
			lm := bigLog(bfRat(mr))
			for _, v := range []float64{p[i], q[i]} {
				if v != 0 {
					d := new(big.Float).SetPrec(prec).Sub(cachedLog(v), lm)
					js.Add(js, bfMul(half, bfMul(bfF(v), d)))
					abs += v * (math.Abs(bff(cachedLog(v))) + math.Abs(bff(lm)) + 1)
				}
			}
		}
		want := bff(js)
		tol := 8 * (fk + 5) * eps * (abs + 1)
		got := stat.JensenShannon(p, q)
		if !near(got, want, tol) {
			t.Failf("JensenShannon(%v,%v) = %v, definition gives %v", p, q, got, want)
		}
		if rev := stat.JensenShannon(q, p); !near(rev, got, 2*tol) {
			t.Failf("JensenShannon not symmetric: %v vs %v", got, rev)
		}
		if !(got >= -tol && got <= math.Ln2+tol) {
			t.Failf("JensenShannon = %v outside [0, ln 2]", got)
		}
	}
	// Bhattacharyya = -ln sum sqrt(p q) ; Hellinger = sqrt(1 - sum sqrt(p q))
	outcome := fmt.Sprintf("den=%d k=%d", den, k)
	{
		bc := zero()
		for i := range p {
			pq := rmul(rat(p[i]), rat(q[i]))
			if pq.Sign() > 0 {
				bc.Add(bc, new(big.Float).SetPrec(prec).Sqrt(bfRat(pq)))
			}
		}
		bcf := bff(bc)
		gotB := stat.Bhattacharyya(p, q)
		if bc.Sign() == 0 {
			if !math.IsInf(gotB, 1) {
				t.Failf("Bhattacharyya of disjoint supports = %v, want +Inf", gotB)
			}
		} else {
			want := -bff(bigLog(bc))
			if !near(gotB, want, 8*(fk+3)*eps*(1+math.Abs(want))) {
				t.Failf("Bhattacharyya(%v,%v) = %v, definition gives %v", p, q, gotB, want)
			}
		}
		gotH := stat.Hellinger(p, q)
		h2 := 1 - bcf
		tol2 := 8 * (fk + 3) * eps
		switch {
		case h2 <= 2*tol2:
			// 1 - BC is zero within rounding (p == q): the exact value of BC over the float
			// inputs may exceed 1, so NaN or anything of size sqrt(rounding) is accepted.
			if !(math.IsNaN(gotH) || gotH*gotH <= 4*tol2) {
				t.Failf("Hellinger(%v,%v) = %v for coincident distributions", p, q, gotH)
			}
			if math.IsNaN(gotH) {
				outcome += " hellinger-nan-dontcare"
			}
		default:
			if !near(gotH*gotH, h2, tol2+4*eps*h2) {
				t.Failf("Hellinger(%v,%v) = %v, definition gives %v", p, q, gotH, math.Sqrt(h2))
			}
		}
	}
	// ChiSquare(obs, exp) = sum (o-e)^2/e, skipping 0/0 terms; counts = numerators.
	{
		obs, exp := make([]float64, k), make([]float64, k)
		for i := range pc {
			obs[i] = float64(pc[i])
			exp[i] = float64(qc[i]) / 2 // halves: exact but not all integers
		}
		s := new(big.Rat)
		inf := false
		for i := range obs {
			if obs[i] == 0 && exp[i] == 0 {
				continue
			}
			if exp[i] == 0 {
				inf = true
				continue
			}
			d := rsub(rat(obs[i]), rat(exp[i]))
			s.Add(s, rquo(rmul(d, d), rat(exp[i])))
		}
		want := rf(s)
		if inf {
			want = math.Inf(1)
		}
		if got := stat.ChiSquare(obs, exp); !near(got, want, 4*(fk+3)*eps*want) {
			t.Failf("ChiSquare(%v,%v) = %v, definition gives %v", obs, exp, got, want)
		}
	}
	if i, ok := vlib.Same64(p, p0); !ok {
		t.Failf("p modified at %d", i)
	}
	if i, ok := vlib.Same64(q, q0); !ok {
		t.Failf("q modified at %d", i)
	}
	t.Nontrivial()
	t.Outcome(outcome)
}

func genDist(g *vlib.G) {
	fillLogCache()
	maxK := vlib.Pick(g, 3, 4)
	for _, den := range []int{8, 10} {
		for k := 1; k <= maxK; k++ {
			comps := compositions(den, k)
			for _, pc := range comps {
				for _, qc := range comps {
					pc, qc, den := pc, qc, den
					gcase(g, fmt.Sprintf("den=%d p=%v q=%v", den, pc, qc), func(t *vlib.T) { distCase(t, den, pc, qc) })
				}
			}
			if g.Stopped() {
				return
			}
		}
	}
	// fixed scalar helpers
	gcase(g, "StdErr/StdScore", func(t *vlib.T) {
		for _, s := range []float64{0, 0.1, 1, 3, big1e15} {
			for _, n := range []float64{1, 2, 3, 7, 10} {
				want := bff(new(big.Float).SetPrec(prec).Quo(bfF(s), new(big.Float).SetPrec(prec).Sqrt(bfF(n))))
				if got := stat.StdErr(s, n); !near(got, want, 4*eps*want) {
					t.Failf("StdErr(%v,%v) = %v, want %v", s, n, got, want)
				}
			}
			for _, mu := range []float64{-1, 0, 0.3} {
				for _, sd := range []float64{0.1, 1, 3} {
					want := rf(rquo(rsub(rat(s), rat(mu)), rat(sd)))
					if got := stat.StdScore(s, mu, sd); !near(got, want, 4*eps*math.Abs(want)) {
						t.Failf("StdScore(%v,%v,%v) = %v, want %v", s, mu, sd, got, want)
					}
				}
			}
		}
		t.Outcome("scalar")
	})
}
