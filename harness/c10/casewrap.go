package main

import (
	"os"

	"gonum.org/v1/gonum/internal/verif/vlib"
)

// keysOnly (C10_KEYS_ONLY=1) replaces every case body by a no-op so that a
// single-shard run checks the uniqueness of all case keys quickly (development aid).
var keysOnly = os.Getenv("C10_KEYS_ONLY") != ""

func gcase(g *vlib.G, key string, run func(t *vlib.T)) {
	if keysOnly {
		g.Case(key, func(t *vlib.T) { t.Nontrivial() })
		return
	}
	g.Case(key, run)
}
