// Group "domain": every panic that the documentation states explicitly
// ("... will panic if ...") happens, and the neighbouring valid call does not panic.
package main

import (
	"gonum.org/v1/gonum/internal/verif/vlib"
	"gonum.org/v1/gonum/mat"
	"gonum.org/v1/gonum/stat"
	"gonum.org/v1/gonum/stat/mds"
	"gonum.org/v1/gonum/stat/spatial"
)

func genDomain(g *vlib.G) {
	x3 := func() []float64 { return []float64{0, 1, 2} }
	w2 := func() []float64 { return []float64{1, 1} }
	d32 := func() *mat.Dense { return mat.NewDense(3, 2, []float64{0, 1, 1, 3, 2, 2}) }
	d31 := func() *mat.Dense { return mat.NewDense(3, 1, []float64{1, 0, 4}) }
	d21 := func() *mat.Dense { return mat.NewDense(2, 1, []float64{1, 0}) }
	okPC := func() *stat.PC { var pc stat.PC; pc.PrincipalComponents(d32(), nil); return &pc }
	okCC := func() *stat.CC { var cc stat.CC; cc.CanonicalCorrelations(d32(), d31(), nil); return &cc }
	cases := []struct {
		name      string
		wantPanic bool
		f         func()
	}{
		{"CDF empty x", true, func() { stat.CDF(0, stat.Empirical, nil, nil) }},
		{"CDF one sample", false, func() { stat.CDF(0, stat.Empirical, []float64{1}, nil) }},
		{"Quantile empty x", true, func() { stat.Quantile(0.5, stat.Empirical, nil, nil) }},
		{"Quantile one sample", false, func() { stat.Quantile(0.5, stat.LinInterp, []float64{1}, nil) }},
		{"ROC weights length", true, func() { stat.ROC(nil, x3(), []bool{true, false, true}, w2()) }},
		{"ROC classes length", true, func() { stat.ROC(nil, x3(), []bool{true, false}, nil) }},
		{"TOC weights length", true, func() { stat.TOC([]bool{true, false, true}, w2()) }},
		{"PC weights length", true, func() { var pc stat.PC; pc.PrincipalComponents(d32(), w2()) }},
		{"PC VectorsTo unsuccessful", true, func() { var pc stat.PC; var v mat.Dense; pc.VectorsTo(&v) }},
		{"PC VarsTo unsuccessful", true, func() { var pc stat.PC; pc.VarsTo(nil) }},
		{"PC VectorsTo wrong shape", true, func() { okPC().VectorsTo(mat.NewDense(3, 2, nil)) }},
		{"PC VectorsTo right shape", false, func() { okPC().VectorsTo(mat.NewDense(2, 2, nil)) }},
		{"PC VarsTo wrong length", true, func() { okPC().VarsTo(make([]float64, 3)) }},
		{"PC VarsTo right length", false, func() { okPC().VarsTo(make([]float64, 2)) }},
		{"CC rows differ", true, func() { var cc stat.CC; cc.CanonicalCorrelations(d32(), d21(), nil) }},
		{"CC weights length", true, func() { var cc stat.CC; cc.CanonicalCorrelations(d32(), d31(), w2()) }},
		{"CC CorrsTo unsuccessful", true, func() { var cc stat.CC; cc.CorrsTo(nil) }},
		{"CC CorrsTo wrong length", true, func() { okCC().CorrsTo(make([]float64, 2)) }},
		{"CC CorrsTo right length", false, func() { okCC().CorrsTo(make([]float64, 1)) }},
		{"CC LeftTo unsuccessful", true, func() { var cc stat.CC; var l mat.Dense; cc.LeftTo(&l, true) }},
		{"CC LeftTo wrong shape", true, func() { okCC().LeftTo(mat.NewDense(1, 2, nil), true) }},
		{"CC LeftTo right shape", false, func() { okCC().LeftTo(mat.NewDense(2, 1, nil), false) }},
		{"CC RightTo wrong shape", true, func() { okCC().RightTo(mat.NewDense(2, 1, nil), true) }},
		{"CC RightTo right shape", false, func() { okCC().RightTo(mat.NewDense(1, 1, nil), false) }},
		{"GetisOrdGStar shape", true, func() { spatial.GetisOrdGStar(0, x3(), nil, mat.NewDense(2, 2, nil)) }},
		{"GetisOrdGStar index", true, func() { spatial.GetisOrdGStar(3, x3(), nil, mat.NewDense(3, 3, []float64{0, 1, 0, 1, 0, 1, 0, 1, 0})) }},
		{"GlobalMoransI shape", true, func() { spatial.GlobalMoransI(x3(), nil, mat.NewDense(3, 2, nil)) }},
		{"Torgerson non-empty dst", true, func() { mds.TorgersonScaling(mat.NewDense(1, 1, nil), nil, mat.NewSymDense(2, nil)) }},
	}
	for _, c := range cases {
		c := c
		gcase(g, c.name, func(t *vlib.T) {
			msg, pan := catch(c.f)
			if pan != c.wantPanic {
				t.Failf("%s: panicked=%v (%q), documentation says panic=%v", c.name, pan, msg, c.wantPanic)
			}
			t.Nontrivial()
			if c.wantPanic {
				t.Outcome("documented panic")
			} else {
				t.Outcome("valid neighbour")
			}
		})
	}
}
