// Group "repr": every matrix/vector argument in every storage representation
// {compact, Slice view with padding inside a larger parent with finite padding (Stride != Cols),
// T() of such a view, T() of a compact matrix, opaque Matrix without raw access},
// with the full definitional oracle per representation, bit-identity with the
// compact result, inputs left untouched, and — for the stateful types PC and CC
// and for every returned destination — caller-owned inputs (weights slice, data
// matrices) overwritten after the call before the results are queried again.
package main

import (
	"fmt"

	"gonum.org/v1/gonum/internal/verif/vlib"
	"gonum.org/v1/gonum/mat"
)

// opaqueMat implements mat.Matrix through At only (no RawMatrixer, no fast paths).
type opaqueMat struct{ m *mat.Dense }

func (o opaqueMat) Dims() (int, int)    { return o.m.Dims() }
func (o opaqueMat) At(i, j int) float64 { return o.m.At(i, j) }
func (o opaqueMat) T() mat.Matrix       { return mat.Transpose{Matrix: o} }

// opaqueSym implements mat.Symmetric through At only (no RawSymmetricer).
type opaqueSym struct{ s *mat.SymDense }

func (o opaqueSym) Dims() (int, int)    { return o.s.Dims() }
func (o opaqueSym) At(i, j int) float64 { return o.s.At(i, j) }
func (o opaqueSym) T() mat.Matrix       { return o }
func (o opaqueSym) SymmetricDim() int   { return o.s.SymmetricDim() }

// opaqueVec implements mat.Vector through AtVec only.
type opaqueVec struct{ v *mat.VecDense }

func (o opaqueVec) Dims() (int, int)    { return o.v.Dims() }
func (o opaqueVec) At(i, j int) float64 { return o.v.At(i, j) }
func (o opaqueVec) T() mat.Matrix       { return mat.Transpose{Matrix: o} }
func (o opaqueVec) AtVec(i int) float64 { return o.v.AtVec(i) }
func (o opaqueVec) Len() int            { return o.v.Len() }

// paddedDense / paddedSym are parents for views. The padding is finite and
// distinctive (not NaN): a routine that reads outside the view must produce a
// wrong finite answer for the oracle to reject, not feed NaNs to an iteration.
func paddedDense(r, c int) *mat.Dense {
	d := mat.NewDense(r, c, nil)
	for i := 0; i < r; i++ {
		for j := 0; j < c; j++ {
			d.Set(i, j, 1000+float64(17*i+3*j)+0.125)
		}
	}
	return d
}

func paddedSym(n int) *mat.SymDense {
	s := mat.NewSymDense(n, nil)
	for i := 0; i < n; i++ {
		for j := i; j < n; j++ {
			s.SetSym(i, j, 500+float64(13*i+5*j)+0.375)
		}
	}
	return s
}

// matRep is one representation of a caller-owned matrix argument.
type matRep struct {
	kind    string
	m       mat.Matrix
	intact  func() bool // the caller's storage (addressed elements and the padding around them) is unchanged
	clobber func()      // the caller overwrites all of its storage (as when refilling a buffer)
}

var matKinds = []string{"compact", "view", "tview", "tcompact", "opaque"}

// buildRep returns the r x c matrix with the given columns in the given representation.
func buildRep(cols [][]float64, kind string) matRep {
	r, c := len(cols[0]), len(cols)
	var parent *mat.Dense
	var m mat.Matrix
	set := func(d *mat.Dense, transposed bool) {
		for j, col := range cols {
			for i, v := range col {
				if transposed {
					d.Set(j, i, v)
				} else {
					d.Set(i, j, v)
				}
			}
		}
	}
	switch kind {
	case "compact":
		parent = mat.NewDense(r, c, nil)
		set(parent, false)
		m = parent
	case "view":
		parent = paddedDense(r+2, c+3)
		v := parent.Slice(1, 1+r, 2, 2+c).(*mat.Dense)
		set(v, false)
		m = v
	case "tview": // stored variables-by-observations inside a wider parent, passed as its transpose
		parent = paddedDense(c+2, r+3)
		v := parent.Slice(1, 1+c, 2, 2+r).(*mat.Dense)
		set(v, true)
		m = v.T()
	case "tcompact":
		parent = mat.NewDense(c, r, nil)
		set(parent, true)
		m = parent.T()
	case "opaque":
		parent = mat.NewDense(r, c, nil)
		set(parent, false)
		m = opaqueMat{parent}
	default:
		panic("harness: unknown representation " + kind)
	}
	before := mat.DenseCopyOf(parent)
	return matRep{
		kind: kind,
		m:    m,
		intact: func() bool {
			_, _, ok := sameMat(parent, before)
			return ok
		},
		clobber: func() {
			pr, pc := parent.Dims()
			for i := 0; i < pr; i++ {
				for j := 0; j < pc; j++ {
					parent.Set(i, j, float64(7*i-3*j)+0.25)
				}
			}
		},
	}
}

// symRep is one representation of a caller-owned symmetric matrix argument.
type symRep struct {
	kind    string
	s       mat.Symmetric
	intact  func() bool
	clobber func()
}

var symKinds = []string{"compact", "view", "view0", "opaque", "symband"}

func buildSymRep(src *mat.SymDense, kind string) symRep {
	n := src.SymmetricDim()
	var parent *mat.SymDense
	var s mat.Symmetric
	var band *mat.SymBandDense
	fill := func(d *mat.SymDense) {
		for i := 0; i < n; i++ {
			for j := i; j < n; j++ {
				d.SetSym(i, j, src.At(i, j))
			}
		}
	}
	switch kind {
	case "compact":
		parent = mat.NewSymDense(n, nil)
		fill(parent)
		s = parent
	case "view": // items 1..n of a larger dissimilarity matrix
		parent = paddedSym(n + 3)
		v := parent.SliceSym(1, 1+n).(*mat.SymDense)
		fill(v)
		s = v
	case "view0": // the leading items of a larger matrix: Stride != n with offset 0
		parent = paddedSym(n + 2)
		v := parent.SliceSym(0, n).(*mat.SymDense)
		fill(v)
		s = v
	case "opaque":
		parent = mat.NewSymDense(n, nil)
		fill(parent)
		s = opaqueSym{parent}
	case "symband":
		parent = mat.NewSymDense(n, nil)
		fill(parent)
		band = mat.NewSymBandDense(n, n-1, nil)
		for i := 0; i < n; i++ {
			for j := i; j < n; j++ {
				band.SetSymBand(i, j, src.At(i, j))
			}
		}
		s = band
	default:
		panic("harness: unknown symmetric representation " + kind)
	}
	before := mat.NewSymDense(parent.SymmetricDim(), nil)
	before.CopySym(parent)
	return symRep{
		kind: kind,
		s:    s,
		intact: func() bool {
			if band != nil {
				for i := 0; i < n; i++ {
					for j := i; j < n; j++ {
						if !sameBits(band.At(i, j), src.At(i, j)) {
							return false
						}
					}
				}
			}
			_, _, ok := sameMat(parent, before)
			return ok
		},
		clobber: func() {
			pn := parent.SymmetricDim()
			for i := 0; i < pn; i++ {
				for j := i; j < pn; j++ {
					parent.SetSym(i, j, float64(5*i+j)+0.5)
					if band != nil && i < n && j < n {
						band.SetSymBand(i, j, float64(5*i+j)+0.5)
					}
				}
			}
		},
	}
}

// vecReps returns a vector as compact VecDense, as a strided column view and as an opaque Vector.
func vecReps(x []float64) map[string]mat.Vector {
	d := len(x)
	compact := mat.NewVecDense(d, cloneF(x))
	parent := paddedDense(d+1, 3)
	for i, v := range x {
		parent.Set(i, 1, v)
	}
	col := parent.Slice(0, d, 0, 3).(*mat.Dense).ColView(1)
	return map[string]mat.Vector{"compact": compact, "colview": col, "opaque": opaqueVec{compact}}
}

// ---- enumeration -------------------------------------------------------------------

// reprWeights: nil, ones, non-uniform integers, non-dyadic, and one zero at the front / back.
func reprWeights(r int) []wspec {
	all := matWeights(r)
	out := []wspec{all[0], all[1], all[2], all[8]}
	if r >= 3 {
		out = append(out, all[5], all[6]) // z0 (non-dyadic with a leading zero), zl (integers with a trailing zero)
	}
	return out
}

func genRepr(g *vlib.G) {
	// CovarianceMatrix / CorrelationMatrix / PC
	type shape struct{ r, c, k int }
	shapes := []shape{{3, 2, 2}, {4, 2, 2}, {3, 3, 2}, {2, 3, 2}}
	if g.Thorough() {
		shapes = []shape{{3, 1, 3}, {3, 2, 3}, {4, 2, 3}, {3, 3, 2}, {2, 3, 3}, {5, 2, 2}, {4, 3, 2}}
	}
	for _, sh := range shapes {
		sh := sh
		sequences(sh.r*sh.c, sh.k, func(idx []int) {
			id := append([]int(nil), idx...)
			for _, ws := range reprWeights(sh.r) {
				for ki, kind := range matKinds {
					ws, kind := ws, kind
					reuse := (ki+id[0])%2 == 1
					gcase(g, fmt.Sprintf("cov %dx%dk%d x=%s w=%s rep=%s", sh.r, sh.c, sh.k, digits(id), ws.name, kind), func(t *vlib.T) {
						data := make([][]float64, sh.c)
						for j := range data {
							data[j] = pick(pairVals, id[j*sh.r:(j+1)*sh.r])
						}
						covmatCaseRep(t, data, ws, reuse, kind)
					})
				}
			}
		})
		if g.Stopped() {
			return
		}
	}
	// CC: both blocks in every representation (same kind), plus mixed pairs
	pairs := [][2]string{{"compact", "tview"}, {"tview", "view"}, {"opaque", "tcompact"}}
	for _, k := range matKinds {
		pairs = append(pairs, [2]string{k, k})
	}
	for _, n := range []int{5, 6} {
		all := matWeights(n)
		wsets := []wspec{all[0], all[1], all[2], all[8], all[5], all[6]}
		for _, xb := range [][]int{{0}, {0, 1}, {1, 2}, {0, 1, 2}} {
			for _, yb := range [][]int{{3}, {4, 5}, {3, 5}} {
				if len(xb) < len(yb) && !g.Thorough() {
					continue
				}
				for _, ws := range wsets {
					for _, pr := range pairs {
						xb, yb, ws, n, pr := xb, yb, ws, n, pr
						gcase(g, fmt.Sprintf("cc n=%d x=%v y=%v w=%s rep=%s/%s", n, xb, yb, ws.name, pr[0], pr[1]), func(t *vlib.T) {
							ccaCaseRep(t, xb, yb, ws, n, pr[0], pr[1])
						})
					}
				}
			}
		}
	}
	if g.Stopped() {
		return
	}
	// TorgersonScaling: the dissimilarity matrix in every symmetric representation
	for n := 1; n <= vlib.Pick(g, 3, 4); n++ {
		n := n
		sequences(n, 9, func(idx []int) {
			id := append([]int(nil), idx...)
			for _, kind := range symKinds {
				kind := kind
				gcase(g, fmt.Sprintf("mds pts=%s rep=%s", digits(id), kind), func(t *vlib.T) {
					pts := make([][2]int, n)
					for i, d := range id {
						pts[i] = [2]int{d / 3, (d % 3) * 2}
					}
					mdsCaseRep(t, pts, (id[0]+n)%2 == 0, kind)
				})
			}
		})
	}
	if !g.Thorough() {
		// a thin slice of larger configurations in the quick tier
		for _, id := range [][]int{{0, 4, 8, 2}, {0, 1, 2, 5}, {3, 3, 7, 1}, {0, 2, 6, 8, 4}, {1, 1, 5, 7, 3}} {
			id := id
			for _, kind := range symKinds {
				kind := kind
				gcase(g, fmt.Sprintf("mds pts=%s rep=%s", digits(id), kind), func(t *vlib.T) {
					pts := make([][2]int, len(id))
					for i, d := range id {
						pts[i] = [2]int{d / 3, (d % 3) * 2}
					}
					mdsCaseRep(t, pts, true, kind)
				})
			}
		}
	}
}
