// Group "roc": ROC against per-threshold counting, AUC against pair counting,
// TOC against its defining sums and a brute force over label arrangements.
package main

import (
	"fmt"
	"math"
	"math/big"

	"gonum.org/v1/gonum/internal/verif/vlib"
	"gonum.org/v1/gonum/stat"
)

var rocGrid = []float64{-2, -0.5, 1, 3, 2e15}

func rocCutoffSets() [][]float64 {
	out := [][]float64{nil, make([]float64, 0, 16)}
	for mask := 1; mask < 1<<len(rocGrid); mask++ {
		var c []float64
		for i, v := range rocGrid {
			if mask&(1<<i) != 0 {
				c = append(c, v)
			}
		}
		out = append(out, c)
	}
	return out
}

func checkROC(t *vlib.T, y []float64, classes []bool, w []float64, cutoffSets [][]float64) string {
	n := len(y)
	wr := ratWeights(w, n)
	pos, neg := new(big.Rat), new(big.Rat)
	for i := range y {
		if classes[i] {
			pos.Add(pos, wr[i])
		} else {
			neg.Add(neg, wr[i])
		}
	}
	tol := float64(2*n+6) * eps
	distinct := 1
	for i := 1; i < n; i++ {
		if y[i] != y[i-1] {
			distinct++
		}
	}
	y0, w0 := cloneF(y), cloneF(w)
	for _, cut := range cutoffSets {
		cut0 := cloneF(cut)
		arg := cut
		if cut != nil && len(cut) == 0 {
			arg = make([]float64, 0, 16) // fresh spare capacity per call
		}
		var tpr, fpr, thr []float64
		msg, pan := catch(func() { tpr, fpr, thr = stat.ROC(arg, y, classes, w) })
		if pan {
			t.Failf("ROC(cutoffs=%v) panics %q on sorted input", cut, msg)
			continue
		}
		if len(cut) == 0 {
			if len(thr) != distinct+1 {
				t.Failf("ROC(all cutoffs): %d thresholds for %d distinct values", len(thr), distinct)
				continue
			}
			if !math.IsInf(thr[0], 1) || thr[len(thr)-1] != y[0] {
				t.Failf("ROC(all cutoffs): thresholds %v do not run from +Inf to min(y)", thr)
			}
		} else {
			if len(thr) != len(cut) {
				t.Failf("ROC: %d thresholds for %d cutoffs", len(thr), len(cut))
				continue
			}
			for i := range cut {
				if thr[len(thr)-1-i] != cut[i] {
					t.Failf("ROC: thresholds %v are not the reversed cutoffs %v", thr, cut)
					break
				}
			}
			if i, ok := vlib.Same64(cut, cut0); !ok {
				t.Failf("ROC modified the provided cutoffs at %d", i)
			}
		}
		if len(tpr) != len(thr) || len(fpr) != len(thr) {
			t.Failf("ROC: lengths tpr=%d fpr=%d thresh=%d", len(tpr), len(fpr), len(thr))
			continue
		}
		for i, c := range thr {
			if i > 0 && !(thr[i] < thr[i-1]) && len(cut) == 0 {
				t.Failf("ROC thresholds not strictly decreasing: %v", thr)
			}
			tp, fp := new(big.Rat), new(big.Rat)
			for k := range y {
				if y[k] >= c {
					if classes[k] {
						tp.Add(tp, wr[k])
					} else {
						fp.Add(fp, wr[k])
					}
				}
			}
			if pos.Sign() > 0 {
				if want := rf(rquo(tp, pos)); !near(tpr[i], want, tol) {
					t.Failf("ROC(cutoffs=%v) tpr[%d] (y >= %v) = %v, counting gives %v", cut, i, c, tpr[i], want)
				}
				if i > 0 && !(tpr[i] >= tpr[i-1]-tol) {
					t.Failf("ROC tpr not monotone: %v", tpr)
				}
			}
			if neg.Sign() > 0 {
				if want := rf(rquo(fp, neg)); !near(fpr[i], want, tol) {
					t.Failf("ROC(cutoffs=%v) fpr[%d] (y >= %v) = %v, counting gives %v", cut, i, c, fpr[i], want)
				}
				if i > 0 && !(fpr[i] >= fpr[i-1]-tol) {
					t.Failf("ROC fpr not monotone: %v", fpr)
				}
			}
		}
		if len(cut) == 0 && pos.Sign() > 0 && neg.Sign() > 0 {
			// endpoints and area under the curve by pair counting
			last := len(thr) - 1
			if !near(tpr[0], 0, tol) || !near(fpr[0], 0, tol) || !near(tpr[last], 1, tol) || !near(fpr[last], 1, tol) {
				t.Failf("ROC endpoints: tpr %v fpr %v", tpr, fpr)
			}
			auc := 0.0
			for i := 1; i < len(thr); i++ {
				auc += (fpr[i] - fpr[i-1]) * (tpr[i] + tpr[i-1]) / 2
			}
			pairs := new(big.Rat)
			half := big.NewRat(1, 2)
			for i := range y {
				for j := range y {
					if classes[i] && !classes[j] {
						ww := rmul(wr[i], wr[j])
						switch {
						case y[i] > y[j]:
							pairs.Add(pairs, ww)
						case y[i] == y[j]:
							pairs.Add(pairs, rmul(ww, half))
						}
					}
				}
			}
			want := rf(rquo(pairs, rmul(pos, neg)))
			if !near(auc, want, 4*float64(n+4)*tol) {
				t.Failf("ROC area %v, pair counting gives %v", auc, want)
			}
		}
	}
	if i, ok := vlib.Same64(y, y0); !ok {
		t.Failf("y modified at %d", i)
	}
	if i, ok := vlib.Same64(w, w0); !ok {
		t.Failf("weights modified at %d", i)
	}
	return fmt.Sprintf("n=%d distinct=%d pos>0=%v neg>0=%v", n, distinct, pos.Sign() > 0, neg.Sign() > 0)
}

func checkTOC(t *vlib.T, classes []bool, w []float64) {
	n := len(classes)
	var mn, ntp, mx []float64
	msg, pan := catch(func() { mn, ntp, mx = stat.TOC(classes, w) })
	if pan {
		t.Failf("TOC panics %q", msg)
		return
	}
	if len(mn) != n+1 || len(ntp) != n+1 || len(mx) != n+1 {
		t.Failf("TOC lengths %d %d %d, want %d", len(mn), len(ntp), len(mx), n+1)
		return
	}
	wr := ratWeights(w, n)
	W := rsum(wr)
	tol := float64(2*n+4) * eps * rf(W)
	if w == nil {
		tol = 0
	}
	totalPos := new(big.Rat)
	for i := range classes {
		if classes[i] {
			totalPos.Add(totalPos, wr[i])
		}
	}
	for i := 0; i <= n; i++ {
		// ntp_i = sum_{j >= n-i} [classes_j] w_j ; cumw_i = sum_{j >= n-i} w_j
		s, cw := new(big.Rat), new(big.Rat)
		for j := n - i; j < n; j++ {
			cw.Add(cw, wr[j])
			if classes[j] {
				s.Add(s, wr[j])
			}
		}
		if !near(ntp[i], rf(s), tol) {
			t.Failf("TOC ntp[%d] = %v, defining sum gives %v", i, ntp[i], rf(s))
		}
		// bounds: max_i = min(P, cumw_i), min_i = max(0, P - (W - cumw_i))
		wmax := cw
		if totalPos.Cmp(cw) < 0 {
			wmax = totalPos
		}
		wmin := rsub(totalPos, rsub(W, cw))
		if wmin.Sign() < 0 {
			wmin = new(big.Rat)
		}
		if !near(mx[i], rf(wmax), tol) || !near(mn[i], rf(wmin), tol) {
			t.Failf("TOC bounds[%d] = [%v,%v], want [%v,%v]", i, mn[i], mx[i], rf(wmin), rf(wmax))
		}
		if !(mn[i] <= ntp[i]+tol && ntp[i] <= mx[i]+tol) {
			t.Failf("TOC ntp[%d]=%v outside [%v,%v]", i, ntp[i], mn[i], mx[i])
		}
	}
	if ntp[0] != 0 || mn[0] != 0 || mx[0] != 0 {
		t.Failf("TOC first elements not zero: %v %v %v", mn[0], ntp[0], mx[0])
	}
	if w == nil {
		// brute force: extreme ntp over all label arrangements with the same number of positives.
		np := 0
		for _, c := range classes {
			if c {
				np++
			}
		}
		lo, hi := make([]int, n+1), make([]int, n+1)
		for i := range lo {
			lo[i] = n + 1
		}
		for mask := 0; mask < 1<<n; mask++ {
			cnt := 0
			for j := 0; j < n; j++ {
				if mask&(1<<j) != 0 {
					cnt++
				}
			}
			if cnt != np {
				continue
			}
			s := 0
			for i := 0; i <= n; i++ {
				if i > 0 && mask&(1<<(n-i)) != 0 {
					s++
				}
				if s < lo[i] {
					lo[i] = s
				}
				if s > hi[i] {
					hi[i] = s
				}
			}
		}
		for i := 0; i <= n; i++ {
			if mn[i] != float64(lo[i]) || mx[i] != float64(hi[i]) {
				t.Failf("TOC bounds[%d] = [%v,%v], brute force over arrangements gives [%d,%d]", i, mn[i], mx[i], lo[i], hi[i])
			}
		}
	}
}

func genROC(g *vlib.G) {
	maxN := vlib.Pick(g, 5, 6)
	cuts := rocCutoffSets()
	gcase(g, "empty", func(t *vlib.T) {
		a, b, c := stat.ROC(nil, nil, nil, nil)
		d, e, f := stat.TOC(nil, nil)
		if a != nil || b != nil || c != nil || d != nil || e != nil || f != nil {
			t.Failf("ROC/TOC of empty input not nil")
		}
		t.Outcome("empty")
	})
	for n := 1; n <= maxN; n++ {
		n := n
		multisets(n, 6, func(idx []int) {
			id := append([]int(nil), idx...)
			for lab := 0; lab < 1<<n; lab++ {
				lab := lab
				wsets := ksWeights(n)
				if n >= 5 && !g.Thorough() {
					wsets = []wspec{wsets[0], wsets[3], wsets[6]}
				}
				for _, ws := range wsets {
					ws := ws
					gcase(g, fmt.Sprintf("y=%s lab=%0*b w=%s", digits(id), n, lab, ws.name), func(t *vlib.T) {
						y := pick(vals6, id)
						classes := make([]bool, n)
						for i := range classes {
							classes[i] = lab&(1<<i) != 0
						}
						w := cloneF(ws.w)
						out := checkROC(t, y, classes, w, cuts)
						checkTOC(t, classes, w)
						if ws.name == "ones" {
							a1, b1, c1 := stat.ROC(nil, y, classes, w)
							a2, b2, c2 := stat.ROC(nil, y, classes, nil)
							for _, pr := range [][2][]float64{{a1, a2}, {b1, b2}, {c1, c2}} {
								if len(pr[0]) != len(pr[1]) {
									t.Failf("ROC ones/nil lengths differ")
								} else if i, ok := vlib.Same64(pr[0], pr[1]); !ok {
									t.Failf("ROC ones != nil at %d", i)
								}
							}
						}
						if n >= 2 {
							t.Nontrivial()
						}
						t.Outcome(out)
						if t.Failed() {
							t.Detail(map[string]any{"y": y, "classes": classes, "w": w})
						}
					})
				}
			}
		})
		if g.Stopped() {
			return
		}
	}
}
