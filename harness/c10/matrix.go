// Groups "covmat" (CovarianceMatrix, CorrelationMatrix, PC), "mahalanobis" and
// "cca": matrix statistics against exact rational covariance matrices and the
// defining equations of PCA / CCA.
package main

import (
	"fmt"
	"math"
	"math/big"

	"gonum.org/v1/gonum/internal/verif/vlib"
	"gonum.org/v1/gonum/mat"
	"gonum.org/v1/gonum/stat"
)

// colStats are the exact weighted column statistics of a data matrix.
type colStats struct {
	r, c   int
	cols   []*mom
	W      X
	Wf     float64
	cov    [][]X       // S_ij = sum w d_i d_j (unnormalised)
	covAbs [][]float64 // Cauchy-Schwarz magnitude for rounding bounds
}

func newColStats(data [][]float64, w []float64) *colStats {
	c := len(data)
	cs := &colStats{r: len(data[0]), c: c}
	for _, col := range data {
		cs.cols = append(cs.cols, newMom(col, w))
	}
	cs.W = cs.cols[0].W
	cs.Wf = bff(cs.W)
	cs.cov = make([][]X, c)
	cs.covAbs = make([][]float64, c)
	for i := 0; i < c; i++ {
		cs.cov[i] = make([]X, c)
		cs.covAbs[i] = make([]float64, c)
		for j := 0; j < c; j++ {
			a, b := cs.cols[i], cs.cols[j]
			cs.cov[i][j] = a.coSum(b)
			ea := a.Sf + cs.Wf*a.tau*a.tau
			eb := b.Sf + cs.Wf*b.tau*b.tau
			cs.covAbs[i][j] = math.Sqrt(ea * eb)
		}
	}
	return cs
}

func denseFromCols(data [][]float64) *mat.Dense {
	c, r := len(data), len(data[0])
	m := mat.NewDense(r, c, nil)
	for j, col := range data {
		for i, v := range col {
			m.Set(i, j, v)
		}
	}
	return m
}

// covTol bounds the error of the (uncorrected) two-pass matrix covariance entry (i,j).
func (cs *colStats) covTol(i, j int) float64 {
	fn := float64(cs.r)
	W := cs.Wf
	relW1 := (2*(fn+2)*eps*W + 2*eps) / (W - 1)
	a, b := cs.cols[i], cs.cols[j]
	num := 8*(fn+6)*eps*cs.covAbs[i][j] + W*a.tau*b.tau
	return (num+xabsf(cs.cov[i][j])*relW1)/(W-1)*(1+2*relW1) + 4*eps*xabsf(cs.cov[i][j])/(W-1)
}

func covmatCase(t *vlib.T, data [][]float64, ws wspec, reuse bool) {
	covmatCaseRep(t, data, ws, reuse, "compact")
}

// covmatCaseRep is covmatCase with the data matrix in the given storage representation.
func covmatCaseRep(t *vlib.T, data [][]float64, ws wspec, reuse bool, kind string) {
	w := cloneF(ws.w)
	r, c := len(data[0]), len(data)
	cs := newColStats(data, w)
	rep := buildRep(data, kind)
	x := rep.m
	x0 := mat.DenseCopyOf(x)
	outcome := fmt.Sprintf("r=%d c=%d rep=%s", r, c, kind)
	unbiased := cs.Wf >= 1.05
	if !unbiased {
		t.Outcome(outcome + " W<=1")
		return
	}
	W1 := xsub(cs.W, xi(1))
	var cov, cor mat.SymDense
	if reuse {
		// non-empty destination holding garbage must be overwritten
		cov = *mat.NewSymDense(c, nil)
		cor = *mat.NewSymDense(c, nil)
		for i := 0; i < c; i++ {
			for j := i; j < c; j++ {
				cov.SetSym(i, j, vlib.Poison64(i*c+j))
				cor.SetSym(i, j, vlib.Poison64(i*c+j))
			}
		}
	}
	stat.CovarianceMatrix(&cov, x, w)
	stat.CorrelationMatrix(&cor, x, w)
	if !mat.Equal(x, x0) || !rep.intact() {
		t.Failf("input matrix (or the storage around the view) modified")
	}
	if kind != "compact" {
		// the result must not depend on how the caller stores the data
		var cov0, cor0 mat.SymDense
		stat.CovarianceMatrix(&cov0, denseFromCols(data), w)
		stat.CorrelationMatrix(&cor0, denseFromCols(data), w)
		if i, j, ok := sameMat(&cov, &cov0); !ok {
			t.Failf("CovarianceMatrix of the %s representation differs from the compact one at (%d,%d): %v vs %v", kind, i, j, cov.At(i, j), cov0.At(i, j))
		}
		if i, j, ok := sameMat(&cor, &cor0); !ok {
			t.Failf("CorrelationMatrix of the %s representation differs from the compact one at (%d,%d)", kind, i, j)
		}
	}
	if n := cov.SymmetricDim(); n != c {
		t.Failf("CovarianceMatrix dimension %d, want %d", n, c)
		return
	}
	covBefore := mat.NewSymDense(c, nil)
	covBefore.CopySym(&cov)
	constCol := make([]bool, c)
	for i := 0; i < c; i++ {
		constCol[i] = cs.cols[i].SW2.Sign() == 0
		if constCol[i] {
			outcome += " constcol"
		}
	}
	for i := 0; i < c; i++ {
		for j := 0; j < c; j++ {
			got := cov.At(i, j)
			if !sameBits(got, cov.At(j, i)) {
				t.Failf("CovarianceMatrix not symmetric at (%d,%d)", i, j)
			}
			want := bff(xquo(cs.cov[i][j], W1))
			tol := cs.covTol(i, j)
			if !near(got, want, tol) {
				t.Failf("CovarianceMatrix[%d,%d] = %v, definition gives %v (bound %.3g)", i, j, got, want, tol)
			}
			// agreement with the scalar function (different algorithm, same definition)
			sc := stat.Covariance(data[i], data[j], w)
			if !near(got, sc, 2*tol) {
				t.Failf("CovarianceMatrix[%d,%d] = %v but Covariance = %v", i, j, got, sc)
			}
			// correlation
			gc := cor.At(i, j)
			if !sameBits(gc, cor.At(j, i)) {
				t.Failf("CorrelationMatrix not symmetric at (%d,%d)", i, j)
			}
			if i == j {
				if gc != 1 {
					t.Failf("CorrelationMatrix diagonal [%d] = %v", i, gc)
				}
				continue
			}
			if constCol[i] || constCol[j] {
				continue // 0/0: undefined
			}
			si, sj := cs.cols[i].Sf, cs.cols[j].Sf
			ti, tj := cs.covTol(i, i)*(cs.Wf-1), cs.covTol(j, j)*(cs.Wf-1)
			if ti/si > 1e-3 || tj/sj > 1e-3 {
				continue
			}
			den := math.Sqrt(si) * math.Sqrt(sj)
			wc := bff(cs.cov[i][j]) / den
			tolc := tol*(cs.Wf-1)/den*1.01 + math.Abs(wc)*(ti/si+tj/sj) + 8*eps
			if !near(gc, wc, tolc) {
				t.Failf("CorrelationMatrix[%d,%d] = %v, definition gives %v (bound %.3g)", i, j, gc, wc, tolc)
			}
			if !(math.Abs(gc) <= 1+2*float64(r+5)*eps) {
				t.Failf("|CorrelationMatrix[%d,%d]| = %v > 1", i, j, gc)
			}
			if scc := stat.Correlation(data[i], data[j], w); !near(gc, scc, 2*tolc) {
				t.Failf("CorrelationMatrix[%d,%d] = %v but Correlation = %v", i, j, gc, scc)
			}
		}
	}
	// positive semi-definiteness through the principal minors of the returned matrix
	psd := func(m *mat.SymDense, name string) {
		for _, set := range [][]int{{0}, {1}, {2}, {0, 1}, {0, 2}, {1, 2}, {0, 1, 2}} {
			ok := true
			for _, s := range set {
				if s >= c {
					ok = false
				}
			}
			if !ok {
				continue
			}
			var det, abs float64
			a := func(i, j int) float64 { return m.At(set[i], set[j]) }
			switch len(set) {
			case 1:
				det, abs = a(0, 0), math.Abs(a(0, 0))
			case 2:
				det = a(0, 0)*a(1, 1) - a(0, 1)*a(0, 1)
				abs = math.Abs(a(0, 0)*a(1, 1)) + a(0, 1)*a(0, 1)
			case 3:
				terms := []float64{a(0, 0) * a(1, 1) * a(2, 2), 2 * a(0, 1) * a(1, 2) * a(0, 2), -a(0, 0) * a(1, 2) * a(1, 2), -a(1, 1) * a(0, 2) * a(0, 2), -a(2, 2) * a(0, 1) * a(0, 1)}
				for _, v := range terms {
					det += v
					abs += math.Abs(v)
				}
			}
			if math.IsNaN(det) {
				continue // undefined correlation entries
			}
			if det < -64*float64(r+6)*eps*abs {
				t.Failf("%s not PSD: principal minor %v = %v", name, set, det)
			}
		}
	}
	big15 := false
	for _, col := range data {
		for _, v := range col {
			if v == big1e15 {
				big15 = true
			}
		}
	}
	if !big15 {
		psd(&cov, "CovarianceMatrix")
		psd(&cor, "CorrelationMatrix")
	}
	if ws.name == "ones" {
		var c2 mat.SymDense
		stat.CovarianceMatrix(&c2, x, nil)
		for i := 0; i < c; i++ {
			for j := 0; j < c; j++ {
				if ulpDiff(c2.At(i, j), cov.At(i, j)) > 0 {
					t.Failf("CovarianceMatrix ones[%d,%d]=%v != nil %v", i, j, cov.At(i, j), c2.At(i, j))
				}
			}
		}
	}

	// PCA defining equations: C v_j = var_j v_j, V'V = I, vars descending and summing to trace(C).
	if !big15 {
		var pc stat.PC
		if reuse {
			// a PC value used before (weighted), then reused: results must not depend on history.
			hw := make([]float64, r)
			for i := range hw {
				hw[i] = float64(i + 1)
			}
			pc.PrincipalComponents(x, hw)
			outcome += " pc-reused"
		}
		if ok := pc.PrincipalComponents(x, w); !ok {
			t.Failf("PrincipalComponents failed")
		} else {
			k := min(r, c)
			vars := pc.VarsTo(nil)
			var vecs mat.Dense
			pc.VectorsTo(&vecs)
			vr, vc := vecs.Dims()
			if len(vars) != k || vr != c || vc != k {
				t.Failf("PC sizes: vars %d vectors %dx%d, want %d and %dx%d", len(vars), vr, vc, k, c, k)
			} else {
				C := make([][]float64, c)
				trace := 0.0
				for i := range C {
					C[i] = make([]float64, c)
					for j := range C[i] {
						C[i][j] = bff(xquo(cs.cov[i][j], W1))
					}
					trace += C[i][i]
				}
				// second-order effect of the error tau_j of each computed column mean: sum w (d-delta)^2 = S + W delta^2
				tau2 := 0.0
				for j := 0; j < c; j++ {
					tau2 += cs.cols[j].tau * cs.cols[j].tau
				}
				tol := 256*float64(r+c+4)*eps*(trace+1e-300) + 8*cs.Wf*tau2/(cs.Wf-1)
				sum := 0.0
				bad := false
				for j := 0; j < k; j++ {
					sum += vars[j]
					if vars[j] < -tol || (j > 0 && vars[j] > vars[j-1]+tol) {
						bad = true
					}
					for i := 0; i < c; i++ {
						cv := 0.0
						for l := 0; l < c; l++ {
							cv += C[i][l] * vecs.At(l, j)
						}
						if math.Abs(cv-vars[j]*vecs.At(i, j)) > tol {
							bad = true
						}
					}
					for j2 := 0; j2 <= j; j2++ {
						dot := 0.0
						for i := 0; i < c; i++ {
							dot += vecs.At(i, j) * vecs.At(i, j2)
						}
						want := 0.0
						if j == j2 {
							want = 1
						}
						if math.Abs(dot-want) > 256*float64(c+4)*eps {
							t.Failf("PC vectors not orthonormal: <v%d,v%d> = %v", j, j2, dot)
						}
					}
				}
				if math.Abs(sum-trace) > tol {
					bad = true
				}
				if bad {
					msg := fmt.Sprintf("PC vars %v do not satisfy C v = var v / ordering / sum=trace(C)=%v for covariance %v", vars, trace, C)
					if reuse {
						var fresh stat.PC
						fresh.PrincipalComponents(x, w)
						fv := fresh.VarsTo(nil)
						same := len(fv) == len(vars)
						for i := range fv {
							if same && !sameBits(fv[i], vars[i]) {
								same = false
							}
						}
						if !same {
							t.SubViolation("PC-reuse", "pc-reuse-stale-weights", map[string]any{"vars": vars, "fresh": fv},
								"PC reused after a weighted analysis gives vars %v, a fresh PC gives %v", vars, fv)
						} else {
							t.Failf("%s", msg)
						}
					} else {
						t.Failf("%s", msg)
					}
				}
			}
		}
	}
	if i, ok := vlib.Same64(w, ws.w); !ok {
		t.Failf("weights modified at %d", i)
	}
	if !rep.intact() {
		t.Failf("input storage modified by PrincipalComponents")
	}
	if !big15 {
		// A finished analysis owns its state: the caller may refill its weights
		// buffer and its data matrix, and may have stored the data in any way.
		var pc stat.PC
		if pc.PrincipalComponents(x, w) {
			vars := pc.VarsTo(nil)
			var vecs mat.Dense
			pc.VectorsTo(&vecs)
			if kind != "compact" {
				var pc0 stat.PC
				pc0.PrincipalComponents(denseFromCols(data), cloneF(ws.w))
				v0 := pc0.VarsTo(nil)
				var e0 mat.Dense
				pc0.VectorsTo(&e0)
				if i, ok := vlib.Same64(vars, v0); !ok {
					t.Failf("PC variances of the %s representation differ from the compact one at %d: %v vs %v", kind, i, vars, v0)
				}
				if i, j, ok := sameMat(&vecs, &e0); !ok {
					t.Failf("PC vectors of the %s representation differ from the compact one at (%d,%d)", kind, i, j)
				}
			}
			for step := 0; step < 3; step++ {
				switch step {
				case 0: // refill the weights buffer
					for i := range w {
						w[i] = float64(3*i) + 0.5
					}
				case 1: // zero it (sum-1 = -1)
					for i := range w {
						w[i] = 0
					}
				case 2: // overwrite the data
					rep.clobber()
				}
				v2 := pc.VarsTo(nil)
				var e2 mat.Dense
				pc.VectorsTo(&e2)
				if i, ok := vlib.Same64(v2, vars); !ok {
					t.Failf("PC.VarsTo changes after the caller overwrote its %s (element %d: %v, before %v)", []string{"weights", "weights", "data matrix"}[step], i, v2, vars)
				}
				if i, j, ok := sameMat(&e2, &vecs); !ok {
					t.Failf("PC.VectorsTo changes after the caller overwrote its %s at (%d,%d)", []string{"weights", "weights", "data matrix"}[step], i, j)
				}
			}
			// the covariance destination does not alias the (now overwritten) input either
			if i, j, ok := sameMat(&cov, covBefore); !ok {
				t.Failf("CovarianceMatrix result changes when the caller overwrites its inputs, at (%d,%d)", i, j)
			}
		}
	}
	t.Nontrivial()
	t.Outcome(outcome)
	if t.Failed() {
		t.Detail(map[string]any{"cols": data, "w": ws.w, "rep": kind})
	}
}

func matWeights(r int) []wspec {
	ws := ksWeights(r)
	twos := make([]float64, r)
	for i := range twos {
		twos[i] = 2
	}
	// non-dyadic weights whose sum exceeds 1 for every r >= 2 (the unbiased estimator's domain)
	big := make([]float64, r)
	for i := range big {
		big[i] = []float64{0.7, 1.3, 0.3, 2.1, 0.1}[i%5]
	}
	return append(ws, wspec{"twos", twos}, wspec{"ndbig", big})
}

func genCovMat(g *vlib.G) {
	type shape struct{ r, c, k int }
	shapes := []shape{{2, 1, 4}, {2, 2, 4}, {3, 1, 4}, {3, 2, 4}, {4, 2, 3}, {3, 3, 3}, {2, 3, 3}}
	if g.Thorough() {
		shapes = []shape{{2, 1, 4}, {2, 2, 4}, {3, 1, 4}, {3, 2, 4}, {4, 2, 4}, {3, 3, 3}, {2, 3, 3}, {5, 2, 3}}
	}
	for _, sh := range shapes {
		sh := sh
		sequences(sh.r*sh.c, sh.k, func(idx []int) {
			id := append([]int(nil), idx...)
			wsets := matWeights(sh.r)
			if sh.r*sh.c >= 9 && !g.Thorough() {
				wsets = []wspec{wsets[0], wsets[2], wsets[5], wsets[8]} // nil, ramp, one zero, non-dyadic
			}
			for wi, ws := range wsets {
				ws := ws
				reuse := (wi+id[0])%2 == 1
				gcase(g, fmt.Sprintf("%dx%d x=%s w=%s", sh.r, sh.c, digits(id), ws.name), func(t *vlib.T) {
					data := make([][]float64, sh.c)
					for j := range data {
						data[j] = pick(pairVals, id[j*sh.r:(j+1)*sh.r])
					}
					covmatCase(t, data, ws, reuse)
				})
			}
		})
		if g.Stopped() {
			return
		}
	}
}

// ---- Mahalanobis -----------------------------------------------------------------

// solveRat solves A z = b exactly by Gaussian elimination.
func solveRat(A [][]*big.Rat, b []*big.Rat) []*big.Rat {
	n := len(b)
	M := make([][]*big.Rat, n)
	for i := range M {
		M[i] = make([]*big.Rat, n+1)
		for j := 0; j < n; j++ {
			M[i][j] = new(big.Rat).Set(A[i][j])
		}
		M[i][n] = new(big.Rat).Set(b[i])
	}
	for col := 0; col < n; col++ {
		p := -1
		for i := col; i < n; i++ {
			if M[i][col].Sign() != 0 {
				p = i
				break
			}
		}
		if p < 0 {
			return nil
		}
		M[col], M[p] = M[p], M[col]
		for i := 0; i < n; i++ {
			if i == col || M[i][col].Sign() == 0 {
				continue
			}
			f := rquo(M[i][col], M[col][col])
			for j := col; j <= n; j++ {
				M[i][j] = rsub(M[i][j], rmul(f, M[col][j]))
			}
		}
	}
	z := make([]*big.Rat, n)
	for i := range z {
		z[i] = rquo(M[i][n], M[i][i])
	}
	return z
}

var spdFamily = [][][]float64{
	{{1}}, {{4}}, {{0.5}},
	{{1, 0}, {0, 1}}, {{2, 1}, {1, 2}}, {{4, -2}, {-2, 3}}, {{1, 0.5}, {0.5, 1}},
	{{1, 0, 0}, {0, 1, 0}, {0, 0, 1}}, {{4, 2, 0}, {2, 5, 1}, {0, 1, 3}}, {{2, -1, 0}, {-1, 2, -1}, {0, -1, 2}},
}

func genMahalanobis(g *vlib.G) {
	vals := []float64{-1, 0, 2}
	for si, S := range spdFamily {
		si, S := si, S
		d := len(S)
		sequences(2*d, 3, func(idx []int) {
			id := append([]int(nil), idx...)
			gcase(g, fmt.Sprintf("S%d xy=%s", si, digits(id)), func(t *vlib.T) {
				x, y := pick(vals, id[:d]), pick(vals, id[d:])
				sym := mat.NewSymDense(d, nil)
				A := make([][]*big.Rat, d)
				norm := 0.0
				for i := range S {
					A[i] = rats(S[i])
					for j := range S[i] {
						sym.SetSym(i, j, S[i][j])
						norm += math.Abs(S[i][j])
					}
				}
				var chol mat.Cholesky
				if !chol.Factorize(sym) {
					t.Failf("family matrix %d not SPD", si)
					return
				}
				diff := make([]*big.Rat, d)
				for i := range diff {
					diff[i] = rsub(rat(x[i]), rat(y[i]))
				}
				z := solveRat(A, diff)
				q := new(big.Rat)
				zn := 0.0
				for i := range z {
					q.Add(q, rmul(z[i], diff[i]))
					zn += math.Abs(rf(z[i])) * math.Abs(rf(diff[i]))
				}
				want := sqrtRat(q)
				got := stat.Mahalanobis(mat.NewVecDense(d, x), mat.NewVecDense(d, y), &chol)
				// condition of the solve bounded by |S| |S^-1| <= norm * (zn/|diff|^2); generous constant.
				tol := 256 * float64(d+2) * eps * (1 + norm) * (1 + zn) / math.Max(want, 1e-8)
				if q.Sign() == 0 {
					tol = 0
				}
				if !near(got, want, tol) {
					t.Failf("Mahalanobis(%v,%v,S%d) = %v, exact solve gives %v", x, y, si, got, want)
				}
				// vector arguments as strided column views and opaque Vectors, Cholesky of a padded view
				{
					big := poisonSym(d + 2)
					sv := big.SliceSym(1, 1+d).(*mat.SymDense)
					for i := range S {
						for j := i; j < d; j++ {
							sv.SetSym(i, j, S[i][j])
						}
					}
					var cholV mat.Cholesky
					if !cholV.Factorize(sv) {
						t.Failf("Cholesky of a SymDense view of family matrix %d failed", si)
					}
					xr, yr := vecReps(x), vecReps(y)
					for _, kx := range []string{"compact", "colview", "opaque"} {
						for _, ky := range []string{"compact", "colview", "opaque"} {
							for ci, ch := range []*mat.Cholesky{&chol, &cholV} {
								if g2 := stat.Mahalanobis(xr[kx], yr[ky], ch); !sameBits(g2, got) {
									t.Failf("Mahalanobis(x %s, y %s, chol %d) = %v, compact arguments give %v", kx, ky, ci, g2, got)
								}
							}
						}
					}
				}
				if rev := stat.Mahalanobis(mat.NewVecDense(d, y), mat.NewVecDense(d, x), &chol); !near(rev, got, 2*tol) {
					t.Failf("Mahalanobis not symmetric: %v vs %v", got, rev)
				}
				if d >= 2 {
					t.Nontrivial()
				}
				t.Outcome(fmt.Sprintf("d=%d zero=%v", d, q.Sign() == 0))
			})
		})
	}
}

// ---- CCA -----------------------------------------------------------------------------

// fixed columns (6 observations) from which x and y blocks are drawn
var ccaCols = [][]float64{
	{0, 1, 2, 3, 4, 5},
	{1, 0, 2, 5, 3, 3},
	{2, -1, 0, 1, 4, -2},
	{0, 0, 1, 1, 0, 3},
	{3, 1, -2, 0, 1, 1},
	{1, 4, 1, 0, 2, -1},
	{2, 2, 2, 2, 2, 2}, // constant: only used by the degenerate destination cases of group dst
}

type rmat [][]*big.Rat

func rmatMul(a, b rmat) rmat {
	out := make(rmat, len(a))
	for i := range a {
		out[i] = make([]*big.Rat, len(b[0]))
		for j := range out[i] {
			s := new(big.Rat)
			for k := range b {
				s.Add(s, rmul(a[i][k], b[k][j]))
			}
			out[i][j] = s
		}
	}
	return out
}

func rmatT(a rmat) rmat {
	out := make(rmat, len(a[0]))
	for i := range out {
		out[i] = make([]*big.Rat, len(a))
		for j := range a {
			out[i][j] = a[j][i]
		}
	}
	return out
}

func rmatOfDense(m *mat.Dense) rmat {
	r, c := m.Dims()
	out := make(rmat, r)
	for i := range out {
		out[i] = make([]*big.Rat, c)
		for j := range out[i] {
			out[i][j] = rat(m.At(i, j))
		}
	}
	return out
}

// crossCov returns the exact weighted covariance block between column sets a and b.
func crossCov(a, b [][]float64, w []float64) rmat {
	out := make(rmat, len(a))
	for i := range a {
		out[i] = make([]*big.Rat, len(b))
		ma := newMom(a[i], w).withRats()
		for j := range b {
			mb := newMom(b[j], w).withRats()
			s := new(big.Rat)
			for k := range ma.dr {
				s.Add(s, rmul(ma.wr[k], rmul(ma.dr[k], mb.dr[k])))
			}
			out[i][j] = rquo(s, rsub(ma.Wr, rint(1)))
		}
	}
	return out
}

func rmatInv(a rmat) rmat {
	n := len(a)
	out := make(rmat, n)
	for i := range out {
		out[i] = make([]*big.Rat, n)
	}
	for j := 0; j < n; j++ {
		e := make([]*big.Rat, n)
		for i := range e {
			e[i] = new(big.Rat)
		}
		e[j] = rint(1)
		z := solveRat(a, e)
		if z == nil {
			return nil
		}
		for i := range z {
			out[i][j] = z[i]
		}
	}
	return out
}

func rmatNorm(a rmat) float64 {
	s := 0.0
	for i := range a {
		for j := range a[i] {
			s += math.Abs(rf(a[i][j]))
		}
	}
	return s
}

func ccaCase(t *vlib.T, xc, yc []int, ws wspec, n int) {
	ccaCaseRep(t, xc, yc, ws, n, "compact", "compact")
}

// ccaCaseRep is ccaCase with the two data blocks in the given storage representations.
func ccaCaseRep(t *vlib.T, xc, yc []int, ws wspec, n int, xkind, ykind string) {
	ccaDataRep(t, colsOf(xc, n), colsOf(yc, n), ws, xkind, ykind)
}

// ccaDataRep checks one canonical correlation analysis with the data blocks given by value.
func ccaDataRep(t *vlib.T, xcols, ycols [][]float64, ws wspec, xkind, ykind string) {
	w := cloneF(ws.w)
	xd, yd := len(xcols), len(ycols)
	n := len(xcols[0])
	xrep, yrep := buildRep(xcols, xkind), buildRep(ycols, ykind)
	X, Y := xrep.m, yrep.m
	Sx, Sy, Sxy := crossCov(xcols, xcols, w), crossCov(ycols, ycols, w), crossCov(xcols, ycols, w)
	Sxi, Syi := rmatInv(Sx), rmatInv(Sy)
	outcome := fmt.Sprintf("xd=%d yd=%d", xd, yd)
	if xkind != "compact" || ykind != "compact" {
		outcome += " rep=" + xkind + "/" + ykind
	}
	if Sxi == nil || Syi == nil {
		t.Outcome(outcome + " singular")
		return
	}
	cond := rmatNorm(Sx) * rmatNorm(Sxi) * rmatNorm(Sy) * rmatNorm(Syi)
	if cond > 1e6 {
		t.Outcome(outcome + " illcond")
		return
	}
	// the error tau of a computed column mean enters the centred cross products in second order
	// (W tau^2, relative to the smallest variance); negligible unless the mean dwarfs the spread
	rel2 := 0.0
	for _, blk := range [][][]float64{xcols, ycols} {
		for _, col := range blk {
			m := newMom(col, w)
			if m.Sf > 0 {
				rel2 = math.Max(rel2, m.Wf*m.tau*m.tau/m.Sf)
			}
		}
	}
	tol := 1024 * (float64(n+4)*eps + rel2) * cond
	var cc stat.CC
	if err := cc.CanonicalCorrelations(X, Y, w); err != nil {
		t.Failf("CanonicalCorrelations failed: %v", err)
		return
	}
	if xd < yd {
		// Don't-care zone: the documented result shapes (CorrsTo: len yd; LeftTo: xd x yd;
		// RightTo: yd x yd) presuppose xd >= yd, which the documentation does not state;
		// the accessors panic for xd < yd. Only the analysis itself and CorrsTo(nil) are checked.
		corrs := cc.CorrsTo(nil)
		if len(corrs) != xd {
			t.Failf("CorrsTo(nil) returns %d values for xd=%d < yd=%d", len(corrs), xd, yd)
		}
		for i, c := range corrs {
			if !(c >= -tol && c <= 1+tol) || (i > 0 && c > corrs[i-1]+tol) {
				t.Failf("canonical correlations %v not in [0,1] descending", corrs)
			}
		}
		// the correlations themselves do not depend on which block is called x
		var sw stat.CC
		if err := sw.CanonicalCorrelations(Y, X, w); err != nil {
			t.Failf("CanonicalCorrelations(y, x) failed: %v", err)
		} else {
			for i, c := range sw.CorrsTo(nil) {
				if i < len(corrs) && !near(c, corrs[i], tol) {
					t.Failf("canonical correlations differ when x and y are exchanged: %v vs %v", corrs, sw.CorrsTo(nil))
					break
				}
			}
		}
		t.Nontrivial()
		t.Outcome(outcome + " xd<yd-dontcare")
		return
	}
	corrs := cc.CorrsTo(nil)
	var Ls, Rs, L, R mat.Dense
	cc.LeftTo(&Ls, true)
	cc.RightTo(&Rs, true)
	cc.LeftTo(&L, false)
	cc.RightTo(&R, false)
	if len(corrs) != yd {
		t.Failf("CorrsTo returns %d values, want %d", len(corrs), yd)
		return
	}
	for _, m := range []struct {
		m    *mat.Dense
		r, c int
		name string
	}{{&Ls, xd, yd, "Left(sphered)"}, {&Rs, yd, yd, "Right(sphered)"}, {&L, xd, yd, "Left"}, {&R, yd, yd, "Right"}} {
		if r, c := m.m.Dims(); r != m.r || c != m.c {
			t.Failf("%s is %dx%d, want %dx%d", m.name, r, c, m.r, m.c)
			return
		}
	}
	for i, c := range corrs {
		if !(c >= -tol && c <= 1+tol) || (i > 0 && c > corrs[i-1]+tol) {
			t.Failf("canonical correlations %v not in [0,1] descending", corrs)
		}
	}
	A, B := rmatOfDense(&L), rmatOfDense(&R)
	chk := func(name string, got rmat, want func(i, j int) float64, class string) {
		for i := range got {
			for j := range got[i] {
				if g := rf(got[i][j]); !near(g, want(i, j), tol) {
					msg := fmt.Sprintf("%s [%d,%d] = %v, want %v (bound %.3g)", name, i, j, g, want(i, j), tol)
					if class != "" {
						t.SubViolation(name, class, map[string]any{"x": xcols, "y": ycols, "w": w}, "%s", msg)
					} else {
						t.Failf("%s", msg)
					}
					return
				}
			}
		}
	}
	eye := func(i, j int) float64 {
		if i == j {
			return 1
		}
		return 0
	}
	diagC := func(i, j int) float64 {
		if i == j {
			return corrs[i]
		}
		return 0
	}
	// With weights whose sum differs from the number of observations the
	// back-transformation uses n-1 where the weighted covariance uses sum(w)-1.
	class := ""
	if w != nil && math.Abs(sumF(w)-float64(n)) > 1e-9 {
		class = "cca-weighted-backtransform-scale"
		outcome += " wsum!=n"
	}
	// canonical variables have unit variance and are uncorrelated: A' Sx A = I, B' Sy B = I
	chk("A'SxA", rmatMul(rmatT(A), rmatMul(Sx, A)), eye, class)
	chk("B'SyB", rmatMul(rmatT(B), rmatMul(Sy, B)), eye, class)
	// their cross-covariance is the diagonal matrix of canonical correlations: A' Sxy B = diag(corrs)
	chk("A'SxyB", rmatMul(rmatT(A), rmatMul(Sxy, B)), diagC, class)
	// sphered-space vectors: orthonormal columns, and the scale-free eigen-equation
	// Sx^-1 Sxy Sy^-1 Syx a_k = corr_k^2 a_k holds for the back-transformed vectors.
	chk("Ls'Ls", rmatMul(rmatT(rmatOfDense(&Ls)), rmatOfDense(&Ls)), eye, "")
	chk("Rs'Rs", rmatMul(rmatT(rmatOfDense(&Rs)), rmatOfDense(&Rs)), eye, "")
	M := rmatMul(Sxi, rmatMul(Sxy, rmatMul(Syi, rmatT(Sxy))))
	MA := rmatMul(M, A)
	an := rmatNorm(A)
	for k := 0; k < yd; k++ {
		for i := 0; i < xd; i++ {
			want := corrs[k] * corrs[k] * rf(A[i][k])
			if !near(rf(MA[i][k]), want, tol*(1+an)) {
				t.Failf("eigen-equation Sx^-1 Sxy Sy^-1 Syx a_%d = corr^2 a_%d violated at row %d: %v vs %v", k, k, i, rf(MA[i][k]), want)
			}
		}
	}
	if xd == yd {
		// square case: A Ls' = Sx^(-1/2) must be symmetric with (A Ls') Sx (A Ls') = I.
		P := rmatMul(A, rmatT(rmatOfDense(&Ls)))
		scale := rmatNorm(P)
		for i := range P {
			for j := range P {
				if !near(rf(P[i][j]), rf(P[j][i]), tol*(1+scale)) {
					t.Failf("A Ls' is not symmetric (Sx^-1/2): [%d,%d]=%v [%d,%d]=%v", i, j, rf(P[i][j]), j, i, rf(P[j][i]))
				}
			}
		}
		chk("(ALs')Sx(ALs')", rmatMul(P, rmatMul(Sx, P)), eye, class)
	}
	if !xrep.intact() || !yrep.intact() {
		t.Failf("CanonicalCorrelations modified its input storage")
	}
	if i, ok := vlib.Same64(w, ws.w); !ok {
		t.Failf("weights modified at %d", i)
	}
	if xkind != "compact" || ykind != "compact" {
		// the analysis must not depend on how the caller stores the data
		var c0 stat.CC
		if err := c0.CanonicalCorrelations(denseFromCols(xcols), denseFromCols(ycols), cloneF(ws.w)); err == nil {
			if i, ok := vlib.Same64(corrs, c0.CorrsTo(nil)); !ok {
				t.Failf("canonical correlations of the %s/%s representation differ from the compact ones at %d: %v vs %v", xkind, ykind, i, corrs, c0.CorrsTo(nil))
			}
			var l0, r0 mat.Dense
			c0.LeftTo(&l0, false)
			c0.RightTo(&r0, false)
			if i, j, ok := sameMat(&L, &l0); !ok {
				t.Failf("CC.LeftTo of the %s/%s representation differs from the compact one at (%d,%d)", xkind, ykind, i, j)
			}
			if i, j, ok := sameMat(&R, &r0); !ok {
				t.Failf("CC.RightTo of the %s/%s representation differs from the compact one at (%d,%d)", xkind, ykind, i, j)
			}
		}
	}
	// a finished analysis owns its state: overwrite the caller's weights and data, query again
	for step, what := range []string{"weights", "x", "y"} {
		switch step {
		case 0:
			for i := range w {
				w[i] = float64(2*i) + 1.5
			}
		case 1:
			xrep.clobber()
		case 2:
			yrep.clobber()
		}
		var l2, r2, ls2, rs2 mat.Dense
		cc.LeftTo(&l2, false)
		cc.RightTo(&r2, false)
		cc.LeftTo(&ls2, true)
		cc.RightTo(&rs2, true)
		if i, ok := vlib.Same64(cc.CorrsTo(nil), corrs); !ok {
			t.Failf("CC.CorrsTo changes after the caller overwrote its %s (element %d)", what, i)
		}
		for _, pr := range []struct {
			name string
			a, b *mat.Dense
		}{{"LeftTo", &l2, &L}, {"RightTo", &r2, &R}, {"LeftTo(sphered)", &ls2, &Ls}, {"RightTo(sphered)", &rs2, &Rs}} {
			if i, j, ok := sameMat(pr.a, pr.b); !ok {
				t.Failf("CC.%s changes after the caller overwrote its %s at (%d,%d)", pr.name, what, i, j)
			}
		}
	}
	t.Nontrivial()
	t.Outcome(outcome)
}

func genCCA(g *vlib.G) {
	blocks := [][]int{{0}, {1}, {2}, {0, 1}, {1, 2}, {0, 3}, {2, 4}, {0, 1, 2}, {1, 3, 4}}
	yblocks := [][]int{{3}, {5}, {4, 5}, {3, 5}, {2, 5}}
	for _, n := range []int{5, 6} {
		wsets := append(matWeights(n)[:5], matWeights(n)[7]) // nil ones ramp nd nd2 twos
		for _, xb := range blocks {
			for _, yb := range yblocks {
				overlap := false
				for _, a := range xb {
					for _, b := range yb {
						if a == b {
							overlap = true
						}
					}
				}
				if overlap {
					continue
				}
				for _, ws := range wsets {
					xb, yb, ws, n := xb, yb, ws, n
					gcase(g, fmt.Sprintf("n=%d x=%v y=%v w=%s", n, xb, yb, ws.name), func(t *vlib.T) { ccaCase(t, xb, yb, ws, n) })
				}
			}
		}
	}
}
