// Harness C10: descriptive statistics (stat, stat/spatial, stat/mds) are total
// on their documented domain and equal their defining formulas.
package main

import (
	"runtime/debug"

	"gonum.org/v1/gonum/internal/verif/vlib"
)

func main() {
	debug.SetGCPercent(800) // the oracles allocate many short-lived big numbers

	// Cheap groups first: if an overloaded machine hits the deadline, only the
	// tail of the large enumerations is cut.
	vlib.Main("C10",
		vlib.Group{Name: "domain", Gen: genDomain},
		vlib.Group{Name: "dst", Gen: genDst},
		vlib.Group{Name: "repr", Gen: genRepr},
		vlib.Group{Name: "shift", Gen: genShift},
		vlib.Group{Name: "cca", Gen: genCCA},
		vlib.Group{Name: "mahalanobis", Gen: genMahalanobis},
		vlib.Group{Name: "spatial", Gen: genSpatial},
		vlib.Group{Name: "mds", Gen: genMDS},
		vlib.Group{Name: "dist", Gen: genDist},
		vlib.Group{Name: "sortmode", Gen: genSortMode},
		vlib.Group{Name: "ks", Gen: genKS},
		vlib.Group{Name: "roc", Gen: genROC},
		vlib.Group{Name: "long", Gen: genLong},
		vlib.Group{Name: "kendall", Gen: genKendall},
		vlib.Group{Name: "quantile", Gen: genQuantile},
		vlib.Group{Name: "histogram", Gen: genHistogram},
		vlib.Group{Name: "pairs", Gen: genPairs},
		vlib.Group{Name: "moments", Gen: genMoments},
		vlib.Group{Name: "covmat", Gen: genCovMat},
	)
}
