// Group "moments": Mean, (Pop)Variance/StdDev families, Moment, MomentAbout,
// Skew, ExKurtosis, CircularMean, GeometricMean, HarmonicMean against exact
// rational definitions, plus the identities ones==nil, integer weights ==
// replication, affine equivariance, joint permutation (via SortWeighted).
package main

import (
	"fmt"
	"math"
	"math/big"

	"gonum.org/v1/gonum/internal/verif/vlib"
	"gonum.org/v1/gonum/stat"
)

// mom holds the exact weighted first and second moment of a sample in
// division-free (dyadic) form: D_i = W x_i - sum(w x) = W (x_i - mean) and
// SW2 = sum w_i D_i^2 = W^2 S.
type mom struct {
	n         int
	xf, wf    []float64 // wf is all ones for nil weights
	x, w, D   []X
	W, sx     X
	SW2, s    X
	Wf, meanf float64
	Sf        float64   // S = sum w (x-mean)^2
	df        []float64 // |x_i - mean|
	tau       float64   // bound on the error of the computed mean

	// exact rationals, filled by withRats for the low-volume groups
	xr, wr, dr    []*big.Rat
	Wr, meanr, Sr *big.Rat
}

func newMom(x, w []float64) *mom {
	n := len(x)
	m := &mom{n: n, xf: x, x: xs(x), w: xweights(w, n)}
	m.wf = make([]float64, n)
	m.W, m.sx = xi(0), xi(0)
	a1 := 0.0
	for i := range x {
		m.wf[i] = 1
		if w != nil {
			m.wf[i] = w[i]
		}
		m.W = xadd(m.W, m.w[i])
		m.sx = xadd(m.sx, xmul(m.w[i], m.x[i]))
		a1 += m.wf[i] * math.Abs(x[i])
	}
	m.Wf = bff(m.W)
	m.SW2 = xi(0)
	if m.W.Sign() == 0 {
		return m
	}
	m.meanf = bff(xquo(m.sx, m.W))
	m.D = make([]X, n)
	m.df = make([]float64, n)
	for i := range x {
		m.D[i] = xsub(xmul(m.W, m.x[i]), m.sx)
		m.df[i] = math.Abs(bff(m.D[i])) / m.Wf * (1 + 4*eps) // magnitude for bounds only
		m.SW2 = xadd(m.SW2, xmul(m.w[i], xmul(m.D[i], m.D[i])))
	}
	m.s = xquo(m.SW2, xmul(m.W, m.W))
	m.Sf = bff(m.s)
	m.tau = 4 * float64(n+3) * eps * a1 / m.Wf
	return m
}

// withRats fills the exact rational views (slow; low-volume groups only).
func (m *mom) withRats() *mom {
	m.Wr = xrat(m.W)
	m.meanr = rquo(xrat(m.sx), m.Wr)
	m.Sr = rquo(xrat(m.SW2), rmul(m.Wr, m.Wr))
	for i := range m.x {
		m.xr = append(m.xr, xrat(m.x[i]))
		m.wr = append(m.wr, xrat(m.w[i]))
		m.dr = append(m.dr, rquo(xrat(m.D[i]), m.Wr))
	}
	return m
}

// tolS bounds the error of the corrected two-pass sum of squares (see NOTES.md).
func (m *mom) tolS() float64 {
	return 8 * float64(m.n+5) * eps * (m.Sf + m.Wf*m.tau*m.tau)
}

// centralSum returns sum_i w_i (x_i-mean)^k = sum w D^k / W^k (192-bit quotient).
func (m *mom) centralSum(k int) X {
	s := xi(0)
	for i := range m.D {
		s = xadd(s, xmul(m.w[i], xpow(m.D[i], k)))
	}
	return xquo(s, xpow(m.W, k))
}

// coSum returns sum_i w_i (x_i-mean_x)(y_i-mean_y) for two samples with the same weights.
func (m *mom) coSum(o *mom) X {
	s := xi(0)
	for i := range m.D {
		s = xadd(s, xmul(m.w[i], xmul(m.D[i], o.D[i])))
	}
	return xquo(s, xmul(m.W, m.W))
}

// S returns sum w (x-mean)^2 (192-bit quotient).
func (m *mom) S() X { return m.s }

// ora is an oracle value with its rounding bound. skip marks inputs outside
// the documented domain or too ill-conditioned to say anything (don't care).
type ora struct {
	want, tol float64
	skip      bool
	nanOK     bool // want is 0 within rounding under a square root: NaN is accepted
}

type res struct {
	name string
	got  float64
}

func gonumMoments(x, w []float64) []res {
	var out []res
	add := func(name string, v float64) { out = append(out, res{name, v}) }
	add("Mean", stat.Mean(x, w))
	mu, v := stat.MeanVariance(x, w)
	add("MeanVariance.mean", mu)
	add("MeanVariance.var", v)
	add("Variance", stat.Variance(x, w))
	add("StdDev", stat.StdDev(x, w))
	mu, sd := stat.MeanStdDev(x, w)
	add("MeanStdDev.mean", mu)
	add("MeanStdDev.std", sd)
	mu, v = stat.PopMeanVariance(x, w)
	add("PopMeanVariance.mean", mu)
	add("PopMeanVariance.var", v)
	add("PopVariance", stat.PopVariance(x, w))
	add("PopStdDev", stat.PopStdDev(x, w))
	mu, sd = stat.PopMeanStdDev(x, w)
	add("PopMeanStdDev.mean", mu)
	add("PopMeanStdDev.std", sd)
	for k := 1; k <= 4; k++ {
		add(fmt.Sprintf("Moment%d", k), stat.Moment(float64(k), x, w))
	}
	add("MomentAbout2@0", stat.MomentAbout(2, x, 0, w))
	add("MomentAbout3@1", stat.MomentAbout(3, x, 1, w))
	add("Skew", stat.Skew(x, w))
	add("ExKurtosis", stat.ExKurtosis(x, w))
	return out
}

// aliases: functions documented as the same quantity must agree bit for bit.
var momentAliases = [][2]string{
	{"MeanVariance.mean", "Mean"}, {"MeanStdDev.mean", "Mean"}, {"PopMeanVariance.mean", "Mean"}, {"PopMeanStdDev.mean", "Mean"},
	{"Variance", "MeanVariance.var"}, {"MeanStdDev.std", "StdDev"},
	{"PopVariance", "PopMeanVariance.var"}, {"PopMeanStdDev.std", "PopStdDev"},
}

// population quantities: invariant under replacing integer weights by replication.
var populationNames = []string{"Mean", "PopVariance", "PopStdDev", "Moment1", "Moment2", "Moment3", "Moment4", "MomentAbout2@0", "MomentAbout3@1"}

// affine: f(2x+1) = a*f(x)+b.
var affineMap = map[string][2]float64{
	"Mean": {2, 1}, "Variance": {4, 0}, "StdDev": {2, 0}, "PopVariance": {4, 0}, "PopStdDev": {2, 0},
	"Moment1": {2, 0}, "Moment2": {4, 0}, "Moment3": {8, 0}, "Moment4": {16, 0}, "Skew": {1, 0}, "ExKurtosis": {1, 0},
}

func sqrtOra(v X, tolV float64) ora {
	vf := bff(v)
	if v.Sign() < 0 {
		return ora{skip: true}
	}
	s := bff(qsqrt(v))
	if vf <= 4*tolV {
		// zero within rounding: the computed argument may be slightly negative.
		return ora{want: s, tol: math.Sqrt(vf+2*tolV) + 4*eps*s, nanOK: true}
	}
	return ora{want: s, tol: tolV/s + 4*eps*s}
}

func oracleMoments(x, w []float64) (map[string]ora, *mom) {
	m := newMom(x, w)
	n := m.n
	fn := float64(n)
	o := map[string]ora{}
	if m.W.Sign() <= 0 {
		return o, m
	}
	W := m.Wf
	o["Mean"] = ora{want: m.meanf, tol: m.tau}
	tolS := m.tolS()
	S := m.S()
	// population variance S/W
	pv := xquo(S, m.W)
	tolPV := (tolS + 2*(fn+2)*eps*m.Sf) / W
	o["PopMeanVariance.var"] = ora{want: bff(pv), tol: tolPV}
	o["PopStdDev"] = sqrtOra(pv, tolPV)
	// unbiased variance S/(W-1): documented only for W > 1.
	unbiased := W >= 1.05
	var V X
	var tolV float64
	if unbiased {
		V = xquo(S, xsub(m.W, xi(1)))
		relW1 := (2*(fn+2)*eps*W + 2*eps) / (W - 1)
		tolV = (tolS + m.Sf*relW1) / (W - 1) * (1 + 2*relW1)
		o["MeanVariance.var"] = ora{want: bff(V), tol: tolV}
		o["StdDev"] = sqrtOra(V, tolV)
	} else {
		o["MeanVariance.var"] = ora{skip: true}
		o["StdDev"] = ora{skip: true}
	}
	// central moments
	for k := 1; k <= 4; k++ {
		fk := float64(k)
		abs, sens := 0.0, 0.0
		for i := range x {
			abs += m.wf[i] * math.Pow(m.df[i], fk)
			sens += m.wf[i] * math.Pow(m.df[i]+m.tau, fk-1)
		}
		tol := (8*(fn+2*fk+5)*eps*(abs+fk*m.tau*sens) + fk*m.tau*sens) / W
		o[fmt.Sprintf("Moment%d", k)] = ora{want: bff(xquo(m.centralSum(k), m.W)), tol: tol}
	}
	for _, ab := range []struct {
		name string
		k    int
		mu   float64
	}{{"MomentAbout2@0", 2, 0}, {"MomentAbout3@1", 3, 1}} {
		s := xi(0)
		abs := 0.0
		mu := xf(ab.mu)
		for i := range x {
			d := xsub(m.x[i], mu)
			s = xadd(s, xmul(m.w[i], xpow(d, ab.k)))
			abs += m.wf[i] * math.Pow(xabsf(d), float64(ab.k))
		}
		o[ab.name] = ora{want: bff(xquo(s, m.W)), tol: 8 * (fn + 2*float64(ab.k) + 5) * eps * abs / W}
	}
	o["PopVariance"] = o["PopMeanVariance.var"]
	o["Variance"] = o["MeanVariance.var"]
	// Skew and ExKurtosis use the unbiased standard deviation and W-2, W-3.
	o["Skew"] = ora{skip: true}
	o["ExKurtosis"] = ora{skip: true}
	if unbiased && m.SW2.Sign() > 0 {
		sd := bff(qsqrt(V))
		rho := 1.1*o["StdDev"].tol/sd + 4*eps
		theta := m.tau / sd
		if rho < 1e-3 && theta < 1e-3 && !o["StdDev"].nanOK {
			var e3, e4, a3, a4 float64
			for i := range x {
				z := m.df[i] / sd
				dz := theta + (z+theta)*rho
				zz := z + dz
				e3 += m.wf[i] * 3 * zz * zz * dz
				e4 += m.wf[i] * 4 * zz * zz * zz * dz
				a3 += m.wf[i] * zz * zz * zz
				a4 += m.wf[i] * zz * zz * zz * zz
			}
			e3 += 8 * (fn + 6) * eps * a3
			e4 += 8 * (fn + 8) * eps * a4
			dist := func(c float64) float64 { return math.Abs(W - c) }
			if dist(2) >= 0.05 {
				c := (W / (W - 1)) * (1 / (W - 2))
				s3 := bff(m.centralSum(3)) / (sd * sd * sd)
				cw := 2*(fn+2)*eps*W*(1/dist(1)+1/dist(2)) + 8*eps
				want := s3 * c
				o["Skew"] = ora{want: want, tol: math.Abs(c)*e3 + math.Abs(want)*cw + 4*eps*math.Abs(want)}
			}
			if dist(2) >= 0.05 && dist(3) >= 0.05 {
				mul := ((W + 1) / (W - 1)) * (W / (W - 2)) * (1 / (W - 3))
				off := 3 * ((W - 1) / (W - 2)) * ((W - 1) / (W - 3))
				e := bff(xquo(m.centralSum(4), qmul(V, V)))
				cw := 2*(fn+2)*eps*W*(1/dist(1)+1/dist(2)+1/dist(3)+1/(W+1)) + 12*eps
				want := e*mul - off
				o["ExKurtosis"] = ora{want: want, tol: math.Abs(mul)*e4 + (math.Abs(e*mul)+math.Abs(off))*cw}
			}
		}
	}
	return o, m
}

func resMap(rs []res) map[string]float64 {
	m := make(map[string]float64, len(rs))
	for _, r := range rs {
		m[r.name] = r.got
	}
	return m
}

// checkAgainst compares gonum results with oracle values; returns the number of skipped (don't-care) entries.
func checkAgainst(t *vlib.T, tag string, rs []res, o map[string]ora) (checked, skipped int) {
	for _, r := range rs {
		or, ok := o[r.name]
		if !ok {
			continue
		}
		if or.skip {
			skipped++
			continue
		}
		checked++
		if or.nanOK && math.IsNaN(r.got) {
			continue
		}
		if !near(r.got, or.want, or.tol) {
			t.Failf("%s%s = %v, definition gives %v (bound %.3g, diff %.3g)", tag, r.name, r.got, or.want, or.tol, math.Abs(r.got-or.want))
		}
	}
	return
}

func replicate(x, w []float64) []float64 {
	var out []float64
	for i, v := range x {
		for k := 0; k < int(w[i]); k++ {
			out = append(out, v)
		}
	}
	return out
}

func sumF(w []float64) float64 {
	s := 0.0
	for _, v := range w {
		s += v
	}
	return s
}

// posAlphabet maps the data alphabet index to a strictly positive value for
// GeometricMean / HarmonicMean (documented for positive x and weights only).
var posAlphabet = []float64{0.5, 0.1, 1, 2, 3, big1e15}

func momentsCase(t *vlib.T, idx []int, ws wspec) {
	x := pick(vals6, idx)
	w := cloneF(ws.w)
	n := len(x)
	x0, w0 := cloneF(x), cloneF(w)
	got := gonumMoments(x, w)
	if i, ok := vlib.Same64(x, x0); !ok {
		t.Failf("x modified at %d", i)
	}
	if i, ok := vlib.Same64(w, w0); !ok {
		t.Failf("weights modified at %d", i)
	}
	gm := resMap(got)
	for _, al := range momentAliases {
		if !sameBits(gm[al[0]], gm[al[1]]) {
			t.Failf("%s = %v differs from %s = %v", al[0], gm[al[0]], al[1], gm[al[1]])
		}
	}
	o, m := oracleMoments(x, w)
	checked, skipped := checkAgainst(t, "", got, o)
	outcome := fmt.Sprintf("n=%d checked=%d skipped=%d", n, checked, skipped)
	if m.SW2.Sign() == 0 {
		outcome += " const"
	}

	// ones == nil, bit for bit (all sums of the integer alphabet are exact).
	if ws.name == "ones" {
		ref := resMap(gonumMoments(x, nil))
		for _, r := range got {
			if !sameBits(r.got, ref[r.name]) {
				t.Failf("ones-weights %s = %v, nil weights give %v", r.name, r.got, ref[r.name])
			}
		}
	}
	// integer weights == replication for population quantities.
	if ws.w != nil && ws.isInt() && !ws.hasZero() && sumF(ws.w) <= 12 && ws.name != "ones" {
		xr := replicate(x, w)
		gr := resMap(gonumMoments(xr, nil))
		or, _ := oracleMoments(xr, nil)
		for _, name := range populationNames {
			a, b := o[name], or[name]
			if a.skip || b.skip || a.nanOK || b.nanOK {
				continue
			}
			if !near(gm[name], gr[name], a.tol+b.tol) {
				t.Failf("replication: %s weighted %v, replicated %v (bound %.3g)", name, gm[name], gr[name], a.tol+b.tol)
			}
		}
		outcome += " repl"
	}
	// affine equivariance under x -> 2x+1 (exact map), on a subset of weights.
	if ws.w == nil || ws.name[0] == 'z' || n <= 3 {
		xa := make([]float64, n)
		for i, v := range x {
			xa[i] = 2*v + 1
		}
		ga := resMap(gonumMoments(xa, w))
		oa, _ := oracleMoments(xa, w)
		for name, ab := range affineMap {
			a, b := o[name], oa[name]
			if a.skip || b.skip || a.nanOK || b.nanOK {
				continue
			}
			want := ab[0]*gm[name] + ab[1]
			bound := math.Abs(ab[0])*a.tol + b.tol + 4*eps*math.Abs(want)
			if !near(ga[name], want, bound) {
				t.Failf("affine: %s(2x+1) = %v, want %v*%v+%v (bound %.3g)", name, ga[name], ab[0], gm[name], ab[1], bound)
			}
		}
		outcome += " affine"
	}
	// joint permutation: sort (x,w) with SortWeighted and recompute.
	{
		xs, wsrt := cloneF(x), cloneF(w)
		stat.SortWeighted(xs, wsrt)
		gs := resMap(gonumMoments(xs, wsrt))
		for _, name := range []string{"Mean", "PopVariance", "Variance", "Moment3", "Skew"} {
			a := o[name]
			if a.skip || a.nanOK {
				continue
			}
			if !near(gs[name], gm[name], 2*a.tol) {
				t.Failf("permutation: %s sorted %v, original %v (bound %.3g)", name, gs[name], gm[name], 2*a.tol)
			}
		}
	}

	// CircularMean: angles are the data values; sin/cos of the standard
	// library (< 1 ulp) summed exactly, atan2 of the rounded sums.
	{
		ax, ay := xi(0), xi(0)
		absSum := 0.0
		for i, v := range x {
			s, c := math.Sincos(v)
			ax = xadd(ax, xmul(m.w[i], xf(c)))
			ay = xadd(ay, xmul(m.w[i], xf(s)))
			absSum += m.wf[i]
		}
		fx, fy := bff(ax), bff(ay)
		h := math.Hypot(fx, fy)
		g := stat.CircularMean(x, w)
		if h > 0 {
			tol := 8*float64(n+4)*eps*absSum/h + 8*eps
			if tol < 0.05 {
				want := math.Atan2(fy, fx)
				d := math.Abs(g - want)
				if d > math.Pi {
					d = 2*math.Pi - d
				}
				if !(d <= tol) {
					t.Failf("CircularMean = %v, definition gives %v (bound %.3g)", g, want, tol)
				}
				if ws.name == "ones" && !sameBits(g, stat.CircularMean(x, nil)) {
					t.Failf("CircularMean ones %v != nil %v", g, stat.CircularMean(x, nil))
				}
			}
		}
	}

	// GeometricMean, HarmonicMean on the positive alphabet; positive weights only.
	if !ws.hasZero() {
		xp := pick(posAlphabet, idx)
		// harmonic: W / sum(w/x), quotients rounded to 192 bits.
		den := xi(0)
		maxLog := 0.0
		for i := range xp {
			den = qadd(den, xquo(m.w[i], xf(xp[i])))
			maxLog = math.Max(maxLog, math.Abs(math.Log(xp[i]))+math.Abs(math.Log(m.wf[i])))
		}
		hw := bff(xquo(m.W, den))
		hg := stat.HarmonicMean(xp, w)
		htol := 8 * float64(n+6) * eps * (2 + maxLog + math.Abs(math.Log(m.Wf))) * hw
		if !near(hg, hw, htol) {
			t.Failf("HarmonicMean(%v) = %v, definition gives %v (bound %.3g)", xp, hg, hw, htol)
		}
		// geometric: exp(sum w log x / W) with 200-bit logarithms.
		s := new(big.Float).SetPrec(prec)
		absLog := 0.0
		for i := range xp {
			l := bigLogF(xp[i])
			s.Add(s, new(big.Float).SetPrec(prec).Mul(l, m.w[i]))
			absLog += m.wf[i] * math.Abs(bff(l))
		}
		s.Quo(s, m.W)
		sf := bff(s)
		gw := math.Exp(sf)
		gg := stat.GeometricMean(xp, w)
		gtol := gw * (8*float64(n+5)*eps*(1+absLog/m.Wf) + 4*eps*(1+math.Abs(sf)))
		if !near(gg, gw, gtol) {
			t.Failf("GeometricMean(%v) = %v, definition gives %v (bound %.3g)", xp, gg, gw, gtol)
		}
		if ws.name == "ones" {
			if a, b := stat.HarmonicMean(xp, nil), stat.GeometricMean(xp, nil); ulpDiff(a, hg) > 4 || !sameBits(b, gg) {
				t.Failf("ones vs nil: HarmonicMean %v/%v GeometricMean %v/%v", hg, a, gg, b)
			}
		}
	}
	if n >= 2 {
		t.Nontrivial()
	}
	t.Outcome(outcome)
	if t.Failed() {
		t.Detail(map[string]any{"x": x, "w": w})
	}
}

func genMoments(g *vlib.G) {
	maxN := vlib.Pick(g, 5, 6)
	for n := 1; n <= maxN; n++ {
		full := weightSets(n, intW, ndW)
		small := weightSets(n, []float64{1, 3}, []float64{0.1, 0.7})
		mid := weightSets(n, []float64{1, 3}, []float64{0.1, 0.7})
		emit := func(idx []int, tag string, sets []wspec) {
			id := append([]int(nil), idx...)
			for _, ws := range sets {
				ws := ws
				gcase(g, fmt.Sprintf("%s x=%s w=%s", tag, digits(id), ws.name), func(t *vlib.T) { momentsCase(t, id, ws) })
			}
		}
		fullSeqMax := vlib.Pick(g, 3, 4)
		switch {
		case n <= fullSeqMax:
			sequences(n, 6, func(idx []int) { emit(idx, "seq", full) })
		default:
			// sorted data x all weight vectors covers every multiset of (x_i,w_i) pairs;
			// all data orders x few weight vectors covers summation order.
			msets := full
			if !g.Thorough() && n == 5 {
				msets = mid
			}
			if n == 6 {
				msets = weightSets(n, []float64{1, 3}, []float64{0.1, 0.3, 0.7})
			}
			multisets(n, 6, func(idx []int) { emit(idx, "ms", msets) })
			few := small
			if n >= 5 {
				few = []wspec{small[0], small[1], small[2], small[len(small)-1], {"dramp", rampND(n)}}
			}
			if n <= 5 || g.Thorough() {
				sequences(n, 6, func(idx []int) {
					sorted := true
					for i := 1; i < len(idx); i++ {
						if idx[i] < idx[i-1] {
							sorted = false
						}
					}
					if sorted && n <= 4 {
						return // already covered with the full weight set
					}
					emit(idx, "seq", few)
				})
			}
		}
		if g.Stopped() {
			return
		}
	}
}

func rampND(n int) []float64 {
	w := make([]float64, n)
	for i := range w {
		w[i] = ndW[(i*3+1)%4]
	}
	return w
}
