// Groups "spatial" (GlobalMoransI, GetisOrdGStar by direct double sums) and
// "mds" (TorgersonScaling reconstructs the distances of planar integer points).
package main

import (
	"fmt"
	"math"
	"math/big"

	"gonum.org/v1/gonum/internal/verif/vlib"
	"gonum.org/v1/gonum/mat"
	"gonum.org/v1/gonum/stat/mds"
	"gonum.org/v1/gonum/stat/spatial"
)

// locality is a named n x n weight matrix with the storage kinds to try.
type locality struct {
	name string
	w    [][]float64
	band int // >= 0: also try a banded representation with this bandwidth (RowNonZeroDoer path)
	sym  bool
}

func zeroMat(n int) [][]float64 {
	m := make([][]float64, n)
	for i := range m {
		m[i] = make([]float64, n)
	}
	return m
}

func isSym(w [][]float64) bool {
	for i := range w {
		for j := range w {
			if w[i][j] != w[j][i] {
				return false
			}
		}
	}
	return true
}

func bandwidth(w [][]float64) int {
	b := 0
	for i := range w {
		for j := range w {
			if w[i][j] != 0 && abs(i-j) > b {
				b = abs(i - j)
			}
		}
	}
	return b
}

func abs(a int) int {
	if a < 0 {
		return -a
	}
	return a
}

func localities(n int, thorough bool) []locality {
	var out []locality
	add := func(name string, w [][]float64) {
		out = append(out, locality{name: name, w: w, band: bandwidth(w), sym: isSym(w)})
	}
	// all undirected simple graphs on 4 nodes / a family on 5
	if n == 4 {
		pairs := [][2]int{{0, 1}, {0, 2}, {0, 3}, {1, 2}, {1, 3}, {2, 3}}
		for mask := 1; mask < 64; mask++ {
			w := zeroMat(n)
			for b, p := range pairs {
				if mask&(1<<b) != 0 {
					w[p[0]][p[1]], w[p[1]][p[0]] = 1, 1
				}
			}
			add(fmt.Sprintf("g%02d", mask), w)
		}
	}
	path, cycle, star, complete := zeroMat(n), zeroMat(n), zeroMat(n), zeroMat(n)
	for i := 0; i < n; i++ {
		if i+1 < n {
			path[i][i+1], path[i+1][i] = 1, 1
			star[0][i+1], star[i+1][0] = 1, 1
		}
		cycle[i][(i+1)%n], cycle[(i+1)%n][i] = 1, 1
		for j := 0; j < n; j++ {
			if i != j {
				complete[i][j] = 1
			}
		}
	}
	add("path", path)
	add("cycle", cycle)
	add("star", star)
	add("complete", complete)
	// weighted symmetric, with self weights
	ws := zeroMat(n)
	for i := 0; i < n; i++ {
		ws[i][i] = 1
		if i+1 < n {
			ws[i][i+1], ws[i+1][i] = 2, 2
		}
	}
	add("wsymself", ws)
	// asymmetric: directed path (lower bidiagonal), directed cycle, row-standardised path, upper triangle
	dpath, dcyc, rowstd, upper := zeroMat(n), zeroMat(n), zeroMat(n), zeroMat(n)
	for i := 0; i < n; i++ {
		if i > 0 {
			dpath[i][i-1] = 1
		}
		dcyc[i][(i+1)%n] = 2
		deg := 0.0
		for j := 0; j < n; j++ {
			deg += path[i][j]
			if j > i {
				upper[i][j] = float64(1 + (i+j)%2)
			}
		}
		for j := 0; j < n; j++ {
			rowstd[i][j] = path[i][j] / deg
		}
	}
	add("dpath", dpath)
	add("dcycle", dcyc)
	add("rowstd", rowstd)
	add("upper", upper)
	return out
}

// matrices returns the representations of a locality: dense, and banded when narrower than full.
func (l locality) matrices() map[string]mat.Matrix {
	n := len(l.w)
	d := mat.NewDense(n, n, nil)
	for i := range l.w {
		for j := range l.w {
			d.Set(i, j, l.w[i][j])
		}
	}
	out := map[string]mat.Matrix{"dense": d}
	kl, ku := 0, 0
	for i := range l.w {
		for j := range l.w {
			if l.w[i][j] != 0 {
				if i-j > kl {
					kl = i - j
				}
				if j-i > ku {
					ku = j - i
				}
			}
		}
	}
	b := mat.NewBandDense(n, n, kl, ku, nil)
	for i := range l.w {
		for j := range l.w {
			if l.w[i][j] != 0 {
				b.SetBand(i, j, l.w[i][j])
			}
		}
	}
	out["band"] = b
	if l.sym {
		s := mat.NewSymBandDense(n, ku, nil)
		for i := range l.w {
			for j := i; j < n; j++ {
				if l.w[i][j] != 0 {
					s.SetSymBand(i, j, l.w[i][j])
				}
			}
		}
		out["symband"] = s
	}
	// the same matrix as a padded view, as the transpose of a padded view of the transposed
	// storage, and as an opaque Matrix: the At path must give the dense result
	cols := make([][]float64, n)
	for j := range cols {
		cols[j] = make([]float64, n)
		for i := range cols[j] {
			cols[j][i] = l.w[i][j]
		}
	}
	for _, kind := range []string{"view", "tview", "opaque"} {
		out[kind] = buildRep(cols, kind).m
	}
	return out
}

var spatialVals = []float64{0, 1, 3}

func spatialCase(t *vlib.T, idx []int, l locality) {
	spatialData(t, pick(spatialVals, idx), l)
}

// spatialData checks GlobalMoransI and GetisOrdGStar for one data vector given by value.
func spatialData(t *vlib.T, data []float64, l locality) {
	n := len(data)
	fn := float64(n)
	m := newMom(data, nil).withRats()
	wr := make([][]*big.Rat, n)
	for i := range wr {
		wr[i] = rats(l.w[i])
	}
	outcome := fmt.Sprintf("n=%d sym=%v", n, l.sym)
	// exact Moran's I
	num, s0, s1, s2 := new(big.Rat), new(big.Rat), new(big.Rat), new(big.Rat)
	numAbs, numPert := 0.0, 0.0
	for i := 0; i < n; i++ {
		rc := new(big.Rat)
		for j := 0; j < n; j++ {
			num.Add(num, rmul(wr[i][j], rmul(m.dr[i], m.dr[j])))
			numAbs += math.Abs(l.w[i][j]) * (m.df[i] + m.tau) * (m.df[j] + m.tau)
			// effect of the error (<= tau) of the computed mean on the centred products: first order in tau
			numPert += math.Abs(l.w[i][j]) * ((m.df[i]+m.tau)*(m.df[j]+m.tau) - m.df[i]*m.df[j])
			s0.Add(s0, wr[i][j])
			v := radd(wr[i][j], wr[j][i])
			s1.Add(s1, rmul(v, v))
			rc.Add(rc, v)
		}
		s2.Add(s2, rmul(rc, rc))
	}
	s1.Quo(s1, rint(2))
	den := m.Sr
	haveI := den.Sign() > 0 && s0.Sign() != 0
	var Iw, Vw, Zw, tolI, tolV, tolZ float64
	haveV := false
	if haveI {
		nR := rint(int64(n))
		I := rmul(rquo(nR, s0), rquo(num, den))
		Iw = rf(I)
		tolDen := 8 * (fn + 5) * eps * (m.Sf + fn*m.tau*m.tau)
		tolI = fn/math.Abs(rf(s0))*((8*(fn*fn+8)*eps*numAbs+1.01*numPert)/m.Sf+math.Abs(rf(num))/m.Sf*tolDen/m.Sf)*1.01 + 8*eps*math.Abs(Iw)
		E := rquo(rint(-1), rint(int64(n-1)))
		n2 := rmul(nR, nR)
		a := rmul(nR, radd(rsub(rmul(radd(rsub(n2, rmul(rint(3), nR)), rint(3)), s1), rmul(nR, s2)), rmul(rint(3), rmul(s0, s0))))
		c := rmul(rint(int64((n-1)*(n-2)*(n-3))), rmul(s0, s0))
		d := rquo(xrat(m.centralSum(4)), rmul(m.Sr, m.Sr))
		b := rmul(d, radd(rsub(rmul(rsub(n2, nR), s1), rmul(rmul(rint(2), nR), s2)), rmul(rint(6), rmul(s0, s0))))
		V := rsub(rquo(rsub(a, b), c), rmul(E, E))
		Vw = rf(V)
		relD := 16*(fn+8)*eps + 8*m.tau*fn/math.Sqrt(m.Sf/fn+1e-300)
		tolV = (32*eps*(math.Abs(rf(a))+math.Abs(rf(b)))+relD*math.Abs(rf(b)))/math.Abs(rf(c)) + 4*eps
		if V.Sign() > 0 && tolV/Vw < 1e-3 {
			haveV = true
			sv := math.Sqrt(Vw)
			Zw = rf(rsub(I, E)) / sv
			tolZ = tolI/sv*1.01 + math.Abs(Zw)*tolV/Vw + 8*eps*math.Abs(Zw)
		}
	}
	mats := l.matrices()
	for _, kind := range []string{"dense", "band", "symband", "view", "tview", "opaque"} {
		M, ok := mats[kind]
		if !ok {
			continue
		}
		var gi, gv, gz float64
		msg, pan := catch(func() { gi, gv, gz = spatial.GlobalMoransI(data, nil, M) })
		if pan {
			t.Failf("GlobalMoransI(%s) panics %q", kind, msg)
			continue
		}
		if haveI {
			if !near(gi, Iw, tolI) {
				t.Failf("GlobalMoransI(%s) I = %v, double sum gives %v (bound %.3g)", kind, gi, Iw, tolI)
			}
			if !near(gv, Vw, tolV) {
				msg := fmt.Sprintf("GlobalMoransI(%s) Var(I) = %v, formula over all (i,j) gives %v (bound %.3g)", kind, gv, Vw, tolV)
				if !l.sym && kind == "band" {
					t.SubViolation("moran-var-"+kind, "moran-var-asymmetric-sparse", map[string]any{"data": data, "locality": l.w}, "%s", msg)
				} else {
					t.Failf("%s", msg)
				}
			} else if haveV && !near(gz, Zw, tolZ) {
				t.Failf("GlobalMoransI(%s) z = %v, want %v (bound %.3g)", kind, gz, Zw, tolZ)
			}
		}
		// Getis-Ord G*_i from its documented formula
		xbar := m.meanr
		sq := new(big.Rat)
		for _, x := range m.xr {
			sq.Add(sq, rmul(x, x))
		}
		S2 := rsub(rquo(sq, rint(int64(n))), rmul(xbar, xbar))
		for i := 0; i < n; i++ {
			var gg float64
			msg, pan := catch(func() { gg = spatial.GetisOrdGStar(i, data, nil, M) })
			if pan {
				t.Failf("GetisOrdGStar(%d,%s) panics %q", i, kind, msg)
				continue
			}
			swx, sw, sww := new(big.Rat), new(big.Rat), new(big.Rat)
			absN := 0.0
			for j := 0; j < n; j++ {
				swx.Add(swx, rmul(wr[i][j], m.xr[j]))
				sw.Add(sw, wr[i][j])
				sww.Add(sww, rmul(wr[i][j], wr[i][j]))
				absN += math.Abs(l.w[i][j]) * (math.Abs(data[j]) + math.Abs(m.meanf))
			}
			numG := rsub(swx, rmul(xbar, sw))
			inner := rquo(rsub(rmul(rint(int64(n)), sww), rmul(sw, sw)), rint(int64(n-1)))
			if S2.Sign() <= 0 || inner.Sign() <= 0 {
				continue // 0/0 or x/0: undefined
			}
			denG := sqrtRat(rmul(S2, inner))
			want := rf(numG) / denG
			// S is a standard deviation: the bound is that of the corrected two-pass sum of squares
			// (tolS: first order in eps, second order in the error of the mean), NOT that of the
			// textbook form sum(x^2)/n - mean^2 of the doc comment, whose cancellation costs
			// eps*(mean/S)^2 and destroys translation invariance for data with a large mean.
			relDen := 0.51*m.tolS()/m.Sf*1.01 + 16*eps + 16*(fn+4)*eps*(fn*rf(sww)+rf(rmul(sw, sw)))/(rf(inner)*(fn-1))
			tol := 8*(fn+4)*eps*absN/denG + math.Abs(want)*relDen + 8*eps*math.Abs(want)
			if !near(gg, want, tol) {
				t.Failf("GetisOrdGStar(%d,%s) = %v, formula gives %v (bound %.3g)", i, kind, gg, want, tol)
			}
		}
	}
	// documented panics: weights not nil, shape mismatch
	if _, pan := catch(func() { spatial.GlobalMoransI(data, make([]float64, n), mats["dense"]) }); !pan {
		t.Failf("GlobalMoransI with weights did not panic")
	}
	if _, pan := catch(func() { spatial.GetisOrdGStar(0, data, make([]float64, n), mats["dense"]) }); !pan {
		t.Failf("GetisOrdGStar with weights did not panic")
	}
	if _, pan := catch(func() { spatial.GlobalMoransI(data[:n-1], nil, mats["dense"]) }); !pan {
		t.Failf("GlobalMoransI with mismatched shape did not panic")
	}
	if haveI {
		outcome += " I"
	}
	if haveV {
		outcome += " z"
	}
	t.Nontrivial()
	t.Outcome(outcome)
	if t.Failed() {
		t.Detail(map[string]any{"data": data, "locality": l.w})
	}
}

func genSpatial(g *vlib.G) {
	for _, n := range []int{4, 5} {
		ls := localities(n, g.Thorough())
		sequences(n, 3, func(idx []int) {
			id := append([]int(nil), idx...)
			for _, l := range ls {
				l := l
				gcase(g, fmt.Sprintf("n=%d x=%s W=%s", n, digits(id), l.name), func(t *vlib.T) { spatialCase(t, id, l) })
			}
		})
		if g.Stopped() {
			return
		}
	}
}

// ---- Torgerson scaling -----------------------------------------------------------

func mdsCase(t *vlib.T, pts [][2]int, passEig bool) {
	mdsCaseRep(t, pts, passEig, "compact")
}

func mdsCaseRep(t *vlib.T, pts [][2]int, passEig bool, kind string) {
	mdsCaseScaled(t, pts, passEig, kind, 1)
}

// mdsCaseRep is mdsCase with the dissimilarity matrix in the given storage representation.
// mdsCaseScaled: the configuration is scaled by the exact factor scale (a power of two).
func mdsCaseScaled(t *vlib.T, pts [][2]int, passEig bool, kind string, scale float64) {
	n := len(pts)
	fn := float64(n)
	compact := mat.NewSymDense(n, nil)
	dis := compact
	d2 := make([][]float64, n)
	maxD2 := 0.0
	for i := range pts {
		d2[i] = make([]float64, n)
		for j := range pts {
			dx, dy := float64(pts[i][0]-pts[j][0]), float64(pts[i][1]-pts[j][1])
			d2[i][j] = (dx*dx + dy*dy) * scale * scale
			maxD2 = math.Max(maxD2, d2[i][j])
			if j >= i {
				dis.SetSym(i, j, math.Sqrt(dx*dx+dy*dy)*scale)
			}
		}
	}
	// centred Gram matrix invariants: trace and the 2x2 scatter matrix (exact rationals)
	cx, cy := new(big.Rat), new(big.Rat)
	for _, p := range pts {
		cx.Add(cx, rint(int64(p[0])))
		cy.Add(cy, rint(int64(p[1])))
	}
	cx.Quo(cx, rint(int64(n)))
	cy.Quo(cy, rint(int64(n)))
	sxx, syy, sxy := new(big.Rat), new(big.Rat), new(big.Rat)
	for _, p := range pts {
		dx, dy := rsub(rint(int64(p[0])), cx), rsub(rint(int64(p[1])), cy)
		sxx.Add(sxx, rmul(dx, dx))
		syy.Add(syy, rmul(dy, dy))
		sxy.Add(sxy, rmul(dx, dy))
	}
	trace := radd(sxx, syy)
	det := rsub(rmul(sxx, syy), rmul(sxy, sxy))
	disc := sqrtRat(rsub(rmul(trace, trace), rmul(rint(4), det)))
	disc *= scale * scale
	tr := rf(trace) * scale * scale
	l1, l2 := (tr+disc)/2, (tr-disc)/2
	rank := 0
	if trace.Sign() > 0 {
		rank = 1
		if det.Sign() > 0 {
			rank = 2
		}
	}
	tol := 512 * (fn + 4) * eps * (tr + maxD2 + scale*scale)

	var dst mat.Dense
	var eigdst []float64
	if passEig {
		eigdst = make([]float64, n)
		vlib.FillPoison64(eigdst)
	}
	var k int
	var eig []float64
	srep := buildSymRep(compact, kind)
	msg, pan := catch(func() { k, eig = mds.TorgersonScaling(&dst, eigdst, srep.s) })
	if pan {
		t.Failf("TorgersonScaling(%s dissimilarities) panics %q", kind, msg)
		return
	}
	if !srep.intact() {
		t.Failf("TorgersonScaling modified the %s dissimilarity matrix or the storage around it", kind)
	}
	if kind != "compact" {
		// the result must not depend on how the caller stores the dissimilarities
		var d0 mat.Dense
		e0 := make([]float64, n)
		k0, _ := mds.TorgersonScaling(&d0, e0, compact)
		if k0 != k {
			t.Failf("TorgersonScaling k = %d for the %s representation, %d for the compact one", k, kind, k0)
		} else if i, j, ok := sameMat(&dst, &d0); !ok {
			t.Failf("TorgersonScaling coordinates of the %s representation differ from the compact ones at (%d,%d)", kind, i, j)
		}
		if passEig {
			if i, ok := vlib.Same64(eig, e0); !ok {
				t.Failf("TorgersonScaling eigenvalues of the %s representation differ from the compact ones at %d: %v vs %v", kind, i, eig, e0)
			}
		}
	}
	{
		// the returned coordinates do not alias the caller's matrix
		keep := mat.DenseCopyOf(&dst)
		if dst.IsEmpty() {
			keep = nil
		}
		srep.clobber()
		if keep != nil {
			if i, j, ok := sameMat(&dst, keep); !ok {
				t.Failf("TorgersonScaling coordinates change when the caller overwrites the dissimilarities, at (%d,%d)", i, j)
			}
		}
	}
	if passEig {
		if len(eig) != n || &eig[0] != &eigdst[0] {
			t.Failf("eig is not the provided eigdst")
			return
		}
		sum := 0.0
		for i, v := range eig {
			sum += v
			if i > 0 && v > eig[i-1]+tol {
				t.Failf("eigenvalues not descending: %v", eig)
			}
		}
		if !near(sum, tr, tol) {
			t.Failf("sum of eigenvalues %v != trace of the centred Gram matrix %v", sum, tr)
		}
		if !near(eig[0], l1, tol) || (n >= 2 && !near(eig[1], l2, tol)) {
			t.Failf("leading eigenvalues %v, scatter matrix gives %v, %v", eig, l1, l2)
		}
		for i := 2; i < n; i++ {
			if math.Abs(eig[i]) > tol {
				t.Failf("eigenvalue %d = %v of a planar configuration is not ~0", i, eig[i])
			}
		}
	} else if eig != nil {
		t.Failf("eig returned without eigdst: %v", eig)
	}
	if k < rank || k > n {
		t.Failf("k = %d for a configuration of rank %d", k, rank)
		return
	}
	r, c := dst.Dims()
	if dst.IsEmpty() && k > 0 || (!dst.IsEmpty() && (r != n || c != k)) {
		t.Failf("dst is %dx%d, want %dx%d", r, c, n, k)
		return
	}
	// the coordinates reproduce every squared distance
	for i := 0; i < n; i++ {
		for j := i + 1; j < n; j++ {
			s := 0.0
			for l := 0; l < k; l++ {
				d := dst.At(i, l) - dst.At(j, l)
				s += d * d
			}
			if !near(s, d2[i][j], tol) {
				t.Failf("reconstructed squared distance (%d,%d) = %v, want %v (bound %.3g)", i, j, s, d2[i][j], tol)
			}
		}
	}
	// columns beyond the true rank carry no extent
	for l := rank; l < k; l++ {
		s := 0.0
		for i := 0; i < n; i++ {
			s += dst.At(i, l) * dst.At(i, l)
		}
		if s > tol {
			t.Failf("column %d beyond rank %d has squared norm %v", l, rank, s)
		}
	}
	if n >= 3 {
		t.Nontrivial()
	}
	t.Outcome(fmt.Sprintf("n=%d rank=%d k-rank=%d rep=%s", n, rank, k-rank, kind))
	if t.Failed() {
		t.Detail(map[string]any{"points": pts, "rep": kind})
	}
}

func genMDS(g *vlib.G) {
	// non-empty dst must panic (documented)
	gcase(g, "nonempty-dst", func(t *vlib.T) {
		dst := mat.NewDense(2, 2, nil)
		if _, pan := catch(func() { mds.TorgersonScaling(dst, nil, mat.NewSymDense(2, []float64{0, 1, 1, 0})) }); !pan {
			t.Failf("TorgersonScaling with non-empty dst did not panic")
		}
		t.Outcome("panic")
	})
	maxN := vlib.Pick(g, 4, 5)
	for n := 1; n <= maxN; n++ {
		n := n
		side := 3
		sequences(n, side*side, func(idx []int) {
			id := append([]int(nil), idx...)
			gcase(g, fmt.Sprintf("pts=%s", digits(id)), func(t *vlib.T) {
				pts := make([][2]int, n)
				for i, d := range id {
					pts[i] = [2]int{d / side, (d % side) * 2} // anisotropic grid: y spacing 2
				}
				mdsCase(t, pts, (id[0]+n)%2 == 0)
			})
		})
		if g.Stopped() {
			return
		}
	}
}

func spatialGStar(i int, data []float64, locality mat.Matrix) float64 {
	return spatial.GetisOrdGStar(i, data, nil, locality)
}
