// Groups "quantile" (Quantile, CDF), "histogram", "ks", "sortmode" and "long":
// order statistics on sorted data against exact cumulative-weight definitions.
package main

import (
	"fmt"
	"math"
	"math/big"
	"sort"
	"strings"

	"gonum.org/v1/gonum/internal/verif/vlib"
	"gonum.org/v1/gonum/stat"
)

// pGrid returns {0, k/n, 1/3, 1/2, 0.999, 1} sorted without duplicates.
func pGrid(n int) []float64 {
	ps := []float64{0, 1.0 / 3, 0.5, 0.999, 1}
	if n <= 12 {
		for k := 1; k < n; k++ {
			ps = append(ps, float64(k)/float64(n))
		}
	} else {
		for _, k := range []int{1, n / 4, n - 1} {
			ps = append(ps, float64(k)/float64(n))
		}
	}
	sort.Float64s(ps)
	out := ps[:1]
	for _, p := range ps[1:] {
		if p != out[len(out)-1] {
			out = append(out, p)
		}
	}
	return out
}

// cumw holds exact cumulative weights. All inputs are float64 values, so sums
// and products are dyadic rationals; big.Float at 1024 bits represents them
// exactly (every operation is checked to be exact), without the GCD cost of big.Rat.
type cumw struct {
	x, w, cum []*big.Float
	W         *big.Float
}

func newCumw(x, w []float64) *cumw {
	n := len(x)
	c := &cumw{x: make([]*big.Float, n), w: make([]*big.Float, n), cum: make([]*big.Float, n)}
	s := xf(0)
	for i := range x {
		c.x[i] = xf(x[i])
		if w == nil {
			c.w[i] = xf(1)
		} else {
			c.w[i] = xf(w[i])
		}
		s = xadd(s, c.w[i])
		c.cum[i] = s
	}
	c.W = s
	return c
}

// empirical: smallest x_i whose cumulative weight reaches pr*W.
func (c *cumw) empirical(pr *big.Float) float64 {
	target := xmul(pr, c.W)
	for i := range c.x {
		if c.cum[i].Cmp(target) >= 0 {
			return bff(c.x[i])
		}
	}
	return bff(c.x[len(c.x)-1])
}

// linInterp: the piecewise-linear curve through (cum_i/W, x_i), flat below cum_0/W.
func (c *cumw) linInterp(pr *big.Float) float64 {
	target := xmul(pr, c.W)
	for i := range c.x {
		if c.cum[i].Cmp(target) >= 0 {
			if i == 0 {
				return bff(c.x[0])
			}
			t := xquo(xsub(c.cum[i], target), c.w[i])
			one := xf(1)
			return bff(qadd(qmul(t, c.x[i-1]), qmul(qsub(one, t), c.x[i])))
		}
	}
	return bff(c.x[len(c.x)-1])
}

// cdf: fraction of weight at values <= q (rounded to float64 from 192 bits).
func (c *cumw) cdf(q float64) float64 {
	s := xf(0)
	for i := range c.x {
		if bff(c.x[i]) <= q {
			s = xadd(s, c.w[i])
		}
	}
	return bff(xquo(s, c.W))
}

// checkQuantileCDF checks Quantile (both kinds, whole p grid) and CDF for one
// sorted sample. It returns outcome flags.
func checkQuantileCDF(t *vlib.T, x, w []float64) string {
	n := len(x)
	c := newCumw(x, w)
	if c.W.Sign() <= 0 {
		return "W=0"
	}
	delta := float64(2*n+4) * eps
	one := xf(1)
	oneLo, oneHi := xsub(one, xf(delta)), xadd(one, xf(delta))
	xmax := maxAbs(x)
	lip := 0.0
	Wf := bff(c.W)
	for i := 1; i < n; i++ {
		if c.w[i].Sign() > 0 {
			lip = math.Max(lip, Wf/bff(c.w[i])*(x[i]-x[i-1]))
		}
	}
	slackLin := 4*eps*xmax + 2*delta*lip
	x0, w0 := cloneF(x), cloneF(w)
	impossible := 0
	ties := 0
	for _, kind := range []stat.CumulantKind{stat.Empirical, stat.LinInterp} {
		kname := "Empirical"
		if kind == stat.LinInterp {
			kname = "LinInterp"
		}
		prev := math.Inf(-1)
		for _, p := range pGrid(n) {
			var got float64
			msg, pan := catch(func() { got = stat.Quantile(p, kind, x, w) })
			if pan {
				if msg == "impossible" {
					impossible++
					t.SubViolation(fmt.Sprintf("%s p=%v", kname, p), "quantile-p1-impossible",
						map[string]any{"p": p, "kind": kname, "x": x, "w": w},
						"Quantile(%v, %s, x, w) panics %q for p in [0,1]", p, kname, msg)
				} else {
					t.Failf("Quantile(%v, %s) panics %q for p in [0,1]", p, kname, msg)
				}
				continue
			}
			pr := xf(p)
			pLo := xmul(pr, oneLo)
			pHi := xmul(pr, oneHi)
			var lo, hi float64
			slack := 0.0
			if kind == stat.Empirical {
				lo = c.empirical(pLo)
				hi = x[n-1]
				if pHi.Cmp(one) < 0 {
					hi = c.empirical(pHi)
				}
				found := false
				for _, v := range x {
					if v == got {
						found = true
					}
				}
				if !found {
					t.Failf("Quantile(%v, Empirical) = %v is not a sample value", p, got)
				}
				// CDF(Quantile(p)) >= p.
				if cd := stat.CDF(got, stat.Empirical, x, w); !(cd >= p-delta) {
					t.Failf("CDF(Quantile(%v)) = %v < p", p, cd)
				}
			} else {
				slack = slackLin
				lo = c.linInterp(pLo)
				hi = x[n-1]
				if pHi.Cmp(one) < 0 {
					hi = c.linInterp(pHi)
				}
			}
			if lo != hi {
				ties++
			}
			if !(got >= lo-slack && got <= hi+slack) {
				t.Failf("Quantile(%v, %s) = %v, definition gives [%v, %v] (slack %.3g)", p, kname, got, lo, hi, slack)
			}
			if !(got >= x[0]-slack && got <= x[n-1]+slack) {
				t.Failf("Quantile(%v, %s) = %v outside [min,max] = [%v,%v]", p, kname, got, x[0], x[n-1])
			}
			if !(got >= prev-slack) {
				t.Failf("Quantile not monotone in p: %s p=%v gives %v after %v", kname, p, got, prev)
			}
			prev = got
		}
	}
	// CDF at and between the sample values.
	qs := []float64{math.Inf(-1), x[0] - 1, x[n-1] + 1, math.Inf(1)}
	for i, v := range x {
		qs = append(qs, v)
		if i > 0 && x[i-1] != v {
			qs = append(qs, x[i-1]+(v-x[i-1])/2)
		}
	}
	for _, q := range qs {
		got := stat.CDF(q, stat.Empirical, x, w)
		switch {
		case q < x[0]:
			if got != 0 {
				t.Failf("CDF(%v) = %v below the sample, want 0", q, got)
			}
		case q >= x[n-1]:
			if got != 1 {
				t.Failf("CDF(%v) = %v at/above the maximum, want 1", q, got)
			}
		default:
			want := c.cdf(q)
			if !near(got, want, delta) {
				t.Failf("CDF(%v) = %v, definition gives %v", q, got, want)
			}
		}
	}
	if i, ok := vlib.Same64(x, x0); !ok {
		t.Failf("x modified at %d", i)
	}
	if i, ok := vlib.Same64(w, w0); !ok {
		t.Failf("weights modified at %d", i)
	}
	out := fmt.Sprintf("n=%d", n)
	if impossible > 0 {
		out += " impossible-panic"
	}
	if ties > 0 {
		out += " boundary-p"
	}
	return out
}

func genQuantile(g *vlib.G) {
	maxN := vlib.Pick(g, 5, 6)
	for n := 1; n <= maxN; n++ {
		sets := weightSets(n, intW, ndW)
		multisets(n, 6, func(idx []int) {
			id := append([]int(nil), idx...)
			for _, ws := range sets {
				ws := ws
				gcase(g, fmt.Sprintf("x=%s w=%s", digits(id), ws.name), func(t *vlib.T) {
					x := pick(vals6, id)
					w := cloneF(ws.w)
					out := checkQuantileCDF(t, x, w)
					// ones == nil bit for bit; integer weights == replication (Empirical).
					if ws.name == "ones" {
						for _, p := range pGrid(n) {
							for _, k := range []stat.CumulantKind{stat.Empirical, stat.LinInterp} {
								a, b := stat.Quantile(p, k, x, w), stat.Quantile(p, k, x, nil)
								if !sameBits(a, b) {
									t.Failf("Quantile(%v,%d) ones %v != nil %v", p, k, a, b)
								}
							}
						}
					}
					if ws.w != nil && ws.isInt() && ws.name != "ones" {
						xr := replicate(x, w)
						for _, p := range []float64{0, 0.25, 0.5, 0.75, 1} {
							if p == 0 && ws.hasZero() {
								continue // Quantile(0) returns x[0] whatever its weight; replication drops it
							}
							a, b := stat.Quantile(p, stat.Empirical, x, w), stat.Quantile(p, stat.Empirical, xr, nil)
							if !sameBits(a, b) {
								t.Failf("Quantile(%v,Empirical) integer weights %v != replicated %v", p, a, b)
							}
						}
						for _, q := range x {
							a, b := stat.CDF(q, stat.Empirical, x, w), stat.CDF(q, stat.Empirical, xr, nil)
							if !sameBits(a, b) {
								t.Failf("CDF(%v) integer weights %v != replicated %v", q, a, b)
							}
						}
						out += " repl"
					}
					// affine x -> 2x+1 (exact, order preserving): Empirical quantiles map exactly.
					if ws.w == nil || ws.name[0] == 'z' {
						xa := make([]float64, n)
						for i, v := range x {
							xa[i] = 2*v + 1
						}
						for _, p := range pGrid(n) {
							var a, b float64
							_, p1 := catch(func() { a = stat.Quantile(p, stat.Empirical, x, w) })
							_, p2 := catch(func() { b = stat.Quantile(p, stat.Empirical, xa, w) })
							if !p1 && !p2 && b != 2*a+1 {
								t.Failf("Quantile(%v,Empirical)(2x+1) = %v, want 2*%v+1", p, b, a)
							}
						}
					}
					if n >= 2 {
						t.Nontrivial()
					}
					t.Outcome(out)
					if t.Failed() {
						t.Detail(map[string]any{"x": x, "w": w})
					}
				})
			}
		})
		if g.Stopped() {
			return
		}
	}
}

// ---- Histogram ------------------------------------------------------------

var histGrid = []float64{-2, -0.5, 1, 1, 3, 2e15}

// dividerSets returns every sorted sub-multiset (size >= 2) of histGrid; the
// second copy of the repeated point is only used together with the first.
func dividerSets() [][]float64 {
	var out [][]float64
	for mask := 0; mask < 1<<len(histGrid); mask++ {
		if mask&(1<<3) != 0 && mask&(1<<2) == 0 {
			continue
		}
		var d []float64
		for i, v := range histGrid {
			if mask&(1<<i) != 0 {
				d = append(d, v)
			}
		}
		if len(d) >= 2 {
			out = append(out, d)
		}
	}
	return out
}

func checkHistogram(t *vlib.T, x, w []float64, divs [][]float64) string {
	n := len(x)
	wr := ratWeights(w, n)
	isInt := true
	for _, v := range w {
		if v != math.Trunc(v) {
			isInt = false
		}
	}
	total := rsum(wr)
	totalAbs := rf(total)
	x0, w0 := cloneF(x), cloneF(w)
	var nPanic, nOK, nEmptyBins int
	for di, d := range divs {
		d0 := cloneF(d)
		var count []float64
		if di%2 == 1 {
			count = make([]float64, len(d)-1)
			vlib.FillPoison64(count)
		}
		var got []float64
		msg, pan := catch(func() { got = stat.Histogram(count, d, x, w) })
		inRange := x[0] >= d[0] && x[n-1] < d[len(d)-1]
		if !inRange {
			// Outside the stated bins: the implementation's evident contract is an explicit panic.
			if !pan || !strings.HasPrefix(msg, "histogram:") {
				t.Failf("Histogram with data outside [%v,%v): panicked=%v %q, want an explicit histogram: panic", d[0], d[len(d)-1], pan, msg)
			}
			nPanic++
			continue
		}
		if pan {
			t.Failf("Histogram(dividers=%v) panics %q on in-range sorted data", d, msg)
			continue
		}
		nOK++
		if len(got) != len(d)-1 {
			t.Failf("Histogram returns %d bins for %d dividers", len(got), len(d))
			continue
		}
		if count != nil && &got[0] != &count[0] {
			t.Failf("Histogram did not use the provided count slice")
		}
		sum := new(big.Rat)
		for j := range got {
			want := new(big.Rat)
			for i := range x {
				if x[i] >= d[j] && x[i] < d[j+1] {
					want.Add(want, wr[i])
				}
			}
			if want.Sign() == 0 {
				nEmptyBins++
			}
			wf := rf(want)
			tol := float64(n) * eps * wf
			if isInt {
				tol = 0
			}
			if !near(got[j], wf, tol) {
				t.Failf("Histogram(dividers=%v) bin %d [%v,%v) = %v, counting gives %v", d, j, d[j], d[j+1], got[j], wf)
			}
			if !math.IsNaN(got[j]) && !math.IsInf(got[j], 0) {
				sum.Add(sum, rat(got[j]))
			}
		}
		// conservation of total weight
		diff := rf(rabs(rsub(sum, total)))
		ctol := float64(2*n) * eps * totalAbs
		if isInt {
			ctol = 0
		}
		if diff > ctol {
			t.Failf("Histogram(dividers=%v) total %v != total weight %v", d, rf(sum), totalAbs)
		}
		if i, ok := vlib.Same64(d, d0); !ok {
			t.Failf("dividers modified at %d", i)
		}
	}
	if i, ok := vlib.Same64(x, x0); !ok {
		t.Failf("x modified at %d", i)
	}
	if i, ok := vlib.Same64(w, w0); !ok {
		t.Failf("weights modified at %d", i)
	}
	return fmt.Sprintf("n=%d inrange=%d emptybins>0=%v", n, nOK, nEmptyBins > 0)
}

func genHistogram(g *vlib.G) {
	maxN := vlib.Pick(g, 5, 6)
	divs := dividerSets()
	for n := 1; n <= maxN; n++ {
		sets := weightSets(n, intW, ndW)
		if n == 5 && !g.Thorough() {
			sets = weightSets(n, intW, []float64{0.1, 0.3, 0.7})
		}
		if n == 6 {
			sets = weightSets(n, []float64{1, 2}, []float64{0.1, 0.3, 0.7})
		}
		multisets(n, 6, func(idx []int) {
			id := append([]int(nil), idx...)
			for _, ws := range sets {
				ws := ws
				gcase(g, fmt.Sprintf("x=%s w=%s", digits(id), ws.name), func(t *vlib.T) {
					x := pick(vals6, id)
					w := cloneF(ws.w)
					out := checkHistogram(t, x, w, divs)
					if ws.name == "ones" {
						for _, d := range divs {
							var a, b []float64
							_, p1 := catch(func() { a = stat.Histogram(nil, d, x, w) })
							_, p2 := catch(func() { b = stat.Histogram(nil, d, x, nil) })
							if p1 != p2 {
								t.Failf("Histogram ones/nil panic mismatch for dividers %v", d)
							} else if !p1 {
								if i, ok := vlib.Same64(a, b); !ok {
									t.Failf("Histogram ones != nil at bin %d dividers %v", i, d)
								}
							}
						}
					}
					if ws.w != nil && ws.isInt() && ws.name != "ones" && !ws.hasZero() {
						xr := replicate(x, w)
						for _, d := range divs {
							var a, b []float64
							_, p1 := catch(func() { a = stat.Histogram(nil, d, x, w) })
							_, p2 := catch(func() { b = stat.Histogram(nil, d, xr, nil) })
							if p1 != p2 {
								t.Failf("Histogram weighted/replicated panic mismatch for dividers %v", d)
							} else if !p1 {
								if i, ok := vlib.Same64(a, b); !ok {
									t.Failf("Histogram integer weights != replication at bin %d dividers %v", i, d)
								}
							}
						}
					}
					if n >= 2 {
						t.Nontrivial()
					}
					t.Outcome(out)
					if t.Failed() {
						t.Detail(map[string]any{"x": x, "w": w})
					}
				})
			}
		})
		if g.Stopped() {
			return
		}
	}
}

// ---- Kolmogorov-Smirnov -----------------------------------------------------

func ksExact(x, xw, y, yw []float64) float64 {
	cx, cy := newCumw(x, xw), newCumw(y, yw)
	best := 0.0
	for _, pts := range [][]float64{x, y} {
		for _, v := range pts {
			// each CDF value is correctly rounded; the difference of two numbers in [0,1] adds <= 1 ulp of 1
			d := math.Abs(cx.cdf(v) - cy.cdf(v))
			if d > best {
				best = d
			}
		}
	}
	return best
}

func ksWeights(n int) []wspec {
	out := []wspec{{"nil", nil}}
	ones, ramp, nd, nd2 := make([]float64, n), make([]float64, n), make([]float64, n), make([]float64, n)
	for i := 0; i < n; i++ {
		ones[i] = 1
		ramp[i] = intW[(i+1)%3]
		nd[i] = ndW[i%4]
		nd2[i] = ndW[(3*i+3)%4]
	}
	out = append(out, wspec{"ones", ones}, wspec{"ramp", ramp}, wspec{"nd", nd}, wspec{"nd2", nd2})
	if n >= 2 {
		z0, zl := cloneF(nd), cloneF(ramp)
		z0[0] = 0
		zl[n-1] = 0
		out = append(out, wspec{"z0", z0}, wspec{"zl", zl})
	}
	return out
}

func checkKS(t *vlib.T, x, xw, y, yw []float64) {
	var got float64
	msg, pan := catch(func() { got = stat.KolmogorovSmirnov(x, xw, y, yw) })
	if pan {
		t.Failf("KolmogorovSmirnov panics %q on sorted data", msg)
		return
	}
	want := ksExact(x, xw, y, yw)
	tol := float64(2*(len(x)+len(y))+8) * eps
	if !near(got, want, tol) {
		t.Failf("KolmogorovSmirnov = %v, brute-force sup distance = %v", got, want)
	}
	var rev float64
	_, pan = catch(func() { rev = stat.KolmogorovSmirnov(y, yw, x, xw) })
	if pan || !near(rev, got, 2*tol) {
		t.Failf("KolmogorovSmirnov not symmetric: %v vs %v (panic=%v)", got, rev, pan)
	}
	if !(got >= 0 && got <= 1+tol) {
		t.Failf("KolmogorovSmirnov = %v outside [0,1]", got)
	}
}

func genKS(g *vlib.G) {
	maxN := vlib.Pick(g, 3, 4)
	// special cases of the documentation
	gcase(g, "empty", func(t *vlib.T) {
		if v := stat.KolmogorovSmirnov(nil, nil, nil, nil); v != 0 {
			t.Failf("KS(empty,empty) = %v, want 0", v)
		}
		if v := stat.KolmogorovSmirnov([]float64{1}, nil, nil, nil); v != 1 {
			t.Failf("KS(x,empty) = %v, want 1", v)
		}
		if v := stat.KolmogorovSmirnov(nil, nil, []float64{1}, []float64{2}); v != 1 {
			t.Failf("KS(empty,y) = %v, want 1", v)
		}
		t.Outcome("special")
	})
	type samp struct {
		idx []int
	}
	var all []samp
	for n := 1; n <= maxN; n++ {
		multisets(n, 6, func(idx []int) { all = append(all, samp{append([]int(nil), idx...)}) })
	}
	for _, a := range all {
		for _, b := range all {
			a, b := a, b
			gcase(g, fmt.Sprintf("x=%s y=%s", digits(a.idx), digits(b.idx)), func(t *vlib.T) {
				x, y := pick(vals6, a.idx), pick(vals6, b.idx)
				wa, wb := ksWeights(len(x)), ksWeights(len(y))
				full := len(x)+len(y) <= 6
				for i, xa := range wa {
					for j, yb := range wb {
						if !full && i != j && i != 0 && j != 0 {
							continue
						}
						checkKS(t, x, cloneF(xa.w), y, cloneF(yb.w))
						if t.Failed() {
							t.Detail(map[string]any{"x": x, "y": y, "xw": xa.w, "yw": yb.w})
							return
						}
					}
				}
				// equal samples and weights: distance 0.
				if v := stat.KolmogorovSmirnov(x, nil, x, nil); v != 0 {
					t.Failf("KS(x,x) = %v", v)
				}
				t.Nontrivial()
				t.Outcome(fmt.Sprintf("nx=%d ny=%d", len(x), len(y)))
			})
		}
		if g.Stopped() {
			return
		}
	}
}

// ---- SortWeighted, SortWeightedLabeled, Mode ----------------------------------

type triple struct {
	x, w float64
	l    bool
}

func sortedTriples(x, w []float64, l []bool) []triple {
	ts := make([]triple, len(x))
	for i := range x {
		ts[i].x = x[i]
		if w != nil {
			ts[i].w = w[i]
		}
		if l != nil {
			ts[i].l = l[i]
		}
	}
	sort.Slice(ts, func(i, j int) bool {
		a, b := ts[i], ts[j]
		if a.x != b.x {
			return a.x < b.x
		}
		if a.w != b.w {
			return a.w < b.w
		}
		return !a.l && b.l
	})
	return ts
}

func genSortMode(g *vlib.G) {
	maxN := vlib.Pick(g, 5, 6)
	for n := 0; n <= maxN; n++ {
		n := n
		sequences(n, 6, func(idx []int) {
			id := append([]int(nil), idx...)
			gcase(g, "x="+digits(id), func(t *vlib.T) {
				x := pick(vals6, id)
				wts := [][]float64{nil, make([]float64, n), make([]float64, n)}
				for i := 0; i < n; i++ {
					wts[1][i] = float64(i + 1) // distinct: tracks each element
					wts[2][i] = ndW[(i*3+id[i])%4]
				}
				for li := 0; li < 3; li++ {
					var labels []bool
					if li > 0 {
						labels = make([]bool, n)
						for i := range labels {
							labels[i] = (i+li)%2 == 0 || (li == 2 && id[i] >= 3)
						}
					}
					for _, w := range wts {
						xs, wsd, ls := cloneF(x), cloneF(w), append([]bool(nil), labels...)
						if labels == nil {
							ls = nil
						}
						before := sortedTriples(xs, wsd, ls)
						if li == 0 && w != nil && n%2 == 0 {
							stat.SortWeighted(xs, wsd)
						} else {
							stat.SortWeightedLabeled(xs, ls, wsd)
						}
						if !sort.Float64sAreSorted(xs) {
							t.Failf("result not sorted: %v", xs)
						}
						after := sortedTriples(xs, wsd, ls)
						for i := range before {
							if before[i] != after[i] {
								t.Failf("(x,w,label) tuples not preserved: %v -> %v", before, after)
								break
							}
						}
					}
				}
				// Mode
				for wi, w := range wts {
					val, cnt := stat.Mode(x, w)
					if n == 0 {
						if val != 0 || cnt != 0 {
							t.Failf("Mode(empty) = %v,%v", val, cnt)
						}
						continue
					}
					tot := map[float64]*big.Rat{}
					wr := ratWeights(w, n)
					W := rf(rsum(wr))
					for i, v := range x {
						if tot[v] == nil {
							tot[v] = new(big.Rat)
						}
						tot[v].Add(tot[v], wr[i])
					}
					best := new(big.Rat)
					for _, c := range tot {
						if c.Cmp(best) > 0 {
							best = c
						}
					}
					tol := float64(n) * eps * W
					if wi < 2 {
						tol = 0
					}
					if !near(cnt, rf(best), tol) {
						t.Failf("Mode count = %v, want %v", cnt, rf(best))
					}
					c, ok := tot[val]
					if !ok || rf(rsub(best, c)) > 2*tol {
						t.Failf("Mode value %v (weight %v) is not a mode (max weight %v)", val, c, rf(best))
					}
				}
				if n >= 2 {
					t.Nontrivial()
				}
				t.Outcome(fmt.Sprintf("n=%d", n))
			})
		})
		if g.Stopped() {
			return
		}
	}
}

// ---- long samples with non-dyadic weights ---------------------------------------

// longWeights returns deterministic weight patterns over {0.1,0.2,0.3,0.7}.
func longWeights(n int) []wspec {
	var out []wspec
	mk := func(name string, f func(i int) float64) {
		w := make([]float64, n)
		for i := range w {
			w[i] = f(i)
		}
		out = append(out, wspec{name, w})
	}
	for _, c := range ndW {
		c := c
		mk(fmt.Sprintf("const%v", c), func(int) float64 { return c })
	}
	for r := 0; r < 4; r++ {
		r := r
		mk(fmt.Sprintf("rot%d", r), func(i int) float64 { return ndW[(i+r)%4] })
	}
	mk("step", func(i int) float64 { return ndW[(3*i+1)%4] })
	mk("head.3", func(i int) float64 {
		if i == 0 {
			return 0.3
		}
		return 0.1
	})
	mk("tail.7", func(i int) float64 {
		if i == n-1 {
			return 0.7
		}
		return 0.2
	})
	for s := uint64(1); s <= 3; s++ {
		st := s * 0x9E3779B97F4A7C15
		mk(fmt.Sprintf("lcg%d", s), func(i int) float64 {
			st = st*6364136223846793005 + 1442695040888963407
			return ndW[(st>>33)%4]
		})
	}
	mk("zeroLast", func(i int) float64 {
		if i == n-1 {
			return 0
		}
		return ndW[i%4]
	})
	return out
}

func genLong(g *vlib.G) {
	divs := [][]float64{{0, 1e6}, {0, 3, 7, 1e6}, {0, 1, 2, 2, 5, 11, 50}}
	for n := 8; n <= 40; n++ {
		n := n
		for _, shape := range []string{"distinct", "pairs", "const"} {
			shape := shape
			for _, ws := range longWeights(n) {
				ws := ws
				gcase(g, fmt.Sprintf("n=%d x=%s w=%s", n, shape, ws.name), func(t *vlib.T) {
					x := make([]float64, n)
					for i := range x {
						switch shape {
						case "distinct":
							x[i] = float64(i)
						case "pairs":
							x[i] = float64(i / 2)
						case "const":
							x[i] = 3
						}
					}
					w := cloneF(ws.w)
					out := checkQuantileCDF(t, x, w)
					checkHistogram(t, x, w, divs)
					// moments with the running-sum/total-sum mix
					got := gonumMoments(x, w)
					o, _ := oracleMoments(x, w)
					checkAgainst(t, "", got, o)
					// KS against the unweighted sample and a shifted one
					y := make([]float64, n/2)
					for i := range y {
						y[i] = float64(2*i) + 0.5
					}
					checkKS(t, x, w, x, nil)
					checkKS(t, x, w, y, nil)
					t.Nontrivial()
					t.Outcome(fmt.Sprintf("%s %s", shape, out[strings.Index(out, " ")+1:]))
					if t.Failed() {
						t.Detail(map[string]any{"x": x, "w": w})
					}
				})
			}
		}
		if g.Stopped() {
			return
		}
	}
}
