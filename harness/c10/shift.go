// Group "shift": translation and scale ladder. Exact small-integer samples are
// mapped by x -> s*x + a with s = 2^j and a = 2^k (all values stay exactly
// representable), so that the mean is up to 2^45 times the spread. Every
// statistic is compared with its definitional value on the transformed data
// (exact arithmetic; bounds first order in eps*|mean|/spread at worst, as met by
// two-pass / compensated algorithms — a textbook one-pass formula loses
// eps*(mean/spread)^2 and fails), and translation-invariant / equivariant
// statistics are additionally compared with the untransformed result.
package main

import (
	"fmt"
	"math"

	"gonum.org/v1/gonum/internal/verif/vlib"
	"gonum.org/v1/gonum/mat"
	"gonum.org/v1/gonum/stat"
)

// affine is the exact map x -> scale*x + off (scale and off powers of two or zero offset).
type affine struct {
	name       string
	scale, off float64
}

func (a affine) apply(x []float64) []float64 {
	out := make([]float64, len(x))
	for i, v := range x {
		out[i] = a.scale*v + a.off
		if (out[i]-a.off)/a.scale != v {
			panic("harness: affine map not exact")
		}
	}
	return out
}

func ladder(thorough bool) []affine {
	p := func(k int) float64 { return math.Ldexp(1, k) }
	out := []affine{{"id", 1, 0}}
	for _, k := range []int{0, 10, 20, 30, 40, 45} {
		out = append(out, affine{fmt.Sprintf("+2^%d", k), 1, p(k)})
	}
	out = append(out, affine{"-2^30", 1, -p(30)})
	for _, k := range []int{-30, -10, 10, 30} {
		out = append(out, affine{fmt.Sprintf("*2^%d", k), p(k), 0})
	}
	out = append(out, affine{"*2^10+2^40", p(10), p(40)}, affine{"*2^-10+2^20", p(-10), p(20)})
	if thorough {
		for _, k := range []int{5, 15, 25, 35, 50} {
			out = append(out, affine{fmt.Sprintf("+2^%d", k), 1, p(k)})
		}
		out = append(out, affine{"*2^-100", p(-100), 0}, affine{"*2^100", p(100), 0}, affine{"*2^-5-2^45", p(-5), -p(45)})
	}
	return out
}

// translation/scale behaviour of the moment functions: f(s*x+a) = s^p * f(x) + a*q
var shiftLaw = map[string][2]float64{ // name -> {power of s, coefficient of a}
	"Mean": {1, 1}, "Variance": {2, 0}, "StdDev": {1, 0}, "PopVariance": {2, 0}, "PopStdDev": {1, 0},
	"Moment1": {1, 0}, "Moment2": {2, 0}, "Moment3": {3, 0}, "Moment4": {4, 0}, "Skew": {0, 0}, "ExKurtosis": {0, 0},
}

func shift1D(t *vlib.T, x0 []float64, ws wspec, a affine) {
	x := a.apply(x0)
	w := cloneF(ws.w)
	n := len(x)
	got := gonumMoments(x, w)
	o, m := oracleMoments(x, w)
	checked, skipped := checkAgainst(t, "["+a.name+"] ", got, o)
	// the same statistic of the untransformed sample, mapped by the exact law
	gm := resMap(got)
	g0 := resMap(gonumMoments(x0, w))
	o0, _ := oracleMoments(x0, w)
	for name, law := range shiftLaw {
		oa, ob := o[name], o0[name]
		if oa.skip || ob.skip || oa.nanOK || ob.nanOK {
			continue
		}
		f := math.Pow(a.scale, law[0])
		// the two exact oracles must agree (guards the harness itself)
		if wantMapped := f*ob.want + law[1]*a.off; !near(oa.want, wantMapped, 8*eps*(math.Abs(wantMapped)+math.Abs(a.off)*law[1])) {
			t.Failf("harness: exact %s of the transformed sample %v is not the mapped exact value %v", name, oa.want, wantMapped)
		}
		want := f*g0[name] + law[1]*a.off
		bound := oa.tol + f*ob.tol + 4*eps*math.Abs(want)
		if !near(gm[name], want, bound) {
			t.Failf("[%s] %s = %v, but the untransformed sample gives %v -> %v (bound %.3g): not translation/scale %s", a.name, name, gm[name], g0[name], want, bound,
				map[bool]string{true: "invariant", false: "equivariant"}[law[0] == 0 && law[1] == 0])
		}
	}
	// order statistics on the sorted transformed sample, dividers and second sample transformed alike
	xs, wsrt := cloneF(x), cloneF(w)
	stat.SortWeighted(xs, wsrt)
	qo := checkQuantileCDF(t, xs, wsrt)
	divs := [][]float64{a.apply([]float64{-1, 4}), a.apply([]float64{0, 1, 2, 4}), a.apply([]float64{-1, 0.5, 3.5}), a.apply([]float64{0, 3, 3, 5})}
	checkHistogram(t, xs, wsrt, divs)
	ys := a.apply([]float64{0, 0.5, 2, 2})
	checkKS(t, xs, wsrt, ys, nil)
	// equivariance of the order statistics against the untransformed sample (exact for Empirical, s > 0)
	xs0, ws0 := cloneF(x0), cloneF(w)
	stat.SortWeighted(xs0, ws0)
	for _, p := range []float64{0, 0.25, 0.5, 0.75, 1} {
		q, q0 := stat.Quantile(p, stat.Empirical, xs, wsrt), stat.Quantile(p, stat.Empirical, xs0, ws0)
		if q != a.scale*q0+a.off {
			t.Failf("[%s] Quantile(%v, Empirical) = %v, untransformed %v", a.name, p, q, q0)
		}
	}
	for _, q0 := range []float64{-1, 0, 0.5, 1, 3} {
		if c, c0 := stat.CDF(a.scale*q0+a.off, stat.Empirical, xs, wsrt), stat.CDF(q0, stat.Empirical, xs0, ws0); !sameBits(c, c0) {
			t.Failf("[%s] CDF(%v) = %v, untransformed CDF(%v) = %v", a.name, a.scale*q0+a.off, c, q0, c0)
		}
	}
	h, h0 := stat.Histogram(nil, divs[1], xs, wsrt), stat.Histogram(nil, []float64{0, 1, 2, 4}, xs0, ws0)
	if i, ok := vlib.Same64(h, h0); !ok {
		t.Failf("[%s] Histogram with transformed dividers differs from the untransformed one at bin %d: %v vs %v", a.name, i, h, h0)
	}
	if k, k0 := stat.KolmogorovSmirnov(xs, wsrt, ys, nil), stat.KolmogorovSmirnov(xs0, ws0, []float64{0, 0.5, 2, 2}, nil); !sameBits(k, k0) {
		t.Failf("[%s] KolmogorovSmirnov = %v, untransformed %v", a.name, k, k0)
	}
	mv, mc := stat.Mode(x, w)
	_, mc0 := stat.Mode(x0, w)
	found := false
	for _, v := range x {
		if v == mv {
			found = true
		}
	}
	if !found || !sameBits(mc, mc0) {
		t.Failf("[%s] Mode = (%v, %v), untransformed count %v", a.name, mv, mc, mc0)
	}
	t.Nontrivial()
	t.Outcome(fmt.Sprintf("1d %s checked=%d skipped=%d %s", a.name, checked, skipped, qo))
	_ = m
	_ = n
	if t.Failed() {
		t.Detail(map[string]any{"x0": x0, "w": w, "map": a.name})
	}
}

func shiftSpatial(t *vlib.T, data0 []float64, l locality, a affine) {
	data := a.apply(data0)
	spatialData(t, data, l) // definitional oracle on the transformed data
	// z-scores and Moran's I are invariant under translation and positive scaling
	m := newMom(data, nil)
	if m.SW2.Sign() == 0 {
		return
	}
	rel := 64 * float64(len(data)+8) * eps * (1 + (math.Abs(m.meanf)+m.tau)/math.Sqrt(m.Sf/m.Wf))
	M := l.matrices()["dense"]
	for i := range data {
		var g, g0 float64
		_, p1 := catch(func() { g = spatialGStar(i, data, M) })
		_, p2 := catch(func() { g0 = spatialGStar(i, data0, M) })
		if p1 || p2 || math.IsNaN(g0) || math.IsInf(g0, 0) {
			continue
		}
		if !near(g, g0, rel*(1+math.Abs(g0))*float64(len(data))) {
			t.Failf("[%s] GetisOrdGStar(%d) = %v, untransformed data give %v (bound %.3g): not translation invariant", a.name, i, g, g0, rel*(1+math.Abs(g0))*float64(len(data)))
		}
	}
}

func genShift(g *vlib.G) {
	lad := ladder(g.Thorough())
	base := []float64{0, 1, 3}
	// 1-D statistics
	nmax := vlib.Pick(g, 4, 5)
	for n := 3; n <= nmax; n++ {
		all := matWeights(n)
		wsets := []wspec{all[0], all[2], all[3], all[5]} // nil, integer ramp, non-dyadic, leading zero
		sequences(n, 3, func(idx []int) {
			id := append([]int(nil), idx...)
			if n == 5 && !g.Thorough() {
				return
			}
			for _, ws := range wsets {
				for _, a := range lad {
					ws, a := ws, a
					gcase(g, fmt.Sprintf("1d x=%s w=%s %s", digits(id), ws.name, a.name), func(t *vlib.T) { shift1D(t, pick(base, id), ws, a) })
				}
			}
		})
		if g.Stopped() {
			return
		}
	}
	// bivariate: x and y with the same and with different maps
	pairMaps := [][2]int{}
	for i := range lad {
		pairMaps = append(pairMaps, [2]int{i, i})
	}
	pairMaps = append(pairMaps, [2]int{4, 0}, [2]int{0, 5}, [2]int{3, 5}, [2]int{6, 9}, [2]int{10, 2})
	{
		n := 4
		all := matWeights(n)
		wsets := []wspec{all[0], all[2], all[8]}
		multisets(n, 3, func(xi_ []int) {
			xid := append([]int(nil), xi_...)
			sequences(n, 3, func(yi []int) {
				yid := append([]int(nil), yi...)
				if !g.Thorough() && (yid[0]+2*yid[1]+xid[3])%3 != 0 {
					return // a third of the pairs in the quick tier
				}
				for _, ws := range wsets {
					for _, pm := range pairMaps {
						ws, ax, ay := ws, lad[pm[0]], lad[pm[1]]
						gcase(g, fmt.Sprintf("2d x=%s y=%s w=%s %s/%s", digits(xid), digits(yid), ws.name, ax.name, ay.name), func(t *vlib.T) {
							x, y := ax.apply(pick(base, xid)), ay.apply(pick(base, yid))
							pairsData(t, x, y, ws)
							if !t.Failed() {
								kendallData(t, x, y, ws)
							}
							// Correlation is invariant under separate positive affine maps of x and y
							c, c0 := stat.Correlation(x, y, ws.w), stat.Correlation(pick(base, xid), pick(base, yid), ws.w)
							mx, my := newMom(x, ws.w), newMom(y, ws.w)
							if mx.SW2.Sign() > 0 && my.SW2.Sign() > 0 && !math.IsNaN(c0) {
								bound := 64 * float64(n+6) * eps * (2 + (math.Abs(mx.meanf)+mx.tau)/math.Sqrt(mx.Sf/mx.Wf) + (math.Abs(my.meanf)+my.tau)/math.Sqrt(my.Sf/my.Wf))
								if !near(c, c0, bound) {
									t.Failf("[%s/%s] Correlation = %v, untransformed %v (bound %.3g): not invariant", ax.name, ay.name, c, c0, bound)
								}
							}
						})
					}
				}
			})
		})
		if g.Stopped() {
			return
		}
	}
	// matrices: CovarianceMatrix / CorrelationMatrix / PCA with a different map per column
	for _, sh := range []struct{ r, c int }{{3, 2}, {4, 2}, {4, 3}} {
		sh := sh
		if sh.c == 3 && !g.Thorough() {
			continue
		}
		all := matWeights(sh.r)
		sequences(sh.r*sh.c, 2, func(idx []int) {
			id := append([]int(nil), idx...)
			for _, ws := range []wspec{all[0], all[2], all[8]} {
				for li := range lad {
					ws, li := ws, li
					kind := matKinds[(li+id[0])%len(matKinds)]
					gcase(g, fmt.Sprintf("mat %dx%d x=%s w=%s %s", sh.r, sh.c, digits(id), ws.name, lad[li].name), func(t *vlib.T) {
						data := make([][]float64, sh.c)
						for j := range data {
							a := lad[li]
							if j == 1 {
								a = lad[(li+3)%len(lad)] // the second column carries another map
							}
							data[j] = a.apply(pick([]float64{0, 3}, id[j*sh.r:(j+1)*sh.r]))
						}
						covmatCaseRep(t, data, ws, false, kind)
					})
				}
			}
		})
	}
	// CCA on transformed blocks (canonical correlations are invariant; the defining equations are checked)
	for _, fam := range [][2][]int{{{0, 1}, {3}}, {{1, 2}, {4, 5}}, {{0, 1, 2}, {3, 5}}} {
		all := matWeights(6)
		for _, ws := range []wspec{all[0], all[2], all[8]} {
			for li := range lad {
				fam, ws, li := fam, ws, li
				gcase(g, fmt.Sprintf("cca x=%v y=%v w=%s %s", fam[0], fam[1], ws.name, lad[li].name), func(t *vlib.T) {
					xc, yc := colsOf(fam[0], 6), colsOf(fam[1], 6)
					for j := range xc {
						xc[j] = lad[li].apply(xc[j])
					}
					for j := range yc {
						yc[j] = lad[(li+2)%len(lad)].apply(yc[j])
					}
					ccaDataRep(t, xc, yc, ws, "compact", "compact")
					// canonical correlations against those of the untransformed blocks
					var c1, c0 stat.CC
					if c1.CanonicalCorrelations(denseFromCols(xc), denseFromCols(yc), ws.w) == nil &&
						c0.CanonicalCorrelations(denseFromCols(colsOf(fam[0], 6)), denseFromCols(colsOf(fam[1], 6)), ws.w) == nil {
						r1, r0 := c1.CorrsTo(nil), c0.CorrsTo(nil)
						off := math.Max(math.Abs(lad[li].off)/lad[li].scale, math.Abs(lad[(li+2)%len(lad)].off)/lad[(li+2)%len(lad)].scale)
						bound := 4096 * 10 * eps * (1 + off) * (1 + off*eps*1024)
						for i := range r0 {
							if !near(r1[i], r0[i], bound) {
								t.Failf("[%s] canonical correlation %d = %v, untransformed %v (bound %.3g)", lad[li].name, i, r1[i], r0[i], bound)
							}
						}
					}
				})
			}
		}
	}
	// spatial statistics
	for _, n := range []int{4, 5} {
		ls := localities(n, false)
		var fam []locality
		for _, l := range ls {
			if len(l.name) > 0 && l.name[0] != 'g' {
				fam = append(fam, l)
			}
		}
		sequences(n, 3, func(idx []int) {
			id := append([]int(nil), idx...)
			// quick: half of the n=4 vectors and a ninth of the n=5 ones (n=5: the mean is inexact)
			if !g.Thorough() && ((n == 4 && (id[0]+id[1]+id[2])%2 == 1) || (n == 5 && (id[0]+3*id[1]+id[4])%9 != 1)) {
				return
			}
			for _, l := range fam {
				for _, a := range lad {
					l, a := l, a
					gcase(g, fmt.Sprintf("spatial n=%d x=%s W=%s %s", n, digits(id), l.name, a.name), func(t *vlib.T) { shiftSpatial(t, pick(spatialVals, id), l, a) })
				}
			}
		})
	}
	// Mahalanobis: translating both points leaves x-y (exact) and hence the distance bit-identical
	for si, S := range spdFamily {
		si, S := si, S
		d := len(S)
		gcase(g, fmt.Sprintf("mahalanobis S%d", si), func(t *vlib.T) {
			sym := mat.NewSymDense(d, nil)
			for i := range S {
				for j := range S[i] {
					sym.SetSym(i, j, S[i][j])
				}
			}
			var chol mat.Cholesky
			chol.Factorize(sym)
			x0, y0 := []float64{-1, 2, 0}[:d], []float64{2, 0, -1}[:d]
			ref := stat.Mahalanobis(mat.NewVecDense(d, cloneF(x0)), mat.NewVecDense(d, cloneF(y0)), &chol)
			for _, a := range lad {
				if a.scale != 1 {
					continue
				}
				if got := stat.Mahalanobis(mat.NewVecDense(d, a.apply(x0)), mat.NewVecDense(d, a.apply(y0)), &chol); !sameBits(got, ref) {
					t.Failf("[%s] Mahalanobis = %v, untranslated %v", a.name, got, ref)
				}
			}
			t.Nontrivial()
			t.Outcome("mahalanobis")
		})
	}
	// classical MDS: scaling the dissimilarities by 2^k scales the configuration
	for _, id := range [][]int{{0, 4, 8}, {0, 1, 2}, {0, 4, 8, 2}, {0, 1, 2, 5}, {3, 3, 7, 1}, {0, 2, 6, 8, 4}} {
		for _, k := range []int{-100, -30, -10, 10, 30, 100} {
			id, k := id, k
			gcase(g, fmt.Sprintf("mds pts=%s *2^%d", digits(id), k), func(t *vlib.T) {
				pts := make([][2]int, len(id))
				for i, d := range id {
					pts[i] = [2]int{d / 3, (d % 3) * 2}
				}
				mdsCaseScaled(t, pts, true, "compact", math.Ldexp(1, k))
			})
		}
	}
}
