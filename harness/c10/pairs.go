// Group "pairs": Covariance, Correlation, Kendall, LinearRegression, RSquared,
// RSquaredFrom, RNoughtSquared, BivariateMoment against exact rational definitions.
package main

import (
	"fmt"
	"math"

	"gonum.org/v1/gonum/internal/verif/vlib"
	"gonum.org/v1/gonum/stat"
)

var pairVals = []float64{-1, 0, 2, big1e15}

func hasTies(x []float64) bool {
	for i := range x {
		for j := i + 1; j < len(x); j++ {
			if x[i] == x[j] {
				return true
			}
		}
	}
	return false
}

func fsgn(a, b float64) int64 {
	switch {
	case b > a:
		return 1
	case b < a:
		return -1
	}
	return 0
}

func pairsCase(t *vlib.T, xi_, yi []int, ws wspec) {
	pairsData(t, pick(pairVals, xi_), pick(pairVals, yi), ws)
}

// pairsData checks all bivariate functions on one sample given by value.
func pairsData(t *vlib.T, x, y []float64, ws wspec) {
	w := cloneF(ws.w)
	n := len(x)
	fn := float64(n)
	mx, my := newMom(x, w), newMom(y, w)
	W := mx.Wf
	x0, y0, w0 := cloneF(x), cloneF(y), cloneF(w)
	outcome := fmt.Sprintf("n=%d", n)

	// exact co-moment
	sxy := mx.coSum(my)
	sxyf := bff(sxy)
	ex := mx.Sf + W*mx.tau*mx.tau
	ey := my.Sf + W*my.tau*my.tau
	tolC := 8 * (fn + 5) * eps * math.Sqrt(ex*ey)
	tolSx, tolSy := mx.tolS(), my.tolS()
	unbiased := W >= 1.05
	xConst, yConst := mx.SW2.Sign() == 0, my.SW2.Sign() == 0

	// Covariance
	if unbiased {
		got := stat.Covariance(x, y, w)
		relW1 := (2*(fn+2)*eps*W + 2*eps) / (W - 1)
		want := bff(xquo(sxy, xsub(mx.W, xi(1))))
		tol := (tolC+math.Abs(sxyf)*relW1)/(W-1)*(1+2*relW1) + 4*eps*math.Abs(want)
		if !near(got, want, tol) {
			t.Failf("Covariance = %v, definition gives %v (bound %.3g)", got, want, tol)
		}
		if rev := stat.Covariance(y, x, w); !near(rev, got, 2*tol) {
			t.Failf("Covariance not symmetric: %v vs %v", got, rev)
		}
		if ws.name == "ones" && !sameBits(got, stat.Covariance(x, y, nil)) {
			t.Failf("Covariance ones %v != nil %v", got, stat.Covariance(x, y, nil))
		}
	} else {
		stat.Covariance(x, y, w) // must not panic
	}

	// Correlation
	{
		got := stat.Correlation(x, y, w)
		if !xConst && !yConst && tolSx/mx.Sf < 1e-3 && tolSy/my.Sf < 1e-3 {
			den := math.Sqrt(mx.Sf) * math.Sqrt(my.Sf)
			want := bff(xquo(sxy, qsqrt(qmul(mx.S(), my.S()))))
			tol := tolC/den*1.01 + math.Abs(want)*(tolSx/mx.Sf+tolSy/my.Sf) + 8*eps
			if !near(got, want, tol) {
				t.Failf("Correlation = %v, definition gives %v (bound %.3g)", got, want, tol)
			}
			if !(math.Abs(got) <= 1+2*(fn+5)*eps) {
				t.Failf("|Correlation| = %v > 1", math.Abs(got))
			}
			if ws.name == "ones" && !sameBits(got, stat.Correlation(x, y, nil)) {
				t.Failf("Correlation ones %v != nil %v", got, stat.Correlation(x, y, nil))
			}
			outcome += " corr"
		} else {
			outcome += " corr-undef"
		}
	}

	// LinearRegression
	{
		// through the origin: beta = sum w x y / sum w x^2
		sxx0, sxy0 := xi(0), xi(0)
		absxy := 0.0
		for i := range x {
			sxx0 = xadd(sxx0, xmul(mx.w[i], xmul(mx.x[i], mx.x[i])))
			sxy0 = xadd(sxy0, xmul(mx.w[i], xmul(mx.x[i], my.x[i])))
			absxy += mx.wf[i] * math.Abs(x[i]*y[i])
		}
		a0, b0 := stat.LinearRegression(x, y, w, true)
		if a0 != 0 {
			t.Failf("LinearRegression(origin) alpha = %v, want 0", a0)
		}
		if sxx0.Sign() > 0 {
			want := bff(xquo(sxy0, sxx0))
			tol := 8 * (fn + 4) * eps * (absxy/bff(sxx0) + math.Abs(want))
			if !near(b0, want, tol) {
				t.Failf("LinearRegression(origin) beta = %v, least squares gives %v", b0, want)
			}
		}
		// with intercept: beta = Sxy/Sxx, alpha = my - beta mx; defined for any positive weights.
		a1, b1 := stat.LinearRegression(x, y, w, false)
		if !xConst && tolSx/mx.Sf < 1e-3 {
			beta := xquo(sxy, mx.S())
			alpha := qsub(xquo(my.sx, my.W), qmul(beta, xquo(mx.sx, mx.W)))
			bw, aw := bff(beta), bff(alpha)
			tolB := tolC/mx.Sf*1.01 + math.Abs(bw)*tolSx/mx.Sf*1.01 + 8*eps*math.Abs(bw)
			tolA := my.tau + math.Abs(bw)*mx.tau + tolB*(math.Abs(mx.meanf)+mx.tau) + 4*eps*(math.Abs(my.meanf)+math.Abs(bw*mx.meanf))
			w1 := xabsf(xsub(mx.W, xi(1)))
			switch {
			case w1 < 1e-9:
				// weights summing to 1 (normalised weights) are inside the documented domain.
				if !near(b1, bw, tolB) || !near(a1, aw, tolA) {
					t.SubViolation("LinearRegression", "linreg-unit-weight-sum", map[string]any{"x": x, "y": y, "w": w},
						"LinearRegression with weights summing to 1 = (%v, %v), weighted least squares gives (%v, %v)", a1, b1, aw, bw)
				}
				outcome += " linreg-W=1"
			default:
				// (W-1) cancels between covariance and variance; its rounding error
				// is common to both, so no conditioning on W-1 is needed.
				if !near(b1, bw, tolB) || !near(a1, aw, tolA) {
					t.Failf("LinearRegression = (%v, %v), weighted least squares gives (%v, %v) (bounds %.3g, %.3g)", a1, b1, aw, bw, tolA, tolB)
				}
				outcome += " linreg"
			}
		}
	}

	// RSquared / RSquaredFrom / RNoughtSquared for fixed lines
	for _, ab := range [][2]float64{{0, 1}, {1, 2}, {-0.5, 0.5}} {
		alpha, beta := ab[0], ab[1]
		ar, br := xf(alpha), xf(beta)
		res, resAbsErr := xi(0), 0.0
		est := make([]float64, n)
		resF := xi(0)
		r0num, r0den := xi(0), xi(0)
		for i := range x {
			est[i] = alpha + beta*x[i]
			fi := xadd(ar, xmul(br, mx.x[i]))
			d := xsub(my.x[i], fi)
			res = xadd(res, xmul(mx.w[i], xmul(d, d)))
			e := 4 * eps * (math.Abs(alpha) + math.Abs(beta*x[i]) + math.Abs(y[i]))
			df := xabsf(d)
			resAbsErr += mx.wf[i] * (2*df*e + e*e)
			// RSquaredFrom takes the float estimates as exact inputs; values = y.
			dF := xsub(my.x[i], xf(est[i]))
			resF = xadd(resF, xmul(mx.w[i], xmul(dF, dF)))
			bx := xmul(br, mx.x[i])
			r0num = xadd(r0num, xmul(mx.w[i], xmul(bx, bx)))
			r0den = xadd(r0den, xmul(mx.w[i], xmul(my.x[i], my.x[i])))
		}
		got := stat.RSquared(x, y, w, alpha, beta)
		gotF := stat.RSquaredFrom(est, y, w)
		// total sum of squares about the computed mean: Sy + W (m - m^)^2
		tolTot := 8*(fn+5)*eps*ey + W*my.tau*my.tau
		if !yConst && tolTot/my.Sf < 1e-3 {
			tot := my.Sf
			resf := bff(res)
			want := bff(qsub(xi(1), xquo(res, my.S())))
			tolRes := resAbsErr + 8*(fn+4)*eps*resf
			tol := (tolRes/tot+resf/tot*tolTot/tot)*1.01 + 4*eps*(1+resf/tot)
			if !near(got, want, tol) {
				t.Failf("RSquared(alpha=%v,beta=%v) = %v, definition gives %v (bound %.3g)", alpha, beta, got, want, tol)
			}
			resFf := bff(resF)
			wantF := bff(qsub(xi(1), xquo(resF, my.S())))
			tolF := (8*(fn+4)*eps*resFf/tot+resFf/tot*tolTot/tot)*1.01 + 4*eps*(1+resFf/tot)
			if !near(gotF, wantF, tolF) {
				t.Failf("RSquaredFrom(alpha=%v,beta=%v) = %v, definition gives %v (bound %.3g)", alpha, beta, gotF, wantF, tolF)
			}
		}
		got0 := stat.RNoughtSquared(x, y, w, beta)
		if r0den.Sign() > 0 {
			want := bff(xquo(r0num, r0den))
			if !near(got0, want, 8*(fn+6)*eps*want) {
				t.Failf("RNoughtSquared(beta=%v) = %v, definition gives %v", beta, got0, want)
			}
		}
	}

	// BivariateMoment
	for _, rs := range [][2]int{{1, 1}, {2, 1}, {2, 2}, {0, 3}} {
		r, s := rs[0], rs[1]
		sum := xi(0)
		abs, pert := 0.0, 0.0
		for i := range x {
			sum = xadd(sum, xmul(mx.w[i], xmul(xpow(mx.D[i], r), xpow(my.D[i], s))))
			a := ipow(mx.df[i], r) * ipow(my.df[i], s)
			b := ipow(mx.df[i]+mx.tau, r) * ipow(my.df[i]+my.tau, s)
			abs += mx.wf[i] * b
			pert += mx.wf[i] * (b - a)
		}
		want := bff(xquo(sum, xpow(mx.W, r+s+1)))
		tol := (8*(fn+2*float64(r+s)+6)*eps*abs + 1.01*pert) / W
		got := stat.BivariateMoment(float64(r), float64(s), x, y, w)
		if !near(got, want, tol) {
			t.Failf("BivariateMoment(%d,%d) = %v, definition gives %v (bound %.3g)", r, s, got, want, tol)
		}
	}

	if i, ok := vlib.Same64(x, x0); !ok {
		t.Failf("x modified at %d", i)
	}
	if i, ok := vlib.Same64(y, y0); !ok {
		t.Failf("y modified at %d", i)
	}
	if i, ok := vlib.Same64(w, w0); !ok {
		t.Failf("weights modified at %d", i)
	}
	if n >= 2 {
		t.Nontrivial()
	}
	t.Outcome(outcome)
	if t.Failed() {
		t.Detail(map[string]any{"x": x, "y": y, "w": w})
	}
}

func ipow(a float64, k int) float64 {
	r := 1.0
	for i := 0; i < k; i++ {
		r *= a
	}
	return r
}

func reverse(x []float64) []float64 {
	if x == nil {
		return nil
	}
	out := make([]float64, len(x))
	for i, v := range x {
		out[len(x)-1-i] = v
	}
	return out
}

// pairWeights: nil, ones, integer and non-dyadic vectors, one-zero variants, and
// weights summing exactly to one (dyadic, so the float sum is exactly 1).
// level 2 = {1,2,3}^n and {.1,.2,.3,.7}^n; level 1 = {1,3}^n and {.1,.7}^n;
// level 0 = a fixed handful of patterns.
func pairWeights(n int, level int) []wspec {
	var out []wspec
	switch level {
	case 2:
		out = weightSets(n, intW, ndW)
	case 1:
		out = weightSets(n, []float64{1, 3}, []float64{0.1, 0.7})
	default:
		out = ksWeights(n)
		r := make([]float64, n)
		for i := range r {
			r[i] = intW[(2*i+2)%3]
		}
		out = append(out, wspec{"ramp2", r})
	}
	if n >= 2 {
		u := make([]float64, n)
		rest := 1.0
		for i := 0; i < n-1; i++ {
			u[i] = rest / 2
			rest -= u[i]
		}
		u[n-1] = rest
		out = append(out, wspec{"unit", u})
		if n == 4 {
			out = append(out, wspec{"unit4", []float64{0.25, 0.25, 0.25, 0.25}})
		}
	}
	return out
}

func genPairs(g *vlib.G) {
	maxN := vlib.Pick(g, 4, 5)
	for n := 1; n <= maxN; n++ {
		k := 4 // alphabet size
		if n == 4 && !g.Thorough() || n == 5 {
			k = 3 // without the extreme value
		}
		level := 0
		switch {
		case n <= 2 || (g.Thorough() && n <= 3):
			level = 2
		case n == 3:
			level = 1
		}
		sets := pairWeights(n, level)
		sequences(n, k, func(xi []int) {
			xid := append([]int(nil), xi...)
			sequences(n, k, func(yi []int) {
				yid := append([]int(nil), yi...)
				for _, ws := range sets {
					ws := ws
					gcase(g, fmt.Sprintf("x=%s y=%s w=%s", digits(xid), digits(yid), ws.name), func(t *vlib.T) {
						pairsCase(t, xid, yid, ws)
					})
				}
			})
		})
		if g.Stopped() {
			return
		}
	}
}

// ---- Kendall (own group: the body is cheap, and tie cases currently all fail) ----

var kendallVals = []float64{-1, 0, 2, big1e15}

func kendallCase(t *vlib.T, xi_, yi []int, ws wspec) {
	kendallData(t, pick(kendallVals, xi_), pick(kendallVals, yi), ws)
}

func kendallData(t *vlib.T, x, y []float64, ws wspec) {
	w := cloneF(ws.w)
	n := len(x)
	fn := float64(n)
	wx := xweights(w, n)
	outcome := fmt.Sprintf("n=%d", n)
	num, den := xi(0), xi(0)
	for i := 0; i < n; i++ {
		for j := i + 1; j < n; j++ {
			ww := xmul(wx[i], wx[j])
			den = xadd(den, ww)
			s := fsgn(x[i], x[j]) * fsgn(y[i], y[j])
			num = xadd(num, xmul(ww, xi(s)))
		}
	}
	if den.Sign() > 0 {
		got := stat.Kendall(x, y, w)
		want := bff(xquo(num, den))
		tol := 4 * (fn*fn + 4) * eps
		tied := hasTies(x) || hasTies(y)
		if !near(got, want, tol) {
			if tied {
				t.SubViolation("Kendall", "kendall-ties", map[string]any{"x": x, "y": y, "w": w},
					"Kendall = %v, tau-a (tied pairs count 0) = %v", got, want)
			} else {
				t.Failf("Kendall = %v, tau-a by pair counting = %v", got, want)
			}
		}
		if !(math.Abs(got) <= 1+tol) {
			t.Failf("|Kendall| = %v > 1", got)
		}
		// joint permutation invariance (reversal of the sample order)
		xr, yr, wr := reverse(x), reverse(y), reverse(w)
		if rev := stat.Kendall(xr, yr, wr); !near(rev, got, 2*tol) {
			if tied {
				t.SubViolation("Kendall-perm", "kendall-ties", map[string]any{"x": x, "y": y, "w": w},
					"Kendall changes under joint reversal of the sample: %v vs %v", got, rev)
			} else {
				t.Failf("Kendall changes under joint reversal of the sample: %v vs %v", got, rev)
			}
		}
		if sym := stat.Kendall(y, x, w); !near(sym, got, 2*tol) {
			t.Failf("Kendall(x,y) = %v but Kendall(y,x) = %v", got, sym)
		}
		if ws.name == "ones" && !sameBits(got, stat.Kendall(x, y, nil)) {
			t.Failf("Kendall ones %v != nil %v", got, stat.Kendall(x, y, nil))
		}
		if tied {
			outcome += " ties"
		} else {
			outcome += " tie-free"
		}
	} else {
		outcome += " zero-pair-weight"
	}
	t.Nontrivial()
	t.Outcome(outcome)
}

func genKendall(g *vlib.G) {
	maxN := vlib.Pick(g, 4, 5)
	for n := 2; n <= maxN; n++ {
		sets := append(ksWeights(n), pairWeights(n, 0)[len(ksWeights(n)):]...)
		// x non-decreasing (every sample is a joint permutation of such a one; the
		// reversal check covers order dependence), y arbitrary.
		multisets(n, 4, func(xi_ []int) {
			xid := append([]int(nil), xi_...)
			sequences(n, 4, func(yi []int) {
				yid := append([]int(nil), yi...)
				for _, ws := range sets {
					ws := ws
					gcase(g, fmt.Sprintf("x=%s y=%s w=%s", digits(xid), digits(yid), ws.name), func(t *vlib.T) {
						kendallCase(t, xid, yid, ws)
					})
				}
			})
		})
		if g.Stopped() {
			return
		}
	}
}
