// Reference arithmetic for harness C10: exact rationals of the float inputs,
// 200-bit logarithm and square root, comparison helpers and enumerators.
package main

import (
	"fmt"
	"math"
	"math/big"
	"strings"
)

// eps is the float64 machine epsilon 2^-52 (one ulp of 1).
const eps = 0x1p-52

// big1e15 is the extreme-magnitude member of the data alphabet (exact in float64).
const big1e15 = 1e15 + 1

const prec = 200

// ---- exact rationals --------------------------------------------------

func rat(f float64) *big.Rat {
	r := new(big.Rat)
	if r.SetFloat64(f) == nil {
		panic(fmt.Sprintf("rat of non-finite %v", f))
	}
	return r
}

func rint(i int64) *big.Rat { return new(big.Rat).SetInt64(i) }

func radd(a, b *big.Rat) *big.Rat { return new(big.Rat).Add(a, b) }
func rsub(a, b *big.Rat) *big.Rat { return new(big.Rat).Sub(a, b) }
func rmul(a, b *big.Rat) *big.Rat { return new(big.Rat).Mul(a, b) }
func rquo(a, b *big.Rat) *big.Rat { return new(big.Rat).Quo(a, b) }
func rabs(a *big.Rat) *big.Rat    { return new(big.Rat).Abs(a) }
func rneg(a *big.Rat) *big.Rat    { return new(big.Rat).Neg(a) }

func rpow(a *big.Rat, k int) *big.Rat {
	r := rint(1)
	for i := 0; i < k; i++ {
		r.Mul(r, a)
	}
	return r
}

// rf rounds a rational to the nearest float64.
func rf(r *big.Rat) float64 { f, _ := r.Float64(); return f }

func rats(x []float64) []*big.Rat {
	out := make([]*big.Rat, len(x))
	for i, v := range x {
		out[i] = rat(v)
	}
	return out
}

// ratWeights returns the exact weights; nil weights are all ones.
func ratWeights(w []float64, n int) []*big.Rat {
	out := make([]*big.Rat, n)
	for i := range out {
		if w == nil {
			out[i] = rint(1)
		} else {
			out[i] = rat(w[i])
		}
	}
	return out
}

func rsum(a []*big.Rat) *big.Rat {
	s := new(big.Rat)
	for _, v := range a {
		s.Add(s, v)
	}
	return s
}

// ---- exact dyadic arithmetic ------------------------------------------------
//
// Every input is a float64, so sums, differences and products are dyadic
// rationals. big.Float at 1024 bits holds them exactly (each x-operation checks
// that it was exact) without the GCD cost of big.Rat. Quotients and square
// roots are correctly rounded to 192 bits (q-operations), far below any bound used.

type X = *big.Float

const xprec = 1024

func xf(f float64) X { return new(big.Float).SetPrec(xprec).SetFloat64(f) }
func xi(i int64) X   { return new(big.Float).SetPrec(xprec).SetInt64(i) }

func xexact(z X) X {
	if z.Acc() != big.Exact {
		panic("harness: inexact big.Float operation")
	}
	return z
}
func xadd(a, b X) X { return xexact(new(big.Float).SetPrec(xprec).Add(a, b)) }
func xsub(a, b X) X { return xexact(new(big.Float).SetPrec(xprec).Sub(a, b)) }
func xmul(a, b X) X { return xexact(new(big.Float).SetPrec(xprec).Mul(a, b)) }
func xpow(a X, k int) X {
	r := xi(1)
	for i := 0; i < k; i++ {
		r = xmul(r, a)
	}
	return r
}

// rounded operations (192 bits: relative error 2^-192 per operation)
const qprec = 192

func xquo(a, b X) X     { return new(big.Float).SetPrec(qprec).Quo(a, b) }
func qadd(a, b X) X     { return new(big.Float).SetPrec(qprec).Add(a, b) }
func qsub(a, b X) X     { return new(big.Float).SetPrec(qprec).Sub(a, b) }
func qmul(a, b X) X     { return new(big.Float).SetPrec(qprec).Mul(a, b) }
func qsqrt(a X) X       { return new(big.Float).SetPrec(qprec).Sqrt(a) }
func xabsf(a X) float64 { return math.Abs(bff(a)) }
func xrat(a X) *big.Rat { r, _ := a.Rat(nil); return r }

func xs(v []float64) []X {
	out := make([]X, len(v))
	for i, f := range v {
		out[i] = xf(f)
	}
	return out
}

// xweights returns the exact weights; nil weights are all ones.
func xweights(w []float64, n int) []X {
	out := make([]X, n)
	for i := range out {
		if w == nil {
			out[i] = xi(1)
		} else {
			out[i] = xf(w[i])
		}
	}
	return out
}

// ---- high precision elementary functions --------------------------------

func bfRat(r *big.Rat) *big.Float { return new(big.Float).SetPrec(prec).SetRat(r) }
func bfF(f float64) *big.Float    { return new(big.Float).SetPrec(prec).SetFloat64(f) }

// atanhSeries returns atanh(z) for |z| <= 1/3 by its Taylor series.
func atanhSeries(z *big.Float) *big.Float {
	sum := new(big.Float).SetPrec(prec).Set(z)
	z2 := new(big.Float).SetPrec(prec).Mul(z, z)
	term := new(big.Float).SetPrec(prec).Set(z)
	for k := 3; k < 400; k += 2 {
		term.Mul(term, z2)
		if term.Sign() == 0 {
			break
		}
		q := new(big.Float).SetPrec(prec).Quo(term, bfF(float64(k)))
		if q.MantExp(nil)-sum.MantExp(nil) < -(prec + 8) {
			break
		}
		sum.Add(sum, q)
	}
	return sum
}

var bigLn2 = func() *big.Float {
	third := new(big.Float).SetPrec(prec).Quo(bfF(1), bfF(3))
	l := atanhSeries(third)
	return l.Mul(l, bfF(2))
}()

// bigLog returns the natural logarithm of x > 0 to about 190 bits:
// x = m*2^e with m in [0.5,1), ln m = 2 atanh((m-1)/(m+1)).
func bigLog(x *big.Float) *big.Float {
	if x.Sign() <= 0 {
		panic("bigLog of non-positive")
	}
	m := new(big.Float).SetPrec(prec)
	e := x.MantExp(m)
	num := new(big.Float).SetPrec(prec).Sub(m, bfF(1))
	den := new(big.Float).SetPrec(prec).Add(m, bfF(1))
	z := num.Quo(num, den)
	l := atanhSeries(z)
	l.Mul(l, bfF(2))
	ee := new(big.Float).SetPrec(prec).Mul(bigLn2, bfF(float64(e)))
	return l.Add(l, ee)
}

func bigLogF(f float64) *big.Float { return bigLog(bfF(f)) }

func bff(b *big.Float) float64 { f, _ := b.Float64(); return f }

// sqrtRat returns sqrt(r) rounded to float64 (r >= 0), computed at 200 bits.
func sqrtRat(r *big.Rat) float64 {
	if r.Sign() < 0 {
		return math.NaN()
	}
	if r.Sign() == 0 {
		return 0
	}
	return bff(new(big.Float).SetPrec(prec).Sqrt(bfRat(r)))
}

// ---- comparisons --------------------------------------------------------

// near reports whether got is within tol of want; infinities and NaN must match exactly.
func near(got, want, tol float64) bool {
	if math.IsNaN(want) {
		return math.IsNaN(got)
	}
	if math.IsInf(want, 0) {
		return got == want
	}
	if math.IsNaN(got) || math.IsInf(got, 0) {
		return false
	}
	return math.Abs(got-want) <= tol
}

func sameBits(a, b float64) bool {
	return math.Float64bits(a) == math.Float64bits(b) || (math.IsNaN(a) && math.IsNaN(b))
}

// ulpDiff is |a-b| in units of the ulp of the larger magnitude (NaN==NaN -> 0).
func ulpDiff(a, b float64) float64 {
	if sameBits(a, b) || a == b {
		return 0
	}
	if math.IsNaN(a) || math.IsNaN(b) || math.IsInf(a, 0) || math.IsInf(b, 0) {
		return math.Inf(1)
	}
	m := math.Max(math.Abs(a), math.Abs(b))
	u := math.Nextafter(m, math.Inf(1)) - m
	return math.Abs(a-b) / u
}

// catch runs f and returns the recovered panic value (nil if none) rendered as a string.
func catch(f func()) (msg string, panicked bool) {
	defer func() {
		if e := recover(); e != nil {
			panicked = true
			if err, ok := e.(error); ok {
				msg = err.Error()
			} else {
				msg = fmt.Sprint(e)
			}
		}
	}()
	f()
	return "", false
}

// ---- alphabets and enumerators -------------------------------------------

// vals6 is the data alphabet: ties arise from repetition, a constant sample
// from repeating one symbol, and 1e15+1 is the extreme magnitude.
var vals6 = []float64{-2, -1, 0, 1, 3, big1e15}

var ndW = []float64{0.1, 0.2, 0.3, 0.7}
var intW = []float64{1, 2, 3}

func digits(idx []int) string {
	var sb strings.Builder
	for _, d := range idx {
		sb.WriteByte(byte('0' + d))
	}
	return sb.String()
}

func pick(alpha []float64, idx []int) []float64 {
	out := make([]float64, len(idx))
	for i, d := range idx {
		out[i] = alpha[d]
	}
	return out
}

// sequences calls f with every index sequence of length n over k symbols.
func sequences(n, k int, f func(idx []int)) {
	idx := make([]int, n)
	var rec func(p int)
	rec = func(p int) {
		if p == n {
			f(idx)
			return
		}
		for d := 0; d < k; d++ {
			idx[p] = d
			rec(p + 1)
		}
	}
	rec(0)
}

// multisets calls f with every non-decreasing index sequence of length n over k symbols.
func multisets(n, k int, f func(idx []int)) {
	idx := make([]int, n)
	var rec func(p, lo int)
	rec = func(p, lo int) {
		if p == n {
			f(idx)
			return
		}
		for d := lo; d < k; d++ {
			idx[p] = d
			rec(p+1, d)
		}
	}
	rec(0, 0)
}

// wspec is a named weight vector (w == nil means nil weights).
type wspec struct {
	name string
	w    []float64
}

func (s wspec) isInt() bool {
	for _, v := range s.w {
		if v != math.Trunc(v) {
			return false
		}
	}
	return true
}

func (s wspec) hasZero() bool {
	for _, v := range s.w {
		if v == 0 {
			return true
		}
	}
	return false
}

// weightSets returns the weight vectors of length n:
// nil, ones, intAlpha^n, ndAlpha^n and "one zero" variants of three base vectors.
func weightSets(n int, intAlpha, ndAlpha []float64) []wspec {
	out := []wspec{{"nil", nil}}
	ones := make([]float64, n)
	for i := range ones {
		ones[i] = 1
	}
	out = append(out, wspec{"ones", ones})
	sequences(n, len(intAlpha), func(idx []int) {
		w := pick(intAlpha, idx)
		allOne := true
		for _, v := range w {
			if v != 1 {
				allOne = false
			}
		}
		if allOne {
			return
		}
		out = append(out, wspec{"i" + fmtW(w), w})
	})
	sequences(n, len(ndAlpha), func(idx []int) {
		w := pick(ndAlpha, idx)
		out = append(out, wspec{"d" + fmtW(w), w})
	})
	if n >= 2 {
		bases := [][]float64{ones, make([]float64, n), make([]float64, n)}
		for i := 0; i < n; i++ {
			bases[1][i] = intW[i%3]
			bases[2][i] = ndW[(i+1)%4]
		}
		for b, base := range bases {
			for z := 0; z < n; z++ {
				w := append([]float64(nil), base...)
				w[z] = 0
				out = append(out, wspec{fmt.Sprintf("z%d@%d", b, z), w})
			}
		}
	}
	return out
}

// fmtW renders weights compactly: each weight as its tenths digit when it is a
// multiple of 0.1 below 1, else its integer value.
func fmtW(w []float64) string {
	var sb strings.Builder
	for _, v := range w {
		switch {
		case v == math.Trunc(v) && v >= 0 && v <= 9:
			sb.WriteByte(byte('0' + int(v)))
		default:
			sb.WriteString(fmt.Sprintf(".%d", int(math.Round(v*10))))
		}
	}
	return sb.String()
}

func cloneF(x []float64) []float64 {
	if x == nil {
		return nil
	}
	return append([]float64{}, x...)
}

func maxAbs(x []float64) float64 {
	m := 0.0
	for _, v := range x {
		if a := math.Abs(v); a > m {
			m = a
		}
	}
	return m
}
