// Group "dst": every function with a caller-supplied destination, scratch or
// in-place slice/matrix is run with that argument in the states {nil / zero
// value, empty with small / exact / large capacity (incl. used-and-Reset),
// correctly sized holding poison, reused after a previous call, view into a
// larger poisoned backing}. The result must be bit-identical to the result
// with nil / a fresh zero value, legal states must never panic, storage outside
// the addressed region must stay untouched, and documented size mismatches panic.
package main

import (
	"fmt"
	"math"
	"sort"

	"gonum.org/v1/gonum/internal/verif/vlib"
	"gonum.org/v1/gonum/mat"
	"gonum.org/v1/gonum/stat"
	"gonum.org/v1/gonum/stat/mds"
)

// carved returns a slice of the given len and cap inside a poisoned backing
// array with two guard elements in front and three behind the capacity.
func carved(length, capacity int) (backing, s []float64) {
	backing = make([]float64, capacity+5)
	vlib.FillPoison64(backing)
	return backing, backing[2 : 2+length : 2+capacity]
}

// guardsIntact checks the guard elements around a carved slice of capacity cap.
func guardsIntact(backing []float64, capacity int) bool {
	ref := make([]float64, len(backing))
	vlib.FillPoison64(ref)
	for _, i := range []int{0, 1, 2 + capacity, 3 + capacity, 4 + capacity} {
		if math.Float64bits(backing[i]) != math.Float64bits(ref[i]) {
			return false
		}
	}
	return true
}

func same3(t *vlib.T, what string, a1, a2, a3, b1, b2, b3 []float64) {
	for k, pr := range [][2][]float64{{a1, b1}, {a2, b2}, {a3, b3}} {
		if len(pr[0]) != len(pr[1]) {
			t.Failf("%s: result %d has length %d, with nil cutoffs %d", what, k, len(pr[0]), len(pr[1]))
			return
		}
		if i, ok := vlib.Same64(pr[0], pr[1]); !ok {
			t.Failf("%s: result %d differs from the nil-cutoffs result at %d: %v vs %v", what, k, i, pr[0], pr[1])
			return
		}
	}
}

// ---- ROC cutoffs -------------------------------------------------------------

func rocDstCase(t *vlib.T, id []int, lab int, ws wspec) {
	y := pick(vals6, id)
	n := len(y)
	classes := make([]bool, n)
	for i := range classes {
		classes[i] = lab&(1<<i) != 0
	}
	w := cloneF(ws.w)
	rt, rf_, rth := stat.ROC(nil, y, classes, w)
	// a second, different input for the "reused after a previous call" state
	y2 := make([]float64, n)
	for i := range y2 {
		y2[i] = float64(i) // all distinct: needs the full n+1 thresholds
	}
	rt2, rf2, rth2 := stat.ROC(nil, y2, classes, w)
	caps := map[int]bool{}
	for _, c := range []int{0, 1, n - 1, n, n + 1, n + 2} {
		if c >= 0 {
			caps[c] = true
		}
	}
	for c := 0; c <= n+2; c++ {
		if !caps[c] {
			continue
		}
		backing, cut := carved(0, c)
		var a, b, th []float64
		msg, pan := catch(func() { a, b, th = stat.ROC(cut, y, classes, w) })
		what := fmt.Sprintf("ROC(empty cutoffs cap=%d)", c)
		if pan {
			t.Failf("%s panics %q", what, msg)
			continue
		}
		same3(t, what, a, b, th, rt, rf_, rth)
		if !guardsIntact(backing, c) {
			t.Failf("%s wrote outside the capacity of cutoffs", what)
		}
		// reuse the same (now dirty) storage for another input, then the first again
		for rep, in := range [][]float64{y2, y} {
			cut = backing[2 : 2 : 2+c]
			msg, pan = catch(func() { a, b, th = stat.ROC(cut, in, classes, w) })
			what := fmt.Sprintf("ROC(empty cutoffs cap=%d, reused %d)", c, rep+1)
			if pan {
				t.Failf("%s panics %q", what, msg)
				continue
			}
			if rep == 0 {
				same3(t, what, a, b, th, rt2, rf2, rth2)
			} else {
				same3(t, what, a, b, th, rt, rf_, rth)
			}
			if !guardsIntact(backing, c) {
				t.Failf("%s wrote outside the capacity of cutoffs", what)
			}
		}
	}
	// explicit non-empty cutoffs with spare capacity: neither the elements nor the spare capacity may change
	for mask := 1; mask < 1<<len(rocGrid); mask++ {
		var set []float64
		for i, v := range rocGrid {
			if mask&(1<<i) != 0 {
				set = append(set, v)
			}
		}
		et, ef, eth := stat.ROC(cloneF(set), y, classes, w)
		backing, cut := carved(len(set), len(set)+2)
		copy(cut, set)
		before := cloneF(backing)
		var a, b, th []float64
		msg, pan := catch(func() { a, b, th = stat.ROC(cut, y, classes, w) })
		what := fmt.Sprintf("ROC(cutoffs=%v with spare capacity)", set)
		if pan {
			t.Failf("%s panics %q", what, msg)
			continue
		}
		same3(t, what, a, b, th, et, ef, eth)
		if i, ok := vlib.Same64(backing, before); !ok {
			t.Failf("%s modified the caller's storage at %d", what, i-2)
		}
		if len(th) > 0 && &th[0] == &cut[0] {
			t.Failf("%s returns the caller's cutoffs as thresh", what)
		}
	}
	t.Nontrivial()
	t.Outcome(fmt.Sprintf("roc n=%d", n))
	if t.Failed() {
		t.Detail(map[string]any{"y": y, "classes": classes, "w": w})
	}
}

// ---- Histogram count ---------------------------------------------------------------

func histDstCase(t *vlib.T, id []int, ws wspec, divs [][]float64) {
	histDstData(t, pick(vals6, id), cloneF(ws.w), divs)
}

// histDstData crosses every count state with one data set x, w; x may be nil,
// zero-length, a single value, constant, or carry all-zero weights.
func histDstData(t *vlib.T, x, w []float64, divs [][]float64) {
	n := len(x)
	other := make([]float64, n) // previous call's data for the reuse state
	for i := range other {
		other[i] = -2
	}
	nOK := 0
	for _, d := range divs {
		if n > 0 && !(x[0] >= d[0] && x[n-1] < d[len(d)-1]) {
			continue
		}
		nOK++
		bins := len(d) - 1
		ref := stat.Histogram(nil, d, x, w)
		if len(ref) != bins {
			t.Failf("Histogram(nil count, dividers=%v) returns %d bins", d, len(ref))
			continue
		}
		// definition: bin-by-bin counting (all bins are zero for empty data or all-zero weights)
		for j := range ref {
			want := 0.0
			exact := true
			for i := range x {
				if x[i] >= d[j] && x[i] < d[j+1] {
					if w == nil {
						want++
					} else {
						want += w[i]
						if w[i] != math.Trunc(w[i]) {
							exact = false
						}
					}
				}
			}
			if (exact && ref[j] != want) || !near(ref[j], want, float64(n)*eps*math.Abs(want)) {
				t.Failf("Histogram(nil count, dividers=%v, x=%v) bin %d = %v, counting gives %v", d, x, j, ref[j], want)
			}
		}
		// a reused count still holding non-zero values of an earlier batch
		{
			backing, stale := carved(bins, bins+1)
			for i := range stale {
				stale[i] = float64(7 + i)
			}
			var got []float64
			msg, pan := catch(func() { got = stat.Histogram(stale, d, x, w) })
			if pan {
				t.Failf("Histogram(stale count, dividers=%v, x=%v) panics %q", d, x, msg)
			} else if len(got) != bins || &got[0] != &stale[0] {
				t.Failf("Histogram did not return the provided count")
			} else if i, ok := vlib.Same64(got, ref); !ok {
				t.Failf("Histogram(count holding stale values, dividers=%v, x=%v) bin %d = %v, with nil count %v", d, x, i, got[i], ref[i])
			}
			if !guardsIntact(backing, bins+1) {
				t.Failf("Histogram wrote outside the capacity of count")
			}
		}
		// exact length holding poison, with spare capacity
		backing, cnt := carved(bins, bins+2)
		var got []float64
		msg, pan := catch(func() { got = stat.Histogram(cnt, d, x, w) })
		if pan {
			t.Failf("Histogram(count len=%d cap=%d, dividers=%v) panics %q", bins, bins+2, d, msg)
			continue
		}
		if len(got) != bins || &got[0] != &cnt[0] {
			t.Failf("Histogram did not return the provided count")
		} else if i, ok := vlib.Same64(got, ref); !ok {
			t.Failf("Histogram(poisoned count, dividers=%v) bin %d = %v, with nil count %v", d, i, got[i], ref[i])
		}
		ref2 := make([]float64, len(backing))
		vlib.FillPoison64(ref2)
		copy(ref2[2:2+bins], ref)
		if i, ok := vlib.Same64(backing, ref2); !ok {
			t.Failf("Histogram: count or the storage around it is not (poison | nil-count result | poison) at offset %d", i-2)
		}
		// reused after a previous call on other data
		if n > 0 && -2 >= d[0] && -2 < d[len(d)-1] {
			prev := stat.Histogram(nil, d, other, w)
			got = stat.Histogram(prev, d, x, w)
			if i, ok := vlib.Same64(got, ref); !ok {
				t.Failf("Histogram(count reused, dividers=%v) bin %d = %v, with nil count %v", d, i, got[i], ref[i])
			}
		}
		// documented: count is nil or has length len(dividers)-1; other lengths (incl. empty non-nil) are rejected
		for _, l := range []int{0, bins - 1, bins + 1} {
			if l < 0 || l == bins {
				continue
			}
			_, bad := carved(l, bins+3)
			var r []float64
			msg, pan := catch(func() { r = stat.Histogram(bad, d, x, w) })
			if !pan || len(msg) < 10 || msg[:10] != "histogram:" {
				t.Failf("Histogram(count len=%d for %d bins): panicked=%v %q result %v, want an explicit histogram: panic", l, bins, pan, msg, r)
			}
		}
	}
	t.Nontrivial()
	t.Outcome(fmt.Sprintf("hist n=%d nil=%v inrange>0=%v", n, x == nil, nOK > 0))
	if t.Failed() {
		t.Detail(map[string]any{"x": x, "w": w})
	}
}

// degenerateData lists the degenerate data inputs that every destination state is crossed with:
// empty (nil and zero-length, with nil / zero-length weights), a single value, a constant
// sample, and non-empty data whose weights are all zero.
type degData struct {
	name string
	x, w []float64
}

func degenerateData() []degData {
	zl := func() []float64 { return make([]float64, 0, 4) }
	return []degData{
		{"x=nil w=nil", nil, nil},
		{"x=nil w=empty", nil, zl()},
		{"x=empty w=nil", zl(), nil},
		{"x=empty w=empty", zl(), zl()},
		{"x=empty0cap w=nil", []float64{}, nil},
		{"single w=nil", []float64{1}, nil},
		{"single w=.3", []float64{1}, []float64{0.3}},
		{"single w=0", []float64{1}, []float64{0}},
		{"const3 w=nil", []float64{1, 1, 1}, nil},
		{"const3 w=nd", []float64{1, 1, 1}, []float64{0.1, 0.2, 0.7}},
		{"const3 w=0", []float64{-2, -2, -2}, []float64{0, 0, 0}},
		{"three w=0", []float64{-2, 0, 1}, []float64{0, 0, 0}},
	}
}

// rocDegenerate: every cutoffs state with empty y (documented nil results) and with all-zero weights.
func rocDegenerate(t *vlib.T, dd degData) {
	y, w := dd.x, dd.w
	n := len(y)
	classes := make([]bool, n)
	for i := range classes {
		classes[i] = i%2 == 0
	}
	if y == nil {
		classes = nil
	}
	rt, rf_, rth := stat.ROC(nil, y, classes, w)
	if n == 0 && (rt != nil || rf_ != nil || rth != nil) {
		t.Failf("ROC of empty y is not nil")
	}
	for _, c := range []int{0, 1, n, n + 1, n + 2} {
		for _, stale := range []bool{false, true} {
			backing, cut := carved(0, c)
			if stale {
				for i := 2; i < 2+c; i++ {
					backing[i] = float64(40 + i)
				}
			}
			var a, b, th []float64
			msg, pan := catch(func() { a, b, th = stat.ROC(cut, y, classes, w) })
			what := fmt.Sprintf("ROC(empty cutoffs cap=%d stale=%v, %s)", c, stale, dd.name)
			if pan {
				t.Failf("%s panics %q", what, msg)
				continue
			}
			same3(t, what, a, b, th, rt, rf_, rth)
			if !guardsIntact(backing, c) {
				t.Failf("%s wrote outside the capacity of cutoffs", what)
			}
		}
	}
	for _, set := range [][]float64{{0}, {-2, 1}, {-3, 1, 5}} {
		et, ef, eth := stat.ROC(cloneF(set), y, classes, w)
		backing, cut := carved(len(set), len(set)+2)
		copy(cut, set)
		before := cloneF(backing)
		var a, b, th []float64
		msg, pan := catch(func() { a, b, th = stat.ROC(cut, y, classes, w) })
		what := fmt.Sprintf("ROC(cutoffs=%v with spare capacity, %s)", set, dd.name)
		if pan {
			t.Failf("%s panics %q", what, msg)
			continue
		}
		same3(t, what, a, b, th, et, ef, eth)
		if i, ok := vlib.Same64(backing, before); !ok {
			t.Failf("%s modified the caller's storage at %d", what, i-2)
		}
	}
}

// sortDegenerate: nil and zero-length slices in every nil combination, inside guarded storage.
func sortDegenerate(t *vlib.T, dd degData) {
	for mode := 0; mode < 4; mode++ {
		bx, xs := carved(len(dd.x), len(dd.x)+2)
		copy(xs, dd.x)
		var x []float64 = xs
		if dd.x == nil {
			x = nil
		}
		var wa []float64
		var la []bool
		bw, ws := carved(len(dd.x), len(dd.x)+2)
		if mode&1 != 0 {
			wa = ws
			for i := range wa {
				wa[i] = float64(i) + 0.5
			}
		}
		if mode&2 != 0 {
			la = make([]bool, len(dd.x), len(dd.x)+2)
		}
		msg, pan := catch(func() { stat.SortWeightedLabeled(x, la, wa) })
		if pan {
			t.Failf("SortWeightedLabeled(%s, mode %d) panics %q", dd.name, mode, msg)
			continue
		}
		if !sort.Float64sAreSorted(x) || !guardsIntact(bx, len(dd.x)+2) || !guardsIntact(bw, len(dd.x)+2) {
			t.Failf("SortWeightedLabeled(%s, mode %d): not sorted or wrote outside the slices", dd.name, mode)
		}
		for i := len(dd.x); i < len(dd.x)+2; i++ { // spare capacity untouched
			if math.Float64bits(bx[2+i]) != math.Float64bits(vlib.Poison64(2+i)) {
				t.Failf("SortWeightedLabeled(%s, mode %d) wrote the spare capacity of x", dd.name, mode)
			}
		}
	}
}

// ---- SortWeighted / SortWeightedLabeled in place --------------------------------------

func sortDstCase(t *vlib.T, id []int) {
	x := pick(vals6, id)
	n := len(x)
	w := make([]float64, n)
	l := make([]bool, n)
	for i := range w {
		w[i] = float64(i+1) + 0.5
		l[i] = i%2 == 0
	}
	for mode := 0; mode < 4; mode++ { // bit0: weights, bit1: labels
		// reference on exact-capacity copies
		xr, wr, lr := cloneF(x), cloneF(w), append([]bool(nil), l...)
		if mode&1 == 0 {
			wr = nil
		}
		if mode&2 == 0 {
			lr = nil
		}
		stat.SortWeightedLabeled(xr, lr, wr)
		// inside poisoned backing arrays with spare capacity
		bx, xs := carved(n, n+3)
		bw, wsl := carved(n, n+1)
		copy(xs, x)
		copy(wsl, w)
		lb := make([]bool, n+4)
		for i := range lb {
			lb[i] = true
		}
		ls := lb[1 : 1+n : n+3]
		copy(ls, l)
		var wa []float64
		var la []bool
		if mode&1 != 0 {
			wa = wsl
		}
		if mode&2 != 0 {
			la = ls
		}
		msg, pan := catch(func() {
			if mode&2 == 0 && n%2 == 1 {
				stat.SortWeighted(xs, wa)
			} else {
				stat.SortWeightedLabeled(xs, la, wa)
			}
		})
		if pan {
			t.Failf("sort mode %d panics %q", mode, msg)
			continue
		}
		if i, ok := vlib.Same64(xs, xr); !ok {
			t.Failf("mode %d: x[%d] differs between carved and exact-capacity slices", mode, i)
		}
		if wa != nil {
			if i, ok := vlib.Same64(wa, wr); !ok {
				t.Failf("mode %d: weights[%d] differs between carved and exact-capacity slices", mode, i)
			}
		} else if i, ok := vlib.Same64(wsl, w); !ok {
			t.Failf("mode %d: unused weights modified at %d", mode, i)
		}
		if la != nil {
			for i := range la {
				if la[i] != lr[i] {
					t.Failf("mode %d: labels[%d] differs between carved and exact-capacity slices", mode, i)
					break
				}
			}
		}
		if !guardsIntact(bx, n+3) || !guardsIntact(bw, n+1) || !lb[0] || !lb[n+1] || !lb[n+2] || !lb[n+3] {
			t.Failf("mode %d: storage outside the slices was modified", mode)
		}
	}
	t.Nontrivial()
	t.Outcome(fmt.Sprintf("sort n=%d", n))
}

// ---- CovarianceMatrix / CorrelationMatrix / PC destinations ---------------------------------

func poisonSym(n int) *mat.SymDense {
	s := mat.NewSymDense(n, nil)
	for i := 0; i < n; i++ {
		for j := i; j < n; j++ {
			s.SetSym(i, j, vlib.Poison64(i*n+j+1))
		}
	}
	return s
}

func poisonDense(r, c int) *mat.Dense {
	d := mat.NewDense(r, c, nil)
	for i := 0; i < r; i++ {
		for j := 0; j < c; j++ {
			d.Set(i, j, vlib.Poison64(i*c+j+1))
		}
	}
	return d
}

func sameMat(a, b mat.Matrix) (int, int, bool) {
	ar, ac := a.Dims()
	br, bc := b.Dims()
	if ar != br || ac != bc {
		return -1, -1, false
	}
	for i := 0; i < ar; i++ {
		for j := 0; j < ac; j++ {
			if !sameBits(a.At(i, j), b.At(i, j)) {
				return i, j, false
			}
		}
	}
	return 0, 0, true
}

func covDstCase(t *vlib.T, data [][]float64, ws wspec) {
	w := cloneF(ws.w)
	r, c := len(data[0]), len(data)
	x := denseFromCols(data)
	// previous call's data for the reuse states: the same shape, other values
	prevCols := make([][]float64, c)
	for j := range prevCols {
		prevCols[j] = make([]float64, r)
		for i := range prevCols[j] {
			prevCols[j][i] = float64((i+1)*(j+2)%5) - 1
		}
	}
	prev := denseFromCols(prevCols)
	for fi, f := range []func(*mat.SymDense, mat.Matrix, []float64){stat.CovarianceMatrix, stat.CorrelationMatrix} {
		name := []string{"CovarianceMatrix", "CorrelationMatrix"}[fi]
		var ref mat.SymDense
		f(&ref, x, w)
		states := map[string]func() *mat.SymDense{
			"sized+poison": func() *mat.SymDense { return poisonSym(c) },
			"reset-exact":  func() *mat.SymDense { s := poisonSym(c); s.Reset(); return s },
			"reset-large":  func() *mat.SymDense { s := poisonSym(c + 2); s.Reset(); return s },
			"reused":       func() *mat.SymDense { var s mat.SymDense; f(&s, prev, w); return &s },
			"reused-reset": func() *mat.SymDense { var s mat.SymDense; f(&s, prev, nil); s.Reset(); return &s },
		}
		if c > 1 {
			states["reset-small"] = func() *mat.SymDense { s := poisonSym(c - 1); s.Reset(); return s }
		}
		for _, sn := range vlib.SortedKeys(states) {
			dst := states[sn]()
			msg, pan := catch(func() { f(dst, x, w) })
			if pan {
				t.Failf("%s(dst %s) panics %q", name, sn, msg)
				continue
			}
			if i, j, ok := sameMat(dst, &ref); !ok {
				t.Failf("%s(dst %s) differs from the fresh-destination result at (%d,%d)", name, sn, i, j)
			}
		}
		// a view into a larger poisoned matrix: the rest of the parent must stay untouched
		{
			big := poisonSym(c + 2)
			before := mat.NewSymDense(c+2, nil)
			before.CopySym(big)
			view := big.SliceSym(1, 1+c).(*mat.SymDense)
			msg, pan := catch(func() { f(view, x, w) })
			if pan {
				t.Failf("%s(dst view) panics %q", name, msg)
			} else {
				if i, j, ok := sameMat(view, &ref); !ok {
					t.Failf("%s(dst view) differs from the fresh-destination result at (%d,%d)", name, i, j)
				}
				for i := 0; i < c+2; i++ {
					for j := i; j < c+2; j++ {
						inside := i >= 1 && i < 1+c && j >= 1 && j < 1+c
						if !inside && !sameBits(big.At(i, j), before.At(i, j)) {
							t.Failf("%s(dst view) wrote the parent matrix at (%d,%d)", name, i, j)
						}
					}
				}
			}
		}
		// documented: a non-empty dst of another size is rejected
		if _, pan := catch(func() { f(poisonSym(c+1), x, w) }); !pan {
			t.Failf("%s with a non-empty dst of the wrong size did not panic", name)
		}
	}
	if i, ok := vlib.Same64(w, ws.w); !ok {
		t.Failf("weights modified at %d", i)
	}

	// PC.VarsTo / VectorsTo destinations
	var pc stat.PC
	if pc.PrincipalComponents(x, w) {
		k := min(r, c)
		refVars := pc.VarsTo(nil)
		var refVecs mat.Dense
		pc.VectorsTo(&refVecs)
		backing, dv := carved(k, k+2)
		got := pc.VarsTo(dv)
		if len(got) != k || &got[0] != &dv[0] {
			t.Failf("VarsTo did not return the provided dst")
		} else if i, ok := vlib.Same64(got, refVars); !ok {
			t.Failf("VarsTo(poisoned dst)[%d] = %v, with nil dst %v", i, got[i], refVars[i])
		}
		if !guardsIntact(backing, k+2) || math.Float64bits(backing[2+k]) != math.Float64bits(vlib.Poison64(2+k)) {
			t.Failf("VarsTo wrote outside dst")
		}
		if got2 := pc.VarsTo(got); len(got2) != k {
			t.Failf("VarsTo(reused dst) length %d", len(got2))
		} else if i, ok := vlib.Same64(got2, refVars); !ok {
			t.Failf("VarsTo(reused dst)[%d] = %v, with nil dst %v", i, got2[i], refVars[i])
		}
		for _, l := range []int{0, k - 1, k + 1} {
			if l == k || l < 0 {
				continue
			}
			_, bad := carved(l, k+3)
			if _, pan := catch(func() { pc.VarsTo(bad) }); !pan {
				t.Failf("VarsTo(dst of length %d, want %d) did not panic", l, k)
			}
		}
		vstates := map[string]func() *mat.Dense{
			"sized+poison": func() *mat.Dense { return poisonDense(c, k) },
			"reset-exact":  func() *mat.Dense { d := poisonDense(c, k); d.Reset(); return d },
			"reset-large":  func() *mat.Dense { d := poisonDense(c+2, k+3); d.Reset(); return d },
			"reset-small":  func() *mat.Dense { d := poisonDense(1, 1); d.Reset(); return d },
			"reused":       func() *mat.Dense { var d mat.Dense; pc.VectorsTo(&d); d.Scale(-3, &d); return &d },
		}
		for _, sn := range vlib.SortedKeys(vstates) {
			dst := vstates[sn]()
			msg, pan := catch(func() { pc.VectorsTo(dst) })
			if pan {
				t.Failf("VectorsTo(dst %s) panics %q", sn, msg)
				continue
			}
			if i, j, ok := sameMat(dst, &refVecs); !ok {
				t.Failf("VectorsTo(dst %s) differs from the fresh-destination result at (%d,%d)", sn, i, j)
			}
		}
		{
			big := poisonDense(c+2, k+2)
			before := mat.DenseCopyOf(big)
			view := big.Slice(1, 1+c, 1, 1+k).(*mat.Dense)
			msg, pan := catch(func() { pc.VectorsTo(view) })
			if pan {
				t.Failf("VectorsTo(dst view) panics %q", msg)
			} else {
				if i, j, ok := sameMat(view, &refVecs); !ok {
					t.Failf("VectorsTo(dst view) differs at (%d,%d)", i, j)
				}
				for i := 0; i < c+2; i++ {
					for j := 0; j < k+2; j++ {
						inside := i >= 1 && i < 1+c && j >= 1 && j < 1+k
						if !inside && !sameBits(big.At(i, j), before.At(i, j)) {
							t.Failf("VectorsTo(dst view) wrote the parent matrix at (%d,%d)", i, j)
						}
					}
				}
			}
		}
		if _, pan := catch(func() { pc.VectorsTo(poisonDense(c+1, k)) }); !pan {
			t.Failf("VectorsTo with a non-empty dst of the wrong shape did not panic")
		}
	}
	t.Nontrivial()
	t.Outcome(fmt.Sprintf("cov %dx%d", r, c))
	if t.Failed() {
		t.Detail(map[string]any{"cols": data, "w": w})
	}
}

func colsOf(idx []int, n int) [][]float64 {
	out := make([][]float64, len(idx))
	for i, c := range idx {
		out[i] = ccaCols[c][:n]
	}
	return out
}

// ---- CC destinations ------------------------------------------------------------------------

func ccDstCase(t *vlib.T, xc, yc []int, ws wspec, n int) {
	w := cloneF(ws.w)
	xd, yd := len(xc), len(yc)
	xcols, ycols := make([][]float64, xd), make([][]float64, yd)
	for i, c := range xc {
		xcols[i] = ccaCols[c][:n]
	}
	for i, c := range yc {
		ycols[i] = ccaCols[c][:n]
	}
	var cc stat.CC
	if err := cc.CanonicalCorrelations(denseFromCols(xcols), denseFromCols(ycols), w); err != nil {
		t.Failf("CanonicalCorrelations failed: %v", err)
		return
	}
	refC := cc.CorrsTo(nil)
	backing, dc := carved(yd, yd+2)
	if got := cc.CorrsTo(dc); len(got) != yd || &got[0] != &dc[0] {
		t.Failf("CorrsTo did not return the provided dst")
	} else if i, ok := vlib.Same64(got, refC); !ok {
		t.Failf("CorrsTo(poisoned dst)[%d] = %v, with nil dst %v", i, got[i], refC[i])
	}
	if !guardsIntact(backing, yd+2) || math.Float64bits(backing[2+yd]) != math.Float64bits(vlib.Poison64(2+yd)) {
		t.Failf("CorrsTo wrote outside dst")
	}
	for _, sphered := range []bool{true, false} {
		for side := 0; side < 2; side++ {
			rows := xd
			call := func(d *mat.Dense) { cc.LeftTo(d, sphered) }
			name := "LeftTo"
			if side == 1 {
				rows = yd
				call = func(d *mat.Dense) { cc.RightTo(d, sphered) }
				name = "RightTo"
			}
			var ref mat.Dense
			call(&ref)
			states := map[string]func() *mat.Dense{
				"sized+poison": func() *mat.Dense { return poisonDense(rows, yd) },
				"reset-exact":  func() *mat.Dense { d := poisonDense(rows, yd); d.Reset(); return d },
				"reset-large":  func() *mat.Dense { d := poisonDense(rows+2, yd+3); d.Reset(); return d },
				"reset-small":  func() *mat.Dense { d := poisonDense(1, 1); d.Reset(); return d },
				"reused":       func() *mat.Dense { var d mat.Dense; call(&d); d.Scale(7, &d); return &d },
				"reused-other": func() *mat.Dense { var d mat.Dense; cc.RightTo(&d, !sphered); d.Reset(); return &d },
			}
			for _, sn := range vlib.SortedKeys(states) {
				dst := states[sn]()
				msg, pan := catch(func() { call(dst) })
				if pan {
					t.Failf("%s(dst %s, sphered=%v) panics %q", name, sn, sphered, msg)
					continue
				}
				if i, j, ok := sameMat(dst, &ref); !ok {
					t.Failf("%s(dst %s, sphered=%v) differs from the fresh-destination result at (%d,%d)", name, sn, sphered, i, j)
				}
			}
			big := poisonDense(rows+2, yd+2)
			before := mat.DenseCopyOf(big)
			view := big.Slice(1, 1+rows, 1, 1+yd).(*mat.Dense)
			msg, pan := catch(func() { call(view) })
			if pan {
				t.Failf("%s(dst view, sphered=%v) panics %q", name, sphered, msg)
			} else {
				if i, j, ok := sameMat(view, &ref); !ok {
					t.Failf("%s(dst view, sphered=%v) differs at (%d,%d)", name, sphered, i, j)
				}
				for i := 0; i < rows+2; i++ {
					for j := 0; j < yd+2; j++ {
						inside := i >= 1 && i < 1+rows && j >= 1 && j < 1+yd
						if !inside && !sameBits(big.At(i, j), before.At(i, j)) {
							t.Failf("%s(dst view) wrote the parent matrix at (%d,%d)", name, i, j)
						}
					}
				}
			}
		}
	}
	t.Nontrivial()
	t.Outcome(fmt.Sprintf("cc xd=%d yd=%d", xd, yd))
}

// ---- TorgersonScaling destinations --------------------------------------------------------------

func mdsDstCase(t *vlib.T, pts [][2]int) {
	n := len(pts)
	dis := mat.NewSymDense(n, nil)
	for i := range pts {
		for j := i; j < n; j++ {
			dx, dy := float64(pts[i][0]-pts[j][0]), float64(pts[i][1]-pts[j][1])
			dis.SetSym(i, j, math.Sqrt(dx*dx+dy*dy))
		}
	}
	var ref mat.Dense
	refK, _ := mds.TorgersonScaling(&ref, nil, dis)
	refEig := make([]float64, n)
	var tmp mat.Dense
	mds.TorgersonScaling(&tmp, refEig, dis)
	states := map[string]func() *mat.Dense{
		"reset-exact": func() *mat.Dense { d := poisonDense(n, n); d.Reset(); return d },
		"reset-large": func() *mat.Dense { d := poisonDense(n+2, n+3); d.Reset(); return d },
		"reset-small": func() *mat.Dense { d := poisonDense(1, 1); d.Reset(); return d },
		"reused-reset": func() *mat.Dense {
			var d mat.Dense
			mds.TorgersonScaling(&d, nil, dis)
			d.Reset()
			return &d
		},
	}
	for _, sn := range vlib.SortedKeys(states) {
		dst := states[sn]()
		var k int
		msg, pan := catch(func() { k, _ = mds.TorgersonScaling(dst, nil, dis) })
		if pan {
			t.Failf("TorgersonScaling(dst %s) panics %q", sn, msg)
			continue
		}
		if k != refK {
			t.Failf("TorgersonScaling(dst %s) k = %d, with a fresh dst %d", sn, k, refK)
		} else if i, j, ok := sameMat(dst, &ref); !ok {
			t.Failf("TorgersonScaling(dst %s) differs from the fresh-destination result at (%d,%d)", sn, i, j)
		}
	}
	// eigdst: exact with spare capacity, longer, shorter
	for _, l := range []int{n, n + 2, n - 1} {
		if l < 1 {
			continue
		}
		backing, e := carved(l, l+2)
		var d mat.Dense
		var eig []float64
		msg, pan := catch(func() { _, eig = mds.TorgersonScaling(&d, e, dis) })
		if pan {
			t.Failf("TorgersonScaling(eigdst len=%d) panics %q", l, msg)
			continue
		}
		if len(eig) != l || &eig[0] != &e[0] {
			t.Failf("TorgersonScaling(eigdst len=%d) does not return eigdst", l)
			continue
		}
		m := min(l, n)
		if i, ok := vlib.Same64(eig[:m], refEig[:m]); !ok {
			t.Failf("TorgersonScaling(eigdst len=%d) eig[%d] = %v, want %v", l, i, eig[i], refEig[i])
		}
		want := make([]float64, len(backing))
		vlib.FillPoison64(want)
		copy(want[2:2+m], refEig[:m])
		if i, ok := vlib.Same64(backing, want); !ok {
			t.Failf("TorgersonScaling(eigdst len=%d) wrote storage at offset %d beyond the eigenvalues", l, i-2)
		}
		if i, j, ok := sameMat(&d, &ref); !ok {
			t.Failf("coordinates depend on eigdst (len %d) at (%d,%d)", l, i, j)
		}
	}
	t.Nontrivial()
	t.Outcome(fmt.Sprintf("mds n=%d", n))
	if t.Failed() {
		t.Detail(map[string]any{"points": pts})
	}
}

func genDst(g *vlib.G) {
	// every destination state crossed with the degenerate data inputs
	{
		divs := dividerSets()
		for _, dd := range degenerateData() {
			dd := dd
			gcase(g, "degenerate hist "+dd.name, func(t *vlib.T) { histDstData(t, cloneF(dd.x), cloneF(dd.w), divs) })
			gcase(g, "degenerate roc "+dd.name, func(t *vlib.T) {
				rocDegenerate(t, degData{dd.name, cloneF(dd.x), cloneF(dd.w)})
				t.Nontrivial()
				t.Outcome("roc degenerate")
			})
			gcase(g, "degenerate sort "+dd.name, func(t *vlib.T) {
				sortDegenerate(t, dd)
				t.Nontrivial()
				t.Outcome("sort degenerate")
			})
		}
		// matrices: a single observation, constant columns, all-zero weights, for every dst state of
		// CovarianceMatrix / CorrelationMatrix / PC.VarsTo / PC.VectorsTo
		for _, dm := range []struct {
			name string
			cols [][]float64
			w    []float64
		}{
			{"1x1", [][]float64{{2}}, nil},
			{"1x2", [][]float64{{2}, {-1}}, nil},
			{"1x2 w=.3", [][]float64{{2}, {-1}}, []float64{0.3}},
			{"3x2 const", [][]float64{{2, 2, 2}, {-1, -1, -1}}, nil},
			{"3x2 const w=ramp", [][]float64{{2, 2, 2}, {-1, -1, -1}}, []float64{2, 3, 1}},
			{"3x2 w=0", [][]float64{{0, 2, -1}, {-1, 0, 2}}, []float64{0, 0, 0}},
			{"3x1 w=0", [][]float64{{0, 2, -1}}, []float64{0, 0, 0}},
			{"2x3 const", [][]float64{{0, 0}, {2, 2}, {-1, -1}}, nil},
		} {
			dm := dm
			gcase(g, "degenerate cov "+dm.name, func(t *vlib.T) {
				cols := make([][]float64, len(dm.cols))
				for i := range cols {
					cols[i] = cloneF(dm.cols[i])
				}
				covDstCase(t, cols, wspec{"deg", cloneF(dm.w)})
			})
		}
		// CC destinations with a constant column / an entirely constant block / all-zero weights
		for _, dc := range []struct {
			name   string
			xb, yb []int
			w      []float64
		}{
			{"x=[0 const] y=[3]", []int{0, 6}, []int{3}, nil},
			{"x=[const] y=[3]", []int{6}, []int{3}, nil},
			{"x=[0 1] y=[const]", []int{0, 1}, []int{6}, nil},
			{"x=[0 1] y=[3] w=0", []int{0, 1}, []int{3}, []float64{0, 0, 0, 0, 0}},
		} {
			dc := dc
			gcase(g, "degenerate cc "+dc.name, func(t *vlib.T) {
				var probe stat.CC
				var err error
				msg, pan := catch(func() {
					err = probe.CanonicalCorrelations(denseFromCols(colsOf(dc.xb, 5)), denseFromCols(colsOf(dc.yb, 5)), cloneF(dc.w))
				})
				if pan {
					t.Failf("CanonicalCorrelations(%s) panics %q", dc.name, msg)
					return
				}
				if err != nil {
					t.Nontrivial()
					t.Outcome("cc degenerate: analysis reports failure")
					return
				}
				ccDstCase(t, dc.xb, dc.yb, wspec{"deg", cloneF(dc.w)}, 5)
			})
		}
	}
	// ROC: every sorted multiset n=1..5, every label vector, nil and non-dyadic weights
	for n := 1; n <= 5; n++ {
		n := n
		wsets := []wspec{ksWeights(n)[0], ksWeights(n)[3]}
		multisets(n, 6, func(idx []int) {
			id := append([]int(nil), idx...)
			for lab := 0; lab < 1<<n; lab++ {
				lab := lab
				for _, ws := range wsets {
					ws := ws
					gcase(g, fmt.Sprintf("roc y=%s lab=%0*b w=%s", digits(id), n, lab, ws.name), func(t *vlib.T) { rocDstCase(t, id, lab, ws) })
				}
			}
		})
		if g.Stopped() {
			return
		}
	}
	// Histogram count
	divs := dividerSets()
	for n := 1; n <= vlib.Pick(g, 3, 4); n++ {
		wsets := []wspec{ksWeights(n)[0], ksWeights(n)[2], ksWeights(n)[3]}
		multisets(n, 6, func(idx []int) {
			id := append([]int(nil), idx...)
			for _, ws := range wsets {
				ws := ws
				gcase(g, fmt.Sprintf("hist x=%s w=%s", digits(id), ws.name), func(t *vlib.T) { histDstCase(t, id, ws, divs) })
			}
		})
	}
	// in-place sorting
	for n := 0; n <= vlib.Pick(g, 4, 5); n++ {
		sequences(n, 6, func(idx []int) {
			id := append([]int(nil), idx...)
			gcase(g, "sort x="+digits(id), func(t *vlib.T) { sortDstCase(t, id) })
		})
	}
	if g.Stopped() {
		return
	}
	// CovarianceMatrix / CorrelationMatrix / PC
	type shape struct{ r, c, k int }
	shapes := []shape{{2, 1, 3}, {3, 1, 3}, {2, 2, 3}, {3, 2, 3}, {2, 3, 2}, {3, 3, 2}, {4, 2, 2}}
	if g.Thorough() {
		shapes = append(shapes, shape{4, 3, 2}, shape{4, 2, 3})
	}
	for _, sh := range shapes {
		sh := sh
		all := matWeights(sh.r)
		wsets := []wspec{all[0], all[2], all[8]} // nil, integer ramp, non-dyadic with sum > 1
		sequences(sh.r*sh.c, sh.k, func(idx []int) {
			id := append([]int(nil), idx...)
			for _, ws := range wsets {
				ws := ws
				gcase(g, fmt.Sprintf("cov %dx%dk%d x=%s w=%s", sh.r, sh.c, sh.k, digits(id), ws.name), func(t *vlib.T) {
					data := make([][]float64, sh.c)
					for j := range data {
						data[j] = pick(pairVals, id[j*sh.r:(j+1)*sh.r])
					}
					covDstCase(t, data, ws)
				})
			}
		})
		if g.Stopped() {
			return
		}
	}
	// CC
	for _, n := range []int{5, 6} {
		all := matWeights(n)
		for _, xb := range [][]int{{0}, {0, 1}, {1, 2}, {0, 1, 2}} {
			for _, yb := range [][]int{{3}, {4, 5}} {
				if len(xb) < len(yb) {
					continue
				}
				for _, ws := range []wspec{all[0], all[2]} {
					xb, yb, ws, n := xb, yb, ws, n
					gcase(g, fmt.Sprintf("cc n=%d x=%v y=%v w=%s", n, xb, yb, ws.name), func(t *vlib.T) { ccDstCase(t, xb, yb, ws, n) })
				}
			}
		}
	}
	// TorgersonScaling
	for n := 1; n <= vlib.Pick(g, 3, 4); n++ {
		n := n
		sequences(n, 9, func(idx []int) {
			id := append([]int(nil), idx...)
			gcase(g, "mds pts="+digits(id), func(t *vlib.T) {
				pts := make([][2]int, n)
				for i, d := range id {
					pts[i] = [2]int{d / 3, (d % 3) * 2}
				}
				mdsDstCase(t, pts)
			})
		})
	}
}
