// enum.go — the declared case space of the generic engine: for every spec
// row and precision, the product of flags × shapes (one vlib case each) and,
// inside a case, leading dimensions × increments × scalars × fills.
package main

import (
	"fmt"
	"strings"

	"gonum.org/v1/gonum/blas"
	"gonum.org/v1/gonum/internal/verif/vlib"
)

// menus of one tier.
type menus struct {
	sizes    []int // m, n, k of Level 2/3
	sizesL3  []int
	nL1      []int // n of Level 1
	incs     []int
	ldDeltas []int
	realSc   []complex128
	cmplxSc  []complex128
	fills    []fillSpec
	band     func(n int) []int // band widths for an extent n
}

func tierMenus(g *vlib.G) *menus {
	if g.Thorough() {
		return &menus{
			sizes:    []int{0, 1, 2, 3, 4, 5, 7, 8, 9},
			sizesL3:  []int{0, 1, 2, 3, 4, 5, 7, 8, 9},
			nL1:      vlib.Ints(0, 70),
			incs:     []int{1, -1, 2, -2, 3, -3},
			ldDeltas: []int{0, 1, 3},
			realSc:   []complex128{0, 1, -1, 2, 0.5},
			cmplxSc:  []complex128{0, 1, 1i, -1 + 2i, 0.5},
			fills:    []fillSpec{{Pattern: 0, Slack: 0, Finite: false}, {Pattern: 1, Slack: 2, Finite: false}, {Pattern: 2 + uint64(g.Seed&0xffffff), Slack: 2, Finite: true}},
			band:     func(n int) []int { return dedup([]int{0, 1, 2, n - 1, n + 1}) },
		}
	}
	return &menus{
		sizes:    []int{0, 1, 2, 3, 4, 5, 8, 9},
		sizesL3:  []int{0, 1, 2, 3, 4, 5, 8},
		nL1:      vlib.Ints(0, 70),
		incs:     []int{1, -1, 2, -2},
		ldDeltas: []int{0, 2},
		realSc:   []complex128{0, 1, 2, 0.5},
		cmplxSc:  []complex128{0, 1, -1 + 2i, 0.5},
		fills:    []fillSpec{{Pattern: 0, Slack: 0, Finite: false}, {Pattern: 1, Slack: 2, Finite: true}},
		band:     func(n int) []int { return dedup([]int{0, 1, n + 1}) },
	}
}

func dedup(xs []int) []int {
	var out []int
	for _, x := range xs {
		if x < 0 {
			continue
		}
		dup := false
		for _, y := range out {
			dup = dup || y == x
		}
		if !dup {
			out = append(out, x)
		}
	}
	return out
}

func trName(t blas.Transpose) string { return string(rune(t)) }

// caseSpec is one vlib case: a routine, precision, flags and extents.
type caseSpec struct {
	r    *Routine
	p    Prec
	call Call // flags and extents filled in; scalars, Ld, Inc set per sub-call
}

func (cs *caseSpec) key() string {
	var b strings.Builder
	b.WriteString(cs.r.Method(cs.p))
	c := &cs.call
	for _, tok := range cs.r.Args {
		switch tok {
		case "tA":
			fmt.Fprintf(&b, " tA=%c", c.TA)
		case "tB":
			fmt.Fprintf(&b, " tB=%c", c.TB)
		case "uplo":
			fmt.Fprintf(&b, " uplo=%c", c.UL)
		case "diag":
			fmt.Fprintf(&b, " diag=%c", c.DG)
		case "side":
			fmt.Fprintf(&b, " side=%c", c.SD)
		case "m":
			fmt.Fprintf(&b, " m=%d", c.M)
		case "n":
			fmt.Fprintf(&b, " n=%d", c.N)
		case "k":
			fmt.Fprintf(&b, " k=%d", c.K)
		case "kl":
			fmt.Fprintf(&b, " kl=%d", c.KL)
		case "ku":
			fmt.Fprintf(&b, " ku=%d", c.KU)
		}
	}
	return b.String()
}

// enumCases enumerates flags × shapes of row r in precision p.
func enumCases(r *Routine, p Prec, mn *menus, emit func(cs *caseSpec)) {
	one := []int{0}
	trans := func(tok string) []blas.Transpose {
		if r.Has(tok) {
			return r.Trans(p)
		}
		return []blas.Transpose{blas.NoTrans}
	}
	uplos := []blas.Uplo{blas.Upper}
	if r.Has("uplo") {
		uplos = []blas.Uplo{blas.Upper, blas.Lower}
	}
	diags := []blas.Diag{blas.NonUnit}
	if r.Has("diag") {
		diags = []blas.Diag{blas.NonUnit, blas.Unit}
	}
	sides := []blas.Side{blas.Left}
	if r.Has("side") {
		sides = []blas.Side{blas.Left, blas.Right}
	}
	sizes := mn.sizes
	if r.Level == 3 {
		sizes = mn.sizesL3
	}
	if r.Level == 1 {
		sizes = mn.nL1
	}
	dim := func(tok string) []int {
		if r.Has(tok) {
			return sizes
		}
		return one
	}
	bandMenu := func(tok string, extent int) []int {
		if r.Has(tok) {
			return mn.band(extent)
		}
		return one
	}
	for _, sd := range sides {
		for _, ul := range uplos {
			for _, ta := range trans("tA") {
				for _, tb := range trans("tB") {
					for _, dg := range diags {
						for _, m := range dim("m") {
							for _, n := range dim("n") {
								ks := dim("k")
								if r.Level == 2 {
									ks = bandMenu("k", n)
								}
								for _, k := range ks {
									for _, kl := range bandMenu("kl", m) {
										for _, ku := range bandMenu("ku", n) {
											emit(&caseSpec{r: r, p: p, call: Call{R: r, P: p, TA: ta, TB: tb, UL: ul, DG: dg, SD: sd,
												M: m, N: n, K: k, KL: kl, KU: ku}})
										}
									}
								}
							}
						}
					}
				}
			}
		}
	}
}

// scalarSetting assigns the scalar arguments of a sub-call.
type scalarSetting struct {
	desc  string
	apply func(c *Call)
	a, b  complex128 // alpha and beta of the setting (zero for rotm settings)
}

func scalarSettings(r *Routine, p Prec, mn *menus) []scalarSetting {
	if r.Has("P") {
		return rotmSettings(mn)
	}
	menu := func(real bool) []complex128 {
		if p.Complex() && !real {
			return mn.cmplxSc
		}
		return mn.realSc
	}
	alphas, betas := []complex128{1}, []complex128{1}
	hasA, hasB := r.Has("alpha") || r.Has("c"), r.Has("beta") || r.Has("s")
	if hasA {
		alphas = menu(r.AlphaReal)
	}
	if hasB {
		betas = menu(r.BetaReal)
	}
	var out []scalarSetting
	for _, a := range alphas {
		for _, b := range betas {
			a, b := a, b
			d := ""
			if hasA {
				d += fmt.Sprintf(" alpha=%v", a)
			}
			if hasB {
				d += fmt.Sprintf(" beta=%v", b)
			}
			out = append(out, scalarSetting{d, func(c *Call) { c.Alpha, c.Beta = a, b }, a, b})
		}
	}
	return out
}

// rotmSettings: every flag with H patterns from the scalar alphabet; the
// entries of H that the flag declares unused are NaN.
func rotmSettings(mn *menus) []scalarSetting {
	nan := vlib.Poison64(77)
	pats := [][4]float64{{2, -1, 0.5, 1}, {0, 1, -1, 2}, {-1, 0.5, 2, 0}}
	if len(mn.realSc) <= 4 {
		pats = pats[:2]
	}
	var out []scalarSetting
	for _, fl := range []blas.Flag{blas.Identity, blas.Rescaling, blas.OffDiagonal, blas.Diagonal} {
		for _, h := range pats {
			fl, h := fl, h
			switch fl {
			case blas.Identity:
				h = [4]float64{nan, nan, nan, nan}
			case blas.OffDiagonal:
				h[0], h[3] = nan, nan
			case blas.Diagonal:
				h[1], h[2] = nan, nan
			}
			out = append(out, scalarSetting{desc: fmt.Sprintf(" flag=%d H=%v", fl, h), apply: func(c *Call) { c.RotmFlag, c.RotmH = fl, h }})
			if fl == blas.Identity {
				break
			}
		}
	}
	return out
}

// runCase runs all sub-calls of a case.
func runCase(t *vlib.T, cs *caseSpec, mn *menus, inv invoker, reduced bool) {
	r := cs.r
	var st runStats
	settings := scalarSettings(r, cs.p, mn)
	incs := mn.incs
	lds := mn.ldDeltas
	fills := mn.fills
	if reduced { // wrapper groups: a reduced product
		incs = []int{1, 2}
		lds = []int{1}
		fills = []fillSpec{{Pattern: 0, Slack: 0, Finite: false}, {Pattern: 1, Slack: 2, Finite: true}}
		if !r.Has("P") {
			// alpha ∈ {0, one non-zero value} × beta ∈ {0, 1, one other value}
			var keep []scalarSetting
			for _, ss := range settings {
				aOK := ss.a == 0 || ss.a == settings[len(settings)-1].a
				bOK := ss.b == 0 || ss.b == 1 || ss.b == settings[len(settings)-1].b
				if aOK && bOK {
					keep = append(keep, ss)
				}
			}
			settings = keep
		}
	}
	nops := len(r.Ops)
	var vecs, mats []int
	for k := range r.Ops {
		if r.Ops[k].Kind == Vector {
			vecs = append(vecs, k)
		} else if r.Ops[k].Kind.HasLD() {
			mats = append(mats, k)
		}
	}
	incChoices := [][]int{nil}
	switch len(vecs) {
	case 1:
		incChoices = nil
		for _, a := range incs {
			incChoices = append(incChoices, []int{a})
		}
	case 2:
		incChoices = nil
		for _, a := range incs {
			for _, b := range incs {
				if reduced && a == b && a == 1 {
					b = -1 // the wrappers accept negative increments for two-vector routines
				}
				incChoices = append(incChoices, []int{a, b})
			}
		}
	}
	ldVariants := len(lds)
	if len(mats) == 0 {
		ldVariants = 1
	}
	c := cs.call
	c.Ld, c.Inc = make([]int, nops), make([]int, nops)
	for v := 0; v < ldVariants; v++ {
		for j, k := range mats {
			c.Ld[k] = MinLd(&c, k) + lds[(v+j)%len(lds)]
		}
		for _, ic := range incChoices {
			for j, k := range vecs {
				c.Inc[k] = ic[j]
			}
			for _, ss := range settings {
				ss.apply(&c)
				for _, f := range fills {
					if msg := runCall(&c, f, inv, &st); msg != "" {
						sub := fmt.Sprintf("ld=%v inc=%v%s fill=%v", ldList(&c, mats), ic, ss.desc, f)
						if class := findingClass(&c, msg); class != "" {
							t.FailClass(class, "%s [%s]: %s", cs.key(), sub, msg)
						} else {
							t.Failf("%s [%s]: %s", cs.key(), sub, msg)
						}
						t.Detail(map[string]any{"subcall": sub, "message": msg})
						return
					}
				}
			}
		}
	}
	if !reduced {
		if msg, sub := zeroSweep(&c, cs, mn, settings, vecs, mats, inv, &st); msg != "" {
			if class := findingClass(&c, msg); class != "" {
				t.FailClass(class, "%s [%s]: %s", cs.key(), sub, msg)
			} else {
				t.Failf("%s [%s]: %s", cs.key(), sub, msg)
			}
			t.Detail(map[string]any{"subcall": sub, "message": msg})
			return
		}
	}
	t.Count("calls", st.calls)
	t.Count("calls_exact_zero_sweep", st.zeroCalls)
	t.Count("exact_zero_elements_placed", st.exactZeros)
	t.Count("result_elements_compared", st.written)
	t.Count("returned_values_compared", st.retChecked)
	t.Count("slots_checked_bitwise_unchanged", st.unchangedChecked)
	t.Count("poisoned_unaddressed_slots", st.poisonSlots)
	t.Count("finite_sentinel_unaddressed_slots", st.sentinelSlots)
	t.Count("poisoned_write_only_slots", st.writeOnlySlots)
	class := "no-result"
	if st.written > 0 || (st.retChecked > 0 && cs.call.N > 0) {
		class = "single-dependency"
		t.Nontrivial()
	}
	if st.multi {
		class = "multi-dependency"
	}
	t.Outcome(r.Base + "/" + cs.p.String() + ":" + class)
}

// findingClass names the class of a discrepancy that matches one of the
// gonum defects found by this check and since fixed in /repo (see NOTES.md),
// so that a regression is reported under the same class name as the entry in
// known_findings.jsonl; "" for everything else.
func findingClass(c *Call, msg string) string {
	if c.R.Base == "sdsdot" && c.N == 0 && c.Alpha != 0 && strings.HasPrefix(msg, "returned (0+0i)") {
		return "sdsdot-n0-drops-alpha"
	}
	if c.R.Base == "syrk" && !c.P.Complex() && c.UL == blas.Lower && c.TA != blas.NoTrans && c.Beta == 0 && c.Alpha != 0 && strings.Contains(msg, "NaN") {
		return "syrk-lower-trans-beta0-reads-c"
	}
	if c.R.Base == "gemv" && !c.P.Complex() && c.TA != blas.NoTrans && c.Beta == 0 && c.Inc[2] == 1 && strings.HasPrefix(msg, "Y[") && strings.Contains(msg, "must not change: 0(0x0)") {
		return "gemv-trans-beta0-clears-whole-slice"
	}
	if c.R.Base == "ger" && (c.Inc[0] < 0 || c.Inc[1] < 0) {
		return "ger-asm-negative-inc"
	}
	return ""
}

// zeroMasks lists the exact-zero masks of operand k: for a vector the
// single positions first/middle/last and all pairs of them; for a matrix the
// same for its rows and for its columns (pairs only when pairs is set).
func zeroMasks(r *Routine, k int, pairs bool) []*zeroMask {
	sets := [][]int{{0}, {1}, {2}, {0, 1}, {0, 2}, {1, 2}}
	var out []*zeroMask
	if r.Ops[k].Kind == Vector {
		for _, s := range sets {
			out = append(out, &zeroMask{Op: k, Pos: s})
		}
		return out
	}
	if !pairs {
		sets = sets[:3]
	}
	for axis := 0; axis < 2; axis++ {
		for _, s := range sets {
			out = append(out, &zeroMask{Op: k, Axis: axis, Pos: s})
		}
	}
	return out
}

// zeroSweep runs the exact-zero sweep of a case: with all other elements
// non-zero, exact zeros are placed at single positions and pairs of
// positions of every vector operand and in rows and columns of every matrix
// operand (one operand at a time), for increments of both signs, one
// non-trivial alpha and beta ∈ {0, one other value}, the first ld variant, the
// guard mode and slice slack alternating from mask to mask. Many routines
// skip work for x[j] == 0, y[j] == 0 or alpha*x[j] == 0; the random fills
// rarely put an exact 0+0i in the middle of a complex vector.
func zeroSweep(c *Call, cs *caseSpec, mn *menus, settings []scalarSetting, vecs, mats []int, inv invoker, st *runStats) (msg, sub string) {
	r := cs.r
	var use []scalarSetting
	if r.Has("P") {
		for i := 1; i < len(settings); i += 2 {
			use = append(use, settings[i])
		}
	} else {
		last := settings[len(settings)-1]
		for _, ss := range settings {
			if ss.a == last.a && (ss.b == last.b || ss.b == 0) {
				use = append(use, ss)
			}
		}
	}
	incChoices := [][]int{nil}
	switch len(vecs) {
	case 1:
		incChoices = [][]int{{1}, {-2}}
	case 2:
		incChoices = [][]int{{1, 1}, {1, -2}, {-2, 1}, {-1, -2}}
	}
	for j, k := range mats {
		c.Ld[k] = MinLd(c, k) + mn.ldDeltas[j%len(mn.ldDeltas)]
	}
	hasBeta := r.Has("beta")
	pairs := len(mn.fills) > 2 // thorough
	nmask := 0
	for _, ic := range incChoices {
		for j, k := range vecs {
			c.Inc[k] = ic[j]
		}
		for _, ss := range use {
			ss.apply(c)
			for k := range r.Ops {
				if hasBeta && r.Ops[k].Access == InOut && c.Beta == 0 {
					continue // write-only operand: holds no values
				}
				seen := map[string]bool{}
				for _, z := range zeroMasks(r, k, pairs) {
					extent := r.Ops[k].Rows(c)
					if z.Axis == 1 {
						extent = r.Ops[k].Cols(c)
					}
					key := fmt.Sprint(z.Axis, z.resolve(extent))
					if len(z.resolve(extent)) == 0 || seen[key] {
						continue // empty operand, or the same zeros as an earlier mask
					}
					seen[key] = true
					nmask++
					fs := fillSpec{Pattern: 7, Slack: 2 * (nmask / 2 % 2), Finite: nmask%2 == 1, Zero: z}
					calls := st.calls
					m := runCall(c, fs, inv, st)
					st.zeroCalls += st.calls - calls
					if m != "" {
						return m, fmt.Sprintf("ld=%v inc=%v%s fill=%v", ldList(c, mats), ic, ss.desc, fs)
					}
				}
			}
		}
	}
	return "", ""
}

func ldList(c *Call, mats []int) []int {
	var out []int
	for _, k := range mats {
		out = append(out, c.Ld[k])
	}
	return out
}

// genLevel returns the generator of the generic engine for one BLAS level.
func genLevel(level int) func(g *vlib.G) {
	return func(g *vlib.G) {
		mn := tierMenus(g)
		inv := methodInvoker(implValue)
		for _, r := range Routines {
			if r.Level != level || r.Special {
				continue
			}
			for _, p := range Precs {
				if r.Method(p) == "" {
					continue
				}
				enumCases(r, p, mn, func(cs *caseSpec) {
					g.Case(cs.key(), func(t *vlib.T) { runCase(t, cs, mn, inv, false) })
				})
				if g.Stopped() {
					return
				}
			}
		}
	}
}
