// formulas.go — the defining formula of every spec row, written in the
// dumbest possible way over the abstract accessors Mat.At/Set and Vec.At/Set.
// All arithmetic is complex128 on the exact alphabets, hence exact.
//
// Conventions taken from the reference BLAS / gonum documentation:
//   - beta == 0 means the result operand is not read ("need not be set on entry").
//   - gemv/gbmv return immediately when m == 0 or n == 0 (y is not scaled).
//   - one-vector Level 1 routines with incX < 0: asum returns 0, iamax returns
//     -1, scal has no effect.
package main

import (
	"fmt"
	"math"

	"gonum.org/v1/gonum/blas"
)

// scaled returns beta·v(), or 0 without evaluating v when beta == 0.
func scaled(beta complex128, v func() complex128) complex128 {
	if beta == 0 {
		return 0
	}
	return beta * v()
}

func cabs1(v complex128) float64 { return math.Abs(real(v)) + math.Abs(imag(v)) }

// ---- Level 1 ----

func refDotu(c *Ctx) {
	var s complex128
	for i := 0; i < c.N; i++ {
		s += c.X.At(i) * c.Y.At(i)
	}
	c.Ret = s
}

func refDotc(c *Ctx) {
	var s complex128
	for i := 0; i < c.N; i++ {
		s += conj(c.X.At(i)) * c.Y.At(i)
	}
	c.Ret = s
}

func refSdsdot(c *Ctx) {
	s := c.Alpha
	for i := 0; i < c.N; i++ {
		s += c.X.At(i) * c.Y.At(i)
	}
	c.Ret = s
}

func refAsum(c *Ctx) {
	c.Ret = 0
	if c.Inc[0] < 0 {
		return
	}
	var s float64
	for i := 0; i < c.N; i++ {
		s += cabs1(c.X.At(i))
	}
	c.Ret = complex(s, 0)
}

func refIamax(c *Ctx) {
	c.RetIdx = -1
	if c.Inc[0] < 0 {
		return
	}
	best := -1.0
	for i := 0; i < c.N; i++ {
		if a := cabs1(c.X.At(i)); a > best {
			best, c.RetIdx = a, i
		}
	}
}

func refSwap(c *Ctx) {
	for i := 0; i < c.N; i++ {
		x, y := c.X.At(i), c.Y.At(i)
		c.X.Set(i, y)
		c.Y.Set(i, x)
	}
}

func refCopy(c *Ctx) {
	for i := 0; i < c.N; i++ {
		c.Y.Set(i, c.X.At(i))
	}
}

func refAxpy(c *Ctx) {
	for i := 0; i < c.N; i++ {
		c.Y.Set(i, c.Y.At(i)+c.Alpha*c.X.At(i))
	}
}

func refScal(c *Ctx) {
	if c.Inc[0] < 0 {
		return
	}
	for i := 0; i < c.N; i++ {
		c.X.Set(i, c.Alpha*c.X.At(i))
	}
}

func refRot(c *Ctx) {
	cs, sn := c.Alpha, c.Beta
	for i := 0; i < c.N; i++ {
		x, y := c.X.At(i), c.Y.At(i)
		c.X.Set(i, cs*x+sn*y)
		c.Y.Set(i, cs*y-sn*x)
	}
}

// refRotm applies H = [h11 h12; h21 h22] (column-major in RotmH) where the
// flag fixes some entries: -2: H = I; -1: all four given; 0: h11 = h22 = 1;
// 1: h12 = 1, h21 = -1.
func refRotm(c *Ctx) {
	h11, h21, h12, h22 := c.RotmH[0], c.RotmH[1], c.RotmH[2], c.RotmH[3]
	switch c.RotmFlag {
	case blas.Identity:
		return
	case blas.Rescaling:
	case blas.OffDiagonal:
		h11, h22 = 1, 1
	case blas.Diagonal:
		h12, h21 = 1, -1
	default:
		panic("harness: bad rotm flag")
	}
	for i := 0; i < c.N; i++ {
		x, y := real(c.X.At(i)), real(c.Y.At(i))
		c.X.Set(i, complex(h11*x+h12*y, 0))
		c.Y.Set(i, complex(h21*x+h22*y, 0))
	}
}

// ---- Level 2 ----

// refGemv: y = alpha·op(A)·x + beta·y (gemv, gbmv).
func refGemv(c *Ctx) {
	if c.M == 0 || c.N == 0 {
		return // reference BLAS quick return: y is left alone
	}
	a, rows, cols := opOf(c.A, c.TA)
	for i := 0; i < rows; i++ {
		var s complex128
		for j := 0; j < cols; j++ {
			s += a(i, j) * c.X.At(j)
		}
		i := i
		c.Y.Set(i, c.Alpha*s+scaled(c.Beta, func() complex128 { return c.Y.At(i) }))
	}
}

// refSymv: y = alpha·A·x + beta·y with A symmetric or Hermitian (any storage).
func refSymv(c *Ctx) {
	for i := 0; i < c.N; i++ {
		var s complex128
		for j := 0; j < c.N; j++ {
			s += c.A.At(i, j) * c.X.At(j)
		}
		i := i
		c.Y.Set(i, c.Alpha*s+scaled(c.Beta, func() complex128 { return c.Y.At(i) }))
	}
}

// refTrmv: x = op(A)·x with A triangular (any storage).
func refTrmv(c *Ctx) {
	a, n, _ := opOf(c.A, c.TA)
	for i := 0; i < n; i++ {
		var s complex128
		for j := 0; j < n; j++ {
			s += a(i, j) * c.X.At(j)
		}
		c.X.Set(i, s)
	}
}

// solveTri solves T·x = b for an n×n triangular T given by its accessor
// (lower says which triangle is non-zero) by substitution, and verifies the
// solution exactly.
func solveTri(t func(i, j int) complex128, n int, lower bool, b []complex128) []complex128 {
	x := make([]complex128, n)
	for ii := 0; ii < n; ii++ {
		i := ii
		if !lower {
			i = n - 1 - ii
		}
		s := b[i]
		for j := 0; j < n; j++ {
			if j != i {
				s -= t(i, j) * x[j] // x[j] is still zero for the unknowns not yet computed
			}
		}
		x[i] = s / t(i, i)
	}
	for i := 0; i < n; i++ {
		var s complex128
		for j := 0; j < n; j++ {
			s += t(i, j) * x[j]
		}
		if s != b[i] {
			panic(fmt.Sprintf("harness: triangular reference solve is not exact: row %d gives %v, want %v", i, s, b[i]))
		}
	}
	return x
}

// effLower reports whether op(A) is lower triangular.
func effLower(c *Ctx) bool { return (c.UL == blas.Lower) == (c.TA == blas.NoTrans) }

// prepTrsv replaces the right-hand side by b = op(A)·x_true, x_true being the
// integer fill of x, so that the solution is exactly representable.
func prepTrsv(c *Ctx) {
	a, n, _ := opOf(c.A, c.TA)
	b := make([]complex128, n)
	for i := 0; i < n; i++ {
		for j := 0; j < n; j++ {
			b[i] += a(i, j) * c.X.At(j)
		}
	}
	for i := 0; i < n; i++ {
		c.X.o.in[c.X.o.pos(i, 0)] = b[i]
	}
}

// refTrsv: x = op(A)⁻¹·b.
func refTrsv(c *Ctx) {
	a, n, _ := opOf(c.A, c.TA)
	b := make([]complex128, n)
	for i := range b {
		b[i] = c.X.At(i)
	}
	x := solveTri(a, n, effLower(c), b)
	for i := range x {
		c.X.Set(i, x[i])
	}
}

// refGeru: A += alpha·x·yᵀ.
func refGeru(c *Ctx) {
	for i := 0; i < c.M; i++ {
		for j := 0; j < c.N; j++ {
			c.A.Set(i, j, c.A.At(i, j)+c.Alpha*c.X.At(i)*c.Y.At(j))
		}
	}
}

// refGerc: A += alpha·x·yᴴ.
func refGerc(c *Ctx) {
	for i := 0; i < c.M; i++ {
		for j := 0; j < c.N; j++ {
			c.A.Set(i, j, c.A.At(i, j)+c.Alpha*c.X.At(i)*conj(c.Y.At(j)))
		}
	}
}

// overStored calls f for every addressed element of the n×n operand m.
func overStored(m Mat, f func(i, j int)) {
	for i := 0; i < m.Rows(); i++ {
		for j := 0; j < m.Cols(); j++ {
			if m.Stored(i, j) {
				f(i, j)
			}
		}
	}
}

// refSyr: A += alpha·x·xᵀ on the stored triangle.
func refSyr(c *Ctx) {
	overStored(c.A, func(i, j int) {
		c.A.Set(i, j, c.A.At(i, j)+c.Alpha*c.X.At(i)*c.X.At(j))
	})
}

// refHer: A += alpha·x·xᴴ on the stored triangle (alpha real).
func refHer(c *Ctx) {
	overStored(c.A, func(i, j int) {
		c.A.Set(i, j, c.A.At(i, j)+c.Alpha*c.X.At(i)*conj(c.X.At(j)))
	})
}

// refSyr2: A += alpha·x·yᵀ + alpha·y·xᵀ on the stored triangle.
func refSyr2(c *Ctx) {
	overStored(c.A, func(i, j int) {
		c.A.Set(i, j, c.A.At(i, j)+c.Alpha*c.X.At(i)*c.Y.At(j)+c.Alpha*c.Y.At(i)*c.X.At(j))
	})
}

// refHer2: A += alpha·x·yᴴ + conj(alpha)·y·xᴴ on the stored triangle.
func refHer2(c *Ctx) {
	overStored(c.A, func(i, j int) {
		c.A.Set(i, j, c.A.At(i, j)+c.Alpha*c.X.At(i)*conj(c.Y.At(j))+conj(c.Alpha)*c.Y.At(i)*conj(c.X.At(j)))
	})
}

// ---- Level 3 ----

// refGemm: C = alpha·op(A)·op(B) + beta·C.
func refGemm(c *Ctx) {
	a, _, _ := opOf(c.A, c.TA)
	b, _, _ := opOf(c.B, c.TB)
	for i := 0; i < c.M; i++ {
		for j := 0; j < c.N; j++ {
			var s complex128
			for l := 0; l < c.K; l++ {
				s += a(i, l) * b(l, j)
			}
			i, j := i, j
			c.C.Set(i, j, c.Alpha*s+scaled(c.Beta, func() complex128 { return c.C.At(i, j) }))
		}
	}
}

// refSymm: C = alpha·A·B + beta·C (Left) or alpha·B·A + beta·C (Right), A symmetric or Hermitian.
func refSymm(c *Ctx) {
	for i := 0; i < c.M; i++ {
		for j := 0; j < c.N; j++ {
			var s complex128
			if c.SD == blas.Left {
				for l := 0; l < c.M; l++ {
					s += c.A.At(i, l) * c.B.At(l, j)
				}
			} else {
				for l := 0; l < c.N; l++ {
					s += c.B.At(i, l) * c.A.At(l, j)
				}
			}
			i, j := i, j
			c.C.Set(i, j, c.Alpha*s+scaled(c.Beta, func() complex128 { return c.C.At(i, j) }))
		}
	}
}

// flip returns the transpose (or conjugate transpose) of an accessor.
func flip(a func(i, j int) complex128, conjugate bool) func(i, j int) complex128 {
	if conjugate {
		return func(i, j int) complex128 { return conj(a(j, i)) }
	}
	return func(i, j int) complex128 { return a(j, i) }
}

// rankK computes, for the stored triangle of C,
//
//	C = alpha·P·Qᵗ + alpha2·Q'·P'ᵗ... in the general form
//	C(i,j) = alpha·Σ_l p(i,l)·qt(l,j) [+ alpha2·Σ_l q(i,l)·pt(l,j)] + beta·C(i,j)
//
// where p, q are n×k and pt, qt their (conjugate) transposes.
func rankK(c *Ctx, alpha, alpha2 complex128, p, qt, q, pt func(i, j int) complex128) {
	overStored(c.C, func(i, j int) {
		var s complex128
		for l := 0; l < c.K; l++ {
			s += alpha * p(i, l) * qt(l, j)
			if q != nil {
				s += alpha2 * q(i, l) * pt(l, j)
			}
		}
		c.C.Set(i, j, s+scaled(c.Beta, func() complex128 { return c.C.At(i, j) }))
	})
}

// nk returns the n×k factor op'(M): M itself for NoTrans, else its
// (conjugate) transpose.
func nk(m Mat, t blas.Transpose, conjugate bool) func(i, j int) complex128 {
	if t == blas.NoTrans {
		return m.At
	}
	return flip(m.At, conjugate)
}

// refSyrk: C = alpha·A·Aᵀ + beta·C (NoTrans) or alpha·Aᵀ·A + beta·C.
func refSyrk(c *Ctx) {
	p := nk(c.A, c.TA, false)
	rankK(c, c.Alpha, 0, p, flip(p, false), nil, nil)
}

// refHerk: C = alpha·A·Aᴴ + beta·C (NoTrans) or alpha·Aᴴ·A + beta·C.
func refHerk(c *Ctx) {
	p := nk(c.A, c.TA, true)
	rankK(c, c.Alpha, 0, p, flip(p, true), nil, nil)
}

// refSyr2k: C = alpha·A·Bᵀ + alpha·B·Aᵀ + beta·C (NoTrans) or alpha·Aᵀ·B + alpha·Bᵀ·A + beta·C.
func refSyr2k(c *Ctx) {
	p, q := nk(c.A, c.TA, false), nk(c.B, c.TA, false)
	rankK(c, c.Alpha, c.Alpha, p, flip(q, false), q, flip(p, false))
}

// refHer2k: C = alpha·A·Bᴴ + conj(alpha)·B·Aᴴ + beta·C (NoTrans) or alpha·Aᴴ·B + conj(alpha)·Bᴴ·A + beta·C.
func refHer2k(c *Ctx) {
	p, q := nk(c.A, c.TA, true), nk(c.B, c.TA, true)
	rankK(c, c.Alpha, conj(c.Alpha), p, flip(q, true), q, flip(p, true))
}

// refTrmm: B = alpha·op(A)·B (Left) or alpha·B·op(A) (Right).
func refTrmm(c *Ctx) {
	a, _, _ := opOf(c.A, c.TA)
	for i := 0; i < c.M; i++ {
		for j := 0; j < c.N; j++ {
			var s complex128
			if c.SD == blas.Left {
				for l := 0; l < c.M; l++ {
					s += a(i, l) * c.B.At(l, j)
				}
			} else {
				for l := 0; l < c.N; l++ {
					s += c.B.At(i, l) * a(l, j)
				}
			}
			c.B.Set(i, j, c.Alpha*s)
		}
	}
}

// prepTrsm replaces B by op(A)·X_true (Left) or X_true·op(A) (Right), X_true
// being the integer fill of B; the solution is then alpha·X_true exactly.
func prepTrsm(c *Ctx) {
	a, _, _ := opOf(c.A, c.TA)
	nb := make([]complex128, c.M*c.N)
	for i := 0; i < c.M; i++ {
		for j := 0; j < c.N; j++ {
			var s complex128
			if c.SD == blas.Left {
				for l := 0; l < c.M; l++ {
					s += a(i, l) * c.B.At(l, j)
				}
			} else {
				for l := 0; l < c.N; l++ {
					s += c.B.At(i, l) * a(l, j)
				}
			}
			nb[i*c.N+j] = s
		}
	}
	for i := 0; i < c.M; i++ {
		for j := 0; j < c.N; j++ {
			c.B.o.in[c.B.o.pos(i, j)] = nb[i*c.N+j]
		}
	}
}

// refTrsm: X with op(A)·X = alpha·B (Left) or X·op(A) = alpha·B (Right).
func refTrsm(c *Ctx) {
	a, _, _ := opOf(c.A, c.TA)
	if c.SD == blas.Left {
		// column j of X solves op(A)·x = alpha·B(:,j)
		for j := 0; j < c.N; j++ {
			b := make([]complex128, c.M)
			for i := range b {
				b[i] = c.Alpha * c.B.At(i, j)
			}
			x := solveTri(a, c.M, effLower(c), b)
			for i := range x {
				c.B.Set(i, j, x[i])
			}
		}
		return
	}
	// row i of X solves x·op(A) = alpha·B(i,:), i.e. op(A)ᵀ·xᵀ = alpha·B(i,:)ᵀ
	at := flip(a, false)
	for i := 0; i < c.M; i++ {
		b := make([]complex128, c.N)
		for j := range b {
			b[j] = c.Alpha * c.B.At(i, j)
		}
		x := solveTri(at, c.N, !effLower(c), b)
		for j := range x {
			c.B.Set(i, j, x[j])
		}
	}
}
