// gemm.go — the blocked/parallel Sgemm and Dgemm paths: (a) the "blocksize"
// seam shrinks the 64×64 block to 2 or 3 so that tiny shapes exercise the
// block partition and its edge clipping exhaustively through the generic
// engine; (b) stock block size with shapes around the 64/128/192 block edges,
// checked against a plain triple loop.
package main

import (
	"fmt"

	"gonum.org/v1/gonum/blas"
	"gonum.org/v1/gonum/blas/gonum"
	"gonum.org/v1/gonum/internal/verif/vhook"
	"gonum.org/v1/gonum/internal/verif/vlib"
)

// genGemmBlock: Sgemm/Dgemm with blockSize ∈ {2,3}.
func genGemmBlock(g *vlib.G) {
	mn := *tierMenus(g)
	mn.sizesL3 = vlib.Ints(0, vlib.Pick(g, 5, 7))
	if !g.Thorough() {
		mn.ldDeltas = []int{1}
	}
	r := RoutineByBase("gemm")
	inv := methodInvoker(implValue)
	for _, bs := range []int{2, 3} {
		for _, p := range []Prec{S, D} {
			bs := bs
			enumCases(r, p, &mn, func(cs *caseSpec) {
				if !g.Thorough() && (cs.call.TA == blas.ConjTrans || cs.call.TB == blas.ConjTrans) {
					return
				}
				g.Case(fmt.Sprintf("bs=%d %s", bs, cs.key()), func(t *vlib.T) {
					vhook.SetBlockSize(bs)
					defer vhook.SetBlockSize(0)
					runCase(t, cs, &mn, inv, false)
				})
			})
		}
	}
}

// gmat is a poisoned general matrix in a typed store.
type gmat struct {
	st       *store
	r, c, ld int
	n        int
}

// newGmat allocates an r×c matrix with stride ld carved from a poisoned
// array (NaN poison, or finite sentinels if finite); val == nil makes the
// elements NaN (write-only operand).
func newGmat(p Prec, r, c, ld, id int, finite bool, val func(i, j int) float64) *gmat {
	m := &gmat{r: r, c: c, ld: ld}
	if r > 0 && c > 0 {
		m.n = (r-1)*ld + c
	}
	total := padPre + m.n + padCap + padPost
	m.st = newStore(p, total)
	for i := 0; i < total; i++ {
		m.st.fillGuard(i, id*20000+i, finite)
	}
	if val == nil { // write-only elements are NaN in both guard modes
		for i := 0; i < r; i++ {
			for j := 0; j < c; j++ {
				m.st.setPoison(padPre+i*ld+j, id*20000+i*ld+j)
			}
		}
	}
	if val != nil {
		for i := 0; i < r; i++ {
			for j := 0; j < c; j++ {
				m.st.setVal(padPre+i*ld+j, complex(val(i, j), 0))
			}
		}
	}
	m.st.snap()
	return m
}

func (m *gmat) f64() []float64 { return m.st.f64[padPre : padPre+m.n : padPre+m.n+padCap] }
func (m *gmat) f32() []float32 { return m.st.f32[padPre : padPre+m.n : padPre+m.n+padCap] }

// smallInt is the fill of the big-gemm operands.
func smallInt(f uint64, k, i, j int) float64 {
	return real(fillValue(f, k, i*1031+j, false))
}

// genGemmBig: stock block size, shapes around the block edges.
func genGemmBig(g *vlib.G) {
	type mnPair struct{ m, n int }
	var shapes []mnPair
	var ks []int
	if g.Thorough() {
		e := []int{63, 64, 65, 127, 128, 129, 192, 193}
		for _, m := range e {
			for _, n := range e {
				shapes = append(shapes, mnPair{m, n})
			}
		}
		shapes = append(shapes, mnPair{1, 193}, mnPair{193, 1}, mnPair{1, 129}, mnPair{129, 2})
		ks = []int{1, 3, 65}
	} else {
		for _, m := range []int{63, 65, 129} {
			for _, n := range []int{64, 65, 128} {
				shapes = append(shapes, mnPair{m, n})
			}
		}
		shapes = append(shapes, mnPair{1, 193})
		ks = []int{3, 65}
	}
	scal := []float64{0, 1, -1, 2, 0.5}
	type ab struct{ a, b float64 }
	var abs []ab
	if g.Thorough() {
		for _, a := range scal {
			for _, b := range scal {
				abs = append(abs, ab{a, b})
			}
		}
	} else {
		abs = []ab{{1, 0}, {2, 1}, {0, 2}, {-1, 0.5}}
	}
	lds := vlib.Pick(g, []int{0, 2}, []int{0, 1, 3})
	tr := []blas.Transpose{blas.NoTrans, blas.Trans}
	impl := gonum.Implementation{}
	for _, sh := range shapes {
		for _, k := range ks {
			for _, tA := range tr {
				for _, tB := range tr {
					m, n, k, tA, tB := sh.m, sh.n, k, tA, tB
					g.Case(fmt.Sprintf("gemm tA=%c tB=%c m=%d n=%d k=%d", tA, tB, m, n, k), func(t *vlib.T) {
						const fill = 5
						ar, ac := m, k
						if tA != blas.NoTrans {
							ar, ac = k, m
						}
						br, bc := k, n
						if tB != blas.NoTrans {
							br, bc = n, k
						}
						av := func(i, j int) float64 { return smallInt(fill, 0, i, j) }
						bv := func(i, j int) float64 { return smallInt(fill, 1, i, j) }
						cv := func(i, j int) float64 { return smallInt(fill, 2, i, j) }
						// P = op(A)·op(B) by the plain triple loop.
						prod := make([]float64, m*n)
						for i := 0; i < m; i++ {
							for j := 0; j < n; j++ {
								var s float64
								for l := 0; l < k; l++ {
									var x, y float64
									if tA == blas.NoTrans {
										x = av(i, l)
									} else {
										x = av(l, i)
									}
									if tB == blas.NoTrans {
										y = bv(l, j)
									} else {
										y = bv(j, l)
									}
									s += x * y
								}
								prod[i*n+j] = s
							}
						}
						var calls, compared, unchanged int64
						for v, d := range lds {
							for si, s := range abs {
								// guard mode alternates so that every (alpha,beta) pair and
								// every ld variant is run under NaN poison and under finite sentinels
								finite := (v+si)%2 == 1
								for _, p := range []Prec{S, D} {
									lda, ldb, ldc := imax(1, ac)+d, imax(1, bc)+lds[(v+1)%len(lds)], imax(1, n)+lds[(v+2)%len(lds)]
									A := newGmat(p, ar, ac, lda, 0, finite, av)
									B := newGmat(p, br, bc, ldb, 1, finite, bv)
									var C *gmat
									if s.b == 0 {
										C = newGmat(p, m, n, ldc, 2, finite, nil)
									} else {
										C = newGmat(p, m, n, ldc, 2, finite, cv)
									}
									if p == D {
										impl.Dgemm(tA, tB, m, n, k, s.a, A.f64(), lda, B.f64(), ldb, s.b, C.f64(), ldc)
									} else {
										impl.Sgemm(tA, tB, m, n, k, float32(s.a), A.f32(), lda, B.f32(), ldb, float32(s.b), C.f32(), ldc)
									}
									calls++
									sub := fmt.Sprintf("%cgemm lda=%d ldb=%d ldc=%d alpha=%v beta=%v finite-guards=%v", "SD"[p], lda, ldb, ldc, s.a, s.b, finite)
									for _, X := range []*gmat{A, B} {
										if i := X.st.firstChanged(0, X.st.n); i >= 0 {
											t.Failf("[%s] read-only operand written at backing index %d: %s", sub, i-padPre, X.st.show(i))
											return
										}
										unchanged += int64(X.st.n)
									}
									for q := 0; q < C.st.n; q++ {
										pp := q - padPre
										i, j := -1, -1
										if pp >= 0 && pp < C.n {
											i, j = pp/ldc, pp%ldc
										}
										if i >= 0 && j < n {
											want := s.a * prod[i*n+j]
											if s.b != 0 {
												want += s.b * cv(i, j)
											}
											compared++
											if got := real(C.st.get(q)); !(got == want) {
												t.Failf("[%s] C(%d,%d) = %v, want %v", sub, i, j, got, want)
												return
											}
											continue
										}
										unchanged++
										if !C.st.unchanged(q) {
											t.Failf("[%s] C backing index %d (padding) was written: %s", sub, pp, C.st.show(q))
											return
										}
									}
								}
							}
						}
						t.Count("calls", calls)
						t.Count("result_elements_compared", compared)
						t.Count("slots_checked_bitwise_unchanged", unchanged)
						par := "serial"
						if ((m+63)/64)*((n+63)/64) >= 4 {
							par = "block-parallel"
						}
						t.Outcome("gemm-big:" + par)
						t.Nontrivial()
					})
				}
			}
		}
	}
}
