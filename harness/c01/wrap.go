// wrap.go — the struct wrappers blas32, blas64, cblas64, cblas128: the same
// spec rows and oracle, called through the wrapper functions on a reduced
// product. Arguments are assembled by reflection from the parameter types:
// flags and scalars in the order of Routine.Args, one struct per operand.
package main

import (
	"fmt"
	"math"
	"reflect"

	"gonum.org/v1/gonum/blas/blas32"
	"gonum.org/v1/gonum/blas/blas64"
	"gonum.org/v1/gonum/blas/cblas128"
	"gonum.org/v1/gonum/blas/cblas64"
	"gonum.org/v1/gonum/internal/verif/vlib"
)

// wrappers[p][name] is the wrapper function of precision p.
var wrappers = [4]map[string]any{
	S: {
		"Dot": blas32.Dot, "DDot": blas32.DDot, "SDDot": blas32.SDDot, "Nrm2": blas32.Nrm2, "Asum": blas32.Asum,
		"Iamax": blas32.Iamax, "Swap": blas32.Swap, "Copy": blas32.Copy, "Axpy": blas32.Axpy, "Rotg": blas32.Rotg,
		"Rotmg": blas32.Rotmg, "Rot": blas32.Rot, "Rotm": blas32.Rotm, "Scal": blas32.Scal,
		"Gemv": blas32.Gemv, "Gbmv": blas32.Gbmv, "Trmv": blas32.Trmv, "Tbmv": blas32.Tbmv, "Tpmv": blas32.Tpmv,
		"Trsv": blas32.Trsv, "Tbsv": blas32.Tbsv, "Tpsv": blas32.Tpsv, "Symv": blas32.Symv, "Sbmv": blas32.Sbmv,
		"Spmv": blas32.Spmv, "Ger": blas32.Ger, "Syr": blas32.Syr, "Spr": blas32.Spr, "Syr2": blas32.Syr2, "Spr2": blas32.Spr2,
		"Gemm": blas32.Gemm, "Symm": blas32.Symm, "Syrk": blas32.Syrk, "Syr2k": blas32.Syr2k, "Trmm": blas32.Trmm, "Trsm": blas32.Trsm,
	},
	D: {
		"Dot": blas64.Dot, "Nrm2": blas64.Nrm2, "Asum": blas64.Asum,
		"Iamax": blas64.Iamax, "Swap": blas64.Swap, "Copy": blas64.Copy, "Axpy": blas64.Axpy, "Rotg": blas64.Rotg,
		"Rotmg": blas64.Rotmg, "Rot": blas64.Rot, "Rotm": blas64.Rotm, "Scal": blas64.Scal,
		"Gemv": blas64.Gemv, "Gbmv": blas64.Gbmv, "Trmv": blas64.Trmv, "Tbmv": blas64.Tbmv, "Tpmv": blas64.Tpmv,
		"Trsv": blas64.Trsv, "Tbsv": blas64.Tbsv, "Tpsv": blas64.Tpsv, "Symv": blas64.Symv, "Sbmv": blas64.Sbmv,
		"Spmv": blas64.Spmv, "Ger": blas64.Ger, "Syr": blas64.Syr, "Spr": blas64.Spr, "Syr2": blas64.Syr2, "Spr2": blas64.Spr2,
		"Gemm": blas64.Gemm, "Symm": blas64.Symm, "Syrk": blas64.Syrk, "Syr2k": blas64.Syr2k, "Trmm": blas64.Trmm, "Trsm": blas64.Trsm,
	},
	C: {
		"Dotu": cblas64.Dotu, "Dotc": cblas64.Dotc, "Nrm2": cblas64.Nrm2, "Asum": cblas64.Asum, "Iamax": cblas64.Iamax,
		"Swap": cblas64.Swap, "Copy": cblas64.Copy, "Axpy": cblas64.Axpy, "Scal": cblas64.Scal, "Dscal": cblas64.Dscal,
		"Gemv": cblas64.Gemv, "Gbmv": cblas64.Gbmv, "Trmv": cblas64.Trmv, "Tbmv": cblas64.Tbmv, "Tpmv": cblas64.Tpmv,
		"Trsv": cblas64.Trsv, "Tbsv": cblas64.Tbsv, "Tpsv": cblas64.Tpsv, "Hemv": cblas64.Hemv, "Hbmv": cblas64.Hbmv,
		"Hpmv": cblas64.Hpmv, "Geru": cblas64.Geru, "Gerc": cblas64.Gerc, "Her": cblas64.Her, "Hpr": cblas64.Hpr,
		"Her2": cblas64.Her2, "Hpr2": cblas64.Hpr2,
		"Gemm": cblas64.Gemm, "Symm": cblas64.Symm, "Syrk": cblas64.Syrk, "Syr2k": cblas64.Syr2k, "Trmm": cblas64.Trmm,
		"Trsm": cblas64.Trsm, "Hemm": cblas64.Hemm, "Herk": cblas64.Herk, "Her2k": cblas64.Her2k,
	},
	Z: {
		"Dotu": cblas128.Dotu, "Dotc": cblas128.Dotc, "Nrm2": cblas128.Nrm2, "Asum": cblas128.Asum, "Iamax": cblas128.Iamax,
		"Swap": cblas128.Swap, "Copy": cblas128.Copy, "Axpy": cblas128.Axpy, "Scal": cblas128.Scal, "Dscal": cblas128.Dscal,
		"Gemv": cblas128.Gemv, "Gbmv": cblas128.Gbmv, "Trmv": cblas128.Trmv, "Tbmv": cblas128.Tbmv, "Tpmv": cblas128.Tpmv,
		"Trsv": cblas128.Trsv, "Tbsv": cblas128.Tbsv, "Tpsv": cblas128.Tpsv, "Hemv": cblas128.Hemv, "Hbmv": cblas128.Hbmv,
		"Hpmv": cblas128.Hpmv, "Geru": cblas128.Geru, "Gerc": cblas128.Gerc, "Her": cblas128.Her, "Hpr": cblas128.Hpr,
		"Her2": cblas128.Her2, "Hpr2": cblas128.Hpr2,
		"Gemm": cblas128.Gemm, "Symm": cblas128.Symm, "Syrk": cblas128.Syrk, "Syr2k": cblas128.Syr2k, "Trmm": cblas128.Trmm,
		"Trsm": cblas128.Trsm, "Hemm": cblas128.Hemm, "Herk": cblas128.Herk, "Her2k": cblas128.Her2k,
	},
}

// wrapperInvoker calls the wrapper function of the row.
func wrapperInvoker() invoker {
	return func(c *Call, ops []*opInst) []reflect.Value {
		f, ok := wrappers[c.P][c.R.Wrapper]
		if !ok {
			panic(fmt.Sprintf("harness: no wrapper %s for precision %v", c.R.Wrapper, c.P))
		}
		fv := reflect.ValueOf(f)
		ft := fv.Type()
		in := make([]reflect.Value, ft.NumIn())
		// queues in the order of Routine.Args
		var trans []reflect.Value
		var scalarToks []string
		for _, tok := range c.R.Args {
			switch tok {
			case "tA":
				trans = append(trans, reflect.ValueOf(c.TA))
			case "tB":
				trans = append(trans, reflect.ValueOf(c.TB))
			case "alpha", "c", "beta", "s":
				scalarToks = append(scalarToks, tok)
			}
		}
		nextOp := 0
		opOrder := []int{}
		for _, tok := range c.R.Args {
			if k := c.R.Op(tok); k >= 0 {
				opOrder = append(opOrder, k)
			}
		}
		for i := range in {
			pt := ft.In(i)
			switch {
			case pt == tyTranspose:
				in[i], trans = trans[0], trans[1:]
			case pt == tySide:
				in[i] = reflect.ValueOf(c.SD)
			case pt.Kind() == reflect.Int:
				in[i] = reflect.ValueOf(c.N)
			case pt.Kind() == reflect.Float32 || pt.Kind() == reflect.Float64 || pt.Kind() == reflect.Complex64 || pt.Kind() == reflect.Complex128:
				tok := scalarToks[0]
				scalarToks = scalarToks[1:]
				v := c.Alpha
				if tok == "beta" || tok == "s" {
					v = c.Beta
				}
				in[i] = scalarValue(v, pt)
			case pt.Kind() == reflect.Struct && pt.Name()[1:] == "rotmParams":
				in[i] = rotmValue(c, pt)
			case pt.Kind() == reflect.Struct:
				o := ops[opOrder[nextOp]]
				nextOp++
				in[i] = operandStruct(c, o, pt)
			default:
				panic(fmt.Sprintf("harness: wrapper %s parameter %d of type %v", c.R.Wrapper, i, pt))
			}
		}
		if nextOp != len(opOrder) || len(trans) != 0 || len(scalarToks) != 0 {
			panic(fmt.Sprintf("harness: wrapper %s does not consume the arguments of the spec row", c.R.Wrapper))
		}
		return fv.Call(in)
	}
}

// operandStruct fills a blas64.General / Vector / Band / Triangular / ... value.
func operandStruct(c *Call, o *opInst, pt reflect.Type) reflect.Value {
	x := reflect.New(pt).Elem()
	for i := 0; i < pt.NumField(); i++ {
		f := x.Field(i)
		switch name := pt.Field(i).Name; name {
		case "N":
			f.SetInt(int64(o.rows))
		case "Rows":
			f.SetInt(int64(o.rows))
		case "Cols":
			f.SetInt(int64(o.cols))
		case "K":
			f.SetInt(int64(c.K))
		case "KL":
			f.SetInt(int64(c.KL))
		case "KU":
			f.SetInt(int64(c.KU))
		case "Stride":
			f.SetInt(int64(o.ld))
		case "Inc":
			f.SetInt(int64(o.inc))
		case "Uplo":
			f.Set(reflect.ValueOf(c.UL))
		case "Diag":
			f.Set(reflect.ValueOf(c.DG))
		case "Data":
			f.Set(o.sliceValue())
		default:
			panic("harness: unknown wrapper struct field " + name)
		}
	}
	return x
}

// genWrapSpecial: the wrappers of the special rows (Nrm2, Rotg, Rotmg) must
// return exactly what the raw methods return (differential; the raw methods
// themselves are checked by the scalar group).
func genWrapSpecial(g *vlib.G) {
	for _, p := range Precs {
		p := p
		pkg := map[Prec]string{S: "blas32.", D: "blas64.", C: "cblas64.", Z: "cblas128."}[p]
		g.Case(pkg+"Nrm2", func(t *vlib.T) {
			r := RoutineByBase("nrm2")
			raw := implValue.MethodByName(r.Method(p))
			wf := reflect.ValueOf(wrappers[p]["Nrm2"])
			for n := 0; n <= 9; n++ {
				for _, inc := range []int{1, 3} {
					c := &Call{R: r, P: p, N: n, Ld: []int{0}, Inc: []int{inc}}
					o := newOp(c, 0, 2, false)
					o.st = newStore(p, padPre+o.n+padCap+padPost)
					for i := 0; i < o.st.n; i++ {
						o.st.setPoison(i, i)
					}
					for i := 0; i < n; i++ {
						o.st.setVal(padPre+o.pos(i, 0), fillValue(7, 0, i, p.Complex())+0.5)
					}
					o.st.snap()
					want := raw.Call([]reflect.Value{reflect.ValueOf(n), o.sliceValue(), reflect.ValueOf(inc)})[0].Float()
					got := wf.Call([]reflect.Value{operandStruct(c, o, wf.Type().In(0))})[0].Float()
					t.Count("calls", 1)
					if got != want || o.st.firstChanged(0, o.st.n) >= 0 {
						t.Failf("n=%d inc=%d: wrapper returned %v, raw method %v (or x was written)", n, inc, got, want)
						return
					}
				}
			}
			t.Nontrivial()
			t.Outcome("wrap-special:nrm2")
		})
		if p.Complex() {
			continue
		}
		g.Case(pkg+"Rotg+Rotmg", func(t *vlib.T) {
			vals := []float64{0, 1, -2, 0.75, 3, -1.0 / 1024, 4096}
			conv := func(v float64) reflect.Value {
				if p == S {
					return reflect.ValueOf(float32(v))
				}
				return reflect.ValueOf(v)
			}
			same := func(a, b []reflect.Value) bool {
				for i := range a {
					if fmt.Sprintf("%#v", a[i].Interface()) != fmt.Sprintf("%#v", b[i].Interface()) {
						return false
					}
				}
				return true
			}
			rotg, rotmg := implValue.MethodByName(p.String()+"rotg"), implValue.MethodByName(p.String()+"rotmg")
			wg, wmg := reflect.ValueOf(wrappers[p]["Rotg"]), reflect.ValueOf(wrappers[p]["Rotmg"])
			for _, a := range vals {
				for _, b := range vals {
					in := []reflect.Value{conv(a), conv(b)}
					t.Count("calls", 1)
					if !same(rotg.Call(in), wg.Call(in)) {
						t.Failf("Rotg(%v,%v): wrapper and raw method differ", a, b)
						return
					}
					for _, c := range vals[:4] {
						in4 := []reflect.Value{conv(math.Abs(a)), conv(b), conv(c), conv(a + b)}
						if !same(rotmg.Call(in4), wmg.Call(in4)) {
							t.Failf("Rotmg(%v,%v,%v,%v): wrapper and raw method differ", math.Abs(a), b, c, a+b)
							return
						}
					}
				}
			}
			t.Nontrivial()
			t.Outcome("wrap-special:rotg-rotmg")
		})
	}
}

// genWrap runs every non-special row through the wrappers on a reduced product.
func genWrap(g *vlib.G) {
	genWrapSpecial(g)
	mn := *tierMenus(g)
	mn.sizes = vlib.Pick(g, []int{0, 1, 3}, []int{0, 1, 2, 3, 5})
	mn.sizesL3 = vlib.Pick(g, []int{0, 2, 3}, []int{0, 1, 2, 3, 5})
	mn.nL1 = vlib.Pick(g, []int{0, 1, 2, 5, 9}, vlib.Ints(0, 18))
	mn.band = func(n int) []int { return dedup([]int{0, 1, n + 1}) }
	inv := wrapperInvoker()
	for _, r := range Routines {
		if r.Special || r.Wrapper == "" {
			continue
		}
		for _, p := range Precs {
			if r.Method(p) == "" {
				continue
			}
			wrapperName := map[Prec]string{S: "blas32.", D: "blas64.", C: "cblas64.", Z: "cblas128."}[p] + r.Wrapper
			enumCases(r, p, &mn, func(cs *caseSpec) {
				g.Case(wrapperName+" via "+cs.key(), func(t *vlib.T) { runCase(t, cs, &mn, inv, true) })
			})
			if g.Stopped() {
				return
			}
		}
	}
}
