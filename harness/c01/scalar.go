// scalar.go — routines whose results are not exact in floating point:
// nrm2 against a math/big reference within a stated ulp bound, rotg and
// rotmg against their documented formulas and invariants.
package main

import (
	"fmt"
	"math"
	"math/big"
	"reflect"

	"gonum.org/v1/gonum/blas"
	"gonum.org/v1/gonum/internal/verif/vlib"
)

const bigPrec = 400

func bf(x float64) *big.Float { return new(big.Float).SetPrec(bigPrec).SetFloat64(x) }

// ulpAt returns the spacing of the precision's numbers at |x| (float64 or float32 grid).
func ulpAt(x float64, single bool) float64 {
	x = math.Abs(x)
	if single {
		f := float32(x)
		if math.IsInf(float64(f), 0) {
			f = math.MaxFloat32
		}
		return float64(math.Nextafter32(f, float32(math.Inf(1)))) - float64(f)
	}
	if math.IsInf(x, 0) {
		x = math.MaxFloat64
	}
	n := math.Nextafter(x, math.Inf(1))
	if math.IsInf(n, 0) {
		return x - math.Nextafter(x, 0)
	}
	return n - x
}

// errUlps returns |got − want| in units of the spacing at want.
func errUlps(got float64, want *big.Float, single bool) float64 {
	w, _ := want.Float64()
	d := new(big.Float).SetPrec(bigPrec).Sub(bf(got), want)
	d.Abs(d)
	q, _ := new(big.Float).Quo(d, bf(ulpAt(w, single))).Float64()
	return q
}

// nrm2Pattern gives the real components of a test vector (2 per complex element).
type nrm2Pattern struct {
	name string
	val  func(i int, single bool) float64
}

func pow2(e int) float64 { return math.Ldexp(1, e) }

func nrm2Patterns() []nrm2Pattern {
	ints := func(i int) float64 { return real(fillValue(3, 0, i, false)) }
	sel := func(single bool, d, s int) int {
		if single {
			return s
		}
		return d
	}
	return []nrm2Pattern{
		{"ones", func(i int, _ bool) float64 { return 1 }},
		{"ints", func(i int, _ bool) float64 { return ints(i) }},
		{"threes-alt", func(i int, _ bool) float64 { return float64(3 * (1 - 2*(i&1))) }},
		{"huge", func(i int, s bool) float64 { return ints(i) * pow2(sel(s, 500, 60)) }},
		{"tiny", func(i int, s bool) float64 { return ints(i) * pow2(sel(s, -500, -60)) }},
		{"subnormal", func(i int, s bool) float64 { return ints(i) * pow2(sel(s, -1074, -149)) }},
		{"near-max", func(i int, s bool) float64 { return (1 + float64(i%3)/4) * pow2(sel(s, 1020, 124)) }},
		{"mixed", func(i int, s bool) float64 {
			switch i % 3 {
			case 0:
				return pow2(sel(s, 400, 50))
			case 1:
				return -3 * pow2(sel(s, -400, -50))
			}
			return 1.5
		}},
		{"increasing", func(i int, s bool) float64 { return pow2(i * sel(s, 20, 3)) }},
		{"decreasing", func(i int, s bool) float64 { return 3 * pow2(-i*sel(s, 20, 3)) }},
		{"one-nonzero", func(i int, _ bool) float64 {
			if i == 2 {
				return -2.5
			}
			return 0
		}},
		{"zeros", func(i int, _ bool) float64 { return 0 }},
	}
}

func genScalar(g *vlib.G) {
	genNrm2(g)
	genRotg(g)
	genRotmg(g)
}

func genNrm2(g *vlib.G) {
	r := RoutineByBase("nrm2")
	nmax := vlib.Pick(g, 9, 20)
	for _, p := range Precs {
		for _, pat := range nrm2Patterns() {
			for n := 0; n <= nmax; n++ {
				p, pat, n := p, pat, n
				g.Case(fmt.Sprintf("%s %s n=%d", r.Method(p), pat.name, n), func(t *vlib.T) {
					m := implValue.MethodByName(r.Method(p))
					single := p.Single()
					comps := 1
					if p.Complex() {
						comps = 2
					}
					maxUlps := 0.0
					for ii, inc := range []int{1, 2, 3, -1, -2, 1, 3} {
						finite := ii >= 3 // the last four runs use finite sentinels around x
						c := &Call{R: r, P: p, N: n, Ld: []int{0}, Inc: []int{inc}}
						o := newOp(c, 0, 1, false)
						total := padPre + o.n + padCap + padPost
						st := newStore(p, total)
						for i := 0; i < total; i++ {
							st.fillGuard(i, i, finite)
						}
						sum := new(big.Float).SetPrec(bigPrec)
						for i := 0; i < n; i++ {
							re := pat.val(comps*i, single)
							im := 0.0
							if comps == 2 {
								im = pat.val(2*i+1, single)
							}
							st.setVal(padPre+o.pos(i, 0), complex(re, im))
							sum.Add(sum, new(big.Float).Mul(bf(re), bf(re)))
							sum.Add(sum, new(big.Float).Mul(bf(im), bf(im)))
						}
						st.snap()
						out := m.Call([]reflect.Value{reflect.ValueOf(n), st.slice(padPre, padPre+o.n, padPre+o.n+padCap), reflect.ValueOf(inc)})
						got := out[0].Float()
						if i := st.firstChanged(0, total); i >= 0 {
							t.Failf("inc=%d: read-only x written at backing index %d: %s", inc, i-padPre, st.show(i))
							return
						}
						want := new(big.Float).SetPrec(bigPrec)
						if inc > 0 {
							want.Sqrt(sum)
						}
						// rounding bound: the scaled sum of squares takes ≤ 3 roundings per
						// component plus the square root and the final product.
						tol := float64(4 + 2*comps*n)
						e := errUlps(got, want, single)
						if math.IsNaN(got) || math.IsInf(got, 0) || e > tol {
							w, _ := want.Float64()
							t.Failf("inc=%d: returned %v, exact %v (error %.3g ulp, bound %v ulp)", inc, got, w, e, tol)
							return
						}
						if inc > 0 && e > maxUlps {
							maxUlps = e
						}
						t.Count("calls", 1)
					}
					t.Max("nrm2_max_error_centiulp", int64(maxUlps*100))
					if n > 0 {
						t.Nontrivial()
					}
					t.Outcome(fmt.Sprintf("nrm2/%v:%s", p, pat.name))
				})
			}
		}
	}
}

// ---- rotg ----

func rotgGrid(single bool) []float64 {
	big, tiny, sub, mx := pow2(500), pow2(-500), pow2(-1074), pow2(1022)
	if single {
		big, tiny, sub, mx = pow2(60), pow2(-60), pow2(-149), pow2(126)
	}
	base := []float64{0, 1, 2, 3, 0.75, 1.0 / 1024, big, 3 * big, tiny, 3 * tiny, sub, 5 * sub, mx, 1.5 * mx}
	var out []float64
	for _, v := range base {
		out = append(out, v)
		if v != 0 {
			out = append(out, -v)
		}
	}
	return out
}

func genRotg(g *vlib.G) {
	for _, p := range []Prec{S, D} {
		single := p == S
		grid := rotgGrid(single)
		for _, a := range grid {
			p, a := p, a
			g.Case(fmt.Sprintf("%crotg a=%g", "SD"[p], a), func(t *vlib.T) {
				m := implValue.MethodByName(p.String() + "rotg")
				minNormal := pow2(-1022)
				eps := pow2(-52)
				if single {
					minNormal, eps = pow2(-126), pow2(-23)
				}
				for _, b := range grid {
					var out []reflect.Value
					if single {
						out = m.Call([]reflect.Value{reflect.ValueOf(float32(a)), reflect.ValueOf(float32(b))})
					} else {
						out = m.Call([]reflect.Value{reflect.ValueOf(a), reflect.ValueOf(b)})
					}
					c, s, r, z := out[0].Float(), out[1].Float(), out[2].Float(), out[3].Float()
					t.Count("calls", 1)
					fail := func(format string, args ...any) {
						t.Failf("rotg(%g, %g) = (c=%g s=%g r=%g z=%g): %s", a, b, c, s, r, z, fmt.Sprintf(format, args...))
					}
					switch {
					case a == 0 && b == 0:
						// z is 0 in the reference code and 1 by the documented formula: don't care.
						if c != 1 || s != 0 || r != 0 || (z != 0 && z != 1) {
							fail("want c=1 s=0 r=0")
						}
						continue
					case b == 0:
						if c != 1 || s != 0 || r != a || z != 0 {
							fail("want c=1 s=0 r=a z=0")
						}
						continue
					case a == 0:
						if c != 0 || s != 1 || r != b || z != 1 {
							fail("want c=0 s=1 r=b z=1")
						}
						continue
					}
					sigma := 1.0
					if (math.Abs(a) > math.Abs(b) && a < 0) || (math.Abs(a) <= math.Abs(b) && b < 0) {
						sigma = -1
					}
					re := new(big.Float).SetPrec(bigPrec).Add(new(big.Float).Mul(bf(a), bf(a)), new(big.Float).Mul(bf(b), bf(b)))
					re.Sqrt(re)
					re.Mul(re, bf(sigma))
					if e := errUlps(r, re, single); math.IsNaN(r) || e > 4 {
						w, _ := re.Float64()
						fail("r: exact %g, error %.3g ulp > 4", w, e)
						continue
					}
					// z
					var zw float64
					switch {
					case math.Abs(a) > math.Abs(b):
						zw = s
					case c != 0:
						zw = 1 / c
						if single {
							zw = float64(1 / float32(c))
						}
					default:
						zw = 1
					}
					if z != zw {
						fail("z: want %g by the documented rule", zw)
						continue
					}
					ref, _ := re.Float64()
					if math.Abs(ref) < minNormal*pow2(60) {
						continue // r is (nearly) subnormal: c and s inherit its large relative error
					}
					ce := new(big.Float).SetPrec(bigPrec).Quo(bf(a), re)
					se := new(big.Float).SetPrec(bigPrec).Quo(bf(b), re)
					if e := errUlps(c, ce, single); e > 8 {
						fail("c: error %.3g ulp > 8", e)
						continue
					}
					if e := errUlps(s, se, single); e > 8 {
						fail("s: error %.3g ulp > 8", e)
						continue
					}
					if d := math.Abs(c*c + s*s - 1); d > 16*eps {
						fail("c²+s²−1 = %g", d)
						continue
					}
					if math.Abs(a) > math.Abs(b) && c < 0 {
						fail("c must be ≥ 0 when |a| > |b|")
					}
				}
				t.Nontrivial()
				t.Outcome(fmt.Sprintf("rotg/%v", p))
			})
		}
	}
}

// ---- rotmg ----

func genRotmg(g *vlib.G) {
	ds := []float64{0, pow2(-30), 0.5, 1, 3, pow2(30), pow2(-13), pow2(25)}
	xs := []float64{0, 1, -1, 3, -0.25, pow2(20), -pow2(-20), 7}
	for _, p := range []Prec{S, D} {
		for _, d1 := range append([]float64{-1}, ds...) {
			for _, d2 := range ds {
				p, d1, d2 := p, d1, d2
				g.Case(fmt.Sprintf("%crotmg d1=%g d2=%g", "SD"[p], d1, d2), func(t *vlib.T) {
					single := p == S
					m := implValue.MethodByName(p.String() + "rotmg")
					eps := pow2(-52)
					if single {
						eps = pow2(-23)
					}
					tol := 64 * eps
					const gamsq = 4096.0 * 4096.0
					for _, x1 := range xs {
						for _, y1 := range xs {
							var out []reflect.Value
							if single {
								out = m.Call([]reflect.Value{reflect.ValueOf(float32(d1)), reflect.ValueOf(float32(d2)), reflect.ValueOf(float32(x1)), reflect.ValueOf(float32(y1))})
							} else {
								out = m.Call([]reflect.Value{reflect.ValueOf(d1), reflect.ValueOf(d2), reflect.ValueOf(x1), reflect.ValueOf(y1)})
							}
							t.Count("calls", 1)
							flag := blas.Flag(out[0].FieldByName("Flag").Int())
							var h [4]float64
							for i := range h {
								h[i] = out[0].FieldByName("H").Index(i).Float()
							}
							rd1, rd2, rx1 := out[1].Float(), out[2].Float(), out[3].Float()
							fail := func(format string, args ...any) {
								t.Failf("rotmg(d1=%g d2=%g x1=%g y1=%g) = (flag=%d H=%v rd1=%g rd2=%g rx1=%g): %s",
									d1, d2, x1, y1, flag, h, rd1, rd2, rx1, fmt.Sprintf(format, args...))
							}
							if d1 < 0 {
								// documented error state: everything zero, flag -1
								if flag != blas.Rescaling || h != [4]float64{} || rd1 != 0 || rd2 != 0 || rx1 != 0 {
									fail("d1 < 0 must give the zero transformation with flag -1")
								}
								continue
							}
							if d2 == 0 || y1 == 0 {
								if flag != blas.Identity || rd1 != d1 || rd2 != d2 || rx1 != x1 {
									fail("d2·y1 = 0 must give the identity with unchanged d1, d2, x1")
								}
								continue
							}
							var h11, h21, h12, h22 float64
							switch flag {
							case blas.Rescaling:
								h11, h21, h12, h22 = h[0], h[1], h[2], h[3]
							case blas.OffDiagonal:
								h11, h21, h12, h22 = 1, h[1], h[2], 1
							case blas.Diagonal:
								h11, h21, h12, h22 = h[0], -1, 1, h[3]
							default:
								fail("flag must be -1, 0 or 1 for d2·y1 ≠ 0")
								continue
							}
							for _, v := range []float64{h11, h21, h12, h22, rd1, rd2, rx1} {
								if math.IsNaN(v) || math.IsInf(v, 0) {
									fail("non-finite result")
								}
							}
							if t.Failed() {
								return
							}
							// H·(x1,y1) = (rx1, 0) (second component weighted by rd2)
							first := h11*x1 + h12*y1
							if math.Abs(first-rx1) > tol*(math.Abs(h11*x1)+math.Abs(h12*y1)+math.Abs(rx1)) {
								fail("first component of H·(x1,y1) = %g ≠ rx1", first)
							}
							second := h21*x1 + h22*y1
							if rd2 != 0 && math.Abs(second) > tol*(math.Abs(h21*x1)+math.Abs(h22*y1)) {
								fail("second component of H·(x1,y1) = %g ≠ 0", second)
							}
							// Hᵀ·diag(rd1,rd2)·H = diag(d1,d2)
							chk := func(name string, got, want float64, terms ...float64) {
								scale := math.Abs(want)
								for _, v := range terms {
									scale += math.Abs(v)
								}
								if math.Abs(got-want) > tol*scale {
									fail("Hᵀ·D'·H %s = %g, want %g", name, got, want)
								}
							}
							chk("(1,1)", rd1*h11*h11+rd2*h21*h21, d1, rd1*h11*h11, rd2*h21*h21)
							chk("(2,2)", rd1*h12*h12+rd2*h22*h22, d2, rd1*h12*h12, rd2*h22*h22)
							chk("(1,2)", rd1*h11*h12+rd2*h21*h22, 0, rd1*h11*h12, rd2*h21*h22)
							// scaling window
							if rd1 != 0 && !(rd1 > 1/gamsq && rd1 <= gamsq) {
								fail("rd1 outside (gam⁻², gam²]")
							}
							if rd2 != 0 && !(math.Abs(rd2) > 1/gamsq && math.Abs(rd2) <= gamsq) {
								fail("|rd2| outside (gam⁻², gam²]")
							}
							if t.Failed() {
								return
							}
						}
					}
					t.Nontrivial()
					t.Outcome(fmt.Sprintf("rotmg/%v", p))
				})
			}
		}
	}
}
