// store.go — typed backing arrays in the four precisions, NaN poison and
// bitwise before/after comparison.
package main

import (
	"fmt"
	"math"
	"reflect"

	"gonum.org/v1/gonum/internal/verif/vlib"
)

// store is a backing array of one precision with a snapshot taken before the
// call. Exactly one of the slice pairs is in use.
type store struct {
	p    Prec
	n    int
	f32  []float32
	f64  []float64
	c64  []complex64
	c128 []complex128
	// snapshots
	sf32  []float32
	sf64  []float64
	sc64  []complex64
	sc128 []complex128
}

func newStore(p Prec, n int) *store {
	s := &store{p: p, n: n}
	switch p {
	case S:
		b := make([]float32, 2*n)
		s.f32, s.sf32 = b[:n:n], b[n:]
	case D:
		b := make([]float64, 2*n)
		s.f64, s.sf64 = b[:n:n], b[n:]
	case C:
		b := make([]complex64, 2*n)
		s.c64, s.sc64 = b[:n:n], b[n:]
	case Z:
		b := make([]complex128, 2*n)
		s.c128, s.sc128 = b[:n:n], b[n:]
	}
	return s
}

// setPoison stores a NaN with a payload derived from id (both parts for complex).
func (s *store) setPoison(i, id int) {
	switch s.p {
	case S:
		s.f32[i] = vlib.Poison32(id)
	case D:
		s.f64[i] = vlib.Poison64(id)
	case C:
		s.c64[i] = complex(vlib.Poison32(2*id), vlib.Poison32(2*id+1))
	case Z:
		s.c128[i] = complex(vlib.Poison64(2*id), vlib.Poison64(2*id+1))
	}
}

// setSentinel stores a finite, distinct value derived from id (1000..50999,
// exact in float32; complex: a different value in each part). Finite
// sentinels make multiplicative or additive writes to unaddressed storage
// visible (NaN·beta and NaN+x keep the NaN payload bit for bit).
func (s *store) setSentinel(i, id int) {
	v := float64(1000 + id%50000)
	switch s.p {
	case S:
		s.f32[i] = float32(v)
	case D:
		s.f64[i] = v
	case C:
		s.c64[i] = complex(float32(v), float32(-v-0.5))
	case Z:
		s.c128[i] = complex(v, -v-0.5)
	}
}

// fillGuard fills element i of unaddressed storage according to the mode.
func (s *store) fillGuard(i, id int, finite bool) {
	if finite {
		s.setSentinel(i, id)
	} else {
		s.setPoison(i, id)
	}
}

// setVal stores the canonical value v converted to the precision; it panics
// if the conversion is not exact (the alphabets guarantee exactness).
func (s *store) setVal(i int, v complex128) {
	switch s.p {
	case S:
		s.f32[i] = float32(real(v))
	case D:
		s.f64[i] = real(v)
	case C:
		s.c64[i] = complex64(v)
	case Z:
		s.c128[i] = v
	}
	if w := s.get(i); w != v && !(s.p <= D && real(w) == real(v)) {
		panic(fmt.Sprintf("harness: value %v not representable in precision %v", v, s.p))
	}
}

// setImagPoison replaces the imaginary part by a NaN (complex precisions only).
func (s *store) setImagPoison(i, id int) {
	switch s.p {
	case C:
		s.c64[i] = complex(real(s.c64[i]), vlib.Poison32(2*id+1))
	case Z:
		s.c128[i] = complex(real(s.c128[i]), vlib.Poison64(2*id+1))
	default:
		panic("harness: setImagPoison on real store")
	}
}

// get widens element i to complex128 (exact).
func (s *store) get(i int) complex128 {
	switch s.p {
	case S:
		return complex(float64(s.f32[i]), 0)
	case D:
		return complex(s.f64[i], 0)
	case C:
		return complex128(s.c64[i])
	default:
		return s.c128[i]
	}
}

func (s *store) snap() {
	switch s.p {
	case S:
		copy(s.sf32, s.f32)
	case D:
		copy(s.sf64, s.f64)
	case C:
		copy(s.sc64, s.c64)
	case Z:
		copy(s.sc128, s.c128)
	}
}

// unchanged reports whether element i is bitwise equal to its snapshot.
func (s *store) unchanged(i int) bool { return s.realUnchanged(i) && s.imagUnchanged(i) }

func (s *store) realUnchanged(i int) bool {
	switch s.p {
	case S:
		return math.Float32bits(s.f32[i]) == math.Float32bits(s.sf32[i])
	case D:
		return math.Float64bits(s.f64[i]) == math.Float64bits(s.sf64[i])
	case C:
		return math.Float32bits(real(s.c64[i])) == math.Float32bits(real(s.sc64[i]))
	default:
		return math.Float64bits(real(s.c128[i])) == math.Float64bits(real(s.sc128[i]))
	}
}

func (s *store) imagUnchanged(i int) bool {
	switch s.p {
	case C:
		return math.Float32bits(imag(s.c64[i])) == math.Float32bits(imag(s.sc64[i]))
	case Z:
		return math.Float64bits(imag(s.c128[i])) == math.Float64bits(imag(s.sc128[i]))
	}
	return true
}

// firstChanged returns the first index in [lo,hi) that differs bitwise from the snapshot, or -1.
func (s *store) firstChanged(lo, hi int) int {
	switch s.p {
	case S:
		for i := lo; i < hi; i++ {
			if math.Float32bits(s.f32[i]) != math.Float32bits(s.sf32[i]) {
				return i
			}
		}
	case D:
		for i := lo; i < hi; i++ {
			if math.Float64bits(s.f64[i]) != math.Float64bits(s.sf64[i]) {
				return i
			}
		}
	default:
		for i := lo; i < hi; i++ {
			if !s.unchanged(i) {
				return i
			}
		}
	}
	return -1
}

// show formats element i and its snapshot for messages.
func (s *store) show(i int) string {
	switch s.p {
	case S:
		return fmt.Sprintf("%v(%#x) was %v(%#x)", s.f32[i], math.Float32bits(s.f32[i]), s.sf32[i], math.Float32bits(s.sf32[i]))
	case D:
		return fmt.Sprintf("%v(%#x) was %v(%#x)", s.f64[i], math.Float64bits(s.f64[i]), s.sf64[i], math.Float64bits(s.sf64[i]))
	case C:
		return fmt.Sprintf("%v was %v", s.c64[i], s.sc64[i])
	default:
		return fmt.Sprintf("%v was %v", s.c128[i], s.sc128[i])
	}
}

// slice returns the Go slice [lo:hi:max] of the backing array as a reflect.Value.
func (s *store) slice(lo, hi, max int) reflect.Value {
	switch s.p {
	case S:
		return reflect.ValueOf(s.f32[lo:hi:max])
	case D:
		return reflect.ValueOf(s.f64[lo:hi:max])
	case C:
		return reflect.ValueOf(s.c64[lo:hi:max])
	default:
		return reflect.ValueOf(s.c128[lo:hi:max])
	}
}
