// engine.go — instantiates one Call of a spec row in one precision: lays the
// operands out in poisoned backing arrays, evaluates the reference formula on
// the canonical complex128 data, invokes the implementation, and compares.
package main

import (
	"fmt"
	"math"
	"reflect"

	"gonum.org/v1/gonum/blas"
)

// slot kinds of an element of the slice passed to the routine.
const (
	slotPoison    uint8 = iota // never accessed: NaN, must be bitwise unchanged
	slotValue                  // stored operand element
	slotImagDC                 // stored element whose imaginary part is ignored (Hermitian diagonal): imag is NaN
	slotWriteOnly              // result element that must not be read (beta == 0): NaN on entry
)

// garbageImag is the imaginary part given to Hermitian diagonal elements
// where gonum documents them as "assumed to be zero" (NaN where it documents
// them as "ignored").
const garbageImag = 5

// guard elements around the slice handed to the routine.
const (
	padPre  = 3 // elements of the backing array before the slice
	padCap  = 2 // elements in len..cap
	padPost = 2 // elements beyond cap
)

// opInst is one operand of one call.
type opInst struct {
	od         *Operand
	idx        int // index in Routine.Ops
	kind       Kind
	rows, cols int
	ld, inc    int
	kl, ku     int // stored band widths (band kinds)
	upper      bool
	unit       bool
	herm       bool
	n          int // length of the slice handed to the routine
	slot       []uint8
	in, exp    []complex128
	res        []bool // exp[i] is a result element (set by the formula)
	st         *store
	reads      int
	writes     int
}

func imin(a, b int) int {
	if a < b {
		return a
	}
	return b
}
func imax(a, b int) int {
	if a > b {
		return a
	}
	return b
}
func iabs(a int) int {
	if a < 0 {
		return -a
	}
	return a
}

// MinLd returns the smallest legal leading dimension of operand i for call c (0 if it has none).
func MinLd(c *Call, i int) int {
	od := &c.R.Ops[i]
	switch od.Kind {
	case General, Sym, Herm, Tri:
		return imax(1, od.Cols(c))
	case GenBand:
		return c.KL + c.KU + 1
	case SymBand, HermBand, TriBand:
		return c.K + 1
	}
	return 0
}

// inTri reports whether (i,j) lies in the stored triangle.
func (o *opInst) inTri(i, j int) bool {
	if o.upper {
		return i <= j
	}
	return j <= i
}

// pos returns the index of logical element (i,j) in the slice, or -1 if the
// element is not stored (outside the band / the other triangle).
func (o *opInst) pos(i, j int) int {
	switch o.kind {
	case Vector:
		if o.inc > 0 {
			return i * o.inc
		}
		return (o.rows - 1 - i) * (-o.inc)
	case General:
		return i*o.ld + j
	case Sym, Herm, Tri:
		if !o.inTri(i, j) {
			return -1
		}
		return i*o.ld + j
	case GenBand, SymBand, HermBand, TriBand:
		if j-i > o.ku || i-j > o.kl {
			return -1
		}
		return i*o.ld + o.kl + j - i
	default: // packed
		if !o.inTri(i, j) {
			return -1
		}
		if o.upper {
			return i*(2*o.rows-i+1)/2 + j - i
		}
		return i*(i+1)/2 + j
	}
}

// newOp lays out operand k of call c. writeOnly marks all stored elements as
// not-to-be-read (beta == 0).
func newOp(c *Call, k int, slack int, writeOnly bool) *opInst {
	od := &c.R.Ops[k]
	o := &opInst{od: od, idx: k, kind: od.Kind, rows: od.Rows(c)}
	if od.Cols != nil {
		o.cols = od.Cols(c)
	}
	o.ld, o.inc = c.Ld[k], c.Inc[k]
	o.upper = c.UL == blas.Upper
	o.unit = od.Kind.Triangular() && c.DG == blas.Unit
	o.herm = od.Kind.Hermitian()
	switch od.Kind {
	case Vector:
		if o.rows > 0 {
			o.n = 1 + (o.rows-1)*iabs(o.inc)
		}
	case General, Sym, Herm, Tri:
		// gonum requires (rows-1)*ld+cols elements even when cols == 0
		// (e.g. the m×0 operand A of gemm with k == 0); see NOTES.md.
		if o.rows > 0 {
			o.n = (o.rows-1)*o.ld + o.cols
		}
	case GenBand:
		o.kl, o.ku = c.KL, c.KU
		if o.rows > 0 && o.cols > 0 {
			o.n = o.ld*(imin(o.rows, o.cols+o.kl)-1) + o.kl + o.ku + 1
		}
	case SymBand, HermBand, TriBand:
		if o.upper {
			o.kl, o.ku = 0, c.K
		} else {
			o.kl, o.ku = c.K, 0
		}
		if o.rows > 0 {
			o.n = o.ld*(o.rows-1) + c.K + 1
		}
	default:
		o.n = o.rows * (o.rows + 1) / 2
	}
	if o.n > 0 {
		o.n += slack
	}
	o.slot = make([]uint8, o.n)
	buf := make([]complex128, 2*o.n)
	o.in, o.exp = buf[:o.n:o.n], buf[o.n:]
	o.res = make([]bool, o.n)
	val := slotValue
	if writeOnly {
		val = slotWriteOnly
	}
	if od.Kind == Vector {
		for i := 0; i < o.rows; i++ {
			o.slot[o.pos(i, 0)] = val
		}
		return o
	}
	for i := 0; i < o.rows; i++ {
		for j := 0; j < o.cols; j++ {
			p := o.pos(i, j)
			if p < 0 {
				continue
			}
			if p >= o.n {
				panic(fmt.Sprintf("harness: layout of %s %s (%d,%d) beyond slice", c.R.Base, od.Name, i, j))
			}
			switch {
			case i == j && o.unit:
				// unit diagonal: not accessed
			case i == j && o.herm && !writeOnly:
				o.slot[p] = slotImagDC
			default:
				o.slot[p] = val
			}
		}
	}
	return o
}

// load returns the input value of a stored element for the formula.
func (o *opInst) load(p int) complex128 {
	o.reads++
	switch o.slot[p] {
	case slotValue:
		return o.in[p]
	case slotImagDC:
		return complex(real(o.in[p]), 0)
	}
	panic(fmt.Sprintf("harness: formula of %s read a slot of kind %d", o.od.Name, o.slot[p]))
}

// Mat is the formula's view of a matrix operand: At returns the logical
// element (mirrored, conjugated, zero outside the triangle/band, one on a
// unit diagonal), Set defines a result element (stored positions only).
type Mat struct{ o *opInst }

// Rows returns the number of rows.
func (m Mat) Rows() int { return m.o.rows }

// Cols returns the number of columns.
func (m Mat) Cols() int { return m.o.cols }

// Stored reports whether (i,j) is an element of the storage scheme that the
// routine addresses (inside the triangle and the band).
func (m Mat) Stored(i, j int) bool {
	p := m.o.pos(i, j)
	return p >= 0 && !(i == j && m.o.unit)
}

// At returns the logical element (i,j) on entry.
func (m Mat) At(i, j int) complex128 {
	o := m.o
	k := o.kind
	switch {
	case k == General || k == GenBand:
		p := o.pos(i, j)
		if p < 0 {
			return 0
		}
		return o.load(p)
	case k.Triangular():
		p := o.pos(i, j)
		if p < 0 {
			return 0
		}
		if i == j && o.unit {
			return 1
		}
		return o.load(p)
	case k.Symmetric():
		if !o.inTri(i, j) {
			i, j = j, i
		}
		p := o.pos(i, j)
		if p < 0 {
			return 0
		}
		return o.load(p)
	case k.Hermitian():
		conj := false
		if !o.inTri(i, j) {
			i, j = j, i
			conj = true
		}
		p := o.pos(i, j)
		if p < 0 {
			return 0
		}
		v := o.load(p)
		if conj {
			v = complex(real(v), -imag(v))
		}
		return v
	}
	panic("harness: Mat.At on vector")
}

// Set defines result element (i,j).
func (m Mat) Set(i, j int, v complex128) {
	o := m.o
	p := o.pos(i, j)
	if p < 0 || (i == j && o.unit) || o.od.Access != InOut {
		panic(fmt.Sprintf("harness: formula writes unaddressed element %s(%d,%d)", o.od.Name, i, j))
	}
	if o.herm && i == j {
		if imag(v) != 0 {
			panic(fmt.Sprintf("harness: Hermitian diagonal result %v not real", v))
		}
		v = complex(real(v), 0)
	}
	o.exp[p] = v
	o.res[p] = true
	o.writes++
}

// Vec is the formula's view of a vector operand.
type Vec struct{ o *opInst }

// Len returns the number of elements.
func (v Vec) Len() int { return v.o.rows }

// At returns element i on entry.
func (v Vec) At(i int) complex128 { return v.o.load(v.o.pos(i, 0)) }

// Set defines result element i.
func (v Vec) Set(i int, x complex128) {
	o := v.o
	if o.od.Access != InOut {
		panic("harness: formula writes read-only vector " + o.od.Name)
	}
	p := o.pos(i, 0)
	o.exp[p] = x
	o.res[p] = true
	o.writes++
}

// Ctx is what a formula sees: the call's flags, extents and scalars, and the
// operands by name.
type Ctx struct {
	*Call
	A, B, C Mat
	X, Y    Vec
	// results of value-returning routines
	Ret    complex128
	RetIdx int
	ops    []*opInst
}

// op returns the accessor of op(M) and its extents.
func opOf(m Mat, t blas.Transpose) (at func(i, j int) complex128, rows, cols int) {
	switch t {
	case blas.NoTrans:
		return m.At, m.Rows(), m.Cols()
	case blas.Trans:
		return func(i, j int) complex128 { return m.At(j, i) }, m.Cols(), m.Rows()
	case blas.ConjTrans:
		return func(i, j int) complex128 { return conj(m.At(j, i)) }, m.Cols(), m.Rows()
	}
	panic("harness: bad transpose")
}

func conj(v complex128) complex128 { return complex(real(v), -imag(v)) }

// ---- value fill -----------------------------------------------------------

// fillValue returns the canonical value of slot p of operand k under fill
// pattern f: small integers (|re| ≤ 3 real, |re|,|im| ≤ 2 complex).
func fillValue(f uint64, k, p int, cmplx bool) complex128 {
	h := f*0x9e3779b97f4a7c15 + uint64(k)*0xbf58476d1ce4e5b9 + uint64(p)*0x94d049bb133111eb
	h ^= h >> 29
	h *= 0xbf58476d1ce4e5b9
	h ^= h >> 32
	if !cmplx {
		return complex(float64(int(h%7)-3), 0)
	}
	return complex(float64(int(h%5)-2), float64(int((h>>16)%5)-2))
}

var (
	diagReal  = []complex128{1, -1, 2, -2, 0.5, -0.5}
	diagCmplx = []complex128{1, -1, 2, 0.5, 1i, -1i, 2i, 1 + 1i, 1 - 1i, -1 + 1i, -0.5i}
)

// diagValue returns a diagonal entry for triangular solves: a unit or a
// power of two times a unit (or 1±i), so that division by it is exact.
func diagValue(f uint64, i int, cmplx bool) complex128 {
	h := (f+11)*0x9e3779b97f4a7c15 + uint64(i)*0xd6e8feb86659fd93
	h ^= h >> 31
	h *= 0x94d049bb133111eb
	h ^= h >> 29
	if cmplx {
		return diagCmplx[h%uint64(len(diagCmplx))]
	}
	return diagReal[h%uint64(len(diagReal))]
}

// ---- one call ---------------------------------------------------------------

// invoker performs the call on the prepared operands and returns the results.
type invoker func(c *Call, ops []*opInst) []reflect.Value

// runStats accumulates per-case statistics.
type runStats struct {
	calls, written, unchangedChecked, poisonSlots, sentinelSlots, writeOnlySlots, retChecked int64
	zeroCalls, exactZeros                                                                    int64
	multi                                                                                    bool // some written element depends on ≥ 2 operand elements
}

// fillSpec is one fill of a call: the value pattern, how many elements the
// slices are longer than necessary, and what unaddressed storage holds.
//
// Two guard modes complement each other: NaN poison (Finite == false) makes
// any *read* of unaddressed storage visible in the results; finite distinct
// sentinels (Finite == true) make any *write* visible, including
// multiplicative/additive ones (x *= beta, x += 0·y) that leave a NaN
// bitwise unchanged. Write-only result elements (beta == 0) and ignored
// Hermitian diagonal imaginary parts are NaN in both modes.
type fillSpec struct {
	Pattern uint64
	Slack   int
	Finite  bool
	// Zero, when non-nil, selects the exact-zero sweep: every other stored
	// element of every operand is made non-zero and the elements selected by
	// the mask are exactly 0 (0+0i).
	Zero *zeroMask
}

// zeroMask places exact zeros in one operand: in a vector the elements at
// the given positions; in a matrix every stored element of the given rows
// (Axis 0) or columns (Axis 1). Positions are symbolic: 0 = first,
// 1 = middle (extent/2), 2 = last.
type zeroMask struct {
	Op   int   // operand index in Routine.Ops
	Axis int   // 0 = vector element / matrix row, 1 = matrix column
	Pos  []int // symbolic positions
}

// resolve maps the symbolic positions to distinct logical indices for extent n.
func (z *zeroMask) resolve(n int) []int {
	var out []int
	for _, s := range z.Pos {
		i := [3]int{0, n / 2, n - 1}[s]
		if i < 0 || i >= n {
			continue
		}
		dup := false
		for _, j := range out {
			dup = dup || j == i
		}
		if !dup {
			out = append(out, i)
		}
	}
	return out
}

func (z *zeroMask) String() string {
	return fmt.Sprintf("zero(op%d axis%d %v)", z.Op, z.Axis, z.Pos)
}

func (f fillSpec) String() string {
	g := "nan"
	if f.Finite {
		g = "finite"
	}
	s := fmt.Sprintf("%d/slack%d/%s", f.Pattern, f.Slack, g)
	if f.Zero != nil {
		s += "/" + f.Zero.String()
	}
	return s
}

// nonZero replaces an exact zero of the random fill by a non-zero value.
func nonZero(v complex128, cmplx bool) complex128 {
	if v != 0 {
		return v
	}
	if cmplx {
		return 1 - 1i
	}
	return 2
}

// applyZeroMask writes the exact zeros of mask z into operand o.
func applyZeroMask(o *opInst, z *zeroMask) int {
	n := 0
	set := func(p int) {
		if p >= 0 && (o.slot[p] == slotValue || o.slot[p] == slotImagDC) {
			o.in[p] = 0
			n++
		}
	}
	if o.kind == Vector {
		for _, i := range z.resolve(o.rows) {
			set(o.pos(i, 0))
		}
		return n
	}
	if z.Axis == 0 {
		for _, i := range z.resolve(o.rows) {
			for j := 0; j < o.cols; j++ {
				set(o.pos(i, j))
			}
		}
		return n
	}
	for _, j := range z.resolve(o.cols) {
		for i := 0; i < o.rows; i++ {
			set(o.pos(i, j))
		}
	}
	return n
}

// runCall executes one call and returns "" or a description of the first discrepancy.
func runCall(c *Call, fs fillSpec, inv invoker, st *runStats) string {
	r := c.R
	cm := c.P.Complex()
	hasBeta := r.Has("beta")
	slack := fs.Slack
	fill := fs.Pattern
	ops := make([]*opInst, len(r.Ops))
	ctx := &Ctx{Call: c, ops: ops, RetIdx: -2}
	for k := range r.Ops {
		wo := hasBeta && r.Ops[k].Access == InOut && c.Beta == 0
		o := newOp(c, k, slack, wo)
		ops[k] = o
		for p, s := range o.slot {
			if s == slotValue || s == slotImagDC {
				o.in[p] = fillValue(fill, k, p, cm)
				if fs.Zero != nil {
					o.in[p] = nonZero(o.in[p], cm)
				}
			}
		}
		if fs.Zero != nil && fs.Zero.Op == k {
			st.exactZeros += int64(applyZeroMask(o, fs.Zero))
		}
		if r.Solve && o.kind.Triangular() && !o.unit {
			for i := 0; i < o.rows; i++ {
				o.in[o.pos(i, i)] = diagValue(fill, i, cm)
			}
		}
		switch r.Ops[k].Name {
		case "A":
			ctx.A = Mat{o}
		case "B":
			ctx.B = Mat{o}
		case "C":
			ctx.C = Mat{o}
		case "X":
			ctx.X = Vec{o}
		case "Y":
			ctx.Y = Vec{o}
		}
	}
	if r.Prep != nil {
		r.Prep(ctx)
	}
	// typed arrays
	for k, o := range ops {
		total := padPre + o.n + padCap + padPost
		s := newStore(c.P, total)
		o.st = s
		for i := 0; i < total; i++ {
			s.fillGuard(i, k*5000+i, fs.Finite)
		}
		for p, kind := range o.slot {
			switch kind {
			case slotValue:
				s.setVal(padPre+p, o.in[p])
			case slotImagDC:
				if r.DiagImagIgnored {
					s.setVal(padPre+p, complex(real(o.in[p]), 0))
					s.setImagPoison(padPre+p, k*5000+padPre+p)
				} else {
					s.setVal(padPre+p, complex(real(o.in[p]), garbageImag))
				}
				st.poisonSlots++
			case slotPoison:
				if fs.Finite {
					st.sentinelSlots++
				} else {
					st.poisonSlots++
				}
			case slotWriteOnly:
				s.setPoison(padPre+p, k*5000+padPre+p)
				st.writeOnlySlots++
			}
		}
		s.snap()
		copy(o.exp, o.in)
		o.reads, o.writes = 0, 0
	}
	// reference
	r.Ref(ctx)
	reads, writes := 0, 0
	for _, o := range ops {
		reads += o.reads
		writes += o.writes
	}
	if writes > 0 && reads >= 2*writes {
		st.multi = true
	}
	if r.Ret != RetNone && reads >= 2 {
		st.multi = true
	}
	st.written += int64(writes)
	// call
	out := inv(c, ops)
	st.calls++
	// compare
	if r.Ret == RetScalar {
		st.retChecked++
		got := retValue(out[0])
		if !(got == ctx.Ret) {
			return fmt.Sprintf("returned %v, want %v", got, ctx.Ret)
		}
	} else if r.Ret == RetIndex {
		st.retChecked++
		if got := int(out[0].Int()); got != ctx.RetIdx {
			return fmt.Sprintf("returned index %d, want %d", got, ctx.RetIdx)
		}
	}
	hermQuick := r.HermQuick != nil && r.HermQuick(c)
	for _, o := range ops {
		s := o.st
		if i := s.firstChanged(0, padPre); i >= 0 {
			return fmt.Sprintf("%s: element %d before the slice was written: %s", o.od.Name, i-padPre, s.show(i))
		}
		if i := s.firstChanged(padPre+o.n, s.n); i >= 0 {
			return fmt.Sprintf("%s: element len+%d (cap=len+%d) was written: %s", o.od.Name, i-padPre-o.n, padCap, s.show(i))
		}
		for p := 0; p < o.n; p++ {
			q := padPre + p
			if !o.res[p] {
				st.unchangedChecked++
				if !s.unchanged(q) {
					return fmt.Sprintf("%s[%d] (%s, %s) must not change: %s", o.od.Name, p, o.describe(p), slotName(o.slot[p]), s.show(q))
				}
				continue
			}
			got, want := s.get(q), o.exp[p]
			if o.herm && o.isDiag(p) {
				if !(real(got) == real(want)) {
					return fmt.Sprintf("%s[%d] (%s) = %v, want real part %v%s", o.od.Name, p, o.describe(p), got, real(want), nanNote(got))
				}
				if imag(got) == 0 || (hermQuick && s.imagUnchanged(q)) {
					continue
				}
				return fmt.Sprintf("%s[%d] (%s) = %v: imaginary part of the Hermitian diagonal must be set to zero", o.od.Name, p, o.describe(p), got)
			}
			if !(got == want) {
				return fmt.Sprintf("%s[%d] (%s) = %v, want %v%s", o.od.Name, p, o.describe(p), got, want, nanNote(got))
			}
		}
	}
	return ""
}

func nanNote(v complex128) string {
	if math.IsNaN(real(v)) || math.IsNaN(imag(v)) {
		return " (NaN: an element that must not be read leaked into the result)"
	}
	return ""
}

func slotName(k uint8) string {
	return [...]string{"unaddressed storage", "read-only element", "Hermitian diagonal", "write-only element"}[k]
}

// retValue widens a returned scalar to complex128.
func retValue(v reflect.Value) complex128 {
	switch v.Kind() {
	case reflect.Float32, reflect.Float64:
		return complex(v.Float(), 0)
	case reflect.Complex64, reflect.Complex128:
		return v.Complex()
	}
	panic("harness: unexpected return kind " + v.Kind().String())
}

// isDiag reports whether slot p holds a diagonal element.
func (o *opInst) isDiag(p int) bool {
	for i := 0; i < o.rows; i++ {
		if o.pos(i, i) == p {
			return true
		}
	}
	return false
}

// describe names the logical element stored at slot p (or says it is padding).
func (o *opInst) describe(p int) string {
	if o.kind == Vector {
		for i := 0; i < o.rows; i++ {
			if o.pos(i, 0) == p {
				return fmt.Sprintf("element %d", i)
			}
		}
		return "skipped slot"
	}
	for i := 0; i < o.rows; i++ {
		for j := 0; j < o.cols; j++ {
			if o.pos(i, j) == p {
				if i == j && o.unit {
					return fmt.Sprintf("unit diagonal (%d,%d)", i, j)
				}
				return fmt.Sprintf("element (%d,%d)", i, j)
			}
		}
	}
	return "padding/other triangle/band corner"
}

// ---- invoking gonum.Implementation through reflection -------------------------

var (
	tyTranspose = reflect.TypeOf(blas.NoTrans)
	tyUplo      = reflect.TypeOf(blas.Upper)
	tyDiag      = reflect.TypeOf(blas.Unit)
	tySide      = reflect.TypeOf(blas.Left)
)

// scalarValue converts a canonical scalar to a parameter of type t.
func scalarValue(v complex128, t reflect.Type) reflect.Value {
	x := reflect.New(t).Elem()
	switch t.Kind() {
	case reflect.Float32, reflect.Float64:
		if imag(v) != 0 {
			panic("harness: complex scalar for real parameter")
		}
		x.SetFloat(real(v))
	case reflect.Complex64, reflect.Complex128:
		x.SetComplex(v)
	default:
		panic("harness: scalar parameter of kind " + t.Kind().String())
	}
	return x
}

// rotmValue builds a blas.SrotmParams / blas.DrotmParams.
func rotmValue(c *Call, t reflect.Type) reflect.Value {
	x := reflect.New(t).Elem()
	x.FieldByName("Flag").SetInt(int64(c.RotmFlag))
	h := x.FieldByName("H")
	for i := 0; i < 4; i++ {
		h.Index(i).SetFloat(c.RotmH[i])
	}
	return x
}

func (o *opInst) sliceValue() reflect.Value {
	return o.st.slice(padPre, padPre+o.n, padPre+o.n+padCap)
}

// methodInvoker calls the raw gonum.Implementation method following Routine.Args.
func methodInvoker(impl reflect.Value) invoker {
	cache := map[string]reflect.Value{}
	return func(c *Call, ops []*opInst) []reflect.Value {
		name := c.R.Method(c.P)
		m, ok := cache[name]
		if !ok {
			m = impl.MethodByName(name)
			if !m.IsValid() {
				panic("harness: no method " + name)
			}
			cache[name] = m
		}
		mt := m.Type()
		if mt.NumIn() != len(c.R.Args) {
			panic(fmt.Sprintf("harness: %s takes %d arguments, spec lists %d", name, mt.NumIn(), len(c.R.Args)))
		}
		in := make([]reflect.Value, len(c.R.Args))
		for i, tok := range c.R.Args {
			pt := mt.In(i)
			switch tok {
			case "tA":
				in[i] = reflect.ValueOf(c.TA)
			case "tB":
				in[i] = reflect.ValueOf(c.TB)
			case "uplo":
				in[i] = reflect.ValueOf(c.UL)
			case "diag":
				in[i] = reflect.ValueOf(c.DG)
			case "side":
				in[i] = reflect.ValueOf(c.SD)
			case "m":
				in[i] = reflect.ValueOf(c.M)
			case "n":
				in[i] = reflect.ValueOf(c.N)
			case "k":
				in[i] = reflect.ValueOf(c.K)
			case "kl":
				in[i] = reflect.ValueOf(c.KL)
			case "ku":
				in[i] = reflect.ValueOf(c.KU)
			case "alpha", "c":
				in[i] = scalarValue(c.Alpha, pt)
			case "beta", "s":
				in[i] = scalarValue(c.Beta, pt)
			case "P":
				in[i] = rotmValue(c, pt)
			default:
				if len(tok) > 2 && tok[:2] == "ld" {
					in[i] = reflect.ValueOf(c.Ld[c.R.Op(tok[2:])])
				} else if len(tok) > 3 && tok[:3] == "inc" {
					in[i] = reflect.ValueOf(c.Inc[c.R.Op(tok[3:])])
				} else if k := c.R.Op(tok); k >= 0 {
					in[i] = ops[k].sliceValue()
				} else {
					panic("harness: unknown token " + tok)
				}
			}
			if in[i].Type() != pt {
				panic(fmt.Sprintf("harness: %s argument %d (%s) has type %v, want %v", name, i, tok, in[i].Type(), pt))
			}
		}
		return m.Call(in)
	}
}
