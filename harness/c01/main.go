// Command c01 checks property C01: every BLAS routine of gonum computes the
// reference operation on exactly the addressed elements. See NOTES.md.
package main

import (
	"fmt"
	"reflect"
	"sort"
	"strings"

	"gonum.org/v1/gonum/blas/gonum"
	"gonum.org/v1/gonum/internal/verif/vlib"
)

var implValue = reflect.ValueOf(gonum.Implementation{})

func main() {
	vlib.Main("C01",
		vlib.Group{Name: "table", Gen: genTable},
		vlib.Group{Name: "l1", Gen: genLevel(1)},
		vlib.Group{Name: "l2", Gen: genLevel(2)},
		vlib.Group{Name: "l3", Gen: genLevel(3)},
		vlib.Group{Name: "gemm-block", Gen: genGemmBlock},
		vlib.Group{Name: "gemm-big", Gen: genGemmBig},
		vlib.Group{Name: "scalar", Gen: genScalar},
		vlib.Group{Name: "wrap", Gen: genWrap},
	)
}

// genTable checks that the spec table and gonum.Implementation agree: every
// method of Implementation is named by exactly one row, and vice versa.
func genTable(g *vlib.G) {
	g.Case("methods", func(t *vlib.T) {
		inTable := map[string]bool{}
		for _, r := range Routines {
			for _, p := range Precs {
				if m := r.Method(p); m != "" {
					if inTable[m] {
						t.Failf("method %s listed twice in the spec table", m)
					}
					inTable[m] = true
					if !implValue.MethodByName(m).IsValid() {
						t.Failf("spec table names %s, which gonum.Implementation does not have", m)
					}
				}
			}
		}
		var missing []string
		ty := implValue.Type()
		for i := 0; i < ty.NumMethod(); i++ {
			if n := ty.Method(i).Name; !inTable[n] {
				missing = append(missing, n)
			}
		}
		sort.Strings(missing)
		if len(missing) > 0 {
			t.Failf("methods of gonum.Implementation not covered by the spec table: %s", strings.Join(missing, " "))
		}
		t.Count("methods_in_table", int64(len(inTable)))
		t.Outcome(fmt.Sprintf("methods=%d", len(inTable)))
		t.Nontrivial()
	})
}
