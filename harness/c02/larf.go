package main

import (
	"fmt"
	"math"

	"gonum.org/v1/gonum/blas"
	"gonum.org/v1/gonum/internal/verif/vlib"
	"gonum.org/v1/gonum/lapack"
)

const larfNegIncClass = "dlarf-negative-incv-trailing-zeros"
const larftSliceClass = "dlarft-slices-v-past-end"

// exactEq: same value (-0 == +0), no NaN.
func exactEq(a, b M) (int, bool) {
	for i := range a.a {
		if a.a[i] != b.a[i] || math.IsNaN(a.a[i]) {
			return i, false
		}
	}
	return 0, true
}

// hOf returns I - tau v v^T.
func hOf(v []float64, tau float64) M {
	n := len(v)
	h := eye(n)
	for i := 0; i < n; i++ {
		for j := 0; j < n; j++ {
			h.a[i*n+j] -= tau * v[i] * v[j]
		}
	}
	return h
}

// strided vector with poison between the elements; BLAS convention for negative increments.
type svec struct {
	d, snap []float64
	n, inc  int
}

func placeVec(v []float64, inc int) *svec {
	n := len(v)
	ai := inc
	if ai < 0 {
		ai = -ai
	}
	s := &svec{n: n, inc: inc}
	if n == 0 {
		return s
	}
	s.d = make([]float64, 1+(n-1)*ai)
	for i := range s.d {
		s.d[i] = vlib.Poison64(0x700 + i)
	}
	for l := 0; l < n; l++ {
		s.d[s.pos(l)] = v[l]
	}
	s.snap = append([]float64(nil), s.d...)
	return s
}

func (s *svec) pos(l int) int {
	if s.inc > 0 {
		return l * s.inc
	}
	return (s.n - 1 - l) * (-s.inc)
}

func (s *svec) get() []float64 {
	v := make([]float64, s.n)
	for l := range v {
		v[l] = s.d[s.pos(l)]
	}
	return v
}

func (s *svec) gapsIntact() bool {
	used := make([]bool, len(s.d))
	for l := 0; l < s.n; l++ {
		used[s.pos(l)] = true
	}
	for i := range s.d {
		if !used[i] && math.Float64bits(s.d[i]) != math.Float64bits(s.snap[i]) {
			return false
		}
	}
	return true
}

// ---------------------------------------------------------------------------
// Dlarfg

func genLarfg(g *vlib.G) {
	scales := []struct {
		name string
		e    int
	}{{"1", 0}, {"2^600", 600}, {"2^-600", -600}, {"2^-1040", -1040}}
	for n := 0; n <= vlib.Pick(g, 12, 16); n++ {
		for _, inc := range []int{1, 2, 3} {
			for _, pat := range []string{"ints", "xzero", "alpha0", "neg", "onehot"} {
				for _, sc := range scales {
					n, inc, pat, sc := n, inc, pat, sc
					g.Case(fmt.Sprintf("Dlarfg n=%d inc=%d pat=%s scale=%s", n, inc, pat, sc.name), func(t *vlib.T) {
						ck := &checker{t: t}
						if n >= 2 {
							t.Nontrivial()
						}
						s := math.Ldexp(1, sc.e)
						alpha := 3.0
						x := make([]float64, imax(0, n-1))
						for i := range x {
							v := h3(i, n, 31)
							if v == 0 {
								v = 1
							}
							x[i] = float64(v)
						}
						switch pat {
						case "xzero":
							for i := range x {
								x[i] = 0
							}
						case "alpha0":
							alpha = 0
						case "neg":
							alpha = -2
						case "onehot":
							for i := range x {
								x[i] = 0
							}
							if len(x) > 0 {
								x[len(x)-1] = 4
							}
						}
						alpha *= s
						for i := range x {
							x[i] *= s
						}
						xs := placeVec(x, inc)
						var xd []float64
						if xs.d != nil {
							xd = xs.d
						}
						beta, tau := impl.Dlarfg(n, alpha, xd, inc)
						if !xs.gapsIntact() {
							ck.failf("Dlarfg wrote between the elements of x")
						}
						if math.IsNaN(beta) || math.IsNaN(tau) {
							ck.failf("Dlarfg returned beta=%v tau=%v", beta, tau)
							return
						}
						if n <= 1 {
							if tau != 0 || beta != alpha {
								ck.failf("Dlarfg n=%d: beta=%v tau=%v, want alpha and 0", n, beta, tau)
							}
							t.Outcome("n<=1")
							return
						}
						v := append([]float64{1}, xs.get()...)
						allZero := true
						for _, xi := range x {
							if xi != 0 {
								allZero = false
							}
						}
						if allZero {
							if tau != 0 || beta != alpha {
								ck.failf("Dlarfg with x=0: beta=%v tau=%v, want beta=alpha tau=0 (H = I)", beta, tau)
							}
							t.Outcome("H=I")
							return
						}
						if anyNaN(v) {
							ck.failf("NaN in v")
							return
						}
						// H*(alpha;x) = (beta;0) and H orthogonal
						in := append([]float64{alpha}, x...)
						var vtv, vtin, nrm float64
						for i := range v {
							vtv += v[i] * v[i]
							vtin += v[i] * (in[i] / s)
							nrm = math.Max(nrm, math.Abs(in[i]/s))
						}
						if tau < 1-4*eps || tau > 2+4*eps {
							ck.failf("tau=%v outside [1,2]", tau)
						}
						ck.ratio("larfg |tau*vtv-2|/(n eps)", math.Abs(tau*vtv-2)/(float64(n)*eps))
						var res float64
						for i := range v {
							want := 0.0
							if i == 0 {
								want = beta / s
							}
							res = math.Max(res, math.Abs(in[i]/s-tau*vtin*v[i]-want))
						}
						// for subnormal data the quotients carry an absolute error of 2^-1074
						floor := 0.0
						if sc.e < -1000 {
							floor = math.Ldexp(float64(n), -1074-sc.e)
						}
						ck.ratio("larfg |H x - beta e1|/(n eps |x|)", res/(float64(n)*eps*nrm*float64(n)+floor))
						if beta == 0 || math.Signbit(beta) == math.Signbit(alpha) && alpha != 0 {
							ck.failf("beta=%v must be non-zero with the sign opposite to alpha=%v", beta, alpha)
						}
						t.Outcome("reflector/" + sc.name)
					})
				}
			}
		}
	}
}

// ---------------------------------------------------------------------------
// Dlarf and Dlarfx: exact (dyadic data)

func genLarf(g *vlib.G) {
	N := vlib.Pick(g, 12, 13)
	taus := []float64{0, 0.5, 1, 2}
	for _, side := range sides {
		for m := 0; m <= N; m++ {
			for n := 0; n <= N; n++ {
				for _, vpat := range []string{"dense", "tail0", "zero", "head0"} {
					for _, cpat := range []string{"dense", "tail0", "zero"} {
						for _, tau := range taus {
							side, m, n, vpat, cpat, tau := side, m, n, vpat, cpat, tau
							g.Case(fmt.Sprintf("Dlarf side=%s m=%d n=%d v=%s c=%s tau=%v", sideName(side), m, n, vpat, cpat, tau), func(t *vlib.T) {
								ck := &checker{t: t}
								lenV := m
								if side == blas.Right {
									lenV = n
								}
								if lenV >= 2 && m > 0 && n > 0 && tau != 0 {
									t.Nontrivial()
								}
								v := make([]float64, lenV)
								for i := range v {
									x := h3(i, 3, 41)
									if x == 0 {
										x = 1
									}
									v[i] = float64(x)
									switch {
									case vpat == "tail0" && i >= (lenV+1)/2, vpat == "zero", vpat == "head0" && i < lenV/2:
										v[i] = 0
									}
								}
								c := genDD(8)(m, n)
								for i := 0; i < m; i++ {
									for j := 0; j < n; j++ {
										z := cpat == "zero"
										if cpat == "tail0" {
											if side == blas.Left {
												z = j >= (n+1)/2
											} else {
												z = i >= (m+1)/2
											}
										}
										if z {
											c.a[i*n+j] = 0
										}
									}
								}
								h := hOf(v, tau)
								var want M
								if side == blas.Left {
									want = mul(h, c)
								} else {
									want = mul(c, h)
								}
								paths := ""
								for _, incv := range []int{1, 2, -1, -3} {
									for _, ldc := range []int{imax(1, n), imax(1, n) + 2} {
										ck.ctx = fmt.Sprintf("incv=%d ldc=%d", incv, ldc)
										vs := placeVec(v, incv)
										cs := place(c, ldc, nil)
										nw := n
										if side == blas.Right {
											nw = m
										}
										work := poisonVec(nw)
										vd := vs.d
										if vd == nil {
											vd = []float64{}
										}
										ck.class = ""
										if incv < 0 && vpat == "tail0" && lenV >= 2 {
											// known: the trailing-zero scan shortens the vector without moving its start for incv < 0
											ck.class = larfNegIncClass
										}
										impl.Dlarf(side, m, n, vd, incv, tau, cs.d, ldc, work)
										if _, same := vlib.Same64(vs.d, vs.snap); !same {
											ck.failf("Dlarf modified v")
										}
										cs.checkOut(ck, "Dlarf c")
										if i, same := exactEq(cs.get(), want); !same {
											ck.failf("Dlarf: C[%d,%d]=%v, want %v (exact data)", i/imax(1, n), i%imax(1, n), cs.get().a[i], want.a[i])
										}
										ck.class = ""
										// Dlarfx on the same data (v contiguous)
										if incv == 1 {
											cx := place(c, ldc, nil)
											workx := poisonVec(nw)
											impl.Dlarfx(side, m, n, append([]float64(nil), v...), tau, cx.d, ldc, workx)
											cx.checkOut(ck, "Dlarfx c")
											if i, same := exactEq(cx.get(), want); !same {
												ck.failf("Dlarfx: C[%d,%d]=%v, want %v (exact data)", i/imax(1, n), i%imax(1, n), cx.get().a[i], want.a[i])
											}
											if lenV < 11 && lenV > 0 && m > 0 && n > 0 {
												if _, same := vlib.Same64(workx, poisonVec(nw)); !same {
													ck.failf("Dlarfx: work referenced although the reflector has order %d < 11", lenV)
												}
												paths = "larfx-unrolled"
											} else {
												paths = "larfx-general"
											}
										}
									}
								}
								ck.ctx = ""
								t.Outcome(paths)
							})
						}
					}
				}
			}
		}
	}
}

// ---------------------------------------------------------------------------
// Dlarft + Dlarfb: exact (dyadic data)

// blockV is a set of k reflectors of order n stored as documented at Dlarfb.
type blockV struct {
	n, k   int
	direct lapack.Direct
	store  lapack.StoreV
	rf     refl // dense vectors
}

// unitPos returns the index of the implicit 1 of reflector i.
func (b blockV) unitPos(i int) int {
	if b.direct == lapack.Forward {
		return i
	}
	return b.n - b.k + i
}

// stored reports whether element l of reflector i is held in the V array.
func (b blockV) stored(i, l int) bool {
	if b.direct == lapack.Forward {
		return l > i
	}
	return l < b.n-b.k+i
}

func (b blockV) matrix() (M, func(i, j int) bool) {
	if b.store == lapack.ColumnWise {
		v := newM(b.n, b.k)
		for i := 0; i < b.k; i++ {
			for l := 0; l < b.n; l++ {
				v.a[l*b.k+i] = b.rf.v[i][l]
			}
		}
		return v, func(l, i int) bool { return b.stored(i, l) }
	}
	v := newM(b.k, b.n)
	for i := 0; i < b.k; i++ {
		for l := 0; l < b.n; l++ {
			v.a[i*b.n+l] = b.rf.v[i][l]
		}
	}
	return v, func(i, l int) bool { return b.stored(i, l) }
}

func directName(d lapack.Direct) string {
	if d == lapack.Forward {
		return "F"
	}
	return "B"
}

func storeName(s lapack.StoreV) string {
	if s == lapack.ColumnWise {
		return "C"
	}
	return "R"
}

// makeBlockV builds dyadic reflectors with a given zero pattern.
func makeBlockV(n, k int, direct lapack.Direct, store lapack.StoreV, vpat, tpat string) blockV {
	b := blockV{n: n, k: k, direct: direct, store: store}
	b.rf.dim = n
	for i := 0; i < k; i++ {
		v := make([]float64, n)
		for l := 0; l < n; l++ {
			if !b.stored(i, l) {
				continue
			}
			x := h3(l, i, 51)
			if x == 0 {
				x = 2
			}
			if x > 2 {
				x = 1
			}
			if x < -2 {
				x = -1
			}
			// distance from the unit position, 1-based
			d := l - b.unitPos(i)
			if d < 0 {
				d = -d
			}
			far := n - b.k // the number of stored elements of the shortest reflector
			_ = far
			switch vpat {
			case "dense":
			case "zero":
				x = 0
			case "zigzag": // reflector lengths long, short, long, ... (the lastv bookkeeping of Dlarft)
				if i%2 == 1 && d > 1 {
					x = 0
				}
			case "short": // all reflectors short
				if d > 1 {
					x = 0
				}
			case "grow": // lengths growing with i
				if d > i+1 {
					x = 0
				}
			case "shrink":
				if d > k-i {
					x = 0
				}
			}
			v[l] = float64(x)
		}
		v[b.unitPos(i)] = 1
		b.rf.v = append(b.rf.v, v)
		tau := []float64{0.5, 1, 0.25, 0.5}[i%4]
		switch tpat {
		case "tau0first":
			if i == 0 {
				tau = 0
			}
		case "tau0mid":
			if i == k/2 {
				tau = 0
			}
		case "tau0all":
			tau = 0
		}
		b.rf.tau = append(b.rf.tau, tau)
	}
	return b
}

func genLarfb(g *vlib.G) {
	N := vlib.Pick(g, 8, 10)
	K := vlib.Pick(g, 4, 5)
	for _, direct := range []lapack.Direct{lapack.Forward, lapack.Backward} {
		for _, store := range []lapack.StoreV{lapack.ColumnWise, lapack.RowWise} {
			for n := 1; n <= N; n++ {
				for k := 1; k <= imin(n, K); k++ {
					for _, vpat := range []string{"dense", "zero", "zigzag", "short", "grow", "shrink"} {
						for _, tpat := range []string{"tau", "tau0first", "tau0mid", "tau0all"} {
							direct, store, n, k, vpat, tpat := direct, store, n, k, vpat, tpat
							g.Case(fmt.Sprintf("Dlarft+Dlarfb direct=%s store=%s n=%d k=%d v=%s t=%s", directName(direct), storeName(store), n, k, vpat, tpat), func(t *vlib.T) {
								ck := &checker{t: t}
								if k >= 2 {
									t.Nontrivial()
								}
								b := makeBlockV(n, k, direct, store, vpat, tpat)
								h := qOf(b.rf, direct == lapack.Forward)
								vm, keepV := b.matrix()
								risky := direct == lapack.Forward && larftRisk(b.rf)
								if risky {
									ck.class = larftClass
								}
								keepT := keepUpper
								if direct == lapack.Backward {
									keepT = keepLower
								}
								var tmat M
								for _, ldv := range []int{vm.c, vm.c + 2} {
									for _, ldt := range []int{k, k + 2} {
										ck.ctx = fmt.Sprintf("ldv=%d ldt=%d", ldv, ldt)
										vs := place(vm, ldv, keepV)
										ts := place(newM(k, k), ldt, func(i, j int) bool { return false })
										tau := append([]float64(nil), b.rf.tau...)
										if msg := catch(func() { impl.Dlarft(direct, store, n, k, vs.d, ldv, tau, ts.d, ldt) }); msg != "" {
											old := ck.class
											if direct == lapack.Forward && store == lapack.ColumnWise && k == n && (ldv > k || k >= 2) && tau[k-1] != 0 {
												// known: v[(i+1)*ldv:] is sliced for i = n-1 although no row is left
												ck.class = larftSliceClass
											}
											ck.failf("Dlarft panicked on valid arguments (len(v)=%d = (n-1)*ldv+k): %s", len(vs.d), msg)
											ck.class = old
											continue
										}
										vs.checkRO(ck, "Dlarft v")
										if _, same := vlib.Same64(tau, b.rf.tau); !same {
											ck.failf("Dlarft modified tau")
										}
										// the documented triangle is output, the rest must stay untouched
										for i := 0; i < k; i++ {
											for j := 0; j < k; j++ {
												if keepT(i, j) {
													ts.ref[i*ldt+j] = true
												}
											}
										}
										ts.checkOut(ck, "Dlarft t")
										tm := ts.getRef()
										if hasNaN(tm) {
											continue
										}
										// H = I - V T V^T with dense V (implicit ones and zeros filled in)
										vd := newM(n, k)
										for i := 0; i < k; i++ {
											for l := 0; l < n; l++ {
												vd.a[l*k+i] = b.rf.v[i][l]
											}
										}
										got := sub(eye(n), mul(mul(vd, tm), vd.T()))
										if i, same := exactEq(got, h); !same {
											ck.failf("Dlarft: (I - V*T*V^T)[%d,%d]=%v but the product of the reflectors has %v (exact data); T=%v", i/n, i%n, got.a[i], h.a[i], tm.a)
										}
										tmat = tm
									}
								}
								ck.ctx = ""
								// Dlarfb with a T computed by the definition (independent of Dlarft's result):
								// T is the unique triangular solution of V T V^T = I - H; use the recurrence.
								tref := trefOf(b)
								_ = tmat
								for _, side := range sides {
									for _, trans := range transes {
										for _, other := range []int{0, 1, 3} {
											m, nn := n, other
											if side == blas.Right {
												m, nn = other, n
											}
											c := genDD(9)(m, nn)
											hop := h
											if trans == blas.Trans {
												hop = h.T()
											}
											var want M
											if side == blas.Left {
												want = mul(hop, c)
											} else {
												want = mul(c, hop)
											}
											for _, pads := range [][4]int{{0, 0, 0, 0}, {2, 0, 3, 1}, {0, 3, 1, 2}, {1, 2, 0, 3}} {
												pv, pt, pc, pw := pads[0], pads[1], pads[2], pads[3]
												ck.ctx = fmt.Sprintf("Dlarfb side=%s trans=%s other=%d pads=%v", sideName(side), transName(trans), other, pads)
												ck.class = "" // T comes from the harness: Dlarfb itself is not affected by the Dlarft defect
												vs := place(vm, vm.c+pv, keepV)
												ts := place(tref, k+pt, keepT)
												cs := place(c, imax(1, nn)+pc, nil)
												nw := nn
												if side == blas.Right {
													nw = m
												}
												ldw := k + pw
												work := poisonVec(imax(0, (nw-1)*ldw+k))
												if nw == 0 {
													work = poisonVec(0)
												}
												impl.Dlarfb(side, trans, direct, store, m, nn, k, vs.d, vm.c+pv, ts.d, k+pt, cs.d, imax(1, nn)+pc, work, ldw)
												vs.checkRO(ck, "Dlarfb v")
												ts.checkRO(ck, "Dlarfb t")
												cs.checkOut(ck, "Dlarfb c")
												if m > 0 && nn > 0 {
													if i, same := exactEq(cs.get(), want); !same {
														ck.failf("Dlarfb: C[%d,%d]=%v, want %v (exact data)", i/nn, i%nn, cs.get().a[i], want.a[i])
													}
												}
											}
										}
									}
								}
								ck.ctx = ""
								t.Outcome(fmt.Sprintf("%s%s/%s/risky=%v", directName(direct), storeName(store), vpat, risky))
							})
						}
					}
				}
			}
		}
	}
}

// trefOf computes the triangular factor by its definition: for forward
// reflectors H_0..H_{i} = I - V_i T_i V_i^T gives T_i = [T_{i-1}, -tau_i T_{i-1} V_{i-1}^T v_i; 0, tau_i].
func trefOf(b blockV) M {
	k, n := b.k, b.n
	t := newM(k, k)
	order := make([]int, k)
	for i := range order {
		order[i] = i
	}
	if b.direct == lapack.Backward {
		for i := range order {
			order[i] = k - 1 - i
		}
	}
	for step, i := range order {
		prev := order[:step]
		// w = V_prev^T v_i
		w := make([]float64, k)
		for _, p := range prev {
			for l := 0; l < n; l++ {
				w[p] += b.rf.v[p][l] * b.rf.v[i][l]
			}
		}
		// t[prev, i] = -tau_i * T[prev,prev] * w
		for _, p := range prev {
			var s float64
			for _, q := range prev {
				s += t.a[p*k+q] * w[q]
			}
			t.a[p*k+i] = -b.rf.tau[i] * s
		}
		t.a[i*k+i] = b.rf.tau[i]
	}
	return t
}
