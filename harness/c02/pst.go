package main

import (
	"fmt"
	"math"

	"gonum.org/v1/gonum/blas"
	"gonum.org/v1/gonum/internal/verif/vlib"
)

type pstRun struct {
	fac  M // referenced triangle after the call, zero elsewhere
	piv  []int
	rank int
	ok   bool
	path string
}

func runPstrf(ck *checker, what string, uplo blas.Uplo, a M, lda int, tol float64, blocked bool) pstRun {
	n := a.r
	s := place(a, lda, keepUplo(uplo))
	piv := make([]int, n)
	for i := range piv {
		piv[i] = -5
	}
	work := poisonVec(2 * n)
	resetL3()
	var r pstRun
	if blocked {
		r.rank, r.ok = impl.Dpstrf(uplo, n, s.d, lda, piv, tol, work)
	} else {
		r.rank, r.ok = impl.Dpstf2(uplo, n, s.d, lda, piv, tol, work)
	}
	r.path = pathL3()
	r.fac = s.getRef()
	r.piv = piv
	if i, intact := s.poisonIntact(); !intact {
		ck.failf("%s: unreferenced storage written at offset %d (row %d col %d)", what, i, i/lda, i%lda)
	}
	return r
}

func isPerm(p []int) bool {
	seen := make([]bool, len(p))
	for _, v := range p {
		if v < 0 || v >= len(p) || seen[v] {
			return false
		}
		seen[v] = true
	}
	return true
}

// pstOracle checks rank, permutation, reconstruction and the stopping criterion.
// kind: "pd" (rank n required), "psd" (reconstruction required), "any".
func pstOracle(ck *checker, what string, uplo blas.Uplo, a M, r pstRun, tol float64, kind string, wantRank int, mustFail bool) {
	n := a.r
	if n == 0 {
		if r.rank != 0 || !r.ok {
			ck.failf("%s: n=0 returned rank=%d ok=%v", what, r.rank, r.ok)
		}
		return
	}
	if r.rank < 0 || r.rank > n || r.ok != (r.rank == n) {
		ck.failf("%s: rank=%d ok=%v inconsistent (n=%d)", what, r.rank, r.ok, n)
		return
	}
	maxd := a.at(0, 0)
	for i := 1; i < n; i++ {
		if a.at(i, i) > maxd {
			maxd = a.at(i, i)
		}
	}
	if maxd <= 0 {
		// documented early exit: rank 0, not ok, (piv is the identity)
		if r.rank != 0 || r.ok {
			ck.failf("%s: largest diagonal %v <= 0 but rank=%d ok=%v", what, maxd, r.rank, r.ok)
		}
		return
	}
	if !isPerm(r.piv) {
		ck.failf("%s: piv=%v is not a permutation", what, r.piv)
		return
	}
	if mustFail && r.ok {
		ck.failf("%s: ok=true on a matrix that is not positive semidefinite", what)
	}
	if kind == "pd" && r.rank != n {
		ck.failf("%s: rank=%d on a positive definite matrix of order %d", what, r.rank, n)
	}
	if wantRank >= 0 && r.rank != wantRank {
		ck.failf("%s: rank=%d, want %d", what, r.rank, wantRank)
	}
	dstop := tol
	if tol < 0 {
		dstop = float64(n) * (eps / 2) * maxd
	}
	// factor: the first rank rows (upper) / columns (lower) of the triangle.
	u := newM(n, n) // as upper factor: pap ~= u^T u
	for i := 0; i < r.rank; i++ {
		for j := i; j < n; j++ {
			if uplo == blas.Upper {
				u.a[i*n+j] = r.fac.at(i, j)
			} else {
				u.a[i*n+j] = r.fac.at(j, i)
			}
		}
	}
	if hasNaN(u) {
		ck.failf("%s: NaN in factor", what)
		return
	}
	for i := 0; i < r.rank; i++ {
		d := u.at(i, i)
		if !(d > 0) {
			ck.failf("%s: factor diagonal %d is %v", what, i, d)
			return
		}
		if i > 0 && d > u.at(i-1, i-1)*(1+1e-9) {
			ck.failf("%s: factor diagonal not non-increasing: d[%d]=%v > d[%d]=%v", what, i, d, i-1, u.at(i-1, i-1))
		}
		if i > 0 && d*d <= dstop*(1-1e-9) {
			ck.failf("%s: accepted pivot %v <= stopping value %v", what, d*d, dstop)
		}
	}
	pap := newM(n, n)
	for i := 0; i < n; i++ {
		for j := 0; j < n; j++ {
			pap.a[i*n+j] = a.at(r.piv[i], r.piv[j])
		}
	}
	s := sub(pap, mul(u.T(), u))
	an := norm1(a)
	if r.rank < n {
		// stopping criterion: every remaining diagonal of the Schur complement is <= dstop (up to rounding).
		for i := r.rank; i < n; i++ {
			if s.at(i, i) > dstop*(1+1e-9)+10*float64(n)*eps*an {
				ck.failf("%s: stopped at rank %d although Schur complement diagonal %d is %v > stopping value %v", what, r.rank, i, s.at(i, i), dstop)
				break
			}
		}
	}
	if kind == "any" {
		// indefinite input: only the leading rank x n part is reconstructed.
		s = s.slice(0, r.rank, 0, n)
	}
	if kind == "any" && r.rank == 0 {
		return
	}
	// for semidefinite input the neglected Schur complement is bounded by n*dstop.
	res := norm1(s)
	den := float64(n)*eps*an + float64(n)*dstop
	ck.ratio("pstrf |PtAP-UtU|/(n eps |A| + n dstop)", res/den)
}

func genPst(g *vlib.G) {
	N := vlib.Pick(g, 12, 14)
	nbs := vlib.Pick(g, []int{1, 2, 3, 4}, []int{1, 2, 3, 4, 5})
	fams := symFams(N, true)
	for n := 0; n <= N; n++ {
		for _, f := range fams {
			if k, ok := posFam(f.name); ok && k >= n {
				continue
			}
			for _, uplo := range uplos {
				for _, nb := range nbs {
					for _, tolSel := range []int{0, 1} {
						n, f, uplo, nb, tolSel := n, f, uplo, nb, tolSel
						if tolSel == 1 && !f.pd {
							continue
						}
						g.Case(fmt.Sprintf("Dpstrf uplo=%s n=%d fam=%s nb=%d tol=%d", uploName(uplo), n, f.name, nb, tolSel), func(t *vlib.T) {
							defer seamOff()
							seamOn(nb, 0)
							ck := &checker{t: t}
							a := f.gen(n)
							if n >= 2 {
								t.Nontrivial()
							}
							tol := -1.0
							kind, want := "any", -1
							switch {
							case f.pd:
								kind = "pd"
							case f.name == "psd1":
								kind = "psd"
								want = imin(n, 1)
							case f.name == "zero":
								want = 0
							}
							if tolSel == 1 && n > 0 {
								// an explicit tolerance that stops a positive definite factorization early
								mx := 0.0
								for i := 0; i < n; i++ {
									mx = math.Max(mx, a.at(i, i))
								}
								tol = 0.4 * mx
								kind = "any"
							}
							mustFail := tolSel == 0 && f.notPD != nil && f.notPD(n)
							rankExact := tolSel == 0 && (f.pd || f.name == "psd1" || f.name == "zero")
							ref := runPstrf(ck, "Dpstf2 packed", uplo, a, imax(1, n), tol, false)
							pstOracle(ck, "Dpstf2 packed", uplo, a, ref, tol, kind, want, mustFail)
							path := ""
							for _, lda := range []int{imax(1, n), imax(1, n) + 3} {
								ck.ctx = fmt.Sprintf("lda=%d", lda)
								rb := runPstrf(ck, "Dpstrf", uplo, a, lda, tol, true)
								pstOracle(ck, "Dpstrf", uplo, a, rb, tol, kind, want, mustFail)
								if rankExact && rb.rank != ref.rank {
									ck.failf("Dpstrf rank=%d but Dpstf2 rank=%d", rb.rank, ref.rank)
								}
								if f.well && rb.rank == ref.rank && intsSame(rb.piv, ref.piv) && n > 0 {
									k := rb.rank
									var x, y M
									if uplo == blas.Upper {
										x, y = rb.fac.slice(0, k, 0, n), ref.fac.slice(0, k, 0, n)
									} else {
										x, y = rb.fac.slice(0, n, 0, k), ref.fac.slice(0, n, 0, k)
									}
									if d := maxAbsDiff(x, y); d > diffTol*math.Max(1, normMax(a)) {
										ck.failf("Dpstrf vs Dpstf2: factors differ by %.3g", d)
									}
								}
								path = rb.path
							}
							t.Outcome(fmt.Sprintf("%s/rank%s", path, map[bool]string{true: "=n", false: "<n"}[ref.rank == n]))
						})
					}
				}
			}
		}
	}
}

// ---------------------------------------------------------------------------
// Exactly rank-deficient positive semidefinite matrices and caller-supplied tolerances.

// genPSDClusters: rows fall into r clusters (i mod r); A[i,j] = 2^(s_i+s_j) if i and j are in the same
// cluster, else 0. Every quantity of the pivoted factorization is a power of two: the pivot of cluster g is
// max 4^s_i, the Schur complement of a used cluster is exactly zero, the rank is exactly r. pivots
// returns the cluster pivots in decreasing order.
func genPSDClusters(n, r int) (a M, pivots []float64) {
	s := make([]int, n)
	for i := range s {
		s[i] = ((i/r)*2+i)%3 - 1
	}
	a = newM(n, n)
	p := make([]float64, r)
	for i := 0; i < n; i++ {
		for j := 0; j < n; j++ {
			if i%r == j%r {
				a.a[i*n+j] = math.Ldexp(1, s[i]+s[j])
			}
		}
		p[i%r] = math.Max(p[i%r], math.Ldexp(1, 2*s[i]))
	}
	for i := 1; i < len(p); i++ {
		for j := i; j > 0 && p[j] > p[j-1]; j-- {
			p[j], p[j-1] = p[j-1], p[j]
		}
	}
	return a, p
}

// pstTols: the caller-supplied tolerances: default, zero (exact tie with the zero Schur complement), a
// subnormal, exactly the smallest pivot (tie with an accepted-looking pivot), between two pivots.
func pstTols(pivots []float64) []struct {
	name string
	tol  float64
} {
	small := pivots[len(pivots)-1]
	return []struct {
		name string
		tol  float64
	}{{"default", -1}, {"zero", 0}, {"subnormal", 0x1p-1070}, {"tie", small}, {"moderate", 0.75 * pivots[0]}}
}

func genPstTol(g *vlib.G) {
	N := vlib.Pick(g, 10, 14)
	nbs := vlib.Pick(g, []int{1, 2, 3, 4}, []int{1, 2, 3, 4, 5})
	for n := 2; n <= N; n++ {
		for _, r := range uniq(1, 1, 2, 3, n-2, n-1) {
			if r >= n {
				continue
			}
			_, piv0 := genPSDClusters(n, r)
			for _, tl := range pstTols(piv0) {
				for _, nb := range nbs {
					n, r, tl, nb := n, r, tl, nb
					g.Case(fmt.Sprintf("Dpstrf exact-psd n=%d rank=%d tol=%s nb=%d", n, r, tl.name, nb), func(t *vlib.T) {
						defer seamOff()
						seamOn(nb, 0)
						ck := &checker{t: t}
						t.Nontrivial()
						a, pivots := genPSDClusters(n, r)
						dstop := tl.tol
						if dstop < 0 {
							dstop = float64(n) * (eps / 2) * pivots[0]
						}
						// the first pivot is accepted whatever the tolerance, each later one iff it exceeds dstop
						want := 1
						for _, p := range pivots[1:] {
							if p > dstop {
								want++
							}
						}
						paths := map[string]bool{}
						for _, uplo := range uplos {
							for _, blocked := range []bool{false, true} {
								for _, lda := range []int{n, n + 3} {
									name := "Dpstf2"
									if blocked {
										name = "Dpstrf"
									}
									ck.ctx = fmt.Sprintf("%s uplo=%s lda=%d", name, uploName(uplo), lda)
									run := runPstrf(ck, name, uplo, a, lda, tl.tol, blocked)
									if blocked {
										paths[run.path] = true
									}
									if run.rank != want || run.ok {
										ck.failf("rank=%d ok=%v, want rank %d (cluster pivots %v, stopping value %v) and ok=false", run.rank, run.ok, want, pivots, dstop)
									}
									for _, v := range run.fac.a {
										if math.IsNaN(v) || math.IsInf(v, 0) {
											ck.failf("NaN or Inf in the factor (a pivot equal to the stopping value was accepted?)")
											break
										}
									}
									pstOracle(ck, name, uplo, a, run, tl.tol, "psd", want, true)
									// exact data: every accepted pivot after the first is strictly above the stopping value,
									// and the factor diagonal holds the exact square roots
									for i := 0; i < imin(run.rank, n); i++ {
										d := run.fac.at(i, i)
										if i < len(pivots) && d*d != pivots[i] {
											ck.failf("pivot %d is %v, want exactly %v", i, d*d, pivots[i])
											break
										}
										if i > 0 && !(d*d > dstop) {
											ck.failf("accepted pivot %v is not above the stopping value %v", d*d, dstop)
											break
										}
									}
								}
							}
						}
						ck.ctx = ""
						oc := ""
						for _, k := range vlib.SortedKeys(paths) {
							oc += "+" + k
						}
						t.Outcome(tl.name + "/" + oc)
					})
				}
			}
		}
	}
}
