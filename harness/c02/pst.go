package main

import (
	"fmt"
	"math"

	"gonum.org/v1/gonum/blas"
	"gonum.org/v1/gonum/internal/verif/vlib"
)

type pstRun struct {
	fac  M // referenced triangle after the call, zero elsewhere
	piv  []int
	rank int
	ok   bool
	path string
}

func runPstrf(ck *checker, what string, uplo blas.Uplo, a M, lda int, tol float64, blocked bool) pstRun {
	n := a.r
	s := place(a, lda, keepUplo(uplo))
	piv := make([]int, n)
	for i := range piv {
		piv[i] = -5
	}
	work := poisonVec(2 * n)
	resetL3()
	var r pstRun
	if blocked {
		r.rank, r.ok = impl.Dpstrf(uplo, n, s.d, lda, piv, tol, work)
	} else {
		r.rank, r.ok = impl.Dpstf2(uplo, n, s.d, lda, piv, tol, work)
	}
	r.path = pathL3()
	r.fac = s.getRef()
	r.piv = piv
	if i, intact := s.poisonIntact(); !intact {
		ck.failf("%s: unreferenced storage written at offset %d (row %d col %d)", what, i, i/lda, i%lda)
	}
	return r
}

func isPerm(p []int) bool {
	seen := make([]bool, len(p))
	for _, v := range p {
		if v < 0 || v >= len(p) || seen[v] {
			return false
		}
		seen[v] = true
	}
	return true
}

// pstOracle checks rank, permutation, reconstruction and the stopping criterion.
// kind: "pd" (rank n required), "psd" (reconstruction required), "any".
func pstOracle(ck *checker, what string, uplo blas.Uplo, a M, r pstRun, tol float64, kind string, wantRank int, mustFail bool) {
	n := a.r
	if n == 0 {
		if r.rank != 0 || !r.ok {
			ck.failf("%s: n=0 returned rank=%d ok=%v", what, r.rank, r.ok)
		}
		return
	}
	if r.rank < 0 || r.rank > n || r.ok != (r.rank == n) {
		ck.failf("%s: rank=%d ok=%v inconsistent (n=%d)", what, r.rank, r.ok, n)
		return
	}
	maxd := a.at(0, 0)
	for i := 1; i < n; i++ {
		if a.at(i, i) > maxd {
			maxd = a.at(i, i)
		}
	}
	if maxd <= 0 {
		// documented early exit: rank 0, not ok, (piv is the identity)
		if r.rank != 0 || r.ok {
			ck.failf("%s: largest diagonal %v <= 0 but rank=%d ok=%v", what, maxd, r.rank, r.ok)
		}
		return
	}
	if !isPerm(r.piv) {
		ck.failf("%s: piv=%v is not a permutation", what, r.piv)
		return
	}
	if mustFail && r.ok {
		ck.failf("%s: ok=true on a matrix that is not positive semidefinite", what)
	}
	if kind == "pd" && r.rank != n {
		ck.failf("%s: rank=%d on a positive definite matrix of order %d", what, r.rank, n)
	}
	if wantRank >= 0 && r.rank != wantRank {
		ck.failf("%s: rank=%d, want %d", what, r.rank, wantRank)
	}
	dstop := tol
	if tol < 0 {
		dstop = float64(n) * (eps / 2) * maxd
	}
	// factor: the first rank rows (upper) / columns (lower) of the triangle.
	u := newM(n, n) // as upper factor: pap ~= u^T u
	for i := 0; i < r.rank; i++ {
		for j := i; j < n; j++ {
			if uplo == blas.Upper {
				u.a[i*n+j] = r.fac.at(i, j)
			} else {
				u.a[i*n+j] = r.fac.at(j, i)
			}
		}
	}
	if hasNaN(u) {
		ck.failf("%s: NaN in factor", what)
		return
	}
	for i := 0; i < r.rank; i++ {
		d := u.at(i, i)
		if !(d > 0) {
			ck.failf("%s: factor diagonal %d is %v", what, i, d)
			return
		}
		if i > 0 && d > u.at(i-1, i-1)*(1+1e-9) {
			ck.failf("%s: factor diagonal not non-increasing: d[%d]=%v > d[%d]=%v", what, i, d, i-1, u.at(i-1, i-1))
		}
		if i > 0 && d*d <= dstop*(1-1e-9) {
			ck.failf("%s: accepted pivot %v <= stopping value %v", what, d*d, dstop)
		}
	}
	pap := newM(n, n)
	for i := 0; i < n; i++ {
		for j := 0; j < n; j++ {
			pap.a[i*n+j] = a.at(r.piv[i], r.piv[j])
		}
	}
	s := sub(pap, mul(u.T(), u))
	an := norm1(a)
	if r.rank < n {
		// stopping criterion: every remaining diagonal of the Schur complement is <= dstop (up to rounding).
		for i := r.rank; i < n; i++ {
			if s.at(i, i) > dstop*(1+1e-9)+10*float64(n)*eps*an {
				ck.failf("%s: stopped at rank %d although Schur complement diagonal %d is %v > stopping value %v", what, r.rank, i, s.at(i, i), dstop)
				break
			}
		}
	}
	if kind == "any" {
		// indefinite input: only the leading rank x n part is reconstructed.
		s = s.slice(0, r.rank, 0, n)
	}
	if kind == "any" && r.rank == 0 {
		return
	}
	// for semidefinite input the neglected Schur complement is bounded by n*dstop.
	res := norm1(s)
	den := float64(n)*eps*an + float64(n)*dstop
	ck.ratio("pstrf |PtAP-UtU|/(n eps |A| + n dstop)", res/den)
}

func genPst(g *vlib.G) {
	N := vlib.Pick(g, 12, 14)
	nbs := vlib.Pick(g, []int{1, 2, 3, 4}, []int{1, 2, 3, 4, 5})
	fams := symFams(N, true)
	for n := 0; n <= N; n++ {
		for _, f := range fams {
			if k, ok := posFam(f.name); ok && k >= n {
				continue
			}
			for _, uplo := range uplos {
				for _, nb := range nbs {
					for _, tolSel := range []int{0, 1} {
						n, f, uplo, nb, tolSel := n, f, uplo, nb, tolSel
						if tolSel == 1 && !f.pd {
							continue
						}
						g.Case(fmt.Sprintf("Dpstrf uplo=%s n=%d fam=%s nb=%d tol=%d", uploName(uplo), n, f.name, nb, tolSel), func(t *vlib.T) {
							defer seamOff()
							seamOn(nb, 0)
							ck := &checker{t: t}
							a := f.gen(n)
							if n >= 2 {
								t.Nontrivial()
							}
							tol := -1.0
							kind, want := "any", -1
							switch {
							case f.pd:
								kind = "pd"
							case f.name == "psd1":
								kind = "psd"
								want = imin(n, 1)
							case f.name == "zero":
								want = 0
							}
							if tolSel == 1 && n > 0 {
								// an explicit tolerance that stops a positive definite factorization early
								mx := 0.0
								for i := 0; i < n; i++ {
									mx = math.Max(mx, a.at(i, i))
								}
								tol = 0.4 * mx
								kind = "any"
							}
							mustFail := tolSel == 0 && f.notPD != nil && f.notPD(n)
							rankExact := tolSel == 0 && (f.pd || f.name == "psd1" || f.name == "zero")
							ref := runPstrf(ck, "Dpstf2 packed", uplo, a, imax(1, n), tol, false)
							pstOracle(ck, "Dpstf2 packed", uplo, a, ref, tol, kind, want, mustFail)
							path := ""
							for _, lda := range []int{imax(1, n), imax(1, n) + 3} {
								ck.ctx = fmt.Sprintf("lda=%d", lda)
								rb := runPstrf(ck, "Dpstrf", uplo, a, lda, tol, true)
								pstOracle(ck, "Dpstrf", uplo, a, rb, tol, kind, want, mustFail)
								if rankExact && rb.rank != ref.rank {
									ck.failf("Dpstrf rank=%d but Dpstf2 rank=%d", rb.rank, ref.rank)
								}
								if f.well && rb.rank == ref.rank && intsSame(rb.piv, ref.piv) && n > 0 {
									k := rb.rank
									var x, y M
									if uplo == blas.Upper {
										x, y = rb.fac.slice(0, k, 0, n), ref.fac.slice(0, k, 0, n)
									} else {
										x, y = rb.fac.slice(0, n, 0, k), ref.fac.slice(0, n, 0, k)
									}
									if d := maxAbsDiff(x, y); d > diffTol*math.Max(1, normMax(a)) {
										ck.failf("Dpstrf vs Dpstf2: factors differ by %.3g", d)
									}
								}
								path = rb.path
							}
							t.Outcome(fmt.Sprintf("%s/rank%s", path, map[bool]string{true: "=n", false: "<n"}[ref.rank == n]))
						})
					}
				}
			}
		}
	}
}
