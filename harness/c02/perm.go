package main

import (
	"fmt"

	"gonum.org/v1/gonum/internal/verif/vlib"
)

// distinct integer matrix: every element identifies its original position.
func labelM(m, n int) M {
	a := newM(m, n)
	for i := 0; i < m; i++ {
		for j := 0; j < n; j++ {
			a.a[i*n+j] = float64(100*(i+1) + j + 1)
		}
	}
	return a
}

// permutations of 0..n-1 in lexicographic order
func perms(n int) [][]int {
	var out [][]int
	p := make([]int, n)
	used := make([]bool, n)
	var rec func(k int)
	rec = func(k int) {
		if k == n {
			out = append(out, append([]int(nil), p...))
			return
		}
		for v := 0; v < n; v++ {
			if !used[v] {
				used[v] = true
				p[k] = v
				rec(k + 1)
				used[v] = false
			}
		}
	}
	rec(0)
	return out
}

func genLaswp(g *vlib.G) {
	M0 := vlib.Pick(g, 5, 6)
	for m := 1; m <= M0; m++ {
		for k1 := 0; k1 < m; k1++ {
			for k2 := k1; k2 < m; k2++ {
				cnt := k2 - k1 + 1
				total := 1
				for i := 0; i < cnt; i++ {
					total *= m
				}
				for code := 0; code < total; code++ {
					m, k1, k2, code := m, k1, k2, code
					g.Case(fmt.Sprintf("Dlaswp m=%d k1=%d k2=%d ipiv#%d", m, k1, k2, code), func(t *vlib.T) {
						ck := &checker{t: t}
						ipiv := make([]int, k2+1)
						for i := range ipiv {
							ipiv[i] = -1000 - i // entries below k1 must not be used
						}
						c := code
						moved := false
						for k := k1; k <= k2; k++ {
							ipiv[k] = c % m
							c /= m
							if ipiv[k] != k {
								moved = true
							}
						}
						if moved {
							t.Nontrivial()
						}
						for _, n := range []int{0, 1, 3} {
							for _, pad := range []int{0, 2} {
								for _, inc := range []int{1, -1} {
									ck.ctx = fmt.Sprintf("n=%d lda+%d inc=%d", n, pad, inc)
									a := labelM(m, n)
									want := a.clone()
									swap := func(k int) {
										p := ipiv[k]
										for j := 0; j < n; j++ {
											want.a[k*n+j], want.a[p*n+j] = want.a[p*n+j], want.a[k*n+j]
										}
									}
									if inc == 1 {
										for k := k1; k <= k2; k++ {
											swap(k)
										}
									} else {
										for k := k2; k >= k1; k-- {
											swap(k)
										}
									}
									lda := imax(1, n) + pad
									s := place(a, lda, nil)
									// Dlaswp needs at least k2+1 rows; hand it all m rows
									ip := append([]int(nil), ipiv...)
									var d []float64
									if s.d != nil {
										d = s.d
									}
									if n == 0 {
										d = make([]float64, imax(0, (m-1)*lda))
									}
									impl.Dlaswp(n, d, lda, k1, k2, ip, inc)
									if !intsSame(ip, ipiv) {
										ck.failf("Dlaswp modified ipiv")
									}
									if n > 0 {
										s.checkOut(ck, "Dlaswp a")
										if i, same := exactEq(s.get(), want); !same {
											ck.failf("a[%d,%d]=%v want %v (ipiv=%v)", i/n, i%n, s.get().a[i], want.a[i], ipiv)
										}
									}
								}
							}
						}
						t.Outcome(fmt.Sprintf("moved=%v", moved))
					})
				}
			}
		}
	}
}

func genLapm(g *vlib.G) {
	K := vlib.Pick(g, 6, 7)
	for _, rows := range []bool{false, true} {
		name := "Dlapmt"
		if rows {
			name = "Dlapmr"
		}
		for n := 0; n <= K; n++ {
			for pi, p := range perms(n) {
				for _, forward := range []bool{true, false} {
					rows, name, n, pi, p, forward := rows, name, n, pi, p, forward
					g.Case(fmt.Sprintf("%s forward=%v n=%d perm#%d", name, forward, n, pi), func(t *vlib.T) {
						ck := &checker{t: t}
						ident := true
						for i, v := range p {
							if v != i {
								ident = false
							}
						}
						if !ident {
							t.Nontrivial()
						}
						for _, other := range []int{0, 1, 3} {
							for _, pad := range []int{0, 2} {
								ck.ctx = fmt.Sprintf("other=%d ld+%d", other, pad)
								var x M
								if rows {
									x = labelM(n, other)
								} else {
									x = labelM(other, n)
								}
								want := newM(x.r, x.c)
								for i := 0; i < x.r; i++ {
									for j := 0; j < x.c; j++ {
										switch {
										case !rows && forward: // X[:,k[j]] moved to X[:,j]
											want.a[i*x.c+j] = x.at(i, p[j])
										case !rows && !forward: // X[:,j] moved to X[:,k[j]]
											want.a[i*x.c+p[j]] = x.at(i, j)
										case rows && forward: // X[k[i],:] moved to X[i,:]
											want.a[i*x.c+j] = x.at(p[i], j)
										default: // X[i,:] moved to X[k[i],:]
											want.a[p[i]*x.c+j] = x.at(i, j)
										}
									}
								}
								ldx := imax(1, x.c) + pad
								s := place(x, ldx, nil)
								k := append([]int(nil), p...)
								if rows {
									impl.Dlapmr(forward, x.r, x.c, s.d, ldx, k)
								} else {
									impl.Dlapmt(forward, x.r, x.c, s.d, ldx, k)
								}
								if x.r > 0 && x.c > 0 {
									s.checkOut(ck, name+" x")
									if i, same := exactEq(s.get(), want); !same {
										ck.failf("x[%d,%d]=%v want %v (k=%v)", i/x.c, i%x.c, s.get().a[i], want.a[i], p)
									}
									if !intsSame(k, p) {
										// LAPACK restores k on exit; gonum's documentation is silent. Recorded, not failed.
										t.Count("lapm_k_not_restored", 1)
									}
								}
							}
						}
						t.Outcome(fmt.Sprintf("identity=%v", ident))
					})
				}
			}
		}
	}
}
