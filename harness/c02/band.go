package main

import (
	"fmt"
	"math"

	"gonum.org/v1/gonum/blas"
	"gonum.org/v1/gonum/internal/verif/vlib"
)

// bslab is symmetric/triangular band storage as documented at Dpbtrf: row i of
// the band array holds A[i,i..i+kd] (upper) or A[i,i-kd..i] (lower, diagonal in
// column kd). Band corners and stride padding hold poison.
type bslab struct {
	d, snap []float64
	ref     []bool
	n, kd   int
	ld      int
	uplo    blas.Uplo
}

func (b *bslab) idx(i, j int) int {
	if b.uplo == blas.Upper {
		if j < i || j > i+b.kd {
			return -1
		}
		return i*b.ld + (j - i)
	}
	if j > i || j < i-b.kd {
		return -1
	}
	return i*b.ld + b.kd + (j - i)
}

// placeBand stores the uplo triangle of a within the band; unit: the diagonal is not referenced either.
func placeBand(a M, uplo blas.Uplo, kd, ld int, unit bool) *bslab {
	n := a.r
	b := &bslab{n: n, kd: kd, ld: ld, uplo: uplo}
	ln := 0
	if n > 0 {
		ln = (n-1)*ld + kd + 1
	}
	b.d = make([]float64, ln)
	b.ref = make([]bool, ln)
	for i := range b.d {
		b.d[i] = vlib.Poison64(i + 0x100)
	}
	for i := 0; i < n; i++ {
		for j := 0; j < n; j++ {
			if k := b.idx(i, j); k >= 0 && !(unit && i == j) {
				b.d[k] = a.at(i, j)
				b.ref[k] = true
			}
		}
	}
	b.snap = append([]float64(nil), b.d...)
	return b
}

// tri returns the stored triangle as a dense matrix (zero outside the band).
func (b *bslab) tri() M {
	m := newM(b.n, b.n)
	for i := 0; i < b.n; i++ {
		for j := 0; j < b.n; j++ {
			if k := b.idx(i, j); k >= 0 && b.ref[k] {
				m.a[i*b.n+j] = b.d[k]
			}
		}
	}
	return m
}

func (b *bslab) poisonIntact() (int, bool) {
	for i := range b.d {
		if !b.ref[i] && math.Float64bits(b.d[i]) != math.Float64bits(b.snap[i]) {
			return i, false
		}
	}
	return 0, true
}

func (b *bslab) checkRO(ck *checker, what string) {
	if i, ok := vlib.Same64(b.d, b.snap); !ok {
		ck.failf("%s: read-only band operand modified at offset %d (row %d col %d)", what, i, i/b.ld, i%b.ld)
	}
}

func (b *bslab) checkOut(ck *checker, what string) {
	if i, ok := b.poisonIntact(); !ok {
		ck.failf("%s: unreferenced band storage written at offset %d (row %d col %d of the band array, ld %d)", what, i, i/b.ld, i%b.ld, b.ld)
	}
}

// bandRestrict zeroes everything outside |i-j| <= kd.
func bandRestrict(a M, kd int) M {
	b := a.clone()
	for i := 0; i < a.r; i++ {
		for j := 0; j < a.c; j++ {
			if j-i > kd || i-j > kd {
				b.a[i*a.c+j] = 0
			}
		}
	}
	return b
}

type bfam struct {
	name  string
	gen   func(n, kd int) M
	pd    bool
	notPD func(n int) bool
	well  bool
}

func genBandSPD(n, kd int) M {
	a := newM(n, n)
	for i := 0; i < n; i++ {
		for j := i + 1; j < n && j <= i+kd; j++ {
			v := float64(h3(i, j, 20))
			a.a[i*n+j] = v
			a.a[j*n+i] = v
		}
	}
	for i := 0; i < n; i++ {
		s := 0.0
		for j := 0; j < n; j++ {
			if j != i {
				s += math.Abs(a.a[i*n+j])
			}
		}
		a.a[i*n+i] = s + 1
	}
	return a
}

func genBandGraded(n, kd int) M {
	a := genBandSPD(n, kd)
	for i := 0; i < n; i++ {
		for j := 0; j < n; j++ {
			ei, ej := i%7, j%7
			if i%2 == 1 {
				ei = -ei
			}
			if j%2 == 1 {
				ej = -ej
			}
			a.a[i*n+j] = math.Ldexp(a.a[i*n+j], ei+ej)
		}
	}
	return a
}

func bandFams(maxn int) []bfam {
	fs := []bfam{
		{"bspd", genBandSPD, true, nil, true},
		{"bgraded", genBandGraded, true, nil, false},
		{"id", func(n, kd int) M { return eye(n) }, true, nil, true},
		{"zero", func(n, kd int) M { return newM(n, n) }, false, func(n int) bool { return n > 0 }, false},
	}
	for k := 0; k < maxn; k++ {
		k := k
		fs = append(fs, bfam{fmt.Sprintf("negdiag%d", k), func(n, kd int) M {
			a := genBandSPD(n, kd)
			if k < n {
				a.a[k*n+k] = -1
			}
			return a
		}, false, func(n int) bool { return k < n }, false})
		fs = append(fs, bfam{fmt.Sprintf("ldlneg%d", k), func(n, kd int) M { return genLDLNeg(k, kd)(n) },
			false, func(n int) bool { return k < n }, false})
		if k >= 1 {
			fs = append(fs, bfam{fmt.Sprintf("zeropiv%d", k), func(n, kd int) M {
				if kd == 0 {
					a := eye(n) // no off-diagonal in the band: put the zero pivot on the diagonal
					if k < n {
						a.a[k*n+k] = 0
					}
					return a
				}
				return genZeroPiv(k)(n)
			}, false, func(n int) bool { return k < n }, false})
		}
	}
	return fs
}

func kdMenu(n int, thorough bool) []int {
	if thorough {
		return uniq(0, 0, 1, 2, 3, 4, 5, 6, 7, 8, n-1, n+1)
	}
	return uniq(0, 0, 1, 2, 3, 4, 5, 6, n-1, n+1)
}

type pbRun struct {
	fac  M
	ok   bool
	path string
}

func runPbtrf(ck *checker, what string, uplo blas.Uplo, a M, kd, ldab int, blocked bool) pbRun {
	n := a.r
	s := placeBand(a, uplo, kd, ldab, false)
	resetL3()
	var ok bool
	if blocked {
		ok = impl.Dpbtrf(uplo, n, kd, s.d, ldab)
	} else {
		ok = impl.Dpbtf2(uplo, n, kd, s.d, ldab)
	}
	r := pbRun{fac: s.tri(), ok: ok, path: pathL3()}
	s.checkOut(ck, what)
	return r
}

func bandCholOracle(ck *checker, what string, uplo blas.Uplo, a M, r pbRun, f bfam) {
	n := a.r
	if f.pd && !r.ok {
		ck.failf("%s: ok=false on a positive definite band matrix", what)
	}
	if f.notPD != nil && f.notPD(n) && r.ok {
		ck.failf("%s: ok=true on a matrix that is not positive definite", what)
	}
	if !r.ok || n == 0 {
		return
	}
	if hasNaN(r.fac) {
		ck.failf("%s: NaN in band factor", what)
		return
	}
	for i := 0; i < n; i++ {
		if !(r.fac.at(i, i) > 0) {
			ck.failf("%s: diagonal %d of the factor is %v", what, i, r.fac.at(i, i))
			return
		}
	}
	res := norm1(sub(cholProduct(r.fac, uplo), a))
	ck.ratio("pbtrf |RtR-A|/(n eps |A|)", res/(float64(n)*eps*norm1(a)))
}

func genBandChol(g *vlib.G) {
	N := vlib.Pick(g, 12, 14)
	nbs := vlib.Pick(g, []int{1, 2, 3, 4}, []int{1, 2, 3, 4, 5})
	fams := bandFams(N)
	for n := 0; n <= N; n++ {
		for _, kd := range kdMenu(n, g.Thorough()) {
			for _, f := range fams {
				if k, ok := posFam(f.name); ok && k >= n {
					continue
				}
				for _, uplo := range uplos {
					for _, nb := range nbs {
						n, kd, f, uplo, nb := n, kd, f, uplo, nb
						g.Case(fmt.Sprintf("Dpbtrf uplo=%s n=%d kd=%d fam=%s nb=%d", uploName(uplo), n, kd, f.name, nb), func(t *vlib.T) {
							defer seamOff()
							seamOn(nb, 0)
							ck := &checker{t: t}
							a := f.gen(n, kd)
							if n >= 2 && kd >= 1 {
								t.Nontrivial()
							}
							ref := runPbtrf(ck, "Dpbtf2 packed", uplo, a, kd, kd+1, false)
							bandCholOracle(ck, "Dpbtf2 packed", uplo, a, ref, f)
							if ref.path != "unblocked" {
								ck.failf("harness: Dpbtf2 used level-3 BLAS")
							}
							path := ""
							var facB pbRun
							for _, ldab := range []int{kd + 1, kd + 4} {
								ck.ctx = fmt.Sprintf("ldab=%d", ldab)
								if ldab != kd+1 {
									r2 := runPbtrf(ck, "Dpbtf2", uplo, a, kd, ldab, false)
									bandCholOracle(ck, "Dpbtf2", uplo, a, r2, f)
									if r2.ok == ref.ok && ref.ok && f.well {
										if d := maxAbsDiff(r2.fac, ref.fac); d > diffTol*math.Max(1, normMax(a)) {
											ck.failf("Dpbtf2 ldab vs packed: factors differ by %.3g", d)
										}
									}
								}
								rb := runPbtrf(ck, "Dpbtrf", uplo, a, kd, ldab, true)
								bandCholOracle(ck, "Dpbtrf", uplo, a, rb, f)
								if rb.ok == ref.ok && ref.ok && f.well {
									if d := maxAbsDiff(rb.fac, ref.fac); d > diffTol*math.Max(1, normMax(a)) {
										ck.failf("Dpbtrf vs Dpbtf2: factors differ by %.3g", d)
									}
								}
								path = rb.path
								facB = rb
							}
							ck.ctx = ""
							okc := "pd"
							if !ref.ok {
								okc = "notpd"
							}
							t.Outcome(path + "/" + okc)
							if !facB.ok || !f.pd {
								return
							}
							// Dpbtrs and Dpbcon on the blocked factor.
							ldab := kd + 1 + (nb % 2 * 3)
							facS := placeBand(facB.fac, uplo, kd, ldab, false)
							for _, nrhs := range []int{0, 1, 3} {
								for _, ldb := range []int{imax(1, nrhs), imax(1, nrhs) + 3} {
									ck.ctx = fmt.Sprintf("nrhs=%d ldb=%d", nrhs, ldb)
									x := xTrue(n, nrhs)
									b := mul(a, x)
									bs := place(b, ldb, nil)
									impl.Dpbtrs(uplo, n, kd, nrhs, facS.d, ldab, bs.d, ldb)
									facS.checkRO(ck, "Dpbtrs ab")
									bs.checkOut(ck, "Dpbtrs b")
									xh := bs.get()
									solveResid(ck, "Dpbtrs", a, xh, b, n)
									if f.well && n > 0 && nrhs > 0 {
										if d := maxAbsDiff(xh, x); d > diffTol*normMax(x) {
											ck.failf("Dpbtrs: forward error %.3g on a well-conditioned system", d)
										}
									}
								}
							}
							ck.ctx = ""
							if n == 0 {
								if rc := impl.Dpbcon(uplo, 0, kd, nil, kd+1, 0, nil, nil); rc != 1 {
									ck.failf("Dpbcon n=0 returned %v, want 1", rc)
								}
								return
							}
							work := poisonVec(3 * n)
							iwork := make([]int, n)
							rc := impl.Dpbcon(uplo, n, kd, facS.d, ldab, norm1(a), work, iwork)
							facS.checkRO(ck, "Dpbcon ab")
							if ainv, iok := inverse(a); iok {
								condCheck(ck, "Dpbcon", rc, norm1(a), norm1(ainv))
							}
						})
					}
				}
			}
		}
	}
}
