package main

import (
	"fmt"
	"math"
	"strings"

	"gonum.org/v1/gonum/internal/verif/vlib"
)

type qp3Run struct {
	out    M
	tau    []float64
	jpvt   []int
	path   string
	w0     float64
	failed bool
}

const qp3WorkClass = "dgeqp3-fixed-columns-workspace"

func runGeqp3(ck *checker, what string, a M, lda int, jpvt0 []int, lwork int) qp3Run {
	m, n := a.r, a.c
	s := place(a, lda, nil)
	k := imin(m, n)
	tau := poisonVec(k)
	jpvt := append([]int(nil), jpvt0...)
	work := poisonVec(imax(1, lwork))
	resetL3()
	if msg := catch(func() { impl.Dgeqp3(m, n, s.d, lda, jpvt, tau, work, lwork) }); msg != "" {
		nfxd := 0
		for _, v := range jpvt0 {
			if v >= 0 {
				nfxd++
			}
		}
		old := ck.class
		if nfxd > 0 && strings.Contains(msg, "insufficient length of f") {
			// known: with fixed columns the workspace test uses 2*sn+(sn+1)*nb but the layout needs 2*n+(sn+1)*nb
			ck.class = qp3WorkClass
		}
		ck.failf("%s panicked with a documented-valid lwork=%d (>= 3n+1 = %d): %s", what, lwork, 3*n+1, msg)
		ck.class = old
		return qp3Run{failed: true}
	}
	r := qp3Run{out: s.get(), tau: tau, jpvt: jpvt, w0: work[0]}
	r.path = "laqp2"
	if l3.gemm > 0 {
		r.path = "laqps"
	}
	s.checkOut(ck, what)
	return r
}

func qp3Oracle(ck *checker, what string, a M, jpvt0 []int, r qp3Run) {
	if r.failed {
		return
	}
	m, n := a.r, a.c
	k := imin(m, n)
	if k == 0 {
		return
	}
	if hasNaN(r.out) || anyNaN(r.tau) {
		ck.failf("%s: NaN in factorization", what)
		return
	}
	if !isPerm(r.jpvt) {
		ck.failf("%s: jpvt=%v is not a permutation", what, r.jpvt)
		return
	}
	// fixed columns first
	nfxd := 0
	fixed := map[int]bool{}
	for j, v := range jpvt0 {
		if v >= 0 {
			fixed[j] = true
			nfxd++
		}
	}
	for j := 0; j < nfxd; j++ {
		if !fixed[r.jpvt[j]] {
			ck.failf("%s: column %d of A*P is the free column %d although %d columns were fixed (jpvt in %v, out %v)", what, j, r.jpvt[j], nfxd, jpvt0, r.jpvt)
			return
		}
	}
	ap := newM(m, n)
	for i := 0; i < m; i++ {
		for j := 0; j < n; j++ {
			ap.a[i*n+j] = a.at(i, r.jpvt[j])
		}
	}
	rf := qrReflectors(r.out, r.tau)
	q := qOf(rf, true)
	dim := float64(m)
	ck.ratio("qp3 |QtQ-I|/(m eps)", norm1(sub(mul(q.T(), q), eye(m)))/(dim*eps))
	tri := newM(m, n)
	for i := 0; i < k; i++ {
		for j := i; j < n; j++ {
			tri.a[i*n+j] = r.out.at(i, j)
		}
	}
	an := norm1(a)
	res := norm1(sub(mul(q, tri), ap))
	if an == 0 {
		if res != 0 {
			ck.failf("%s: zero matrix but Q*R != 0", what)
		}
		return
	}
	ck.ratio("qp3 |QR-AP|/(m eps |A|)", res/(dim*eps*an))
	// column pivoting: |r_kk| >= norm(R[k:j+1, j]) for the free columns, up to
	// the accuracy of the down-dated column norms (sqrt(eps) by LAWN 176) and rounding noise.
	slack := 100 * float64(imax(m, n)) * eps * normMax(a)
	for kk := nfxd; kk < k; kk++ {
		d := math.Abs(tri.at(kk, kk))
		for j := kk + 1; j < n; j++ {
			var s float64
			for i := kk; i < k; i++ {
				s += tri.at(i, j) * tri.at(i, j)
			}
			s = math.Sqrt(s)
			if s > d*(1+1e-4)+slack {
				ck.failf("%s: pivoting violated: |r[%d,%d]|=%.6g < norm(R[%d:,%d])=%.6g", what, kk, kk, d, kk, j, s)
				return
			}
		}
	}
	if r.w0 != math.Floor(r.w0) || r.w0 < float64(3*n+1) {
		ck.failf("%s: work[0]=%v on return, want the optimal lwork >= %d", what, r.w0, 3*n+1)
	}
}

func genQp3(g *vlib.G) {
	N := vlib.Pick(g, 12, 14)
	nbs := vlib.Pick(g, []int{2, 3, 4}, []int{2, 3, 4, 5})
	nxs := []int{0, 4}
	fams := generalFams(N, g.Thorough())
	for m := 0; m <= N; m++ {
		for n := 0; n <= N; n++ {
			for _, f := range fams {
				if j, ok := posFam(f.name); ok && j >= n {
					continue
				}
				for _, pat := range []string{"free", "mixed", "fixed"} {
					if pat != "free" && !(f.name == "dd" || f.name == "rank1" || f.name == "sparse") {
						continue
					}
					for _, nb := range nbs {
						for _, nx := range nxs {
							m, n, f, pat, nb, nx := m, n, f, pat, nb, nx
							g.Case(fmt.Sprintf("Dgeqp3 m=%d n=%d fam=%s jpvt=%s nb=%d nx=%d", m, n, f.name, pat, nb, nx), func(t *vlib.T) {
								defer seamOff()
								ck := &checker{t: t}
								a := f.gen(m, n)
								k := imin(m, n)
								if k >= 2 {
									t.Nontrivial()
								}
								jp := make([]int, n)
								for j := range jp {
									jp[j] = -1
									if pat == "fixed" || pat == "mixed" && j%3 == 1 {
										jp[j] = 0
									}
								}
								ldmin := imax(1, n)
								minw := 3*n + 1
								if k == 0 {
									minw = 1
								}
								// the unblocked twin: block size 1 makes Dgeqp3 use Dlaqp2 only.
								seamOn(1, 0)
								ref := runGeqp3(ck, "Dgeqp3(nb=1)", a, ldmin, jp, minw)
								qp3Oracle(ck, "Dgeqp3(nb=1)", a, jp, ref)
								if ref.path != "laqp2" && pat == "free" {
									ck.failf("harness: nb=1 run used Dlaqps")
								}
								seamOn(nb, nx)
								qs := place(a, ldmin, nil)
								qtau := poisonVec(k)
								qtau0 := append([]float64(nil), qtau...)
								qjp := append([]int(nil), jp...)
								query := workQuery(ck, "Dgeqp3", minw, k == 0, func(work []float64) {
									impl.Dgeqp3(m, n, qs.d, ldmin, qjp, qtau, work, -1)
								})
								qs.checkRO(ck, "Dgeqp3 query a")
								if _, same := vlib.Same64(qtau, qtau0); !same {
									ck.failf("Dgeqp3 query wrote tau")
								}
								if !intsSame(qjp, jp) {
									ck.failf("Dgeqp3 query wrote jpvt")
								}
								risky := larftRisk(qrReflectors(ref.out, ref.tau)) && pat != "free"
								paths := map[string]int{}
								for _, lwork := range lworkMenu(minw, query, 0, true) {
									for _, lda := range []int{ldmin, ldmin + 3} {
										if lda != ldmin && lwork != minw && lwork != query && lwork != query+5 {
											continue
										}
										ck.ctx = fmt.Sprintf("lwork=%d lda=%d", lwork, lda)
										ck.class = ""
										if risky {
											ck.class = larftClass
										}
										rb := runGeqp3(ck, "Dgeqp3", a, lda, jp, lwork)
										qp3Oracle(ck, "Dgeqp3", a, jp, rb)
										if rb.failed {
											continue
										}
										paths[rb.path]++
										if f.wellQR() && intsSame(rb.jpvt, ref.jpvt) && k > 0 {
											if d := maxAbsDiff(rb.out, ref.out); d > diffTol*math.Max(1, normMax(a)) {
												ck.failf("Dgeqp3 blocked vs nb=1 with identical pivots: factors differ by %.3g", d)
											}
										}
									}
								}
								ck.ctx, ck.class = "", ""
								oc := ""
								for _, p := range []string{"laqps", "laqp2"} {
									if paths[p] > 0 {
										oc += "+" + p
									}
								}
								if oc == "" {
									oc = "+none"
								}
								t.Outcome(pat + "/" + oc[1:])
							})
						}
					}
				}
			}
		}
		if g.Stopped() {
			return
		}
	}
}
