// Command c02 checks property C02: LAPACK factorizations, solves and inverses
// of gonum are backward stable for all shapes, block sizes, leading dimensions
// and workspace lengths. See NOTES.md.
package main

import "gonum.org/v1/gonum/internal/verif/vlib"

func main() {
	installBLAS()
	vlib.Main("C02",
		vlib.Group{Name: "lu", Gen: genLU},
		vlib.Group{Name: "lu-solve", Gen: genLUSolve},
		vlib.Group{Name: "chol", Gen: genChol},
		vlib.Group{Name: "chol-solve", Gen: genCholSolve},
		vlib.Group{Name: "chol-band", Gen: genBandChol},
		vlib.Group{Name: "chol-piv", Gen: genPst},
		vlib.Group{Name: "chol-piv-tol", Gen: genPstTol},
		vlib.Group{Name: "con-ladder", Gen: genConLadder},
		vlib.Group{Name: "qr", Gen: genFactor(kindQR)},
		vlib.Group{Name: "lq", Gen: genFactor(kindLQ)},
		vlib.Group{Name: "rq", Gen: genFactor(kindRQ)},
		vlib.Group{Name: "ql", Gen: genFactor(kindQL)},
		vlib.Group{Name: "orgqr", Gen: genOrg(orgQR)},
		vlib.Group{Name: "orglq", Gen: genOrg(orgLQ)},
		vlib.Group{Name: "orgql", Gen: genOrg(orgQL)},
		vlib.Group{Name: "orgr2", Gen: genOrg(orgRQ)},
		vlib.Group{Name: "ormqr", Gen: genOrm(ormQR)},
		vlib.Group{Name: "ormlq", Gen: genOrm(ormLQ)},
		vlib.Group{Name: "ormr2", Gen: genOrm(ormRQ)},
		vlib.Group{Name: "qp3", Gen: genQp3},
		vlib.Group{Name: "larfg", Gen: genLarfg},
		vlib.Group{Name: "larf", Gen: genLarf},
		vlib.Group{Name: "larft-larfb", Gen: genLarfb},
		vlib.Group{Name: "gels", Gen: genGels},
		vlib.Group{Name: "tri", Gen: genTri},
		vlib.Group{Name: "lauum", Gen: genLauum},
		vlib.Group{Name: "tri-band", Gen: genTriBand},
		vlib.Group{Name: "latrs", Gen: genLatrs},
		vlib.Group{Name: "gtsv", Gen: genGtsv},
		vlib.Group{Name: "pt", Gen: genPt},
		vlib.Group{Name: "laswp", Gen: genLaswp},
		vlib.Group{Name: "lapm", Gen: genLapm},
		vlib.Group{Name: "norms", Gen: genNorms},
		vlib.Group{Name: "lacn2", Gen: genLacn2},
		vlib.Group{Name: "lapack64", Gen: genWrap},
		vlib.Group{Name: "stock-lu", Gen: genStockLU},
		vlib.Group{Name: "stock-chol", Gen: genStockChol},
		vlib.Group{Name: "stock-qr", Gen: genStockQR},
		vlib.Group{Name: "stock-misc", Gen: genStockMisc},
	)
}
