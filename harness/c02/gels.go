package main

import (
	"fmt"
	"math"

	"gonum.org/v1/gonum/blas"
	"gonum.org/v1/gonum/internal/verif/vlib"
)

const gelsClass = "dgels-iascl2-not-undone"
const gelsQueryClass = "dgels-query-zeroes-b"
const gelsScllenClass = "dgels-scllen-unset-wide-trans"

type gelsRun struct {
	x    M // the solution block
	ok   bool
	path string
}

func scaleM(a M, e int) M {
	b := a.clone()
	if e != 0 {
		for i := range b.a {
			b.a[i] = math.Ldexp(b.a[i], e)
		}
	}
	return b
}

func runGels(ck *checker, trans blas.Transpose, a, b M, lda, ldb, lwork int) gelsRun {
	m, n, nrhs := a.r, a.c, b.c
	as := place(a, lda, nil)
	// b is max(m,n) x nrhs; rows beyond the right-hand side are output space: poison on entry.
	brows := m
	if trans != blas.NoTrans {
		brows = n
	}
	bs := place(b, ldb, func(i, j int) bool { return i < brows })
	work := poisonVec(imax(1, lwork))
	resetL3()
	ok := impl.Dgels(trans, m, n, nrhs, as.d, lda, bs.d, ldb, work, lwork)
	r := gelsRun{ok: ok, path: "unblocked"}
	if l3.gemm+l3.trmm > 0 {
		r.path = "blocked"
	}
	as.checkOut(ck, "Dgels a")
	for i := 0; i < b.r; i++ {
		for j := 0; j < nrhs; j++ {
			bs.ref[i*ldb+j] = true
		}
	}
	if i, intact := bs.poisonIntact(); !intact {
		ck.failf("Dgels b: padding written at offset %d", i)
	}
	rows := n
	if trans != blas.NoTrans {
		rows = m
	}
	r.x = bs.get().slice(0, rows, 0, nrhs)
	return r
}

// gelsOracle checks the least-squares / minimum-norm conditions for op(A) X = B.
func gelsOracle(ck *checker, what string, op, b, x M, well bool) {
	mm, nn := op.r, op.c // op is mm x nn, b mm x nrhs, x nn x nrhs
	if x.c == 0 || mm == 0 || nn == 0 {
		return
	}
	if hasNaN(x) {
		ck.failf("%s: NaN in solution", what)
		return
	}
	dim := float64(imax(imax(mm, nn), x.c))
	an, bn, xn := norm1(op), norm1(b), norm1(x)
	r := sub(mul(op, x), b)
	den := dim * eps * an * (an*xn + bn)
	if mm >= nn {
		// least squares: op^T (op X - B) = 0
		g := mul(op.T(), r)
		if den == 0 {
			if norm1(g) != 0 {
				ck.failf("%s: non-zero gradient with zero scale", what)
			}
			return
		}
		ck.ratio("gels |At(AX-B)|/(n eps |A|(|A||X|+|B|))", norm1(g)/den)
		return
	}
	// minimum norm: op X = B and X in the row space of op
	den2 := dim * eps * (an*xn + bn)
	if den2 == 0 {
		if norm1(r) != 0 {
			ck.failf("%s: non-zero residual with zero scale", what)
		}
		return
	}
	ck.ratio("gels |AX-B|/(n eps (|A||X|+|B|))", norm1(r)/den2)
	if well {
		gram := mul(op, op.T())
		gi, ok := inverse(gram)
		if ok {
			z := sub(x, mul(op.T(), mul(gi, mul(op, x))))
			if d := normMax(z); d > 1e-9*math.Max(1, normMax(x)) {
				ck.failf("%s: solution is not the minimum-norm one: component %.3g in the null space", what, d)
			}
		}
	}
}

func genGels(g *vlib.G) {
	N := vlib.Pick(g, 12, 13)
	nbs := vlib.Pick(g, []int{1, 2, 3, 4}, []int{1, 2, 3, 4, 5})
	fams := pickFams(generalFams(N, false), "dd", "had", "rowgraded", "colgraded", "id", "zero", "signmix", "cluster", "zerocol0", fmt.Sprintf("zerocol%d", N/2))
	type scl struct {
		name   string
		ea, eb int
	}
	scls := []scl{{"1", 0, 0}}
	extreme := []scl{{"Ahuge", 1000, 1000}, {"Atiny", -1000, -1000}, {"Bhuge", 0, 1000}, {"Btiny", 0, -1000}, {"Ahuge-B1", 1000, 0}, {"Atiny-B1", -1000, 0}}
	for _, trans := range allTrans {
		for m := 0; m <= N; m++ {
			for n := 0; n <= N; n++ {
				for _, nrhs := range []int{0, 1, 3} {
					for _, f := range fams {
						ss := scls
						if f.name == "dd" && nrhs == 1 {
							ss = append(append([]scl(nil), scls...), extreme...)
						}
						if len(f.name) > 7 && f.name[:7] == "zerocol" && m < n {
							continue
						}
						for _, sc := range ss {
							for _, nb := range nbs {
								if sc.name != "1" && nb != nbs[0] {
									continue
								}
								if trans == blas.ConjTrans && !((f.name == "dd" || f.name == "had") && nb == nbs[0]) {
									continue // ConjTrans is documented as a synonym of Trans: two families, one block size
								}
								trans, m, n, nrhs, f, sc, nb := trans, m, n, nrhs, f, sc, nb
								g.Case(fmt.Sprintf("Dgels trans=%s m=%d n=%d nrhs=%d fam=%s scale=%s nb=%d", transName(trans), m, n, nrhs, f.name, sc.name, nb), func(t *vlib.T) {
									defer seamOff()
									seamOn(nb, 0)
									ck := &checker{t: t}
									mn := imin(m, n)
									if mn >= 2 && nrhs > 0 {
										t.Nontrivial()
									}
									a0 := f.gen(m, n)
									op0 := opOf(a0, trans)
									brows := op0.r
									// integer right-hand side, inconsistent in general
									b0 := newM(imax(m, n), nrhs)
									for i := 0; i < brows; i++ {
										for j := 0; j < nrhs; j++ {
											b0.a[i*nrhs+j] = float64(h3(i, j, 61) + 1)
										}
									}
									a, b := scaleM(a0, sc.ea), scaleM(b0, sc.eb)
									scaledClass := ""
									if mn > 0 && nrhs > 0 {
										switch {
										case sc.ea > 0:
											scaledClass = gelsClass // A above bignum: the scaling of A is not undone
										case sc.name != "1" && m < n && trans != blas.NoTrans:
											scaledClass = gelsScllenClass // scllen stays 0: no scaling is undone
										}
									}
									ck.class = scaledClass
									minw := imax(1, mn+imax(mn, nrhs))
									docMin := imax(1, imax(m, n)+imax(imax(m, n), nrhs))
									lda, ldb := imax(1, n), imax(1, nrhs)
									// query
									qa, qb := place(a, lda, nil), place(b, ldb, func(i, j int) bool { return i < brows })
									ck.quietEmpty = !(f.name == "dd" && nb == nbs[0])
									query := workQuery(ck, "Dgels", minw, mn == 0 || nrhs == 0, func(work []float64) {
										if ok := impl.Dgels(trans, m, n, nrhs, qa.d, lda, qb.d, ldb, work, -1); !ok {
											ck.failf("Dgels query returned false")
										}
									})
									qa.checkRO(ck, "Dgels query a")
									if mn == 0 {
										// known deviation from the reference: the empty-problem quick return precedes the query return
										ck.class = gelsQueryClass
									}
									if !(mn == 0 && ck.quietEmpty) {
										qb.checkRO(ck, "Dgels query b")
									}
									ck.class = scaledClass
									exactSing := f.exactSingular(m, n) && m >= n && f.name != "zero"
									var opt M
									paths := map[string]int{}
									menu := append([]int{query}, lworkMenu(minw, query, 0, true)...)
									menu = append(menu, docMin)
									for idx, lwork := range menu {
										for _, pd := range ldPads {
											if pd != ldPads[0] && idx > 0 && lwork != minw && lwork != query+5 {
												continue
											}
											pad := pd[0] + pd[1]
											ck.ctx = fmt.Sprintf("lwork=%d lda+%d ldb+%d", lwork, pd[0], pd[1])
											r := runGels(ck, trans, a, b, lda+pd[0], ldb+pd[1], lwork)
											paths[r.path]++
											if mn == 0 || nrhs == 0 || normMax(a0) == 0 {
												if !r.ok {
													ck.failf("Dgels returned false on an empty or zero problem")
												}
												for _, v := range r.x.a {
													if v != 0 {
														ck.failf("Dgels: solution of an empty or zero problem must be zero, got %v", v)
														break
													}
												}
												continue
											}
											if exactSing {
												if r.ok {
													ck.failf("Dgels returned true although R has an exactly zero diagonal entry")
												}
												continue
											}
											if !r.ok {
												if f.well || f.name == "rowgraded" || f.name == "colgraded" {
													ck.failf("Dgels returned false on a full-rank matrix")
												}
												continue
											}
											// undo the power-of-two scaling exactly: X0 = X * 2^(ea-eb)
											x0 := scaleM(scaleM(r.x, sc.ea), -sc.eb)
											gelsOracle(ck, "Dgels", op0, b0.slice(0, brows, 0, nrhs), x0, f.well)
											if idx == 0 && pad == 0 {
												opt = x0
											} else if f.well && opt.a != nil {
												if d := maxAbsDiff(x0, opt); d > diffTol*math.Max(1, normMax(opt)) {
													ck.failf("solution differs from the optimum-lwork result by %.3g", d)
												}
											}
										}
									}
									ck.ctx, ck.class = "", ""
									oc := ""
									for _, p := range []string{"blocked", "unblocked"} {
										if paths[p] > 0 {
											oc += "+" + p
										}
									}
									t.Outcome(sc.name + "/" + oc[1:])
								})
							}
						}
					}
				}
			}
			if g.Stopped() {
				return
			}
		}
	}
}
