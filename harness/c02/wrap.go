package main

import (
	"fmt"
	"math"

	"gonum.org/v1/gonum/blas"
	"gonum.org/v1/gonum/blas/blas64"
	"gonum.org/v1/gonum/internal/verif/vlib"
	"gonum.org/v1/gonum/lapack"
	"gonum.org/v1/gonum/lapack/lapack64"
)

// genWrap: every lapack64 wrapper of a routine in scope must hand its operands
// to the implementation exactly as documented: the result of the wrapper call
// is compared bit for bit with the direct call on identical copies.

func sameBits(ck *checker, what string, a, b []float64) {
	if i, ok := vlib.Same64(a, b); !ok {
		ck.failf("%s: wrapper and direct call differ at offset %d", what, i)
	}
}

func genWrap(g *vlib.G) {
	for _, n := range []int{1, 4, 7} {
		for _, pad := range []int{0, 3} {
			n, pad := n, pad
			g.Case(fmt.Sprintf("lapack64 n=%d ld+%d", n, pad), func(t *vlib.T) {
				ck := &checker{t: t}
				t.Nontrivial()
				ld := n + pad
				nrhs := 2
				ldb := nrhs + pad
				gen := func(a M) []float64 { return place(a, ld, nil).d }
				dd := genDD(0)(n, n)
				spd := genSPD(0)(n)
				b := mul(dd, xTrue(n, nrhs))
				bd := func() []float64 { return place(b, ldb, nil).d }
				general := func(d []float64, r, c, s int) blas64.General {
					return blas64.General{Rows: r, Cols: c, Stride: s, Data: d}
				}
				for _, uplo := range uplos {
					// Potrf / Potrs / Potri / Pocon / Pstrf
					a1, a2 := gen(spd), gen(spd)
					tr, ok1 := lapack64.Potrf(blas64.Symmetric{N: n, Stride: ld, Data: a1, Uplo: uplo})
					ok2 := impl.Dpotrf(uplo, n, a2, ld)
					sameBits(ck, "Potrf", a1, a2)
					if ok1 != ok2 || tr.Uplo != uplo || tr.N != n || tr.Stride != ld || tr.Diag != blas.NonUnit || &tr.Data[0] != &a1[0] {
						ck.failf("Potrf: returned triangular %+v ok=%v", tr.Uplo, ok1)
					}
					b1, b2 := bd(), bd()
					lapack64.Potrs(tr, general(b1, n, nrhs, ldb))
					impl.Dpotrs(uplo, n, nrhs, a2, ld, b2, ldb)
					sameBits(ck, "Potrs", b1, b2)
					w1, w2 := make([]float64, 3*n), make([]float64, 3*n)
					c1 := lapack64.Pocon(blas64.Symmetric{N: n, Stride: ld, Data: a1, Uplo: uplo}, 10, w1, make([]int, n))
					c2 := impl.Dpocon(uplo, n, a2, ld, 10, w2, make([]int, n))
					if c1 != c2 {
						ck.failf("Pocon: %v vs %v", c1, c2)
					}
					sy, ok1 := lapack64.Potri(tr)
					ok2 = impl.Dpotri(uplo, n, a2, ld)
					sameBits(ck, "Potri", a1, a2)
					if ok1 != ok2 || sy.Uplo != uplo || sy.N != n {
						ck.failf("Potri: returned %v ok=%v", sy.Uplo, ok1)
					}
					a1, a2 = gen(spd), gen(spd)
					p1, p2 := make([]int, n), make([]int, n)
					_, r1, ok1 := lapack64.Pstrf(blas64.Symmetric{N: n, Stride: ld, Data: a1, Uplo: uplo}, p1, -1, make([]float64, 2*n))
					r2, ok2 := impl.Dpstrf(uplo, n, a2, ld, p2, -1, make([]float64, 2*n))
					sameBits(ck, "Pstrf", a1, a2)
					if r1 != r2 || ok1 != ok2 || !intsSame(p1, p2) {
						ck.failf("Pstrf: rank/ok/piv differ")
					}
					// band: Pbtrf / Pbtrs / Pbcon / Lansb / Lantb / Tbtrs
					kd := imin(2, n-1)
					bs := genBandSPD(n, kd)
					s1 := placeBand(bs, uplo, kd, kd+1+pad, false)
					s2 := placeBand(bs, uplo, kd, kd+1+pad, false)
					sb := blas64.SymmetricBand{N: n, K: kd, Stride: kd + 1 + pad, Data: s1.d, Uplo: uplo}
					for _, nrm := range normKinds {
						if v1, v2 := lapack64.Lansb(nrm, sb, make([]float64, n)), impl.Dlansb(nrm, uplo, n, kd, s2.d, kd+1+pad, make([]float64, n)); v1 != v2 {
							ck.failf("Lansb %s: %v vs %v", normName(nrm), v1, v2)
						}
					}
					tb, ok1 := lapack64.Pbtrf(sb)
					ok2 = impl.Dpbtrf(uplo, n, kd, s2.d, kd+1+pad)
					sameBits(ck, "Pbtrf", s1.d, s2.d)
					if ok1 != ok2 || tb.K != kd || tb.N != n || tb.Uplo != uplo || tb.Stride != kd+1+pad {
						ck.failf("Pbtrf: returned band %+v", tb.K)
					}
					b1, b2 = bd(), bd()
					lapack64.Pbtrs(tb, general(b1, n, nrhs, ldb))
					impl.Dpbtrs(uplo, n, kd, nrhs, s2.d, kd+1+pad, b2, ldb)
					sameBits(ck, "Pbtrs", b1, b2)
					if v1, v2 := lapack64.Pbcon(sb, 10, make([]float64, 3*n), make([]int, n)), impl.Dpbcon(uplo, n, kd, s2.d, kd+1+pad, 10, make([]float64, 3*n), make([]int, n)); v1 != v2 {
						ck.failf("Pbcon: %v vs %v", v1, v2)
					}
					for _, diag := range diags {
						tb.Diag = diag
						for _, nrm := range normKinds {
							if v1, v2 := lapack64.Lantb(nrm, tb, make([]float64, n)), impl.Dlantb(nrm, uplo, diag, n, kd, s2.d, kd+1+pad, make([]float64, n)); v1 != v2 && !(math.IsNaN(v1) && math.IsNaN(v2)) {
								ck.failf("Lantb %s: %v vs %v", normName(nrm), v1, v2)
							}
						}
						for _, trans := range transes {
							b1, b2 = bd(), bd()
							o1 := lapack64.Tbtrs(trans, tb, general(b1, n, nrhs, ldb))
							o2 := impl.Dtbtrs(uplo, trans, diag, n, kd, nrhs, s2.d, kd+1+pad, b2, ldb)
							sameBits(ck, "Tbtrs", b1, b2)
							if o1 != o2 {
								ck.failf("Tbtrs ok differs")
							}
						}
						// dense triangular: Trtri / Trtrs / Trcon / Lantr
						a1, a2 = gen(dd), gen(dd)
						tri := blas64.Triangular{N: n, Stride: ld, Data: a1, Uplo: uplo, Diag: diag}
						for _, nrm := range normKinds {
							if v1, v2 := lapack64.Lantr(nrm, tri, make([]float64, n)), impl.Dlantr(nrm, uplo, diag, n, n, a2, ld, make([]float64, n)); v1 != v2 {
								ck.failf("Lantr %s: %v vs %v", normName(nrm), v1, v2)
							}
						}
						for _, nrm := range []lapack.MatrixNorm{lapack.MaxColumnSum, lapack.MaxRowSum} {
							if v1, v2 := lapack64.Trcon(nrm, tri, make([]float64, 3*n), make([]int, n)), impl.Dtrcon(nrm, uplo, diag, n, a2, ld, make([]float64, 3*n), make([]int, n)); v1 != v2 {
								ck.failf("Trcon: %v vs %v", v1, v2)
							}
						}
						for _, trans := range transes {
							b1, b2 = bd(), bd()
							o1 := lapack64.Trtrs(trans, tri, general(b1, n, nrhs, ldb))
							o2 := impl.Dtrtrs(uplo, trans, diag, n, nrhs, a2, ld, b2, ldb)
							sameBits(ck, "Trtrs", b1, b2)
							if o1 != o2 {
								ck.failf("Trtrs ok differs")
							}
						}
						o1 := lapack64.Trtri(tri)
						o2 := impl.Dtrtri(uplo, diag, n, a2, ld)
						sameBits(ck, "Trtri", a1, a2)
						if o1 != o2 {
							ck.failf("Trtri ok differs")
						}
					}
					for _, nrm := range normKinds {
						a1 = gen(spd)
						if v1, v2 := lapack64.Lansy(nrm, blas64.Symmetric{N: n, Stride: ld, Data: a1, Uplo: uplo}, make([]float64, n)), impl.Dlansy(nrm, uplo, n, a1, ld, make([]float64, n)); v1 != v2 {
							ck.failf("Lansy %s: %v vs %v", normName(nrm), v1, v2)
						}
					}
				}
				// LU: Getrf / Getrs / Getri / Gecon
				a1, a2 := gen(dd), gen(dd)
				p1, p2 := make([]int, n), make([]int, n)
				o1 := lapack64.Getrf(general(a1, n, n, ld), p1)
				o2 := impl.Dgetrf(n, n, a2, ld, p2)
				sameBits(ck, "Getrf", a1, a2)
				if o1 != o2 || !intsSame(p1, p2) {
					ck.failf("Getrf ok/ipiv differ")
				}
				for _, trans := range transes {
					b1, b2 := bd(), bd()
					lapack64.Getrs(trans, general(a1, n, n, ld), general(b1, n, nrhs, ldb), p1)
					impl.Dgetrs(trans, n, nrhs, a2, ld, p2, b2, ldb)
					sameBits(ck, "Getrs", b1, b2)
				}
				for _, nrm := range []lapack.MatrixNorm{lapack.MaxColumnSum, lapack.MaxRowSum} {
					if v1, v2 := lapack64.Gecon(nrm, general(a1, n, n, ld), 10, make([]float64, 4*n), make([]int, n)), impl.Dgecon(nrm, n, a2, ld, 10, make([]float64, 4*n), make([]int, n)); v1 != v2 {
						ck.failf("Gecon: %v vs %v", v1, v2)
					}
				}
				w1, w2 := make([]float64, 64*n), make([]float64, 64*n)
				o1 = lapack64.Getri(general(a1, n, n, ld), p1, w1, len(w1))
				o2 = impl.Dgetri(n, a2, ld, p2, w2, len(w2))
				sameBits(ck, "Getri", a1, a2)
				if o1 != o2 {
					ck.failf("Getri ok differs")
				}
				// rectangular: Geqrf / Orgqr / Ormqr / Gelqf / Orglq / Ormlq / Geqp3 / Gels / Lange / Lapmt / Lapmr
				m := n + 2
				rect := genDD(1)(m, n)
				lw := 4096 + 64*(m+n)
				a1, a2 = gen(rect), gen(rect)
				t1, t2 := make([]float64, n), make([]float64, n)
				lapack64.Geqrf(general(a1, m, n, ld), t1, make([]float64, lw), lw)
				impl.Dgeqrf(m, n, a2, ld, t2, make([]float64, lw), lw)
				sameBits(ck, "Geqrf", a1, a2)
				sameBits(ck, "Geqrf tau", t1, t2)
				for _, side := range sides {
					for _, trans := range transes {
						cm, cn := m, 3
						if side == blas.Right {
							cm, cn = 3, m
						}
						c := genDD(2)(cm, cn)
						c1, c2 := place(c, cn+pad, nil).d, place(c, cn+pad, nil).d
						lapack64.Ormqr(side, trans, general(a1, m, n, ld), t1, general(c1, cm, cn, cn+pad), make([]float64, lw), lw)
						impl.Dormqr(side, trans, cm, cn, n, a2, ld, t2, c2, cn+pad, make([]float64, lw), lw)
						sameBits(ck, "Ormqr", c1, c2)
					}
				}
				lapack64.Orgqr(general(a1, m, n, ld), t1, make([]float64, lw), lw)
				impl.Dorgqr(m, n, n, a2, ld, t2, make([]float64, lw), lw)
				sameBits(ck, "Orgqr", a1, a2)
				wide := genDD(1)(n, m)
				ldw := m + pad
				a1, a2 = place(wide, ldw, nil).d, place(wide, ldw, nil).d
				lapack64.Gelqf(general(a1, n, m, ldw), t1, make([]float64, lw), lw)
				impl.Dgelqf(n, m, a2, ldw, t2, make([]float64, lw), lw)
				sameBits(ck, "Gelqf", a1, a2)
				for _, side := range sides {
					for _, trans := range transes {
						cm, cn := m, 3
						if side == blas.Right {
							cm, cn = 3, m
						}
						c := genDD(2)(cm, cn)
						c1, c2 := place(c, cn+pad, nil).d, place(c, cn+pad, nil).d
						lapack64.Ormlq(side, trans, general(a1, n, m, ldw), t1, general(c1, cm, cn, cn+pad), make([]float64, lw), lw)
						impl.Dormlq(side, trans, cm, cn, n, a2, ldw, t2, c2, cn+pad, make([]float64, lw), lw)
						sameBits(ck, "Ormlq", c1, c2)
					}
				}
				lapack64.Orglq(general(a1, n, m, ldw), t1, make([]float64, lw), lw)
				impl.Dorglq(n, m, n, a2, ldw, t2, make([]float64, lw), lw)
				sameBits(ck, "Orglq", a1, a2)
				a1, a2 = gen(rect), gen(rect)
				j1, j2 := make([]int, n), make([]int, n)
				for j := range j1 {
					j1[j], j2[j] = -1, -1
				}
				lapack64.Geqp3(general(a1, m, n, ld), j1, t1, make([]float64, lw), lw)
				impl.Dgeqp3(m, n, a2, ld, j2, t2, make([]float64, lw), lw)
				sameBits(ck, "Geqp3", a1, a2)
				if !intsSame(j1, j2) {
					ck.failf("Geqp3 jpvt differs")
				}
				for _, trans := range transes {
					a1, a2 = gen(rect), gen(rect)
					bb := genDD(3)(m, nrhs)
					b1, b2 := place(bb, ldb, nil).d, place(bb, ldb, nil).d
					o1 := lapack64.Gels(trans, general(a1, m, n, ld), general(b1, m, nrhs, ldb), make([]float64, lw), lw)
					o2 := impl.Dgels(trans, m, n, nrhs, a2, ld, b2, ldb, make([]float64, lw), lw)
					sameBits(ck, "Gels", b1, b2)
					if o1 != o2 {
						ck.failf("Gels ok differs")
					}
				}
				for _, nrm := range normKinds {
					a1 = gen(rect)
					if v1, v2 := lapack64.Lange(nrm, general(a1, m, n, ld), make([]float64, n)), impl.Dlange(nrm, m, n, a1, ld, make([]float64, n)); v1 != v2 {
						ck.failf("Lange: %v vs %v", v1, v2)
					}
				}
				for _, fwd := range []bool{true, false} {
					a1, a2 = gen(rect), gen(rect)
					k1 := make([]int, n)
					for i := range k1 {
						k1[i] = (i + 1) % n
					}
					lapack64.Lapmt(fwd, general(a1, m, n, ld), append([]int(nil), k1...))
					impl.Dlapmt(fwd, m, n, a2, ld, append([]int(nil), k1...))
					sameBits(ck, "Lapmt", a1, a2)
					a1, a2 = gen(rect), gen(rect)
					kr := make([]int, m)
					for i := range kr {
						kr[i] = (i + 2) % m
					}
					lapack64.Lapmr(fwd, general(a1, m, n, ld), append([]int(nil), kr...))
					impl.Dlapmr(fwd, m, n, a2, ld, append([]int(nil), kr...))
					sameBits(ck, "Lapmr", a1, a2)
				}
				// tridiagonal: Gtsv (trans swaps dl and du), Langt
				dl, d, du := gtFams(n)[0].gen(n)
				for _, trans := range transes {
					b1, b2 := bd(), bd()
					l1, d1, u1 := append([]float64(nil), dl...), append([]float64(nil), d...), append([]float64(nil), du...)
					l2, d2, u2 := append([]float64(nil), dl...), append([]float64(nil), d...), append([]float64(nil), du...)
					o1 := lapack64.Gtsv(trans, lapack64.Tridiagonal{N: n, DL: l1, D: d1, DU: u1}, general(b1, n, nrhs, ldb))
					var o2 bool
					if trans == blas.NoTrans {
						o2 = impl.Dgtsv(n, nrhs, l2, d2, u2, b2, ldb)
					} else {
						o2 = impl.Dgtsv(n, nrhs, u2, d2, l2, b2, ldb)
					}
					sameBits(ck, "Gtsv", b1, b2)
					if o1 != o2 {
						ck.failf("Gtsv ok differs")
					}
				}
				for _, nrm := range normKinds {
					if v1, v2 := lapack64.Langt(nrm, lapack64.Tridiagonal{N: n, DL: dl, D: d, DU: du}), impl.Dlangt(nrm, n, dl, d, du); v1 != v2 {
						ck.failf("Langt: %v vs %v", v1, v2)
					}
				}
				kl, ku := imin(1, n-1), imin(2, n-1)
				gb := make([]float64, m*(kl+ku+1+pad))
				for i := range gb {
					gb[i] = float64(i%5 - 2)
				}
				for _, nrm := range normKinds {
					if v1, v2 := lapack64.Langb(nrm, blas64.Band{Rows: m, Cols: n, KL: kl, KU: ku, Stride: kl + ku + 1 + pad, Data: gb}), impl.Dlangb(nrm, m, n, kl, ku, gb, kl+ku+1+pad); v1 != v2 {
						ck.failf("Langb: %v vs %v", v1, v2)
					}
				}
				t.Outcome("wrappers")
			})
		}
	}
}
